/-
  C01 — Data is delivered exactly to the faces with a matching pending Interest.
  Property theorems over the shared model `Fw` (C01/Fw.lean).  Unless a hypothesis `WF s` is stated
  the theorems hold for EVERY state `s`; `WF` (tokens unique, one in-record per face and entry) is an
  invariant of every state reachable from an empty PIT by any history (`wf_run`).
  Helper lemmas: C01/FwLemmas.lean, C01/FwLemmas2.lean.
-/
import NdnVerif.C01.Model
import NdnVerif.C01.FwLemmas
import NdnVerif.C01.FwLemmas2
import NdnVerif.C01.FwMulti
import NdnVerif.C01.FwLemmas4
namespace Ndn.Fw.C01
open Ndn Ndn.Fw Ndn.Fw.Spec

/-- Data arriving on a face is emitted only on faces that at that moment hold an unsatisfied pending
    Interest it satisfies (token echo in this forwarder's 6-byte format, or — with no such token — name
    equal / extension with CanBePrefix), never elsewhere; each copy is the arriving Data itself and
    carries the PIT token that face supplied; scope rules permitting. -/
theorem data_sends_subset (s : St) (f : FaceId) (d : Data) (snd : Send) (h : snd ∈ (step s (.data f d)).2) :
    ∃ g tok, snd = .data g d.name d.content tok ∧
      (∃ e ∈ s.pit, satisfies d e = true ∧ ∃ r ∈ e.inRecs, r.face = g ∧ r.tok = tok) ∧
      Deliverable s.faces d.name g := by
  simp only [step] at h
  exact onData_sends s f d snd h

example :
    let e : Entry := ⟨[⟨8, [97]⟩], true, false, none, 0, [⟨2, 7, 1000, [9]⟩], [], false, some 1000⟩
    let s : St := { faces := [⟨1, true, .p2p⟩, ⟨2, true, .p2p⟩], pit := [e], nextTok := 1 }
    (step s (.data 1 { name := [⟨8, [97]⟩, ⟨8, [98]⟩], content := 5 })).2 = [.data 2 [⟨8, [97]⟩, ⟨8, [98]⟩] 5 [9]] := by decide

/-- the invariant holds in every state reachable from an empty PIT by any history of operations -/
theorem wf_reachable (s0 : St) (h0 : s0.pit = []) (ops : List Op) : WF (run s0 ops) := wf_run s0 h0 ops

/-- Exactness.  In a reachable state (`WF`), for an accepted Data arriving on `f` and any OTHER face `g`:
    the copies sent to `g` are exactly one per in-record of `g` in the entries the Data satisfies (each
    satisfied entry counted once), each carrying that in-record's PIT token, scope rules permitting
    (`dataSends` drops a copy only when `g` does not exist or the /localhost scope rule forbids it). -/
theorem data_sends_exact (s : St) (hwf : WF s) (f : FaceId) (d : Data) (fc : Face)
    (hf : faceOf s.faces f = some fc) (hacc : (!fc.isLocal && isLocalhost d.name) = false)
    (g : FaceId) (hg : g ≠ f) :
    ∃ ms : List Entry, ms.Nodup ∧ (∀ e, e ∈ ms ↔ e ∈ s.pit ∧ satisfies d e = true) ∧
      (∀ e ∈ ms, ((e.inRecs.filter (·.face == g)).length ≤ 1)) ∧
      (step s (.data f d)).2.filter (·.face == g) =
        ms.flatMap fun e =>
          dataSends s.faces d.name d.content ((e.inRecs.filter (·.face == g)).map fun r => (r.face, r.tok)) := by
  refine ⟨matchData s.pit d, matchData_nodup hwf d, mem_matchData_iff hwf d, ?_, ?_⟩
  · intro e he
    have hnd := hwf.inNodup e (mem_matchData he).1
    exact inRecs_face_le_one hnd g
  · simp only [step]
    exact onData_sends_filter s f d fc hf hacc g hg

/-- … in particular every face other than the arrival face that holds a pending Interest the Data
    satisfies and that the scope rule admits does receive its copy, with the token it supplied. -/
theorem data_reaches_every_pending_face (s : St) (f : FaceId) (d : Data) (fc : Face)
    (hf : faceOf s.faces f = some fc) (hacc : (!fc.isLocal && isLocalhost d.name) = false)
    (e : Entry) (he : e ∈ s.pit) (hs : satisfies d e = true) (hwf : WF s)
    (r : InRec) (hr : r ∈ e.inRecs) (hg : r.face ≠ f) (gf : Face) (hgf : faceOf s.faces r.face = some gf)
    (hsc : (!gf.isLocal && isLocalhost d.name) = false) :
    Send.data r.face d.name d.content r.tok ∈ (step s (.data f d)).2 := by
  obtain ⟨ms, _, hmem, _, heq⟩ := data_sends_exact s hwf f d fc hf hacc r.face hg
  have h1 : Send.data r.face d.name d.content r.tok ∈ (step s (.data f d)).2.filter (·.face == r.face) := by
    rw [heq, List.mem_flatMap]
    refine ⟨e, (hmem e).mpr ⟨he, hs⟩, ?_⟩
    apply dataSends_of_deliverable (t := (r.face, r.tok)) _ hgf hsc
    rw [List.mem_map]
    exact ⟨r, List.mem_filter.mpr ⟨hr, by simp⟩, rfl⟩
  exact (List.mem_filter.mp h1).1

example :
    let e1 : Entry := ⟨[⟨8, [97]⟩], true, false, none, 0, [⟨2, 7, 1000, [9]⟩, ⟨3, 8, 1000, []⟩], [], false, some 1000⟩
    let e2 : Entry := ⟨[⟨8, [97]⟩, ⟨8, [98]⟩], false, false, none, 1, [⟨2, 7, 1000, [1]⟩], [], false, some 1000⟩
    let s : St := { faces := [⟨1, true, .p2p⟩, ⟨2, true, .p2p⟩, ⟨3, false, .p2p⟩], pit := [e1, e2], nextTok := 2 }
    (step s (.data 1 { name := [⟨8, [97]⟩, ⟨8, [98]⟩], content := 5 })).2 =
      [.data 2 [⟨8, [97]⟩, ⟨8, [98]⟩] 5 [1], .data 2 [⟨8, [97]⟩, ⟨8, [98]⟩] 5 [9], .data 3 [⟨8, [97]⟩, ⟨8, [98]⟩] 5 []] := by decide

/-- The pending Interests a Data satisfies are consumed: afterwards no entry it satisfies holds an
    in-record. -/
theorem data_consumes (s : St) (f : FaceId) (d : Data) (fc : Face)
    (hf : faceOf s.faces f = some fc) (hacc : (!fc.isLocal && isLocalhost d.name) = false) :
    ∀ e ∈ (step s (.data f d)).1.pit, satisfies d e = true → e.inRecs = [] := by
  simp only [step]
  exact onData_consumes s f d fc hf hacc

/-- … so that a repeated copy of the Data is delivered to nobody. -/
theorem data_repeat_silent (s : St) (f : FaceId) (d : Data) :
    (step (step s (.data f d)).1 (.data f d)).2 = [] := by
  simp only [step]
  exact onData_repeat s f d

example :
    let e : Entry := ⟨[⟨8, [97]⟩], true, false, none, 0, [⟨2, 7, 1000, [9]⟩], [], false, some 1000⟩
    let s : St := { faces := [⟨1, true, .p2p⟩, ⟨2, true, .p2p⟩], pit := [e], nextTok := 1 }
    let d : Data := { name := [⟨8, [97]⟩, ⟨8, [98]⟩], content := 5 }
    (step s (.data 1 d)).2 ≠ [] ∧ (step (step s (.data 1 d)).1 (.data 1 d)).2 = [] := by decide

/-- Data served from the cache in answer to an Interest goes to that Interest's face alone: it is
    the only send of the operation (no upstream Interest), it matches the Interest, comes from the
    Content Store and carries the PIT token the requester supplied. -/
theorem cs_hit_single (s : St) (f : FaceId) (i : Interest) (tie : List FaceId) (pick : Nat) (snd : Send)
    (h : snd ∈ (step s (.interest f i tie pick)).2) (hd : snd.isData = true) :
    (step s (.interest f i tie pick)).2 = [snd] ∧
    ∃ ce ∈ s.cs, snd = .data f ce.name ce.content i.tok ∧ nameMatch ce.name i.name i.cbp = true := by
  simp only [step] at h ⊢
  rcases onInterest_out s f i tie pick with h0 | ⟨ce, h1, hm, hce, _⟩ | ⟨hop, tok, _, hfw⟩
  · rw [h0] at h; simp at h
  · rw [h1] at h ⊢
    simp at h
    subst h
    exact ⟨rfl, ce, hce, rfl, hm⟩
  · obtain ⟨g, rfl, _⟩ := hfw snd h
    simp [Send.isData] at hd

example :
    let s : St := { faces := [⟨1, true, .p2p⟩, ⟨2, true, .p2p⟩], fib := [([], [(2, 1)])],
                    cs := [⟨[⟨8, [97]⟩], 5, 0⟩] }
    (step s (.interest 1 { name := [⟨8, [97]⟩], nonce := some 3, tok := [4] } [] 0)).2 = [.data 1 [⟨8, [97]⟩] 5 [4]] := by decide

/-! ### the forwarder as several forwarding threads (C01/FwMulti.lean)

  PIT and CS are per thread; the face layer assigns packets to threads by name hashes `H` (any function). -/

/-- Interests for the same name always meet in the same thread, whatever face they come from and
    whatever their flags, nonce or forwarding hint (aggregation and the duplicate-nonce test are per
    PIT entry of that one thread). -/
theorem mt_same_name_same_thread (n : Nat) (H : Name → Nat) (i1 i2 : Interest) (h : i1.name = i2.name) :
    interestThread n H i1.name = interestThread n H i2.name := by rw [h]

theorem isLocalhost_of_prefix {a b : Name} (hp : Name.isPrefixOf a b = true) (hl : isLocalhost a = true) :
    isLocalhost b = true := by
  have h1 := eq_take_of_isPrefixOf hp
  cases a with
  | nil => simp [isLocalhost] at hl
  | cons c t =>
    cases b with
    | nil => simp at h1
    | cons c' t' =>
      simp only [List.length_cons, List.take_succ_cons, List.cons.injEq] at h1
      simp only [isLocalhost] at hl ⊢
      rw [← h1.1]; exact hl

/-- A token-less Data is queued to the thread of EVERY Interest name it can satisfy: the thread that
    holds an Interest whose name is a prefix of (or equal to) the Data name — the empty name included —
    is among the Data's threads (after the fixes of F-01a / F-01b, for local and non-local faces). -/
theorem mt_dispatch_covers (n : Nat) (hn : 0 < n) (H : Name → Nat) (iname dname : Name)
    (hp : Name.isPrefixOf iname dname = true) :
    interestThread n H iname ∈ dataThreads n H dname none := by
  unfold dataThreads interestThread prefixThreads
  simp only [List.mem_filter, List.mem_range, List.contains_eq_mem, decide_eq_true_eq]
  by_cases hli : isLocalhost iname = true
  · have hld := isLocalhost_of_prefix hp hli
    simp [hli, hld, hn]
  · have hli' : isLocalhost iname = false := by simpa using hli
    simp only [hli', Bool.false_eq_true, if_false]
    refine ⟨Nat.mod_lt _ hn, ?_⟩
    by_cases hld : isLocalhost dname = true
    · -- a non-/localhost prefix of a /localhost name is the empty name
      have : iname = [] := by
        cases iname with
        | nil => rfl
        | cons c t =>
          exfalso
          have h1 := eq_take_of_isPrefixOf hp
          cases dname with
          | nil => simp at h1
          | cons c' t' =>
            simp only [List.length_cons, List.take_succ_cons, List.cons.injEq] at h1
            simp only [isLocalhost] at hld hli'
            rw [← h1.1] at hld
            rw [hld] at hli'
            cases hli'
      simp [hld, this]
    · have hld' : isLocalhost dname = false := by simpa using hld
      simp only [hld', Bool.false_eq_true, if_false, List.mem_map]
      refine ⟨iname, ?_, rfl⟩
      rw [eq_take_of_isPrefixOf hp]
      apply take_mem_prefixesDesc
      unfold Name.isPrefixOf at hp
      simp at hp
      exact hp.1

/-- a Data echoing a 6-byte PIT token goes to the thread that minted it (if that thread exists) -/
theorem mt_token_thread (n : Nat) (H : Name → Nat) (name : Name) (t : Nat) (ht : t < n) :
    dataThreads n H name (some t) = [t] := by simp [dataThreads, ht]

/-- Delivery across threads: in thread `t` (reachable state, entries placed by the dispatch rule) entry
    `e` holds an in-record of face `r.face`; a token-less Data that satisfies it by name arrives on
    another face `f`, on any face scope: the copy for `r.face`, with its token, is among the sends of
    the forwarder, scope rules permitting. -/
theorem mt_data_delivered (m : MSt) (H : Name → Nat) (t : Nat) (s : St) (hs : m.ts[t]? = some s) (hwf : WF s)
    (e : Entry) (he : e ∈ s.pit) (hplace : interestThread m.n H e.name = t)
    (f : FaceId) (d : Data) (fc : Face) (hf : faceOf s.faces f = some fc)
    (hacc : (!fc.isLocal && isLocalhost d.name) = false)
    (htok : ∀ v, d.tok ≠ .six v) (hm : nameMatch d.name e.name e.cbp = true)
    (r : InRec) (hr : r ∈ e.inRecs) (hg : r.face ≠ f) (gf : Face) (hgf : faceOf s.faces r.face = some gf)
    (hsc : (!gf.isLocal && isLocalhost d.name) = false) :
    Send.data r.face d.name d.content r.tok ∈ (mData m H f d none).2 := by
  have hn : 0 < m.n := by
    unfold MSt.n
    have := List.getElem?_eq_some_iff.mp hs
    obtain ⟨hlt, _⟩ := this
    omega
  have hpre : Name.isPrefixOf e.name d.name = true := by
    unfold nameMatch at hm
    simp only [Bool.or_eq_true, beq_iff_eq, Bool.and_eq_true] at hm
    rcases hm with h | h
    · rw [h]
      have := isPrefixOf_take e.name e.name.length
      simpa using this
    · exact h.2
  have hcov := mt_dispatch_covers m.n hn H e.name d.name hpre
  rw [hplace] at hcov
  have hsat : satisfies d e = true := by
    unfold satisfies
    cases hd : d.tok with
    | six v => exact absurd hd (htok v)
    | none => exact hm
    | other b => exact hm
  have := data_reaches_every_pending_face s f d fc hf hacc e he hsat hwf r hr hg gf hgf hsc
  simp only [step] at this
  simp only [mData, List.mem_flatMap]
  exact ⟨t, hcov, by rw [hs]; exact this⟩

/-- Every state of the multi-thread forwarder reachable from empty PITs by any history (configuration and
    timer operations on all threads, Interests and Data dispatched by the face-layer rule with a fixed
    name hash `H`): each thread satisfies `WF`, and every PIT entry lives in the thread the dispatch
    rule assigns to its name. -/
theorem mt_reachable (H : Name → Nat) (m0 : MSt) (h0 : ∀ s ∈ m0.ts, s.pit = []) (ops : List MOp) :
    (∀ (t : Nat) (s : St), (mrun H m0 ops).ts[t]? = some s → WF s) ∧ Placed H (mrun H m0 ops) :=
  mrun_inv H m0 h0 ops

/-- C01 exactness across threads, for every reachable state of the forwarder: whichever thread holds the
    pending Interest, a token-less Data that satisfies it by name (arriving on any other face, local or
    non-local) is delivered to the pending face with the token that face supplied, scope permitting. -/
theorem mt_data_delivered_reachable (H : Name → Nat) (m0 : MSt) (h0 : ∀ s ∈ m0.ts, s.pit = []) (ops : List MOp)
    (t : Nat) (s : St) (hs : (mrun H m0 ops).ts[t]? = some s) (e : Entry) (he : e ∈ s.pit)
    (f : FaceId) (d : Data) (fc : Face) (hf : faceOf s.faces f = some fc)
    (hacc : (!fc.isLocal && isLocalhost d.name) = false)
    (htok : ∀ v, d.tok ≠ .six v) (hm : nameMatch d.name e.name e.cbp = true)
    (r : InRec) (hr : r ∈ e.inRecs) (hg : r.face ≠ f) (gf : Face) (hgf : faceOf s.faces r.face = some gf)
    (hsc : (!gf.isLocal && isLocalhost d.name) = false) :
    Send.data r.face d.name d.content r.tok ∈ (mstep H (mrun H m0 ops) (.data f d none)).2 := by
  obtain ⟨hwf, hpl⟩ := mt_reachable H m0 h0 ops
  exact mt_data_delivered (mrun H m0 ops) H t s hs (hwf t s hs) e he ((hpl t s hs).all e he) f d fc hf hacc htok hm
    r hr hg gf hgf hsc

example :
    let e : Entry := ⟨[], true, false, none, 0, [⟨2, 7, 1000, [9]⟩], [], false, some 1000⟩
    let s0 : St := { faces := [⟨1, true, .p2p⟩, ⟨2, true, .p2p⟩] }
    let m : MSt := ⟨[s0, { s0 with pit := [e], nextTok := 1 }, s0]⟩
    -- hash: the empty name ↦ thread 1, everything else ↦ thread 0
    let H : Name → Nat := fun n => if n.isEmpty then 1 else 0
    (mData m H 1 { name := [⟨8, [97]⟩], content := 5 } none).2 = [.data 2 [⟨8, [97]⟩] 5 [9]] := by decide

end Ndn.Fw.C01
