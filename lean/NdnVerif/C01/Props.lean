/-
  C01 — Data is delivered exactly to the faces with a matching pending Interest.
  Property theorems over the shared model `Fw` (C01/Fw.lean).  Unless a hypothesis `WF s` is stated
  the theorems hold for EVERY state `s`; `WF` (tokens unique, one in-record per face and entry) is an
  invariant of every state reachable from an empty PIT by any history (`wf_run`).
  Helper lemmas: C01/FwLemmas.lean, C01/FwLemmas2.lean.
-/
import NdnVerif.C01.Model
import NdnVerif.C01.FwLemmas
import NdnVerif.C01.FwLemmas2
namespace Ndn.Fw.C01
open Ndn Ndn.Fw Ndn.Fw.Spec

/-- Data arriving on a face is emitted only on faces that at that moment hold an unsatisfied pending
    Interest it satisfies (token echo in this forwarder's 6-byte format, or — with no such token — name
    equal / extension with CanBePrefix), never elsewhere; each copy is the arriving Data itself and
    carries the PIT token that face supplied; scope rules permitting. -/
theorem data_sends_subset (s : St) (f : FaceId) (d : Data) (snd : Send) (h : snd ∈ (step s (.data f d)).2) :
    ∃ g tok, snd = .data g d.name d.content tok ∧
      (∃ e ∈ s.pit, satisfies d e = true ∧ ∃ r ∈ e.inRecs, r.face = g ∧ r.tok = tok) ∧
      Deliverable s.faces d.name g := by
  simp only [step] at h
  exact onData_sends s f d snd h

example :
    let e : Entry := ⟨[⟨8, [97]⟩], true, false, none, 0, [⟨2, 7, 1000, [9]⟩], [], false, some 1000⟩
    let s : St := { faces := [⟨1, true, .p2p⟩, ⟨2, true, .p2p⟩], pit := [e], nextTok := 1 }
    (step s (.data 1 { name := [⟨8, [97]⟩, ⟨8, [98]⟩], content := 5 })).2 = [.data 2 [⟨8, [97]⟩, ⟨8, [98]⟩] 5 [9]] := by decide

/-- the invariant holds in every state reachable from an empty PIT by any history of operations -/
theorem wf_reachable (s0 : St) (h0 : s0.pit = []) (ops : List Op) : WF (run s0 ops) := wf_run s0 h0 ops

/-- Exactness.  In a reachable state (`WF`), for an accepted Data arriving on `f` and any OTHER face `g`:
    the copies sent to `g` are exactly one per in-record of `g` in the entries the Data satisfies (each
    satisfied entry counted once), each carrying that in-record's PIT token, scope rules permitting
    (`dataSends` drops a copy only when `g` does not exist or the /localhost scope rule forbids it). -/
theorem data_sends_exact (s : St) (hwf : WF s) (f : FaceId) (d : Data) (fc : Face)
    (hf : faceOf s.faces f = some fc) (hacc : (!fc.isLocal && isLocalhost d.name) = false)
    (g : FaceId) (hg : g ≠ f) :
    ∃ ms : List Entry, ms.Nodup ∧ (∀ e, e ∈ ms ↔ e ∈ s.pit ∧ satisfies d e = true) ∧
      (∀ e ∈ ms, ((e.inRecs.filter (·.face == g)).length ≤ 1)) ∧
      (step s (.data f d)).2.filter (·.face == g) =
        ms.flatMap fun e =>
          dataSends s.faces d.name d.content ((e.inRecs.filter (·.face == g)).map fun r => (r.face, r.tok)) := by
  refine ⟨matchData s.pit d, matchData_nodup hwf d, mem_matchData_iff hwf d, ?_, ?_⟩
  · intro e he
    have hnd := hwf.inNodup e (mem_matchData he).1
    exact inRecs_face_le_one hnd g
  · simp only [step]
    exact onData_sends_filter s f d fc hf hacc g hg

/-- … in particular every face other than the arrival face that holds a pending Interest the Data
    satisfies and that the scope rule admits does receive its copy, with the token it supplied. -/
theorem data_reaches_every_pending_face (s : St) (f : FaceId) (d : Data) (fc : Face)
    (hf : faceOf s.faces f = some fc) (hacc : (!fc.isLocal && isLocalhost d.name) = false)
    (e : Entry) (he : e ∈ s.pit) (hs : satisfies d e = true) (hwf : WF s)
    (r : InRec) (hr : r ∈ e.inRecs) (hg : r.face ≠ f) (gf : Face) (hgf : faceOf s.faces r.face = some gf)
    (hsc : (!gf.isLocal && isLocalhost d.name) = false) :
    Send.data r.face d.name d.content r.tok ∈ (step s (.data f d)).2 := by
  obtain ⟨ms, _, hmem, _, heq⟩ := data_sends_exact s hwf f d fc hf hacc r.face hg
  have h1 : Send.data r.face d.name d.content r.tok ∈ (step s (.data f d)).2.filter (·.face == r.face) := by
    rw [heq, List.mem_flatMap]
    refine ⟨e, (hmem e).mpr ⟨he, hs⟩, ?_⟩
    apply dataSends_of_deliverable (t := (r.face, r.tok)) _ hgf hsc
    rw [List.mem_map]
    exact ⟨r, List.mem_filter.mpr ⟨hr, by simp⟩, rfl⟩
  exact (List.mem_filter.mp h1).1

example :
    let e1 : Entry := ⟨[⟨8, [97]⟩], true, false, none, 0, [⟨2, 7, 1000, [9]⟩, ⟨3, 8, 1000, []⟩], [], false, some 1000⟩
    let e2 : Entry := ⟨[⟨8, [97]⟩, ⟨8, [98]⟩], false, false, none, 1, [⟨2, 7, 1000, [1]⟩], [], false, some 1000⟩
    let s : St := { faces := [⟨1, true, .p2p⟩, ⟨2, true, .p2p⟩, ⟨3, false, .p2p⟩], pit := [e1, e2], nextTok := 2 }
    (step s (.data 1 { name := [⟨8, [97]⟩, ⟨8, [98]⟩], content := 5 })).2 =
      [.data 2 [⟨8, [97]⟩, ⟨8, [98]⟩] 5 [1], .data 2 [⟨8, [97]⟩, ⟨8, [98]⟩] 5 [9], .data 3 [⟨8, [97]⟩, ⟨8, [98]⟩] 5 []] := by decide

/-- The pending Interests a Data satisfies are consumed: afterwards no entry it satisfies holds an
    in-record. -/
theorem data_consumes (s : St) (f : FaceId) (d : Data) (fc : Face)
    (hf : faceOf s.faces f = some fc) (hacc : (!fc.isLocal && isLocalhost d.name) = false) :
    ∀ e ∈ (step s (.data f d)).1.pit, satisfies d e = true → e.inRecs = [] := by
  simp only [step]
  exact onData_consumes s f d fc hf hacc

/-- … so that a repeated copy of the Data is delivered to nobody. -/
theorem data_repeat_silent (s : St) (f : FaceId) (d : Data) :
    (step (step s (.data f d)).1 (.data f d)).2 = [] := by
  simp only [step]
  exact onData_repeat s f d

example :
    let e : Entry := ⟨[⟨8, [97]⟩], true, false, none, 0, [⟨2, 7, 1000, [9]⟩], [], false, some 1000⟩
    let s : St := { faces := [⟨1, true, .p2p⟩, ⟨2, true, .p2p⟩], pit := [e], nextTok := 1 }
    let d : Data := { name := [⟨8, [97]⟩, ⟨8, [98]⟩], content := 5 }
    (step s (.data 1 d)).2 ≠ [] ∧ (step (step s (.data 1 d)).1 (.data 1 d)).2 = [] := by decide

/-- Data served from the cache in answer to an Interest goes to that Interest's face alone: it is
    the only send of the operation (no upstream Interest), it matches the Interest, comes from the
    Content Store and carries the PIT token the requester supplied. -/
theorem cs_hit_single (s : St) (f : FaceId) (i : Interest) (tie : List FaceId) (pick : Nat) (snd : Send)
    (h : snd ∈ (step s (.interest f i tie pick)).2) (hd : snd.isData = true) :
    (step s (.interest f i tie pick)).2 = [snd] ∧
    ∃ ce ∈ s.cs, snd = .data f ce.name ce.content i.tok ∧ nameMatch ce.name i.name i.cbp = true := by
  simp only [step] at h ⊢
  rcases onInterest_out s f i tie pick with h0 | ⟨ce, h1, hm, hce, _⟩ | ⟨hop, tok, _, hfw⟩
  · rw [h0] at h; simp at h
  · rw [h1] at h ⊢
    simp at h
    subst h
    exact ⟨rfl, ce, hce, rfl, hm⟩
  · obtain ⟨g, rfl, _⟩ := hfw snd h
    simp [Send.isData] at hd

example :
    let s : St := { faces := [⟨1, true, .p2p⟩, ⟨2, true, .p2p⟩], fib := [([], [(2, 1)])],
                    cs := [⟨[⟨8, [97]⟩], 5, 0⟩] }
    (step s (.interest 1 { name := [⟨8, [97]⟩], nonce := some 3, tok := [4] } [] 0)).2 = [.data 1 [⟨8, [97]⟩] 5 [4]] := by decide

end Ndn.Fw.C01
