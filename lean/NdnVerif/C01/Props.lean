/-
  C01 — Data is delivered exactly to the faces with a matching pending Interest.
  Property theorems over the shared model `Fw` (C01/Fw.lean).  Unless a hypothesis `WF s` is stated
  the theorems hold for EVERY state `s`; `WF` (tokens unique, one in-record per face and entry) is an
  invariant of every state reachable from an empty PIT by any history (`wf_run`).
  Helper lemmas: C01/FwLemmas.lean, C01/FwLemmas2.lean.
-/
import NdnVerif.C01.Model
import NdnVerif.C01.FwLemmas
import NdnVerif.C01.FwLemmas2
namespace Ndn.Fw.C01
open Ndn Ndn.Fw Ndn.Fw.Spec

/-- Data arriving on a face is emitted only on faces that at that moment hold an unsatisfied pending
    Interest it satisfies (token echo in this forwarder's 6-byte format, or — with no such token — name
    equal / extension with CanBePrefix), never elsewhere; each copy is the arriving Data itself and
    carries the PIT token that face supplied; scope rules permitting. -/
theorem data_sends_subset (s : St) (f : FaceId) (d : Data) (snd : Send) (h : snd ∈ (step s (.data f d)).2) :
    ∃ g tok, snd = .data g d.name d.content tok ∧
      (∃ e ∈ s.pit, satisfies d e = true ∧ ∃ r ∈ e.inRecs, r.face = g ∧ r.tok = tok) ∧
      Deliverable s.faces d.name g := by
  simp only [step] at h
  exact onData_sends s f d snd h

example :
    let e : Entry := ⟨[⟨8, [97]⟩], true, false, none, 0, [⟨2, 7, 1000, [9]⟩], [], false, some 1000⟩
    let s : St := { faces := [⟨1, true, .p2p⟩, ⟨2, true, .p2p⟩], pit := [e], nextTok := 1 }
    (step s (.data 1 { name := [⟨8, [97]⟩, ⟨8, [98]⟩], content := 5 })).2 = [.data 2 [⟨8, [97]⟩, ⟨8, [98]⟩] 5 [9]] := by decide

/-- The pending Interests a Data satisfies are consumed: afterwards no entry it satisfies holds an
    in-record. -/
theorem data_consumes (s : St) (f : FaceId) (d : Data) (fc : Face)
    (hf : faceOf s.faces f = some fc) (hacc : (!fc.isLocal && isLocalhost d.name) = false) :
    ∀ e ∈ (step s (.data f d)).1.pit, satisfies d e = true → e.inRecs = [] := by
  simp only [step]
  exact onData_consumes s f d fc hf hacc

/-- … so that a repeated copy of the Data is delivered to nobody. -/
theorem data_repeat_silent (s : St) (f : FaceId) (d : Data) :
    (step (step s (.data f d)).1 (.data f d)).2 = [] := by
  simp only [step]
  exact onData_repeat s f d

example :
    let e : Entry := ⟨[⟨8, [97]⟩], true, false, none, 0, [⟨2, 7, 1000, [9]⟩], [], false, some 1000⟩
    let s : St := { faces := [⟨1, true, .p2p⟩, ⟨2, true, .p2p⟩], pit := [e], nextTok := 1 }
    let d : Data := { name := [⟨8, [97]⟩, ⟨8, [98]⟩], content := 5 }
    (step s (.data 1 d)).2 ≠ [] ∧ (step (step s (.data 1 d)).1 (.data 1 d)).2 = [] := by decide

/-- Data served from the cache in answer to an Interest goes to that Interest's face alone: it is
    the only send of the operation (no upstream Interest), it matches the Interest, comes from the
    Content Store and carries the PIT token the requester supplied. -/
theorem cs_hit_single (s : St) (f : FaceId) (i : Interest) (tie : List FaceId) (pick : Nat) (snd : Send)
    (h : snd ∈ (step s (.interest f i tie pick)).2) (hd : snd.isData = true) :
    (step s (.interest f i tie pick)).2 = [snd] ∧
    ∃ ce ∈ s.cs, snd = .data f ce.name ce.content i.tok ∧ nameMatch ce.name i.name i.cbp = true := by
  simp only [step] at h ⊢
  rcases onInterest_out s f i tie pick with h0 | ⟨ce, h1, hm, hce, _⟩ | ⟨hop, tok, _, hfw⟩
  · rw [h0] at h; simp at h
  · rw [h1] at h ⊢
    simp at h
    subst h
    exact ⟨rfl, ce, hce, rfl, hm⟩
  · obtain ⟨g, rfl, _⟩ := hfw snd h
    simp [Send.isData] at hd

example :
    let s : St := { faces := [⟨1, true, .p2p⟩, ⟨2, true, .p2p⟩], fib := [([], [(2, 1)])],
                    cs := [⟨[⟨8, [97]⟩], 5, 0⟩] }
    (step s (.interest 1 { name := [⟨8, [97]⟩], nonce := some 3, tok := [4] } [] 0)).2 = [.data 1 [⟨8, [97]⟩] 5 [4]] := by decide

end Ndn.Fw.C01
