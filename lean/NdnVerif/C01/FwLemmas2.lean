/-
  C01/FwLemmas2.lean — invariants of reachable states and liveness lemmas of the shared model `Fw`.
-/
import NdnVerif.C01.FwLemmas
namespace Ndn.Fw
open Ndn Ndn.Fw.Spec

/-! ### consumption of pending Interests by a Data -/

theorem matchData_complete {pit : List Entry} {d : Data} {e : Entry} (he : e ∈ pit) (hs : satisfies d e = true) :
    ∃ e0 ∈ matchData pit d, e0.token = e.token := by
  unfold matchData
  unfold satisfies at hs
  cases hd : d.tok with
  | six v =>
    simp only [hd, beq_iff_eq] at hs
    simp only [Option.mem_toList]
    cases hfind : pit.find? (·.token == v) with
    | none =>
      have := List.find?_eq_none.mp hfind e he
      simp [hs] at this
    | some e0 =>
      have := List.find?_some hfind
      exact ⟨e0, rfl, by simp at this; rw [this, hs]⟩
  | none =>
    simp only [hd] at hs
    exact ⟨e, mem_matchByName.mpr ⟨he, hs⟩, rfl⟩
  | other b =>
    simp only [hd] at hs
    exact ⟨e, mem_matchByName.mpr ⟨he, hs⟩, rfl⟩

theorem onData_faces (s : St) (f : FaceId) (d : Data) : (onData s f d).1.faces = s.faces := by
  unfold onData
  split
  · rfl
  · split
    · rfl
    · dsimp only
      have hfaces : (if s.csAdmit = true then csInsert s d else s).faces = s.faces := by split <;> simp
      split <;> simp [hfaces]

theorem onData_consumes (s : St) (f : FaceId) (d : Data) (fc : Face)
    (hf : faceOf s.faces f = some fc) (hacc : (!fc.isLocal && isLocalhost d.name) = false) :
    ∀ e ∈ (onData s f d).1.pit, satisfies d e = true → e.inRecs = [] := by
  intro e' he' hsat
  unfold onData at he'
  simp only [hf, hacc, Bool.false_eq_true, if_false] at he'
  have hpit : (if s.csAdmit = true then csInsert s d else s).pit = s.pit := by split <;> simp
  rw [hpit] at he'
  split at he'
  · rename_i hm
    simp only [hpit] at he'
    obtain ⟨e0, he0, _⟩ := matchData_complete he' hsat
    rw [hm] at he0
    simp at he0
  · rename_i e hm
    simp only [countData_pit, dnlInsertAll_pit, modifyEntry, List.mem_map] at he'
    obtain ⟨x, hx, rfl⟩ := he'
    split
    · simp [Entry.clearRecs]
    · rename_i hne
      split at hsat
      · exact absurd ‹_› hne
      · obtain ⟨e0, he0, ht⟩ := matchData_complete hx hsat
        rw [hm] at he0
        simp at he0
        subst he0
        simp [ht] at hne
  · rename_i e0 rest hm
    simp only [countData_pit, dnlInsertAll_pit, List.mem_map] at he'
    obtain ⟨x, hx, rfl⟩ := he'
    split
    · simp [Entry.clearRecs]
    · rename_i hne
      split at hsat
      · exact absurd ‹_› hne
      · obtain ⟨e1, he1, ht⟩ := matchData_complete hx hsat
        exfalso
        apply hne
        simp only [List.contains_eq_mem, List.mem_map, decide_eq_true_eq]
        exact ⟨e1, he1, ht⟩

theorem onData_repeat (s : St) (f : FaceId) (d : Data) : (onData (onData s f d).1 f d).2 = [] := by
  cases hf : faceOf s.faces f with
  | none =>
    have h1 : onData s f d = (s, []) := by unfold onData; simp [hf]
    rw [h1]; simp only; rw [h1]
  | some fc =>
    cases hacc : (!fc.isLocal && isLocalhost d.name) with
    | true =>
      have h1 : onData s f d = (s, []) := by unfold onData; simp only [hf, hacc, if_true]
      rw [h1]; simp only; rw [h1]
    | false =>
      rw [List.eq_nil_iff_forall_not_mem]
      intro snd hsnd
      obtain ⟨g, tok, _, ⟨e, he, hsat, r, hr, _⟩, _⟩ := onData_sends _ f d snd hsnd
      have := onData_consumes s f d fc hf hacc e he hsat
      rw [this] at hr
      simp at hr

/-! ### the invariant of reachable states -/

/-- PIT tokens are unique and below the allocation counter; an entry holds at most one in-record per
    face (the Go map key) -/
structure WF (s : St) : Prop where
  tokLt : ∀ e ∈ s.pit, e.token < s.nextTok
  tokNodup : (s.pit.map (·.token)).Nodup
  inNodup : ∀ e ∈ s.pit, (e.inRecs.map (·.face)).Nodup

theorem wf_init (s : St) (h : s.pit = []) : WF s := by
  constructor <;> simp [h]

/-- a state whose PIT is the old one mapped by a token-preserving function -/
theorem wf_map {s s' : St} (h : WF s) (g : Entry → Entry) (hp : s'.pit = s.pit.map g) (hn : s.nextTok ≤ s'.nextTok)
    (ht : ∀ e, (g e).token = e.token) (hi : ∀ e ∈ s.pit, ((g e).inRecs.map (·.face)).Nodup) : WF s' := by
  constructor
  · intro e he
    rw [hp, List.mem_map] at he
    obtain ⟨x, hx, rfl⟩ := he
    rw [ht]
    exact Nat.lt_of_lt_of_le (h.tokLt x hx) hn
  · rw [hp, List.map_map]
    have : ((fun x => x.token) ∘ g) = fun x => x.token := by funext x; simp [ht]
    rw [this]
    exact h.tokNodup
  · intro e he
    rw [hp, List.mem_map] at he
    obtain ⟨x, hx, rfl⟩ := he
    exact hi x hx

theorem wf_frame {s s' : St} (h : WF s) (hp : s'.pit = s.pit) (hn : s'.nextTok = s.nextTok) : WF s' := by
  constructor
  · rw [hp, hn]; exact h.tokLt
  · rw [hp]; exact h.tokNodup
  · rw [hp]; exact h.inNodup

theorem modifyEntry_eq_map (pit : List Entry) (tok : Nat) (g : Entry → Entry) :
    modifyEntry pit tok g = pit.map (fun e => if e.token == tok then g e else e) := rfl

/-- modifyEntry with a token-preserving function keeps the invariant when in-record faces stay distinct -/
theorem wf_modify {s s' : St} (h : WF s) (tok : Nat) (g : Entry → Entry) (hp : s'.pit = modifyEntry s.pit tok g)
    (hn : s.nextTok ≤ s'.nextTok) (ht : ∀ e, (g e).token = e.token)
    (hi : ∀ e ∈ s.pit, e.token = tok → ((g e).inRecs.map (·.face)).Nodup) : WF s' := by
  apply wf_map h (fun e => if e.token == tok then g e else e) hp hn
  · intro e; split <;> simp [ht]
  · intro e he
    split
    · rename_i heq; exact hi e he (by simpa using heq)
    · exact h.inNodup e he

theorem wf_map' {s : St} (h : WF s) (g : Entry → Entry)
    (ht : ∀ e, (g e).token = e.token) (hi : ∀ e ∈ s.pit, ((g e).inRecs.map (·.face)).Nodup) :
    WF { s with pit := s.pit.map g } := wf_map h g rfl (Nat.le_refl _) ht hi

theorem wf_modify' {s : St} (h : WF s) (tok : Nat) (g : Entry → Entry) (ht : ∀ e, (g e).token = e.token)
    (hi : ∀ e ∈ s.pit, e.token = tok → ((g e).inRecs.map (·.face)).Nodup) :
    WF { s with pit := modifyEntry s.pit tok g } := wf_modify h tok g rfl (Nat.le_refl _) ht hi

/-! #### removal of an entry (slice swap) -/

theorem mem_removeEntry {pit : List Entry} {tok : Nat} {x : Entry} (h : x ∈ removeEntry pit tok) : x ∈ pit := by
  unfold removeEntry at h
  split at h
  · exact h
  · rename_i e he
    split at h
    · exact h
    · rename_i l hl
      have hlmem : l ∈ pit := by
        have := List.mem_of_getLast? hl
        exact (List.mem_filter.mp this).1
      split at h
      · exact (List.mem_filter.mp h).1
      · rw [List.mem_map] at h
        obtain ⟨y, hy, rfl⟩ := h
        split
        · exact hlmem
        · exact (List.mem_filter.mp hy).1

theorem nodup_map_token_swap (t : List Entry) (l : Entry) (a : Nat)
    (hnd : (t.map (·.token)).Nodup) (hb : l.token ∉ t.map (·.token)) :
    ((t.map fun x => if x.token == a then l else x).map (·.token)).Nodup ∧
    ∀ k, k ∈ (t.map fun x => if x.token == a then l else x).map (·.token) → k = l.token ∨ k ∈ t.map (·.token) := by
  induction t with
  | nil => simp
  | cons x r ih =>
    simp only [List.map_cons, List.nodup_cons, List.mem_cons, not_or] at hnd hb
    obtain ⟨ih1, ih2⟩ := ih hnd.2 hb.2
    constructor
    · simp only [List.map_cons, List.nodup_cons]
      refine ⟨?_, ih1⟩
      intro hmem
      rcases ih2 _ hmem with h | h
      · split at h
        · -- x.token = a, head became l: some element of the mapped tail has token l.token; it is l itself,
          -- which needs an element of r with token a = x.token
          rename_i hxa
          have hxa' : x.token = a := by simpa using hxa
          simp only [hxa, if_true] at hmem
          rw [List.mem_map] at hmem
          obtain ⟨y, hy, hyt⟩ := hmem
          rw [List.mem_map] at hy
          obtain ⟨z, hz, rfl⟩ := hy
          split at hyt
          · rename_i hza
            have : z.token = x.token := by rw [hxa']; simpa using hza
            exact hnd.1 (by rw [← this]; exact List.mem_map_of_mem hz)
          · exact hb.2 (by rw [← hyt]; exact List.mem_map_of_mem hz)
        · exact hb.1 h.symm
      · split at h
        · exact hb.2 h
        · exact hnd.1 h
    · intro k hk
      simp only [List.map_cons, List.mem_cons] at hk
      rcases hk with hk | hk
      · split at hk
        · left; exact hk
        · right; simp [hk]
      · rcases ih2 k hk with h | h
        · left; exact h
        · right; simp [h]

theorem nodup_filter_map {α : Type} (p : α → Bool) (g : α → Nat) (l : List α) (h : (l.map g).Nodup) :
    ((l.filter p).map g).Nodup := by
  induction l with
  | nil => simp
  | cons x t ih =>
    simp only [List.map_cons, List.nodup_cons] at h
    simp only [List.filter_cons]
    split
    · simp only [List.map_cons, List.nodup_cons]
      refine ⟨?_, ih h.2⟩
      intro hm
      rw [List.mem_map] at hm
      obtain ⟨y, hy, hyx⟩ := hm
      exact h.1 (by rw [← hyx]; exact List.mem_map_of_mem (List.mem_filter.mp hy).1)
    · exact ih h.2

theorem nodup_removeEntry {pit : List Entry} (tok : Nat) (h : (pit.map (·.token)).Nodup) :
    ((removeEntry pit tok).map (·.token)).Nodup := by
  unfold removeEntry
  split
  · exact h
  · split
    · exact h
    · rename_i l hl
      split
      · exact nodup_filter_map _ _ _ h
      · have h1 := nodup_filter_map (fun x => x.token != l.token) (·.token) pit h
        have h2 : l.token ∉ (pit.filter fun x => x.token != l.token).map (·.token) := by
          intro hm
          rw [List.mem_map] at hm
          obtain ⟨y, hy, hyt⟩ := hm
          have := (List.mem_filter.mp hy).2
          simp [hyt] at this
        exact (nodup_map_token_swap _ l tok h1 h2).1

theorem wf_remove {s s' : St} (h : WF s) (tok : Nat) (hp : s'.pit = removeEntry s.pit tok) (hn : s'.nextTok = s.nextTok) :
    WF s' := by
  constructor
  · intro e he; rw [hp] at he; rw [hn]; exact h.tokLt e (mem_removeEntry he)
  · rw [hp]; exact nodup_removeEntry tok h.tokNodup
  · intro e he; rw [hp] at he; exact h.inNodup e (mem_removeEntry he)

theorem eq_of_token_eq {pit : List Entry} (hnd : (pit.map (·.token)).Nodup) {a b : Entry} (ha : a ∈ pit) (hb : b ∈ pit)
    (ht : a.token = b.token) : a = b := by
  induction pit with
  | nil => simp at ha
  | cons x t ih =>
    simp only [List.map_cons, List.nodup_cons] at hnd
    simp only [List.mem_cons] at ha hb
    rcases ha with rfl | ha <;> rcases hb with rfl | hb
    · rfl
    · exact absurd (by rw [ht]; exact List.mem_map_of_mem hb) hnd.1
    · exact absurd (by rw [← ht]; exact List.mem_map_of_mem ha) hnd.1
    · exact ih hnd.2 ha hb

/-! #### preservation by every operation -/

theorem wf_expireOne {s : St} (h : WF s) (e : Entry) : WF (expireOne s e) :=
  wf_remove (wf_frame h (dnlInsertAll_pit s _) (dnlInsertAll_nextTok s _)) e.token rfl rfl

theorem wf_foldl_expireOne (l : List Entry) {s : St} (h : WF s) : WF (l.foldl expireOne s) := by
  induction l generalizing s with
  | nil => exact h
  | cons e t ih => exact ih (wf_expireOne h e)

theorem wf_pitExpire {s : St} (h : WF s) : WF (pitExpire s) := by
  unfold pitExpire
  dsimp only
  split
  · exact wf_frame (wf_foldl_expireOne _ h) rfl rfl
  · exact wf_foldl_expireOne _ h

theorem wf_pitUpdate {s : St} (h : WF s) : WF (pitUpdate s) :=
  wf_frame (wf_pitExpire h) rfl rfl

theorem wf_dnlTick {s : St} (h : WF s) : WF (dnlTick s) := wf_frame h rfl rfl

theorem wf_advTo (fuel : Nat) (target : Time) {s : St} (h : WF s) : WF (advTo fuel target s) := by
  induction fuel generalizing s with
  | zero => exact wf_frame h rfl rfl
  | succ n ih =>
    unfold advTo
    dsimp only
    split
    · exact wf_frame h rfl rfl
    · have h0 : WF { s with now := max s.now (min s.nextUpd s.nextDnl) } := wf_frame h rfl rfl
      split
      · apply ih
        split
        · exact wf_dnlTick (wf_pitUpdate h0)
        · exact wf_frame (wf_dnlTick (wf_pitUpdate h0)) rfl rfl
      · split
        · exact ih (wf_pitUpdate h0)
        · exact ih (wf_dnlTick h0)

theorem wf_onData {s : St} (h : WF s) (f : FaceId) (d : Data) : WF (onData s f d).1 := by
  unfold onData
  split
  · exact h
  · split
    · exact h
    · dsimp only
      have h0 : WF (if s.csAdmit = true then csInsert s d else s) := by
        split
        · exact wf_frame h (csInsert_pit s d) (csInsert_nextTok s d)
        · exact h
      generalize (if s.csAdmit = true then csInsert s d else s) = s0 at h0
      split
      · exact h0
      · rename_i e hm
        apply wf_frame (s := { s0 with pit := modifyEntry s0.pit e.token (Entry.clearRecs s0.now) }) _ (by simp) (by simp)
        refine wf_modify h0 e.token _ rfl (Nat.le_refl _) ?_ ?_
        · intro _; rfl
        · intro _ _ _; simp [Entry.clearRecs]
      · rename_i e0 rest hm
        apply wf_frame (s := { s0 with pit := s0.pit.map fun e =>
            if ((matchData s0.pit d).map (·.token)).contains e.token then e.clearRecs s0.now else e }) _
          (by simp [hm]) (by simp)
        apply wf_map' h0
        · intro e; split <;> rfl
        · intro e he; split
          · simp [Entry.clearRecs]
          · exact h0.inNodup e he

theorem wf_outInterest {s : St} (h : WF s) (tok i nonce hop g inFace) : WF (outInterest s tok i nonce hop g inFace).1 := by
  unfold outInterest
  split
  · refine wf_modify h tok _ rfl (Nat.le_refl _) ?_ ?_
    · intro _; rfl
    · intro e he _; exact h.inNodup e he
  · exact h

theorem wf_bestRoute {s : St} (h : WF s) (tok i nonce hop inFace) (l : List (FaceId × Nat)) :
    WF (bestRoute s tok i nonce hop inFace l).1 := by
  induction l with
  | nil => exact h
  | cons nh t ih =>
    unfold bestRoute
    split
    · exact wf_outInterest h ..
    · exact ih

theorem wf_multicast {s : St} (h : WF s) (tok i nonce hop inFace) (l : List (FaceId × Nat)) :
    WF (multicast s tok i nonce hop inFace l).1 := by
  induction l generalizing s with
  | nil => exact h
  | cons nh t ih =>
    simp only [multicast]
    exact ih (wf_outInterest h ..)

theorem wf_forwardInterest {s : St} (h : WF s) (tok i nonce hop inFace tie) :
    WF (forwardInterest s tok i nonce hop inFace tie).1 := by
  unfold forwardInterest
  have h1 : WF { s with pit := modifyEntry s.pit tok (Entry.updateExp s.now) } := by
    refine wf_modify h tok _ rfl (Nat.le_refl _) ?_ ?_
    · intro _; rfl
    · intro e he _; exact h.inNodup e he
  dsimp only
  split
  · exact wf_outInterest h1 ..
  · split
    · exact h1
    · split
      · exact h1
      · split
        · exact h1
        · split
          · exact wf_bestRoute h1 ..
          · exact wf_multicast h1 ..

theorem wf_insertInterest {s : St} (h : WF s) (i : Interest) (hint : Option Name) (f : FaceId) (nonce : Nat) :
    WF (insertInterest s i hint f nonce).1 := by
  unfold insertInterest
  split
  · exact h
  · constructor
    · intro e he
      simp only [List.mem_append, List.mem_singleton] at he
      rcases he with he | rfl
      · exact Nat.lt_succ_of_lt (h.tokLt e he)
      · exact Nat.lt_succ_self _
    · simp only [List.map_append, List.map_cons, List.map_nil]
      rw [List.nodup_append]
      refine ⟨h.tokNodup, by simp, ?_⟩
      intro a ha b hb
      simp only [List.mem_singleton] at hb
      subst hb
      rw [List.mem_map] at ha
      obtain ⟨x, hx, rfl⟩ := ha
      exact Nat.ne_of_lt (h.tokLt x hx)
    · intro e he
      simp only [List.mem_append, List.mem_singleton] at he
      rcases he with he | rfl
      · exact h.inNodup e he
      · simp

theorem nodup_map_replace (l : List InRec) (f : FaceId) (r' : InRec) (hr : r'.face = f)
    (h : (l.map (·.face)).Nodup) : ((l.map fun x => if x.face == f then r' else x).map (·.face)).Nodup := by
  have : (l.map fun x => if x.face == f then r' else x).map (·.face) = l.map (·.face) := by
    rw [List.map_map]
    apply List.map_congr_left
    intro x _
    simp only [Function.comp]
    split
    · rename_i hx; rw [hr]; exact (by simpa using hx : x.face = f).symm
    · rfl
  rw [this]; exact h

theorem wf_onInterest {s : St} (h : WF s) (f : FaceId) (i : Interest) (tie : List FaceId) (pick : Nat) :
    WF (onInterest s f i tie pick).1 := by
  unfold onInterest
  split
  · exact h
  · split
    · exact h
    · split
      · exact h
      · split
        · exact h
        · rename_i nonce _
          split
          · exact h
          · have h1 := wf_insertInterest h i (fhName s.regions i.hints) f nonce
            dsimp only
            generalize insertInterest s i (fhName s.regions i.hints) f nonce = r at h1
            obtain ⟨s1, tok, dup⟩ := r
            simp only at h1 ⊢
            split
            · exact h1
            · split
              · exact h1
              · rename_i e he
                have hemem : e ∈ s1.pit := List.mem_of_find?_eq_some he
                have hetok : e.token = tok := by simpa using List.find?_some he
                split
                · rename_i r hr
                  apply wf_forwardInterest
                  apply wf_frame (s := { s1 with pit := modifyEntry s1.pit tok fun e =>
                      { e with inRecs := e.inRecs.map fun x =>
                          if x.face == f then { r with nonce := nonce, expiry := s1.now + lifetimeNs i } else x } }) _
                    (by simp) (by simp)
                  refine wf_modify h1 tok _ rfl (Nat.le_refl _) (fun _ => rfl) ?_
                  intro e' he' _
                  have hrf : r.face = f := by simpa using List.find?_some hr
                  exact nodup_map_replace _ f _ hrf (h1.inNodup e' he')
                · rename_i hnone
                  have h2 : WF { s1 with pit := modifyEntry s1.pit tok fun e =>
                      { e with inRecs := e.inRecs ++ [⟨f, nonce, s1.now + lifetimeNs i, i.tok⟩] } } := by
                    refine wf_modify h1 tok _ rfl (Nat.le_refl _) (fun _ => rfl) ?_
                    intro e' he' het
                    -- tokens are unique, so e' = e, which has no in-record of face f
                    have : e' = e := by
                      have hnd := h1.tokNodup
                      have hp := List.mem_of_find?_eq_some he
                      exact eq_of_token_eq hnd he' hp (by rw [het, hetok])
                    subst this
                    simp only [List.map_append, List.map_cons, List.map_nil]
                    rw [List.nodup_append]
                    refine ⟨h1.inNodup _ he', by simp, ?_⟩
                    intro a ha b hb
                    simp only [List.mem_singleton] at hb
                    subst hb
                    rw [List.mem_map] at ha
                    obtain ⟨x, hx, rfl⟩ := ha
                    intro hxf
                    have := List.find?_eq_none.mp hnone x hx
                    simp [hxf] at this
                  split
                  · refine wf_modify h2 tok _ rfl (Nat.le_refl _) (fun _ => rfl) ?_
                    intro e' he' _
                    simp only [Entry.updateExp]
                    exact nodup_filter_map _ _ _ (h2.inNodup e' he')
                  · exact wf_forwardInterest h2 ..

theorem wf_step {s : St} (h : WF s) (op : Op) : WF (step s op).1 := by
  cases op with
  | adv dt => exact wf_advTo _ _ h
  | interest f i tie pick => exact wf_onInterest h f i tie pick
  | data f d => exact wf_onData h f d
  | _ => exact wf_frame h rfl rfl

/-- every state reachable from a state with an empty PIT, by any history, satisfies the invariant -/
theorem wf_run (s : St) (hs : s.pit = []) (ops : List Op) : WF (run s ops) := by
  unfold run
  have h0 := wf_init s hs
  generalize s = s0 at h0
  induction ops generalizing s0 with
  | nil => exact h0
  | cons op t ih => simp only [List.foldl_cons]; exact ih _ (wf_step h0 op)

/-! ### exactness of Data delivery -/

theorem prefixes_pairwise (n : Name) (m : Nat) (hm : m ≤ n.length) :
    List.Pairwise (fun a b : Name => a.length ≠ b.length) ((List.range (m + 1)).reverse.map n.take) ∧
    ∀ a ∈ (List.range (m + 1)).reverse.map n.take, a.length ≤ m := by
  induction m with
  | zero => simp
  | succ k ih =>
    obtain ⟨ih1, ih2⟩ := ih (by omega)
    rw [List.range_succ, List.reverse_append]
    simp only [List.reverse_cons, List.reverse_nil, List.nil_append, List.singleton_append, List.map_cons,
      List.pairwise_cons]
    refine ⟨⟨?_, ih1⟩, ?_⟩
    · intro a ha
      have := ih2 a ha
      simp only [List.length_take]
      omega
    · intro a ha
      simp only [List.mem_cons] at ha
      rcases ha with rfl | ha
      · simp only [List.length_take]; omega
      · have := ih2 a ha; omega

theorem matchByName_nodup {pit : List Entry} (h : pit.Nodup) (n : Name) : (matchByName pit n).Nodup := by
  unfold matchByName
  rw [List.Nodup, List.pairwise_flatMap]
  constructor
  · intro p _
    exact List.Pairwise.filter _ h
  · have := (prefixes_pairwise n n.length (Nat.le_refl _)).1
    unfold prefixesDesc
    refine List.Pairwise.imp ?_ this
    intro a b hab x hx y hy hxy
    simp only [List.mem_filter, Bool.and_eq_true, beq_iff_eq] at hx hy
    apply hab
    rw [← hx.2.1, ← hy.2.1, hxy]

theorem nodup_of_tokNodup {pit : List Entry} (h : (pit.map (·.token)).Nodup) : pit.Nodup :=
  List.Pairwise.of_map (·.token) (fun a b hab heq => hab (by rw [heq])) h

theorem matchData_nodup {s : St} (h : WF s) (d : Data) : (matchData s.pit d).Nodup := by
  unfold matchData
  split
  · cases s.pit.find? _ <;> simp
  · exact matchByName_nodup (nodup_of_tokNodup h.tokNodup) _

theorem mem_matchData_iff {s : St} (h : WF s) (d : Data) (e : Entry) :
    e ∈ matchData s.pit d ↔ e ∈ s.pit ∧ satisfies d e = true := by
  constructor
  · exact mem_matchData
  · rintro ⟨he, hs⟩
    obtain ⟨e0, he0, ht⟩ := matchData_complete he hs
    have := eq_of_token_eq h.tokNodup (mem_matchData he0).1 he ht
    rw [← this]; exact he0

theorem filter_filterMap_comm {α β : Type} (h : α → Option β) (p : β → Bool) (q : α → Bool)
    (hpq : ∀ a b, h a = some b → p b = q a) (l : List α) :
    (l.filterMap h).filter p = (l.filter q).filterMap h := by
  induction l with
  | nil => rfl
  | cons a t ih =>
    cases ha : h a with
    | none =>
      rw [List.filterMap_cons_none ha]
      by_cases hq : q a = true
      · rw [List.filter_cons_of_pos hq, List.filterMap_cons_none ha]; exact ih
      · rw [List.filter_cons_of_neg hq]; exact ih
    | some b =>
      rw [List.filterMap_cons_some ha]
      have := hpq a b ha
      by_cases hq : q a = true
      · rw [List.filter_cons_of_pos hq, List.filterMap_cons_some ha, List.filter_cons_of_pos (by rw [this]; exact hq), ih]
      · rw [List.filter_cons_of_neg hq, List.filter_cons_of_neg (by rw [this]; exact hq)]; exact ih

theorem dataSends_filter_face (faces : List Face) (name : Name) (content : Nat) (l : List (FaceId × Bytes)) (g : FaceId) :
    (dataSends faces name content l).filter (·.face == g) = dataSends faces name content (l.filter (·.1 == g)) := by
  unfold dataSends
  apply filter_filterMap_comm
  intro t b hb
  cases hf : faceOf faces t.1 with
  | none => simp [hf] at hb
  | some fc =>
    simp only [hf] at hb
    split at hb
    · simp at hb
    · simp at hb; subst hb; rfl

theorem onData_sends_filter (s : St) (f : FaceId) (d : Data) (fc : Face)
    (hf : faceOf s.faces f = some fc) (hacc : (!fc.isLocal && isLocalhost d.name) = false) (g : FaceId) (hg : g ≠ f) :
    (onData s f d).2.filter (·.face == g) =
      (matchData s.pit d).flatMap fun e =>
        dataSends s.faces d.name d.content ((e.inRecs.filter (·.face == g)).map fun r => (r.face, r.tok)) := by
  unfold onData
  simp only [hf, hacc, Bool.false_eq_true, if_false]
  have hpit : (if s.csAdmit = true then csInsert s d else s).pit = s.pit := by split <;> simp
  have hfaces : (if s.csAdmit = true then csInsert s d else s).faces = s.faces := by split <;> simp
  rw [hpit]
  have hmap : ∀ (l : List InRec), (l.map fun r => (r.face, r.tok)).filter (·.1 == g) =
      (l.filter (·.face == g)).map fun r => (r.face, r.tok) := by
    intro l; rw [List.filter_map]; rfl
  split
  · rename_i hm; simp [hm]
  · rename_i e hm
    simp only [hm, hfaces, List.flatMap_cons, List.flatMap_nil, List.append_nil]
    rw [dataSends_filter_face, hmap]
  · rename_i e0 rest hm
    simp only [hfaces]
    rw [List.filter_flatMap]
    congr 1
    funext e
    rw [dataSends_filter_face, hmap, List.filter_filter]
    congr 2
    apply List.filter_congr
    intro r _
    by_cases hr : r.face = g
    · simp [hr, hg]
    · simp [hr]

theorem inRecs_face_le_one {l : List InRec} (h : (l.map (·.face)).Nodup) (g : FaceId) :
    (l.filter (·.face == g)).length ≤ 1 := by
  induction l with
  | nil => simp
  | cons x t ih =>
    simp only [List.map_cons, List.nodup_cons] at h
    simp only [List.filter_cons]
    split
    · rename_i hx
      have hx' : x.face = g := by simpa using hx
      have : t.filter (·.face == g) = [] := by
        rw [List.filter_eq_nil_iff]
        intro y hy hyg
        exact h.1 (by rw [hx', ← (by simpa using hyg : y.face = g)]; exact List.mem_map_of_mem hy)
      simp [this]
    · exact ih h.2

/-! ### strategies: what exactly is sent -/

def fwdSend (i : Interest) (hop : Option Nat) (tok : Nat) (g : FaceId) : Send := .interest g i.name hop (.mine tok)

theorem bestRoute_eq (s : St) (tok i nonce hop inFace) (l : List (FaceId × Nat)) :
    (bestRoute s tok i nonce hop inFace l).2 =
      match l.find? (fun nh => usableOut s.faces inFace i.name hop nh.1) with
      | some nh => [fwdSend i hop tok nh.1]
      | none => [] := by
  induction l with
  | nil => rfl
  | cons nh t ih =>
    unfold bestRoute
    by_cases hu : usableOut s.faces inFace i.name hop nh.1 = true
    · simp only [hu, if_true, List.find?_cons_of_pos]
      rw [outInterest_sends]; simp [hu, fwdSend]
    · simp only [hu]
      rw [List.find?_cons_of_neg (by simpa using hu)]
      simpa using ih

theorem multicast_eq (s : St) (tok i nonce hop inFace) (l : List (FaceId × Nat)) :
    (multicast s tok i nonce hop inFace l).2 =
      (l.filter fun nh => usableOut s.faces inFace i.name hop nh.1).map fun nh => fwdSend i hop tok nh.1 := by
  induction l generalizing s with
  | nil => rfl
  | cons nh t ih =>
    simp only [multicast]
    rw [ih, outInterest_faces, outInterest_sends]
    by_cases hu : usableOut s.faces inFace i.name hop nh.1 = true
    · simp [hu, fwdSend]
    · simp [hu]

theorem nhLe_cost {tie : List FaceId} {a b : FaceId × Nat} (h : nhLe tie a b = true) : a.2 ≤ b.2 := by
  unfold nhLe at h
  simp only [Bool.or_eq_true, decide_eq_true_eq, Bool.and_eq_true, beq_iff_eq] at h
  omega

theorem not_nhLe_cost {tie : List FaceId} {a b : FaceId × Nat} (h : ¬nhLe tie a b = true) : b.2 ≤ a.2 := by
  unfold nhLe at h
  simp only [Bool.or_eq_true, decide_eq_true_eq, Bool.and_eq_true, beq_iff_eq, not_or, not_and] at h
  omega

theorem mem_insertNh {tie : List FaceId} {a x : FaceId × Nat} {l : List (FaceId × Nat)} :
    x ∈ insertNh tie a l ↔ x = a ∨ x ∈ l := by
  induction l with
  | nil => simp [insertNh]
  | cons b t ih =>
    unfold insertNh
    split
    · simp
    · simp only [List.mem_cons, ih]
      constructor
      · rintro (h | h | h) <;> simp [h]
      · rintro (h | h | h) <;> simp [h]

theorem mem_sortNh {tie : List FaceId} {x : FaceId × Nat} {l : List (FaceId × Nat)} : x ∈ sortNh tie l ↔ x ∈ l := by
  unfold sortNh
  induction l with
  | nil => simp
  | cons a t ih => simp only [List.foldr_cons, mem_insertNh, ih, List.mem_cons]

theorem sorted_insertNh {tie : List FaceId} (a : FaceId × Nat) {l : List (FaceId × Nat)}
    (h : l.Pairwise fun x y => x.2 ≤ y.2) : (insertNh tie a l).Pairwise fun x y => x.2 ≤ y.2 := by
  induction l with
  | nil => simp [insertNh]
  | cons b t ih =>
    unfold insertNh
    rw [List.pairwise_cons] at h
    split
    · rename_i hle
      rw [List.pairwise_cons]
      refine ⟨?_, List.pairwise_cons.mpr h⟩
      intro y hy
      simp only [List.mem_cons] at hy
      rcases hy with rfl | hy
      · exact nhLe_cost hle
      · exact Nat.le_trans (nhLe_cost hle) (h.1 y hy)
    · rename_i hle
      rw [List.pairwise_cons]
      refine ⟨?_, ih h.2⟩
      intro y hy
      rcases mem_insertNh.mp hy with rfl | hy
      · exact not_nhLe_cost hle
      · exact h.1 y hy

theorem sorted_sortNh (tie : List FaceId) (l : List (FaceId × Nat)) : (sortNh tie l).Pairwise fun x y => x.2 ≤ y.2 := by
  unfold sortNh
  induction l with
  | nil => simp
  | cons a t ih => simp only [List.foldr_cons]; exact sorted_insertNh a ih

theorem find_first_le {l : List (FaceId × Nat)} {p : FaceId × Nat → Bool} (hs : l.Pairwise fun x y => x.2 ≤ y.2)
    {x y : FaceId × Nat} (hx : l.find? p = some x) (hy : y ∈ l) (hpy : p y = true) : x.2 ≤ y.2 := by
  induction l with
  | nil => simp at hy
  | cons a t ih =>
    rw [List.pairwise_cons] at hs
    by_cases hpa : p a = true
    · rw [List.find?_cons_of_pos hpa] at hx
      simp at hx; subst hx
      simp only [List.mem_cons] at hy
      rcases hy with rfl | hy
      · exact Nat.le_refl _
      · exact hs.1 y hy
    · rw [List.find?_cons_of_neg (by simpa using hpa)] at hx
      simp only [List.mem_cons] at hy
      rcases hy with rfl | hy
      · exact absurd hpy hpa
      · exact ih hs.2 hx hy

/-! ### the strategy stage -/

theorem getEntry_modifyEntry {pit : List Entry} {tok : Nat} {e : Entry} (g : Entry → Entry)
    (hg : ∀ x, (g x).token = x.token) (h : getEntry pit tok = some e) :
    getEntry (modifyEntry pit tok g) tok = some (g e) := by
  unfold getEntry modifyEntry at *
  induction pit with
  | nil => simp at h
  | cons x t ih =>
    simp only [List.map_cons]
    by_cases hx : (x.token == tok) = true
    · simp only [List.find?_cons, hx] at h
      simp at h; subst h
      simp only [hx, if_true, List.find?_cons, hg]
    · have hx' : (x.token == tok) = false := by simpa using hx
      simp only [List.find?_cons, hx'] at h
      simp only [hx', Bool.false_eq_true, if_false, List.find?_cons]
      exact ih h

theorem getEntry_of_mem {pit : List Entry} (hnd : (pit.map (·.token)).Nodup) {e : Entry} (he : e ∈ pit) :
    getEntry pit e.token = some e := by
  unfold getEntry
  cases hf : pit.find? (·.token == e.token) with
  | none =>
    have := List.find?_eq_none.mp hf e he
    simp at this
  | some e0 =>
    have h1 := List.mem_of_find?_eq_some hf
    have h2 : e0.token = e.token := by simpa using List.find?_some hf
    rw [eq_of_token_eq hnd h1 he h2]

/-- the next hops offered to the strategy: FIB longest-prefix match minus the faces that hold an
    in-record of the entry (the arrival face stays) -/
def allowedNhs (s : St) (i : Interest) (e : Entry) (inFace : FaceId) : List (FaceId × Nat) :=
  (lpmNextHops s.fib (lookupName s.regions i)).filter fun nh => !(e.inRecs.any (·.face == nh.1)) || nh.1 == inFace

/-- what forwardInterest sends when no NextHopFaceId is given -/
theorem forwardInterest_eq (s : St) (tok : Nat) (i : Interest) (nonce : Nat) (hop : Option Nat) (inFace : FaceId)
    (tie : List FaceId) (e : Entry) (he : getEntry s.pit tok = some e) (hn : i.nextHop = none) :
    (forwardInterest s tok i nonce hop inFace tie).2 =
      if suppressed s.now e nonce then []
      else match lpmStrat s.strat i.name with
        | .best => match (sortNh tie (allowedNhs s i e inFace)).find? (fun nh => usableOut s.faces inFace i.name hop nh.1) with
            | some nh => [fwdSend i hop tok nh.1]
            | none => []
        | .multi => ((allowedNhs s i e inFace).filter fun nh => usableOut s.faces inFace i.name hop nh.1).map
            fun nh => fwdSend i hop tok nh.1 := by
  unfold forwardInterest
  simp only [hn]
  have he1 := getEntry_modifyEntry (Entry.updateExp s.now) (fun _ => rfl) he
  simp only [he1]
  have hsup : suppressed s.now (Entry.updateExp s.now e) nonce = suppressed s.now e nonce := rfl
  have hall : (List.filter (fun nh => !(Entry.updateExp s.now e).inRecs.any (fun x => x.face == nh.1) || nh.1 == inFace)
      (lpmNextHops s.fib (lookupName s.regions i))) = allowedNhs s i e inFace := rfl
  rw [hall, hsup]
  by_cases hempty : (allowedNhs s i e inFace).isEmpty = true
  · have : allowedNhs s i e inFace = [] := by simpa using hempty
    simp only [this]
    by_cases hs : suppressed s.now e nonce = true
    · simp [hs]
    · cases lpmStrat s.strat i.name <;> simp [hs, sortNh]
  · simp only [hempty]
    by_cases hs : suppressed s.now e nonce = true
    · simp [hs]
    · simp only [hs, Bool.false_eq_true, if_false]
      cases lpmStrat s.strat i.name with
      | best => simp only []; rw [bestRoute_eq]
      | multi => simp only []; rw [multicast_eq]

end Ndn.Fw
