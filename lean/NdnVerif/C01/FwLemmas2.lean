/-
  C01/FwLemmas2.lean — invariants of reachable states and liveness lemmas of the shared model `Fw`.
-/
import NdnVerif.C01.FwLemmas
namespace Ndn.Fw
open Ndn Ndn.Fw.Spec

/-! ### consumption of pending Interests by a Data -/

theorem matchData_complete {pit : List Entry} {d : Data} {e : Entry} (he : e ∈ pit) (hs : satisfies d e = true) :
    ∃ e0 ∈ matchData pit d, e0.token = e.token := by
  unfold matchData
  unfold satisfies at hs
  cases hd : d.tok with
  | six v =>
    simp only [hd, beq_iff_eq] at hs
    simp only [Option.mem_toList]
    cases hfind : pit.find? (·.token == v) with
    | none =>
      have := List.find?_eq_none.mp hfind e he
      simp [hs] at this
    | some e0 =>
      have := List.find?_some hfind
      exact ⟨e0, rfl, by simp at this; rw [this, hs]⟩
  | none =>
    simp only [hd] at hs
    exact ⟨e, mem_matchByName.mpr ⟨he, hs⟩, rfl⟩
  | other b =>
    simp only [hd] at hs
    exact ⟨e, mem_matchByName.mpr ⟨he, hs⟩, rfl⟩

theorem onData_faces (s : St) (f : FaceId) (d : Data) : (onData s f d).1.faces = s.faces := by
  unfold onData
  split
  · rfl
  · split
    · rfl
    · dsimp only
      have hfaces : (if s.csAdmit = true then csInsert s d else s).faces = s.faces := by split <;> simp
      split <;> simp [hfaces]

theorem onData_consumes (s : St) (f : FaceId) (d : Data) (fc : Face)
    (hf : faceOf s.faces f = some fc) (hacc : (!fc.isLocal && isLocalhost d.name) = false) :
    ∀ e ∈ (onData s f d).1.pit, satisfies d e = true → e.inRecs = [] := by
  intro e' he' hsat
  unfold onData at he'
  simp only [hf, hacc, Bool.false_eq_true, if_false] at he'
  have hpit : (if s.csAdmit = true then csInsert s d else s).pit = s.pit := by split <;> simp
  rw [hpit] at he'
  split at he'
  · rename_i hm
    simp only [hpit] at he'
    obtain ⟨e0, he0, _⟩ := matchData_complete he' hsat
    rw [hm] at he0
    simp at he0
  · rename_i e hm
    simp only [countData_pit, dnlInsertAll_pit, modifyEntry, List.mem_map] at he'
    obtain ⟨x, hx, rfl⟩ := he'
    split
    · simp [Entry.clearRecs]
    · rename_i hne
      split at hsat
      · exact absurd ‹_› hne
      · obtain ⟨e0, he0, ht⟩ := matchData_complete hx hsat
        rw [hm] at he0
        simp at he0
        subst he0
        simp [ht] at hne
  · rename_i e0 rest hm
    simp only [countData_pit, dnlInsertAll_pit, List.mem_map] at he'
    obtain ⟨x, hx, rfl⟩ := he'
    split
    · simp [Entry.clearRecs]
    · rename_i hne
      split at hsat
      · exact absurd ‹_› hne
      · obtain ⟨e1, he1, ht⟩ := matchData_complete hx hsat
        exfalso
        apply hne
        simp only [List.contains_eq_mem, List.mem_map, decide_eq_true_eq]
        exact ⟨e1, he1, ht⟩

theorem onData_repeat (s : St) (f : FaceId) (d : Data) : (onData (onData s f d).1 f d).2 = [] := by
  cases hf : faceOf s.faces f with
  | none =>
    have h1 : onData s f d = (s, []) := by unfold onData; simp [hf]
    rw [h1]; simp only; rw [h1]
  | some fc =>
    cases hacc : (!fc.isLocal && isLocalhost d.name) with
    | true =>
      have h1 : onData s f d = (s, []) := by unfold onData; simp only [hf, hacc, if_true]
      rw [h1]; simp only; rw [h1]
    | false =>
      rw [List.eq_nil_iff_forall_not_mem]
      intro snd hsnd
      obtain ⟨g, tok, _, ⟨e, he, hsat, r, hr, _⟩, _⟩ := onData_sends _ f d snd hsnd
      have := onData_consumes s f d fc hf hacc e he hsat
      rw [this] at hr
      simp at hr

end Ndn.Fw
