/-
  C01/FwLemmas4.lean — placement invariant of the multi-thread forwarder (C01/FwMulti.lean): every PIT
  entry lives in the thread the dispatch rule assigns to its name.
-/
import NdnVerif.C01.FwLemmas3
import NdnVerif.C01.FwMulti
namespace Ndn.Fw
open Ndn Ndn.Fw.Spec

/-- every PIT entry's name satisfies `P` -/
structure NamesOk (P : Name → Prop) (s : St) : Prop where
  all : ∀ e ∈ s.pit, P e.name

theorem names_frame {P : Name → Prop} {s s' : St} (h : NamesOk P s) (hp : s'.pit = s.pit) : NamesOk P s' := by
  constructor; rw [hp]; exact h.all

theorem names_map {P : Name → Prop} {s s' : St} (h : NamesOk P s) (g : Entry → Entry) (hp : s'.pit = s.pit.map g)
    (hg : ∀ e, (g e).name = e.name) : NamesOk P s' := by
  constructor
  intro e he
  rw [hp, List.mem_map] at he
  obtain ⟨x, hx, rfl⟩ := he
  rw [hg]; exact h.all x hx

theorem names_modify {P : Name → Prop} {s s' : St} (h : NamesOk P s) (tok : Nat) (g : Entry → Entry)
    (hp : s'.pit = modifyEntry s.pit tok g) (hg : ∀ e, (g e).name = e.name) : NamesOk P s' :=
  names_map h (fun e => if e.token == tok then g e else e) hp (by intro e; split <;> simp [hg])

theorem names_remove {P : Name → Prop} {s s' : St} (h : NamesOk P s) (tok : Nat) (hp : s'.pit = removeEntry s.pit tok) :
    NamesOk P s' := by
  constructor
  intro e he; rw [hp] at he; exact h.all e (mem_removeEntry he)

theorem names_foldl_expireOne {P : Name → Prop} (l : List Entry) {s : St} (h : NamesOk P s) :
    NamesOk P (l.foldl expireOne s) := by
  induction l generalizing s with
  | nil => exact h
  | cons e t ih =>
    exact ih (names_remove (names_frame h (dnlInsertAll_pit s _)) e.token rfl)

theorem names_pitUpdate {P : Name → Prop} {s : St} (h : NamesOk P s) : NamesOk P (pitUpdate s) := by
  refine names_frame (s := pitExpire s) ?_ rfl
  unfold pitExpire
  dsimp only
  split
  · exact names_frame (names_foldl_expireOne _ h) rfl
  · exact names_foldl_expireOne _ h

theorem names_advTo {P : Name → Prop} (fuel : Nat) (target : Time) {s : St} (h : NamesOk P s) :
    NamesOk P (advTo fuel target s) := by
  induction fuel generalizing s with
  | zero => exact names_frame h rfl
  | succ n ih =>
    unfold advTo
    dsimp only
    split
    · exact names_frame h rfl
    · have h0 : NamesOk P { s with now := max s.now (min s.nextUpd s.nextDnl) } := names_frame h rfl
      split
      · apply ih
        split
        · exact names_frame (s := pitUpdate _) (names_pitUpdate h0) rfl
        · exact names_frame (s := pitUpdate _) (names_pitUpdate h0) rfl
      · split
        · exact ih (names_pitUpdate h0)
        · exact ih (names_frame h0 rfl)

theorem names_onData {P : Name → Prop} {s : St} (h : NamesOk P s) (f : FaceId) (d : Data) : NamesOk P (onData s f d).1 := by
  unfold onData
  split
  · exact h
  · split
    · exact h
    · dsimp only
      have h0 : NamesOk P (if s.csAdmit = true then csInsert s d else s) := by
        split
        · exact names_frame h (csInsert_pit s d)
        · exact h
      generalize (if s.csAdmit = true then csInsert s d else s) = s0 at h0
      split
      · exact h0
      · rename_i e hm
        refine names_modify h0 e.token (Entry.clearRecs s0.now) ?_ (fun _ => rfl)
        simp
      · rename_i e0 rest hm
        refine names_map h0 (fun e => if ((matchData s0.pit d).map (·.token)).contains e.token then e.clearRecs s0.now else e) ?_ ?_
        · simp [hm]
        · intro e; split <;> rfl

theorem names_outInterest {P : Name → Prop} {s : St} (h : NamesOk P s) (tok i nonce hop g inFace) :
    NamesOk P (outInterest s tok i nonce hop g inFace).1 := by
  unfold outInterest
  split
  · exact names_modify h tok _ rfl (fun _ => rfl)
  · exact h

theorem names_bestRoute {P : Name → Prop} {s : St} (h : NamesOk P s) (tok i nonce hop inFace) (l : List (FaceId × Nat)) :
    NamesOk P (bestRoute s tok i nonce hop inFace l).1 := by
  induction l with
  | nil => exact h
  | cons nh t ih => unfold bestRoute; split; exact names_outInterest h ..; exact ih

theorem names_multicast {P : Name → Prop} {s : St} (h : NamesOk P s) (tok i nonce hop inFace) (l : List (FaceId × Nat)) :
    NamesOk P (multicast s tok i nonce hop inFace l).1 := by
  induction l generalizing s with
  | nil => exact h
  | cons nh t ih => simp only [multicast]; exact ih (names_outInterest h ..)

theorem names_forwardInterest {P : Name → Prop} {s : St} (h : NamesOk P s) (tok i nonce hop inFace tie) :
    NamesOk P (forwardInterest s tok i nonce hop inFace tie).1 := by
  unfold forwardInterest
  have h1 : NamesOk P { s with pit := modifyEntry s.pit tok (Entry.updateExp s.now) } :=
    names_modify h tok _ rfl (fun _ => rfl)
  dsimp only
  split
  · exact names_outInterest h1 ..
  · split
    · exact h1
    · split
      · exact h1
      · split
        · exact h1
        · split
          · exact names_bestRoute h1 ..
          · exact names_multicast h1 ..

theorem names_onInterest {P : Name → Prop} {s : St} (h : NamesOk P s) (f : FaceId) (i : Interest) (tie : List FaceId)
    (pick : Nat) (hi : P i.name) : NamesOk P (onInterest s f i tie pick).1 := by
  unfold onInterest
  split
  · exact h
  · split
    · exact h
    · split
      · exact h
      · split
        · exact h
        · rename_i nonce _
          split
          · exact h
          · have h1 : NamesOk P (insertInterest s i (fhName s.regions i.hints) f nonce).1 := by
              unfold insertInterest
              split
              · exact h
              · constructor
                intro e he
                simp only [List.mem_append, List.mem_singleton] at he
                rcases he with he | rfl
                · exact h.all e he
                · exact hi
            dsimp only
            generalize insertInterest s i (fhName s.regions i.hints) f nonce = r at h1
            obtain ⟨s1, tok, dup⟩ := r
            simp only at h1 ⊢
            split
            · exact h1
            · split
              · exact h1
              · split
                · apply names_forwardInterest
                  refine names_frame (s := { s1 with pit := (dnlInsert _ _ _).pit }) ?_ rfl
                  refine names_frame (s := { s1 with pit := modifyEntry s1.pit tok _ }) ?_ (by rw [dnlInsert_pit])
                  exact names_modify h1 tok _ rfl (fun _ => rfl)
                · have h2 : NamesOk P { s1 with pit := modifyEntry s1.pit tok fun e =>
                      { e with inRecs := e.inRecs ++ [⟨f, nonce, s1.now + lifetimeNs i, i.tok⟩] } } :=
                    names_modify h1 tok _ rfl (fun _ => rfl)
                  split
                  · exact names_modify h2 tok _ rfl (fun _ => rfl)
                  · exact names_forwardInterest h2 ..

/-- operations other than an Interest arrival never add a PIT entry -/
theorem names_step {P : Name → Prop} {s : St} (h : NamesOk P s) (op : Op)
    (hi : ∀ f i tie pick, op = .interest f i tie pick → P i.name) : NamesOk P (step s op).1 := by
  cases op with
  | adv dt => exact names_advTo _ _ h
  | interest f i tie pick => exact names_onInterest h f i tie pick (hi f i tie pick rfl)
  | data f d => exact names_onData h f d
  | _ => exact names_frame h rfl

/-! ### placement -/

/-- every entry of thread `t` has a name the dispatch rule assigns to `t` -/
def Placed (H : Name → Nat) (m : MSt) : Prop :=
  ∀ t s, m.ts[t]? = some s → NamesOk (fun nm => interestThread m.n H nm = t) s

theorem placed_mInterest {H : Name → Nat} {m : MSt} (h : Placed H m) (f i tie pick) :
    Placed H (mInterest m H f i tie pick).1 := by
  unfold mInterest
  dsimp only
  split
  · exact h
  · rename_i s hs
    intro t' s' hs'
    have hn : (MSt.mk (setAt m.ts (interestThread m.n H i.name) (onInterest s f i tie pick).1)).n = m.n := by
      simp [MSt.n, setAt]
    rw [hn]
    simp only [setAt] at hs'
    by_cases ht : interestThread m.n H i.name = t'
    · subst ht
      have hlt : interestThread m.n H i.name < m.ts.length := (List.getElem?_eq_some_iff.mp hs).1
      rw [List.getElem?_set_self hlt] at hs'
      cases hs'
      exact names_onInterest (h _ s hs) f i tie pick rfl
    · rw [List.getElem?_set_ne ht] at hs'
      exact h t' s' hs'

theorem placed_mData {H : Name → Nat} {m : MSt} (h : Placed H m) (f d tokThread) :
    Placed H (mData m H f d tokThread).1 := by
  unfold mData
  dsimp only
  intro t s' hs'
  have hn : (MSt.mk (m.ts.zipIdx.map fun p =>
      if (dataThreads m.n H d.name tokThread).contains p.2 then (onData p.1 f d).1 else p.1)).n = m.n := by
    simp [MSt.n]
  rw [hn]
  simp only [List.getElem?_map, List.getElem?_zipIdx, Option.map_map] at hs'
  cases hs : m.ts[t]? with
  | none => rw [hs] at hs'; simp at hs'
  | some s =>
    rw [hs] at hs'
    simp only [Option.map_some, Function.comp, Nat.zero_add, Option.some.injEq] at hs'
    rw [← hs']
    split
    · exact names_onData (h t s hs) f d
    · exact h t s hs

theorem placed_mAll {H : Name → Nat} {m : MSt} (h : Placed H m) (op : Op) (hop : ∀ f i tie pick, op ≠ .interest f i tie pick) :
    Placed H (mAll m op) := by
  unfold mAll
  intro t s' hs'
  have hn : (MSt.mk (m.ts.map fun s => (step s op).1)).n = m.n := by simp [MSt.n]
  rw [hn]
  simp only [List.getElem?_map] at hs'
  cases hs : m.ts[t]? with
  | none => rw [hs] at hs'; simp at hs'
  | some s =>
    rw [hs] at hs'
    simp only [Option.map_some, Option.some.injEq] at hs'
    rw [← hs']
    exact names_step (h t s hs) op (fun f i tie pick he => absurd he (hop f i tie pick))

/-! ### every thread of a reachable multi-thread state is well-formed and correctly populated -/

def AllWF (m : MSt) : Prop := ∀ (t : Nat) (s : St), m.ts[t]? = some s → WF s

theorem allwf_mInterest {H : Name → Nat} {m : MSt} (h : AllWF m) (f i tie pick) :
    AllWF (mInterest m H f i tie pick).1 := by
  unfold mInterest
  dsimp only
  split
  · exact h
  · rename_i s hs
    intro t' s' hs'
    simp only [setAt] at hs'
    by_cases ht : interestThread m.n H i.name = t'
    · subst ht
      have hlt : interestThread m.n H i.name < m.ts.length := (List.getElem?_eq_some_iff.mp hs).1
      rw [List.getElem?_set_self hlt] at hs'
      cases hs'
      exact wf_onInterest (h _ s hs) f i tie pick
    · rw [List.getElem?_set_ne ht] at hs'
      exact h t' s' hs'

theorem allwf_mData {H : Name → Nat} {m : MSt} (h : AllWF m) (f d tokThread) :
    AllWF (mData m H f d tokThread).1 := by
  unfold mData
  dsimp only
  intro t s' hs'
  simp only [List.getElem?_map, List.getElem?_zipIdx, Option.map_map] at hs'
  cases hs : m.ts[t]? with
  | none => rw [hs] at hs'; simp at hs'
  | some s =>
    rw [hs] at hs'
    simp only [Option.map_some, Function.comp, Nat.zero_add, Option.some.injEq] at hs'
    rw [← hs']
    split
    · exact wf_onData (h t s hs) f d
    · exact h t s hs

theorem allwf_mAll {m : MSt} (h : AllWF m) (op : Op) : AllWF (mAll m op) := by
  unfold mAll
  intro t s' hs'
  simp only [List.getElem?_map] at hs'
  cases hs : m.ts[t]? with
  | none => rw [hs] at hs'; simp at hs'
  | some s =>
    rw [hs] at hs'
    simp only [Option.map_some, Option.some.injEq] at hs'
    rw [← hs']
    exact wf_step (h t s hs) op

theorem mstep_inv {H : Name → Nat} {m : MSt} (h : AllWF m ∧ Placed H m) (op : MOp) :
    AllWF (mstep H m op).1 ∧ Placed H (mstep H m op).1 := by
  cases op with
  | interest f i tie pick => exact ⟨allwf_mInterest h.1 f i tie pick, placed_mInterest h.2 f i tie pick⟩
  | data f d tt => exact ⟨allwf_mData h.1 f d tt, placed_mData h.2 f d tt⟩
  | cfg op =>
    cases op with
    | interest f i tie pick => exact h
    | data f d => exact h
    | adv dt => exact ⟨allwf_mAll h.1 _, placed_mAll h.2 _ (by intros; simp)⟩
    | addFace x => exact ⟨allwf_mAll h.1 _, placed_mAll h.2 _ (by intros; simp)⟩
    | rmFace x => exact ⟨allwf_mAll h.1 _, placed_mAll h.2 _ (by intros; simp)⟩
    | fibIns a b c => exact ⟨allwf_mAll h.1 _, placed_mAll h.2 _ (by intros; simp)⟩
    | fibRem a b => exact ⟨allwf_mAll h.1 _, placed_mAll h.2 _ (by intros; simp)⟩
    | fibClr a => exact ⟨allwf_mAll h.1 _, placed_mAll h.2 _ (by intros; simp)⟩
    | setStrat a b => exact ⟨allwf_mAll h.1 _, placed_mAll h.2 _ (by intros; simp)⟩
    | unsetStrat a => exact ⟨allwf_mAll h.1 _, placed_mAll h.2 _ (by intros; simp)⟩
    | region a => exact ⟨allwf_mAll h.1 _, placed_mAll h.2 _ (by intros; simp)⟩
    | csConf a b => exact ⟨allwf_mAll h.1 _, placed_mAll h.2 _ (by intros; simp)⟩
    | cap a => exact ⟨allwf_mAll h.1 _, placed_mAll h.2 _ (by intros; simp)⟩

theorem mrun_inv (H : Name → Nat) (m : MSt) (h0 : ∀ s ∈ m.ts, s.pit = []) (ops : List MOp) :
    AllWF (mrun H m ops) ∧ Placed H (mrun H m ops) := by
  have hinit : AllWF m ∧ Placed H m := by
    constructor
    · intro t s hs
      exact wf_init s (h0 s (List.mem_of_getElem? hs))
    · intro t s hs
      constructor
      intro e he
      rw [h0 s (List.mem_of_getElem? hs)] at he
      simp at he
  unfold mrun
  generalize m = m0 at hinit
  induction ops generalizing m0 with
  | nil => exact hinit
  | cons op t ih => simp only [List.foldl_cons]; exact ih _ (mstep_inv hinit op)

end Ndn.Fw
