/-
  C01/FwSpec.lean — the executable SPECIFICATION side of C01 / C02 / C09.

  Two parts:

  (1) Specification predicates over model states (`satisfies`, `specLocalhost`, `pendingFor`, …) —
      the vocabulary of the theorems in C01/Props, C02/Props, C09/Props.

  (2) A *ledger*: an abstract, history-based account of the pending Interests, kept ONLY from the
      operations and the IMPLEMENTATION's own outputs (never from the `Fw` model), on which the
      clauses of the three properties are evaluated for every real output (→ SPEC lines).
      Because expiry instants, the dead nonce list and the cache are mechanism, every fact of the
      ledger carries two bounds: what is CERTAIN (used where the property demands a send) and what
      is POSSIBLE (used where the property forbids a send).  A clause is reported only when it
      is violated under every reading, so the ledger never raises an alarm for the stricter of two
      readings (DESIGN Appendix A).
-/
import NdnVerif.Driver.Common
import NdnVerif.C01.Fw
namespace Ndn.Fw.Spec
open Ndn Ndn.Fw Ndn.Driver

/-! ## (1) predicates used by the theorems -/

def localhostComp : Component := ⟨8, localhostBytes⟩

/-- the property's notion: the name begins with the generic component `localhost` -/
def specLocalhost : Name → Bool
  | [] => false
  | c :: _ => c == localhostComp

/-- name rule of C01: equal, or an extension when CanBePrefix was set -/
def nameMatch (dataName : Name) (iname : Name) (cbp : Bool) : Bool :=
  dataName == iname || (cbp && iname.isPrefixOf dataName)

/-- C01: Data `d` satisfies PIT entry `e`: token echo in this forwarder's 6-byte format, or (no
    such token and) the name rule -/
def satisfies (d : Data) (e : Entry) : Bool :=
  match d.tok with
  | .six v => e.token == v
  | _ => nameMatch d.name e.name e.cbp

def nonLocal (faces : List Face) (g : FaceId) : Bool :=
  match faceOf faces g with
  | some fc => !fc.isLocal
  | none => false

/-! ### which faces are non-local (C09): the scope a transport must assign -/

/-- textual loopback test on canonical addresses: IPv4 127.0.0.0/8, IPv6 ::1 -/
def isLoopbackText (a : String) : Bool :=
  if a.contains ':' then a == "::1"
  else match a.splitOn "." with
    | [o1, _, _, _] => o1 == "127"
    | _ => false

/-- specification of the scope classification: Unix-stream faces and faces whose remote address is a
    loopback address are Local, every other unicast TCP/UDP face is NonLocal -/
def scopeLocal (kind addr : String) : Bool := kind == "unix" || isLoopbackText addr

/-! ## (2) the ledger -/

structure Key where
  name : Name
  cbp : Bool
  mbf : Bool
  hint : Option Name
deriving DecidableEq, Repr

/-- observed send of the implementation -/
structure Obs where
  isData : Bool
  face : Nat
  name : Name
  hop : Option Nat := none
  tok : String := "-"
  content : Nat := 0

structure Pend where
  key : Key
  face : FaceId
  toks : List Bytes
  /-- the nonce currently recorded for this face is one of these (a singleton when certain) -/
  nonces : List Nat
  since : Time          -- start of the certain, continuous presence of this in-record
  certainUntil : Time   -- the in-record certainly exists while now < certainUntil (0 = never certain)
  possibleUntil : Time
deriving Repr

structure OutI where
  key : Key
  face : FaceId
  nonce : Nat
  sentAt : Time
  /-- expiry of the out-record: the PIT entry certainly lives until then (unless satisfied) -/
  expiry : Time
deriving Repr

/-- what the ledger knows about one (name, nonce) key of the dead nonce list -/
inductive DState
  | absent                 -- certainly not listed
  | present (lo hi : Time) -- certainly listed, with an expiry instant in [lo, hi]
  | unknown (u : Time)     -- may be listed; certainly gone after `u`
deriving Repr

structure SpSt where
  now : Time := 0
  faces : List Face := []
  fib : List (Name × List (FaceId × Nat)) := []
  strat : List (Name × Strat) := []
  regions : List Name := []
  csAdmit : Bool := true
  csServe : Bool := true
  dnlLife : Nat := 6000 * ms
  pends : List Pend := []
  /-- the PIT entry of a key may exist until this instant -/
  horizon : List (Key × Time) := []
  outs : List OutI := []
  /-- label ↦ (key, issue time) -/
  issued : List (Nat × Key × Time) := []
  lastTok : List (Name × Nat) := []
  /-- dead nonce list as far as it is known (keys not listed here are `absent`) -/
  dnl : List ((Name × Nat) × DState) := []
  /-- names of Data that may be cached -/
  cached : List Name := []
  usedNonce : List (Name × Nat) := []
  lastPit : Nat := 0
  lastCs : Nat := 0
  /-- several forwarding threads (only used to name the class of a violation) -/
  multi : Bool := false

/-- slack for "possibly still there": one update period plus the 1 µs offsets of the harness -/
def slack : Nat := tickInterval + ms

def cfgOp (sp : SpSt) : Op → SpSt
  | .addFace f => { sp with faces := sp.faces.filter (·.id != f.id) ++ [f] }
  | .rmFace id => { sp with faces := sp.faces.filter (·.id != id) }
  | .fibIns n f c => { sp with fib := fibIns sp.fib n f c }
  | .fibRem n f => { sp with fib := fibRem sp.fib n f }
  | .fibClr n => { sp with fib := fibClr sp.fib n }
  | .setStrat n s => { sp with strat := setStrat sp.strat n s }
  | .unsetStrat n => { sp with strat := if n.isEmpty then sp.strat else sp.strat.filter (·.1 != n) }
  | .region n => { sp with regions := if sp.regions.contains n then sp.regions else sp.regions ++ [n] }
  | .csConf a sv => { sp with csAdmit := a, csServe := sv }
  | _ => sp

def horizonOf (sp : SpSt) (k : Key) : Option Time := (sp.horizon.find? (·.1 == k)).map (·.2)

/-- the PIT entry of `k` may exist now -/
def keyPossible (sp : SpSt) (k : Key) : Bool :=
  match horizonOf sp k with
  | some t => sp.now ≤ t + slack
  | none => false

def Pend.certain (p : Pend) (now : Time) : Bool := now < p.certainUntil

/-- state of a dead-nonce-list key at instant `t` (a `present` record is reaped by the first tick after
    its expiry) -/
def dGetAt (sp : SpSt) (k : Name × Nat) (t : Time) : DState :=
  match sp.dnl.find? (·.1 == k) with
  | none => .absent
  | some (_, .present lo hi) => if t > hi + slack then .absent else .present lo hi
  | some (_, .unknown u) => if t > u then .absent else .unknown u
  | some (_, .absent) => .absent

def dGet (sp : SpSt) (k : Name × Nat) : DState := dGetAt sp k sp.now

def dSet (sp : SpSt) (k : Name × Nat) (d : DState) : SpSt :=
  { sp with dnl := (k, d) :: sp.dnl.filter (·.1 != k) }

/-- DeadNonceList.Insert at an instant not later than `t` (and not earlier than the previous operation):
    a no-op while the key is listed (the old expiry stays); `sure` = the insertion certainly takes
    place, otherwise it may or may not -/
def dInsertAt (sp : SpSt) (k : Name × Nat) (sure : Bool) (t : Time) : SpSt :=
  let later := t + sp.dnlLife + slack
  match dGetAt sp k t with
  | .absent => dSet sp k (if sure then .present (t + sp.dnlLife) (t + sp.dnlLife) else .unknown later)
  | .present lo hi => if t < lo then dSet sp k (.present lo hi) else dSet sp k (.unknown later)
  | .unknown u => dSet sp k (.unknown (max u later))

def dInsert (sp : SpSt) (k : Name × Nat) (sure : Bool) : SpSt := dInsertAt sp k sure sp.now

/-- an insertion that certainly takes place at some instant of [a, b] -/
def dInsertIn (sp : SpSt) (k : Name × Nat) (a b : Time) : SpSt :=
  let later := b + sp.dnlLife + slack
  match dGetAt sp k a, dGetAt sp k b with
  | .absent, .absent => dSet sp k (.present (a + sp.dnlLife) (b + sp.dnlLife))
  | _, .present lo hi =>
    if b < lo then
      -- listed throughout [a, b]: a no-op, unless this insertion may have been the earlier of the two
      if a + sp.dnlLife ≥ hi then dSet sp k (.present lo hi)
      else dSet sp k (.present (min lo (a + sp.dnlLife)) (max hi (b + sp.dnlLife)))
    else dSet sp k (.unknown later)
  | _, .unknown u => dSet sp k (.unknown (max u later))
  | _, .absent => dSet sp k (.unknown later)

def certainlyDead (sp : SpSt) (k : Name × Nat) : Bool :=
  match dGet sp k with
  | .present lo _ => sp.now < lo
  | _ => false

def advance (sp : SpSt) (dt : Nat) : SpSt :=
  let now := sp.now + dt
  let sp := { sp with now := now }
  /- PIT entries that may have expired by now were finalised: the nonces of their out-records may have
     been put on the dead nonce list (an entry with a certainly live in-record has not expired) -/
  -- events are applied in chronological order (the state of a key summarises its past)
  let insOut (o : OutI) : List OutI → List OutI := fun l =>
    (l.filter fun x => x.expiry ≤ o.expiry) ++ [o] ++ (l.filter fun x => x.expiry > o.expiry)
  let ordered := sp.outs.foldl (fun acc o => insOut o acc) []
  let sp := ordered.foldl (fun sp o =>
    if sp.pends.any (fun p => p.key == o.key && p.certain now) then sp
    else match horizonOf sp o.key with
      | some h =>
        /- every record of the entry has certainly run out: the entry holding this out-record was
           finalised at some instant between the out-record's own expiry (until then it kept the
           entry alive) and the end of the entry's last possible lifetime -/
        if now > h + slack then dInsertIn sp (o.key.name, o.nonce) o.expiry (h + slack)
        else dInsertAt sp (o.key.name, o.nonce) false now
      | none => dInsertAt sp (o.key.name, o.nonce) false now) sp
  { sp with
    pends := sp.pends.filter fun p => keyPossible sp p.key
    outs := sp.outs.filter fun o => keyPossible sp o.key }

def valLocalhost (n : Name) : Bool := isLocalhost n

def keyOf (sp : SpSt) (i : Interest) : Key := ⟨i.name, i.cbp, i.mbf, fhName sp.regions i.hints⟩

def hopAfter : Option Nat → Option Nat
  | some (h + 1) => some h
  | _ => none

/-- next hop usable for an outgoing Interest under the reading anchored in the mechanism -/
def usableNh (sp : SpSt) (f : FaceId) (i : Interest) (g : FaceId) : Bool :=
  match faceOf sp.faces g with
  | none => false
  | some fc =>
    !(g == f && fc.link != .adhoc) && !(hopAfter i.hop == some 0 && !fc.isLocal) &&
    !(!fc.isLocal && valLocalhost i.name)

def fail (c k m : String) : SpecFail := ⟨c, k, m⟩

def setHorizon (h : List (Key × Time)) (k : Key) (t : Time) : List (Key × Time) :=
  match h.find? (·.1 == k) with
  | some (_, t0) => (k, max t0 t) :: h.filter (·.1 != k)
  | none => (k, t) :: h

def labelOfTok (s : String) : Option Nat := if s.startsWith "T" then (s.drop 1).toNat? else none

/-- C09 clause shared by both packet kinds -/
def scopeFails (sp : SpSt) (obs : List Obs) : List SpecFail :=
  obs.flatMap fun o =>
    if nonLocal sp.faces o.face && specLocalhost o.name then
      [fail "C09-localhost-sent-nonlocal" (if o.isData then "data" else "interest")
        s!"{if o.isData then "Data" else "Interest"} {o.name.toText} was sent on non-local face {o.face}"] ++
      -- C01: copies go to the pending faces "scope rules permitting"
      (if o.isData then [fail "C01-scope-rule-ignored" "localhost"
        s!"Data {o.name.toText} was delivered to non-local face {o.face} although the /localhost scope rule forbids it"] else [])
    else []

def onInterest (sp : SpSt) (f : FaceId) (i : Interest) (obs : List Obs) (pit cs : Nat) : SpSt × List SpecFail :=
  let isends := obs.filter (!·.isData)
  let dsends := obs.filter (·.isData)
  let key := keyOf sp i
  let inF := faceOf sp.faces f
  let inboundViolation := (match inF with | some fc => !fc.isLocal | none => false) && specLocalhost i.name
  let inboundMaybe := (match inF with | some fc => !fc.isLocal | none => false) && valLocalhost i.name
  let nhs := lpmNextHops sp.fib (lookupName sp.regions i)
  let strat := lpmStrat sp.strat i.name
  let nonce := i.nonce.getD 0
  let fresh := i.nonce.isSome && !(sp.usedNonce.contains (i.name, nonce))
  let certDead := certainlyDead sp (i.name, nonce)
  let certDup := sp.pends.any fun p => p.key == key && p.face != f && p.nonces == [nonce] && p.certain sp.now
  let possDup := sp.pends.any fun p => p.key == key && p.face != f && p.nonces.contains nonce
  let droppedSure := inF.isNone || i.hop == some 0 || inboundViolation || i.nonce.isNone || certDead || certDup
  let certainOut (o : OutI) : Bool :=
    sp.pends.any fun p => p.key == o.key && p.certain sp.now && p.since ≤ o.sentAt
  let holder (g : FaceId) : Bool := g != f && sp.pends.any fun p => p.key == key && p.face == g
  -- ---------------------------------------------------------------- clauses
  let fails : List SpecFail :=
    scopeFails sp obs ++
    -- C09: rejected inbound, nothing happens
    (if inboundViolation && (!obs.isEmpty || pit != sp.lastPit || cs != sp.lastCs) then
      [fail "C09-localhost-accepted-inbound" "interest"
        s!"Interest {i.name.toText} from non-local face {f} was not rejected without effect"] else []) ++
    -- C01: cache answer goes to the requester alone
    (if !dsends.isEmpty then
      (if obs.length != 1 then [fail "C01-cs-hit-single" "count" s!"an Interest answered with Data produced {obs.length} sends"] else []) ++
      (dsends.filterMap fun o =>
        if o.face != f then some (fail "C01-cs-hit-single" "face" s!"cached Data {o.name.toText} sent to face {o.face}, requester is {f}")
        else if !nameMatch o.name i.name i.cbp then some (fail "C01-cs-hit-match" "name" s!"cached Data {o.name.toText} does not match Interest {i.name.toText}")
        else if hexOrDash i.tok != o.tok then some (fail "C01-cs-hit-token" "token" s!"cached Data carries token {o.tok}, the requester supplied {hexOrDash i.tok}")
        else none)
     else []) ++
    -- C02: where Interests may go
    (isends.filterMap fun o =>
      if !(nhs.any (·.1 == o.face)) && i.nextHop != some o.face then
        some (fail "C02-not-a-next-hop" (if i.nextHop.isSome then "nexthopfaceid" else "fib") s!"Interest {i.name.toText} sent to face {o.face}, not a next hop of the longest-prefix FIB entry")
      else if o.face == f && (match inF with | some fc => fc.link == .p2p | none => false) then
        some (fail "C02-uturn" (if i.nextHop.isSome then "nexthopfaceid" else "strategy") s!"Interest {i.name.toText} sent back out of its point-to-point arrival face {f}")
      else if o.hop != hopAfter i.hop then
        some (fail "C02-hop-limit" (if i.nextHop.isSome then "nexthopfaceid" else "strategy") s!"Interest {i.name.toText} forwarded with hop limit {repr o.hop}, arrived with {repr i.hop}")
      else if o.name != i.name then some (fail "C02-name-changed" "name" s!"forwarded name {o.name.toText}")
      else none) ++
    (if !isends.isEmpty then
      (if i.hop == some 0 then [fail "C02-hop0-forwarded" "hop0" s!"Interest {i.name.toText} with hop limit 0 was forwarded"] else []) ++
      (if i.nonce.isNone then [fail "C02-no-nonce-forwarded" "nonce" s!"Interest {i.name.toText} without nonce was forwarded"] else []) ++
      (if i.nonce.isSome && certDead then [fail "C02-dead-nonce-forwarded" "dnl" s!"Interest {i.name.toText} nonce {nonce} is on the dead nonce list but was forwarded"] else []) ++
      (if i.nonce.isSome && certDup then [fail "C02-dup-nonce-forwarded" "dup" s!"Interest {i.name.toText} repeats nonce {nonce} pending from another face but was forwarded"] else []) ++
      (if i.nextHop.isNone && i.nonce.isSome && (sp.outs.any fun o => o.key == key && o.nonce != nonce && sp.now < o.sentAt + suppressionInterval && certainOut o) then
        [fail "C02-retx-not-suppressed" "suppress" s!"Interest {i.name.toText} nonce {nonce} forwarded inside the suppression interval of a different nonce"] else []) ++
      (if i.nextHop.isNone && strat == .best then
        (if isends.length != 1 then [fail "C02-best-route-single" "count" s!"best-route forwarded {isends.length} copies"] else []) ++
        (isends.filterMap fun o =>
          match nhs.find? (·.1 == o.face) with
          | none => none
          | some (_, c) =>
            match nhs.find? (fun nh => nh.2 < c && usableNh sp f i nh.1 && !holder nh.1) with
            | some (g, c') => some (fail "C02-best-route-not-min" "cost" s!"best-route chose face {o.face} cost {c}; usable next hop {g} costs {c'}")
            | none => none)
       else []) ++
      (if i.nextHop.isNone && strat == .multi then
        (nhs.filterMap fun nh =>
          if usableNh sp f i nh.1 && !holder nh.1 && !(isends.any (·.face == nh.1)) then
            some (fail "C02-multicast-missed" "nexthop" s!"multicast skipped usable next hop {nh.1}")
          else none)
       else [])
     else []) ++
    -- C02: the first Interest with a usable next hop is forwarded
    (if !droppedSure && !inboundMaybe && fresh && !keyPossible sp key && !possDup && isends.isEmpty &&
        !(sp.csServe && sp.cached.any fun c => nameMatch c i.name i.cbp) then
      match i.nextHop with
      | none =>
        (match nhs.find? (fun nh => usableNh sp f i nh.1) with
         | some (g, _) =>
           [fail "C02-first-not-forwarded" "first" s!"first Interest {i.name.toText} has usable next hop {g} but was not forwarded"] ++
           (if specLocalhost i.name && (match inF with | some fc => fc.isLocal | none => false) && !nonLocal sp.faces g then
             [fail "C09-local-exchange-broken" "interest" s!"/localhost Interest {i.name.toText} from local face {f} has local next hop {g} but was not forwarded"] else [])
         | none => [])
      | some g =>
        if usableNh sp f i g then [fail "C02-first-not-forwarded" "nexthopfaceid" s!"Interest {i.name.toText} with usable consumer-chosen next hop {g} was not forwarded"] else []
     else [])
  -- ---------------------------------------------------------------- ledger update
  let sp1 := { sp with usedNonce := if i.nonce.isSome then (i.name, nonce) :: sp.usedNonce else sp.usedNonce,
                       lastPit := pit, lastCs := cs }
  if droppedSure then (sp1, fails)
  else
    /- from a non-local face an Interest "/" with CanBePrefix may be swallowed by a cached /localhost
       Data that the outgoing scope rule then drops -/
    let cacheMaySwallow := sp.csServe && (match inF with | some fc => !fc.isLocal | none => false) && i.cbp && i.name.isEmpty
    let processed := (fresh && !inboundMaybe && !cacheMaySwallow) || !isends.isEmpty || !dsends.isEmpty
    let dl := sp.now + lifetimeNs i
    let old := sp.pends.find? fun p => p.key == key && p.face == f
    let others := sp.pends.filter fun p => !(p.key == key && p.face == f)
    let pends :=
      if !dsends.isEmpty then others
      else match old with
        | some p =>
          let stillCertain := p.certain sp.now
          { p with toks := if p.toks.contains i.tok then p.toks else p.toks ++ [i.tok]
                   nonces := if processed then [nonce] else if p.nonces.contains nonce then p.nonces else nonce :: p.nonces
                   since := if stillCertain then p.since else sp.now
                   certainUntil := if processed then dl else if stillCertain then min p.certainUntil dl else 0
                   possibleUntil := if processed then dl else max p.possibleUntil dl } :: others
        | none =>
          { key := key, face := f, toks := [i.tok], nonces := [nonce], since := sp.now,
            certainUntil := if processed then dl else 0, possibleUntil := dl } :: others
    /- an Interest from a face that already holds an in-record puts the in-record's previous nonce on
       the dead nonce list: certainly, if the in-record and its nonce are certain and this Interest was
       certainly processed; possibly, for every nonce the in-record may hold -/
    let sp1 := match old with
      | some p =>
        if dsends.isEmpty then
          match p.nonces with
          | [x] => dInsert sp1 (i.name, x) (processed && p.certain sp.now)
          | xs => xs.foldl (fun acc x => dInsert acc (i.name, x) false) sp1
        else sp1
      | none => sp1
    let outs := isends.foldl (fun acc o => ⟨key, o.face, nonce, sp.now, dl⟩ :: acc.filter (fun x => !(x.key == key && x.face == o.face))) sp1.outs
    let issued := isends.foldl (fun acc o => match labelOfTok o.tok with
      | some k => if acc.any (·.1 == k) then acc else (k, key, sp.now) :: acc
      | none => acc) sp1.issued
    let lastTok := isends.foldl (fun acc o => match labelOfTok o.tok with
      | some k => (o.name, k) :: acc.filter (·.1 != o.name)
      | none => acc) sp1.lastTok
    ({ sp1 with pends := pends, outs := outs, issued := issued, lastTok := lastTok,
                horizon := setHorizon sp1.horizon key dl }, fails)

/-- token of an incoming Data as the ledger sees it -/
inductive STok
  | none
  | label (k : Nat)
  | foreign6
  | other

def onData (sp : SpSt) (f : FaceId) (d : Data) (tk : STok) (obs : List Obs) (pit cs : Nat) : SpSt × List SpecFail :=
  let inF := faceOf sp.faces f
  let inboundViolation := (match inF with | some fc => !fc.isLocal | none => false) && specLocalhost d.name
  let inboundMaybe := (match inF with | some fc => !fc.isLocal | none => false) && valLocalhost d.name
  let sp0 := { sp with lastPit := pit, lastCs := cs }
  if inF.isNone || inboundViolation then
    (sp0, scopeFails sp obs ++
      (if inboundViolation && (!obs.isEmpty || pit != sp.lastPit || cs != sp.lastCs) then
        [fail "C09-localhost-accepted-inbound" "data" s!"Data {d.name.toText} from non-local face {f} was not rejected without effect"] else []) ++
      (if inF.isNone && !obs.isEmpty then [fail "C01-unknown-face" "data" "Data from an unknown face produced sends"] else []))
  else
    -- which keys does the Data satisfy
    let byName (k : Key) : Bool := nameMatch d.name k.name k.cbp
    let issuedKey : Option (Key × Time) := match tk with
      | .label k => (sp.issued.find? (·.1 == k)).map (·.2)
      | _ => none
    let possMatch (k : Key) : Bool := match tk with
      | .label _ => (match issuedKey with | some (k0, _) => k0 == k | none => false)
      | .foreign6 => false
      | _ => byName k
    /- the token certainly still names the live entry of its key: an in-record of that key has been
       certainly present since before the token was issued -/
    let certMatch (p : Pend) : Bool := p.certain sp.now && (match tk with
      | .label _ => (match issuedKey with | some (k0, t0) => k0 == p.key && p.since ≤ t0 | none => false)
      | .foreign6 => false
      | _ => byName p.key)
    let scopeOk (g : FaceId) : Bool := (faceOf sp.faces g).isSome && !(nonLocal sp.faces g && valLocalhost d.name)
    let dsends := obs.filter (·.isData)
    let fails : List SpecFail :=
      scopeFails sp obs ++
      (obs.filterMap fun o =>
        if !o.isData then some (fail "C01-data-made-interest" "kind" "a Data arrival produced an Interest send")
        else if o.name != d.name || o.content != d.content then some (fail "C01-data-altered" "content" s!"forwarded Data {o.name.toText} c={o.content} differs from the arrival")
        else
          match sp.pends.filter (fun p => p.face == o.face && possMatch p.key) with
          | [] => some (fail "C01-data-to-non-pending-face" (match tk with | .label _ => "token" | .foreign6 => "foreign-token" | _ => "name")
                    s!"Data {d.name.toText} sent to face {o.face}, which holds no pending Interest it satisfies")
          | ps => if ps.any (fun p => p.toks.any fun b => hexOrDash b == o.tok) then none
                  else some (fail "C01-wrong-token-echoed" "token" s!"Data {d.name.toText} sent to face {o.face} with token {o.tok}, that face supplied {ps.flatMap (·.toks.map hexOrDash)}")) ++
      -- exactly one copy per pending Interest: lower bound from the certain ones, upper from the possible ones
      (if inboundMaybe then [] else
        (sp.pends.filter (fun p => certMatch p && p.face != f && scopeOk p.face)).filterMap fun p =>
          let need := (sp.pends.filter fun q => certMatch q && q.face == p.face).length
          let have_ := (dsends.filter (·.face == p.face)).length
          if have_ < need then
            some (fail "C01-pending-face-not-served"
              (if sp.multi && (match tk with | .label _ => false | _ => true) then
                 (if p.key.name.isEmpty then "multithread-dispatch-empty-prefix"
                  else if nonLocal sp.faces f && p.key.name != d.name then "multithread-dispatch-nonlocal-prefix"
                  else "multithread-dispatch")
               else if specLocalhost d.name then "localhost" else "data")
              s!"face {p.face} holds {need} pending Interest(s) satisfied by Data {d.name.toText} but received {have_} copies")
          else none) ++
      (if inboundMaybe then [] else
        (sp.pends.filter (fun p => certMatch p && p.face != f && scopeOk p.face && specLocalhost d.name && !nonLocal sp.faces p.face
            && (dsends.filter (·.face == p.face)).isEmpty)).map fun p =>
          fail "C09-local-exchange-broken" "data" s!"/localhost Data {d.name.toText} was not returned to local face {p.face}") ++
      ((dsends.map (·.face)).eraseDups.filterMap fun g =>
        let have_ := (dsends.filter (·.face == g)).length
        let most := (sp.pends.filter fun p => p.face == g && possMatch p.key).length
        if most > 0 && have_ > most then some (fail "C01-too-many-copies" "count" s!"face {g} received {have_} copies for {most} pending Interest(s)") else none)
    -- ---------------------------------------------------------------- ledger update
    let certainConsume (k : Key) : Bool := !inboundMaybe && match tk with
      | .label _ => sp.pends.any fun p => p.key == k && certMatch p
      | .foreign6 => false
      | _ => byName k
    let pends := sp.pends.filterMap fun p =>
      if certainConsume p.key then none
      else if possMatch p.key then some { p with certainUntil := 0 }
      else some p
    let outs := sp.outs.filter fun o => !possMatch o.key
    let cached := if sp.csAdmit && !(sp.cached.contains d.name) then d.name :: sp.cached else sp.cached
    /- satisfaction puts (Data name, out-record nonce) on the dead nonce list: every nonce seen so far
       may from now on be dead under the Data's name -/
    let nonces := (sp.usedNonce.map (·.2)).eraseDups
    let used := nonces.foldl (fun acc n => if acc.contains (d.name, n) then acc else (d.name, n) :: acc) sp.usedNonce
    -- … and the nonces of the out-records of possibly existing entries may be listed right now
    let sp0 := ((sp.outs.map (·.nonce)).eraseDups).foldl (fun acc n => dInsert acc (d.name, n) false) sp0
    ({ sp0 with pends := pends, outs := outs, cached := cached, usedNonce := used }, fails)

end Ndn.Fw.Spec
