/-
  C01 model = the shared forwarding-thread model `Fw` (C01/Fw.lean) and the specification
  vocabulary (C01/FwSpec.lean).  See design/C01.md.
-/
import NdnVerif.C01.Fw
import NdnVerif.C01.FwSpec
