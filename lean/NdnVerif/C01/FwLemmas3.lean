/-
  C01/FwLemmas3.lean — the strategy stage of the incoming Interest pipeline, characterised from the
  pre-state (used by the liveness / minimum-cost / suppression theorems of C02 and C09).
-/
import NdnVerif.C01.FwLemmas2
namespace Ndn.Fw
open Ndn Ndn.Fw.Spec

/-- the PIT entry an Interest aggregates into, if it exists -/
def preEntry (s : St) (i : Interest) : Option Entry :=
  s.pit.find? (·.hasKey i.name i.cbp i.mbf (fhName s.regions i.hints))

structure Stage (s : St) (f : FaceId) (i : Interest) (nonce : Nat) (s' : St) (tok : Nat) (e' : Entry) : Prop where
  faces : s'.faces = s.faces
  fib : s'.fib = s.fib
  regions : s'.regions = s.regions
  strat : s'.strat = s.strat
  now : s'.now = s.now
  entry : getEntry s'.pit tok = some e'
  inSub : ∀ r ∈ e'.inRecs, r.face = f ∨ ∃ e, preEntry s i = some e ∧ ∃ r0 ∈ e.inRecs, r0.face = r.face
  outs : e'.outRecs = ((preEntry s i).map (·.outRecs)).getD []
  fresh : preEntry s i = none → tok = s.nextTok ∧ e'.inRecs = [⟨f, nonce, s.now + lifetimeNs i, i.tok⟩]

theorem getEntry_append_fresh {pit : List Entry} {e0 : Entry} (h : ∀ e ∈ pit, e.token ≠ e0.token) :
    getEntry (pit ++ [e0]) e0.token = some e0 := by
  unfold getEntry
  rw [List.find?_append]
  have : pit.find? (·.token == e0.token) = none := by
    rw [List.find?_eq_none]
    intro x hx; simpa using h x hx
  simp [this]

theorem onInterest_stage (s : St) (hwf : WF s) (f : FaceId) (i : Interest) (tie : List FaceId) (pick : Nat)
    (inF : Face) (hop : Option Nat) (nonce : Nat)
    (hF : faceOf s.faces f = some inF) (hhop : hopStep i.hop = some hop)
    (hsc : (!inF.isLocal && isLocalhost i.name) = false)
    (hn : i.nonce = some nonce) (hdead : dnlHas s.dnl i.name nonce = false)
    (hdup : ∀ e, preEntry s i = some e → (e.inRecs.any fun r => r.face != f && r.nonce == nonce) = false) :
    (∃ ce cs', s.csServe = true ∧ csFind s.now s.cs i pick = some (ce, cs') ∧
        (onInterest s f i tie pick).2 = dataSends s.faces ce.name ce.content [(f, i.tok)]) ∨
    (∃ s' tok e', Stage s f i nonce s' tok e' ∧ onInterest s f i tie pick = forwardInterest s' tok i nonce hop f tie) := by
  unfold onInterest
  simp only [hF, hhop, hsc, hn, hdead, Bool.false_eq_true, if_false]
  cases hpre : preEntry s i with
  | none =>
    have hpre' : s.pit.find? (·.hasKey i.name i.cbp i.mbf (fhName s.regions i.hints)) = none := hpre
    simp only [insertInterest, hpre']
    have hge : getEntry (s.pit ++ [(⟨i.name, i.cbp, i.mbf, fhName s.regions i.hints, s.nextTok, [], [], false, none⟩ : Entry)])
        s.nextTok = some ⟨i.name, i.cbp, i.mbf, fhName s.regions i.hints, s.nextTok, [], [], false, none⟩ :=
      getEntry_append_fresh (e0 := ⟨i.name, i.cbp, i.mbf, fhName s.regions i.hints, s.nextTok, [], [], false, none⟩)
        (fun e he => Nat.ne_of_lt (hwf.tokLt e he))
    simp only [hge, Bool.false_eq_true, if_false, List.find?_nil]
    cases hcs : (if s.csServe = true then csFind s.now s.cs i pick else none) with
    | some p =>
      obtain ⟨ce, cs'⟩ := p
      left
      have hserve : s.csServe = true := by
        cases hsv : s.csServe with
        | true => rfl
        | false => simp [hsv] at hcs
      simp only [hserve, if_true] at hcs
      exact ⟨ce, cs', hserve, hcs, rfl⟩
    | none =>
      right
      refine ⟨_, s.nextTok, ⟨i.name, i.cbp, i.mbf, fhName s.regions i.hints, s.nextTok,
        [⟨f, nonce, s.now + lifetimeNs i, i.tok⟩], [], false, none⟩, ?_, rfl⟩
      constructor
      · rfl
      · rfl
      · rfl
      · rfl
      · rfl
      · exact getEntry_modifyEntry (fun e => { e with inRecs := e.inRecs ++ [⟨f, nonce, s.now + lifetimeNs i, i.tok⟩] })
          (fun _ => rfl) hge
      · intro r hr
        simp only [List.mem_singleton] at hr
        left; rw [hr]
      · simp [hpre]
      · intro _; exact ⟨rfl, rfl⟩
  | some e =>
    have hpre' : s.pit.find? (·.hasKey i.name i.cbp i.mbf (fhName s.regions i.hints)) = some e := hpre
    have hemem : e ∈ s.pit := List.mem_of_find?_eq_some hpre'
    have hge : getEntry s.pit e.token = some e := getEntry_of_mem hwf.tokNodup hemem
    simp only [insertInterest, hpre', hdup e hpre, Bool.false_eq_true, if_false, hge]
    cases hfind : e.inRecs.find? (·.face == f) with
    | some r =>
      right
      simp only []
      refine ⟨_, e.token, { e with inRecs := e.inRecs.map fun x =>
        if x.face == f then { r with nonce := nonce, expiry := s.now + lifetimeNs i } else x }, ?_, rfl⟩
      constructor
      · simp
      · simp
      · simp
      · simp
      · simp
      · simp only [dnlInsert_pit]
        exact getEntry_modifyEntry (fun e => { e with inRecs := e.inRecs.map fun x =>
          if x.face == f then { r with nonce := nonce, expiry := s.now + lifetimeNs i } else x }) (fun _ => rfl) hge
      · intro x hx
        simp only [List.mem_map] at hx
        obtain ⟨y, hy, rfl⟩ := hx
        split
        · left; simpa using List.find?_some hfind
        · right; exact ⟨e, hpre, y, hy, rfl⟩
      · simp [hpre]
      · intro h; rw [hpre] at h; cases h
    | none =>
      simp only []
      cases hcs : (if s.csServe = true then csFind s.now s.cs i pick else none) with
      | some p =>
        obtain ⟨ce, cs'⟩ := p
        left
        have hserve : s.csServe = true := by
          cases hsv : s.csServe with
          | true => rfl
          | false => simp [hsv] at hcs
        simp only [hserve, if_true] at hcs
        exact ⟨ce, cs', hserve, hcs, rfl⟩
      | none =>
        right
        refine ⟨_, e.token, { e with inRecs := e.inRecs ++ [⟨f, nonce, s.now + lifetimeNs i, i.tok⟩] }, ?_, rfl⟩
        constructor
        · rfl
        · rfl
        · rfl
        · rfl
        · rfl
        · exact getEntry_modifyEntry (fun e => { e with inRecs := e.inRecs ++ [⟨f, nonce, s.now + lifetimeNs i, i.tok⟩] })
            (fun _ => rfl) hge
        · intro x hx
          simp only [List.mem_append, List.mem_singleton] at hx
          rcases hx with hx | hx
          · right; exact ⟨e, hpre, x, hx, rfl⟩
          · left; rw [hx]
        · simp [hpre]
        · intro h; rw [hpre] at h; cases h

/-- acceptance conditions of the incoming Interest pipeline up to the duplicate-nonce test -/
structure Accepted (s : St) (f : FaceId) (i : Interest) (inF : Face) (hop : Option Nat) (nonce : Nat) : Prop where
  face : faceOf s.faces f = some inF
  hhop : hopStep i.hop = some hop
  scope : (!inF.isLocal && isLocalhost i.name) = false
  hnonce : i.nonce = some nonce
  alive : dnlHas s.dnl i.name nonce = false
  nodup : ∀ e, preEntry s i = some e → (e.inRecs.any fun r => r.face != f && r.nonce == nonce) = false

theorem onInterest_silent_or_accepted (s : St) (f : FaceId) (i : Interest) (tie : List FaceId) (pick : Nat) :
    (onInterest s f i tie pick).2 = [] ∨ ∃ inF hop nonce, Accepted s f i inF hop nonce := by
  cases hF : faceOf s.faces f with
  | none => left; simp [onInterest, hF]
  | some inF =>
    cases hhop : hopStep i.hop with
    | none => left; simp [onInterest, hF, hhop]
    | some hop =>
      cases hsc : (!inF.isLocal && isLocalhost i.name) with
      | true => left; simp only [onInterest, hF, hhop, hsc, if_true]
      | false =>
        cases hn : i.nonce with
        | none => left; simp only [onInterest, hF, hhop, hsc, hn, Bool.false_eq_true, if_false]
        | some nonce =>
          cases hdead : dnlHas s.dnl i.name nonce with
          | true => left; simp only [onInterest, hF, hhop, hsc, hn, hdead, Bool.false_eq_true, if_false, if_true]
          | false =>
            cases hpre : preEntry s i with
            | none => right; exact ⟨inF, hop, nonce, hF, hhop, hsc, hn, hdead, by intro e he; rw [hpre] at he; cases he⟩
            | some e =>
              cases hdup : (e.inRecs.any fun r => r.face != f && r.nonce == nonce) with
              | false =>
                right
                refine ⟨inF, hop, nonce, hF, hhop, hsc, hn, hdead, ?_⟩
                intro e' he'
                rw [hpre] at he'
                cases he'
                exact hdup
              | true =>
                left
                have hpre' : s.pit.find? (·.hasKey i.name i.cbp i.mbf (fhName s.regions i.hints)) = some e := hpre
                simp only [onInterest, hF, hhop, hsc, hn, hdead, Bool.false_eq_true, if_false, insertInterest, hpre', hdup, if_true]

/-- the three shapes of the outcome of an Interest arrival in a reachable state -/
theorem onInterest_forms (s : St) (hwf : WF s) (f : FaceId) (i : Interest) (tie : List FaceId) (pick : Nat) :
    (onInterest s f i tie pick).2 = [] ∨
    (∃ ce cs', s.csServe = true ∧ csFind s.now s.cs i pick = some (ce, cs') ∧
        (onInterest s f i tie pick).2 = dataSends s.faces ce.name ce.content [(f, i.tok)]) ∨
    (∃ inF hop nonce s' tok e', Accepted s f i inF hop nonce ∧ Stage s f i nonce s' tok e' ∧
        onInterest s f i tie pick = forwardInterest s' tok i nonce hop f tie) := by
  rcases onInterest_silent_or_accepted s f i tie pick with h | ⟨inF, hop, nonce, hacc⟩
  · left; exact h
  · right
    rcases onInterest_stage s hwf f i tie pick inF hop nonce hacc.face hacc.hhop hacc.scope hacc.hnonce hacc.alive hacc.nodup
      with h | ⟨s', tok, e', hst, heq⟩
    · left; exact h
    · right; exact ⟨inF, hop, nonce, s', tok, e', hacc, hst, heq⟩

theorem dataSends_isData {faces name content l} : ∀ snd ∈ dataSends faces name content l, snd.isData = true := by
  intro snd h
  obtain ⟨t, _, rfl, _⟩ := mem_dataSends h
  rfl

/-- a next hop held back from the strategy: another face that already has an in-record in the entry -/
def heldBy (s : St) (i : Interest) (f g : FaceId) : Prop :=
  g ≠ f ∧ ∃ e, preEntry s i = some e ∧ ∃ r ∈ e.inRecs, r.face = g

theorem mem_allowed_of_not_held {s s' : St} {f : FaceId} {i : Interest} {nonce tok : Nat} {e' : Entry}
    (hst : Stage s f i nonce s' tok e') {nh : FaceId × Nat}
    (hnh : nh ∈ lpmNextHops s.fib (lookupName s.regions i)) (hfree : ¬heldBy s i f nh.1) :
    nh ∈ allowedNhs s' i e' f := by
  unfold allowedNhs
  rw [hst.fib, hst.regions, List.mem_filter]
  refine ⟨hnh, ?_⟩
  by_cases hf : nh.1 = f
  · simp [hf]
  · have : (e'.inRecs.any fun x => x.face == nh.1) = false := by
      rw [List.any_eq_false]
      intro r hr hrf
      have hrf' : r.face = nh.1 := by simpa using hrf
      rcases hst.inSub r hr with h | ⟨e, he, r0, hr0, hr0f⟩
      · exact hf (by rw [← hrf', h])
      · exact hfree ⟨hf, e, he, r0, hr0, by rw [hr0f, hrf']⟩
    simp [this]

theorem mem_nhs_of_allowed {s s' : St} {f : FaceId} {i : Interest} {nonce tok : Nat} {e' : Entry}
    (hst : Stage s f i nonce s' tok e') {nh : FaceId × Nat} (h : nh ∈ allowedNhs s' i e' f) :
    nh ∈ lpmNextHops s.fib (lookupName s.regions i) := by
  unfold allowedNhs at h
  rw [hst.fib, hst.regions] at h
  exact (List.mem_filter.mp h).1

/-! ### the entry after the strategy stage (used by the /localhost liveness theorem of C09) -/

theorem outInterest_entry {s : St} {tok : Nat} {e : Entry} (i nonce hop g inFace)
    (h : getEntry s.pit tok = some e) :
    ∃ e2, getEntry (outInterest s tok i nonce hop g inFace).1.pit tok = some e2 ∧ e2.inRecs = e.inRecs := by
  unfold outInterest
  split
  · exact ⟨_, getEntry_modifyEntry _ (fun _ => rfl) h, rfl⟩
  · exact ⟨e, h, rfl⟩

theorem bestRoute_entry {s : St} {tok : Nat} {e : Entry} (i nonce hop inFace) (l : List (FaceId × Nat))
    (h : getEntry s.pit tok = some e) :
    ∃ e2, getEntry (bestRoute s tok i nonce hop inFace l).1.pit tok = some e2 ∧ e2.inRecs = e.inRecs := by
  induction l with
  | nil => exact ⟨e, h, rfl⟩
  | cons nh t ih =>
    unfold bestRoute
    split
    · exact outInterest_entry i nonce hop nh.1 inFace h
    · exact ih

theorem multicast_entry {s : St} {tok : Nat} {e : Entry} (i nonce hop inFace) (l : List (FaceId × Nat))
    (h : getEntry s.pit tok = some e) :
    ∃ e2, getEntry (multicast s tok i nonce hop inFace l).1.pit tok = some e2 ∧ e2.inRecs = e.inRecs := by
  induction l generalizing s e with
  | nil => exact ⟨e, h, rfl⟩
  | cons nh t ih =>
    simp only [multicast]
    obtain ⟨e1, h1, hi1⟩ := outInterest_entry i nonce hop nh.1 inFace h
    obtain ⟨e2, h2, hi2⟩ := ih h1
    exact ⟨e2, h2, by rw [hi2, hi1]⟩

theorem bestRoute_faces (s : St) (tok i nonce hop inFace) (l : List (FaceId × Nat)) :
    (bestRoute s tok i nonce hop inFace l).1.faces = s.faces := by
  induction l with
  | nil => rfl
  | cons nh t ih => unfold bestRoute; split <;> simp [ih]

theorem forwardInterest_entry {s : St} {tok : Nat} {e : Entry} (i nonce hop inFace tie)
    (h : getEntry s.pit tok = some e) :
    (∃ e2, getEntry (forwardInterest s tok i nonce hop inFace tie).1.pit tok = some e2 ∧ e2.inRecs = e.inRecs) ∧
    (forwardInterest s tok i nonce hop inFace tie).1.faces = s.faces := by
  unfold forwardInterest
  have h1 := getEntry_modifyEntry (Entry.updateExp s.now) (fun _ => rfl) h
  dsimp only
  split
  · obtain ⟨e2, h2, hi⟩ := outInterest_entry (s := { s with pit := modifyEntry s.pit tok (Entry.updateExp s.now) }) (e := Entry.updateExp s.now e) i nonce hop _ inFace h1
    exact ⟨⟨e2, h2, hi⟩, by simp⟩
  · split
    · exact ⟨⟨_, h1, rfl⟩, rfl⟩
    · split
      · exact ⟨⟨_, h1, rfl⟩, rfl⟩
      · split
        · exact ⟨⟨_, h1, rfl⟩, rfl⟩
        · split
          · obtain ⟨e2, h2, hi⟩ := bestRoute_entry (s := { s with pit := modifyEntry s.pit tok (Entry.updateExp s.now) }) (e := Entry.updateExp s.now e) i nonce hop inFace _ h1
            exact ⟨⟨e2, h2, hi⟩, by rw [bestRoute_faces]⟩
          · obtain ⟨e2, h2, hi⟩ := multicast_entry (s := { s with pit := modifyEntry s.pit tok (Entry.updateExp s.now) }) (e := Entry.updateExp s.now e) i nonce hop inFace _ h1
            exact ⟨⟨e2, h2, hi⟩, by simp⟩

/-- a Data echoing token `tok` reaches the faces of the in-records of the entry with that token -/
theorem onData_token_delivers (s : St) (from_ : FaceId) (fc : Face) (name : Name) (c : Nat) (tok : Nat) (e : Entry)
    (hf : faceOf s.faces from_ = some fc) (hl : fc.isLocal = true) (he : getEntry s.pit tok = some e) :
    (onData s from_ { name := name, content := c, tok := .six tok }).2 =
      dataSends s.faces name c (e.inRecs.map fun r => (r.face, r.tok)) := by
  unfold onData
  simp only [hf, hl, Bool.not_true, Bool.false_and, Bool.false_eq_true, if_false]
  have hpit : (if s.csAdmit = true then csInsert s { name := name, content := c, tok := .six tok } else s).pit = s.pit := by
    split <;> simp
  have hfaces : (if s.csAdmit = true then csInsert s { name := name, content := c, tok := .six tok } else s).faces = s.faces := by
    split <;> simp
  have hm : matchData s.pit { name := name, content := c, tok := .six tok } = [e] := by
    unfold matchData; unfold getEntry at he; simp [he]
  rw [hpit, hm]
  simp only [hfaces]

end Ndn.Fw
