/-
  C01/Fw.lean — the shared executable model `Fw` of ONE forwarding thread (C01, C02, C09).

  Mirrors, branch by branch,
    fw/fw/thread.go      processIncomingInterest / processOutgoingInterest / processIncomingData /
                         processOutgoingData / finalizeInterest / Run (timer cases)
    fw/fw/strategy.go    StrategyBase.SendInterest / SendData
    fw/fw/bestroute.go   AfterContentStoreHit / AfterReceiveData / AfterReceiveInterest
    fw/fw/multicast.go   (same three)
    fw/table/pit-cs-tree.go  InsertInterest, RemoveInterest, FindInterestPrefixMatchByDataEnc,
                         findInterestPrefixMatchByNameEnc, InsertOutRecord, Update, updatePitExpiry,
                         InsertData, FindMatchingDataFromCS, findMatchingDataCSPrefix
    fw/table/pit-cs.go   InsertInRecord, UpdateExpirationTimer, SetExpirationTimerToNow, Clear*Records
    fw/table/cs-lru.go   AfterInsert / AfterRefresh / BeforeUse / EvictEntries
    fw/table/dead-nonce-list.go  Find / Insert / RemoveExpiredEntries
    fw/table/network-region.go   IsProducer
  The FIB is the abstract longest-prefix-match table (C05 proves both implementations refine it).

  What the model describes is what the code DOES.  Go maps are association lists; wherever the
  code's result depends on map iteration / unstable sort order the model takes an explicit
  oracle argument (`tie` for sort.Slice in best-route, `pick` for findMatchingDataCSPrefix) and the
  theorems quantify over every oracle value.  Core Lean only.
-/
import NdnVerif.Base.Name
namespace Ndn.Fw

abbrev FaceId := Nat
/-- virtual time in nanoseconds since the thread was created -/
abbrev Time := Nat

def ms : Nat := 1000000
/-- BestRouteSuppressionTime = MulticastSuppressionTime = 500 ms -/
def suppressionInterval : Nat := 500 * ms
/-- expiredPitTickerInterval, and the period of the dead-nonce-list ticker -/
def tickInterval : Nat := 100 * ms
/-- default Interest lifetime used by InsertInRecord / InsertOutRecord -/
def defaultLifetimeMs : Nat := 4000

inductive Link | p2p | multi | adhoc
deriving DecidableEq, Repr

structure Face where
  id : FaceId
  isLocal : Bool
  link : Link
deriving DecidableEq, Repr

structure InRec where
  face : FaceId
  nonce : Nat
  expiry : Time
  tok : Bytes
deriving DecidableEq, Repr

structure OutRec where
  face : FaceId
  nonce : Nat
  sentAt : Time
  expiry : Time
  name : Name
deriving DecidableEq, Repr

structure Entry where
  name : Name
  cbp : Bool
  mbf : Bool
  hint : Option Name
  token : Nat
  inRecs : List InRec
  outRecs : List OutRec
  satisfied : Bool
  /-- priority in pitExpiryQueue (`none`: not queued) -/
  sched : Option Time
deriving DecidableEq, Repr

structure CsEnt where
  name : Name
  content : Nat
  stale : Time
deriving DecidableEq, Repr

structure Dead where
  name : Name
  nonce : Nat
  expiry : Time
deriving DecidableEq, Repr

inductive Strat | best | multi
deriving DecidableEq, Repr

structure St where
  now : Time := 0
  faces : List Face := []
  /-- abstract FIB: prefix ↦ next hops (face, cost) in insertion order -/
  fib : List (Name × List (FaceId × Nat)) := []
  /-- strategy choices; the root default is best-route -/
  strat : List (Name × Strat) := []
  regions : List Name := []
  csAdmit : Bool := true
  csServe : Bool := true
  csCap : Nat := 1024
  dnlLife : Nat := 6000 * ms
  pit : List Entry := []
  nextTok : Nat := 0
  /-- Content Store in LRU order (head = least recently used) -/
  cs : List CsEnt := []
  /-- dead nonce list in queue order -/
  dnl : List Dead := []
  nextUpd : Time := tickInterval
  nextDnl : Time := tickInterval
  nOutInterests : Nat := 0
  nOutData : Nat := 0
  nSatisfied : Nat := 0
  /-- set when two timers fired at the same instant and their order mattered (A-clock) -/
  amb : Bool := false
deriving DecidableEq, Repr

/-- the token attached to a forwarded Interest -/
inductive ITok
  | mine (t : Nat)      -- 6 bytes: thread id ++ entry token
  | raw (b : Bytes)     -- NextHopFaceId shortcut: whatever the downstream attached
deriving DecidableEq, Repr

/-- the token carried by an incoming Data -/
inductive DTok
  | none
  | six (v : Nat)       -- 6 bytes (this forwarder's format); `v` = the 32-bit value
  | other (b : Bytes)   -- any other length
deriving DecidableEq, Repr

structure Interest where
  name : Name
  cbp : Bool := false
  mbf : Bool := false
  nonce : Option Nat := none
  hop : Option Nat := none
  lifeMs : Option Nat := none
  tok : Bytes := []
  nextHop : Option FaceId := none
  hints : List Name := []
deriving DecidableEq, Repr

structure Data where
  name : Name
  freshMs : Option Nat := none
  content : Nat := 0
  tok : DTok := .none
deriving DecidableEq, Repr

inductive Send
  | interest (face : FaceId) (name : Name) (hop : Option Nat) (tok : ITok)
  | data (face : FaceId) (name : Name) (content : Nat) (tok : Bytes)
deriving DecidableEq, Repr

def Send.face : Send → FaceId
  | .interest f _ _ _ => f
  | .data f _ _ _ => f

def Send.name : Send → Name
  | .interest _ n _ _ => n
  | .data _ n _ _ => n

def Send.isData : Send → Bool
  | .data .. => true
  | _ => false

inductive Op
  | addFace (f : Face)
  | rmFace (id : FaceId)
  | fibIns (n : Name) (f : FaceId) (c : Nat)
  | fibRem (n : Name) (f : FaceId)
  | fibClr (n : Name)
  | setStrat (n : Name) (s : Strat)
  | unsetStrat (n : Name)
  | region (n : Name)
  | csConf (adm serve : Bool)
  | cap (n : Nat)
  | adv (dt : Nat)
  | interest (f : FaceId) (i : Interest) (tie : List FaceId) (pick : Nat)
  | data (f : FaceId) (d : Data)
deriving Repr

/-! ## names, faces, FIB -/

def localhostBytes : Bytes := [0x6c, 0x6f, 0x63, 0x61, 0x6c, 0x68, 0x6f, 0x73, 0x74]

/-- `len(name) > 0 && bytes.Equal(name[0].Val, LOCALHOST)` — the code compares the VALUE only -/
def isLocalhost : Name → Bool
  | [] => false
  | c :: _ => c.val == localhostBytes

def faceOf (faces : List Face) (id : FaceId) : Option Face := faces.find? (·.id == id)

/-- prefixes of `n`, longest first -/
def prefixesDesc (n : Name) : List Name := (List.range (n.length + 1)).reverse.map n.take

/-- FindNextHopsEnc: next hops of the longest prefix that has any -/
def lpmNextHops (fib : List (Name × List (FaceId × Nat))) (n : Name) : List (FaceId × Nat) :=
  ((prefixesDesc n).findSome? fun p =>
    match fib.find? (·.1 == p) with
    | some (_, nhs) => if nhs.isEmpty then none else some nhs
    | none => none).getD []

/-- FindStrategyEnc: strategy of the longest prefix that has one; the root always has best-route
    unless replaced -/
def lpmStrat (strat : List (Name × Strat)) (n : Name) : Strat :=
  ((prefixesDesc n).findSome? fun p => (strat.find? (·.1 == p)).map (·.2)).getD .best

def fibIns (fib : List (Name × List (FaceId × Nat))) (n : Name) (f : FaceId) (c : Nat) :
    List (Name × List (FaceId × Nat)) :=
  match fib.find? (·.1 == n) with
  | none => fib ++ [(n, [(f, c)])]
  | some _ => fib.map fun e =>
      if e.1 == n then
        (e.1, if e.2.any (·.1 == f) then e.2.map (fun h => if h.1 == f then (f, c) else h) else e.2 ++ [(f, c)])
      else e

def fibRem (fib : List (Name × List (FaceId × Nat))) (n : Name) (f : FaceId) :=
  fib.map fun e => if e.1 == n then (e.1, e.2.filter (·.1 != f)) else e

def fibClr (fib : List (Name × List (FaceId × Nat))) (n : Name) :=
  fib.map fun e => if e.1 == n then (e.1, []) else e

def setStrat (strat : List (Name × Strat)) (n : Name) (s : Strat) : List (Name × Strat) :=
  (strat.filter (·.1 != n)) ++ [(n, s)]

/-! ## dead nonce list -/

def dnlHas (dnl : List Dead) (n : Name) (nonce : Nat) : Bool := dnl.any fun d => d.name == n && d.nonce == nonce

/-- DeadNonceList.Insert (keyed by hash(name)+nonce; modelled as the pair, assumption A-hash) -/
def dnlInsert (s : St) (n : Name) (nonce : Nat) : St :=
  if dnlHas s.dnl n nonce then s else { s with dnl := s.dnl ++ [⟨n, nonce, s.now + s.dnlLife⟩] }

def dnlInsertAll (s : St) (l : List (Name × Nat)) : St := l.foldl (fun s p => dnlInsert s p.1 p.2) s

/-- RemoveExpiredEntries: pops while the head is expired, at most 100 per tick -/
def dnlReap : Nat → Time → List Dead → List Dead
  | 0, _, l => l
  | _ + 1, _, [] => []
  | k + 1, now, d :: t => if d.expiry < now then dnlReap k now t else d :: t

/-! ## Content Store -/

def csAcceptable (now : Time) (mbf : Bool) (e : CsEnt) : Bool := !mbf || now < e.stale

/-- InsertData + CsLRU.AfterInsert/AfterRefresh/EvictEntries -/
def csInsert (s : St) (d : Data) : St :=
  let stale := s.now + (d.freshMs.getD 0) * ms
  let ent : CsEnt := ⟨d.name, d.content, stale⟩
  if s.cs.any (·.name == d.name) then
    { s with cs := s.cs.filter (·.name != d.name) ++ [ent] }
  else
    let cs := s.cs ++ [ent]
    { s with cs := cs.drop (cs.length - s.csCap) }

/-- candidates of findMatchingDataCSPrefix below the exact node: acceptable entries strictly under
    the Interest name that are not shadowed by an acceptable entry on the path -/
def csPrefixCands (now : Time) (cs : List CsEnt) (i : Interest) : List CsEnt :=
  let acc := cs.filter fun e => csAcceptable now i.mbf e && i.name.isPrefixOf e.name
  acc.filter fun e => !(acc.any fun a => a.name.length < e.name.length && a.name.isPrefixOf e.name)

/-- FindMatchingDataFromCS: the chosen entry and the LRU order afterwards -/
def csFind (now : Time) (cs : List CsEnt) (i : Interest) (pick : Nat) : Option (CsEnt × List CsEnt) :=
  match cs.find? (·.name == i.name) with
  | some e =>
    if csAcceptable now i.mbf e then
      if i.cbp then some (e, cs) else some (e, cs.filter (·.name != i.name) ++ [e])   -- BeforeUse
    else if i.cbp then
      let c := csPrefixCands now cs i
      if h : c.length > 0 then some (c[pick % c.length]'(Nat.mod_lt _ h), cs) else none
    else none
  | none =>
    if i.cbp then
      let c := csPrefixCands now cs i
      if h : c.length > 0 then some (c[pick % c.length]'(Nat.mod_lt _ h), cs) else none
    else none

/-! ## PIT -/

def Entry.hasKey (e : Entry) (n : Name) (cbp mbf : Bool) (hint : Option Name) : Bool :=
  e.name == n && e.cbp == cbp && e.mbf == mbf && e.hint == hint

def modifyEntry (pit : List Entry) (tok : Nat) (f : Entry → Entry) : List Entry :=
  pit.map fun e => if e.token == tok then f e else e

def maxExp (base : Time) (l : List Time) : Time := l.foldl max base

/-- UpdateExpirationTimer -/
def Entry.updateExp (now : Time) (e : Entry) : Entry :=
  { e with sched := some (maxExp (maxExp now (e.inRecs.map (·.expiry))) (e.outRecs.map (·.expiry))) }

def Entry.clearRecs (now : Time) (e : Entry) : Entry :=
  { e with sched := some now, satisfied := true, inRecs := [], outRecs := [] }

/-- RemoveInterest: the entry is replaced by the last entry of its name-tree node (slice swap) -/
def removeEntry (pit : List Entry) (tok : Nat) : List Entry :=
  match pit.find? (·.token == tok) with
  | none => pit
  | some e =>
    match (pit.filter (·.name == e.name)).getLast? with
    | none => pit
    | some l =>
      if l.token == tok then pit.filter (·.token != tok)
      else (pit.filter (·.token != l.token)).map fun x => if x.token == tok then l else x

def lifetimeNs (i : Interest) : Nat := (i.lifeMs.getD defaultLifetimeMs) * ms

/-- forwarding hint handling of processIncomingInterest: `none` when the producer region is reached -/
def fhName (regions : List Name) (hints : List Name) : Option Name :=
  if hints.any (fun h => regions.any fun r => r.isPrefixOf h) then none else hints.head?

def lookupName (regions : List Name) (i : Interest) : Name := (fhName regions i.hints).getD i.name

/-! ## outgoing pipelines -/

/-- the guards of processOutgoingInterest (after the fix of F-09a: also the /localhost scope rule) -/
def usableOut (faces : List Face) (inFace : FaceId) (name : Name) (hop : Option Nat) (g : FaceId) : Bool :=
  match faceOf faces g with
  | none => false
  | some fc =>
    !(fc.id == inFace && fc.link != .adhoc) &&
    !(hop == some 0 && !fc.isLocal) &&
    !(!fc.isLocal && isLocalhost name)

/-- processOutgoingInterest -/
def outInterest (s : St) (tok : Nat) (i : Interest) (nonce : Nat) (hop : Option Nat) (g inFace : FaceId) :
    St × List Send :=
  if usableOut s.faces inFace i.name hop g then
    let rec_ : OutRec := ⟨g, nonce, s.now, s.now + lifetimeNs i, i.name⟩
    ({ s with
        pit := modifyEntry s.pit tok fun e =>
          { e with outRecs := if e.outRecs.any (·.face == g)
                              then e.outRecs.map (fun r => if r.face == g then rec_ else r)
                              else e.outRecs ++ [rec_] }
        nOutInterests := s.nOutInterests + 1 },
     [.interest g i.name hop (.mine tok)])
  else (s, [])

/-- processOutgoingData as a function of the face table: the sends for a list of (face, token) -/
def dataSends (faces : List Face) (name : Name) (content : Nat) (targets : List (FaceId × Bytes)) : List Send :=
  targets.filterMap fun t =>
    match faceOf faces t.1 with
    | none => none
    | some fc => if !fc.isLocal && isLocalhost name then none else some (.data t.1 name content t.2)

def countData (s : St) (n : Nat) : St := { s with nOutData := s.nOutData + n, nSatisfied := s.nSatisfied + n }

/-! ## strategies -/

def tieRank (tie : List FaceId) (f : FaceId) : Nat := tie.findIdx (· == f)

def nhLe (tie : List FaceId) (a b : FaceId × Nat) : Bool :=
  a.2 < b.2 || (a.2 == b.2 && tieRank tie a.1 ≤ tieRank tie b.1)

def insertNh (tie : List FaceId) (a : FaceId × Nat) : List (FaceId × Nat) → List (FaceId × Nat)
  | [] => [a]
  | b :: t => if nhLe tie a b then a :: b :: t else b :: insertNh tie a t

/-- sort.Slice by cost; `tie` decides the order among equal costs (the Go sort is not stable) -/
def sortNh (tie : List FaceId) (l : List (FaceId × Nat)) : List (FaceId × Nat) :=
  l.foldr (insertNh tie) []

/-- best-route: first next hop in cost order accepted by processOutgoingInterest -/
def bestRoute (s : St) (tok : Nat) (i : Interest) (nonce : Nat) (hop : Option Nat) (inFace : FaceId) :
    List (FaceId × Nat) → St × List Send
  | [] => (s, [])
  | nh :: t =>
    if usableOut s.faces inFace i.name hop nh.1 then outInterest s tok i nonce hop nh.1 inFace
    else bestRoute s tok i nonce hop inFace t

/-- multicast: every next hop, in FIB order -/
def multicast (s : St) (tok : Nat) (i : Interest) (nonce : Nat) (hop : Option Nat) (inFace : FaceId) :
    List (FaceId × Nat) → St × List Send
  | [] => (s, [])
  | nh :: t =>
    let r := outInterest s tok i nonce hop nh.1 inFace
    let r2 := multicast r.1 tok i nonce hop inFace t
    (r2.1, r.2 ++ r2.2)

def suppressed (now : Time) (e : Entry) (nonce : Nat) : Bool :=
  e.outRecs.any fun r => r.nonce != nonce && now < r.sentAt + suppressionInterval

/-! ## incoming Interest pipeline -/

/-- hop limit step: `none` = drop (HopLimit 0), otherwise the decremented value -/
def hopStep : Option Nat → Option (Option Nat)
  | none => some none
  | some 0 => none
  | some (h + 1) => some (some h)

/-- InsertInterest: the entry's token, the new state, and whether the nonce is a duplicate -/
def insertInterest (s : St) (i : Interest) (hint : Option Name) (inFace : FaceId) (nonce : Nat) :
    St × Nat × Bool :=
  match s.pit.find? (·.hasKey i.name i.cbp i.mbf hint) with
  | some e => (s, e.token, e.inRecs.any fun r => r.face != inFace && r.nonce == nonce)
  | none =>
    let e : Entry := ⟨i.name, i.cbp, i.mbf, hint, s.nextTok, [], [], false, none⟩
    ({ s with pit := s.pit ++ [e], nextTok := s.nextTok + 1 }, s.nextTok, false)

def getEntry (pit : List Entry) (tok : Nat) : Option Entry := pit.find? (·.token == tok)

/-- everything after the in-record has been inserted and the CS missed (or was skipped) -/
def forwardInterest (s : St) (tok : Nat) (i : Interest) (nonce : Nat) (hop : Option Nat) (inFace : FaceId)
    (tie : List FaceId) : St × List Send :=
  -- UpdateExpirationTimer
  let s := { s with pit := modifyEntry s.pit tok (Entry.updateExp s.now) }
  match i.nextHop with
  | some g =>
    -- NextHopFaceId: through the outgoing Interest pipeline (fix of F-02a)
    outInterest s tok i nonce hop g inFace
  | none =>
    match getEntry s.pit tok with
    | none => (s, [])
    | some e =>
      let nhs := lpmNextHops s.fib (lookupName s.regions i)
      let allowed := nhs.filter fun nh => !(e.inRecs.any (·.face == nh.1)) || nh.1 == inFace
      if allowed.isEmpty then (s, [])
      else if suppressed s.now e nonce then (s, [])
      else match lpmStrat s.strat i.name with
        | .best => bestRoute s tok i nonce hop inFace (sortNh tie allowed)
        | .multi => multicast s tok i nonce hop inFace allowed

def onInterest (s : St) (fid : FaceId) (i : Interest) (tie : List FaceId) (pick : Nat) : St × List Send :=
  match faceOf s.faces fid with
  | none => (s, [])
  | some inF =>
    match hopStep i.hop with
    | none => (s, [])
    | some hop =>
      if !inF.isLocal && isLocalhost i.name then (s, [])
      else match i.nonce with
        | none => (s, [])
        | some nonce =>
          if dnlHas s.dnl i.name nonce then (s, [])
          else
            let hint := fhName s.regions i.hints
            let (s1, tok, dup) := insertInterest s i hint fid nonce
            if dup then (s1, [])
            else match getEntry s1.pit tok with
              | none => (s1, [])
              | some e =>
                match e.inRecs.find? (·.face == fid) with
                | some r =>
                  -- already pending: refresh the in-record (the first PIT token is kept), the
                  -- previous nonce goes to the dead nonce list
                  let r' : InRec := { r with nonce := nonce, expiry := s1.now + lifetimeNs i }
                  let s2 := { s1 with pit := modifyEntry s1.pit tok fun e =>
                                { e with inRecs := e.inRecs.map fun x => if x.face == fid then r' else x } }
                  forwardInterest (dnlInsert s2 i.name r.nonce) tok i nonce hop fid tie
                | none =>
                  let r' : InRec := ⟨fid, nonce, s1.now + lifetimeNs i, i.tok⟩
                  let s2 := { s1 with pit := modifyEntry s1.pit tok fun e => { e with inRecs := e.inRecs ++ [r'] } }
                  match (if s2.csServe then csFind s2.now s2.cs i pick else none) with
                  | some (ce, cs') =>
                    -- AfterContentStoreHit → SendData(inFace) → processOutgoingData;
                    -- then UpdateExpirationTimer (fix of F-08a)
                    let sends := dataSends s2.faces ce.name ce.content [(fid, i.tok)]
                    let s3 := { s2 with cs := cs', pit := modifyEntry s2.pit tok fun e =>
                                  Entry.updateExp s2.now { e with inRecs := e.inRecs.filter (·.face != fid) } }
                    (countData s3 sends.length, sends)
                  | none => forwardInterest s2 tok i nonce hop fid tie

/-! ## incoming Data pipeline -/

/-- findInterestPrefixMatchByNameEnc: deepest node first, slice order within a node -/
def matchByName (pit : List Entry) (n : Name) : List Entry :=
  (prefixesDesc n).flatMap fun p => pit.filter fun e => e.name == p && (e.cbp || p.length == n.length)

/-- FindInterestPrefixMatchByDataEnc -/
def matchData (pit : List Entry) (d : Data) : List Entry :=
  match d.tok with
  | .six v => (pit.find? (·.token == v)).toList
  | _ => matchByName pit d.name

def onData (s : St) (fid : FaceId) (d : Data) : St × List Send :=
  match faceOf s.faces fid with
  | none => (s, [])
  | some inF =>
    if !inF.isLocal && isLocalhost d.name then (s, [])
    else
      let s := if s.csAdmit then csInsert s d else s
      let ms_ := matchData s.pit d
      match ms_ with
      | [] => (s, [])
      | [e] =>
        -- single match: strategy.AfterReceiveData sends to EVERY in-record (the arrival face included)
        let sends := dataSends s.faces d.name d.content (e.inRecs.map fun r => (r.face, r.tok))
        let s1 := { s with pit := modifyEntry s.pit e.token (Entry.clearRecs s.now) }
        let s2 := dnlInsertAll s1 (e.outRecs.map fun r => (d.name, r.nonce))
        (countData s2 sends.length, sends)
      | e0 :: _ =>
        -- several matches: every in-record except those of the arrival face; only the out-records
        -- of the FIRST entry reach the dead nonce list (`pitEntries[0]`)
        let sends := ms_.flatMap fun e =>
          dataSends s.faces d.name d.content ((e.inRecs.filter (·.face != fid)).map fun r => (r.face, r.tok))
        let toks := ms_.map (·.token)
        let s1 := { s with pit := s.pit.map fun e => if toks.contains e.token then e.clearRecs s.now else e }
        let s2 := dnlInsertAll s1 (e0.outRecs.map fun r => (d.name, r.nonce))
        (countData s2 sends.length, sends)

/-! ## timers -/

/-- one expired entry: finalizeInterest (out-record nonces become dead) and RemoveInterest -/
def expireOne (s : St) (e : Entry) : St :=
  let s := dnlInsertAll s (e.outRecs.map fun r => (r.name, r.nonce))
  { s with pit := removeEntry s.pit e.token }

def isDue (now : Time) (e : Entry) : Bool :=
  match e.sched with
  | some t => t ≤ now
  | none => false

def schedOf (e : Entry) : Time := e.sched.getD 0

def insertBySched (e : Entry) : List Entry → List Entry
  | [] => [e]
  | x :: t => if schedOf x ≤ schedOf e then x :: insertBySched e t else e :: x :: t

/-- all due entries are popped from the expiry queue in priority order; entries with EQUAL priority
    come out in heap order, which the model does not track: when two such entries sit in the same
    name-tree node and at least two entries of that node survive, the resulting slice order (it
    decides `pitEntries[0]` of a later multi-match) is unknown and the state is flagged ambiguous
    (A-clock) -/
def pitExpire (s : St) : St :=
  let due := (s.pit.filter (isDue s.now)).foldr insertBySched []
  let a := due.foldl expireOne s
  let unknownOrder := due.any fun e1 =>
    (due.any fun e2 => e1.token != e2.token && e1.sched == e2.sched && e1.name == e2.name) &&
    (a.pit.filter (·.name == e1.name)).length ≥ 2
  if unknownOrder then { a with amb := true } else a

def nextUpdDelay (now : Time) (pit : List Entry) : Nat :=
  match pit.filterMap (·.sched) with
  | [] => tickInterval
  | t :: ts =>
    let m := ts.foldl min t
    if m > now then min (m - now) tickInterval else tickInterval

/-- PitCsTree.Update at the instant `s.now`: expire, finalize, re-arm -/
def pitUpdate (s : St) : St :=
  let s1 := pitExpire s
  { s1 with nextUpd := s.now + nextUpdDelay s.now s1.pit }

def dnlTick (s : St) : St := { s with dnl := dnlReap 100 s.now s.dnl, nextDnl := s.nextDnl + tickInterval }

/-- advance the clock to `target`, running the two timers in time order -/
def advTo : Nat → Time → St → St
  | 0, target, s => { s with now := max s.now target }
  | fuel + 1, target, s =>
    let t := min s.nextUpd s.nextDnl
    if t > target then { s with now := max s.now target }
    else
      let s := { s with now := max s.now t }
      if s.nextUpd == s.nextDnl then
        let a := dnlTick (pitUpdate s)
        let b := pitUpdate (dnlTick s)
        advTo fuel target (if a == b then a else { a with amb := true })
      else if s.nextUpd < s.nextDnl then advTo fuel target (pitUpdate s)
      else advTo fuel target (dnlTick s)

def step (s : St) : Op → St × List Send
  | .addFace f => ({ s with faces := s.faces.filter (·.id != f.id) ++ [f] }, [])
  | .rmFace id => ({ s with faces := s.faces.filter (·.id != id) }, [])
  | .fibIns n f c => ({ s with fib := fibIns s.fib n f c }, [])
  | .fibRem n f => ({ s with fib := fibRem s.fib n f }, [])
  | .fibClr n => ({ s with fib := fibClr s.fib n }, [])
  | .setStrat n st => ({ s with strat := setStrat s.strat n st }, [])
  | .unsetStrat n => ({ s with strat := if n.isEmpty then s.strat else s.strat.filter (·.1 != n) }, [])
  | .region n => ({ s with regions := if s.regions.contains n then s.regions else s.regions ++ [n] }, [])
  | .csConf a sv => ({ s with csAdmit := a, csServe := sv }, [])
  | .cap n => ({ s with csCap := n }, [])
  | .adv dt => (advTo (2 * dt + 2) (s.now + dt) s, [])
  | .interest f i tie pick => onInterest s f i tie pick
  | .data f d => onData s f d

/-- states reachable from an initial state (empty tables, any configuration) by any history -/
def run (s : St) (ops : List Op) : St := ops.foldl (fun s op => (step s op).1) s

end Ndn.Fw
