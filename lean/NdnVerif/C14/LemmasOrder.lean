import NdnVerif.C14.Spec
namespace Ndn.C14

/-! ### bytes -/

theorem cmpBytes_refl (a : Bytes) : cmpBytes a a = 0 := by
  induction a with
  | nil => rfl
  | cons x xs ih => simp [cmpBytes, ih]

theorem cmpBytes_vals (a b : Bytes) : cmpBytes a b = -1 ∨ cmpBytes a b = 0 ∨ cmpBytes a b = 1 := by
  induction a generalizing b with
  | nil => cases b <;> simp [cmpBytes]
  | cons x xs ih =>
    cases b with
    | nil => simp [cmpBytes]
    | cons y ys =>
      simp only [cmpBytes]
      split; · simp
      split; · simp
      exact ih ys

theorem cmpBytes_antisymm (a b : Bytes) : cmpBytes b a = - cmpBytes a b := by
  induction a generalizing b with
  | nil => cases b <;> simp [cmpBytes]
  | cons x xs ih =>
    cases b with
    | nil => simp [cmpBytes]
    | cons y ys =>
      simp only [cmpBytes]
      by_cases h1 : x < y
      · have : ¬ y < x := by omega
        simp [h1, this]
      · by_cases h2 : y < x
        · simp [h1, h2]
        · simp [h1, h2, ih]

theorem cmpBytes_eq_zero {a b : Bytes} : cmpBytes a b = 0 ↔ a = b := by
  induction a generalizing b with
  | nil => cases b <;> simp [cmpBytes]
  | cons x xs ih =>
    cases b with
    | nil => simp [cmpBytes]
    | cons y ys =>
      simp only [cmpBytes]
      by_cases h1 : x < y
      · simp [h1]; omega
      · by_cases h2 : y < x
        · simp [h1, h2]; omega
        · have : x = y := by omega
          simp [h1, h2, ih, this]

theorem cmpBytes_lt_iff {a b : Bytes} : cmpBytes a b = -1 ↔ List.Lex (· < ·) a b := by
  induction a generalizing b with
  | nil => cases b <;> simp [cmpBytes]
  | cons x xs ih =>
    cases b with
    | nil => simp [cmpBytes]
    | cons y ys =>
      rw [List.cons_lex_cons_iff]
      simp only [cmpBytes]
      by_cases h1 : x < y
      · simp [h1]
      · by_cases h2 : y < x
        · have : x ≠ y := by omega
          simp [h1, h2, this]
        · have : x = y := by omega
          subst this
          simp [ih]

/-! ### components -/

theorem cmpComp_refl (a : Component) : cmpComp a a = 0 := by simp [cmpComp, cmpBytes_refl]

theorem cmpComp_vals (a b : Component) : cmpComp a b = -1 ∨ cmpComp a b = 0 ∨ cmpComp a b = 1 := by
  unfold cmpComp
  split
  · split <;> simp
  · split
    · split <;> simp
    · exact cmpBytes_vals _ _

theorem cmpComp_antisymm (a b : Component) : cmpComp b a = - cmpComp a b := by
  obtain ⟨ta, va⟩ := a; obtain ⟨tb, vb⟩ := b
  simp only [cmpComp]
  by_cases ht : ta = tb
  · subst ht
    by_cases hl : va.length = vb.length
    · simp only [hl, ne_eq, not_true_eq_false, if_false]
      exact cmpBytes_antisymm va vb
    · have hl' : ¬ vb.length = va.length := fun h => hl h.symm
      by_cases h : va.length < vb.length
      · have : ¬ vb.length < va.length := by omega
        simp [hl, hl', h, this]
      · have : vb.length < va.length := by omega
        simp [hl, hl', h, this]
  · have ht' : ¬ tb = ta := fun h => ht h.symm
    by_cases h : ta < tb
    · have : ¬ tb < ta := by omega
      simp [ht, ht', h, this]
    · have : tb < ta := by omega
      simp [ht, ht', h, this]

theorem cmpComp_eq_zero {a b : Component} : cmpComp a b = 0 ↔ a = b := by
  unfold cmpComp
  constructor
  · intro h
    split at h
    · split at h <;> simp at h
    · split at h
      · split at h <;> simp at h
      · rename_i ht hl
        have := cmpBytes_eq_zero.mp h
        cases a; cases b; simp_all
  · rintro rfl; simp [cmpBytes_refl]

theorem cmpComp_lt_iff {a b : Component} : cmpComp a b = -1 ↔ compLt a b := by
  unfold cmpComp compLt
  by_cases ht : a.typ = b.typ
  · by_cases hl : a.val.length = b.val.length
    · simp [ht, hl, cmpBytes_lt_iff]
    · simp only [ht, hl, ne_eq, not_true_eq_false, ite_false, not_false_eq_true, ite_true, Nat.lt_irrefl,
        true_and, false_and, or_false, false_or]
      by_cases h : a.val.length < b.val.length <;> simp [h]
  · simp only [ht, ne_eq, not_false_eq_true, ite_true, false_and, or_false]
    by_cases h : a.typ < b.typ <;> simp [h]

theorem compLt_irrefl (a : Component) : ¬ compLt a a := by
  intro h
  have := cmpComp_lt_iff.mpr h
  rw [cmpComp_refl] at this; simp at this

/-! ### names -/

theorem cmpName_refl (n : Name) : cmpName n n = 0 := by
  induction n with
  | nil => rfl
  | cons c cs ih => simp [cmpName, cmpComp_refl, ih]

theorem cmpName_vals (a b : Name) : cmpName a b = -1 ∨ cmpName a b = 0 ∨ cmpName a b = 1 := by
  induction a generalizing b with
  | nil => cases b <;> simp [cmpName]
  | cons x xs ih =>
    cases b with
    | nil => simp [cmpName]
    | cons y ys =>
      simp only [cmpName]
      split
      · rcases cmpComp_vals x y with h | h | h <;> simp_all
      · exact ih ys

theorem cmpName_antisymm (a b : Name) : cmpName b a = - cmpName a b := by
  induction a generalizing b with
  | nil => cases b <;> simp [cmpName]
  | cons x xs ih =>
    cases b with
    | nil => simp [cmpName]
    | cons y ys =>
      simp only [cmpName]
      rw [cmpComp_antisymm x y]
      by_cases h : cmpComp x y = 0
      · simp [h]; exact ih ys
      · have : ¬ (-cmpComp x y = 0) := by omega
        simp [h, this]

theorem cmpName_eq_zero {a b : Name} : cmpName a b = 0 ↔ a = b := by
  induction a generalizing b with
  | nil => cases b <;> simp [cmpName]
  | cons x xs ih =>
    cases b with
    | nil => simp [cmpName]
    | cons y ys =>
      simp only [cmpName]
      by_cases h : cmpComp x y = 0
      · have := cmpComp_eq_zero.mp h
        subst this
        simp [h, ih]
      · have hne : x ≠ y := fun e => h (cmpComp_eq_zero.mpr e)
        simp [h, hne]

theorem cmpName_lt_iff {a b : Name} : cmpName a b = -1 ↔ nameLt a b := by
  unfold nameLt
  induction a generalizing b with
  | nil => cases b <;> simp [cmpName]
  | cons x xs ih =>
    cases b with
    | nil => simp [cmpName]
    | cons y ys =>
      rw [List.cons_lex_cons_iff]
      simp only [cmpName]
      by_cases h : cmpComp x y = 0
      · have e := cmpComp_eq_zero.mp h
        subst e
        simp [h, ih, compLt_irrefl]
      · have hne : x ≠ y := fun e => h (cmpComp_eq_zero.mpr e)
        simp only [h, ne_eq, not_false_eq_true, ite_true, hne, false_and, or_false]
        exact cmpComp_lt_iff

end Ndn.C14
