/-
  C14/XXHash.lean — XXH64 (seed 0) as github.com/cespare/xxhash v1.1.0 computes it, over byte lists.
  `Name.Hash()` = `xxh64 (hashInput n)`, `Component.Hash()` = `xxh64 (hashInputComp c)`: with this the
  correspondence compares hash VALUES, which ties the model's `hashInput` (8-byte big-endian type,
  8-byte big-endian value length, value bytes, per component) to what the code really feeds the hasher.
-/
import NdnVerif.C14.Model
namespace Ndn.C14

def p1 : UInt64 := 11400714785074694791
def p2 : UInt64 := 14029467366897019727
def p3 : UInt64 := 1609587929392839161
def p4 : UInt64 := 9650029242287828579
def p5 : UInt64 := 2870177450012600261

def rol (x : UInt64) (r : UInt64) : UInt64 := (x <<< r) ||| (x >>> (64 - r))

def xround (acc input : UInt64) : UInt64 := rol (acc + input * p2) 31 * p1

def mergeRound (acc v : UInt64) : UInt64 := (acc ^^^ xround 0 v) * p1 + p4

/-- little-endian value of the first `k` bytes -/
def leU64 (b : Bytes) (k : Nat) : UInt64 :=
  ((b.take k).reverse.foldl (fun acc x => acc * 256 + x) 0).toUInt64

/-- the 32-byte stripes -/
def stripes : Nat → Bytes → UInt64 × UInt64 × UInt64 × UInt64 → (UInt64 × UInt64 × UInt64 × UInt64) × Bytes
  | 0, b, v => (v, b)
  | fuel + 1, b, (v1, v2, v3, v4) =>
    if b.length < 32 then ((v1, v2, v3, v4), b)
    else stripes fuel (b.drop 32)
      (xround v1 (leU64 b 8), xround v2 (leU64 (b.drop 8) 8), xround v3 (leU64 (b.drop 16) 8), xround v4 (leU64 (b.drop 24) 8))

def tail8 : Nat → Bytes → UInt64 → UInt64 × Bytes
  | 0, b, h => (h, b)
  | fuel + 1, b, h =>
    if b.length < 8 then (h, b)
    else tail8 fuel (b.drop 8) (rol (h ^^^ xround 0 (leU64 b 8)) 27 * p1 + p4)

def tail1 (b : Bytes) (h : UInt64) : UInt64 :=
  b.foldl (fun h x => rol (h ^^^ (x.toUInt64 * p5)) 11 * p1) h

def avalanche (h : UInt64) : UInt64 :=
  let h := (h ^^^ (h >>> 33)) * p2
  let h := (h ^^^ (h >>> 29)) * p3
  h ^^^ (h >>> 32)

def xxh64 (b : Bytes) : UInt64 :=
  let n := b.length
  let (h0, rest) :=
    if n ≥ 32 then
      let ((v1, v2, v3, v4), rest) := stripes (n / 32 + 1) b (p1 + p2, p2, 0, 0 - p1)
      let h := rol v1 1 + rol v2 7 + rol v3 12 + rol v4 18
      (mergeRound (mergeRound (mergeRound (mergeRound h v1) v2) v3) v4, rest)
    else (p5, b)
  let h := h0 + n.toUInt64
  let (h, rest) := tail8 4 rest h
  let (h, rest) := if rest.length ≥ 4 then (rol (h ^^^ (leU64 rest 4 * p1)) 23 * p2 + p3, rest.drop 4) else (h, rest)
  avalanche (tail1 rest h)

/-- `Name.Hash()` and `Component.Hash()` -/
def nameHash (n : Name) : UInt64 := xxh64 (hashInput n)
def compHash (c : Component) : UInt64 := xxh64 (hashInputComp c)

def hexU64 (x : UInt64) : String :=
  let rec go : Nat → Nat → List Char → List Char
    | 0, _, acc => acc
    | fuel + 1, v, acc => if v == 0 then acc else go fuel (v / 16) (hexDigit (v % 16) :: acc)
  if x == 0 then "0" else String.ofList (go 16 x.toNat [])

-- test vectors of XXH64 (seed 0): "", "a", "abc", and a 39-byte input crossing the stripe path
example : xxh64 [] = 0xef46db3751d8e999 := by decide
example : xxh64 [97] = 0xd24ec4f1a98c6e5b := by decide
example : xxh64 [97, 98, 99] = 0x44bc2cf5ad770999 := by decide

end Ndn.C14
