/-
  C14 — property theorems only (helper lemmas live in Lemmas.lean).
-/
import NdnVerif.C14.Model
namespace Ndn.C14

theorem cmpBytes_refl (a : Bytes) : cmpBytes a a = 0 := by
  induction a with
  | nil => rfl
  | cons x xs ih => simp [cmpBytes, ih]

theorem cmpName_refl (n : Name) : cmpName n n = 0 := by
  induction n with
  | nil => rfl
  | cons c cs ih => simp [cmpName, cmpComp, cmpBytes_refl, ih]

end Ndn.C14
