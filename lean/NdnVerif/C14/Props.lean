/-
  C14 — property theorems (only).  "Name order, equality, prefix, hash and URI form are mutually
  consistent."  Every statement is over ALL names / byte strings (no size bound).
  Helper lemmas: LemmasOrder, LemmasEnc, LemmasUri, LemmasUri2, LemmasUri3.
-/
import NdnVerif.C14.LemmasOrder
import NdnVerif.C14.LemmasEnc
import NdnVerif.C14.LemmasUri3
import NdnVerif.C14.Table
import NdnVerif.C14.Pattern
import NdnVerif.C14.XXHash
namespace Ndn.C14

/-! ## 1. `Name.Compare` is a total order and coincides with NDN canonical order -/

/-- the comparison result is exactly the one prescribed by canonical order (component-wise by type,
    then value length, then value bytes; a proper prefix sorts first), stated with the standard
    library's `List.Lex` -/
theorem compare_eq_canonical (a b : Name) : cmpName a b = canonCmp a b := by
  unfold canonCmp
  rcases cmpName_vals a b with h | h | h
  · rw [if_pos (cmpName_lt_iff.mp h), h]
  · have e := cmpName_eq_zero.mp h
    subst e
    have : ¬ nameLt a a := fun hh => by
      have := cmpName_lt_iff.mpr hh; rw [cmpName_refl] at this; simp at this
    rw [if_neg this, if_neg this, h]
  · have h' : cmpName b a = -1 := by rw [cmpName_antisymm a b, h]
    have hba := cmpName_lt_iff.mp h'
    have hab : ¬ nameLt a b := fun hh => by
      have := cmpName_lt_iff.mpr hh; rw [h] at this; simp at this
    rw [if_neg hab, if_pos hba, h]

theorem compare_reflexive (a : Name) : cmpName a a = 0 := cmpName_refl a

theorem compare_antisymmetric (a b : Name) : cmpName b a = - cmpName a b := cmpName_antisymm a b

theorem compare_total (a b : Name) : cmpName a b = -1 ∨ cmpName a b = 0 ∨ cmpName a b = 1 :=
  cmpName_vals a b

theorem compare_zero_iff_eq (a b : Name) : cmpName a b = 0 ↔ a = b := cmpName_eq_zero

theorem compLt_trans {x y z : Component} (h1 : compLt x y) (h2 : compLt y z) : compLt x z := by
  unfold compLt at *
  rcases h1 with h1 | ⟨e1, h1⟩
  · rcases h2 with h2 | ⟨e2, _⟩
    · left; omega
    · left; omega
  · rcases h2 with h2 | ⟨e2, h2⟩
    · left; omega
    · right
      refine ⟨by omega, ?_⟩
      rcases h1 with h1 | ⟨l1, h1⟩
      · rcases h2 with h2 | ⟨l2, _⟩
        · left; omega
        · left; omega
      · rcases h2 with h2 | ⟨l2, h2⟩
        · left; omega
        · right; exact ⟨by omega, List.lex_trans (fun a b => Nat.lt_trans a b) h1 h2⟩

theorem compare_transitive (a b c : Name) (h1 : cmpName a b = -1) (h2 : cmpName b c = -1) :
    cmpName a c = -1 :=
  cmpName_lt_iff.mpr (List.lex_trans (fun x y => compLt_trans x y) (cmpName_lt_iff.mp h1) (cmpName_lt_iff.mp h2))

example : cmpName [⟨8, [97]⟩] [⟨8, [97]⟩, ⟨8, []⟩] = -1 ∧ cmpName [⟨8, [98]⟩] [⟨8, [97, 97]⟩] = -1 := by decide

/-! ## 2. equality coincides with structural equality and with equality of encodings -/

theorem equal_iff_eq (a b : Name) : eqName a b = true ↔ a = b := eqName_iff

/-- decoding the encoding returns the name (so the encoding is injective) -/
theorem nameFromBytes_nameBytes (n : Name) (h : ∀ c ∈ n, c.typ < 2 ^ 64 ∧ c.val.length < 2 ^ 64)
    (hl : (encNameInner n).length < 2 ^ 64) : nameFromBytes (encName n) = some n :=
  nameFromBytes_encName n h hl

theorem componentFromBytes_componentBytes (c : Component) (h : c.typ < 2 ^ 64 ∧ c.val.length < 2 ^ 64) :
    compFromBytes (encComp c) = some c := compFromBytes_encComp c h

theorem equal_iff_encoding_eq (a b : Name)
    (ha : ∀ c ∈ a, c.typ < 2 ^ 64 ∧ c.val.length < 2 ^ 64) (hb : ∀ c ∈ b, c.typ < 2 ^ 64 ∧ c.val.length < 2 ^ 64)
    (hla : (encNameInner a).length < 2 ^ 64) (hlb : (encNameInner b).length < 2 ^ 64) :
    eqName a b = true ↔ encName a = encName b := by
  rw [eqName_iff]
  constructor
  · rintro rfl; rfl
  · intro h
    have h1 := nameFromBytes_encName a ha hla
    have h2 := nameFromBytes_encName b hb hlb
    rw [h] at h1
    rw [h1] at h2
    exact Option.some.inj h2

example : nameFromBytes (encName [⟨8, [97]⟩, ⟨32, []⟩]) = some [⟨8, [97]⟩, ⟨32, []⟩] := by
  simp [nameFromBytes, encName, encNameInner, encComp, encTL, decTL, readName, readComp]

/-! ## 3. the prefix relation agrees with equality -/

theorem isPrefix_iff_exists_suffix (a b : Name) : isPrefix a b = true ↔ ∃ c, b = a ++ c := isPrefix_iff

theorem isPrefix_iff_take (a b : Name) : isPrefix a b = true ↔ (a.length ≤ b.length ∧ b.take a.length = a) := by
  rw [isPrefix_iff]
  constructor
  · rintro ⟨c, rfl⟩; simp
  · rintro ⟨_, h2⟩
    refine ⟨b.drop a.length, ?_⟩
    have := (List.take_append_drop a.length b).symm
    rw [h2] at this
    exact this

theorem isPrefix_antisymm_eq (a b : Name) (h1 : isPrefix a b = true) (h2 : isPrefix b a = true) :
    eqName a b = true := by
  rw [eqName_iff]
  obtain ⟨c, hc⟩ := isPrefix_iff.mp h1
  obtain ⟨d, hd⟩ := isPrefix_iff.mp h2
  have : c = [] := by
    have := congrArg List.length hc
    have := congrArg List.length hd
    simp at *
    cases c with
    | nil => rfl
    | cons x xs => simp at *; omega
  rw [hc, this]; simp

/-! ## 4. hashes: the hashed byte string determines the name and is prefix-compatible -/

/-- equal names are hashed over equal input (hence hash equally, whatever the hash function) -/
theorem hash_of_equal_names (a b : Name) (h : eqName a b = true) : hashInput a = hashInput b := by
  rw [eqName_iff.mp h]

/-- the i-th prefix hash is computed over the hash input of the i-component prefix: the running
    hasher state after i components has consumed exactly `hashInput (n.take i)` -/
theorem prefixHash_take (n : Name) (i : Nat) :
    hashInput n = hashInput (n.take i) ++ hashInput (n.drop i) := by
  rw [← hashInput_append, List.take_append_drop]

/-- after fix F-07a (value length is hashed): distinct names never share a hash input, so a hash
    collision can only come from the hash function itself, never from the input framing -/
theorem hashInput_injective (a b : Name)
    (ha : ∀ c ∈ a, c.typ < 2 ^ 64 ∧ c.val.length < 2 ^ 64) (hb : ∀ c ∈ b, c.typ < 2 ^ 64 ∧ c.val.length < 2 ^ 64)
    (h : hashInput a = hashInput b) : a = b := hashInput_inj ha hb h

/-! ## 5. URI form -/

/-- converting to a URI string and parsing back returns the same name, for every name whose
    component types lie in 1..65535 and whose numeric-convention components are in shortest form
    (`nameUriOk`), with arbitrary byte values -/
theorem fromUri_toUri (n : Name) (hv : ∀ c ∈ n, Bytes.WF c.val) (hok : nameUriOk n = true) :
    nameFromStr (nameToStr n) = .ok n := nameFromStr_nameToStr n hv hok

/-- parsing never panics, on any byte string (the only indexing `s[0]` is guarded) -/
theorem fromUri_never_panics (s : Bytes) : nameFromStr s ≠ .panic := nameFromStr_no_panic s

theorem componentFromStr_never_panics (s : Bytes) : compFromStr s ≠ .panic := compFromStr_no_panic s

-- non-vacuity: a name with a numeric convention component, special bytes and a trailing empty
-- generic component satisfies the guard and round-trips
example : nameUriOk [⟨8, [37, 255]⟩, ⟨0x32, [1, 0]⟩, ⟨300, [47]⟩, ⟨8, []⟩] = true := by decide
example : nameFromStr [47, 61, 97] = .err := by decide        -- "/=a" is an error, not a panic

/-! ## 6. tables keyed on names (engine trie, memory store) distinguish exactly the names that are not Equal

The children maps of `NameTrie` and `memoryStoreNode` are keyed by a string computed from one component
(`compKey`: its TLV encoding, after the repair of F-14b; `compKeyUri`: its URI form `Component.String()`,
on the pinned tree).  The tables conflate two names iff the key paths coincide. -/

/-- the TLV key of a component determines the component -/
theorem table_key_injective (a b : Component) (ha : a.typ < 2 ^ 64 ∧ a.val.length < 2 ^ 64)
    (hb : b.typ < 2 ^ 64 ∧ b.val.length < 2 ^ 64) (h : compKey a = compKey b) : a = b := by
  have h1 := compFromBytes_encComp a ha
  have h2 := compFromBytes_encComp b hb
  unfold compKey at h
  rw [h] at h1
  rw [h1] at h2
  exact Option.some.inj h2

/-- for every insertion history, a table keyed by the TLV key puts two names into the same node
    iff they are equal: its classes are the equality classes -/
theorem table_classes_eq_equality (names : List Name)
    (h : ∀ n ∈ names, ∀ c ∈ n, c.typ < 2 ^ 64 ∧ c.val.length < 2 ^ 64) :
    classes compKey names = eqClasses names :=
  classesAux_rel compKey (fun c => c.typ < 2 ^ 64 ∧ c.val.length < 2 ^ 64) table_key_injective
    names [] [] 0 trivial (by simp) h

/-- `PrefixMatch` in such a trie returns the node at the depth of the longest prefix the queried name
    shares with any inserted name, as judged by component equality -/
theorem table_prefixMatch_depth (names : List Name) (q : Name)
    (h : ∀ n ∈ names, ∀ c ∈ n, c.typ < 2 ^ 64 ∧ c.val.length < 2 ^ 64)
    (hq : ∀ c ∈ q, c.typ < 2 ^ 64 ∧ c.val.length < 2 ^ 64) :
    prefixDepth compKey names q = specPrefixDepth names q :=
  foldl_depth_congr compKey (fun c => c.typ < 2 ^ 64 ∧ c.val.length < 2 ^ 64) table_key_injective q hq names 0 h

/-- the URI key is injective on exactly the components the URI round trip covers (types 1..65535,
    numeric-convention values in shortest form) -/
theorem uri_key_injective_on_uriOk (a b : Component) (ha : Bytes.WF a.val ∧ compUriOk a = true)
    (hb : Bytes.WF b.val ∧ compUriOk b = true) (h : compKeyUri a = compKeyUri b) : a = b := by
  have h1 := compFromStr_compToStr a ha.1 ha.2
  have h2 := compFromStr_compToStr b hb.1 hb.2
  unfold compKeyUri at h
  rw [h] at h1
  rw [h1] at h2
  exact Res.ok.inj h2

theorem uri_table_classes_eq_equality_on_uriOk (names : List Name)
    (h : ∀ n ∈ names, ∀ c ∈ n, Bytes.WF c.val ∧ compUriOk c = true) :
    classes compKeyUri names = eqClasses names :=
  classesAux_rel compKeyUri (fun c => Bytes.WF c.val ∧ compUriOk c = true) uri_key_injective_on_uriOk
    names [] [] 0 trivial (by simp) h

/-- ... and NOT beyond (finding F-14b on the pinned tree): the 1-byte and the 2-byte encoding of
    segment number 1 are different components (different encodings, not Equal) with one URI form, so a
    table keyed by `String()` answers a lookup for one name with the entry of the other -/
theorem uri_key_conflates :
    (⟨0x32, [0, 1]⟩ : Component) ≠ ⟨0x32, [1]⟩ ∧ compKeyUri ⟨0x32, [0, 1]⟩ = compKeyUri ⟨0x32, [1]⟩ ∧
    classes compKeyUri [[⟨8, [97]⟩, ⟨0x32, [0, 1]⟩], [⟨8, [97]⟩, ⟨0x32, [1]⟩]] = [0, 0] ∧
    eqClasses [[⟨8, [97]⟩, ⟨0x32, [0, 1]⟩], [⟨8, [97]⟩, ⟨0x32, [1]⟩]] = [0, 1] := by
  have hv : decVal [0, 1] = decVal [1] := by decide
  have hk : compKeyUri ⟨0x32, [0, 1]⟩ = compKeyUri ⟨0x32, [1]⟩ := by
    have hc : convByType 0x32 = some (asciiBytes "seg", .dec) := by decide
    simp only [compKeyUri, compToStr, hc, VFmt.toStr, decToStr, hv]
  refine ⟨by decide, hk, ?_, by decide⟩
  have hp : ([⟨8, [97]⟩, ⟨0x32, [0, 1]⟩] : Name).map compKeyUri = ([⟨8, [97]⟩, ⟨0x32, [1]⟩] : Name).map compKeyUri := by
    simp only [List.map_cons, List.map_nil, hk]
  simp only [classes, classesAux, KTable.find, hp, if_true]

-- non-vacuity / behaviour of the TLV-keyed table on the same names, and on a generic component spelling
-- the URI form of a typed one ("32=KEY" as a generic value vs. the keyword component KEY)
example : classes compKey [[⟨8, [97]⟩, ⟨0x32, [0, 1]⟩], [⟨8, [97]⟩, ⟨0x32, [1]⟩], [⟨8, [97]⟩, ⟨0x32, [0, 1]⟩]] = [0, 1, 0] := by decide
example : classes compKey [[⟨8, [51, 50, 61, 75]⟩], [⟨32, [75]⟩], [⟨8, [51, 50, 61, 75]⟩]] = [0, 1, 0] := by decide
example : prefixDepth compKey [[⟨8, [97]⟩, ⟨8, [98]⟩], [⟨8, [97]⟩, ⟨0x32, [1]⟩, ⟨8, [99]⟩]] [⟨8, [97]⟩, ⟨0x32, [1]⟩, ⟨8, [100]⟩] = 2 := by decide

/-- with insertions, removals and lookups in any order a TLV-keyed table behaves, operation by operation, like
    the set of names it was given judged by equality (so after a removal exactly the names Equal to the removed
    one are gone, and a lookup finds a name iff an Equal one is held) -/
theorem table_with_removal_agrees_with_equality (ops : List TOp)
    (h : ∀ op ∈ ops, ∀ c ∈ op.name, c.typ < 2 ^ 64 ∧ c.val.length < 2 ^ 64) :
    tabrRun compKey [] ops = tabrRun id [] ops :=
  tabrRun_map compKey (fun c => c.typ < 2 ^ 64 ∧ c.val.length < 2 ^ 64) table_key_injective ops [] (by simp) h

example : tabrRun compKey [] [.ins [⟨8, [97]⟩, ⟨8, [99]⟩], .ins [⟨8, [97]⟩, ⟨8, [98]⟩, ⟨8, [99]⟩],
    .rem [⟨8, [97]⟩, ⟨8, [98]⟩, ⟨8, [99]⟩], .has [⟨8, [97]⟩, ⟨8, [99]⟩], .has [⟨8, [97]⟩, ⟨8, [98]⟩, ⟨8, [99]⟩]]
    = ['n', 'n', 'r', '1', '0'] := by decide

/-! ## 7. name patterns: the pattern parser never panics either -/

/-- `NamePatternFromStr` (the schema tree's paths come from configuration text through it) never panics, on any
    byte string -/
theorem namePatternFromStr_never_panics (s : Bytes) : namePatFromStr s ≠ .panic := namePatFromStr_no_panic s

theorem componentPatternFromStr_never_panics (s : Bytes) : compPatFromStr s ≠ .panic := compPatFromStr_no_panic s

/-- finding F-14c on the pinned tree: `strs[len(strs)-1]` was indexed unconditionally, and for the empty string
    `strings.Split` gives `[""]`, whose only element the leading-slash rule removes -/
theorem namePatternFromStr_pinned_panics_on_empty : namePatFromStrPinned [] = .panic := by decide

example : namePatFromStr [] = .ok [] := by decide
example : namePatFromStr (asciiBytes "/a/<v=ver>/<x>") =
    .ok [.comp ⟨8, [97]⟩, .pat 0x36 (asciiBytes "ver"), .pat 8 [120]] := by decide

/-! ## 8. what the hash does NOT give: XXH64 collisions can be computed (finding F-14d) -/

def collisionX : Bytes := [43, 220, 152, 19, 166, 78, 136, 62, 59, 124, 213, 240, 70, 16, 254, 137, 95, 113, 3, 178, 64, 116, 174, 233, 156, 4, 95, 86, 102, 92, 144, 137, 193, 76, 77, 190, 23, 198, 97, 16, 240, 4, 248, 193, 57, 78, 197, 161, 94, 119]
def collisionY : Bytes := [43, 220, 152, 19, 166, 78, 136, 62, 123, 124, 213, 240, 70, 16, 254, 137, 95, 113, 3, 178, 64, 116, 174, 233, 156, 4, 95, 86, 102, 92, 144, 137, 193, 76, 77, 190, 23, 198, 97, 16, 227, 187, 233, 42, 235, 142, 146, 0, 94, 119]

set_option maxRecDepth 8000 in
/-- two different 50-byte generic components whose names hash to the same XXH64 value: one 8-byte word of the
    value was changed and the word 32 bytes further on (same lane, next stripe) adjusted by the computed amount.
    Every table that identifies a component or a name by `Hash()` alone conflates the two. -/
theorem hash_collision_can_be_computed :
    collisionX ≠ collisionY ∧ nameHash [⟨8, collisionX⟩] = nameHash [⟨8, collisionY⟩] ∧
    compHash ⟨8, collisionX⟩ = compHash ⟨8, collisionY⟩ := by decide

/-! ## 9. the prefix relation as the tables use it -/

/-- a pending Interest (name, CanBePrefix) is matched by a token-less Data name exactly when the Data name is the
    Interest name, or extends it and the Interest allowed that -/
theorem data_matches_iff (n : Name) (cbp : Bool) (d : Name) :
    dataMatches (n, cbp) d = true ↔ ∃ sfx, d = n ++ sfx ∧ (sfx = [] ∨ cbp = true) := by
  unfold dataMatches
  simp only [Bool.or_eq_true, decide_eq_true_eq, Bool.and_eq_true]
  constructor
  · rintro (h | ⟨hc, hp⟩)
    · exact ⟨[], by simp [h], Or.inl rfl⟩
    · obtain ⟨sfx, hs⟩ := isPrefix_iff.mp hp
      exact ⟨sfx, hs, Or.inr hc⟩
  · rintro ⟨sfx, hd, h | h⟩
    · left; subst h; simpa using hd.symm
    · right; exact ⟨h, isPrefix_iff.mpr ⟨sfx, hd⟩⟩

example : pitNameMatch [([⟨8, [97]⟩], true), ([⟨8, [97]⟩, ⟨8, [98]⟩], false), ([⟨8, [97]⟩], true)] [⟨8, [97]⟩, ⟨8, [98]⟩] = [0, 1] := by decide
example : memNewest [([⟨8, [97]⟩, ⟨54, [1]⟩], 1), ([⟨8, [97]⟩, ⟨54, [1]⟩, ⟨50, [0]⟩], 9), ([⟨8, [97]⟩, ⟨54, [5]⟩], 5)] [⟨8, [97]⟩] = some 1 := by decide

end Ndn.C14
