/-
  C14/Table.lean — tables keyed on names (std/engine/basic/simple_trie.go NameTrie,
  std/object/store_memory.go memoryStoreNode): a node per distinct *key path*, where the key of a
  component is what the implementation puts into its `map[string]` (`compKey`).

  Observationally such a trie is an association list over key paths: `ExactMatch`/`find` returns the
  node reached by following `name.map key`, `MatchAlways`/`insert` creates it, `PrefixMatch` returns
  the deepest existing node along the path.  The property (C14: "tables key on these hashes and strings,
  so one counterexample silently conflates two names") is that the table distinguishes exactly the
  names that are not Equal, which holds iff the component key is injective.
-/
import NdnVerif.C14.Model
namespace Ndn.C14

/-- key paths already present, with the value stored at each -/
abbrev KTable (κ : Type) := List (List κ × Nat)

def KTable.find {κ} [DecidableEq κ] (t : KTable κ) (p : List κ) : Option Nat :=
  match t with
  | [] => none
  | (q, v) :: r => if q = p then some v else KTable.find r p

/-- insert the names in order (value = position); the class of name i is the value already stored
under its key path, else i.  Two names are in one class iff the table cannot tell them apart. -/
def classesAux {κ} [DecidableEq κ] (key : Component → κ) : KTable κ → Nat → List Name → List Nat
  | _, _, [] => []
  | t, i, n :: ns =>
    match t.find (n.map key) with
    | some j => j :: classesAux key t (i + 1) ns
    | none => i :: classesAux key ((n.map key, i) :: t) (i + 1) ns

def classes {κ} [DecidableEq κ] (key : Component → κ) (names : List Name) : List Nat :=
  classesAux key [] 0 names

/-- the specification: classes of `Equal` names (key = the component itself) -/
def eqClasses (names : List Name) : List Nat := classes id names

/-- length of the longest common prefix of two paths -/
def commonLen {κ} [DecidableEq κ] : List κ → List κ → Nat
  | a :: as, b :: bs => if a = b then commonLen as bs + 1 else 0
  | _, _ => 0

/-- depth of the node `PrefixMatch q` returns in a trie holding the paths of `names`:
the deepest existing node on q's path = the longest common prefix with any inserted path -/
def prefixDepth {κ} [DecidableEq κ] (key : Component → κ) (names : List Name) (q : Name) : Nat :=
  names.foldl (fun d n => max d (commonLen (n.map key) (q.map key))) 0

def specPrefixDepth (names : List Name) (q : Name) : Nat := prefixDepth id names q

/-- the key the implementation uses (after the repair of F-14b): the TLV encoding of the component -/
def compKey (c : Component) : Bytes := encComp c

/-- the key the pinned tree used: the URI form, `Component.String()` -/
def compKeyUri (c : Component) : Bytes := compToStr c

/-! ### lemmas -/

theorem map_inj_of_inj {κ} (key : Component → κ) (S : Component → Prop)
    (hinj : ∀ a b, S a → S b → key a = key b → a = b) :
    ∀ (x y : Name), (∀ c ∈ x, S c) → (∀ c ∈ y, S c) → x.map key = y.map key → x = y := by
  intro x
  induction x with
  | nil => intro y _ _ h; cases y with
    | nil => rfl
    | cons b bs => simp at h
  | cons a as ih =>
    intro y hx hy h
    cases y with
    | nil => simp at h
    | cons b bs =>
      simp only [List.map_cons, List.cons.injEq] at h
      have e1 := hinj a b (hx a (by simp)) (hy b (by simp)) h.1
      have e2 := ih bs (fun c hc => hx c (by simp [hc])) (fun c hc => hy c (by simp [hc])) h.2
      rw [e1, e2]

/-- relation between the implementation's table and the specification's table -/
def Rel {κ} (key : Component → κ) : KTable κ → KTable Component → Prop
  | [], [] => True
  | (p, v) :: r, (q, w) :: r' => p = q.map key ∧ v = w ∧ Rel key r r'
  | _, _ => False

theorem find_rel {κ} [DecidableEq κ] (key : Component → κ) (S : Component → Prop)
    (hinj : ∀ a b, S a → S b → key a = key b → a = b) :
    ∀ (t : KTable κ) (t' : KTable Component), Rel key t t' → (∀ e ∈ t', ∀ c ∈ e.1, S c) →
      ∀ n : Name, (∀ c ∈ n, S c) → KTable.find t (n.map key) = KTable.find t' n := by
  intro t
  induction t with
  | nil => intro t' h _ n _; cases t' with
    | nil => rfl
    | cons _ _ => simp [Rel] at h
  | cons e r ih =>
    intro t' h hS n hn
    cases t' with
    | nil => obtain ⟨p, v⟩ := e; simp [Rel] at h
    | cons e' r' =>
      obtain ⟨p, v⟩ := e
      obtain ⟨q, w⟩ := e'
      simp only [Rel] at h
      obtain ⟨hp, hv, hr⟩ := h
      subst hp; subst hv
      simp only [KTable.find]
      have hq : ∀ c ∈ q, S c := hS (q, v) (by simp)
      by_cases e : q = n
      · subst e; simp
      · have : ¬ q.map key = n.map key := fun h2 => e (map_inj_of_inj key S hinj q n hq hn h2)
        rw [if_neg this, if_neg e]
        exact ih r' hr (fun x hx => hS x (by simp [hx])) n hn

theorem classesAux_rel {κ} [DecidableEq κ] (key : Component → κ) (S : Component → Prop)
    (hinj : ∀ a b, S a → S b → key a = key b → a = b) :
    ∀ (names : List Name) (t : KTable κ) (t' : KTable Component) (i : Nat), Rel key t t' →
      (∀ e ∈ t', ∀ c ∈ e.1, S c) → (∀ n ∈ names, ∀ c ∈ n, S c) →
      classesAux key t i names = classesAux id t' i names := by
  intro names
  induction names with
  | nil => intros; rfl
  | cons n ns ih =>
    intro t t' i hr hS hn
    have hf := find_rel key S hinj t t' hr hS n (hn n (by simp))
    simp only [classesAux, List.map_id_fun, id_eq]
    rw [hf]
    cases hfind : KTable.find t' n with
    | some j =>
      simp only
      rw [ih t t' (i + 1) hr hS (fun m hm => hn m (by simp [hm]))]
    | none =>
      simp only
      rw [ih ((n.map key, i) :: t) ((n, i) :: t') (i + 1) ⟨rfl, rfl, hr⟩
        (by
          intro e he
          simp only [List.mem_cons] at he
          rcases he with rfl | he
          · exact hn n (by simp)
          · exact hS e he)
        (fun m hm => hn m (by simp [hm]))]

theorem commonLen_map {κ} [DecidableEq κ] (key : Component → κ) (S : Component → Prop)
    (hinj : ∀ a b, S a → S b → key a = key b → a = b) :
    ∀ (x y : Name), (∀ c ∈ x, S c) → (∀ c ∈ y, S c) → commonLen (x.map key) (y.map key) = commonLen x y := by
  intro x
  induction x with
  | nil => intro y _ _; cases y <;> simp [commonLen]
  | cons a as ih =>
    intro y hx hy
    cases y with
    | nil => simp [commonLen]
    | cons b bs =>
      simp only [List.map_cons, commonLen]
      by_cases e : a = b
      · subst e; simp only [if_true]
        rw [ih bs (fun c hc => hx c (by simp [hc])) (fun c hc => hy c (by simp [hc]))]
      · have : ¬ key a = key b := fun h => e (hinj a b (hx a (by simp)) (hy b (by simp)) h)
        rw [if_neg this, if_neg e]

theorem foldl_depth_congr {κ} [DecidableEq κ] (key : Component → κ) (S : Component → Prop)
    (hinj : ∀ a b, S a → S b → key a = key b → a = b) (q : Name) (hq : ∀ c ∈ q, S c) :
    ∀ (names : List Name) (d : Nat), (∀ n ∈ names, ∀ c ∈ n, S c) →
      names.foldl (fun d n => max d (commonLen (n.map key) (q.map key))) d =
      names.foldl (fun d n => max d (commonLen (n.map id) (q.map id))) d := by
  intro names
  induction names with
  | nil => intros; rfl
  | cons n ns ih =>
    intro d hn
    simp only [List.foldl_cons]
    rw [commonLen_map key S hinj n q (hn n (by simp)) hq]
    simp only [List.map_id_fun, id_eq]
    have := ih (max d (commonLen n q)) (fun m hm => hn m (by simp [hm]))
    simpa using this

/-! ### tables with removal: the set of names a table holds, under insert / remove / lookup -/

inductive TOp where
  | ins (n : Name)      -- insert unless present
  | rem (n : Name)      -- remove if present
  | has (n : Name)      -- lookup
deriving Repr

/-- a keyed table as a set of key paths; returns one observation character per operation:
    n(ew) / e(xisting), r(emoved) / m(issing), 1 / 0 -/
def tabrStep {κ} [DecidableEq κ] (key : Component → κ) (s : List (List κ)) : TOp → List (List κ) × Char
  | .ins n => if n.map key ∈ s then (s, 'e') else (s ++ [n.map key], 'n')
  | .rem n => if n.map key ∈ s then (s.filter (fun x => decide (x ≠ n.map key)), 'r') else (s, 'm')
  | .has n => (s, if n.map key ∈ s then '1' else '0')

def tabrRun {κ} [DecidableEq κ] (key : Component → κ) : List (List κ) → List TOp → List Char
  | _, [] => []
  | s, op :: ops => let r := tabrStep key s op; r.2 :: tabrRun key r.1 ops

def TOp.name : TOp → Name
  | .ins n | .rem n | .has n => n

theorem mem_map_key {κ} (key : Component → κ) (S : Component → Prop)
    (hinj : ∀ a b, S a → S b → key a = key b → a = b) (s : List Name) (hs : ∀ m ∈ s, ∀ c ∈ m, S c)
    (n : Name) (hn : ∀ c ∈ n, S c) : n.map key ∈ s.map (·.map key) ↔ n ∈ s := by
  constructor
  · intro h
    obtain ⟨m, hm, e⟩ := List.mem_map.mp h
    have := map_inj_of_inj key S hinj m n (hs m hm) hn e
    rw [← this]; exact hm
  · intro h; exact List.mem_map.mpr ⟨n, h, rfl⟩

theorem filter_map_key {κ} [DecidableEq κ] (key : Component → κ) (S : Component → Prop)
    (hinj : ∀ a b, S a → S b → key a = key b → a = b) (s : List Name) (hs : ∀ m ∈ s, ∀ c ∈ m, S c)
    (n : Name) (hn : ∀ c ∈ n, S c) :
    (s.map (·.map key)).filter (fun x => decide (x ≠ n.map key)) = (s.filter (fun x => decide (x ≠ n))).map (·.map key) := by
  induction s with
  | nil => rfl
  | cons m t ih =>
    have ht := ih (fun x hx => hs x (by simp [hx]))
    simp only [List.map_cons, List.filter_cons]
    by_cases e : m = n
    · subst e; simp only [ne_eq, not_true_eq_false, decide_false, Bool.false_eq_true, if_false]; exact ht
    · have : ¬ m.map key = n.map key := fun h2 => e (map_inj_of_inj key S hinj m n (hs m (by simp)) hn h2)
      simp only [ne_eq, e, this, not_false_eq_true, decide_true, if_true, List.map_cons, ht]

theorem tabrRun_map {κ} [DecidableEq κ] (key : Component → κ) (S : Component → Prop)
    (hinj : ∀ a b, S a → S b → key a = key b → a = b) :
    ∀ (ops : List TOp) (s : List Name), (∀ m ∈ s, ∀ c ∈ m, S c) → (∀ op ∈ ops, ∀ c ∈ op.name, S c) →
      tabrRun key (s.map (·.map key)) ops = tabrRun id s ops := by
  intro ops
  induction ops with
  | nil => intros; rfl
  | cons op ops ih =>
    intro s hs hops
    have hn : ∀ c ∈ op.name, S c := hops op (by simp)
    have hrest : ∀ o ∈ ops, ∀ c ∈ o.name, S c := fun o ho => hops o (by simp [ho])
    cases op with
    | ins n =>
      simp only [TOp.name] at hn
      have hm := mem_map_key key S hinj s hs n hn
      simp only [tabrRun, tabrStep, List.map_id]
      by_cases hc : n ∈ s
      · have hk := hm.mpr hc
        simp only [hk, hc, if_true, List.map_id n]
        have := ih s hs hrest
        simp only [this]
      · have hk : ¬ n.map key ∈ s.map (·.map key) := fun h => hc (hm.mp h)
        simp only [hk, hc, if_false, List.map_id n]
        have := ih (s ++ [n]) (by
          intro m hm; rcases List.mem_append.mp hm with h | h
          · exact hs m h
          · simp at h; subst h; exact hn) hrest
        simp only [List.map_append, List.map_cons, List.map_nil] at this
        simp only [this]
    | rem n =>
      simp only [TOp.name] at hn
      have hm := mem_map_key key S hinj s hs n hn
      simp only [tabrRun, tabrStep, List.map_id]
      by_cases hc : n ∈ s
      · have hk := hm.mpr hc
        simp only [hk, hc, if_true, List.map_id n]
        rw [filter_map_key key S hinj s hs n hn]
        have := ih (s.filter (fun x => decide (x ≠ n))) (fun m hm => hs m (List.mem_filter.mp hm).1) hrest
        simp only [this]
      · have hk : ¬ n.map key ∈ s.map (·.map key) := fun h => hc (hm.mp h)
        simp only [hk, hc, if_false, List.map_id n]
        have := ih s hs hrest
        simp only [this]
    | has n =>
      simp only [TOp.name] at hn
      have hm := mem_map_key key S hinj s hs n hn
      simp only [tabrRun, tabrStep, List.map_id]
      have := ih s hs hrest
      by_cases hc : n ∈ s
      · have hk := hm.mpr hc
        simp only [hk, hc, if_true, this, List.map_id n]
      · have hk : ¬ n.map key ∈ s.map (·.map key) := fun h => hc (hm.mp h)
        simp only [hk, hc, if_false, this, List.map_id n]

/-! ### prefix queries: newest version under a prefix (MemoryStore.Get(prefix=true)), Data matching in the PIT -/

/-- stored packets: (name, version), later puts of an Equal name replace earlier ones; answers with the index of the
    put that is served, `none` when nothing is stored at or under the query -/
def memNewest (puts : List (Name × Nat)) (q : Name) : Option Nat :=
  let idx := puts.zipIdx
  -- the live packet of each name is its last put
  let live := idx.filter fun e => !(idx.any fun e2 => e2.2 > e.2 && decide (e2.1.1 = e.1.1))
  match live.find? (fun e => decide (e.1.1 = q)) with
  | some e => some e.2
  | none =>
    let under := live.filter fun e => isPrefix q e.1.1
    (under.foldl (fun (best : Option ((Name × Nat) × Nat)) e =>
      match best with
      | none => some e
      | some b => if e.1.2 > b.1.2 then some e else some b) none).map (·.2)

/-- PIT entries (name, CanBePrefix) matched by a Data name arriving WITHOUT a usable token: the entry's name equals
    the Data name, or is a prefix of it and the Interest allowed that; answers with the indices (of the first
    insertion of each entry) -/
def dataMatches (e : Name × Bool) (d : Name) : Bool := decide (e.1 = d) || (e.2 && isPrefix e.1 d)

def pitNameMatch (ints : List (Name × Bool)) (d : Name) : List Nat :=
  let idx := ints.zipIdx
  let firsts := idx.filter fun e => !(idx.any fun e2 => e2.2 < e.2 && decide (e2.1 = e.1))
  (firsts.filter fun e => dataMatches e.1 d).map (·.2)

/-- ... and WITH the token of entry `t`: that entry, whatever the Data's name (the token rule) -/
def pitTokenMatch (ints : List (Name × Bool)) (t : Nat) : List Nat :=
  match ints[t]? with
  | none => []
  | some e => match (ints.zipIdx.find? fun e2 => decide (e2.1 = e)) with
    | some f => [f.2]
    | none => []

end Ndn.C14
