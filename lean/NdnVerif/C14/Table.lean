/-
  C14/Table.lean — tables keyed on names (std/engine/basic/simple_trie.go NameTrie,
  std/object/store_memory.go memoryStoreNode): a node per distinct *key path*, where the key of a
  component is what the implementation puts into its `map[string]` (`compKey`).

  Observationally such a trie is an association list over key paths: `ExactMatch`/`find` returns the
  node reached by following `name.map key`, `MatchAlways`/`insert` creates it, `PrefixMatch` returns
  the deepest existing node along the path.  The property (C14: "tables key on these hashes and strings,
  so one counterexample silently conflates two names") is that the table distinguishes exactly the
  names that are not Equal, which holds iff the component key is injective.
-/
import NdnVerif.C14.Model
namespace Ndn.C14

/-- key paths already present, with the value stored at each -/
abbrev KTable (κ : Type) := List (List κ × Nat)

def KTable.find {κ} [DecidableEq κ] (t : KTable κ) (p : List κ) : Option Nat :=
  match t with
  | [] => none
  | (q, v) :: r => if q = p then some v else KTable.find r p

/-- insert the names in order (value = position); the class of name i is the value already stored
under its key path, else i.  Two names are in one class iff the table cannot tell them apart. -/
def classesAux {κ} [DecidableEq κ] (key : Component → κ) : KTable κ → Nat → List Name → List Nat
  | _, _, [] => []
  | t, i, n :: ns =>
    match t.find (n.map key) with
    | some j => j :: classesAux key t (i + 1) ns
    | none => i :: classesAux key ((n.map key, i) :: t) (i + 1) ns

def classes {κ} [DecidableEq κ] (key : Component → κ) (names : List Name) : List Nat :=
  classesAux key [] 0 names

/-- the specification: classes of `Equal` names (key = the component itself) -/
def eqClasses (names : List Name) : List Nat := classes id names

/-- length of the longest common prefix of two paths -/
def commonLen {κ} [DecidableEq κ] : List κ → List κ → Nat
  | a :: as, b :: bs => if a = b then commonLen as bs + 1 else 0
  | _, _ => 0

/-- depth of the node `PrefixMatch q` returns in a trie holding the paths of `names`:
the deepest existing node on q's path = the longest common prefix with any inserted path -/
def prefixDepth {κ} [DecidableEq κ] (key : Component → κ) (names : List Name) (q : Name) : Nat :=
  names.foldl (fun d n => max d (commonLen (n.map key) (q.map key))) 0

def specPrefixDepth (names : List Name) (q : Name) : Nat := prefixDepth id names q

/-- the key the implementation uses (after the repair of F-14b): the TLV encoding of the component -/
def compKey (c : Component) : Bytes := encComp c

/-- the key the pinned tree used: the URI form, `Component.String()` -/
def compKeyUri (c : Component) : Bytes := compToStr c

/-! ### lemmas -/

theorem map_inj_of_inj {κ} (key : Component → κ) (S : Component → Prop)
    (hinj : ∀ a b, S a → S b → key a = key b → a = b) :
    ∀ (x y : Name), (∀ c ∈ x, S c) → (∀ c ∈ y, S c) → x.map key = y.map key → x = y := by
  intro x
  induction x with
  | nil => intro y _ _ h; cases y with
    | nil => rfl
    | cons b bs => simp at h
  | cons a as ih =>
    intro y hx hy h
    cases y with
    | nil => simp at h
    | cons b bs =>
      simp only [List.map_cons, List.cons.injEq] at h
      have e1 := hinj a b (hx a (by simp)) (hy b (by simp)) h.1
      have e2 := ih bs (fun c hc => hx c (by simp [hc])) (fun c hc => hy c (by simp [hc])) h.2
      rw [e1, e2]

/-- relation between the implementation's table and the specification's table -/
def Rel {κ} (key : Component → κ) : KTable κ → KTable Component → Prop
  | [], [] => True
  | (p, v) :: r, (q, w) :: r' => p = q.map key ∧ v = w ∧ Rel key r r'
  | _, _ => False

theorem find_rel {κ} [DecidableEq κ] (key : Component → κ) (S : Component → Prop)
    (hinj : ∀ a b, S a → S b → key a = key b → a = b) :
    ∀ (t : KTable κ) (t' : KTable Component), Rel key t t' → (∀ e ∈ t', ∀ c ∈ e.1, S c) →
      ∀ n : Name, (∀ c ∈ n, S c) → KTable.find t (n.map key) = KTable.find t' n := by
  intro t
  induction t with
  | nil => intro t' h _ n _; cases t' with
    | nil => rfl
    | cons _ _ => simp [Rel] at h
  | cons e r ih =>
    intro t' h hS n hn
    cases t' with
    | nil => obtain ⟨p, v⟩ := e; simp [Rel] at h
    | cons e' r' =>
      obtain ⟨p, v⟩ := e
      obtain ⟨q, w⟩ := e'
      simp only [Rel] at h
      obtain ⟨hp, hv, hr⟩ := h
      subst hp; subst hv
      simp only [KTable.find]
      have hq : ∀ c ∈ q, S c := hS (q, v) (by simp)
      by_cases e : q = n
      · subst e; simp
      · have : ¬ q.map key = n.map key := fun h2 => e (map_inj_of_inj key S hinj q n hq hn h2)
        rw [if_neg this, if_neg e]
        exact ih r' hr (fun x hx => hS x (by simp [hx])) n hn

theorem classesAux_rel {κ} [DecidableEq κ] (key : Component → κ) (S : Component → Prop)
    (hinj : ∀ a b, S a → S b → key a = key b → a = b) :
    ∀ (names : List Name) (t : KTable κ) (t' : KTable Component) (i : Nat), Rel key t t' →
      (∀ e ∈ t', ∀ c ∈ e.1, S c) → (∀ n ∈ names, ∀ c ∈ n, S c) →
      classesAux key t i names = classesAux id t' i names := by
  intro names
  induction names with
  | nil => intros; rfl
  | cons n ns ih =>
    intro t t' i hr hS hn
    have hf := find_rel key S hinj t t' hr hS n (hn n (by simp))
    simp only [classesAux, List.map_id_fun, id_eq]
    rw [hf]
    cases hfind : KTable.find t' n with
    | some j =>
      simp only
      rw [ih t t' (i + 1) hr hS (fun m hm => hn m (by simp [hm]))]
    | none =>
      simp only
      rw [ih ((n.map key, i) :: t) ((n, i) :: t') (i + 1) ⟨rfl, rfl, hr⟩
        (by
          intro e he
          simp only [List.mem_cons] at he
          rcases he with rfl | he
          · exact hn n (by simp)
          · exact hS e he)
        (fun m hm => hn m (by simp [hm]))]

theorem commonLen_map {κ} [DecidableEq κ] (key : Component → κ) (S : Component → Prop)
    (hinj : ∀ a b, S a → S b → key a = key b → a = b) :
    ∀ (x y : Name), (∀ c ∈ x, S c) → (∀ c ∈ y, S c) → commonLen (x.map key) (y.map key) = commonLen x y := by
  intro x
  induction x with
  | nil => intro y _ _; cases y <;> simp [commonLen]
  | cons a as ih =>
    intro y hx hy
    cases y with
    | nil => simp [commonLen]
    | cons b bs =>
      simp only [List.map_cons, commonLen]
      by_cases e : a = b
      · subst e; simp only [if_true]
        rw [ih bs (fun c hc => hx c (by simp [hc])) (fun c hc => hy c (by simp [hc]))]
      · have : ¬ key a = key b := fun h => e (hinj a b (hx a (by simp)) (hy b (by simp)) h)
        rw [if_neg this, if_neg e]

theorem foldl_depth_congr {κ} [DecidableEq κ] (key : Component → κ) (S : Component → Prop)
    (hinj : ∀ a b, S a → S b → key a = key b → a = b) (q : Name) (hq : ∀ c ∈ q, S c) :
    ∀ (names : List Name) (d : Nat), (∀ n ∈ names, ∀ c ∈ n, S c) →
      names.foldl (fun d n => max d (commonLen (n.map key) (q.map key))) d =
      names.foldl (fun d n => max d (commonLen (n.map id) (q.map id))) d := by
  intro names
  induction names with
  | nil => intros; rfl
  | cons n ns ih =>
    intro d hn
    simp only [List.foldl_cons]
    rw [commonLen_map key S hinj n q (hn n (by simp)) hq]
    simp only [List.map_id_fun, id_eq]
    have := ih (max d (commonLen n q)) (fun m hm => hn m (by simp [hm]))
    simpa using this

end Ndn.C14
