/-
  C14 specification — NDN canonical order and the laws the property names, stated with the
  standard library's lexicographic order, independent of the model's comparison functions.
-/
import NdnVerif.C14.Model
namespace Ndn.C14

/-- canonical component order: type, then value length, then value bytes (lexicographic) -/
def compLt (a b : Component) : Prop :=
  a.typ < b.typ ∨ (a.typ = b.typ ∧ (a.val.length < b.val.length ∨
    (a.val.length = b.val.length ∧ List.Lex (· < ·) a.val b.val)))

instance : DecidableRel compLt := fun a b => by unfold compLt; exact inferInstance

/-- canonical name order: lexicographic by component; a proper prefix sorts first -/
def nameLt (a b : Name) : Prop := List.Lex compLt a b

instance : DecidableRel nameLt := fun a b => by unfold nameLt; exact inferInstance

/-- the three-way comparison prescribed by the canonical order -/
def canonCmp (a b : Name) : Int := if nameLt a b then -1 else if nameLt b a then 1 else 0

/-- numeric-convention components must be in shortest form for the URI round trip -/
def compUriOk (c : Component) : Bool :=
  decide (1 ≤ c.typ ∧ c.typ ≤ 65535) &&
  (match convByType c.typ with
   | some (_, .dec) => decide (c.val = encNat (decVal c.val))   -- shortest form of its own value
   | _ => true)

def nameUriOk (n : Name) : Bool := n.all compUriOk

def wfName (n : Name) : Prop := ∀ c ∈ n, Bytes.WF c.val ∧ c.typ < 2 ^ 64 ∧ c.val.length < 2 ^ 64

end Ndn.C14
