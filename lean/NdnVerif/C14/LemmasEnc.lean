import NdnVerif.C14.Spec
namespace Ndn.C14

/-! ### equality and prefix -/

theorem eqComp_iff {a b : Component} : eqComp a b = true ↔ a = b := by
  obtain ⟨ta, va⟩ := a; obtain ⟨tb, vb⟩ := b
  simp only [eqComp, Component.mk.injEq]
  by_cases ht : ta = tb
  · by_cases hl : va.length = vb.length
    · simp [ht, hl]
    · have : va ≠ vb := fun e => hl (by rw [e])
      simp [ht, hl, this]
  · simp [ht]

theorem eqName_iff {a b : Name} : eqName a b = true ↔ a = b := by
  induction a generalizing b with
  | nil => cases b <;> simp [eqName]
  | cons x xs ih =>
    cases b with
    | nil => simp [eqName]
    | cons y ys => simp [eqName, eqComp_iff, ih]

theorem isPrefix_iff {a b : Name} : isPrefix a b = true ↔ ∃ c, b = a ++ c := by
  induction a generalizing b with
  | nil => simp [isPrefix]
  | cons x xs ih =>
    cases b with
    | nil => simp [isPrefix]
    | cons y ys =>
      simp only [isPrefix, Bool.and_eq_true, eqComp_iff, ih, List.cons_append, List.cons.injEq]
      constructor
      · rintro ⟨rfl, c, rfl⟩; exact ⟨c, rfl, rfl⟩
      · rintro ⟨c, rfl, rfl⟩; exact ⟨rfl, c, rfl⟩

/-! ### encode / decode round trip -/

def wfComp (c : Component) : Prop := c.typ < 2 ^ 64 ∧ c.val.length < 2 ^ 64

theorem readComp_encComp (c : Component) (h : wfComp c) (rest : Bytes) :
    readComp (encComp c ++ rest) = some (c, rest) := by
  obtain ⟨t, v⟩ := c
  unfold readComp encComp
  simp only [List.append_assoc]
  rw [decTL_encTL t h.1]
  simp only
  rw [decTL_encTL v.length h.2]
  simp

theorem encComp_ne_nil (c : Component) : encComp c ≠ [] := by
  unfold encComp encTL
  repeat' split
  all_goals simp

theorem readName_encNameInner (n : Name) (h : ∀ c ∈ n, wfComp c) :
    readName (encNameInner n) = some n := by
  induction n with
  | nil => unfold readName encNameInner; simp
  | cons c cs ih =>
    have hc := h c (by simp)
    have hcs : ∀ c ∈ cs, wfComp c := fun x hx => h x (by simp [hx])
    have e : encNameInner (c :: cs) = encComp c ++ encNameInner cs := by simp [encNameInner]
    rw [e]
    unfold readName
    have hne : encComp c ++ encNameInner cs ≠ [] := by
      intro hh; exact encComp_ne_nil c (List.append_eq_nil_iff.mp hh).1
    rw [dif_neg hne]
    split
    · rename_i hh; rw [readComp_encComp c hc] at hh; simp at hh
    · rename_i c' r hh
      rw [readComp_encComp c hc] at hh
      simp at hh
      rw [← hh.1, ← hh.2, ih hcs]; rfl

theorem nameFromBytes_encName (n : Name) (h : ∀ c ∈ n, wfComp c)
    (hl : (encNameInner n).length < 2 ^ 64) : nameFromBytes (encName n) = some n := by
  unfold nameFromBytes encName
  simp only [List.append_assoc]
  rw [decTL_encTL 7 (by omega)]
  simp only [ne_eq, not_true_eq_false, if_false]
  rw [decTL_encTL _ hl]
  simp only
  rw [readName_encNameInner n h]
  simp

theorem compFromBytes_encComp (c : Component) (h : wfComp c) : compFromBytes (encComp c) = some c := by
  have := readComp_encComp c h []
  simp at this
  simp [compFromBytes, this]

/-! ### hash input (8-byte type, 8-byte length, value) is injective and prefix-compatible -/

theorem hashInput_append (a b : Name) : hashInput (a ++ b) = hashInput a ++ hashInput b := by
  simp [hashInput]

theorem hashInputComp_inj {a b : Component} {ra rb : Bytes} (ha : wfComp a) (hb : wfComp b)
    (h : hashInputComp a ++ ra = hashInputComp b ++ rb) : a = b ∧ ra = rb := by
  obtain ⟨ta, va⟩ := a; obtain ⟨tb, vb⟩ := b
  simp only [hashInputComp, List.append_assoc] at h
  have h1 := List.append_inj h (by simp)
  have ht : ta = tb := by
    have := congrArg beDec h1.1
    rwa [beDec_be 8 ta (by have := ha.1; simpa using this), beDec_be 8 tb (by have := hb.1; simpa using this)] at this
  have h2 := List.append_inj h1.2 (by simp)
  have hl : va.length = vb.length := by
    have := congrArg beDec h2.1
    rwa [beDec_be 8 _ (by have := ha.2; simpa using this), beDec_be 8 _ (by have := hb.2; simpa using this)] at this
  have h3 := List.append_inj h2.2 hl
  exact ⟨by rw [ht, h3.1], h3.2⟩

theorem hashInput_inj {a b : Name} (ha : ∀ c ∈ a, wfComp c) (hb : ∀ c ∈ b, wfComp c)
    (h : hashInput a = hashInput b) : a = b := by
  induction a generalizing b with
  | nil =>
    cases b with
    | nil => rfl
    | cons y ys =>
      have := congrArg List.length h
      simp [hashInput, hashInputComp] at this
      omega
  | cons x xs ih =>
    cases b with
    | nil =>
      have := congrArg List.length h
      simp [hashInput, hashInputComp] at this
    | cons y ys =>
      have e1 : hashInput (x :: xs) = hashInputComp x ++ hashInput xs := by simp [hashInput]
      have e2 : hashInput (y :: ys) = hashInputComp y ++ hashInput ys := by simp [hashInput]
      rw [e1, e2] at h
      have := hashInputComp_inj (ha x (by simp)) (hb y (by simp)) h
      rw [this.1, ih (fun c hc => ha c (by simp [hc])) (fun c hc => hb c (by simp [hc])) this.2]

end Ndn.C14
