import NdnVerif.C14.LemmasUri
namespace Ndn.C14

/-! ### hex format -/

theorem hexToStr_cons (b : Nat) (v : Bytes) : hexToStr (b :: v) = hexLo (b / 16) :: hexLo (b % 16) :: hexToStr v := by
  simp [hexToStr]

theorem hexPairs_hexToStr (v : Bytes) (hv : Bytes.WF v) : hexPairs (hexToStr v) = some v := by
  induction v with
  | nil => simp [hexToStr, hexPairs]
  | cons b v ih =>
    have hb : b < 256 := hv b (by simp)
    have hv' : Bytes.WF v := fun y hy => hv y (by simp [hy])
    rw [hexToStr_cons, hexPairs, hexDig_hexLo _ (by omega), hexDig_hexLo _ (by omega)]
    simp only [ih hv', Option.map_some]
    congr 2; omega

theorem hexToStr_length (v : Bytes) : (hexToStr v).length = 2 * v.length := by
  induction v with
  | nil => simp [hexToStr]
  | cons b v ih => rw [hexToStr_cons]; simp [ih]; omega

theorem hexFromStr_hexToStr (v : Bytes) (hv : Bytes.WF v) : hexFromStr (hexToStr v) = some v := by
  unfold hexFromStr
  rw [hexToStr_length, if_neg (by omega)]
  exact hexPairs_hexToStr v hv

theorem hexToStr_plain (v : Bytes) (hv : Bytes.WF v) : ∀ c ∈ hexToStr v, plain c := by
  induction v with
  | nil => simp [hexToStr]
  | cons b v ih =>
    have hb : b < 256 := hv b (by simp)
    have hv' : Bytes.WF v := fun y hy => hv y (by simp [hy])
    rw [hexToStr_cons]
    intro c hc
    simp at hc
    rcases hc with rfl | rfl | hc
    · exact hexLo_plain _ (by omega)
    · exact hexLo_plain _ (by omega)
    · exact ih hv' c hc

/-! ### value formats: round trip and "plain" output -/

def fmtOk (f : VFmt) (v : Bytes) : Prop :=
  match f with
  | .dec => v = encNat (decVal v)
  | _ => True

theorem fmt_roundtrip (f : VFmt) (v : Bytes) (hv : Bytes.WF v) (hok : fmtOk f v) :
    f.fromStr (f.toStr v) = some v := by
  cases f with
  | text => exact textFromStr_textToStr v hv
  | hex => exact hexFromStr_hexToStr v hv
  | dec =>
    simp only [VFmt.fromStr, VFmt.toStr, decFromStr, decToStr]
    rw [parseDec_decStr _ (decVal_lt v)]
    simp only [Option.map_some]
    exact congrArg some hok.symm

theorem fmt_plain (f : VFmt) (v : Bytes) (hv : Bytes.WF v) : ∀ c ∈ f.toStr v, plain c := by
  cases f with
  | text => exact textToStr_plain v hv
  | hex => exact hexToStr_plain v hv
  | dec => intro c hc; exact isDigit_plain (decStr_digits _ c hc)

/-! ### facts about the (finite) convention table, by evaluation -/

theorem conv_table_facts : ∀ e ∈ conventions,
    convByName e.2.1 = some (e.1, e.2.2) ∧ convByType e.1 = some (e.2.1, e.2.2) ∧
    (e.2.1.all fun c => c != 47 && c != 61) = true ∧ (match e.2.1 with | c :: _ => isAlpha c | [] => false) = true ∧
    1 ≤ e.1 ∧ e.1 ≤ 65535 ∧ e.1 ≠ 8 := by decide

theorem convByType_mem {t : Nat} {nm : Bytes} {f : VFmt} (h : convByType t = some (nm, f)) :
    (t, nm, f) ∈ conventions := by
  unfold convByType at h
  cases hf : conventions.find? (·.1 == t) with
  | none => rw [hf] at h; simp at h
  | some e =>
    rw [hf] at h
    simp at h
    have hm := List.mem_of_find?_eq_some hf
    have hp := List.find?_some hf
    simp at hp
    obtain ⟨e1, e2, e3⟩ := e
    simp at h hp
    rw [← hp, ← h.1, ← h.2]; exact hm

/-! ### splitting at '=' -/

theorem cutEq_with (ts v : Bytes) (h1 : 61 ∉ ts) : cutEq (ts ++ 61 :: v) = some (ts, v) := by
  induction ts with
  | nil => simp [cutEq]
  | cons x xs ih =>
    have hx : x ≠ 61 := fun e => h1 (by simp [e])
    have hxs : 61 ∉ xs := fun m => h1 (by simp [m])
    simp [cutEq, hx, ih hxs]

theorem cutEq_without (v : Bytes) (h : 61 ∉ v) : cutEq v = none := by
  induction v with
  | nil => simp [cutEq]
  | cons x xs ih =>
    have hx : x ≠ 61 := fun e => h (by simp [e])
    have hxs : 61 ∉ xs := fun m => h (by simp [m])
    simp [cutEq, hx, ih hxs]

theorem splitEq_with (ts v : Bytes) (h1 : 61 ∉ ts) (h2 : 61 ∉ v) :
    splitEq (ts ++ 61 :: v) = some (some ts, v) := by
  unfold splitEq
  rw [cutEq_with ts v h1]
  simp [h2]

theorem splitEq_without (v : Bytes) (h : 61 ∉ v) : splitEq v = some (none, v) := by
  unfold splitEq
  rw [cutEq_without v h]

theorem not_mem_of_plain {l : Bytes} (h : ∀ c ∈ l, plain c) : 61 ∉ l ∧ 47 ∉ l :=
  ⟨fun m => (h 61 m).2 rfl, fun m => (h 47 m).1 rfl⟩

/-! ### component round trip -/

theorem parseCompType_decStr (t : Nat) (h : t < 2 ^ 64) : parseCompType (decStr t) = .ok (t, .text) := by
  unfold parseCompType
  have hne := decStr_ne_nil t
  cases hd : decStr t with
  | nil => exact absurd hd hne
  | cons c rest =>
    have hdig : isDigit c = true := decStr_digits t c (by rw [hd]; simp)
    have hna : isAlpha c = false := by
      unfold isDigit at hdig; unfold isAlpha; simp at hdig ⊢; omega
    simp only [List.length_cons, Nat.add_one_ne_zero, if_false, goIndex, List.getElem?_cons_zero, hna,
      Bool.false_eq_true]
    rw [← hd, parseDec_decStr t h]

theorem compToStr_plain (c : Component) (hv : Bytes.WF c.val) : ∀ x ∈ compToStr c, x ≠ 47 := by
  unfold compToStr
  intro x hx
  split at hx
  · rename_i nm f hc
    have hm := convByType_mem hc
    have hf := conv_table_facts _ hm
    simp only [List.append_assoc, List.mem_append, List.mem_singleton] at hx
    rcases hx with hx | hx | hx
    · have := hf.2.2.1
      rw [List.all_eq_true] at this
      have := this x hx
      simp at this; exact this.1
    · subst hx; decide
    · exact (fmt_plain f c.val hv x hx).1
  · rw [List.mem_append] at hx
    rcases hx with hx | hx
    · split at hx
      · rw [List.mem_append] at hx
        rcases hx with hx | hx
        · exact (isDigit_plain (decStr_digits _ x hx)).1
        · simp at hx; subst hx; decide
      · simp at hx
    · exact (textToStr_plain c.val hv x hx).1

theorem compFromStr_compToStr (c : Component) (hv : Bytes.WF c.val) (hok : compUriOk c = true) :
    compFromStr (compToStr c) = .ok c := by
  obtain ⟨t, v⟩ := c
  unfold compUriOk at hok
  simp only [Bool.and_eq_true, decide_eq_true_eq] at hok
  obtain ⟨⟨ht1, ht2⟩, hfmt⟩ := hok
  unfold compToStr compFromStr
  simp only
  cases hc : convByType t with
  | some e =>
    obtain ⟨nm, f⟩ := e
    simp only
    have hm := convByType_mem hc
    have hf := conv_table_facts _ hm
    have hnm61 : 61 ∉ nm := by
      intro m
      have := hf.2.2.1
      rw [List.all_eq_true] at this
      have := this 61 m
      simp at this
    have hv61 : 61 ∉ f.toStr v := (not_mem_of_plain (fmt_plain f v hv)).1
    have e1 : nm ++ [61] ++ f.toStr v = nm ++ 61 :: f.toStr v := by simp
    rw [e1, splitEq_with nm _ hnm61 hv61]
    simp only
    -- type string: a convention name
    have hpt : parseCompType nm = .ok (t, f) := by
      unfold parseCompType
      have ha := hf.2.2.2.1
      cases hnm : nm with
      | nil => rw [hnm] at ha; simp at ha
      | cons c0 rest =>
        rw [hnm] at ha
        simp only at ha
        simp only [List.length_cons, Nat.add_one_ne_zero, if_false, goIndex, List.getElem?_cons_zero, ha, if_true]
        rw [← hnm, hf.1]
    rw [hpt]
    simp only
    have hrange : ¬ (t = 0 ∨ t > 65535) := by omega
    rw [if_neg hrange]
    have hfok : fmtOk f v := by
      rw [hc] at hfmt
      cases f with
      | dec => simpa [fmtOk] using hfmt
      | text => trivial
      | hex => trivial
    rw [fmt_roundtrip f v hv hfok]
  | none =>
    simp only
    have hv61 : 61 ∉ textToStr v := (not_mem_of_plain (textToStr_plain v hv)).1
    by_cases h8 : t = 8
    · subst h8
      simp only [ne_eq, not_true_eq_false, if_false, List.nil_append]
      rw [splitEq_without _ hv61]
      simp only
      rw [textFromStr_textToStr v hv]
    · simp only [ne_eq, h8, not_false_eq_true, if_true]
      have hd61 : 61 ∉ decStr t := fun m => (isDigit_plain (decStr_digits t 61 m)).2 rfl
      have e1 : decStr t ++ [61] ++ textToStr v = decStr t ++ 61 :: textToStr v := by simp
      rw [e1, splitEq_with _ _ hd61 hv61]
      simp only
      rw [parseCompType_decStr t (by omega)]
      simp only
      have hrange : ¬ (t = 0 ∨ t > 65535) := by omega
      rw [if_neg hrange]
      simp only [VFmt.fromStr]
      rw [textFromStr_textToStr v hv]

theorem compToStr_eq_nil {c : Component} (h : compToStr c = []) : c.typ = 8 ∧ c.val = [] := by
  unfold compToStr at h
  split at h
  · simp at h
  · rename_i hc
    by_cases h8 : c.typ = 8
    · simp [h8] at h
      exact ⟨h8, textToStr_eq_nil.mp h⟩
    · simp [h8] at h

end Ndn.C14
