import NdnVerif.C14.LemmasUri2
namespace Ndn.C14

/-! ### no panic -/

theorem parseCompType_no_panic (s : Bytes) : parseCompType s ≠ .panic := by
  unfold parseCompType
  split
  · simp
  · rename_i hlen
    cases s with
    | nil => simp at hlen
    | cons c rest =>
      simp only [goIndex, List.getElem?_cons_zero]
      split
      · split <;> simp
      · split <;> simp

theorem compFromStr_no_panic (s : Bytes) : compFromStr s ≠ .panic := by
  unfold compFromStr
  split
  · simp
  · split <;> simp
  · rename_i ts v _
    have := parseCompType_no_panic ts
    split
    · rename_i h; exact absurd h this
    · simp
    · split
      · simp
      · split <;> simp

theorem mapRes_no_panic {α β : Type} (f : α → Res β) (h : ∀ a, f a ≠ .panic) (l : List α) :
    mapRes f l ≠ .panic := by
  induction l with
  | nil => simp [mapRes]
  | cons a as ih =>
    unfold mapRes
    split
    · rename_i hp; exact absurd hp (h a)
    · simp
    · split
      · simp
      · simp
      · rename_i hp; exact absurd hp ih

theorem nameFromStr_no_panic (s : Bytes) : nameFromStr s ≠ .panic := by
  unfold nameFromStr
  exact mapRes_no_panic _ compFromStr_no_panic _

/-! ### split / join -/

theorem splitSlash_ne_nil (s : Bytes) : splitSlash s ≠ [] := by
  cases s with
  | nil => simp [splitSlash]
  | cons c t =>
    unfold splitSlash
    split
    · simp
    · split <;> simp

theorem splitSlash_append (s r : Bytes) (h : 47 ∉ s) :
    splitSlash (s ++ 47 :: r) = s :: splitSlash r := by
  induction s with
  | nil => simp [splitSlash]
  | cons c t ih =>
    have hc : c ≠ 47 := fun e => h (by simp [e])
    have ht : 47 ∉ t := fun m => h (by simp [m])
    simp only [List.cons_append]
    rw [splitSlash, if_neg hc, ih ht]

theorem splitSlash_plain (s : Bytes) (h : 47 ∉ s) : splitSlash s = [s] := by
  induction s with
  | nil => simp [splitSlash]
  | cons c t ih =>
    have hc : c ≠ 47 := fun e => h (by simp [e])
    have ht : 47 ∉ t := fun m => h (by simp [m])
    rw [splitSlash, if_neg hc, ih ht]

theorem splitSlash_join (strs : List Bytes) (h : ∀ s ∈ strs, 47 ∉ s) :
    splitSlash (strs.flatMap (47 :: ·)) = [] :: strs := by
  cases strs with
  | nil => simp [splitSlash]
  | cons s rest =>
    simp only [List.flatMap_cons, List.cons_append]
    have e0 : ∀ t, splitSlash (47 :: t) = [] :: splitSlash t := by intro t; simp [splitSlash]
    rw [e0]
    congr 1
    induction rest generalizing s with
    | nil => simp; exact splitSlash_plain s (h s (by simp))
    | cons s2 rest ih =>
      simp only [List.flatMap_cons, List.cons_append]
      rw [splitSlash_append s _ (h s (by simp))]
      congr 1
      exact ih s2 (fun x hx => h x (by simp at hx ⊢; rcases hx with hx | hx <;> simp [hx]))

theorem mapRes_map_ok {α β : Type} (f : α → Res β) (g : β → α) (l : List β)
    (h : ∀ b ∈ l, f (g b) = .ok b) : mapRes f (l.map g) = .ok l := by
  induction l with
  | nil => simp [mapRes]
  | cons b bs ih =>
    simp only [List.map_cons, mapRes]
    rw [h b (by simp), ih (fun x hx => h x (by simp [hx]))]

theorem nameFromStr_nameToStr (n : Name) (hv : ∀ c ∈ n, Bytes.WF c.val) (hok : nameUriOk n = true) :
    nameFromStr (nameToStr n) = .ok n := by
  have hstr : ∀ s ∈ n.map compToStr, 47 ∉ s := by
    intro s hs
    simp only [List.mem_map] at hs
    obtain ⟨c, hc, rfl⟩ := hs
    intro m
    exact compToStr_plain c (hv c hc) 47 m rfl
  have hcomp : ∀ c ∈ n, compFromStr (compToStr c) = .ok c := by
    intro c hc
    apply compFromStr_compToStr c (hv c hc)
    unfold nameUriOk at hok
    rw [List.all_eq_true] at hok
    exact hok c hc
  have hbody : (n.flatMap fun c => 47 :: compToStr c) = (n.map compToStr).flatMap (47 :: ·) := by
    rw [List.flatMap_map]
  cases hn : n with
  | nil => decide
  | cons c0 cs =>
    rw [← hn]
    have hne : n ≠ [] := by rw [hn]; simp
    unfold nameToStr nameFromStr
    rw [if_neg hne]
    simp only
    obtain ⟨lastc, hlast⟩ : ∃ l, n.getLast? = some l := by
      cases h : n.getLast? with
      | none => rw [List.getLast?_eq_none_iff] at h; exact absurd h hne
      | some l => exact ⟨l, rfl⟩
    rw [hlast]
    simp only
    by_cases hge : lastc.typ = 8 ∧ lastc.val = []
    · -- trailing generic empty component: the rendered string gets an extra '/'
      rw [if_pos hge, hbody]
      have e : (n.map compToStr).flatMap (47 :: ·) ++ [47] = ((n.map compToStr) ++ [[]]).flatMap (47 :: ·) := by
        simp
      rw [e, splitSlash_join _ (by
        intro s hs
        rw [List.mem_append] at hs
        rcases hs with hs | hs
        · exact hstr s hs
        · simp at hs; subst hs; simp)]
      simp only [List.getLast?_append, List.getLast?_singleton, Option.some_or, if_true,
        List.dropLast_concat]
      exact mapRes_map_ok compFromStr compToStr n hcomp
    · rw [if_neg hge, hbody, splitSlash_join _ hstr]
      simp only
      have hl : (n.map compToStr).getLast? = some (compToStr lastc) := by
        rw [List.getLast?_map, hlast]; rfl
      have hne2 : compToStr lastc ≠ [] := fun e => hge (compToStr_eq_nil e)
      rw [hl]
      have : ¬ (some (compToStr lastc) = some []) := by simpa using hne2
      rw [if_neg this]
      exact mapRes_map_ok compFromStr compToStr n hcomp

end Ndn.C14
