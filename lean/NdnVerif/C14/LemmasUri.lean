import NdnVerif.C14.Spec
namespace Ndn.C14

/-! ### hex digits -/

theorem hexDig_hexUp (x : Nat) (h : x < 16) : hexDig (hexUp x) = some x := by
  unfold hexUp hexDig
  by_cases h10 : x < 10
  · have : 48 ≤ 48 + x ∧ 48 + x ≤ 57 := by omega
    simp [h10, this]
  · have h1 : ¬ (48 ≤ 55 + x ∧ 55 + x ≤ 57) := by omega
    have h2 : ¬ (97 ≤ 55 + x ∧ 55 + x ≤ 102) := by omega
    have h3 : 65 ≤ 55 + x ∧ 55 + x ≤ 70 := by omega
    simp [h10, h1, h2, h3]

theorem hexDig_hexLo (x : Nat) (h : x < 16) : hexDig (hexLo x) = some x := by
  unfold hexLo hexDig
  by_cases h10 : x < 10
  · have : 48 ≤ 48 + x ∧ 48 + x ≤ 57 := by omega
    simp [h10, this]
  · have h1 : ¬ (48 ≤ 87 + x ∧ 87 + x ≤ 57) := by omega
    have h2 : 97 ≤ 87 + x ∧ 87 + x ≤ 102 := by omega
    simp [h10, h1, h2]

/-- characters that may appear in a rendered component: never '/' (47) or '=' (61) -/
def plain (c : Nat) : Prop := c ≠ 47 ∧ c ≠ 61

theorem isLegal_plain {c : Nat} (h : isLegal c = true) : plain c := by
  unfold isLegal isAlpha isDigit at h
  simp only [Bool.or_eq_true, Bool.and_eq_true, decide_eq_true_eq, beq_iff_eq] at h
  unfold plain; omega

theorem isLegal_not_special {c : Nat} (h : isLegal c = true) : isSpecial c = false := by
  unfold isLegal isAlpha isDigit at h
  simp only [Bool.or_eq_true, Bool.and_eq_true, decide_eq_true_eq, beq_iff_eq] at h
  unfold isSpecial
  simp only [Bool.or_eq_false_iff, beq_eq_false_iff_ne, ne_eq]
  omega

theorem hexUp_plain (x : Nat) (h : x < 16) : plain (hexUp x) := by
  unfold hexUp plain; split <;> omega
theorem hexLo_plain (x : Nat) (h : x < 16) : plain (hexLo x) := by
  unfold hexLo plain; split <;> omega

/-! ### text format -/

theorem textToStr_cons (b : Nat) (v : Bytes) :
    textToStr (b :: v) = (if isLegal b then [b] else [37, hexUp (b / 16), hexUp (b % 16)]) ++ textToStr v := by
  simp [textToStr]

theorem textToStr_plain (v : Bytes) (hv : Bytes.WF v) : ∀ c ∈ textToStr v, plain c := by
  induction v with
  | nil => simp [textToStr]
  | cons b v ih =>
    have hb : b < 256 := hv b (by simp)
    have hv' : Bytes.WF v := fun y hy => hv y (by simp [hy])
    rw [textToStr_cons]
    intro c hc
    rw [List.mem_append] at hc
    rcases hc with hc | hc
    · split at hc
      · rename_i hl; simp at hc; subst hc; exact isLegal_plain hl
      · simp at hc
        rcases hc with rfl | rfl | rfl
        · unfold plain; omega
        · exact hexUp_plain _ (by omega)
        · exact hexUp_plain _ (by omega)
    · exact ih hv' c hc

theorem textLoop_textToStr (v : Bytes) (hv : Bytes.WF v) : textLoop (textToStr v) = some v := by
  induction v with
  | nil => simp [textToStr, textLoop]
  | cons b v ih =>
    have hb : b < 256 := hv b (by simp)
    have hv' : Bytes.WF v := fun y hy => hv y (by simp [hy])
    rw [textToStr_cons]
    by_cases hl : isLegal b = true
    · simp only [hl, if_true, List.cons_append, List.nil_append]
      unfold textLoop
      simp [hl, ih hv']
    · have h37 : isLegal 37 = false := by decide
      simp only [hl, Bool.false_eq_true, if_false, List.cons_append, List.nil_append]
      unfold textLoop
      simp only [h37, Bool.false_eq_true, if_false, if_true]
      rw [hexDig_hexUp _ (by omega), hexDig_hexUp _ (by omega)]
      simp only [ih hv', Option.map_some]
      congr 2; omega

theorem textToStr_eq_self_of_no_special (v : Bytes) (h : (textToStr v).any isSpecial = false) :
    textToStr v = v := by
  induction v with
  | nil => simp [textToStr]
  | cons b v ih =>
    rw [textToStr_cons] at h ⊢
    by_cases hl : isLegal b = true
    · simp only [hl, if_true, List.cons_append, List.nil_append, List.any_cons, Bool.or_eq_false_iff] at h ⊢
      rw [ih h.2]
    · simp only [hl, Bool.false_eq_true, if_false, List.cons_append, List.any_cons] at h
      have : isSpecial 37 = true := by decide
      simp [this] at h

theorem textFromStr_textToStr (v : Bytes) (hv : Bytes.WF v) : textFromStr (textToStr v) = some v := by
  unfold textFromStr
  by_cases h : (textToStr v).any isSpecial = true
  · rw [if_pos h]; exact textLoop_textToStr v hv
  · rw [if_neg h]
    rw [textToStr_eq_self_of_no_special v (by simpa using h)]

theorem textToStr_eq_nil {v : Bytes} : textToStr v = [] ↔ v = [] := by
  cases v with
  | nil => simp [textToStr]
  | cons b v => rw [textToStr_cons]; split <;> simp

/-! ### decimal format -/

theorem decStr_digits (n : Nat) : ∀ c ∈ decStr n, isDigit c = true := by
  induction n using Nat.strongRecOn with
  | _ n ih =>
    unfold decStr
    split
    · intro c hc; simp at hc; subst hc; unfold isDigit; simp; omega
    · intro c hc
      rw [List.mem_append] at hc
      rcases hc with hc | hc
      · exact ih (n / 10) (by omega) c hc
      · simp at hc; subst hc; unfold isDigit; simp; omega

theorem decStr_ne_nil (n : Nat) : decStr n ≠ [] := by
  unfold decStr; split <;> simp

theorem decStr_fold (n : Nat) : (decStr n).foldl (fun acc c => acc * 10 + (c - 48)) 0 = n := by
  induction n using Nat.strongRecOn with
  | _ n ih =>
    unfold decStr
    split
    · simp
    · rw [List.foldl_append, ih (n / 10) (by omega)]
      simp; omega

theorem parseDec_decStr (n : Nat) (h : n < 2 ^ 64) : parseDec (decStr n) = some n := by
  unfold parseDec
  have h1 : ¬ (decStr n = [] ∨ ¬ (decStr n).all isDigit = true) := by
    intro hh
    rcases hh with hh | hh
    · exact decStr_ne_nil n hh
    · exact hh (List.all_eq_true.mpr (decStr_digits n))
  rw [if_neg h1]
  simp only [decStr_fold]
  rw [if_pos h]

theorem isDigit_plain {c : Nat} (h : isDigit c = true) : plain c := by
  unfold isDigit at h; simp at h; unfold plain; omega

theorem decVal_lt (v : Bytes) : decVal v < 2 ^ 64 := by
  unfold decVal
  have : ∀ (v : Bytes) (acc : Nat), acc < 2 ^ 64 →
      v.foldl (fun acc b => (acc * 256 + b) % 2 ^ 64) acc < 2 ^ 64 := by
    intro v
    induction v with
    | nil => intro acc h; simpa using h
    | cons b v ih => intro acc _; simp only [List.foldl_cons]; exact ih _ (Nat.mod_lt _ (by omega))
  exact this v 0 (by omega)

end Ndn.C14
