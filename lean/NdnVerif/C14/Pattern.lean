/-
  C14/Pattern.lean — name PATTERNS (`std/encoding/name_pattern.go` NamePatternFromStr,
  `name_component.go` ComponentPatternFromStr): a pattern is a list of components and `<type=tag>` /
  `<tag>` placeholders.  Only the parser is modelled (the schema tree takes its paths from configuration
  text through it): it shares the '/'-splitting and the component parser with NameFromStr.
-/
import NdnVerif.C14.LemmasUri3
namespace Ndn.C14

inductive CPat where
  | comp (c : Component)
  | pat (typ : Nat) (tag : Bytes)
deriving Repr, DecidableEq

/-- `strings.Split(s, "=")` -/
def splitEqAll : Bytes → List Bytes
  | [] => [[]]
  | c :: t =>
    if c = 61 then [] :: splitEqAll t
    else match splitEqAll t with
      | h :: tl => (c :: h) :: tl
      | [] => [[c]]

/-- `ComponentPatternFromStr` -/
def compPatFromStr (s : Bytes) : Res CPat :=
  let asComp : Res CPat := match compFromStr s with
    | .ok c => .ok (.comp c)
    | .err => .err
    | .panic => .panic
  match s with
  | [] => asComp
  | c :: _ =>
    if c ≠ 60 then asComp
    else if s.getLast? ≠ some 62 then .err
    else
      match splitEqAll ((s.drop 1).dropLast) with
      | [tag] => .ok (.pat 8 tag)
      | [t, tag] =>
        match parseCompType t with
        | .ok (typ, _) => .ok (.pat typ tag)
        | .err => .err
        | .panic => .panic
      | _ => .err

/-- `NamePatternFromStr` (after fix F-14c: the trailing-empty test is guarded by `len(strs) > 0`; the pinned
    tree indexed `strs[len(strs)-1]` unconditionally and panicked on the empty string) -/
def namePatFromStr (s : Bytes) : Res (List CPat) :=
  let strs := splitSlash s
  let strs := match strs with
    | [] :: t => t
    | l => l
  let strs := if strs.getLast? = some [] then strs.dropLast else strs
  mapRes compPatFromStr strs

/-- the pinned tree's version, with the unguarded Go index -/
def namePatFromStrPinned (s : Bytes) : Res (List CPat) :=
  let strs := splitSlash s
  let strs := match strs with
    | [] :: t => t
    | l => l
  match strs.getLast? with
  | none => .panic                       -- strs[len(strs)-1] with len(strs) = 0
  | some l => mapRes compPatFromStr (if l = [] then strs.dropLast else strs)

theorem compPatFromStr_no_panic (s : Bytes) : compPatFromStr s ≠ .panic := by
  have hc := compFromStr_no_panic s
  unfold compPatFromStr
  have hcomp : (match compFromStr s with
      | .ok c => (Res.ok (CPat.comp c) : Res CPat) | .err => .err | .panic => .panic) ≠ .panic := by
    cases h : compFromStr s with
    | ok c => simp
    | err => simp
    | panic => exact absurd h hc
  cases s with
  | nil => simpa using hcomp
  | cons c t =>
    simp only
    split
    · exact hcomp
    · split
      · simp
      · split
        · simp
        · rename_i t2 tag _
          have hp := parseCompType_no_panic t2
          cases h : parseCompType t2 with
          | ok p => obtain ⟨typ, f⟩ := p; simp
          | err => simp
          | panic => exact absurd h hp
        · simp

theorem namePatFromStr_no_panic (s : Bytes) : namePatFromStr s ≠ .panic := by
  unfold namePatFromStr
  exact mapRes_no_panic compPatFromStr compPatFromStr_no_panic _

end Ndn.C14
