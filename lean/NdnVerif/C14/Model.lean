/-
  C14 model — std/encoding/name_component.go, name_pattern.go:
  Component.Compare/Equal, Name.Compare/Equal/IsPrefix, Component/Name encoders, hash input.
  Mirrors what the code does, branch by branch.  Core Lean only.
-/
import NdnVerif.Base.Name
namespace Ndn.C14

/-- `bytes.Compare` -/
def cmpBytes : Bytes → Bytes → Int
  | [], [] => 0
  | [], _ :: _ => -1
  | _ :: _, [] => 1
  | x :: xs, y :: ys => if x < y then -1 else if y < x then 1 else cmpBytes xs ys

/-- `Component.Compare`: type, then value length, then value bytes -/
def cmpComp (a b : Component) : Int :=
  if a.typ ≠ b.typ then (if a.typ < b.typ then -1 else 1)
  else if a.val.length ≠ b.val.length then (if a.val.length < b.val.length then -1 else 1)
  else cmpBytes a.val b.val

/-- `Name.Compare`: first differing component decides, otherwise the shorter name is smaller -/
def cmpName : Name → Name → Int
  | [], [] => 0
  | [], _ :: _ => -1
  | _ :: _, [] => 1
  | a :: as, b :: bs => if cmpComp a b ≠ 0 then cmpComp a b else cmpName as bs

/-- `Component.Equal` -/
def eqComp (a b : Component) : Bool :=
  if a.typ ≠ b.typ ∨ a.val.length ≠ b.val.length then false else a.val == b.val

/-- `Name.Equal` -/
def eqName : Name → Name → Bool
  | [], [] => true
  | a :: as, b :: bs => eqComp a b && eqName as bs
  | _, _ => false

/-- `Name.IsPrefix` (receiver is the prefix) -/
def isPrefix : Name → Name → Bool
  | [], _ => true
  | _ :: _, [] => false
  | a :: as, b :: bs => eqComp a b && isPrefix as bs

/-- `Component.Bytes` (after fix F-03a the length is a TLNum) -/
def encComp (c : Component) : Bytes := encTL c.typ ++ encTL c.val.length ++ c.val

/-- `Name.EncodeInto`: concatenated components, no outer TL -/
def encNameInner (n : Name) : Bytes := n.flatMap encComp

/-- `Name.Bytes`: TL 0x07 + inner -/
def encName (n : Name) : Bytes := encTL 7 ++ encTL (encNameInner n).length ++ encNameInner n

/-- input of the name hash: per component 8-byte big-endian type, 8-byte big-endian value length
    (after fix F-07a), value -/
def hashInputComp (c : Component) : Bytes := be 8 c.typ ++ be 8 c.val.length ++ c.val
def hashInput (n : Name) : Bytes := n.flatMap hashInputComp


/-! ## Decoders: `ReadComponent`, `ReadName`, `NameFromBytes`, `ComponentFromBytes`
    (BufferReader over a contiguous buffer).  `none` = error return (never a panic). -/

/-- `ReadComponent` on the remaining bytes: `none` on any error (incl. clean EOF). -/
def readComp (b : Bytes) : Option (Component × Bytes) :=
  match decTL b with
  | none => none
  | some (t, r1) =>
    match decTL r1 with
    | none => none
    | some (l, r2) => if r2.length < l then none else some (⟨t, r2.take l⟩, r2.drop l)

theorem readComp_lt {b r : Bytes} {c : Component} (h : readComp b = some (c, r)) : r.length < b.length := by
  unfold readComp at h
  split at h; · simp at h
  rename_i t r1 h1
  split at h; · simp at h
  rename_i l r2 h2
  split at h; · simp at h
  simp at h
  have := decTL_rest_lt h1
  have := decTL_rest_lt h2
  rw [← h.2]; simp; omega

/-- `ReadName`: components until clean EOF; an error in the middle fails the whole name. -/
def readName (b : Bytes) : Option Name :=
  if hb : b = [] then some []
  else match h : readComp b with
    | none => none
    | some (c, r) => (readName r).map (c :: ·)
termination_by b.length
decreasing_by exact readComp_lt h

/-- `NameFromBytes`: outer type must be 7, the declared length must equal the rest. -/
def nameFromBytes (b : Bytes) : Option Name :=
  match decTL b with
  | none => none
  | some (t, r1) =>
    if t ≠ 7 then none else
    match decTL r1 with
    | none => none
    | some (l, r2) =>
      match readName r2 with
      | none => none
      | some n => if l = r2.length then some n else none

/-- `ComponentFromBytes` = one `ReadComponent`; trailing bytes are ignored by the Go code. -/
def compFromBytes (b : Bytes) : Option Component := (readComp b).map (·.1)

/-! ## URI text form.  Go strings are byte strings; all tests are on ASCII bytes. -/

def isAlpha (c : Nat) : Bool := (97 ≤ c && c ≤ 122) || (65 ≤ c && c ≤ 90)
def isDigit (c : Nat) : Bool := 48 ≤ c && c ≤ 57
/-- `isLegalCompText` -/
def isLegal (c : Nat) : Bool := isAlpha c || isDigit c || c == 45 || c == 95 || c == 46 || c == 126
/-- the four characters `% = / \` -/
def isSpecial (c : Nat) : Bool := c == 37 || c == 61 || c == 47 || c == 92

def hexUp (n : Nat) : Nat := if n < 10 then 48 + n else 55 + n     -- %02X
def hexLo (n : Nat) : Nat := if n < 10 then 48 + n else 87 + n     -- %02x
def hexDig (c : Nat) : Option Nat :=
  if 48 ≤ c ∧ c ≤ 57 then some (c - 48)
  else if 97 ≤ c ∧ c ≤ 102 then some (c - 87)
  else if 65 ≤ c ∧ c ≤ 70 then some (c - 55)
  else none

/-- `compValFmtText.ToString` -/
def textToStr (v : Bytes) : Bytes :=
  v.flatMap fun b => if isLegal b then [b] else [37, hexUp (b / 16), hexUp (b % 16)]

/-- the decoding loop of `compValFmtText.FromString` -/
def textLoop : Bytes → Option Bytes
  | [] => some []
  | c :: rest =>
    if isLegal c then (textLoop rest).map (c :: ·)
    else if c = 37 then
      -- '%' followed by at least two characters: two hex digits or an error;
      -- '%' with fewer than two characters left is a special character: error
      match rest with
      | a :: b :: rest' =>
        match hexDig a, hexDig b with
        | some x, some y => (textLoop rest').map ((x * 16 + y) :: ·)
        | _, _ => none
      | _ => none
    else if isSpecial c then none else (textLoop rest).map (c :: ·)

/-- `compValFmtText.FromString` -/
def textFromStr (s : Bytes) : Option Bytes :=
  if s.any isSpecial then textLoop s else some s

/-- decimal digits of a number (`strconv.FormatUint(x, 10)`) -/
def decStr (n : Nat) : Bytes :=
  if h : n < 10 then [48 + n] else decStr (n / 10) ++ [48 + n % 10]
termination_by n
decreasing_by omega

/-- `strconv.ParseUint(s, 10, 64)`: non-empty, digits only, value < 2^64 -/
def parseDec (s : Bytes) : Option Nat :=
  if s = [] ∨ ¬ s.all isDigit then none
  else
    let v := s.foldl (fun acc c => acc * 10 + (c - 48)) 0
    if v < 2 ^ 64 then some v else none

/-- `compValFmtDec.ToString`: big-endian value reduced mod 2^64 (uint64 shifts) -/
def decVal (v : Bytes) : Nat := v.foldl (fun acc b => (acc * 256 + b) % 2 ^ 64) 0
def decToStr (v : Bytes) : Bytes := decStr (decVal v)
/-- `compValFmtDec.FromString` -/
def decFromStr (s : Bytes) : Option Bytes := (parseDec s).map encNat

def hexToStr (v : Bytes) : Bytes := v.flatMap fun b => [hexLo (b / 16), hexLo (b % 16)]
def hexPairs : Bytes → Option Bytes
  | [] => some []
  | [_] => none
  | a :: b :: rest =>
    match hexDig a, hexDig b with
    | some x, some y => (hexPairs rest).map ((x * 16 + y) :: ·)
    | _, _ => none
def hexFromStr (s : Bytes) : Option Bytes := if s.length % 2 ≠ 0 then none else hexPairs s

inductive VFmt | text | dec | hex
deriving DecidableEq, Repr

def asciiBytes (s : String) : Bytes := s.toList.map Char.toNat

/-- the convention table `compConvByType` (type, name, value format) -/
def conventions : List (Nat × Bytes × VFmt) :=
  [ (1, asciiBytes "sha256digest", .hex), (2, asciiBytes "params-sha256", .hex),
    (0x32, asciiBytes "seg", .dec), (0x34, asciiBytes "off", .dec), (0x36, asciiBytes "v", .dec),
    (0x38, asciiBytes "t", .dec), (0x3a, asciiBytes "seq", .dec) ]

def convByType (t : Nat) : Option (Bytes × VFmt) := (conventions.find? (·.1 == t)).map (·.2)
def convByName (s : Bytes) : Option (Nat × VFmt) := (conventions.find? (·.2.1 == s)).map fun e => (e.1, e.2.2)

def VFmt.toStr : VFmt → Bytes → Bytes
  | .text => textToStr | .dec => decToStr | .hex => hexToStr
def VFmt.fromStr : VFmt → Bytes → Option Bytes
  | .text => textFromStr | .dec => decFromStr | .hex => hexFromStr

/-- `Component.String` -/
def compToStr (c : Component) : Bytes :=
  match convByType c.typ with
  | some (nm, f) => nm ++ [61] ++ f.toStr c.val
  | none => (if c.typ ≠ 8 then decStr c.typ ++ [61] else []) ++ textToStr c.val

/-- `Component.CanonicalString` -/
def compCanon (c : Component) : Bytes :=
  (if c.typ ≠ 8 then decStr c.typ ++ [61] else []) ++ textToStr c.val

/-- `Name.String` -/
def nameToStr (n : Name) : Bytes :=
  if n = [] then [47]
  else
    let body := n.flatMap fun c => 47 :: compToStr c
    match n.getLast? with
    | some c => if c.typ = 8 ∧ c.val = [] then body ++ [47] else body
    | none => body

/-- outcome of a parser: value, error return, or Go panic (index out of range …) -/
inductive Res (α : Type) | ok (a : α) | err | panic
deriving Repr, DecidableEq

/-- Go indexing `s[i]`: panics when out of range -/
def goIndex (s : Bytes) (i : Nat) : Res Nat :=
  match s[i]? with
  | some c => .ok c
  | none => .panic

/-- `parseCompTypeFromStr` (after fix F-14a: the length is tested before `s[0]` is read) -/
def parseCompType (s : Bytes) : Res (Nat × VFmt) :=
  if s.length = 0 then .err
  else match goIndex s 0 with
    | .panic => .panic
    | .err => .err
    | .ok c =>
      if isAlpha c then
        match convByName s with
        | some (t, f) => .ok (t, f)
        | none => .err
      else match parseDec s with
        | some t => .ok (t, .text)
        | none => .err

/-- cut at the first '=' (`none` when there is none) -/
def cutEq : Bytes → Option (Bytes × Bytes)
  | [] => none
  | c :: rest => if c = 61 then some ([], rest) else (cutEq rest).map fun p => (c :: p.1, p.2)

/-- the '=' scan of `componentFromStrInto`: `none` when there are two or more '=' (error),
    `some (none, s)` when there is none, `some (some typ, val)` otherwise -/
def splitEq (s : Bytes) : Option (Option Bytes × Bytes) :=
  match cutEq s with
  | none => some (none, s)
  | some (ts, v) => if v.contains 61 then none else some (some ts, v)

/-- `componentFromStrInto` -/
def compFromStr (s : Bytes) : Res Component :=
  match splitEq s with
  | none => .err
  | some (none, v) =>
    match textFromStr v with
    | some b => .ok ⟨8, b⟩
    | none => .err
  | some (some ts, v) =>
    match parseCompType ts with
    | .panic => .panic
    | .err => .err
    | .ok (t, f) =>
      if t = 0 ∨ t > 0xffff then .err
      else match f.fromStr v with
        | some b => .ok ⟨t, b⟩
        | none => .err

/-- `strings.Split(s, "/")` -/
def splitSlash : Bytes → List Bytes
  | [] => [[]]
  | c :: t =>
    if c = 47 then [] :: splitSlash t
    else match splitSlash t with
      | h :: tl => (c :: h) :: tl
      | [] => [[c]]

def mapRes {α β} (f : α → Res β) : List α → Res (List β)
  | [] => .ok []
  | a :: as =>
    match f a with
    | .panic => .panic
    | .err => .err
    | .ok b => match mapRes f as with
      | .ok bs => .ok (b :: bs)
      | .err => .err
      | .panic => .panic

/-- `NameFromStr` -/
def nameFromStr (s : Bytes) : Res Name :=
  let strs := splitSlash s
  let strs := match strs with
    | [] :: t => t
    | l => l
  let strs := if strs.getLast? = some [] then strs.dropLast else strs
  mapRes compFromStr strs

end Ndn.C14
