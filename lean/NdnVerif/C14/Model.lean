/-
  C14 model — std/encoding/name_component.go, name_pattern.go:
  Component.Compare/Equal, Name.Compare/Equal/IsPrefix, Component/Name encoders, hash input.
  Mirrors what the code does, branch by branch.  Core Lean only.
-/
import NdnVerif.Base.Name
namespace Ndn.C14

/-- `bytes.Compare` -/
def cmpBytes : Bytes → Bytes → Int
  | [], [] => 0
  | [], _ :: _ => -1
  | _ :: _, [] => 1
  | x :: xs, y :: ys => if x < y then -1 else if y < x then 1 else cmpBytes xs ys

/-- `Component.Compare`: type, then value length, then value bytes -/
def cmpComp (a b : Component) : Int :=
  if a.typ ≠ b.typ then (if a.typ < b.typ then -1 else 1)
  else if a.val.length ≠ b.val.length then (if a.val.length < b.val.length then -1 else 1)
  else cmpBytes a.val b.val

/-- `Name.Compare`: first differing component decides, otherwise the shorter name is smaller -/
def cmpName : Name → Name → Int
  | [], [] => 0
  | [], _ :: _ => -1
  | _ :: _, [] => 1
  | a :: as, b :: bs => if cmpComp a b ≠ 0 then cmpComp a b else cmpName as bs

/-- `Component.Equal` -/
def eqComp (a b : Component) : Bool :=
  if a.typ ≠ b.typ ∨ a.val.length ≠ b.val.length then false else a.val == b.val

/-- `Name.Equal` -/
def eqName : Name → Name → Bool
  | [], [] => true
  | a :: as, b :: bs => eqComp a b && eqName as bs
  | _, _ => false

/-- `Name.IsPrefix` (receiver is the prefix) -/
def isPrefix : Name → Name → Bool
  | [], _ => true
  | _ :: _, [] => false
  | a :: as, b :: bs => eqComp a b && isPrefix as bs

/-- `Component.Bytes` (after fix F-03a the length is a TLNum) -/
def encComp (c : Component) : Bytes := encTL c.typ ++ encTL c.val.length ++ c.val

/-- `Name.EncodeInto`: concatenated components, no outer TL -/
def encNameInner (n : Name) : Bytes := n.flatMap encComp

/-- `Name.Bytes`: TL 0x07 + inner -/
def encName (n : Name) : Bytes := encTL 7 ++ encTL (encNameInner n).length ++ encNameInner n

/-- input of the name hash: per component 8-byte big-endian type, 8-byte big-endian value length
    (after fix F-07a), value -/
def hashInputComp (c : Component) : Bytes := be 8 c.typ ++ be 8 c.val.length ++ c.val
def hashInput (n : Name) : Bytes := n.flatMap hashInputComp

end Ndn.C14
