/-
  C18 helper lemmas, part 5: convergence.  Poison reverse through OtherCost is split horizon, so the
  cost K u d (id w) converges to the length of the shortest NON-BACKTRACKING walk u → w → … → d
  (capped at infinity).  After t fair rounds
     LB(t): every finite cost below t is witnessed by such a walk,
     UB(t): every such walk of length ≤ t bounds the cost from above;
  both are invariant under exchanges and advance by one per fair round, so after 16 = infinity rounds
  every cost equals its split-horizon value: a fixed point.  Core Lean only.
-/
import NdnVerif.C18.LemmasSP
namespace Ndn.C18

/-- non-backtracking walk of `k` links from `u`, first hop `w`, to `v` -/
inductive NBReach (g : Graph) : Nat → Nat → Nat → Nat → Prop
  | one {u v : Nat} : g.adj u v → NBReach g 1 u v v
  | step {k u w x v : Nat} : g.adj u w → NBReach g k w x v → x ≠ u → NBReach g (k + 1) u w v

theorem NBReach.pos {g : Graph} {k u w v : Nat} (h : NBReach g k u w v) : 1 ≤ k := by
  cases h <;> omega

theorem NBReach.adj {g : Graph} {k u w v : Nat} (h : NBReach g k u w v) : g.adj u w := by
  cases h with
  | one ha => exact ha
  | step ha _ _ => exact ha

/-- the finite cost `k` of entry (u, d, h) is witnessed -/
def Wit (g : Graph) (net : Net) (u d h k : Nat) : Prop :=
  (h = net.idOf u ∧ d = net.idOf u ∧ k = 0) ∨
  ∃ w v, g.adj u w ∧ h = net.idOf w ∧ v < net.length ∧ net.idOf v = d ∧ NBReach g k u w v

def LBent (g : Graph) (net : Net) (t u d h : Nat) : Prop :=
  ∀ k, net.K u d h = k → k < inf → k < t → Wit g net u d h k

def UBent (g : Graph) (net : Net) (t u w d : Nat) : Prop :=
  ∀ k v, k ≤ t → k < inf → v < net.length → net.idOf v = d → NBReach g k u w v →
    net.K u d (net.idOf w) ≤ k

theorem wit_congr {g : Graph} {net net' : Net} (hl : net'.length = net.length)
    (hid : ∀ x, net'.idOf x = net.idOf x) {u d h k : Nat} (w : Wit g net u d h k) : Wit g net' u d h k := by
  rcases w with ⟨a, b, c⟩ | ⟨w, v, ha, hh, hv, hd, hr⟩
  · exact Or.inl ⟨by rw [hid]; exact a, by rw [hid]; exact b, c⟩
  · exact Or.inr ⟨w, v, ha, by rw [hid]; exact hh, by rw [hl]; exact hv, by rw [hid]; exact hd, hr⟩

/-! ### NetOK is preserved by an exchange along a link -/

theorem ok_fetch {g : Graph} {net net' : Net} {u w face : Nat} {fl : Bool} (ok : NetOK g net)
    (ha : g.adj u w) (hf : net.fetch u w face = some (net', fl)) : NetOK g net' := by
  obtain ⟨wf', hl, hid, hul, hwl, hK⟩ := fetch_sem ok.wf hf
  obtain ⟨_, _, hne⟩ := ok.adjValid u w ha
  constructor
  · exact wf'
  · intro a b hab; rw [hl]; exact ok.adjValid a b hab
  · intro a b hal hbl; rw [hid, hid]; rw [hl] at hal hbl; exact ok.idInj a b hal hbl
  · intro a hal
    rw [hl] at hal
    rw [hid, hK]
    have : ¬ (a = u ∧ net.idOf a = net.idOf w) := by
      rintro ⟨rfl, e⟩
      exact hne (ok.idInj a w hul hwl e)
    rw [if_neg this]; exact ok.self a hal
  · intro a d h hlt
    rw [hK] at hlt
    rw [hid]
    by_cases hc : a = u ∧ h = net.idOf w
    · right; exact ⟨w, by rw [hc.1]; exact ha, by rw [hid]; exact hc.2⟩
    · rw [if_neg hc] at hlt
      rcases ok.loc a d h hlt with h1 | ⟨w', ha', hh⟩
      · exact Or.inl h1
      · exact Or.inr ⟨w', ha', by rw [hid]; exact hh⟩

/-! ### the value an exchange installs -/

/-- lower bound of a freshly installed cost: witnessed below `t+1` when the neighbour's costs are
    witnessed below `t` -/
theorem new_lb {g : Graph} {net : Net} (ok : NetOK g net) {t : Nat}
    (lb : ∀ u d h, LBent g net t u d h) {u w : Nat} (ha : g.adj u w) (d k : Nat)
    (hk : capInf (minExcl (net.costs w d) (net.idOf u) + 1) = k) (hfin : k < inf) (hlt : k < t + 1) :
    Wit g net u d (net.idOf w) k := by
  obtain ⟨hul, hwl, hne⟩ := ok.adjValid u w ha
  have hc := capInf_lt (by rw [hk]; exact hfin)
  rw [hc.1] at hk
  have hm : minExcl (net.costs w d) (net.idOf u) < inf := by omega
  obtain ⟨h', hne', hget⟩ := minExcl_attained_cget (costs_nodup ok.wf w d) (net.idOf u) hm
  have hK : net.K w d h' = k - 1 := by unfold Net.K; rw [hget]; omega
  rcases lb w d h' (k - 1) hK (by omega) (by omega) with ⟨hh, hd, hz⟩ | ⟨x, v, hax, hh, hv, hdv, hr⟩
  · refine Or.inr ⟨w, w, ha, rfl, hwl, hd.symm, ?_⟩
    have : k = 1 := by omega
    rw [this]; exact NBReach.one ha
  · refine Or.inr ⟨w, v, ha, rfl, hv, hdv, ?_⟩
    have hxu : x ≠ u := by
      intro e; subst e; exact hne' hh
    have : k = (k - 1) + 1 := by omega
    rw [this]; exact NBReach.step ha hr hxu

/-- upper bound of a freshly installed cost -/
theorem new_ub {g : Graph} {net : Net} (ok : NetOK g net) {t : Nat}
    (ub : ∀ u w d, g.adj u w → UBent g net t u w d) {u w : Nat} (ha : g.adj u w) (d k v : Nat)
    (hkt : k ≤ t + 1) (hfin : k < inf) (hvl : v < net.length) (hdv : net.idOf v = d)
    (hr : NBReach g k u w v) :
    capInf (minExcl (net.costs w d) (net.idOf u) + 1) ≤ k := by
  obtain ⟨hul, hwl, hne⟩ := ok.adjValid u w ha
  have hcap : ∀ m, m + 1 ≤ k → capInf (m + 1) ≤ k := by
    intro m hm
    rw [capInf_of_lt (by omega)]; exact hm
  cases hr with
  | one _ =>
    -- v = w, k = 1: the neighbour's own entry has cost 0
    have h0 := ok.self w hwl
    have hidne : net.idOf w ≠ net.idOf u := fun e => hne (ok.idInj u w hul hwl e.symm)
    have := minExcl_le_cget (net.costs w d) (net.idOf u) (net.idOf w) hidne
    rw [← hdv] at this ⊢
    unfold Net.K at h0
    exact hcap _ (by omega)
  | step hadj hr' hxu =>
    rename_i k' x
    have hax := hr'.adj
    have hxl := (ok.adjValid w x hax).2.1
    have hidne : net.idOf x ≠ net.idOf u := fun e => hxu (ok.idInj x u hxl hul e)
    have hK := ub w x d hax k' v (by omega) (by omega) hvl hdv hr'
    have := minExcl_le_cget (net.costs w d) (net.idOf u) (net.idOf x) hidne
    unfold Net.K at hK
    exact hcap _ (by omega)

/-! ### one fair round -/

/-- the invariant while a round is being processed: level `t` everywhere, level `t+1` on the links
    already exchanged in this round -/
structure RoundInv (g : Graph) (net : Net) (t : Nat) (S : List Exchange) : Prop where
  ok : NetOK g net
  lb : ∀ u d h, LBent g net t u d h
  ub : ∀ u w d, g.adj u w → UBent g net t u w d
  lbS : ∀ e ∈ S, ∀ d, LBent g net (t + 1) e.1 d (net.idOf e.2)
  ubS : ∀ e ∈ S, ∀ d, g.adj e.1 e.2 → UBent g net (t + 1) e.1 e.2 d

theorem lbent_mono {g : Graph} {net : Net} {t t' u d h : Nat} (hle : t' ≤ t) (l : LBent g net t u d h) :
    LBent g net t' u d h := fun k hk hf hlt => l k hk hf (by omega)

theorem ubent_mono {g : Graph} {net : Net} {t t' u w d : Nat} (hle : t' ≤ t) (l : UBent g net t u w d) :
    UBent g net t' u w d := fun k v hk hf hv hd hr => l k v (by omega) hf hv hd hr

theorem round_step {g : Graph} {net net' : Net} {t : Nat} {S : List Exchange} {u w face : Nat} {fl : Bool}
    (inv : RoundInv g net t S) (ha : g.adj u w) (hf : net.fetch u w face = some (net', fl)) :
    RoundInv g net' t ((u, w) :: S) := by
  obtain ⟨wf', hl, hid, hul, hwl, hK⟩ := fetch_sem inv.ok.wf hf
  have ok' := ok_fetch inv.ok ha hf
  -- the freshly installed entries satisfy level t+1
  have newLB : ∀ d, LBent g net' (t + 1) u d (net.idOf w) := by
    intro d k hk hfin hlt
    rw [hK, if_pos ⟨rfl, rfl⟩] at hk
    exact wit_congr hl hid (new_lb inv.ok inv.lb ha d k hk hfin hlt)
  have newUB : ∀ d, UBent g net' (t + 1) u w d := by
    intro d k v hkt hfin hvl hdv hr
    rw [hid, hK, if_pos ⟨rfl, rfl⟩]
    rw [hl] at hvl; rw [hid] at hdv
    exact new_ub inv.ok inv.ub ha d k v hkt hfin hvl hdv hr
  -- transfer of an unchanged entry
  have oldLB : ∀ {tt x d h}, ¬ (x = u ∧ h = net.idOf w) → LBent g net tt x d h → LBent g net' tt x d h := by
    intro tt x d h hc l k hk hfin hlt
    rw [hK, if_neg hc] at hk
    exact wit_congr hl hid (l k hk hfin hlt)
  have oldUB : ∀ {tt x y d}, ¬ (x = u ∧ net.idOf y = net.idOf w) → UBent g net tt x y d → UBent g net' tt x y d := by
    intro tt x y d hc l k v hkt hfin hvl hdv hr
    rw [hid, hK, if_neg hc]
    rw [hl] at hvl; rw [hid] at hdv
    exact l k v hkt hfin hvl hdv hr
  constructor
  · exact ok'
  · intro x d h
    by_cases hc : x = u ∧ h = net.idOf w
    · rw [hc.1, hc.2]; exact lbent_mono (by omega) (newLB d)
    · exact oldLB hc (inv.lb x d h)
  · intro x y d hxy
    by_cases hc : x = u ∧ net.idOf y = net.idOf w
    · have hyl := (inv.ok.adjValid x y hxy).2.1
      have : y = w := inv.ok.idInj y w hyl hwl hc.2
      rw [hc.1, this]; exact ubent_mono (by omega) (newUB d)
    · exact oldUB hc (inv.ub x y d hxy)
  · intro e he d
    rw [hid]
    by_cases hc : e.1 = u ∧ net.idOf e.2 = net.idOf w
    · rw [hc.1, hc.2]; exact newLB d
    · rcases List.mem_cons.1 he with rfl | he
      · exact absurd ⟨rfl, rfl⟩ hc
      · exact oldLB hc (inv.lbS e he d)
  · intro e he d hadj
    by_cases hc : e.1 = u ∧ net.idOf e.2 = net.idOf w
    · have hyl := (inv.ok.adjValid e.1 e.2 hadj).2.1
      have : e.2 = w := inv.ok.idInj e.2 w hyl hwl hc.2
      rw [hc.1, this]; exact newUB d
    · rcases List.mem_cons.1 he with rfl | he
      · exact absurd ⟨rfl, rfl⟩ hc
      · exact oldUB hc (inv.ubS e he d hadj)

theorem round_run {g : Graph} {t : Nat} (r : List Exchange) : ∀ {net : Net} {S : List Exchange},
    RoundInv g net t S → Along g r → RoundInv g (net.run r) t (r.reverse ++ S) := by
  induction r with
  | nil => intro net S inv _; exact inv
  | cons e r ih =>
    intro net S inv hal
    obtain ⟨u, w⟩ := e
    have ha : g.adj u w := hal (u, w) (List.mem_cons_self ..)
    obtain ⟨hul, hwl, _⟩ := inv.ok.adjValid u w ha
    obtain ⟨net', fl, hf⟩ := fetch_some hul hwl (w + 1)
    have inv' := round_step inv ha hf
    have := ih inv' (fun x hx => hal x (List.mem_cons_of_mem _ hx))
    simp only [Net.run, hf, List.reverse_cons, List.append_assoc, List.singleton_append]
    exact this

/-- at the end of a fair round every entry has reached the next level -/
theorem round_end {g : Graph} {net : Net} {t : Nat} {S : List Exchange} (inv : RoundInv g net t S)
    (hcov : ∀ u w, g.adj u w → (u, w) ∈ S) : RoundInv g net (t + 1) [] := by
  constructor
  · exact inv.ok
  · intro u d h k hk hfin hlt
    have hK : net.K u d h < inf := by omega
    rcases inv.ok.loc u d h hK with ⟨hh, hd⟩ | ⟨w, ha, hh⟩
    · have hul : u < net.length := by
        by_cases hul : u < net.length
        · exact hul
        · exfalso
          have : net.K u d h = inf := by
            unfold Net.K Net.costs
            rw [List.getElem?_eq_none (by omega)]; rfl
          omega
      refine Or.inl ⟨hh, hd, ?_⟩
      rw [← hk, hh, hd]; exact inv.ok.self u hul
    · have := inv.lbS (u, w) (hcov u w ha) d
      rw [hh]; rw [hh] at hk
      exact this k hk hfin hlt
  · intro u w d ha
    exact inv.ubS (u, w) (hcov u w ha) d ha
  · intro e he; cases he
  · intro e he; cases he

theorem run_append (net : Net) (a b : List Exchange) : net.run (a ++ b) = (net.run a).run b := by
  induction a generalizing net with
  | nil => rfl
  | cons e a ih =>
    obtain ⟨u, w⟩ := e
    simp only [List.cons_append, Net.run]
    cases net.fetch u w (w + 1) with
    | none => exact ih net
    | some p => exact ih p.1

theorem rounds_run {g : Graph} (rounds : List (List Exchange)) : ∀ {net : Net} {t : Nat},
    RoundInv g net t [] → (∀ r ∈ rounds, Along g r) → (∀ r ∈ rounds, Covers g r) →
    RoundInv g (net.run rounds.flatten) (t + rounds.length) [] := by
  induction rounds with
  | nil => intro net t inv _ _; exact inv
  | cons r rs ih =>
    intro net t inv hal hcov
    have h1 := round_run r inv (hal r (List.mem_cons_self ..))
    have h2 := round_end h1 (fun u w ha => by
      have := hcov r (List.mem_cons_self ..) u w ha
      simp only [List.append_nil, List.mem_reverse]; exact this)
    have h3 := ih h2 (fun x hx => hal x (List.mem_cons_of_mem _ hx)) (fun x hx => hcov x (List.mem_cons_of_mem _ hx))
    simp only [List.flatten_cons, run_append, List.length_cons]
    have : t + (rs.length + 1) = t + 1 + rs.length := by omega
    rw [this]; exact h3

theorem roundInv_zero {g : Graph} {net : Net} (ok : NetOK g net) : RoundInv g net 0 [] := by
  constructor
  · exact ok
  · intro u d h k _ _ hlt; omega
  · intro u w d _ k v hk _ _ _ hr
    have := hr.pos; omega
  · intro e he; cases he
  · intro e he; cases he

/-- once the level has reached infinity, every cost equals its split-horizon value -/
theorem sh_of_level {g : Graph} {net : Net} {t : Nat} (inv : RoundInv g net t []) (ht : inf ≤ t) : SH g net := by
  intro u w ha d
  have ok := inv.ok
  obtain ⟨hul, hwl, hne⟩ := ok.adjValid u w ha
  have hKle := K_le_inf ok.wf u d (net.idOf w)
  have hmle := minExcl_le_inf (net.costs w d) (net.idOf u)
  apply Nat.le_antisymm
  · -- K ≤ capInf (m + 1)
    by_cases hm : minExcl (net.costs w d) (net.idOf u) + 1 < inf
    · rw [capInf_of_lt hm]
      obtain ⟨h', hne', hget⟩ := minExcl_attained_cget (costs_nodup ok.wf w d) (net.idOf u) (by omega)
      have hK : net.K w d h' = minExcl (net.costs w d) (net.idOf u) := by unfold Net.K; exact hget
      rcases inv.lb w d h' _ hK (by omega) (by omega) with ⟨hh, hd, hz⟩ | ⟨x, v, hax, hh, hv, hdv, hr⟩
      · have := inv.ub u w d ha 1 w (by omega) (by omega) hwl hd.symm (NBReach.one ha)
        omega
      · have hxu : x ≠ u := by
          intro e; subst e; exact hne' hh
        have := inv.ub u w d ha _ v (by omega) hm hv hdv (NBReach.step ha hr hxu)
        exact this
    · have : capInf (minExcl (net.costs w d) (net.idOf u) + 1) = inf := by
        unfold capInf; simp [hm]
      rw [this]; exact hKle
  · -- capInf (m + 1) ≤ K
    by_cases hK : net.K u d (net.idOf w) < inf
    · rcases inv.lb u d (net.idOf w) _ rfl hK (by omega) with ⟨hh, _, _⟩ | ⟨w', v, ha', hh, hv, hdv, hr⟩
      · exact absurd (ok.idInj u w hul hwl hh.symm) hne
      · have hwl' := (ok.adjValid u w' ha').2.1
        have : w' = w := ok.idInj w' w hwl' hwl hh.symm
        subst this
        exact new_ub ok (t := t) inv.ub ha d _ v (by omega) hK hv hdv hr
    · have : capInf (minExcl (net.costs w d) (net.idOf u) + 1) ≤ inf := by
        unfold capInf; split <;> omega
      omega

theorem fp_of_sh {g : Graph} {net : Net} (ok : NetOK g net) (sh : SH g net) : IsFixedPoint g net := by
  intro u w ha face net' fl hf d h
  have hK := (fetch_sem ok.wf hf).2.2.2.2.2 u d h
  rw [hK]
  by_cases hc : u = u ∧ h = net.idOf w
  · rw [if_pos hc, hc.2]; exact (sh u w ha d).symm
  · rw [if_neg hc]

/-- convergence: 16 fair rounds from any state that fits the topology -/
theorem converges {g : Graph} {net : Net} (ok : NetOK g net)
    (rounds : List (List Exchange)) (hal : ∀ r ∈ rounds, Along g r) (hcov : ∀ r ∈ rounds, Covers g r)
    (hn : 16 ≤ rounds.length) :
    NetOK g (net.run rounds.flatten) ∧ IsFixedPoint g (net.run rounds.flatten) := by
  have inv := rounds_run rounds (roundInv_zero ok) hal hcov
  have hinf : inf ≤ 0 + rounds.length := by
    have : inf = 16 := rfl
    omega
  exact ⟨inv.ok, fp_of_sh inv.ok (sh_of_level inv hinf)⟩

/-! ### the freshly started network fits every topology over its routers -/

theorem start_getElem? (ids : List Nat) (u : Nat) :
    (ids.map Router.start)[u]? = (ids[u]?).map Router.start := by
  simp

theorem start_K (ids : List Nat) (u d h : Nat) :
    Net.K (ids.map Router.start) u d h =
      match ids[u]? with
      | some id => if d = id ∧ h = id then 0 else inf
      | none => inf := by
  unfold Net.K Net.costs
  rw [start_getElem?]
  cases hu : ids[u]? with
  | none => rfl
  | some id => exact (start_wf_cst id).2 d h

theorem start_idOf (ids : List Nat) (u : Nat) : Net.idOf (ids.map Router.start) u = (ids[u]?).getD 0 := by
  unfold Net.idOf
  rw [start_getElem?]
  cases ids[u]? <;> rfl

theorem start_ok (g : Graph) (ids : List Nat) (nd : ids.Nodup)
    (hadj : ∀ u w, g.adj u w → u < ids.length ∧ w < ids.length ∧ u ≠ w) :
    NetOK g (ids.map Router.start) := by
  constructor
  · intro r hr
    obtain ⟨id, _, rfl⟩ := List.mem_map.1 hr
    exact (start_wf_cst id).1
  · intro u w ha; simpa using hadj u w ha
  · intro u v hu hv he
    simp only [List.length_map] at hu hv
    rw [start_idOf, start_idOf, List.getElem?_eq_getElem hu, List.getElem?_eq_getElem hv] at he
    simp only [Option.getD_some] at he
    exact (List.getElem_inj nd).mp he
  · intro u hu
    simp only [List.length_map] at hu
    rw [start_K, start_idOf, List.getElem?_eq_getElem hu]
    simp
  · intro u d h hlt
    rw [start_K] at hlt
    rw [start_idOf]
    cases hu : ids[u]? with
    | none => simp [hu] at hlt
    | some id =>
      simp only [hu] at hlt
      by_cases hc : d = id ∧ h = id
      · exact Or.inl ⟨by simp [hc.2], by simp [hc.1]⟩
      · simp [hc] at hlt

end Ndn.C18
