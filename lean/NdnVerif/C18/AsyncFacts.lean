/-
  C18 — the structure the task-level model `Async.lean` assumes of the router's methods, to be compared with what
  `harness/cmd/dvgen` extracts from dv/dv/*.go on every run (`Gen/C18Async.lean`):
    * which methods run under `dv.mutex` (a step of the model = one such method running to completion),
    * which goroutines each of them spawns and which router methods a spawned goroutine calls (the pending tasks
      of the model: `change` spawns {fibUpdate, advertSyncNotifyNew}, `runNotify` spawns advertSyncSendInterest,
      `deliverSync` spawns advertDataFetch, the Express callback of advertDataFetch spawns a goroutine that either
      retries advertDataFetch or calls advertDataHandler, `deliverData` spawns ribUpdate),
    * that advertSyncNotifyNew is where `advertSyncSeq` is incremented, and that the spawned sender reads it later
      (advertSyncSendInterest does not take the mutex).
-/
import NdnVerif.Gen.C18Async
namespace Ndn.C18.Async
open Ndn.Gen.C18Async

def expectedFacts : List Fn := [
  { name := "ribUpdate", locks := true, calls := [], spawns := [["advertSyncNotifyNew", "fibUpdate", "prefixDataFetchAll"]], incs := [] },
  { name := "checkDeadNeighbors", locks := true, calls := [], spawns := [["advertSyncNotifyNew", "fibUpdate"]], incs := [] },
  { name := "fibUpdate", locks := true, calls := [], spawns := [], incs := [] },
  { name := "advertSyncNotifyNew", locks := true, calls := [], spawns := [["advertSyncSendInterest"]], incs := ["advertSyncSeq"] },
  { name := "advertSyncSendInterest", locks := false, calls := ["advertSyncSendInterestImpl"], spawns := [], incs := [] },
  { name := "advertSyncOnInterest", locks := true, calls := [], spawns := [["advertDataFetch"], ["fibUpdate"]], incs := [] },
  { name := "advertDataFetch", locks := false, calls := [], spawns := [["advertDataFetch", "advertDataHandler"]], incs := [] },
  { name := "advertDataOnInterest", locks := true, calls := [], spawns := [], incs := [] },
  { name := "advertDataHandler", locks := true, calls := [], spawns := [["ribUpdate"]], incs := [] }
]

end Ndn.C18.Async
