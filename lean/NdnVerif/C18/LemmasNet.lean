/-
  C18 helper lemmas, part 3: networks.  The exchange `fetch u w` in terms of the abstract cost
  function: it replaces the costs of u via w by the split-horizon value
      K' u d (id w) = capInf (1 + min over the next hops h ≠ id u of K w d h)
  and leaves everything else alone; `dead u w` resets them to infinity.  Core Lean only.
-/
import NdnVerif.C18.LemmasRib
namespace Ndn.C18

/-! ### the advertisement of a well-formed RIB -/

theorem capInf_succ_inf : capInf (inf + 1) = inf := by
  unfold capInf; simp

theorem advFold_no_match (self d m0 : Nat) (es : List Entry) (hne : ∀ e ∈ es, e.dest ≠ d) :
    advNewFrom self m0 (es.map fun e => { dest := e.dest, nh := e.best.nh1, cost := e.best.low1, other := e.best.low2 }) d = m0 := by
  induction es generalizing m0 with
  | nil => rfl
  | cons e t ih =>
    simp only [advNewFrom, List.map_cons, List.foldl_cons]
    have : ¬ e.dest = d := hne e (List.mem_cons_self ..)
    simp only [this, false_and, if_false]
    exact ih m0 (fun x hx => hne x (List.mem_cons_of_mem _ hx))

theorem advNew_advertL (self d : Nat) {es : List Entry} (p : Post es) :
    advNewFrom self inf (es.map fun e => { dest := e.dest, nh := e.best.nh1, cost := e.best.low1, other := e.best.low2 }) d =
      capInf (minExcl (costsL es d) self + 1) := by
  induction es with
  | nil => simp [advNewFrom, costsL, findE, minExcl, capInf_succ_inf]
  | cons e t ih =>
    have pt : Post t := ⟨(List.nodup_cons.1 p.nd).2, fun x hx => p.ok x (List.mem_cons_of_mem _ hx),
      fun x hx => p.fresh x (List.mem_cons_of_mem _ hx), fun x hx => p.finite x (List.mem_cons_of_mem _ hx)⟩
    by_cases he : e.dest = d
    · have hne : ∀ x ∈ t, x.dest ≠ d := by
        intro x hx e'
        exact (List.nodup_cons.1 p.nd).1 (List.mem_map.2 ⟨x, hx, e'.trans he.symm⟩)
      have hfold := advFold_no_match self d
      simp only [advNewFrom] at hfold ⊢
      simp only [List.map_cons, List.foldl_cons, he, true_and, costsL, findE, if_true]
      rw [hfold _ t hne]
      have t2 := refreshOf_top2 e.costs (p.ok e (List.mem_cons_self ..)).nd
      have hb := p.fresh e (List.mem_cons_self ..)
      have sh := advCost_splitHorizon t2 self e.dest
      rw [← hb] at sh
      rw [← sh, he]
      unfold capInf
      split <;> rfl
    · have := ih pt
      simp only [advNewFrom] at this ⊢
      simp only [List.map_cons, List.foldl_cons, he, false_and, if_false, costsL, findE]
      exact this

theorem advNew_advert (self d : Nat) {r : Rib} (wf : r.WF) :
    advNewFrom self inf r.advert d = capInf (minExcl (r.costsOf d) self + 1) :=
  advNew_advertL self d wf

/-! ### minExcl through the cost function -/

theorem costsL_nodup {es : List Entry} (p : Post es) (d : Nat) : ((costsL es d).map (·.1)).Nodup := by
  unfold costsL
  cases h : findE es d with
  | none => simp
  | some e => exact (p.ok e (findE_mem h).1).nd

theorem costsL_le {es : List Entry} (p : Post es) (d : Nat) : ∀ h k, (h, k) ∈ costsL es d → k ≤ inf := by
  unfold costsL
  cases h : findE es d with
  | none => intro _ _ hm; cases hm
  | some e => exact (p.ok e (findE_mem h).1).le

theorem cget_le_inf {c : Costs} (le : ∀ h k, (h, k) ∈ c → k ≤ inf) (h : Nat) : cget c h ≤ inf := by
  unfold cget
  cases hg : aget c h with
  | none => exact Nat.le_refl _
  | some k => exact le h k (mem_of_aget hg)

theorem minExcl_le_cget (c : Costs) (u h : Nat) (hne : h ≠ u) :
    minExcl c u ≤ cget c h := by
  unfold cget
  cases hg : aget c h with
  | none => exact minExcl_le_inf c u
  | some k => exact minExcl_le c u (mem_of_aget hg) hne

theorem minExcl_attained_cget {c : Costs} (nd : (c.map (·.1)).Nodup) (u : Nat) (hlt : minExcl c u < inf) :
    ∃ h, h ≠ u ∧ cget c h = minExcl c u := by
  obtain ⟨h, hm, hne⟩ := minExcl_attained c u hlt
  exact ⟨h, hne, by unfold cget; rw [aget_of_mem nd hm]; rfl⟩

/-! ### networks -/

/-- cost map of router `u` (index) for destination `d` (key) -/
def Net.costs (net : Net) (u d : Nat) : Costs :=
  match net[u]? with
  | some r => r.rib.costsOf d
  | none => []

/-- cost at router `u` (index) to destination `d` (key) via next hop `h` (key); infinity if none -/
def Net.K (net : Net) (u d h : Nat) : Nat := cget (net.costs u d) h

/-- key of the router at index `u` -/
def Net.idOf (net : Net) (u : Nat) : Nat :=
  match net[u]? with
  | some r => r.id
  | none => 0

def Net.AllWF (net : Net) : Prop := ∀ r ∈ net, r.rib.WF

theorem setAt_getElem? (net : Net) (u : Nat) (r : Router) (x : Nat) :
    (net.setAt u r)[x]? = if x = u ∧ u < net.length then some r else net[x]? := by
  induction net generalizing u x with
  | nil => simp [Net.setAt]
  | cons a t ih =>
    cases u with
    | zero =>
      cases x with
      | zero => simp [Net.setAt]
      | succ x => simp [Net.setAt]
    | succ u =>
      cases x with
      | zero => simp [Net.setAt]
      | succ x =>
        simp only [Net.setAt, List.getElem?_cons_succ, ih, List.length_cons]
        by_cases h : x = u <;> simp [h]

theorem setAt_length (net : Net) (u : Nat) (r : Router) : (net.setAt u r).length = net.length := by
  induction net generalizing u with
  | nil => rfl
  | cons a t ih => cases u <;> simp [Net.setAt, ih]

theorem mem_setAt {net : Net} {u : Nat} {r x : Router} (h : x ∈ net.setAt u r) : x = r ∨ x ∈ net := by
  induction net generalizing u with
  | nil => simp [Net.setAt] at h
  | cons a t ih =>
    cases u with
    | zero =>
      simp only [Net.setAt, List.mem_cons] at h
      rcases h with h | h
      · exact Or.inl h
      · exact Or.inr (List.mem_cons_of_mem _ h)
    | succ u =>
      simp only [Net.setAt, List.mem_cons] at h
      rcases h with h | h
      · exact Or.inr (by rw [h]; exact List.mem_cons_self ..)
      · rcases ih h with h | h
        · exact Or.inl h
        · exact Or.inr (List.mem_cons_of_mem _ h)

theorem K_le_inf {net : Net} (wf : net.AllWF) (u d h : Nat) : net.K u d h ≤ inf := by
  unfold Net.K Net.costs
  cases hu : net[u]? with
  | none => exact Nat.le_refl _
  | some r => exact cget_le_inf (costsL_le (wf r (List.mem_of_getElem? hu)) d) h

/-- what `fetch u w` does, in terms of the cost function -/
theorem fetch_sem {net net' : Net} {u w face : Nat} {fl : Bool} (wf : net.AllWF)
    (hf : net.fetch u w face = some (net', fl)) :
    net'.AllWF ∧ net'.length = net.length ∧ (∀ x, net'.idOf x = net.idOf x) ∧
    u < net.length ∧ w < net.length ∧
    ∀ x d h, net'.K x d h =
      if x = u ∧ h = net.idOf w then capInf (minExcl (net.costs w d) (net.idOf u) + 1) else net.K x d h := by
  unfold Net.fetch Net.get? at hf
  cases hu : net[u]? with
  | none => simp [hu] at hf
  | some ru =>
    cases hw : net[w]? with
    | none => simp [hu, hw] at hf
    | some rw =>
      simp only [hu, hw, Option.some.injEq, Prod.mk.injEq] at hf
      obtain ⟨hnet, _⟩ := hf
      have hul : u < net.length := (List.getElem?_eq_some_iff.1 hu).1
      have hwl : w < net.length := (List.getElem?_eq_some_iff.1 hw).1
      have wfu := wf ru (List.mem_of_getElem? hu)
      have wfw := wf rw (List.mem_of_getElem? hw)
      obtain ⟨wf', hc⟩ := ribUpdate_wf_cst ru.id wfu rw.id rw.rib.advert
      subst hnet
      refine ⟨?_, setAt_length .., ?_, hul, hwl, ?_⟩
      · intro r hr
        rcases mem_setAt hr with rfl | hr
        · exact wf'
        · exact wf r hr
      · intro x
        simp only [Net.idOf, setAt_getElem?]
        by_cases hx : x = u
        · subst hx; rw [if_pos ⟨rfl, hul⟩, hu]
        · rw [if_neg (fun h => hx h.1)]
      · intro x d h
        simp only [Net.K, Net.costs, Net.idOf, setAt_getElem?, hw, hu]
        by_cases hx : x = u
        · subst hx
          simp only [true_and, hul, if_true, hu]
          have := hc d h
          simp only [Rib.cst, cstL, Rib.costsOf] at this ⊢
          rw [this, advNew_advert ru.id d wfw]
          rfl
        · simp [hx]

/-- what `dead u w` does, in terms of the cost function -/
theorem dead_sem {net net' : Net} {u w : Nat} {fl : Bool} (wf : net.AllWF)
    (hf : net.dead u w = some (net', fl)) :
    net'.AllWF ∧ net'.length = net.length ∧ (∀ x, net'.idOf x = net.idOf x) ∧
    ∀ x d h, net'.K x d h = if x = u ∧ h = net.idOf w then inf else net.K x d h := by
  unfold Net.dead Net.get? at hf
  cases hu : net[u]? with
  | none => simp [hu] at hf
  | some ru =>
    cases hw : net[w]? with
    | none => simp [hu, hw] at hf
    | some rw =>
      simp only [hu, hw] at hf
      cases hn : aget ru.nbrs rw.id with
      | none => simp [hn] at hf
      | some f =>
        simp only [hn, Option.some.injEq, Prod.mk.injEq] at hf
        obtain ⟨hnet, _⟩ := hf
        have hul : u < net.length := (List.getElem?_eq_some_iff.1 hu).1
        have wfu := wf ru (List.mem_of_getElem? hu)
        obtain ⟨wf', hc⟩ := ribDead_wf_cst wfu rw.id
        subst hnet
        refine ⟨?_, setAt_length .., ?_, ?_⟩
        · intro r hr
          rcases mem_setAt hr with rfl | hr
          · exact wf'
          · exact wf r hr
        · intro x
          simp only [Net.idOf, setAt_getElem?]
          by_cases hx : x = u
          · subst hx; rw [if_pos ⟨rfl, hul⟩, hu]
          · rw [if_neg (fun h => hx h.1)]
        · intro x d h
          simp only [Net.K, Net.costs, Net.idOf, setAt_getElem?, hw, hu]
          by_cases hx : x = u
          · subst hx
            simp only [true_and, hul, if_true, hu]
            have := hc d h
            simp only [Rib.cst, cstL, Rib.costsOf] at this ⊢
            exact this
          · simp [hx]

end Ndn.C18
