/-
  C18 — property theorems only (helper lemmas live in Lemmas*.lean).
-/
import NdnVerif.C18.Model
namespace Ndn.C18

/-- the regenerated constant is the protocol's infinity metric -/
theorem costInfinity_is_sixteen : inf = 16 := rfl

end Ndn.C18
