/-
  C18 — property theorems only (helper lemmas live in Lemmas*.lean, definitions in Theory.lean).

  Clauses of the property and the theorem that covers each:
    * ties are broken the same way every time, for every map iteration order
        -> refresh_order_independent, refresh_is_lexicographic_top2
    * no advertisement ever lists a destination whose best cost is at or above infinity
        -> advert_never_infinite   (invariant over every history of exchanges and dead-neighbour events)
    * fixed point: cost = hop distance (< 16), next hop on a shortest path, deterministic tie-break,
      unreachable destinations withdrawn
        -> fixed_point_is_shortest_path, fixed_point_unreachable_withdrawn
    * reached within a bounded number of exchanges from ANY state (hence after any loss sequence)
        -> converges_within_rounds
    * after any link or router loss the tables re-converge to the shortest paths of the remaining topology
        -> reconverges_after_loss (dead-neighbour checks make the state fit what is left), links_can_be_added
-/
import NdnVerif.C18.LemmasSP
import NdnVerif.C18.Spec
import NdnVerif.C18.LemmasConv
import NdnVerif.C18.LemmasLoss
import NdnVerif.C18.LemmasAsync
import NdnVerif.C18.AsyncFacts
import NdnVerif.C18.LemmasSynced
import NdnVerif.C18.AsyncStar
namespace Ndn.C18

/-- the regenerated constant is the protocol's infinity metric -/
theorem costInfinity_is_sixteen : inf = 16 := rfl

/-- Every configuration `Config.Parse` accepts keeps a neighbour that is heard once per advertise interval
    alive: the time since its last heartbeat never exceeds the dead interval (so the deadcheck sweep on
    stable links removes nobody — the assumption under which exchanges on a stable topology are the only
    events, as in `converges_within_rounds`). -/
theorem accepted_config_keeps_live_neighbours (advMs deadMs : Nat) (h : configValid advMs deadMs = true) :
    Spec.deadIntervalOk advMs deadMs = true ∧ ∀ since, since ≤ advMs → ¬ since > deadMs := by
  simp only [configValid, Bool.and_eq_true, decide_eq_true_eq] at h
  refine ⟨by simp only [Spec.deadIntervalOk, decide_eq_true_eq]; omega, fun since hs => by omega⟩

example : configValid 5000 30000 = true ∧ configValid 5000 9999 = false ∧ configValid 999 30000 = false := by decide

/-! ### deterministic selection -/

/-- `RibEntry.refresh` gives the same lowest / second-lowest costs and next hops for EVERY iteration
    order of the cost map (Go map iteration is random). -/
theorem refresh_order_independent (c c' : Costs) (p : c.Perm c') (nd : (c.map (·.1)).Nodup) :
    refreshOf c = refreshOf c' :=
  refreshOf_perm p nd

example : refreshOf [(7, 3), (5, 3), (9, 2)] = refreshOf [(9, 2), (5, 3), (7, 3)] := by decide

/-- ... and that result is the lexicographic minimum and second minimum of the finite (cost, hop)
    pairs: equal costs are always resolved towards the smaller hop key. -/
theorem refresh_is_lexicographic_top2 (c : Costs) (nd : (c.map (·.1)).Nodup) :
    let b := refreshOf c
    (∀ h k, (h, k) ∈ c → k < inf → lexLe b.low1 b.nh1 k h) ∧
    (∀ h k, (h, k) ∈ c → k < inf → (h = b.nh1 ∧ k = b.low1) ∨ lexLe b.low2 b.nh2 k h) ∧
    (b.low1 < inf → (b.nh1, b.low1) ∈ c) ∧
    (b.low2 < inf → (b.nh2, b.low2) ∈ c ∧ b.nh2 ≠ b.nh1) ∧
    b.low1 ≤ inf ∧ b.low2 ≤ inf := by
  have t := refreshOf_top2 c nd
  exact ⟨t.min1, t.min2, t.mem1, t.mem2, t.le1, t.le2⟩

example : refreshOf [(7, 3), (5, 3), (9, 4)] = { low1 := 3, nh1 := 5, low2 := 3, nh2 := 7 } := by decide

/-! ### advertisements never carry infinity -/

/-- an event of a network history -/
inductive Event where
  | fetch (u w face : Nat)
  | dead (u w : Nat)

def Net.step (net : Net) : Event → Net
  | .fetch u w face => match net.fetch u w face with
    | some (net', _) => net'
    | none => net
  | .dead u w => match net.dead u w with
    | some (net', _) => net'
    | none => net

def Net.exec (net : Net) (evs : List Event) : Net := evs.foldl Net.step net

/-- the network right after every router started (`Router.Start` adds the router to its own RIB) -/
def Net.start (ids : List Nat) : Net := ids.map Router.start

theorem start_allWF (ids : List Nat) : (Net.start ids).AllWF := by
  intro r hr
  obtain ⟨id, _, rfl⟩ := List.mem_map.1 hr
  exact (start_wf_cst id).1

theorem step_allWF {net : Net} (wf : net.AllWF) (ev : Event) : (net.step ev).AllWF := by
  cases ev with
  | fetch u w face =>
    simp only [Net.step]
    cases hf : net.fetch u w face with
    | none => exact wf
    | some p => exact (fetch_sem wf (show net.fetch u w face = some (p.1, p.2) from hf)).1
  | dead u w =>
    simp only [Net.step]
    cases hf : net.dead u w with
    | none => exact wf
    | some p => exact (dead_sem wf (show net.dead u w = some (p.1, p.2) from hf)).1

theorem exec_allWF {net : Net} (wf : net.AllWF) (evs : List Event) : (net.exec evs).AllWF := by
  induction evs generalizing net with
  | nil => exact wf
  | cons ev t ih => exact ih (step_allWF wf ev)

/-- For any set of routers, after ANY history of exchanges (any pairs, any order, any faces) and
    dead-neighbour events, no advertisement lists a destination whose best cost is at or above the
    infinity metric 16; every listed entry is the router's current best selection. -/
theorem advert_never_infinite (ids : List Nat) (evs : List Event) (u : Nat) :
    ∀ a ∈ ((Net.start ids).exec evs).advertOf u, a.cost < 16 := by
  intro a ha
  have := (advert_mem (exec_allWF (start_allWF ids) evs) ha).2.2
  exact this

example : ((Net.start [11, 22, 33]).exec [.fetch 0 1 2, .fetch 1 0 1, .fetch 2 1 2, .dead 1 0, .fetch 2 1 2]).advertOf 2
    = [⟨33, 33, 0, 16⟩, ⟨22, 22, 1, 16⟩] := by decide

/-! ### fixed points are the shortest paths -/

/-- In ANY network state that fits topology `g` (any graph, any number of routers) and is a fixed
    point of all exchanges along its links: for every pair at hop distance `k < 16`, the router's best
    cost is exactly `k`; if `k ≥ 1` its chosen next hop is a neighbour at distance `k-1` (so it lies on
    a shortest path), namely the one with the smallest key among all such neighbours (the tie-break
    depends on the topology only). -/
theorem fixed_point_is_shortest_path (g : Graph) (net : Net) (ok : NetOK g net) (fp : IsFixedPoint g net)
    (u v k : Nat) (hul : u < net.length) (hvl : v < net.length) (hd : IsDist g u v k) (hk : k < 16) :
    net.best u (net.idOf v) = k ∧
    (1 ≤ k → ∃ w, g.adj u w ∧ net.nextHop u (net.idOf v) = net.idOf w ∧ IsDist g w v (k - 1) ∧
      ∀ w', g.adj u w' → IsDist g w' v (k - 1) → net.idOf w ≤ net.idOf w') := by
  have sh := fp_sh ok fp
  have hk' : k < inf := hk
  obtain ⟨h0, hK0⟩ := upper ok sh k u v hd hk' hul hvl
  obtain ⟨hmin, _, hatt⟩ := best_spec ok.wf u (net.idOf v)
  have hb : net.best u (net.idOf v) = k := by
    have h1 := hmin h0
    have hlt : net.best u (net.idOf v) < inf := by omega
    obtain ⟨hnh, _⟩ := hatt hlt
    rcases ge_dist ok sh hd hvl (net.nextHop u (net.idOf v)) with h | h <;> omega
  refine ⟨hb, ?_⟩
  intro h1
  obtain ⟨hnh, htie⟩ := hatt (by omega)
  rw [hb] at hnh htie
  obtain ⟨v', hvl', hvd', hcase⟩ := lower ok sh k u (net.idOf v) _ hnh hk'
  have hv : v' = v := ok.idInj v' v hvl' hvl hvd'
  subst hv
  rcases hcase with ⟨_, _, hz⟩ | ⟨w, ha, hid, _, hr⟩
  · omega
  · have hkk : k = (k - 1) + 1 := by omega
    have hdw : IsDist g w v' (k - 1) := dist_step ha (hkk ▸ hd) hr
    refine ⟨w, ha, hid, hdw, ?_⟩
    intro w' ha' hdw'
    have hwl' := (ok.adjValid u w' ha').2.1
    have hex := upper ok sh (k - 1) w' v' hdw' (by omega) hwl' hvl
    have := via_neighbor ok sh ha' (hkk ▸ hd) hdw' hvl (by omega) hex
    rw [← hid]
    exact htie _ (by omega)

/-- ... and a destination that cannot be reached in `g` is not listed at all (withdrawn, not lingering). -/
theorem fixed_point_unreachable_withdrawn (g : Graph) (net : Net) (ok : NetOK g net) (fp : IsFixedPoint g net)
    (u v : Nat) (hvl : v < net.length) (hun : ∀ k, ¬ Reach g k u v) :
    ∀ a ∈ net.advertOf u, a.dest ≠ net.idOf v := by
  intro a ha hdest
  have sh := fp_sh ok fp
  obtain ⟨hc, _, hfin⟩ := advert_mem ok.wf ha
  obtain ⟨_, _, hatt⟩ := best_spec ok.wf u a.dest
  obtain ⟨hnh, _⟩ := hatt (by omega)
  obtain ⟨v', hvl', hvd', hr⟩ := lower_reach ok sh hnh (by omega)
  have : v' = v := ok.idInj v' v hvl' hvl (hvd'.trans hdest)
  subst this
  exact hun _ hr

/-! ### convergence from any state -/

/-- From ANY network state that fits topology `g` (in particular the state left behind by any
    sequence of link / router losses once the dead neighbours have been removed, or a freshly started
    network), EVERY schedule of exchanges along the links of `g` that consists of at least 16 fair
    rounds (each round contains every link at least once, in any order, with any repetitions) ends in
    a state that fits `g` and is a fixed point of all exchanges — hence, by
    `fixed_point_is_shortest_path`, costs are the hop distances, next hops lie on shortest paths, and
    unreachable destinations are withdrawn. 16 = the infinity metric; the bound does not depend on the
    number of routers. -/
theorem converges_within_rounds (g : Graph) (net : Net) (ok : NetOK g net)
    (rounds : List (List Exchange)) (hal : ∀ r ∈ rounds, Along g r) (hcov : ∀ r ∈ rounds, Covers g r)
    (hn : 16 ≤ rounds.length) :
    NetOK g (net.run rounds.flatten) ∧ IsFixedPoint g (net.run rounds.flatten) :=
  converges ok rounds hal hcov hn

/-! ### loss and re-addition of links / routers -/

/-- After ANY set of links is lost (a lost router = all its links), once every router that lost a
    neighbour has run its dead-neighbour check for it (in any order; `lost` may list the removed links
    several times), any 16 fair rounds over the REMAINING topology `g'` end in a state that fits `g'`
    and is a fixed point of it: by `fixed_point_is_shortest_path` / `fixed_point_unreachable_withdrawn`
    the costs are the hop distances of what is left and destinations that became unreachable are
    withdrawn.  `NbrCover` (a neighbour state exists for every next hop in use) is an invariant of all
    exchanges and dead checks, so losses, re-additions and convergence phases can be chained. -/
theorem reconverges_after_loss (g g' : Graph) (net : Net) (ok : NetOK g net) (cov : NbrCover net)
    (sub : ∀ u w, g'.adj u w → g.adj u w) (lost : List (Nat × Nat))
    (hl : ∀ e ∈ lost, g.adj e.1 e.2) (hlost : ∀ u w, g.adj u w → ¬ g'.adj u w → (u, w) ∈ lost)
    (rounds : List (List Exchange)) (hal : ∀ r ∈ rounds, Along g' r) (hcov : ∀ r ∈ rounds, Covers g' r)
    (hn : 16 ≤ rounds.length) :
    NetOK g' ((net.deads lost).run rounds.flatten) ∧ IsFixedPoint g' ((net.deads lost).run rounds.flatten) ∧
    NbrCover ((net.deads lost).run rounds.flatten) := by
  obtain ⟨ok', cov'⟩ := refit ok cov sub lost hl hlost
  have hc := converges ok' rounds hal hcov hn
  have hal' : Along g' rounds.flatten := by
    intro e he
    obtain ⟨r, hr, her⟩ := List.mem_flatten.1 he
    exact hal r hr e her
  exact ⟨hc.1, hc.2, (run_fit rounds.flatten ok' cov' hal').2⟩

/-- Links between existing routers can come (back) at any time: the state still fits the larger
    topology, so `converges_within_rounds` applies to it. -/
theorem links_can_be_added (g g2 : Graph) (net : Net) (ok : NetOK g net) (sub : ∀ u w, g.adj u w → g2.adj u w)
    (valid : ∀ u w, g2.adj u w → u < net.length ∧ w < net.length ∧ u ≠ w) : NetOK g2 net :=
  fit_mono ok sub valid

/-! ### non-vacuity: a concrete network meets every hypothesis above -/

/-- 4 routers: triangle 0-1-2 with tail 2-3 -/
def exRound : List Exchange := [(0, 1), (1, 0), (1, 2), (2, 1), (0, 2), (2, 0), (2, 3), (3, 2)]
def exGraph : Graph := { adj := fun u w => (u, w) ∈ exRound }
def exIds : List Nat := [40, 10, 30, 20]

theorem exGraph_valid : ∀ u w, exGraph.adj u w → u < exIds.length ∧ w < exIds.length ∧ u ≠ w := by
  intro u w h
  simp only [exGraph, exRound, List.mem_cons, Prod.mk.injEq, List.mem_nil_iff, or_false] at h
  rcases h with ⟨rfl, rfl⟩ | ⟨rfl, rfl⟩ | ⟨rfl, rfl⟩ | ⟨rfl, rfl⟩ | ⟨rfl, rfl⟩ | ⟨rfl, rfl⟩ | ⟨rfl, rfl⟩ | ⟨rfl, rfl⟩ <;> decide

/-- the freshly started network fits the topology (hypothesis of `converges_within_rounds`) ... -/
theorem exStart_ok : NetOK exGraph (Net.start exIds) :=
  start_ok exGraph exIds (by decide) exGraph_valid

/-- ... 16 fair rounds reach a state meeting the hypotheses of `fixed_point_is_shortest_path` -/
example : ∃ net, NetOK exGraph net ∧ IsFixedPoint exGraph net :=
  ⟨_, converges_within_rounds exGraph (Net.start exIds) exStart_ok (List.replicate 16 exRound)
    (fun r hr e he => by rw [List.eq_of_mem_replicate hr] at he; exact he)
    (fun r hr u w ha => by rw [List.eq_of_mem_replicate hr]; exact ha)
    (by simp)⟩

/-- the tail link 2-3 is lost: hypotheses of `reconverges_after_loss` for the converged example network -/
def exGraph' : Graph := { adj := fun u w => (u, w) ∈ [(0, 1), (1, 0), (1, 2), (2, 1), (0, 2), (2, 0)] }

example : ∃ net, NetOK exGraph net ∧ NbrCover net ∧ (∀ u w, exGraph'.adj u w → exGraph.adj u w) ∧
    (∀ e ∈ [(2, 3), (3, 2)], exGraph.adj e.1 e.2) ∧
    (∀ u w, exGraph.adj u w → ¬ exGraph'.adj u w → (u, w) ∈ [(2, 3), (3, 2)]) := by
  refine ⟨(Net.start exIds).run exRound, ?_, ?_, ?_, ?_, ?_⟩
  · exact (run_fit exRound exStart_ok (start_cover exIds) (fun e he => he)).1
  · exact (run_fit exRound exStart_ok (start_cover exIds) (fun e he => he)).2
  · intro u w h
    simp only [exGraph', List.mem_cons, Prod.mk.injEq, List.mem_nil_iff, or_false] at h
    simp only [exGraph, exRound, List.mem_cons, Prod.mk.injEq, List.mem_nil_iff, or_false]
    omega
  · intro e he
    simp only [List.mem_cons, List.mem_nil_iff, or_false] at he
    rcases he with rfl | rfl <;> simp [exGraph, exRound]
  · intro u w h hn
    simp only [exGraph, exRound, List.mem_cons, Prod.mk.injEq, List.mem_nil_iff, or_false] at h
    simp only [exGraph', List.mem_cons, Prod.mk.injEq, List.mem_nil_iff, or_false] at hn
    simp only [List.mem_cons, Prod.mk.injEq, List.mem_nil_iff, or_false]
    omega

/-- after the loss router 3 is alone: routers 0..2 withdraw it (16 rounds of counting to infinity) -/
example : let net := ((Net.start exIds).run (exRound ++ exRound ++ exRound)).deads [(2, 3), (3, 2)]
    let net' := net.run (List.replicate 16 [(0, 1), (1, 0), (1, 2), (2, 1), (0, 2), (2, 0)]).flatten
    (net'.advertOf 0).map (·.dest) = [40, 10, 30] ∧ (net'.advertOf 3).map (·.dest) = [20] := by decide

/-- router 3 (key 20) reaches router 0 (key 40) at cost 2 via router 2 (key 30); router 0 reaches
    router 2 directly although router 1 has the smaller key (cost decides before the key) -/
example : let net := (Net.start exIds).run (exRound ++ exRound ++ exRound)
    (net.best 3 40, net.nextHop 3 40, net.best 0 30, net.nextHop 0 30) = (2, 30, 1, 30) := by decide

/-! ### the machinery that decides WHEN advertisements travel, under every interleaving

  `Async.lean`: one directed link w → u as a transition system whose steps are the router functions that run
  under `dv.mutex` (advertSyncNotifyNew, advertSyncOnInterest, advertDataFetch's guard, advertDataOnInterest,
  advertDataHandler, ribUpdate(ns), fibUpdate, checkDeadNeighbors) and whose pending tasks are the goroutines
  they spawn.  The scheduler is arbitrary: any pending goroutine may run next, any packet in flight may be
  delivered, duplicated or lost, the RIB of w may change again at any moment.  These theorems replace the
  hypothesis "the schedule is fair" of `converges_within_rounds` by facts about the code that produces it. -/

/-- The task structure the model assumes is the one of the current source: which router methods take `dv.mutex`,
    which goroutines they spawn and what those call, where `advertSyncSeq` is incremented — re-extracted from
    dv/dv/*.go by `dvgen` (go/ast) on every run. A propagation pass that is no longer spawned per change, a
    handler that stops spawning the fetch or the update, a method that drops the mutex: this stops checking. -/
theorem async_model_matches_source_structure : Ndn.Gen.C18Async.facts = Async.expectedFacts := by decide

open Async in
/-- **Nothing is forgotten.**  For EVERY history of steps from start-up (any interleaving of goroutines, any
    loss, duplication, reordering, time-outs, dead sweeps): whenever nothing is pending — no spawned goroutine
    waits, no packet is in flight — and u has heard w's current sequence number, u's RIB was computed from w's
    CURRENT advertisement (not an older one), and w's FIB from w's current RIB.  A change of w's RIB that is
    never announced, an advertisement fetched too early and never re-fetched, a stale reply overwriting a newer
    one: each would falsify this. -/
theorem quiescent_link_is_synced (s0 : Nat) (h0 : 1 ≤ s0) (steps : List Step) :
    let st := run (init s0) steps
    Quiescent st → Heard st → st.applied = some st.ver ∧ st.fibVer = st.ver := by
  intro st q hd
  have := quiescent_heard (inv_run (inv_init s0 h0) steps) q hd
  exact ⟨this.1, this.2.1⟩

open Async in
/-- two RIB changes whose propagation goroutines interleave with a fetch that was answered between them -/
def Async.exBurst : St := run (init 5) [.change, .runFib, .change, .runNotify, .runSend, .deliverSync 0 false, .runFetch 0,
  .serve 0 true, .runFib, .deliverData 0 false, .runNotify, .runSend, .serve 0 false, .deliverData 0 false,
  .deliverSync 0 false, .runFetch 0, .serve 0 false, .runRib, .deliverData 0 false, .runRib, .runRib]

open Async in
example : Quiescent exBurst ∧ Heard exBurst ∧ exBurst.ver = 2 ∧ exBurst.applied = some 2 := by decide

open Async in
/-- **One heartbeat suffices.**  From ANY reachable state, once w has sent one more heartbeat (its periodic Sync
    Interest), then — as long as no Sync Interest is lost and u does not declare w dead afterwards; advertisement
    Interests and Data may still be lost, duplicated and time out, goroutines may interleave in any way, w's RIB
    may keep changing — every quiescent state that follows has u on w's current advertisement. -/
theorem synced_after_heartbeat (s0 : Nat) (h0 : 1 ≤ s0) (pre post : List Step)
    (nf : ∀ s ∈ post, s.fault = false) :
    let st := run (run (init s0) pre) (.heartbeat :: post)
    Quiescent st → Heard st ∧ st.applied = some st.ver ∧ st.fibVer = st.ver := by
  intro st q
  have hi : Inv (step (run (init s0) pre) .heartbeat) := inv_step (inv_run (inv_init s0 h0) pre) _
  have ha : Announced st := announced_run hi (announced_heartbeat _) post nf
  have hd := announced_quiescent ha q
  have := quiescent_heard (inv_run hi post) q hd
  exact ⟨hd, this.1, this.2.1⟩

open Async in
/-- the announcement of a change is lost; after the heartbeat the fetch times out once and its Data is lost once -/
def Async.exLossy : St := run (run (init 5) [.change, .runFib, .runNotify, .runSend, .dropSync 0])
  (.heartbeat :: [.deliverSync 0 false, .runFetch 0, .timeoutReq 0, .runFetch 0, .serve 0 false, .loseData 0,
    .runFetch 0, .serve 0 false, .deliverData 0 false, .runRib])

open Async in
example : Quiescent exLossy ∧ exLossy.applied = some 1 := by decide

open Async in
/-- **Pending work drains.**  Such a run takes at most `work st` steps (so bursts of changes cannot keep the link
    busy for ever), and as long as the state is not quiescent there is a step to take: left alone, the link
    always reaches a quiescent state. -/
theorem pending_work_drains (st : St) :
    (∀ steps, drains st steps = true → steps.length + work (run st steps) ≤ work st) ∧
    (¬ Quiescent st → ∃ s : Step, s.internal = true ∧ s.enabled st = true) := by
  refine ⟨?_, busy_has_step st⟩
  intro steps
  induction steps generalizing st with
  | nil => intro _; simp [run]
  | cons s t ih =>
    intro hd
    simp only [drains, Bool.and_eq_true] at hd
    obtain ⟨⟨hi, he⟩, ht⟩ := hd
    have := ih (step st s) ht
    have := work_decreases st s hi he
    simp only [run, List.foldl_cons, List.length_cons] at *
    omega

open Async in
example : drains (run (init 5) [.change, .change]) [.runFib, .runFib, .runNotify, .runNotify, .runSend, .runSend] = true ∧
    work (run (init 5) [.change, .change]) = 18 := by decide

open Async in
/-- **Every neighbour at once.**  One advertiser, n listeners, every global history (steps of the advertiser happen
    on all links together — a Sync Interest is multicast, each copy fares on its own —, steps of a listener or of a
    channel on one link): every link is a run of the single-link system (`grun_proj`), all links agree on the
    advertiser's state (`coupled_grun`), hence whenever link k is quiescent and its listener has heard the current
    number, listener k has applied the advertiser's CURRENT advertisement — the same version for every such k. -/
theorem star_quiescent_links_are_synced (n s0 : Nat) (h0 : 1 ≤ s0) (steps : List GStep) :
    let gs := grun (ginit n s0) steps
    (∀ s ∈ gs, ∀ t ∈ gs, s.ver = t.ver ∧ s.seq = t.seq) ∧
    ∀ st ∈ gs, Quiescent st → Heard st → st.applied = some st.ver ∧ st.fibVer = st.ver := by
  intro gs
  constructor
  · intro s hs t ht
    have := coupled_grun (coupled_ginit n s0) steps s hs t ht
    simp only [St.w, WPart.mk.injEq] at this
    exact ⟨this.1, this.2.1⟩
  · intro st hst q hd
    obtain ⟨k, hk⟩ := List.mem_iff_getElem?.1 hst
    have hp := grun_proj (ginit n s0) steps k
    rw [hk] at hp
    cases hi : (ginit n s0)[k]? with
    | none => rw [hi] at hp; cases hp
    | some i0 =>
      rw [hi] at hp
      have e0 : i0 = init s0 := List.eq_of_mem_replicate (List.mem_of_getElem? hi)
      subst e0
      simp only [Option.map_some, Option.some.injEq] at hp
      have inv : Inv st := by rw [hp]; exact inv_run (inv_init s0 h0) _
      have := quiescent_heard inv q hd
      exact ⟨this.1, this.2.1⟩

open Async in
example : let gs := grun (ginit 2 5) [.adv .change, .adv .runFib, .adv .runNotify, .adv .runSend,
      .link 0 (.deliverSync 0 false), .link 1 (.dropSync 0), .link 0 (.runFetch 0), .link 0 (.serve 0 false),
      .link 0 (.deliverData 0 false), .link 0 .runRib, .adv .heartbeat, .link 0 (.deliverSync 0 false),
      .link 1 (.deliverSync 0 false), .link 1 (.runFetch 0), .link 1 (.serve 0 false), .link 1 (.deliverData 0 false),
      .link 1 .runRib]
    gs.map (·.applied) = [some 1, some 1] ∧ gs.all (fun st => decide (Quiescent st)) = true := by decide

/-! ### from quiescent links to shortest paths

  `Net.SyncedLink net u w` is the routing-table content of the state `quiescent_link_is_synced` establishes for a
  link: the costs u holds via w are the ones `ribUpdate` derives from the advertisement w serves now. -/

/-- a network is a fixed point of all exchanges exactly when every link is synced -/
theorem fixed_point_iff_all_links_synced (g : Graph) (net : Net) (ok : NetOK g net) :
    IsFixedPoint g net ↔ ∀ u w, g.adj u w → net.SyncedLink u w := by
  constructor
  · intro fp u w ha
    obtain ⟨hu, hw, huw⟩ := ok.adjValid u w ha
    exact fixed_point_is_synced g net ok.wf fp u w ha hu hw huw
  · exact synced_is_fixed_point g net ok.wf

/-- **Quiescence means shortest paths.**  In a network that fits the topology and in which on every link the
    neighbour has applied the advertiser's current advertisement (what `quiescent_link_is_synced` /
    `synced_after_heartbeat` give for every link once nothing is pending anywhere), every router holds, for every
    router at hop distance k < 16, cost k with a next hop on a shortest path (smallest key among those), and
    advertises no unreachable router — no fairness assumption on the schedule is left. -/
theorem quiescent_network_is_shortest_path (g : Graph) (net : Net) (ok : NetOK g net)
    (synced : ∀ u w, g.adj u w → net.SyncedLink u w) :
    (∀ u v k, u < net.length → v < net.length → IsDist g u v k → k < 16 →
      net.best u (net.idOf v) = k ∧
      (1 ≤ k → ∃ w, g.adj u w ∧ net.nextHop u (net.idOf v) = net.idOf w ∧ IsDist g w v (k - 1) ∧
        ∀ w', g.adj u w' → IsDist g w' v (k - 1) → net.idOf w ≤ net.idOf w')) ∧
    (∀ u v, v < net.length → (∀ k, ¬ Reach g k u v) → ∀ a ∈ net.advertOf u, a.dest ≠ net.idOf v) := by
  have fp := synced_is_fixed_point g net ok.wf synced
  exact ⟨fun u v k hu hv hd hk => fixed_point_is_shortest_path g net ok fp u v k hu hv hd hk,
         fun u v hv hun => fixed_point_unreachable_withdrawn g net ok fp u v hv hun⟩

/-- processing the neighbour's current advertisement is what makes a link synced (`ribUpdate` is a function of
    the advertisement it reads), so 16 fair rounds end with every link synced -/
example : ∃ net, NetOK exGraph net ∧ ∀ u w, exGraph.adj u w → net.SyncedLink u w := by
  obtain ⟨net, ok, fp⟩ : ∃ net, NetOK exGraph net ∧ IsFixedPoint exGraph net :=
    ⟨_, converges_within_rounds exGraph (Net.start exIds) exStart_ok (List.replicate 16 exRound)
      (fun r hr e he => by rw [List.eq_of_mem_replicate hr] at he; exact he)
      (fun r hr u w ha => by rw [List.eq_of_mem_replicate hr]; exact ha)
      (by simp)⟩
  exact ⟨net, ok, (fixed_point_iff_all_links_synced exGraph net ok).1 fp⟩

end Ndn.C18
