/-
  C18 helper lemmas, part 4: in a fixed point every finite cost is witnessed by a walk (lower bound)
  and every hop distance below infinity is realised (upper bound, by induction on the distance with
  the poison-reverse contradiction).  Core Lean only.
-/
import NdnVerif.C18.Theory
namespace Ndn.C18

theorem fetch_some {net : Net} {u w : Nat} (hu : u < net.length) (hw : w < net.length) (face : Nat) :
    ∃ net' fl, net.fetch u w face = some (net', fl) := by
  unfold Net.fetch Net.get?
  rw [List.getElem?_eq_getElem hu, List.getElem?_eq_getElem hw]
  exact ⟨_, _, rfl⟩

/-- the split-horizon recurrence (what one exchange over link u→w leaves in K u · (id w)) -/
def SH (g : Graph) (net : Net) : Prop :=
  ∀ u w, g.adj u w → ∀ d, net.K u d (net.idOf w) = capInf (minExcl (net.costs w d) (net.idOf u) + 1)

theorem fp_sh {g : Graph} {net : Net} (ok : NetOK g net) (fp : IsFixedPoint g net) : SH g net := by
  intro u w ha d
  obtain ⟨hu, hw, _⟩ := ok.adjValid u w ha
  obtain ⟨net', fl, hf⟩ := fetch_some hu hw 0
  have := (fetch_sem ok.wf hf).2.2.2.2.2 u d (net.idOf w)
  rw [fp u w ha 0 net' fl hf d (net.idOf w)] at this
  simpa using this

theorem capInf_lt {x : Nat} (h : capInf x < inf) : capInf x = x ∧ x < inf := by
  unfold capInf at h ⊢
  by_cases hx : x < inf
  · simp [hx]
  · simp [hx] at h

theorem capInf_of_lt {x : Nat} (h : x < inf) : capInf x = x := by
  unfold capInf; simp [h]

theorem costs_nodup {net : Net} (wf : net.AllWF) (u d : Nat) : ((net.costs u d).map (·.1)).Nodup := by
  unfold Net.costs
  cases hu : net[u]? with
  | none => simp
  | some r => exact costsL_nodup (wf r (List.mem_of_getElem? hu)) d

/-- lower bound: a finite cost is witnessed by a walk through the next hop -/
theorem lower {g : Graph} {net : Net} (ok : NetOK g net) (sh : SH g net) :
    ∀ k u d h, net.K u d h = k → k < inf →
      ∃ v, v < net.length ∧ net.idOf v = d ∧
        ((h = net.idOf u ∧ v = u ∧ k = 0) ∨ ∃ w, g.adj u w ∧ h = net.idOf w ∧ 1 ≤ k ∧ Reach g (k - 1) w v) := by
  intro k
  induction k using Nat.strongRecOn with
  | _ k ih =>
    intro u d h hk hlt
    have hfin : net.K u d h < inf := by omega
    rcases ok.loc u d h hfin with ⟨hh, hd⟩ | ⟨w, ha, hh⟩
    · -- own entry
      have hul : u < net.length := by
        by_cases hul : u < net.length
        · exact hul
        · exfalso
          have : net.K u d h = inf := by
            unfold Net.K Net.costs
            rw [List.getElem?_eq_none (by omega)]; rfl
          omega
      refine ⟨u, hul, hd.symm, Or.inl ⟨hh, rfl, ?_⟩⟩
      rw [← hk, hh, hd]; exact ok.self u hul
    · obtain ⟨hul, hwl, hne⟩ := ok.adjValid u w ha
      have hs := sh u w ha d
      rw [← hh, hk] at hs
      have hc := capInf_lt (by rw [← hs]; exact hlt)
      rw [hc.1] at hs
      have hm : minExcl (net.costs w d) (net.idOf u) < inf := by omega
      obtain ⟨h', hne', hget⟩ := minExcl_attained_cget (costs_nodup ok.wf w d) (net.idOf u) hm
      have hK : net.K w d h' = k - 1 := by unfold Net.K; rw [hget]; omega
      obtain ⟨v, hvl, hvd, hcase⟩ := ih (k - 1) (by omega) w d h' hK (by omega)
      refine ⟨v, hvl, hvd, Or.inr ⟨w, ha, hh, by omega, ?_⟩⟩
      rcases hcase with ⟨_, hv, hz⟩ | ⟨w', ha', _, h1, hr⟩
      · rw [hz, hv]; exact Reach.zero w
      · have : k - 1 = (k - 1 - 1) + 1 := by omega
        rw [this]; exact Reach.step ha' hr

theorem lower_reach {g : Graph} {net : Net} (ok : NetOK g net) (sh : SH g net)
    {k u d h : Nat} (hk : net.K u d h = k) (hlt : k < inf) :
    ∃ v, v < net.length ∧ net.idOf v = d ∧ Reach g k u v := by
  obtain ⟨v, hvl, hvd, hcase⟩ := lower ok sh k u d h hk hlt
  refine ⟨v, hvl, hvd, ?_⟩
  rcases hcase with ⟨_, hv, hz⟩ | ⟨w, ha, _, h1, hr⟩
  · rw [hz, hv]; exact Reach.zero u
  · have : k = (k - 1) + 1 := by omega
    rw [this]; exact Reach.step ha hr

/-- every cost is at least the hop distance -/
theorem ge_dist {g : Graph} {net : Net} (ok : NetOK g net) (sh : SH g net)
    {u v k : Nat} (hd : IsDist g u v k) (hvl : v < net.length) (h : Nat) :
    k ≤ net.K u (net.idOf v) h ∨ inf ≤ net.K u (net.idOf v) h := by
  by_cases hfin : net.K u (net.idOf v) h < inf
  · left
    obtain ⟨v', hvl', hvd', hr⟩ := lower_reach ok sh rfl hfin
    have : v' = v := ok.idInj v' v hvl' hvl hvd'
    subst this
    by_cases hlt : net.K u (net.idOf v') h < k
    · exact absurd hr (hd.2 _ hlt)
    · omega
  · right; omega

theorem dist_step {g : Graph} {u w v k : Nat} (ha : g.adj u w) (hd : IsDist g u v (k + 1))
    (hr : Reach g k w v) : IsDist g w v k := by
  refine ⟨hr, ?_⟩
  intro j hj hrj
  exact hd.2 (j + 1) (by omega) (Reach.step ha hrj)

/-- the poison-reverse step: a neighbour at distance k gives cost exactly k+1 through it -/
theorem via_neighbor {g : Graph} {net : Net} (ok : NetOK g net) (sh : SH g net)
    {u w v k : Nat} (ha : g.adj u w) (hdu : IsDist g u v (k + 1)) (hdw : IsDist g w v k)
    (hvl : v < net.length) (hk : k + 1 < inf)
    (hw : ∃ h, net.K w (net.idOf v) h = k) : net.K u (net.idOf v) (net.idOf w) = k + 1 := by
  obtain ⟨hul, hwl, hne⟩ := ok.adjValid u w ha
  obtain ⟨h', hK'⟩ := hw
  have hs := sh u w ha (net.idOf v)
  -- the minimiser at w is not u
  have hne' : h' ≠ net.idOf u := by
    intro e
    subst e
    obtain ⟨v', hvl', hvd', hcase⟩ := lower ok sh k w (net.idOf v) (net.idOf u) hK' (by omega)
    have hv : v' = v := ok.idInj v' v hvl' hvl hvd'
    subst hv
    rcases hcase with ⟨hid, _, _⟩ | ⟨w2, ha2, hid, h1, hr⟩
    · exact hne (ok.idInj u w hul hwl hid)
    · have hw2 := (ok.adjValid w w2 ha2).2.1
      have : w2 = u := (ok.idInj u w2 hul hw2 hid).symm
      subst this
      exact hdu.2 (k - 1) (by omega) hr
  have hle : minExcl (net.costs w (net.idOf v)) (net.idOf u) ≤ k := by
    have := minExcl_le_cget (net.costs w (net.idOf v)) (net.idOf u) h' hne'
    unfold Net.K at hK'; omega
  have hge : k ≤ minExcl (net.costs w (net.idOf v)) (net.idOf u) := by
    have hm : minExcl (net.costs w (net.idOf v)) (net.idOf u) < inf := by omega
    obtain ⟨h2, _, hget⟩ := minExcl_attained_cget (costs_nodup ok.wf w (net.idOf v)) (net.idOf u) hm
    rcases ge_dist ok sh hdw hvl h2 with h | h
    · unfold Net.K at h; omega
    · unfold Net.K at h; omega
  have : minExcl (net.costs w (net.idOf v)) (net.idOf u) = k := by omega
  rw [this, capInf_of_lt hk] at hs
  exact hs

/-- upper bound: every hop distance below infinity is realised -/
theorem upper {g : Graph} {net : Net} (ok : NetOK g net) (sh : SH g net) :
    ∀ k u v, IsDist g u v k → k < inf → u < net.length → v < net.length →
      ∃ h, net.K u (net.idOf v) h = k := by
  intro k
  induction k with
  | zero =>
    intro u v hd _ hul _
    cases hd.1
    exact ⟨net.idOf u, ok.self u hul⟩
  | succ k ih =>
    intro u v hd hk hul hvl
    cases hd.1 with
    | step ha hr =>
      rename_i w
      have hdw := dist_step ha hd hr
      have hwl := (ok.adjValid u w ha).2.1
      have := ih w v hdw (by omega) hwl hvl
      exact ⟨net.idOf w, via_neighbor ok sh ha hd hdw hvl hk this⟩

/-! ### the cached selection against the cost function -/

theorem best_spec {net : Net} (wf : net.AllWF) (u d : Nat) :
    (∀ h, net.best u d ≤ net.K u d h) ∧ net.best u d ≤ inf ∧
    (net.best u d < inf → net.K u d (net.nextHop u d) = net.best u d ∧
      ∀ h, net.K u d h = net.best u d → net.nextHop u d ≤ h) := by
  unfold Net.best Net.nextHop Net.K Net.costs Rib.costsOf costsL
  cases hu : net[u]? with
  | none => simp [cget_nil]
  | some r =>
    have p := wf r (List.mem_of_getElem? hu)
    simp only
    cases he : findE r.rib.entries d with
    | none => simp [cget_nil]
    | some e =>
      simp only
      have hmem := (findE_mem he).1
      have ok := p.ok e hmem
      have t := refreshOf_top2 e.costs ok.nd
      rw [p.fresh e hmem]
      refine ⟨?_, t.le1, ?_⟩
      · intro h
        unfold cget
        cases hg : aget e.costs h with
        | none => exact t.le1
        | some k =>
          simp only [Option.getD_some]
          have hm := mem_of_aget hg
          by_cases hk : k < inf
          · have := t.min1 h k hm hk
            simp only [lexLe] at this; omega
          · have := t.le1; omega
      · intro hlt
        have hm := t.mem1 hlt
        refine ⟨by unfold cget; rw [aget_of_mem ok.nd hm]; rfl, ?_⟩
        intro h hK
        unfold cget at hK
        cases hg : aget e.costs h with
        | none => rw [hg] at hK; simp at hK; omega
        | some k =>
          rw [hg] at hK
          simp only [Option.getD_some] at hK
          have := t.min1 h k (mem_of_aget hg) (by omega)
          simp only [lexLe] at this; omega

theorem advert_mem {net : Net} {u : Nat} {a : AdvEntry} (wf : net.AllWF) (ha : a ∈ net.advertOf u) :
    a.cost = net.best u a.dest ∧ a.nh = net.nextHop u a.dest ∧ a.cost < inf := by
  unfold Net.advertOf at ha
  unfold Net.best Net.nextHop
  cases hu : net[u]? with
  | none => simp [hu] at ha
  | some r =>
    simp only [hu, Rib.advert, List.mem_map] at ha
    obtain ⟨e, he, rfl⟩ := ha
    have p := wf r (List.mem_of_getElem? hu)
    simp only [findE_of_mem p.nd he]
    exact ⟨trivial, trivial, p.finite e he⟩

end Ndn.C18
