/-
  A variant of `Ndn.Driver.run` (copied from NdnVerif/Driver/Common.lean, which builders do not edit)
  for drivers whose specification side depends only on the ops and the implementation's outputs:
  after a DIFF the rest of the history is NOT dropped — the model's expectation is no longer compared
  (the lines are counted as skipped) but the specification predicates keep being evaluated on the
  implementation's outputs, so that a behavioural change that breaks the property still yields SPEC
  lines with a concrete replay.  Same output protocol (DIFF / SPEC / NT / COV / DONE).  Core only.
-/
import NdnVerif.Driver.Common
namespace Ndn.Driver

structure LoopSt2 (σ : Type) where
  st : σ
  line : Nat := 0
  hist : Nat := 0
  diffs : Nat := 0
  specs : Nat := 0
  skipped : Nat := 0
  diverged : Bool := false
  ntMarked : Bool := false
  cov : Std.HashMap String Nat := {}

partial def loop2 {σ : Type} (h : IO.FS.Stream) (out : IO.FS.Stream)
    (step : σ → String → String → StepResult σ) (s : LoopSt2 σ) : IO (LoopSt2 σ) := do
  let raw ← h.getLine
  if raw.isEmpty then return s
  let line := (raw.dropEndWhile (fun c => c == '\n' || c == '\r')).toString
  let s := { s with line := s.line + 1 }
  if line.isEmpty || line.startsWith "#" then loop2 h out step s
  else
    let (op, got) := splitArrow line
    let isNew := op.startsWith "new"
    let s := if isNew then { s with hist := s.hist + 1, diverged := false, ntMarked := false } else s
    let r := step s.st op got
    let mut s := { s with st := r.st }
    if s.diverged then
      s := { s with skipped := s.skipped + 1 }
    else
      for c in r.cov do
        s := { s with cov := s.cov.insert c (s.cov.getD c 0 + 1) }
    if r.nontrivial && !s.ntMarked then
      out.putStrLn s!"NT {s.hist}"
      s := { s with ntMarked := true }
    for f in r.spec do
      out.putStrLn s!"SPEC {s.line} {s.hist} | clause={f.clause} key={f.key} | {f.msg}"
      s := { s with specs := s.specs + 1 }
    if !s.diverged then
      match r.expected with
      | some e =>
        if e != got then
          out.putStrLn s!"DIFF {s.line} {s.hist} | {op} | model={e} | impl={got}"
          s := { s with diffs := s.diffs + 1, diverged := true }
      | none => pure ()
    loop2 h out step s

def runResilient {σ : Type} (init : σ) (step : σ → String → String → StepResult σ) : IO Unit := do
  let stdin ← IO.getStdin
  let stdout ← IO.getStdout
  let s ← loop2 stdin stdout step { st := init }
  for (k, v) in s.cov.toList do
    stdout.putStrLn s!"COV {k} {v}"
  stdout.putStrLn s!"DONE lines={s.line} histories={s.hist} diffs={s.diffs} specs={s.specs} skipped={s.skipped}"

end Ndn.Driver
