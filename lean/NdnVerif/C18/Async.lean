/-
  C18 — the machinery that decides WHEN advertisements travel (dv/dv/advert_sync.go, advert_data.go and the
  `go` statements of table_algo.go), as a task-level transition system for one directed link w → u:
  router w advertises, neighbour u listens.  Every function of the router runs under `dv.mutex`, so a
  step of this system is one such function running to completion; the goroutines the code spawns
  (`go func() { fibUpdate(); advertSyncNotifyNew(); ... }()`, `go dv.advertSyncSendInterest()`,
  `go dv.advertDataFetch(..)`, `go dv.ribUpdate(ns)`) are *pending tasks*, and the scheduler may run any
  pending task, deliver, duplicate or lose any packet in flight, at any time.

  What w's RIB holds is abstracted to a version counter `ver` (a ghost: `change` = one ribUpdate /
  checkDeadNeighbors at w that came back dirty).  An advertisement Data is `(s, v)`: the sequence number
  in its name and the version of the RIB it was encoded from (advertDataOnInterest always serves the
  CURRENT advertisement under whatever number was asked for).

    table_algo.go  ribUpdate / checkDeadNeighbors  `if dirty { go func(){ fibUpdate(); advertSyncNotifyNew(); .. }() }`
                                                    -> change, runFib, runNotify
    advert_sync.go advertSyncNotifyNew              `advertSyncSeq++ ; go advertSyncSendInterest()`   -> runNotify, runSend
                   advertSyncSendInterest           reads advertSyncSeq when it RUNS                    -> runSend, heartbeat
                   advertSyncOnInterest             `AdvertSeq >= SeqNo` skip, else store + `go advertDataFetch`  -> deliverSync
    advert_data.go advertDataFetch                  guard `ns == nil || ns.AdvertSeq != seqNo`, Express  -> runFetch
                   (Express callback, no Data)      sleep, `dv.advertDataFetch(nodeId, seqNo)` again      -> timeoutReq, loseData
                   advertDataOnInterest             serve `rib.Advert()` as it is NOW                    -> serve
                   advertDataHandler                guard, `ns.Advert = advert ; go dv.ribUpdate(ns)`    -> deliverData
    table_algo.go  ribUpdate(ns)                    reads `ns.Advert` when it RUNS                       -> runRib
                   checkDeadNeighbors               neighbour removed, RemoveNextHop                     -> dead
  Core Lean only.
-/
namespace Ndn.C18.Async

structure St where
  /-- ghost: version of w's RIB (number of dirty updates so far) -/
  ver : Nat
  /-- `dv.advertSyncSeq` of w -/
  seq : Nat
  /-- ghost: `ver` at the moment `seq` got its current value -/
  seqVer : Nat
  /-- ghost: the RIB version w's FIB was last computed from -/
  fibVer : Nat
  /-- spawned propagation goroutines that have not yet run `fibUpdate` -/
  grpFib : Nat
  /-- ... that have run `fibUpdate` and not yet `advertSyncNotifyNew` -/
  grpNotify : Nat
  /-- spawned `advertSyncSendInterest` goroutines that have not run yet -/
  sendPending : Nat
  /-- Sync Interests of w in flight (the number each carries) -/
  syncs : List Nat
  /-- u: a neighbour state for w exists -/
  hasNbr : Bool
  /-- u: `ns.AdvertSeq` (0 when there is no neighbour state) -/
  advSeq : Nat
  /-- u: spawned `advertDataFetch(w, s)` goroutines (in their debounce / retry sleep) -/
  fetchTasks : List Nat
  /-- advertisement Interests of u in flight / pending in u's engine (the number in the name) -/
  reqs : List Nat
  /-- advertisement Data in flight (number in the name, RIB version of the content) -/
  datas : List (Nat × Nat)
  /-- u: `ns.Advert` (version of the content) -/
  stored : Option Nat
  /-- u: spawned `ribUpdate(ns)` goroutines that have not run yet -/
  ribTasks : Nat
  /-- ghost: the version of w's advertisement u's RIB was last updated from (none = w's routes removed) -/
  applied : Option Nat
deriving DecidableEq, Repr

/-- both routers freshly started: w with boot sequence number `s0` -/
def init (s0 : Nat) : St :=
  { ver := 0, seq := s0, seqVer := 0, fibVer := 0, grpFib := 0, grpNotify := 0, sendPending := 0, syncs := [],
    hasNbr := false, advSeq := 0, fetchTasks := [], reqs := [], datas := [], stored := none, ribTasks := 0,
    applied := none }

inductive Step where
  /-- a ribUpdate / checkDeadNeighbors at w came back dirty: the RIB changed, one propagation goroutine spawned -/
  | change
  /-- a propagation goroutine runs `fibUpdate` -/
  | runFib
  /-- a propagation goroutine runs `advertSyncNotifyNew` -/
  | runNotify
  /-- a spawned `advertSyncSendInterest` runs -/
  | runSend
  /-- the periodic heartbeat of w (`advertSyncSendInterest` from the ticker) -/
  | heartbeat
  /-- the Sync Interest at position `i` reaches u (`keep`: the network delivers a copy and keeps one) -/
  | deliverSync (i : Nat) (keep : Bool)
  /-- ... is lost -/
  | dropSync (i : Nat)
  /-- the fetch goroutine at position `i` wakes up -/
  | runFetch (i : Nat)
  /-- the advertisement Interest at position `i` reaches w and is answered -/
  | serve (i : Nat) (keep : Bool)
  /-- ... is lost or nacked: u's Express callback fires without Data and retries -/
  | timeoutReq (i : Nat)
  /-- the Data at position `i` reaches u's handler -/
  | deliverData (i : Nat) (keep : Bool)
  /-- ... is lost: the Interest times out, the callback retries -/
  | loseData (i : Nat)
  /-- a spawned `ribUpdate(ns)` runs -/
  | runRib
  /-- u's dead-neighbour sweep removes w -/
  | dead
deriving Repr

def removeAt (l : List α) (i : Nat) : List α := l.eraseIdx i

/-- `advertSyncOnInterest` at u for a Sync Interest carrying `s` -/
def onSync (st : St) (s : Nat) : St :=
  if st.hasNbr && decide (st.advSeq ≥ s) then st
  else { st with hasNbr := true, advSeq := s, fetchTasks := s :: st.fetchTasks }

def step (st : St) : Step → St
  | .change => { st with ver := st.ver + 1, grpFib := st.grpFib + 1 }
  | .runFib => if st.grpFib = 0 then st else
      { st with grpFib := st.grpFib - 1, grpNotify := st.grpNotify + 1, fibVer := st.ver }
  | .runNotify => if st.grpNotify = 0 then st else
      { st with grpNotify := st.grpNotify - 1, seq := st.seq + 1, seqVer := st.ver, sendPending := st.sendPending + 1 }
  | .runSend => if st.sendPending = 0 then st else
      { st with sendPending := st.sendPending - 1, syncs := st.seq :: st.syncs }
  | .heartbeat => { st with syncs := st.seq :: st.syncs }
  | .deliverSync i keep => match st.syncs[i]? with
    | none => st
    | some s => onSync (if keep then st else { st with syncs := removeAt st.syncs i }) s
  | .dropSync i => { st with syncs := removeAt st.syncs i }
  | .runFetch i => match st.fetchTasks[i]? with
    | none => st
    | some s =>
      let st' := { st with fetchTasks := removeAt st.fetchTasks i }
      if st.hasNbr && decide (st.advSeq = s) then { st' with reqs := s :: st'.reqs } else st'
  | .serve i keep => match st.reqs[i]? with
    | none => st
    | some s => { st with reqs := if keep then st.reqs else removeAt st.reqs i, datas := (s, st.ver) :: st.datas }
  | .timeoutReq i => match st.reqs[i]? with
    | none => st
    | some s => { st with reqs := removeAt st.reqs i, fetchTasks := s :: st.fetchTasks }
  | .deliverData i keep => match st.datas[i]? with
    | none => st
    | some (s, v) =>
      let st' := if keep then st else { st with datas := removeAt st.datas i }
      if st.hasNbr && decide (st.advSeq = s) then { st' with stored := some v, ribTasks := st'.ribTasks + 1 } else st'
  | .loseData i => match st.datas[i]? with
    | none => st
    | some (s, _) => { st with datas := removeAt st.datas i, fetchTasks := s :: st.fetchTasks }
  | .runRib => if st.ribTasks = 0 then st else
      { st with ribTasks := st.ribTasks - 1, applied := match st.stored with | some v => some v | none => st.applied }
  | .dead => { st with hasNbr := false, advSeq := 0, stored := none, applied := none }

def run (st : St) (steps : List Step) : St := steps.foldl step st

/-- nothing is pending anywhere: no spawned goroutine waits to run and no packet is in flight -/
def Quiescent (st : St) : Prop :=
  st.grpFib = 0 ∧ st.grpNotify = 0 ∧ st.sendPending = 0 ∧ st.syncs = [] ∧ st.fetchTasks = [] ∧ st.reqs = [] ∧
  st.datas = [] ∧ st.ribTasks = 0

instance (st : St) : Decidable (Quiescent st) := by unfold Quiescent; infer_instance

/-- u has heard w's current number -/
def Heard (st : St) : Prop := st.hasNbr = true ∧ st.advSeq = st.seq

instance (st : St) : Decidable (Heard st) := by unfold Heard; infer_instance

/-- amount of pending work; every step the routers take on their own (not `change`, `heartbeat`, a loss, a
    duplicate or `dead`) strictly decreases it -/
def work (st : St) : Nat :=
  9 * st.grpFib + 8 * st.grpNotify + 7 * st.sendPending + 6 * st.syncs.length + 5 * st.fetchTasks.length +
  4 * st.reqs.length + 3 * st.datas.length + st.ribTasks

/-- the steps the two routers and a loss-free, duplicate-free network take on their own -/
def Step.internal : Step → Bool
  | .runFib | .runNotify | .runSend | .runFetch _ | .runRib => true
  | .deliverSync _ keep | .serve _ keep | .deliverData _ keep => !keep
  | _ => false

/-- the step is enabled (the task / packet it names exists) -/
def Step.enabled (st : St) : Step → Bool
  | .runFib => st.grpFib ≠ 0
  | .runNotify => st.grpNotify ≠ 0
  | .runSend => st.sendPending ≠ 0
  | .deliverSync i _ | .dropSync i => i < st.syncs.length
  | .runFetch i => i < st.fetchTasks.length
  | .serve i _ | .timeoutReq i => i < st.reqs.length
  | .deliverData i _ | .loseData i => i < st.datas.length
  | .runRib => st.ribTasks ≠ 0
  | _ => true

/-- a run in which the routers and a loss-free network only do what is pending (no new RIB change, heartbeat,
    loss, duplicate or dead sweep) -/
def drains : St → List Step → Bool
  | _, [] => true
  | st, s :: t => s.internal && s.enabled st && drains (step st s) t

end Ndn.C18.Async
