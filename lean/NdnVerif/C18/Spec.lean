/-
  C18 specification (executable, independent of the model): what the property demands of the
  routing tables, as decidable predicates over OBSERVED advertisements.

  * infinity is the protocol constant 16 (hard-wired here; the model takes it from Gen/C18Consts);
  * `advertFinite`   : no advertisement lists a destination whose best cost is >= 16;
  * `shortestPathFailures` : at quiescence the advertised cost to every reachable router is its hop
                       distance (< 16), the next hop is a neighbour on a shortest path, unreachable
                       routers are not listed.  "Ties are broken the same way every time" is checked by
                       the driver as schedule independence: the same topology must always lead to the
                       same tables (the concrete rule — smallest key — is the model's, see
                       `Props.refresh_is_lexicographic_top2`, not a demand of the property).
  Core Lean only.
-/
namespace Ndn.C18.Spec

/-- the infinity metric of the protocol (dv/SPEC.md) -/
def infinity : Nat := 16

/-- number of fair rounds within which every table must have converged (from any state without
    stale neighbours): the infinity metric itself -/
def boundRounds : Nat := 16

/-- a configuration the daemon accepts must leave room for at least two heartbeats per dead interval,
    otherwise live neighbours are declared dead between their own heartbeats (no fixed point on stable links) -/
def deadIntervalOk (advMs deadMs : Nat) : Bool := deadMs ≥ 2 * advMs

/-- an undirected/directed topology on routers `0..n-1` -/
structure Topo where
  n : Nat
  adj : Nat → Nat → Bool

/-- "unreachable" marker of the breadth-first computation (larger than any distance) -/
def unreach : Nat := 1000000

def relax (t : Topo) (dist : List Nat) : List Nat :=
  (List.range t.n).map fun u =>
    (List.range t.n).foldl (fun m w => if t.adj u w then min m (dist.getD w unreach + 1) else m)
      (dist.getD u unreach)

def iter {α : Type} (f : α → α) : Nat → α → α
  | 0, x => x
  | k + 1, x => iter f k (f x)

/-- hop distance of every router to destination `d` (`unreach`-or-more = unreachable) -/
def distsTo (t : Topo) (d : Nat) : List Nat :=
  iter (relax t) t.n ((List.range t.n).map fun u => if u = d then 0 else unreach)

/-- an observed advertisement entry: destination / next hop as router indices -/
structure Obs where
  dest : Option Nat
  nh : Option Nat
  cost : Nat
  other : Nat
deriving Repr, BEq

/-- clause "no advertisement ever lists a destination whose best cost is at or above infinity" -/
def advertFinite (adv : List Obs) : Bool := adv.all fun o => o.cost < infinity

/-- `w` is a neighbour of `u` on a shortest path to the destination whose distances are `dist` -/
def onShortestPath (t : Topo) (dist : List Nat) (u k : Nat) (w : Nat) : Bool :=
  w < t.n && t.adj u w && dist.getD w unreach + 1 == k

/-- failures of router `u`'s advertisement against the shortest paths of `t` -/
def shortestPathFailures (t : Topo) (u : Nat) (adv : List Obs) : List String :=
  (List.range t.n).flatMap fun d =>
    let dist := distsTo t d
    let k := dist.getD u unreach
    let listed := adv.filter fun o => o.dest == some d
    if k < infinity then
      match listed with
      | [o] =>
        let nhOk := match o.nh with
          | some w => if u = d then w == u else onShortestPath t dist u k w
          | none => false
        (if o.cost = k then [] else [s!"r{u}: cost to r{d} is {o.cost}, hop distance is {k}"]) ++
        (if nhOk then [] else
          [s!"r{u}: next hop to r{d} is {repr o.nh}, which is not a neighbour on a shortest path (distance {k})"])
      | [] => [s!"r{u}: r{d} at hop distance {k} is missing from the table"]
      | _ => [s!"r{u}: r{d} is listed more than once"]
    else
      if listed.isEmpty then [] else [s!"r{u}: r{d} is unreachable but still listed"]

end Ndn.C18.Spec
