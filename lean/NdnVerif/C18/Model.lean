/-
  C18 model — distance-vector routing tables of ndn-dv.

  Mirrors, branch by branch:
    dv/table/rib.go        RibEntry.refresh / RibEntry.Set / Rib.Set / Rib.DirtyResetNextHop /
                           Rib.Prune / Rib.RemoveNextHop / Rib.Advert / Rib.Entries / GetFibEntries
    dv/dv/table_algo.go    ribUpdate (cost+1, poison reverse through OtherCost, skip >= infinity,
                           reset-then-set per neighbour, prune), checkDeadNeighbors
    dv/table/neighbor_table.go  Add / Remove / RecvPing (only: which neighbours exist, their face)

  Go maps are association lists; the list order is ONE possible iteration order of the map —
  `Props.refresh_order_independent` shows that the result of `refresh` is the same for every order.
  Keys are the xxhash64 name hashes of the routers (assumed injective on the router names of a run,
  checked by the harness), as naturals; key 0 is the code's "no next hop".
  `CostInfinity` comes from `Gen/C18Consts.lean` (regenerated from dv/config/config.go).
  Costs are `Nat` (the code uses uint64; every cost that occurs is <= CostInfinity + 1).
  Core Lean only.
-/
import NdnVerif.Gen.C18Consts
namespace Ndn.C18

/-- `config.CostInfinity` (regenerated) -/
abbrev inf : Nat := Ndn.Gen.C18.costInfinity

/-! ### association lists (Go maps) -/

abbrev Costs := List (Nat × Nat)

/-- `m[k]` with presence -/
def aget : Costs → Nat → Option Nat
  | [], _ => none
  | (k', v) :: t, k => if k' = k then some v else aget t k

/-- `m[k] = v` (replace in place, else append) -/
def aset : Costs → Nat → Nat → Costs
  | [], k, v => [(k, v)]
  | (k', v') :: t, k, v => if k' = k then (k, v) :: t else (k', v') :: aset t k v

/-- `delete(m, k)` -/
def aerase : Costs → Nat → Costs
  | [], _ => []
  | (k', v') :: t, k => if k' = k then aerase t k else (k', v') :: aerase t k

/-! ### RibEntry -/

/-- the cached selection of an entry: lowest / second lowest cost and their next hops -/
structure Best where
  low1 : Nat
  nh1 : Nat
  low2 : Nat
  nh2 : Nat
deriving DecidableEq, Repr

/-- one iteration of the loop in `RibEntry.refresh` for map item `hop ↦ cost` -/
def refreshStep (b : Best) (hc : Nat × Nat) : Best :=
  if hc.2 < b.low1 ∨ (hc.2 = b.low1 ∧ hc.1 < b.nh1) then
    { low1 := hc.2, nh1 := hc.1, low2 := b.low1, nh2 := b.nh1 }
  else if hc.2 < b.low2 ∨ (hc.2 = b.low2 ∧ hc.1 < b.nh2) then
    { b with low2 := hc.2, nh2 := hc.1 }
  else b

/-- initial values of the loop -/
def best0 : Best := { low1 := inf, nh1 := 0, low2 := inf, nh2 := 0 }

/-- the loop of `RibEntry.refresh` over the map in the iteration order `costs` -/
def refreshOf (costs : Costs) : Best := costs.foldl refreshStep best0

structure Entry where
  dest : Nat
  costs : Costs
  best : Best
  dirty : Bool
deriving DecidableEq, Repr

/-- `RibEntry.refresh`: recompute, clear `dirty`, report whether any cached field changed -/
def Entry.refresh (e : Entry) : Entry × Bool :=
  let b := refreshOf e.costs
  ({ e with best := b, dirty := false }, decide (b ≠ e.best))

/-- `RibEntry.Set` -/
def Entry.set (e : Entry) (nh cost : Nat) : Entry × Bool :=
  match aget e.costs nh with
  | some known => if known = cost then (e, false) else Entry.refresh { e with costs := aset e.costs nh cost }
  | none => Entry.refresh { e with costs := aset e.costs nh cost }

/-- a freshly allocated `RibEntry` (all cached fields are Go zero values) -/
def Entry.fresh (dest : Nat) : Entry :=
  { dest := dest, costs := [], best := { low1 := 0, nh1 := 0, low2 := 0, nh2 := 0 }, dirty := false }

/-! ### Rib -/

structure Rib where
  entries : List Entry
deriving DecidableEq, Repr

def Rib.empty : Rib := { entries := [] }

def setEntries : List Entry → Nat → Nat → Nat → List Entry × Bool
  | [], dest, nh, cost =>
    let (e, ch) := (Entry.fresh dest).set nh cost
    ([e], ch)
  | e :: t, dest, nh, cost =>
    if e.dest = dest then
      let (e', ch) := e.set nh cost
      (e' :: t, ch)
    else
      let (t', ch) := setEntries t dest nh cost
      (e :: t', ch)

/-- `Rib.Set` -/
def Rib.set (r : Rib) (dest nh cost : Nat) : Rib × Bool :=
  let (es, ch) := setEntries r.entries dest nh cost
  ({ entries := es }, ch)

/-- `Rib.DirtyResetNextHop` -/
def Rib.dirtyReset (r : Rib) (nh : Nat) : Rib :=
  { entries := r.entries.map fun e => { e with costs := aset e.costs nh inf, dirty := true } }

def pruneEntries : List Entry → List Entry × Bool
  | [] => ([], false)
  | e :: t =>
    let (e', ch) := if e.dirty then e.refresh else (e, false)
    let (t', cht) := pruneEntries t
    if e'.best.low1 = inf then (t', true) else (e' :: t', ch || cht)

/-- `Rib.Prune` -/
def Rib.prune (r : Rib) : Rib × Bool :=
  let (es, ch) := pruneEntries r.entries
  ({ entries := es }, ch)

def removeNhEntries : List Entry → Nat → List Entry × Bool
  | [], _ => ([], false)
  | e :: t, nh =>
    let (t', cht) := removeNhEntries t nh
    match aget e.costs nh with
    | some _ =>
      let (e', ch) := Entry.refresh { e with costs := aerase e.costs nh }
      (e' :: t', ch || cht)
    | none => (e :: t', cht)

/-- `Rib.RemoveNextHop` -/
def Rib.removeNextHop (r : Rib) (nh : Nat) : Rib × Bool :=
  let (es, ch) := removeNhEntries r.entries nh
  ({ entries := es }, ch)

/-- one `tlv.AdvEntry` (next hop as key; 0 = no next hop) -/
structure AdvEntry where
  dest : Nat
  nh : Nat
  cost : Nat
  other : Nat
deriving DecidableEq, Repr

/-- `Rib.Advert` -/
def Rib.advert (r : Rib) : List AdvEntry :=
  r.entries.map fun e => { dest := e.dest, nh := e.best.nh1, cost := e.best.low1, other := e.best.low2 }

/-- `Rib.Entries`: the reachable destinations -/
def Rib.reachable (r : Rib) : List Entry := r.entries.filter fun e => e.best.low1 < inf

/-! ### ribUpdate / checkDeadNeighbors -/

/-- the cost `ribUpdate` derives from one advertisement entry for router `self` -/
def advCost (self : Nat) (a : AdvEntry) : Nat :=
  if a.nh = self then (if a.other < inf then a.other + 1 else inf) else a.cost + 1

/-- the body of the loop over `ns.Advert.Entries` -/
def ribUpdateStep (self w : Nat) (acc : Rib × Bool) (a : AdvEntry) : Rib × Bool :=
  let cost := advCost self a
  if cost ≥ inf then acc
  else
    let (r', ch) := acc.1.set a.dest w cost
    (r', ch || acc.2)

/-- `Router.ribUpdate` for neighbour `w` holding advertisement `adv`; the flag is `dirty` -/
def ribUpdate (self : Nat) (r : Rib) (w : Nat) (adv : List AdvEntry) : Rib × Bool :=
  let r1 := r.dirtyReset w
  let (r2, d) := adv.foldl (ribUpdateStep self w) (r1, false)
  let (r3, d') := r2.prune
  (r3, d' || d)

/-- `checkDeadNeighbors` for one dead neighbour `w`: `RemoveNextHop` then `Prune` -/
def ribDead (r : Rib) (w : Nat) : Rib × Bool :=
  let (r1, d) := r.removeNextHop w
  let (r2, d') := r1.prune
  (r2, d' || d)

/-! ### a network of routers -/

structure Router where
  id : Nat
  rib : Rib
  /-- neighbour table: neighbour key ↦ face id -/
  nbrs : List (Nat × Nat)
deriving Repr

/-- `Router.Start`: "Add self to the RIB" -/
def Router.start (id : Nat) : Router := { id := id, rib := (Rib.empty.set id id 0).1, nbrs := [] }

abbrev Net := List Router

def Net.get? (net : Net) (i : Nat) : Option Router := net[i]?

def Net.setAt : Net → Nat → Router → Net
  | [], _, _ => []
  | _ :: t, 0, r => r :: t
  | h :: t, i + 1, r => h :: Net.setAt t i r

/-- event `fetch u w`: u obtains w's current advertisement and runs `ribUpdate`
    (`face` = face id the neighbour state of w gets at u) -/
def Net.fetch (net : Net) (u w face : Nat) : Option (Net × Bool) :=
  match net.get? u, net.get? w with
  | some ru, some rw =>
    let (rib', d) := ribUpdate ru.id ru.rib rw.id rw.rib.advert
    some (net.setAt u { ru with rib := rib', nbrs := aset ru.nbrs rw.id face }, d)
  | _, _ => none

/-- event `dead u w`: `checkDeadNeighbors` at u finds w dead (none if u has no neighbour state for w) -/
def Net.dead (net : Net) (u w : Nat) : Option (Net × Bool) :=
  match net.get? u, net.get? w with
  | some ru, some rw =>
    match aget ru.nbrs rw.id with
    | none => none
    | some _ =>
      let (rib', d) := ribDead ru.rib rw.id
      some (net.setAt u { ru with rib := rib', nbrs := aerase ru.nbrs rw.id }, d)
  | _, _ => none

/-! ### the advertisement handlers above ribUpdate (advertSyncOnInterest / advertDataHandler)

  Every router numbers its advertisements (the number advances when the advertisement changes);
  a neighbour state remembers the latest number announced by a Sync Interest (`AdvertSeq`); a fetch
  is started only for a newer number; a reply is processed only if it carries exactly that number and
  the neighbour state still exists — replies to older fetches, duplicates of outdated replies and
  replies for a neighbour that has been declared dead are ignored. -/

/-- `advertSyncOnInterest`: a Sync Interest announcing number `s` starts a fetch iff `s` is newer than
    the remembered `AdvertSeq` (0 for a fresh neighbour state) -/
def syncStartsFetch (cur s : Nat) : Bool := cur < s

/-- `advertDataHandler`: the guard `ns == nil` / `ns.AdvertSeq != seqNo` -/
def replyAccepted (hasNbr : Bool) (cur s : Nat) : Bool := hasNbr && cur == s

/-- `advertSyncOnInterest` on the neighbour table: the state exists afterwards, on `face` -/
def Net.ping (net : Net) (u w face : Nat) : Net :=
  match net.get? u, net.get? w with
  | some ru, some rw => net.setAt u { ru with nbrs := aset ru.nbrs rw.id face }
  | _, _ => net

/-- an accepted advertisement Data of neighbour `w` with content `adv` is processed by `ribUpdate`
    (`Net.fetch` is the case `adv` = w's current advertisement) -/
def Net.applyAdvert (net : Net) (u w : Nat) (adv : List AdvEntry) : Option (Net × Bool) :=
  match net.get? u, net.get? w with
  | some ru, some rw =>
    let (rib', d) := ribUpdate ru.id ru.rib rw.id adv
    some (net.setAt u { ru with rib := rib' }, d)
  | _, _ => none

/-- `Config.Parse` (dv/config/config.go) on the two intervals, in milliseconds: the advertise interval is
    at least one second and the dead interval at least two advertise intervals -/
def configValid (advMs deadMs : Nat) : Bool := advMs ≥ 1000 && deadMs ≥ 2 * advMs

/-- `GetFibEntries`: (face1, cost1, face2, cost2) of an entry, face 0 when the next hop has no
    neighbour state -/
def fibEntriesOf (nbrs : List (Nat × Nat)) (e : Entry) : Nat × Nat × Nat × Nat :=
  ((aget nbrs e.best.nh1).getD 0, e.best.low1, (aget nbrs e.best.nh2).getD 0, e.best.low2)

end Ndn.C18
