/-
  C18 — lemmas about the task-level model of the advertisement machinery (`Async.lean`):
  the invariant `Inv` of every reachable state and its preservation by every step.
-/
import NdnVerif.C18.Async
namespace Ndn.C18.Async

theorem mem_eraseIdx_of_ne {α} {l : List α} {i : Nat} {x y : α} (hx : x ∈ l) (hy : l[i]? = some y) (ne : y ≠ x) :
    x ∈ l.eraseIdx i := by
  rw [List.mem_eraseIdx_iff_getElem?]
  obtain ⟨j, hj⟩ := List.mem_iff_getElem?.mp hx
  refine ⟨j, ?_, hj⟩
  intro e; subst e; rw [hj] at hy; exact ne (Option.some.inj hy).symm

theorem sub_of_eraseIdx {α} {l : List α} {i : Nat} {P : α → Prop} (h : ∀ x ∈ l, P x) : ∀ x ∈ l.eraseIdx i, P x :=
  fun x hx => h x (List.mem_of_mem_eraseIdx hx)

/-- a token of the fetch of number `s` exists: a sleeping fetch goroutine, an Interest pending, or Data in flight -/
def Token (st : St) (s : Nat) : Prop := s ∈ st.fetchTasks ∨ s ∈ st.reqs ∨ ∃ v, (s, v) ∈ st.datas

structure Inv (st : St) : Prop where
  seqPos : 1 ≤ st.seq
  seqVerLe : st.seqVer ≤ st.ver
  seqVerLt : st.seqVer < st.ver → 0 < st.grpFib + st.grpNotify
  fibLe : st.fibVer ≤ st.ver
  fibLt : st.fibVer < st.ver → 0 < st.grpFib
  syncsLe : ∀ s ∈ st.syncs, s ≤ st.seq
  advLe : st.advSeq ≤ st.seq
  tasksLe : ∀ s ∈ st.fetchTasks, s ≤ st.seq
  reqsLe : ∀ s ∈ st.reqs, s ≤ st.seq
  datasLe : ∀ p ∈ st.datas, p.1 ≤ st.seq ∧ p.2 ≤ st.ver ∧ (p.1 = st.seq → st.seqVer ≤ p.2)
  noNbr : st.hasNbr = false → st.advSeq = 0 ∧ st.stored = none
  heard : st.hasNbr = true → st.advSeq = st.seq → Token st st.seq ∨ ∃ v, st.stored = some v ∧ st.seqVer ≤ v
  storedLe : ∀ v, st.stored = some v → v ≤ st.ver
  appliedNone : st.stored = none → st.applied = none
  appliedEq : st.ribTasks = 0 → st.applied = st.stored

theorem inv_init (s0 : Nat) (h : 1 ≤ s0) : Inv (init s0) := by
  constructor <;> simp [init, Token] <;> omega

theorem inv_change {st : St} (h : Inv st) : Inv (step st .change) := by
  have ⟨h1, h2, h3, h4, h5, h6, h7, h8, h9, h10, h11, h12, h13, h14, h15⟩ := h
  constructor <;> simp only [step] <;> try assumption
  · omega
  · intro; omega
  · omega
  · intro; omega
  · intro p hp; have := h10 p hp; omega
  · intro v hv; have := h13 v hv; omega

theorem inv_runFib {st : St} (h : Inv st) : Inv (step st .runFib) := by
  have ⟨h1, h2, h3, h4, h5, h6, h7, h8, h9, h10, h11, h12, h13, h14, h15⟩ := h
  simp only [step]; split
  · exact h
  · constructor <;> simp only <;> try assumption
    · intro hh; have := h3 hh; omega
    · omega
    · intro hh; omega

theorem inv_runNotify {st : St} (h : Inv st) : Inv (step st .runNotify) := by
  have ⟨h1, h2, h3, h4, h5, h6, h7, h8, h9, h10, h11, h12, h13, h14, h15⟩ := h
  simp only [step]; split
  · exact h
  · constructor <;> simp only <;> try assumption
    · omega
    · omega
    · intro hh; omega
    · intro s hs; have := h6 s hs; omega
    · omega
    · intro s hs; have := h8 s hs; omega
    · intro s hs; have := h9 s hs; omega
    · intro p hp; have := h10 p hp; omega
    · intro _ hh; omega

theorem inv_runSend {st : St} (h : Inv st) : Inv (step st .runSend) := by
  have ⟨h1, h2, h3, h4, h5, h6, h7, h8, h9, h10, h11, h12, h13, h14, h15⟩ := h
  simp only [step]; split
  · exact h
  · constructor <;> simp only <;> try assumption
    intro s hs; rcases List.mem_cons.mp hs with e | e
    · omega
    · exact h6 s e

theorem inv_heartbeat {st : St} (h : Inv st) : Inv (step st .heartbeat) := by
  have ⟨h1, h2, h3, h4, h5, h6, h7, h8, h9, h10, h11, h12, h13, h14, h15⟩ := h
  constructor <;> simp only [step] <;> try assumption
  intro s hs; rcases List.mem_cons.mp hs with e | e
  · omega
  · exact h6 s e

/-- `advertSyncOnInterest` for a number that does not exceed w's current one -/
theorem inv_onSync {st : St} (h : Inv st) (s : Nat) (hs : s ≤ st.seq) : Inv (onSync st s) := by
  have ⟨h1, h2, h3, h4, h5, h6, h7, h8, h9, h10, h11, h12, h13, h14, h15⟩ := h
  unfold onSync; split
  · exact h
  · rename_i hc
    constructor <;> simp only <;> try assumption
    · intro x hx; rcases List.mem_cons.mp hx with e | e
      · omega
      · exact h8 x e
    · intro hh; cases hh
    · intro _ e; left; left; exact List.mem_cons.mpr (Or.inl e.symm)

theorem inv_dropSyncs {st : St} (h : Inv st) (i : Nat) : Inv { st with syncs := removeAt st.syncs i } := by
  have ⟨h1, h2, h3, h4, h5, h6, h7, h8, h9, h10, h11, h12, h13, h14, h15⟩ := h
  constructor <;> simp only <;> try assumption
  exact sub_of_eraseIdx h6

theorem inv_deliverSync {st : St} (h : Inv st) (i : Nat) (keep : Bool) : Inv (step st (.deliverSync i keep)) := by
  simp only [step]; split
  · exact h
  · rename_i s hs
    have hle : s ≤ st.seq := h.syncsLe s (List.mem_of_getElem? hs)
    cases keep
    · exact inv_onSync (inv_dropSyncs h i) s hle
    · exact inv_onSync h s hle

theorem inv_dropSync {st : St} (h : Inv st) (i : Nat) : Inv (step st (.dropSync i)) := inv_dropSyncs h i

theorem token_mono {st st' : St} {s : Nat} (h1 : ∀ x ∈ st.fetchTasks, x ∈ st'.fetchTasks) (h2 : ∀ x ∈ st.reqs, x ∈ st'.reqs)
    (h3 : ∀ x ∈ st.datas, x ∈ st'.datas) (t : Token st s) : Token st' s := by
  rcases t with t | t | ⟨v, t⟩
  · exact Or.inl (h1 _ t)
  · exact Or.inr (Or.inl (h2 _ t))
  · exact Or.inr (Or.inr ⟨v, h3 _ t⟩)

theorem inv_runFetch {st : St} (h : Inv st) (i : Nat) : Inv (step st (.runFetch i)) := by
  have ⟨h1, h2, h3, h4, h5, h6, h7, h8, h9, h10, h11, h12, h13, h14, h15⟩ := h
  simp only [step]; split
  · exact h
  · rename_i s hs
    have hmem := List.mem_of_getElem? hs
    split
    · rename_i hc
      simp only [Bool.and_eq_true, decide_eq_true_eq] at hc
      constructor <;> simp only <;> try assumption
      · exact sub_of_eraseIdx h8
      · intro x hx; rcases List.mem_cons.mp hx with e | e
        · subst e; exact h8 _ hmem
        · exact h9 x e
      · intro hn he
        rcases h12 hn he with t | t
        · left
          rcases t with t | t | t
          · by_cases e : s = st.seq
            · right; left; exact List.mem_cons.mpr (Or.inl e.symm)
            · left; exact mem_eraseIdx_of_ne t hs e
          · right; left; exact List.mem_cons.mpr (Or.inr t)
          · right; right; exact t
        · right; exact t
    · rename_i hc
      simp only [Bool.and_eq_true, decide_eq_true_eq, not_and] at hc
      constructor <;> simp only <;> try assumption
      · exact sub_of_eraseIdx h8
      · intro hn he
        rcases h12 hn he with t | t
        · left
          rcases t with t | t | t
          · left; exact mem_eraseIdx_of_ne t hs (fun e => hc hn (by omega))
          · right; left; exact t
          · right; right; exact t
        · right; exact t

theorem inv_serve {st : St} (h : Inv st) (i : Nat) (keep : Bool) : Inv (step st (.serve i keep)) := by
  have ⟨h1, h2, h3, h4, h5, h6, h7, h8, h9, h10, h11, h12, h13, h14, h15⟩ := h
  simp only [step]; split
  · exact h
  · rename_i s hs
    have hmem := List.mem_of_getElem? hs
    have hle := h9 s hmem
    constructor <;> simp only <;> try assumption
    · cases keep
      · exact sub_of_eraseIdx h9
      · exact h9
    · intro p hp; rcases List.mem_cons.mp hp with e | e
      · subst e; simp only; omega
      · exact h10 p e
    · intro hn he
      rcases h12 hn he with t | t
      · left
        rcases t with t | t | ⟨v, t⟩
        · left; exact t
        · by_cases e : s = st.seq
          · right; right; exact ⟨st.ver, List.mem_cons.mpr (Or.inl (by rw [e]))⟩
          · right; left
            cases keep
            · exact mem_eraseIdx_of_ne t hs e
            · exact t
        · right; right; exact ⟨v, List.mem_cons.mpr (Or.inr t)⟩
      · right; exact t

theorem inv_timeoutReq {st : St} (h : Inv st) (i : Nat) : Inv (step st (.timeoutReq i)) := by
  have ⟨h1, h2, h3, h4, h5, h6, h7, h8, h9, h10, h11, h12, h13, h14, h15⟩ := h
  simp only [step]; split
  · exact h
  · rename_i s hs
    have hmem := List.mem_of_getElem? hs
    constructor <;> simp only <;> try assumption
    · intro x hx; rcases List.mem_cons.mp hx with e | e
      · subst e; exact h9 _ hmem
      · exact h8 x e
    · exact sub_of_eraseIdx h9
    · intro hn he
      rcases h12 hn he with t | t
      · left
        rcases t with t | t | t
        · left; exact List.mem_cons.mpr (Or.inr t)
        · by_cases e : s = st.seq
          · left; exact List.mem_cons.mpr (Or.inl e.symm)
          · right; left; exact mem_eraseIdx_of_ne t hs e
        · right; right; exact t
      · right; exact t

theorem inv_deliverData {st : St} (h : Inv st) (i : Nat) (keep : Bool) : Inv (step st (.deliverData i keep)) := by
  have ⟨h1, h2, h3, h4, h5, h6, h7, h8, h9, h10, h11, h12, h13, h14, h15⟩ := h
  simp only [step]; split
  · exact h
  · rename_i s v hs
    have hmem := List.mem_of_getElem? hs
    have hd := h10 _ hmem
    simp only at hd
    split
    · rename_i hc
      simp only [Bool.and_eq_true, decide_eq_true_eq] at hc
      have hno : ∀ {P : Prop}, st.hasNbr = false → P := fun hh => by rw [hc.1] at hh; cases hh
      cases keep
      · simp only [Bool.false_eq_true, if_false]
        exact { seqPos := h1, seqVerLe := h2, seqVerLt := h3, fibLe := h4, fibLt := h5, syncsLe := h6, advLe := h7,
                tasksLe := h8, reqsLe := h9, datasLe := sub_of_eraseIdx h10, noNbr := fun hh => hno hh,
                heard := fun _ he => Or.inr ⟨v, rfl, hd.2.2 (by have := hc.2; simp only at he; omega)⟩,
                storedLe := fun x hx => (by cases hx; exact hd.2.1),
                appliedNone := fun hh => (by cases hh),
                appliedEq := fun hh => (by simp only at hh; omega) }
      · simp only [if_true]
        exact { seqPos := h1, seqVerLe := h2, seqVerLt := h3, fibLe := h4, fibLt := h5, syncsLe := h6, advLe := h7,
                tasksLe := h8, reqsLe := h9, datasLe := h10, noNbr := fun hh => hno hh,
                heard := fun _ he => Or.inr ⟨v, rfl, hd.2.2 (by have := hc.2; simp only at he; omega)⟩,
                storedLe := fun x hx => (by cases hx; exact hd.2.1),
                appliedNone := fun hh => (by cases hh),
                appliedEq := fun hh => (by simp only at hh; omega) }
    · rename_i hc
      simp only [Bool.and_eq_true, decide_eq_true_eq, not_and] at hc
      cases keep
      · simp only [Bool.false_eq_true, if_false]
        constructor <;> simp only <;> try assumption
        · exact sub_of_eraseIdx h10
        · intro hn he
          rcases h12 hn he with t | t
          · left
            rcases t with t | t | ⟨v', t⟩
            · left; exact t
            · right; left; exact t
            · right; right
              refine ⟨v', mem_eraseIdx_of_ne t hs ?_⟩
              intro e; cases e; exact hc hn (by omega)
          · right; exact t
      · simp only [if_true]; exact h

theorem inv_loseData {st : St} (h : Inv st) (i : Nat) : Inv (step st (.loseData i)) := by
  have ⟨h1, h2, h3, h4, h5, h6, h7, h8, h9, h10, h11, h12, h13, h14, h15⟩ := h
  simp only [step]; split
  · exact h
  · rename_i s v hs
    have hmem := List.mem_of_getElem? hs
    have hd := h10 _ hmem
    simp only at hd
    constructor <;> simp only <;> try assumption
    · intro x hx; rcases List.mem_cons.mp hx with e | e
      · subst e; exact hd.1
      · exact h8 x e
    · exact sub_of_eraseIdx h10
    · intro hn he
      rcases h12 hn he with t | t
      · left
        rcases t with t | t | ⟨v', t⟩
        · left; exact List.mem_cons.mpr (Or.inr t)
        · right; left; exact t
        · by_cases e : s = st.seq
          · left; exact List.mem_cons.mpr (Or.inl e.symm)
          · right; right
            refine ⟨v', mem_eraseIdx_of_ne t hs ?_⟩
            intro e'; cases e'; exact e rfl
      · right; exact t

theorem inv_runRib {st : St} (h : Inv st) : Inv (step st .runRib) := by
  have ⟨h1, h2, h3, h4, h5, h6, h7, h8, h9, h10, h11, h12, h13, h14, h15⟩ := h
  simp only [step]; split
  · exact h
  · constructor <;> simp only <;> try assumption
    · intro hh; rw [hh]; exact h14 hh
    · intro _; cases hst : st.stored with
      | none => simp only; exact h14 hst
      | some v => simp only

theorem inv_dead {st : St} (h : Inv st) : Inv (step st .dead) := by
  have ⟨h1, h2, h3, h4, h5, h6, h7, h8, h9, h10, h11, h12, h13, h14, h15⟩ := h
  constructor <;> simp only [step] <;> first | assumption | omega | simp

theorem inv_step {st : St} (h : Inv st) (s : Step) : Inv (step st s) := by
  cases s with
  | change => exact inv_change h
  | runFib => exact inv_runFib h
  | runNotify => exact inv_runNotify h
  | runSend => exact inv_runSend h
  | heartbeat => exact inv_heartbeat h
  | deliverSync i k => exact inv_deliverSync h i k
  | dropSync i => exact inv_dropSync h i
  | runFetch i => exact inv_runFetch h i
  | serve i k => exact inv_serve h i k
  | timeoutReq i => exact inv_timeoutReq h i
  | deliverData i k => exact inv_deliverData h i k
  | loseData i => exact inv_loseData h i
  | runRib => exact inv_runRib h
  | dead => exact inv_dead h

theorem inv_run {st : St} (h : Inv st) (steps : List Step) : Inv (run st steps) := by
  induction steps generalizing st with
  | nil => exact h
  | cons s t ih => exact ih (inv_step h s)

/-! ### what a quiescent state looks like -/

theorem quiescent_heard {st : St} (h : Inv st) (q : Quiescent st) (hd : Heard st) :
    st.applied = some st.ver ∧ st.fibVer = st.ver ∧ st.stored = some st.ver := by
  obtain ⟨q1, q2, q3, q4, q5, q6, q7, q8⟩ := q
  have e1 : st.seqVer = st.ver := by
    have := h.seqVerLe; have := h.seqVerLt; omega
  have e2 : st.fibVer = st.ver := by
    have := h.fibLe; have := h.fibLt; omega
  rcases h.heard hd.1 hd.2 with t | ⟨v, hv, hle⟩
  · rcases t with t | t | ⟨v, t⟩
    · rw [q5] at t; cases t
    · rw [q6] at t; cases t
    · rw [q7] at t; cases t
  · have := h.storedLe v hv
    have ev : v = st.ver := by omega
    subst ev
    exact ⟨by rw [h.appliedEq q8, hv], e2, hv⟩

/-! ### the current number stays announced as long as nothing is lost -/

/-- a Sync Interest lost, or the neighbour declared dead: the two events after which only the next
    heartbeat re-announces the current number -/
def Step.fault : Step → Bool
  | .dropSync _ | .dead => true
  | _ => false

/-- u has heard w's current number, or a Sync Interest carrying it is in flight or about to be sent -/
def Announced (st : St) : Prop := Heard st ∨ st.seq ∈ st.syncs ∨ 0 < st.sendPending

theorem announced_heartbeat (st : St) : Announced (step st .heartbeat) := by
  right; left; simp only [step]; exact List.mem_cons.mpr (Or.inl rfl)

theorem announced_onSync_same {st : St} (h : Inv st) : Heard (onSync st st.seq) := by
  unfold onSync; split
  · rename_i hc
    simp only [Bool.and_eq_true, decide_eq_true_eq] at hc
    have := h.advLe
    exact ⟨hc.1, by omega⟩
  · exact ⟨rfl, rfl⟩

theorem onSync_seq (st : St) (s : Nat) : (onSync st s).seq = st.seq ∧ (onSync st s).syncs = st.syncs ∧
    (onSync st s).sendPending = st.sendPending := by
  unfold onSync; split <;> exact ⟨rfl, rfl, rfl⟩

theorem heard_onSync {st : St} (hd : Heard st) (s : Nat) (hs : s ≤ st.seq) : Heard (onSync st s) := by
  unfold onSync; split
  · exact hd
  · rename_i hc
    simp only [Bool.and_eq_true, decide_eq_true_eq, not_and] at hc
    have := hc hd.1; have := hd.2; omega

theorem announced_step {st : St} (h : Inv st) (a : Announced st) (s : Step) (nf : s.fault = false) :
    Announced (step st s) := by
  cases s with
  | change => exact a
  | runFib => simp only [step]; split <;> exact a
  | runNotify =>
    simp only [step]; split
    · exact a
    · right; right; simp only; omega
  | runSend =>
    simp only [step]; split
    · rcases a with a | a | a
      · exact Or.inl a
      · exact Or.inr (Or.inl a)
      · omega
    · right; left; exact List.mem_cons.mpr (Or.inl rfl)
  | heartbeat => exact announced_heartbeat st
  | deliverSync i keep =>
    simp only [step]; split
    · exact a
    · rename_i s hs
      have hle : s ≤ st.seq := h.syncsLe s (List.mem_of_getElem? hs)
      by_cases e : s = st.seq
      · subst e
        left
        cases keep
        · exact announced_onSync_same (st := { st with syncs := removeAt st.syncs i }) (inv_dropSyncs h i)
        · exact announced_onSync_same h
      · rcases a with a | a | a
        · left
          cases keep
          · exact heard_onSync (st := { st with syncs := removeAt st.syncs i }) a s hle
          · exact heard_onSync a s hle
        · right; left
          cases keep
          · rw [(onSync_seq _ s).1, (onSync_seq _ s).2.1]; exact mem_eraseIdx_of_ne a hs e
          · rw [(onSync_seq _ s).1, (onSync_seq _ s).2.1]; exact a
        · right; right
          cases keep
          · rw [(onSync_seq _ s).2.2]; exact a
          · rw [(onSync_seq _ s).2.2]; exact a
  | dropSync i => cases nf
  | runFetch i =>
    simp only [step]; split
    · exact a
    · split <;> exact a
  | serve i keep => simp only [step]; split <;> exact a
  | timeoutReq i => simp only [step]; split <;> exact a
  | deliverData i keep =>
    simp only [step]; split
    · exact a
    · split <;> cases keep <;> exact a
  | loseData i => simp only [step]; split <;> exact a
  | runRib => simp only [step]; split <;> exact a
  | dead => cases nf

theorem announced_run {st : St} (h : Inv st) (a : Announced st) (steps : List Step)
    (nf : ∀ s ∈ steps, s.fault = false) : Announced (run st steps) := by
  induction steps generalizing st with
  | nil => exact a
  | cons s t ih =>
    exact ih (inv_step h s) (announced_step h a s (nf s (List.mem_cons_self ..)))
      (fun x hx => nf x (List.mem_cons_of_mem _ hx))

theorem announced_quiescent {st : St} (a : Announced st) (q : Quiescent st) : Heard st := by
  obtain ⟨q1, q2, q3, q4, q5, q6, q7, q8⟩ := q
  rcases a with a | a | a
  · exact a
  · rw [q4] at a; cases a
  · omega

/-! ### progress -/

theorem work_decreases (st : St) (s : Step) (hi : s.internal = true) (he : s.enabled st = true) :
    work (step st s) < work st := by
  cases s with
  | runFib => simp [Step.enabled] at he; simp only [step, if_neg he, work]; omega
  | runNotify => simp [Step.enabled] at he; simp only [step, if_neg he, work]; omega
  | runSend => simp [Step.enabled] at he; simp only [step, if_neg he, work, List.length_cons]; omega
  | runRib =>
    simp [Step.enabled] at he; simp only [step, if_neg he, work]; omega
  | deliverSync i keep =>
    simp [Step.internal] at hi; subst hi
    simp [Step.enabled] at he
    have hg : st.syncs[i]? = some st.syncs[i] := List.getElem?_eq_getElem he
    simp only [step, hg, Bool.false_eq_true, if_false]
    unfold onSync; split <;> simp only [work, removeAt, List.length_eraseIdx, if_pos he, List.length_cons] <;> omega
  | runFetch i =>
    simp [Step.enabled] at he
    have hg : st.fetchTasks[i]? = some st.fetchTasks[i] := List.getElem?_eq_getElem he
    simp only [step, hg]
    split <;> simp only [work, removeAt, List.length_eraseIdx, if_pos he, List.length_cons] <;> omega
  | serve i keep =>
    simp [Step.internal] at hi; subst hi
    simp [Step.enabled] at he
    have hg : st.reqs[i]? = some st.reqs[i] := List.getElem?_eq_getElem he
    simp only [step, hg, Bool.false_eq_true, if_false, work, removeAt, List.length_eraseIdx, if_pos he, List.length_cons]
    omega
  | deliverData i keep =>
    simp [Step.internal] at hi; subst hi
    simp [Step.enabled] at he
    have hg : st.datas[i]? = some st.datas[i] := List.getElem?_eq_getElem he
    simp only [step, hg, Bool.false_eq_true, if_false]
    split <;> simp only [work, removeAt, List.length_eraseIdx, if_pos he, List.length_cons] <;> omega
  | change | heartbeat | dropSync _ | timeoutReq _ | loseData _ | dead => simp [Step.internal] at hi

theorem busy_has_step (st : St) (nq : ¬ Quiescent st) :
    ∃ s : Step, s.internal = true ∧ s.enabled st = true := by
  unfold Quiescent at nq
  by_cases h1 : st.grpFib = 0
  · by_cases h2 : st.grpNotify = 0
    · by_cases h3 : st.sendPending = 0
      · by_cases h4 : st.syncs = []
        · by_cases h5 : st.fetchTasks = []
          · by_cases h6 : st.reqs = []
            · by_cases h7 : st.datas = []
              · by_cases h8 : st.ribTasks = 0
                · exact absurd ⟨h1, h2, h3, h4, h5, h6, h7, h8⟩ nq
                · exact ⟨.runRib, rfl, by simp [Step.enabled, h8]⟩
              · exact ⟨.deliverData 0 false, rfl, by simp [Step.enabled]; exact List.length_pos_iff.mpr h7⟩
            · exact ⟨.serve 0 false, rfl, by simp [Step.enabled]; exact List.length_pos_iff.mpr h6⟩
          · exact ⟨.runFetch 0, rfl, by simp [Step.enabled]; exact List.length_pos_iff.mpr h5⟩
        · exact ⟨.deliverSync 0 false, rfl, by simp [Step.enabled]; exact List.length_pos_iff.mpr h4⟩
      · exact ⟨.runSend, rfl, by simp [Step.enabled, h3]⟩
    · exact ⟨.runNotify, rfl, by simp [Step.enabled, h2]⟩
  · exact ⟨.runFib, rfl, by simp [Step.enabled, h1]⟩

end Ndn.C18.Async
