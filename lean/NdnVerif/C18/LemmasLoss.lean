/-
  C18 helper lemmas, part 6: link / router loss.  Once every router that lost a neighbour has run
  its dead-neighbour check for it, the network state fits the remaining topology — the hypothesis of
  `converges` — so the tables re-converge to the shortest paths of what is left.  Core Lean only.
-/
import NdnVerif.C18.LemmasConv
namespace Ndn.C18

/-- every router keeps a neighbour state for every next hop through which it holds a finite cost -/
def NbrCover (net : Net) : Prop :=
  ∀ (u : Nat) (r : Router), net[u]? = some r → ∀ d h, r.rib.cst d h < inf → h = r.id ∨ (aget r.nbrs h).isSome

theorem K_of_get {net : Net} {u : Nat} {r : Router} (h : net[u]? = some r) (d x : Nat) :
    net.K u d x = r.rib.cst d x := by
  unfold Net.K Net.costs
  rw [h]; rfl

theorem start_cover (ids : List Nat) : NbrCover (ids.map Router.start) := by
  intro u r hr d h hlt
  rw [start_getElem?] at hr
  cases hi : ids[u]? with
  | none => simp [hi] at hr
  | some id =>
    simp only [hi, Option.map_some, Option.some.injEq] at hr
    subst hr
    rw [(start_wf_cst id).2 d h] at hlt
    by_cases hc : d = id ∧ h = id
    · exact Or.inl hc.2
    · simp [hc] at hlt

theorem fetch_cover {net net' : Net} {u w face : Nat} {fl : Bool} (wf : net.AllWF) (cov : NbrCover net)
    (hf : net.fetch u w face = some (net', fl)) : NbrCover net' := by
  unfold Net.fetch Net.get? at hf
  cases hu : net[u]? with
  | none => simp [hu] at hf
  | some ru =>
    cases hw : net[w]? with
    | none => simp [hu, hw] at hf
    | some rw =>
      simp only [hu, hw, Option.some.injEq, Prod.mk.injEq] at hf
      obtain ⟨hnet, _⟩ := hf
      have hul : u < net.length := (List.getElem?_eq_some_iff.1 hu).1
      obtain ⟨_, hc⟩ := ribUpdate_wf_cst ru.id (wf ru (List.mem_of_getElem? hu)) rw.id rw.rib.advert
      subst hnet
      intro x r hr d h hlt
      rw [setAt_getElem?] at hr
      by_cases hx : x = u
      · subst hx
        rw [if_pos ⟨rfl, hul⟩] at hr
        simp only [Option.some.injEq] at hr
        subst hr
        simp only at hlt ⊢
        rw [hc] at hlt
        by_cases hh : h = rw.id
        · right; rw [aget_aset]; simp [hh]
        · simp only [hh, if_false] at hlt
          rcases cov x ru hu d h hlt with h1 | h1
          · exact Or.inl h1
          · right; rw [aget_aset]; simp [hh, h1]
      · rw [if_neg (fun e => hx e.1)] at hr
        exact cov x r hr d h hlt

/-- the dead-neighbour check of `u` for `w` (no effect without a neighbour state) -/
def Net.deadStep (net : Net) (u w : Nat) : Net :=
  match net.dead u w with
  | some (net', _) => net'
  | none => net

theorem dead_cover {net net' : Net} {u w : Nat} {fl : Bool} (wf : net.AllWF) (cov : NbrCover net)
    (hf : net.dead u w = some (net', fl)) : NbrCover net' := by
  unfold Net.dead Net.get? at hf
  cases hu : net[u]? with
  | none => simp [hu] at hf
  | some ru =>
    cases hw : net[w]? with
    | none => simp [hu, hw] at hf
    | some rw =>
      simp only [hu, hw] at hf
      cases hn : aget ru.nbrs rw.id with
      | none => simp [hn] at hf
      | some f =>
        simp only [hn, Option.some.injEq, Prod.mk.injEq] at hf
        obtain ⟨hnet, _⟩ := hf
        have hul : u < net.length := (List.getElem?_eq_some_iff.1 hu).1
        obtain ⟨_, hc⟩ := ribDead_wf_cst (wf ru (List.mem_of_getElem? hu)) rw.id
        subst hnet
        intro x r hr d h hlt
        rw [setAt_getElem?] at hr
        by_cases hx : x = u
        · subst hx
          rw [if_pos ⟨rfl, hul⟩] at hr
          simp only [Option.some.injEq] at hr
          subst hr
          simp only at hlt ⊢
          rw [hc] at hlt
          by_cases hh : h = rw.id
          · simp [hh] at hlt
          · simp only [hh, if_false] at hlt
            rcases cov x ru hu d h hlt with h1 | h1
            · exact Or.inl h1
            · right; rw [aget_aerase]; simp [hh, h1]
        · rw [if_neg (fun e => hx e.1)] at hr
          exact cov x r hr d h hlt

/-- one dead-neighbour check along a (former) link: the state still fits `g`, the costs via the dead
    neighbour are gone, nothing becomes finite -/
theorem deadStep_spec {g : Graph} {net : Net} (ok : NetOK g net) (cov : NbrCover net) {u w : Nat}
    (ha : g.adj u w) :
    NetOK g (net.deadStep u w) ∧ NbrCover (net.deadStep u w) ∧
    (net.deadStep u w).length = net.length ∧ (∀ x, (net.deadStep u w).idOf x = net.idOf x) ∧
    (∀ d, (net.deadStep u w).K u d (net.idOf w) = inf) ∧
    (∀ x d h, net.K x d h = inf → (net.deadStep u w).K x d h = inf) := by
  obtain ⟨hul, hwl, hne⟩ := ok.adjValid u w ha
  unfold Net.deadStep
  cases hf : net.dead u w with
  | none =>
    simp only
    refine ⟨ok, cov, trivial, fun _ => trivial, ?_, fun _ _ _ h => h⟩
    -- no neighbour state: by the cover invariant nothing finite is held via w
    intro d
    have hle := K_le_inf ok.wf u d (net.idOf w)
    by_cases hlt : net.K u d (net.idOf w) < inf
    · exfalso
      have hu := List.getElem?_eq_getElem hul
      have hw := List.getElem?_eq_getElem hwl
      rw [K_of_get hu] at hlt
      have hidw : net.idOf w = net[w].id := by unfold Net.idOf; rw [hw]
      have hidu : net.idOf u = net[u].id := by unfold Net.idOf; rw [hu]
      rcases cov u _ hu d _ hlt with h1 | h1
      · exact hne (ok.idInj u w hul hwl (by rw [hidu, ← h1]))
      · unfold Net.dead Net.get? at hf
        rw [hu, hw] at hf
        simp only at hf
        rw [hidw] at h1
        cases hn : aget net[u].nbrs net[w].id with
        | none => rw [hn] at h1; cases h1
        | some f => simp [hn] at hf
    · omega
  | some p =>
    simp only
    have hf' : net.dead u w = some (p.1, p.2) := hf
    obtain ⟨wf', hl, hid, hK⟩ := dead_sem ok.wf hf'
    refine ⟨?_, dead_cover ok.wf cov hf', hl, hid, ?_, ?_⟩
    · constructor
      · exact wf'
      · intro a b hab; rw [hl]; exact ok.adjValid a b hab
      · intro a b hal hbl; rw [hid, hid]; rw [hl] at hal hbl; exact ok.idInj a b hal hbl
      · intro a hal
        rw [hl] at hal
        rw [hid, hK]
        have : ¬ (a = u ∧ net.idOf a = net.idOf w) := by
          rintro ⟨rfl, e⟩
          exact hne (ok.idInj a w hul hwl e)
        rw [if_neg this]; exact ok.self a hal
      · intro a d h hlt
        rw [hK] at hlt
        rw [hid]
        by_cases hc : a = u ∧ h = net.idOf w
        · rw [if_pos hc] at hlt; omega
        · rw [if_neg hc] at hlt
          rcases ok.loc a d h hlt with h1 | ⟨w', ha', hh⟩
          · exact Or.inl h1
          · exact Or.inr ⟨w', ha', by rw [hid]; exact hh⟩
    · intro d; rw [hK, if_pos ⟨rfl, rfl⟩]
    · intro x d h hinf
      rw [hK]
      by_cases hc : x = u ∧ h = net.idOf w
      · rw [if_pos hc]
      · rw [if_neg hc]; exact hinf

/-- run the dead-neighbour checks for a list of lost links -/
def Net.deads (net : Net) (lost : List (Nat × Nat)) : Net :=
  lost.foldl (fun n e => n.deadStep e.1 e.2) net

theorem deads_spec {g : Graph} (lost : List (Nat × Nat)) : ∀ {net : Net}, NetOK g net → NbrCover net →
    (∀ e ∈ lost, g.adj e.1 e.2) →
    NetOK g (net.deads lost) ∧ NbrCover (net.deads lost) ∧ (net.deads lost).length = net.length ∧
    (∀ x, (net.deads lost).idOf x = net.idOf x) ∧
    (∀ e ∈ lost, ∀ d, (net.deads lost).K e.1 d (net.idOf e.2) = inf) ∧
    (∀ x d h, net.K x d h = inf → (net.deads lost).K x d h = inf) := by
  induction lost with
  | nil => intro net ok cov _; exact ⟨ok, cov, rfl, fun _ => rfl, (by intro e he; cases he), fun _ _ _ h => h⟩
  | cons e t ih =>
    intro net ok cov hall
    obtain ⟨ok1, cov1, hl1, hid1, hclr1, hmono1⟩ := deadStep_spec ok cov (hall e (List.mem_cons_self ..))
    obtain ⟨ok2, cov2, hl2, hid2, hclr2, hmono2⟩ := ih ok1 cov1 (fun x hx => hall x (List.mem_cons_of_mem _ hx))
    simp only [Net.deads, List.foldl_cons] at hl2 hid2 hclr2 hmono2 ok2 cov2 ⊢
    refine ⟨ok2, cov2, by rw [hl2, hl1], fun x => by rw [hid2, hid1], ?_, fun x d h hi => hmono2 x d h (hmono1 x d h hi)⟩
    intro e' he' d
    rcases List.mem_cons.1 he' with rfl | he'
    · exact hmono2 _ _ _ (hclr1 d)
    · have := hclr2 e' he' d
      rw [hid1] at this; exact this

/-- after the dead-neighbour checks for every lost link, the state fits the remaining topology -/
theorem refit {g g' : Graph} {net : Net} (ok : NetOK g net) (cov : NbrCover net)
    (sub : ∀ u w, g'.adj u w → g.adj u w) (lost : List (Nat × Nat))
    (hl : ∀ e ∈ lost, g.adj e.1 e.2) (hcov : ∀ u w, g.adj u w → ¬ g'.adj u w → (u, w) ∈ lost) :
    NetOK g' (net.deads lost) ∧ NbrCover (net.deads lost) := by
  obtain ⟨ok2, cov2, hlen, hid, hclr, _⟩ := deads_spec lost ok cov hl
  refine ⟨?_, cov2⟩
  constructor
  · exact ok2.wf
  · intro u w ha; exact ok2.adjValid u w (sub u w ha)
  · exact ok2.idInj
  · exact ok2.self
  · intro u d h hlt
    rcases ok2.loc u d h hlt with h1 | ⟨w, ha, hh⟩
    · exact Or.inl h1
    · by_cases hg : g'.adj u w
      · exact Or.inr ⟨w, hg, hh⟩
      · exfalso
        have := hclr (u, w) (hcov u w ha hg) d
        rw [hh, hid] at hlt
        simp only at this
        omega

/-- exchanges along links keep both invariants -/
theorem run_fit {g : Graph} (s : List Exchange) : ∀ {net : Net}, NetOK g net → NbrCover net → Along g s →
    NetOK g (net.run s) ∧ NbrCover (net.run s) := by
  induction s with
  | nil => intro net ok cov _; exact ⟨ok, cov⟩
  | cons e t ih =>
    intro net ok cov hal
    obtain ⟨u, w⟩ := e
    have ha : g.adj u w := hal (u, w) (List.mem_cons_self ..)
    obtain ⟨hul, hwl, _⟩ := ok.adjValid u w ha
    obtain ⟨net', fl, hf⟩ := fetch_some hul hwl (w + 1)
    simp only [Net.run, hf]
    exact ih (ok_fetch ok ha hf) (fetch_cover ok.wf cov hf) (fun x hx => hal x (List.mem_cons_of_mem _ hx))

/-- new links (between existing, distinct routers) can be added to the topology a state fits -/
theorem fit_mono {g g2 : Graph} {net : Net} (ok : NetOK g net) (sub : ∀ u w, g.adj u w → g2.adj u w)
    (valid : ∀ u w, g2.adj u w → u < net.length ∧ w < net.length ∧ u ≠ w) : NetOK g2 net := by
  constructor
  · exact ok.wf
  · exact valid
  · exact ok.idInj
  · exact ok.self
  · intro u d h hlt
    rcases ok.loc u d h hlt with h1 | ⟨w, ha, hh⟩
    · exact Or.inl h1
    · exact Or.inr ⟨w, sub u w ha, hh⟩

end Ndn.C18
