/-
  C18 — the bridge between the task-level model of the advertisement machinery (`Async.lean`: at quiescence
  every neighbour has applied the advertiser's CURRENT advertisement) and the routing-table model (`Model.lean`,
  `Theory.lean`): a network in which every link is in that state is a fixed point of all exchanges.
-/
import NdnVerif.C18.Theory
namespace Ndn.C18

/-- Link u ← w is *synced*: the costs router u holds via next hop w are exactly the ones `ribUpdate` derives from
    the advertisement w serves NOW (split horizon applied) — the Net-level content of "the last `ribUpdate(ns)` u ran
    for w read w's current advertisement" (`Async.St.applied = some ver`). -/
def Net.SyncedLink (net : Net) (u w : Nat) : Prop :=
  ∀ d, net.K u d (net.idOf w) = capInf (minExcl (net.costs w d) (net.idOf u) + 1)

/-- processing w's current advertisement makes the link synced (`ribUpdate` is a function of the advertisement) -/
theorem fetch_makes_synced {net net' : Net} {u w face : Nat} {fl : Bool} (wf : net.AllWF) (huw : u ≠ w)
    (hf : net.fetch u w face = some (net', fl)) : net'.SyncedLink u w := by
  obtain ⟨_, _, hid, _, _, hK⟩ := fetch_sem wf hf
  intro d
  rw [hid w, hid u, hK u d (net.idOf w), if_pos ⟨rfl, rfl⟩]
  -- w's own cost maps are untouched by an exchange at u
  have hc : net'.costs w d = net.costs w d := by
    unfold Net.fetch Net.get? at hf
    cases hu : net[u]? with
    | none => simp [hu] at hf
    | some ru =>
      cases hw : net[w]? with
      | none => simp [hu, hw] at hf
      | some rw =>
        simp only [hu, hw, Option.some.injEq, Prod.mk.injEq] at hf
        obtain ⟨hnet, _⟩ := hf
        subst hnet
        simp only [Net.costs, setAt_getElem?]
        rw [if_neg (fun h => huw h.1.symm)]
  rw [hc]

/-- a synced link is one on which a further exchange changes nothing -/
theorem synced_fetch_noop {net net' : Net} {u w face : Nat} {fl : Bool} (wf : net.AllWF)
    (s : net.SyncedLink u w) (hf : net.fetch u w face = some (net', fl)) :
    ∀ x d h, net'.K x d h = net.K x d h := by
  obtain ⟨_, _, _, _, _, hK⟩ := fetch_sem wf hf
  intro x d h
  rw [hK x d h]
  split
  · rename_i hc
    obtain ⟨rfl, rfl⟩ := hc
    exact (s d).symm
  · rfl

/-- every link synced ⇒ fixed point of all exchanges -/
theorem synced_is_fixed_point (g : Graph) (net : Net) (wf : net.AllWF)
    (s : ∀ u w, g.adj u w → net.SyncedLink u w) : IsFixedPoint g net := by
  intro u w ha face net' fl hf d h
  exact synced_fetch_noop wf (s u w ha) hf u d h

/-- and conversely: at a fixed point every link (between distinct, existing routers) is synced -/
theorem fixed_point_is_synced (g : Graph) (net : Net) (wf : net.AllWF) (fp : IsFixedPoint g net)
    (u w : Nat) (ha : g.adj u w) (hu : u < net.length) (hw : w < net.length) (huw : u ≠ w) : net.SyncedLink u w := by
  have hsome : ∃ r, net.fetch u w (w + 1) = some r := by
    unfold Net.fetch Net.get?
    rw [List.getElem?_eq_getElem hu, List.getElem?_eq_getElem hw]
    exact ⟨_, rfl⟩
  obtain ⟨⟨net', fl⟩, hf⟩ := hsome
  have s' := fetch_makes_synced wf huw hf
  obtain ⟨_, _, hid, _, _, hK⟩ := fetch_sem wf hf
  have same := fp u w ha (w + 1) net' fl hf
  intro d
  have h1 := s' d
  rw [hid w, hid u] at h1
  have hc : net'.costs w d = net.costs w d := by
    unfold Net.fetch Net.get? at hf
    rw [List.getElem?_eq_getElem hu, List.getElem?_eq_getElem hw] at hf
    simp only [Option.some.injEq, Prod.mk.injEq] at hf
    obtain ⟨hnet, _⟩ := hf
    subst hnet
    simp only [Net.costs, setAt_getElem?]
    rw [if_neg (fun h => huw h.1.symm)]
  rw [hc] at h1
  rw [← same d (net.idOf w)]
  exact h1

end Ndn.C18
