/-
  C18 — definitions used by the property theorems: topologies, walks, hop distance, the
  well-formedness of a network state with respect to a topology, fixed points, schedules.
  Core Lean only.
-/
import NdnVerif.C18.LemmasNet
namespace Ndn.C18

/-- a topology over router indices (`adj u w`: u has w as neighbour, i.e. u fetches w's
    advertisements); not assumed symmetric -/
structure Graph where
  adj : Nat → Nat → Prop

/-- a walk of exactly `k` links from `u` to `v` -/
inductive Reach (g : Graph) : Nat → Nat → Nat → Prop
  | zero (u : Nat) : Reach g 0 u u
  | step {k u w v : Nat} : g.adj u w → Reach g k w v → Reach g (k + 1) u v

/-- `k` is the hop distance from `u` to `v` -/
def IsDist (g : Graph) (u v k : Nat) : Prop := Reach g k u v ∧ ∀ j, j < k → ¬ Reach g j u v

/-- lowest cost of router `u` to destination key `d` as cached in its RIB entry (infinity: no entry) -/
def Net.best (net : Net) (u d : Nat) : Nat :=
  match net[u]? with
  | some r => match findE r.rib.entries d with
    | some e => e.best.low1
    | none => inf
  | none => inf

/-- chosen next hop (key) of router `u` to destination key `d` (0: none) -/
def Net.nextHop (net : Net) (u d : Nat) : Nat :=
  match net[u]? with
  | some r => match findE r.rib.entries d with
    | some e => e.best.nh1
    | none => 0
  | none => 0

/-- the advertisement router `u` currently serves -/
def Net.advertOf (net : Net) (u : Nat) : List AdvEntry :=
  match net[u]? with
  | some r => r.rib.advert
  | none => []

/-- A network state that fits topology `g`: every RIB satisfies the mutex-release invariant, router
    keys are distinct, every router has its own entry at cost 0 (`Router.Start`), and finite costs are
    held only via current neighbours (dead neighbours have been removed by `checkDeadNeighbors`). -/
structure NetOK (g : Graph) (net : Net) : Prop where
  wf : net.AllWF
  adjValid : ∀ u w, g.adj u w → u < net.length ∧ w < net.length ∧ u ≠ w
  idInj : ∀ u v, u < net.length → v < net.length → net.idOf u = net.idOf v → u = v
  self : ∀ u, u < net.length → net.K u (net.idOf u) (net.idOf u) = 0
  loc : ∀ u d h, net.K u d h < inf → (h = net.idOf u ∧ d = net.idOf u) ∨ ∃ w, g.adj u w ∧ h = net.idOf w

/-- no exchange along a link of `g` changes any cost of the fetching router -/
def IsFixedPoint (g : Graph) (net : Net) : Prop :=
  ∀ u w, g.adj u w → ∀ face net' fl, net.fetch u w face = some (net', fl) →
    ∀ d h, net'.K u d h = net.K u d h

/-- an exchange event of a schedule: `fetch u w` -/
abbrev Exchange := Nat × Nat

/-- run a schedule of exchanges (events on invalid indices are ignored) -/
def Net.run (net : Net) : List Exchange → Net
  | [] => net
  | (u, w) :: t =>
    match net.fetch u w (w + 1) with
    | some (net', _) => Net.run net' t
    | none => Net.run net t

/-- every exchange of the schedule is along a link of `g` -/
def Along (g : Graph) (s : List Exchange) : Prop := ∀ e ∈ s, g.adj e.1 e.2

/-- the schedule contains every link of `g` at least once (one fair round) -/
def Covers (g : Graph) (s : List Exchange) : Prop := ∀ u w, g.adj u w → (u, w) ∈ s

end Ndn.C18
