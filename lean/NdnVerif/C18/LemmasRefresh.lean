/-
  C18 helper lemmas, part 1: `RibEntry.refresh` — the loop commutes for distinct hops, hence its
  result is the same for every iteration order; it computes the lexicographic top-2 of the finite
  (cost, hop) pairs (`Top2`); consequences for poison reverse (`minExcl`).  Core Lean only.
-/
import NdnVerif.C18.Model
namespace Ndn.C18

theorem refreshStep_comm (b : Best) (x y : Nat × Nat) (h : x.1 ≠ y.1) :
    refreshStep (refreshStep b x) y = refreshStep (refreshStep b y) x := by
  obtain ⟨xh, xc⟩ := x
  obtain ⟨yh, yc⟩ := y
  obtain ⟨l1, h1, l2, h2⟩ := b
  simp only [refreshStep]
  simp only at h
  split <;> split <;> split <;> (try split) <;> (try split) <;> simp_all <;> omega

theorem eq_of_key_eq {c : Costs} (nd : (c.map (·.1)).Nodup) {x y : Nat × Nat}
    (hx : x ∈ c) (hy : y ∈ c) (hk : x.1 = y.1) : x = y := by
  induction c with
  | nil => cases hx
  | cons a t ih =>
    simp only [List.map_cons, List.nodup_cons, List.mem_map, not_exists, not_and] at nd
    rcases List.mem_cons.1 hx with rfl | hx' <;> rcases List.mem_cons.1 hy with rfl | hy'
    · rfl
    · exact absurd hk.symm (nd.1 y hy')
    · exact absurd hk (nd.1 x hx')
    · exact ih nd.2 hx' hy'

theorem refreshOf_perm {c c' : Costs} (p : c.Perm c') (nd : (c.map (·.1)).Nodup) :
    refreshOf c = refreshOf c' := by
  unfold refreshOf
  apply List.Perm.foldl_eq' p
  intro x hx y hy z
  by_cases hk : x.1 = y.1
  · rw [eq_of_key_eq nd hx hy hk]
  · exact refreshStep_comm z x y hk

/-- lexicographic order on (cost, hop) -/
def lexLt (c1 h1 c2 h2 : Nat) : Prop := c1 < c2 ∨ (c1 = c2 ∧ h1 < h2)
def lexLe (c1 h1 c2 h2 : Nat) : Prop := c1 < c2 ∨ (c1 = c2 ∧ h1 ≤ h2)

/-- what the loop has established after processing the items `s` -/
structure Top2 (b : Best) (s : Costs) : Prop where
  sorted : lexLe b.low1 b.nh1 b.low2 b.nh2
  le1 : b.low1 ≤ inf
  le2 : b.low2 ≤ inf
  z1 : b.low1 = inf → b.nh1 = 0
  z2 : b.low2 = inf → b.nh2 = 0
  min1 : ∀ h c, (h, c) ∈ s → c < inf → lexLe b.low1 b.nh1 c h
  min2 : ∀ h c, (h, c) ∈ s → c < inf → (h = b.nh1 ∧ c = b.low1) ∨ lexLe b.low2 b.nh2 c h
  mem1 : b.low1 < inf → (b.nh1, b.low1) ∈ s
  mem2 : b.low2 < inf → (b.nh2, b.low2) ∈ s ∧ b.nh2 ≠ b.nh1

theorem top2_nil : Top2 best0 [] := by
  constructor
  · simp [best0, lexLe]
  · simp [best0]
  · simp [best0]
  · simp [best0]
  · simp [best0]
  · simp
  · simp
  · intro h; simp [best0] at h
  · intro h; simp [best0] at h

theorem top2_step {b : Best} {s : Costs} (t : Top2 b s) (x : Nat × Nat)
    (hnew : ∀ c, (x.1, c) ∉ s) : Top2 (refreshStep b x) (s ++ [x]) := by
  obtain ⟨xh, xc⟩ := x
  obtain ⟨l1, h1, l2, h2⟩ := b
  obtain ⟨sorted, le1, le2, z1, z2, min1, min2, mem1, mem2⟩ := t
  simp only [lexLe] at *
  unfold refreshStep
  simp only
  split
  · rename_i hc
    constructor <;> simp only [lexLe, List.mem_append, List.mem_singleton]
    · omega
    · omega
    · omega
    · intro; omega
    · exact z1
    · intro h c hm hf
      rcases hm with hm | heq
      · have := min1 h c hm hf; omega
      · cases heq
        omega
    · intro h c hm hf
      rcases hm with hm | heq
      · have := min1 h c hm hf
        right; omega
      · cases heq
        left; exact ⟨rfl, rfl⟩
    · intro _; exact Or.inr trivial
    · intro hf
      have := mem1 hf
      refine ⟨Or.inl this, ?_⟩
      intro e; subst e
      exact hnew _ this
  · split
    · rename_i hc1 hc2
      constructor <;> simp only [lexLe, List.mem_append, List.mem_singleton]
      · omega
      · omega
      · omega
      · exact z1
      · intro; omega
      · intro h c hm hf
        rcases hm with hm | heq
        · exact min1 h c hm hf
        · cases heq
          omega
      · intro h c hm hf
        rcases hm with hm | heq
        · have := min2 h c hm hf; omega
        · cases heq
          right; omega
      · intro hf; exact Or.inl (mem1 hf)
      · intro _
        refine ⟨Or.inr trivial, ?_⟩
        intro e; subst e
        have : l1 < inf := by omega
        exact hnew _ (mem1 this)
    · rename_i hc1 hc2
      constructor <;> simp only [lexLe, List.mem_append, List.mem_singleton]
      · omega
      · omega
      · omega
      · exact z1
      · exact z2
      · intro h c hm hf
        rcases hm with hm | heq
        · exact min1 h c hm hf
        · cases heq
          omega
      · intro h c hm hf
        rcases hm with hm | heq
        · exact min2 h c hm hf
        · cases heq
          right; omega
      · intro hf; exact Or.inl (mem1 hf)
      · intro hf; exact ⟨Or.inl (mem2 hf).1, (mem2 hf).2⟩

theorem top2_foldl (c : Costs) : ∀ (s : Costs) (b : Best), Top2 b s →
    ((s ++ c).map (·.1)).Nodup → Top2 (c.foldl refreshStep b) (s ++ c) := by
  induction c with
  | nil => intro s b t _; simpa using t
  | cons x c ih =>
    intro s b t nd
    have hnew : ∀ k, (x.1, k) ∉ s := by
      intro k hm
      rw [List.map_append, List.map_cons] at nd
      have := (List.nodup_append.1 nd).2.2 x.1 (List.mem_map.2 ⟨(x.1, k), hm, rfl⟩) x.1 (List.mem_cons_self ..)
      exact this rfl
    have t' := top2_step t x hnew
    have := ih (s ++ [x]) (refreshStep b x) t' (by simpa [List.append_assoc] using nd)
    simpa [List.append_assoc] using this

/-- `refresh` computes the lexicographic top-2 of the finite (cost, hop) pairs -/
theorem refreshOf_top2 (c : Costs) (nd : (c.map (·.1)).Nodup) : Top2 (refreshOf c) c := by
  have := top2_foldl c [] best0 top2_nil (by simpa using nd)
  simpa [refreshOf] using this

/-! ### split horizon: what poison reverse through OtherCost computes -/

/-- lowest cost over the next hops other than `u` (infinity if there is none) -/
def minExcl (c : Costs) (u : Nat) : Nat :=
  c.foldl (fun m hc => if hc.1 = u then m else min m hc.2) inf

/-- `x` if below infinity, else infinity -/
def capInf (x : Nat) : Nat := if x < inf then x else inf

theorem minExcl_aux (c : Costs) (u : Nat) : ∀ m0 : Nat,
    c.foldl (fun m hc => if hc.1 = u then m else min m hc.2) m0 ≤ m0 ∧
    (∀ h k, (h, k) ∈ c → h ≠ u → c.foldl (fun m hc => if hc.1 = u then m else min m hc.2) m0 ≤ k) ∧
    (c.foldl (fun m hc => if hc.1 = u then m else min m hc.2) m0 = m0 ∨
      ∃ h k, (h, k) ∈ c ∧ h ≠ u ∧ k = c.foldl (fun m hc => if hc.1 = u then m else min m hc.2) m0) := by
  induction c with
  | nil => intro m0; simp
  | cons x t ih =>
    intro m0
    obtain ⟨xh, xk⟩ := x
    simp only [List.foldl_cons]
    by_cases hx : xh = u
    · subst hx
      simp only [if_true]
      obtain ⟨a, b, hc⟩ := ih m0
      refine ⟨a, ?_, ?_⟩
      · intro h k hm hne
        rcases List.mem_cons.1 hm with heq | hm
        · cases heq; exact absurd rfl hne
        · exact b h k hm hne
      · rcases hc with hc | ⟨h, k, hm, hne, hk⟩
        · exact Or.inl hc
        · exact Or.inr ⟨h, k, List.mem_cons_of_mem _ hm, hne, hk⟩
    · simp only [hx, if_false]
      obtain ⟨a, b, hc⟩ := ih (min m0 xk)
      have hmin1 : min m0 xk ≤ m0 := Nat.min_le_left ..
      have hmin2 : min m0 xk ≤ xk := Nat.min_le_right ..
      refine ⟨Nat.le_trans a hmin1, ?_, ?_⟩
      · intro h k hm hne
        rcases List.mem_cons.1 hm with heq | hm
        · cases heq; exact Nat.le_trans a hmin2
        · exact b h k hm hne
      · rcases hc with hc | ⟨h, k, hm, hne, hk⟩
        · by_cases hlt : m0 ≤ xk
          · left; rw [hc]; exact Nat.min_eq_left hlt
          · right
            refine ⟨xh, xk, List.mem_cons_self .., hx, ?_⟩
            rw [hc]; exact (Nat.min_eq_right (Nat.le_of_lt (Nat.lt_of_not_le hlt))).symm
        · exact Or.inr ⟨h, k, List.mem_cons_of_mem _ hm, hne, hk⟩

theorem minExcl_le_inf (c : Costs) (u : Nat) : minExcl c u ≤ inf := (minExcl_aux c u inf).1

theorem minExcl_le (c : Costs) (u : Nat) {h k : Nat} (hm : (h, k) ∈ c) (hne : h ≠ u) :
    minExcl c u ≤ k := (minExcl_aux c u inf).2.1 h k hm hne

theorem minExcl_attained (c : Costs) (u : Nat) (hlt : minExcl c u < inf) :
    ∃ h, (h, minExcl c u) ∈ c ∧ h ≠ u := by
  rcases (minExcl_aux c u inf).2.2 with e | ⟨h, k, hm, hne, hk⟩
  · unfold minExcl at hlt; omega
  · exact ⟨h, by unfold minExcl; rw [← hk]; exact hm, hne⟩

/-- Poison reverse through `OtherCost` is split horizon: the cost `ribUpdate` at router `self`
    derives from the advertised (next hop, cost, other cost) of an entry whose selection is the
    top-2 of `c` equals 1 + the lowest cost over the next hops other than `self` -/
theorem advCost_splitHorizon {b : Best} {c : Costs} (t : Top2 b c) (self d : Nat) :
    capInf (advCost self { dest := d, nh := b.nh1, cost := b.low1, other := b.low2 }) =
      capInf (minExcl c self + 1) := by
  obtain ⟨sorted, le1, le2, z1, z2, min1, min2, mem1, mem2⟩ := t
  have mle := minExcl_le_inf c self
  have hatt := minExcl_attained c self
  simp only [lexLe] at *
  unfold advCost capInf
  simp only
  by_cases hn : b.nh1 = self
  · simp only [hn, if_true]
    have hm : minExcl c self = b.low2 := by
      by_cases hlt : minExcl c self < inf
      · obtain ⟨h, hmem, hne⟩ := hatt hlt
        have h2 := min2 h _ hmem hlt
        have hl2 : b.low2 < inf := by
          rcases h2 with ⟨e, _⟩ | h2
          · exact absurd (e.trans hn) hne
          · omega
        have := minExcl_le c self (mem2 hl2).1 (by rw [← hn]; exact (mem2 hl2).2)
        rcases h2 with ⟨e, _⟩ | h2
        · exact absurd (e.trans hn) hne
        · omega
      · by_cases hl2 : b.low2 < inf
        · have := minExcl_le c self (mem2 hl2).1 (by rw [← hn]; exact (mem2 hl2).2)
          omega
        · omega
    rw [hm]
    by_cases hl2 : b.low2 < inf <;> simp [hl2] <;> omega
  · simp only [hn, if_false]
    have hm : minExcl c self = b.low1 := by
      by_cases hl1 : b.low1 < inf
      · have h1 := minExcl_le c self (mem1 hl1) hn
        have hlt : minExcl c self < inf := by omega
        obtain ⟨h, hmem, hne⟩ := hatt hlt
        have := min1 h _ hmem hlt
        omega
      · by_cases hlt : minExcl c self < inf
        · obtain ⟨h, hmem, hne⟩ := hatt hlt
          have := min1 h _ hmem hlt
          omega
        · omega
    rw [hm]

end Ndn.C18
