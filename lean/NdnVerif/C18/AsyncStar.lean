/-
  C18 — one advertiser, any number of listeners: the task-level model of `Async.lean` for a router w and ALL its
  neighbours u_0 .. u_{n-1} at once.  The state is one link state per listener; the advertiser's part of it
  (RIB version, `advertSyncSeq`, pending propagation / send goroutines) is SHARED: a step of the advertiser
  (`change`, `runFib`, `runNotify`, `runSend`, `heartbeat`) happens on every link at the same time — in particular a
  Sync Interest is multicast: `runSend` / `heartbeat` put one copy into every link's channel, and each copy fares on
  its own (delivered, duplicated, lost).  A step of a listener or of one link's channel happens on that link only.
-/
import NdnVerif.C18.LemmasAsync
namespace Ndn.C18.Async

/-- the advertiser's share of a link state -/
structure WPart where
  ver : Nat
  seq : Nat
  seqVer : Nat
  fibVer : Nat
  grpFib : Nat
  grpNotify : Nat
  sendPending : Nat
deriving DecidableEq, Repr

def St.w (st : St) : WPart :=
  ⟨st.ver, st.seq, st.seqVer, st.fibVer, st.grpFib, st.grpNotify, st.sendPending⟩

/-- steps of the advertiser itself -/
def Step.ofAdvertiser : Step → Bool
  | .change | .runFib | .runNotify | .runSend | .heartbeat => true
  | _ => false

inductive GStep where
  /-- a step of the advertiser (must satisfy `ofAdvertiser`; others are ignored) -/
  | adv (a : Step)
  /-- a step of listener `k` / of the channel between w and listener `k` (must NOT be an advertiser step) -/
  | link (k : Nat) (a : Step)

def modifyAt (l : List St) (k : Nat) (f : St → St) : List St :=
  match l, k with
  | [], _ => []
  | x :: t, 0 => f x :: t
  | x :: t, k + 1 => x :: modifyAt t k f

def gstep (gs : List St) : GStep → List St
  | .adv a => if a.ofAdvertiser then gs.map (step · a) else gs
  | .link k a => if a.ofAdvertiser then gs else modifyAt gs k (step · a)

def grun (gs : List St) (steps : List GStep) : List St := steps.foldl gstep gs

/-- what link `k` sees of a global step -/
def GStep.proj (k : Nat) : GStep → List Step
  | .adv a => if a.ofAdvertiser then [a] else []
  | .link j a => if a.ofAdvertiser then [] else if j = k then [a] else []

theorem modifyAt_getElem? (l : List St) (k j : Nat) (f : St → St) :
    (modifyAt l k f)[j]? = if j = k then l[j]?.map f else l[j]? := by
  induction l generalizing k j with
  | nil => cases k <;> simp [modifyAt]
  | cons x t ih =>
    cases k with
    | zero => cases j <;> simp [modifyAt]
    | succ k =>
      cases j with
      | zero => simp [modifyAt]
      | succ j => simp only [modifyAt, List.getElem?_cons_succ, ih]; by_cases h : j = k <;> simp [h]

theorem gstep_proj (gs : List St) (g : GStep) (k : Nat) :
    (gstep gs g)[k]? = gs[k]?.map (fun st => run st (g.proj k)) := by
  cases g with
  | adv a =>
    simp only [gstep, GStep.proj]
    split
    · simp [run]
    · simp [run]
  | link j a =>
    simp only [gstep, GStep.proj]
    split
    · simp [run]
    · rw [modifyAt_getElem?]
      by_cases h : j = k
      · subst h; simp [run]
      · have : ¬ k = j := fun e => h e.symm
        simp [run, h, this]

theorem run_append (st : St) (a b : List Step) : run st (a ++ b) = run (run st a) b := by
  simp [run, List.foldl_append]

/-- **Projection.**  Link `k` of any run of the star is a run of the single-link system. -/
theorem grun_proj (gs : List St) (steps : List GStep) (k : Nat) :
    (grun gs steps)[k]? = gs[k]?.map (fun st => run st (steps.flatMap (GStep.proj k))) := by
  induction steps generalizing gs with
  | nil => simp [grun, run]
  | cons g t ih =>
    show (grun (gstep gs g) t)[k]? = _
    rw [ih, gstep_proj]
    cases gs[k]? with
    | none => rfl
    | some st => simp [List.flatMap_cons, run_append]

/-- the advertiser's share after one step depends only on the advertiser's share before it -/
theorem step_w_adv {s t : St} (h : s.w = t.w) (a : Step) (ha : a.ofAdvertiser = true) : (step s a).w = (step t a).w := by
  simp only [St.w, WPart.mk.injEq] at h
  obtain ⟨h1, h2, h3, h4, h5, h6, h7⟩ := h
  cases a <;> simp [Step.ofAdvertiser] at ha <;> simp only [step, St.w]
  · simp [h1, h2, h3, h4, h5, h6, h7]
  · rw [h5]; split <;> simp [h1, h2, h3, h4, h5, h6, h7]
  · rw [h6]; split <;> simp [h1, h2, h3, h4, h5, h6, h7]
  · rw [h7]; split <;> simp [h1, h2, h3, h4, h5, h6, h7]
  · simp [h1, h2, h3, h4, h5, h6, h7]

theorem onSync_w (st : St) (s : Nat) : (onSync st s).w = st.w := by
  unfold onSync; split <;> rfl

/-- a step of a listener or of a channel leaves the advertiser's share alone -/
theorem step_w_link (st : St) (a : Step) (ha : a.ofAdvertiser = false) : (step st a).w = st.w := by
  cases a with
  | change | runFib | runNotify | runSend | heartbeat => simp [Step.ofAdvertiser] at ha
  | deliverSync i keep =>
    simp only [step]; split
    · rfl
    · rw [onSync_w]; cases keep <;> rfl
  | dropSync i => rfl
  | runFetch i =>
    simp only [step]; split
    · rfl
    · split <;> rfl
  | serve i keep => simp only [step]; split <;> rfl
  | timeoutReq i => simp only [step]; split <;> rfl
  | deliverData i keep =>
    simp only [step]; split
    · rfl
    · split <;> cases keep <;> rfl
  | loseData i => simp only [step]; split <;> rfl
  | runRib => simp only [step]; split <;> rfl
  | dead => rfl

/-- all links agree on the advertiser's share -/
def Coupled (gs : List St) : Prop := ∀ s ∈ gs, ∀ t ∈ gs, s.w = t.w

theorem mem_modifyAt {l : List St} {k : Nat} {f : St → St} {x : St} (h : x ∈ modifyAt l k f) :
    x ∈ l ∨ ∃ y ∈ l, x = f y := by
  induction l generalizing k with
  | nil => cases k <;> simp [modifyAt] at h
  | cons a t ih =>
    cases k with
    | zero =>
      simp only [modifyAt, List.mem_cons] at h
      rcases h with h | h
      · exact Or.inr ⟨a, List.mem_cons_self .., h⟩
      · exact Or.inl (List.mem_cons_of_mem _ h)
    | succ k =>
      simp only [modifyAt, List.mem_cons] at h
      rcases h with h | h
      · exact Or.inl (by rw [h]; exact List.mem_cons_self ..)
      · rcases ih h with h | ⟨y, hy, e⟩
        · exact Or.inl (List.mem_cons_of_mem _ h)
        · exact Or.inr ⟨y, List.mem_cons_of_mem _ hy, e⟩

theorem coupled_gstep {gs : List St} (c : Coupled gs) (g : GStep) : Coupled (gstep gs g) := by
  cases g with
  | adv a =>
    simp only [gstep]
    split
    · rename_i ha
      intro s hs t ht
      obtain ⟨s0, hs0, rfl⟩ := List.mem_map.1 hs
      obtain ⟨t0, ht0, rfl⟩ := List.mem_map.1 ht
      exact step_w_adv (c s0 hs0 t0 ht0) a ha
    · exact c
  | link k a =>
    simp only [gstep]
    split
    · exact c
    · rename_i ha
      have ha' : a.ofAdvertiser = false := by simpa using ha
      intro s hs t ht
      have key : ∀ x, x ∈ modifyAt gs k (step · a) → ∃ y ∈ gs, x.w = y.w := by
        intro x hx
        rcases mem_modifyAt hx with h | ⟨y, hy, rfl⟩
        · exact ⟨x, h, rfl⟩
        · exact ⟨y, hy, step_w_link y a ha'⟩
      obtain ⟨s0, hs0, es⟩ := key s hs
      obtain ⟨t0, ht0, et⟩ := key t ht
      rw [es, et]; exact c s0 hs0 t0 ht0

theorem coupled_grun {gs : List St} (c : Coupled gs) (steps : List GStep) : Coupled (grun gs steps) := by
  induction steps generalizing gs with
  | nil => exact c
  | cons g t ih => exact ih (coupled_gstep c g)

/-- the star right after start-up: n listeners, advertiser booted with sequence number `s0` -/
def ginit (n s0 : Nat) : List St := List.replicate n (init s0)

theorem coupled_ginit (n s0 : Nat) : Coupled (ginit n s0) := by
  intro s hs t ht
  rw [List.eq_of_mem_replicate hs, List.eq_of_mem_replicate ht]

end Ndn.C18.Async
