/-
  C18 helper lemmas, part 2: the RIB operations in terms of the abstract cost function
  `Rib.cst r d h` (cost to destination d via next hop h, infinity when there is no such item) and
  the invariants that hold whenever the router mutex is released.  Core Lean only.
-/
import NdnVerif.C18.LemmasRefresh
namespace Ndn.C18

theorem inf_pos : 0 < inf := by decide

/-! ### association lists -/

theorem aget_aset (c : Costs) (k v k' : Nat) :
    aget (aset c k v) k' = if k' = k then some v else aget c k' := by
  induction c with
  | nil =>
    simp only [aset, aget]
    by_cases h : k' = k
    · simp [h]
    · have : ¬ k = k' := fun e => h e.symm
      simp [h, this]
  | cons x t ih =>
    obtain ⟨xk, xv⟩ := x
    simp only [aset]
    by_cases hx : xk = k
    · subst hx
      simp only [if_true, aget]
      by_cases h : k' = xk
      · simp [h]
      · have : ¬ xk = k' := fun e => h e.symm
        simp [h, this]
    · simp only [hx, if_false, aget, ih]
      by_cases h : k' = k
      · subst h; simp [hx]
      · simp [h]

theorem keys_aset (c : Costs) (k v : Nat) :
    ∀ x, x ∈ (aset c k v).map (·.1) ↔ x = k ∨ x ∈ c.map (·.1) := by
  induction c with
  | nil => intro x; simp [aset]
  | cons y t ih =>
    intro x
    obtain ⟨yk, yv⟩ := y
    simp only [aset]
    by_cases hy : yk = k
    · subst hy; simp
    · simp only [hy, if_false, List.map_cons, List.mem_cons, ih]
      constructor
      · rintro (h | h | h) <;> simp [h]
      · rintro (h | h | h) <;> simp [h]

theorem nodup_aset {c : Costs} (nd : (c.map (·.1)).Nodup) (k v : Nat) :
    ((aset c k v).map (·.1)).Nodup := by
  induction c with
  | nil => simp [aset]
  | cons y t ih =>
    obtain ⟨yk, yv⟩ := y
    simp only [List.map_cons, List.nodup_cons] at nd
    simp only [aset]
    by_cases hy : yk = k
    · subst hy; simp only [if_true, List.map_cons, List.nodup_cons]; exact nd
    · simp only [hy, if_false, List.map_cons, List.nodup_cons]
      refine ⟨?_, ih nd.2⟩
      intro hm
      rcases (keys_aset t k v yk).1 hm with h | h
      · exact hy h
      · exact nd.1 h

theorem mem_aset {c : Costs} {k v h x : Nat} (hm : (h, x) ∈ aset c k v) :
    (h = k ∧ x = v) ∨ (h, x) ∈ c := by
  induction c with
  | nil => simp [aset] at hm; exact Or.inl hm
  | cons y t ih =>
    obtain ⟨yk, yv⟩ := y
    simp only [aset] at hm
    by_cases hy : yk = k
    · simp only [hy, if_true, List.mem_cons, Prod.mk.injEq] at hm
      rcases hm with hm | hm
      · exact Or.inl hm
      · exact Or.inr (List.mem_cons_of_mem _ hm)
    · simp only [hy, if_false, List.mem_cons] at hm
      rcases hm with hm | hm
      · exact Or.inr (by rw [hm]; exact List.mem_cons_self ..)
      · rcases ih hm with h | h
        · exact Or.inl h
        · exact Or.inr (List.mem_cons_of_mem _ h)

theorem aget_aerase (c : Costs) (k k' : Nat) :
    aget (aerase c k) k' = if k' = k then none else aget c k' := by
  induction c with
  | nil => simp [aerase, aget]
  | cons x t ih =>
    obtain ⟨xk, xv⟩ := x
    simp only [aerase]
    by_cases hx : xk = k
    · subst hx
      simp only [if_true, ih, aget]
      by_cases h : k' = xk
      · simp [h]
      · have : ¬ xk = k' := fun e => h e.symm
        simp [h, this]
    · simp only [hx, if_false, aget, ih]
      by_cases h : k' = k
      · subst h; simp [hx]
      · simp [h]

theorem mem_aerase {c : Costs} {k h x : Nat} (hm : (h, x) ∈ aerase c k) : (h, x) ∈ c := by
  induction c with
  | nil => simp [aerase] at hm
  | cons y t ih =>
    obtain ⟨yk, yv⟩ := y
    simp only [aerase] at hm
    by_cases hy : yk = k
    · simp only [hy, if_true] at hm; exact List.mem_cons_of_mem _ (ih hm)
    · simp only [hy, if_false, List.mem_cons] at hm
      rcases hm with hm | hm
      · rw [hm]; exact List.mem_cons_self ..
      · exact List.mem_cons_of_mem _ (ih hm)

theorem nodup_aerase {c : Costs} (nd : (c.map (·.1)).Nodup) (k : Nat) :
    ((aerase c k).map (·.1)).Nodup := by
  induction c with
  | nil => simp [aerase]
  | cons y t ih =>
    obtain ⟨yk, yv⟩ := y
    simp only [List.map_cons, List.nodup_cons] at nd
    simp only [aerase]
    by_cases hy : yk = k
    · simp only [hy, if_true]; exact ih nd.2
    · simp only [hy, if_false, List.map_cons, List.nodup_cons]
      refine ⟨?_, ih nd.2⟩
      intro hm
      obtain ⟨p, hp, hpk⟩ := List.mem_map.1 hm
      obtain ⟨ph, px⟩ := p
      exact nd.1 (List.mem_map.2 ⟨(ph, px), mem_aerase hp, hpk⟩)

theorem aget_of_mem {c : Costs} (nd : (c.map (·.1)).Nodup) {h k : Nat} (hm : (h, k) ∈ c) :
    aget c h = some k := by
  induction c with
  | nil => cases hm
  | cons y t ih =>
    obtain ⟨yk, yv⟩ := y
    simp only [List.map_cons, List.nodup_cons] at nd
    simp only [aget]
    rcases List.mem_cons.1 hm with heq | hm'
    · cases heq; simp
    · have : yk ≠ h := by
        intro e; subst e
        exact nd.1 (List.mem_map.2 ⟨(yk, k), hm', rfl⟩)
      simp [this, ih nd.2 hm']

theorem mem_of_aget {c : Costs} {h k : Nat} (hg : aget c h = some k) : (h, k) ∈ c := by
  induction c with
  | nil => simp [aget] at hg
  | cons y t ih =>
    obtain ⟨yk, yv⟩ := y
    simp only [aget] at hg
    by_cases hy : yk = h
    · simp only [hy, if_true, Option.some.injEq] at hg
      subst hy; subst hg; exact List.mem_cons_self ..
    · simp only [hy, if_false] at hg
      exact List.mem_cons_of_mem _ (ih hg)

/-! ### the abstract cost function -/

/-- cost via next hop `h` in one entry's map (infinity when absent) -/
def cget (c : Costs) (h : Nat) : Nat := (aget c h).getD inf

def findE : List Entry → Nat → Option Entry
  | [], _ => none
  | e :: t, d => if e.dest = d then some e else findE t d

def costsL (es : List Entry) (d : Nat) : Costs :=
  match findE es d with
  | some e => e.costs
  | none => []

def cstL (es : List Entry) (d h : Nat) : Nat := cget (costsL es d) h

/-- the cost map of destination `d` (empty when there is no entry) -/
def Rib.costsOf (r : Rib) (d : Nat) : Costs := costsL r.entries d

/-- cost to destination `d` via next hop `h` (infinity when there is no such item) -/
def Rib.cst (r : Rib) (d h : Nat) : Nat := cstL r.entries d h

theorem cget_nil (h : Nat) : cget [] h = inf := rfl

theorem cget_aset (c : Costs) (k v h : Nat) : cget (aset c k v) h = if h = k then v else cget c h := by
  unfold cget; rw [aget_aset]; by_cases e : h = k <;> simp [e]

theorem cget_aerase (c : Costs) (k h : Nat) : cget (aerase c k) h = if h = k then inf else cget c h := by
  unfold cget; rw [aget_aerase]; by_cases e : h = k <;> simp [e]

theorem findE_none_of_not_mem {es : List Entry} {d : Nat} (h : d ∉ es.map (·.dest)) : findE es d = none := by
  induction es with
  | nil => rfl
  | cons e t ih =>
    simp only [List.map_cons, List.mem_cons, not_or] at h
    simp only [findE]
    have : ¬ e.dest = d := fun x => h.1 x.symm
    simp [this, ih h.2]

theorem findE_mem {es : List Entry} {d : Nat} {e : Entry} (h : findE es d = some e) : e ∈ es ∧ e.dest = d := by
  induction es with
  | nil => simp [findE] at h
  | cons x t ih =>
    simp only [findE] at h
    by_cases hx : x.dest = d
    · simp only [hx, if_true, Option.some.injEq] at h
      subst h; exact ⟨List.mem_cons_self .., hx⟩
    · simp only [hx, if_false] at h
      exact ⟨List.mem_cons_of_mem _ (ih h).1, (ih h).2⟩

theorem findE_of_mem {es : List Entry} (nd : (es.map (·.dest)).Nodup) {e : Entry} (h : e ∈ es) :
    findE es e.dest = some e := by
  induction es with
  | nil => cases h
  | cons x t ih =>
    simp only [List.map_cons, List.nodup_cons] at nd
    simp only [findE]
    rcases List.mem_cons.1 h with rfl | h'
    · simp
    · have : x.dest ≠ e.dest := by
        intro e'; exact nd.1 (by rw [e']; exact List.mem_map.2 ⟨e, h', rfl⟩)
      simp [this, ih nd.2 h']

/-! ### entry-level invariants -/

/-- the cost map of an entry has distinct next hops and no cost above infinity -/
structure EOk (e : Entry) : Prop where
  nd : (e.costs.map (·.1)).Nodup
  le : ∀ h k, (h, k) ∈ e.costs → k ≤ inf

/-- dirty, or the cached selection is up to date -/
def DF (e : Entry) : Prop := e.dirty = true ∨ e.best = refreshOf e.costs

theorem refresh_dest (e : Entry) : e.refresh.1.dest = e.dest := rfl
theorem refresh_costs (e : Entry) : e.refresh.1.costs = e.costs := rfl
theorem refresh_best (e : Entry) : e.refresh.1.best = refreshOf e.costs := rfl

theorem set_dest (e : Entry) (nh cost : Nat) : (e.set nh cost).1.dest = e.dest := by
  unfold Entry.set; split
  · split <;> rfl
  · rfl

theorem set_cget (e : Entry) (nh cost h : Nat) :
    cget (e.set nh cost).1.costs h = if h = nh then cost else cget e.costs h := by
  unfold Entry.set; split
  · rename_i known hk
    split
    · rename_i heq
      by_cases hh : h = nh
      · subst hh; simp [cget, hk, heq]
      · simp [hh]
    · simp only [refresh_costs]; exact cget_aset ..
  · simp only [refresh_costs]; exact cget_aset ..

theorem set_ok {e : Entry} (ok : EOk e) (nh cost : Nat) (hc : cost ≤ inf) : EOk (e.set nh cost).1 := by
  have hset : EOk { e with costs := aset e.costs nh cost } := by
    constructor
    · exact nodup_aset ok.nd nh cost
    · intro h k hm
      rcases mem_aset hm with ⟨_, rfl⟩ | hm
      · exact hc
      · exact ok.le h k hm
  unfold Entry.set; split
  · split
    · exact ok
    · exact ⟨hset.nd, hset.le⟩
  · exact ⟨hset.nd, hset.le⟩

theorem set_df {e : Entry} (df : DF e) (nh cost : Nat) : DF (e.set nh cost).1 := by
  unfold Entry.set; split
  · split
    · exact df
    · exact Or.inr rfl
  · exact Or.inr rfl

/-! ### list-level invariants -/

/-- while the mutex is held: distinct destinations, well-formed cost maps, every entry dirty or fresh -/
structure Pre (es : List Entry) : Prop where
  nd : (es.map (·.dest)).Nodup
  ok : ∀ e ∈ es, EOk e
  df : ∀ e ∈ es, DF e

/-- when the mutex is released: additionally every selection is up to date and finite -/
structure Post (es : List Entry) : Prop where
  nd : (es.map (·.dest)).Nodup
  ok : ∀ e ∈ es, EOk e
  fresh : ∀ e ∈ es, e.best = refreshOf e.costs
  finite : ∀ e ∈ es, e.best.low1 < inf

theorem Post.pre {es : List Entry} (p : Post es) : Pre es :=
  ⟨p.nd, p.ok, fun e he => Or.inr (p.fresh e he)⟩

/-! ### DirtyResetNextHop -/

theorem dirtyReset_pre {es : List Entry} (nd : (es.map (·.dest)).Nodup) (ok : ∀ e ∈ es, EOk e) (w : Nat) :
    Pre (es.map fun e => { e with costs := aset e.costs w inf, dirty := true }) := by
  constructor
  · simpa [List.map_map, Function.comp_def] using nd
  · intro e he
    obtain ⟨e0, he0, rfl⟩ := List.mem_map.1 he
    constructor
    · exact nodup_aset (ok e0 he0).nd w inf
    · intro h k hm
      rcases mem_aset hm with ⟨_, rfl⟩ | hm
      · exact Nat.le_refl _
      · exact (ok e0 he0).le h k hm
  · intro e he
    obtain ⟨e0, _, rfl⟩ := List.mem_map.1 he
    exact Or.inl rfl

theorem dirtyReset_cst (es : List Entry) (w d h : Nat) :
    cstL (es.map fun e => { e with costs := aset e.costs w inf, dirty := true }) d h =
      if h = w then inf else cstL es d h := by
  induction es with
  | nil => simp [cstL, costsL, findE, cget_nil]
  | cons e t ih =>
    simp only [cstL, costsL, List.map_cons, findE] at ih ⊢
    by_cases he : e.dest = d
    · simp only [he, if_true]; exact cget_aset ..
    · simp only [he, if_false]; exact ih

/-! ### Set -/

theorem setEntries_dests (es : List Entry) (dest nh cost : Nat) :
    ∀ x, x ∈ (setEntries es dest nh cost).1.map (·.dest) ↔ x = dest ∨ x ∈ es.map (·.dest) := by
  induction es with
  | nil => intro x; simp [setEntries, set_dest, Entry.fresh]
  | cons e t ih =>
    intro x
    simp only [setEntries]
    by_cases he : e.dest = dest
    · simp only [he, if_true, List.map_cons, List.mem_cons, set_dest]
      constructor
      · rintro (h | h)
        · exact Or.inl h
        · exact Or.inr (Or.inr h)
      · rintro (h | h | h)
        · exact Or.inl h
        · exact Or.inl h
        · exact Or.inr h
    · simp only [he, if_false, List.map_cons, List.mem_cons, ih]
      constructor
      · rintro (h | h | h) <;> simp [h]
      · rintro (h | h | h) <;> simp [h]

theorem setEntries_pre {es : List Entry} (p : Pre es) (dest nh cost : Nat) (hc : cost ≤ inf) :
    Pre (setEntries es dest nh cost).1 := by
  induction es with
  | nil =>
    have ok0 : EOk (Entry.fresh dest) := ⟨by simp [Entry.fresh], by simp [Entry.fresh]⟩
    constructor
    · simp [setEntries]
    · intro e he
      simp only [setEntries, List.mem_singleton] at he
      subst he; exact set_ok ok0 nh cost hc
    · intro e he
      simp only [setEntries, List.mem_singleton] at he
      subst he
      unfold Entry.set
      simp [Entry.fresh, aget, DF, Entry.refresh]
  | cons e t ih =>
    have pt : Pre t := ⟨(List.nodup_cons.1 p.nd).2, fun x hx => p.ok x (List.mem_cons_of_mem _ hx),
      fun x hx => p.df x (List.mem_cons_of_mem _ hx)⟩
    simp only [setEntries]
    by_cases he : e.dest = dest
    · simp only [he, if_true]
      constructor
      · have := p.nd
        simp only [List.map_cons, List.nodup_cons, set_dest] at this ⊢
        exact this
      · intro x hx
        rcases List.mem_cons.1 hx with rfl | hx
        · exact set_ok (p.ok e (List.mem_cons_self ..)) nh cost hc
        · exact p.ok x (List.mem_cons_of_mem _ hx)
      · intro x hx
        rcases List.mem_cons.1 hx with rfl | hx
        · exact set_df (p.df e (List.mem_cons_self ..)) nh cost
        · exact p.df x (List.mem_cons_of_mem _ hx)
    · simp only [he, if_false]
      have iht := ih pt
      constructor
      · simp only [List.map_cons, List.nodup_cons]
        refine ⟨?_, iht.nd⟩
        intro hm
        rcases (setEntries_dests t dest nh cost e.dest).1 hm with h | h
        · exact he h
        · exact (List.nodup_cons.1 p.nd).1 h
      · intro x hx
        rcases List.mem_cons.1 hx with rfl | hx
        · exact p.ok x (List.mem_cons_self ..)
        · exact iht.ok x hx
      · intro x hx
        rcases List.mem_cons.1 hx with rfl | hx
        · exact p.df x (List.mem_cons_self ..)
        · exact iht.df x hx

theorem setEntries_cst (es : List Entry) (dest nh cost d h : Nat) :
    cstL (setEntries es dest nh cost).1 d h = if d = dest ∧ h = nh then cost else cstL es d h := by
  induction es with
  | nil =>
    simp only [setEntries, cstL, costsL, findE, set_dest, Entry.fresh]
    by_cases hd : dest = d
    · subst hd
      simp only [if_true, true_and]
      have := set_cget (Entry.fresh dest) nh cost h
      simp only [Entry.fresh, cget_nil] at this
      rw [this]; by_cases hh : h = nh <;> simp [hh, cget_nil]
    · have : ¬ d = dest := fun e => hd e.symm
      simp [hd, this, cget_nil]
  | cons e t ih =>
    simp only [setEntries]
    by_cases he : e.dest = dest
    · simp only [he, if_true, cstL, costsL, findE, set_dest]
      by_cases hd : dest = d
      · subst hd
        simp only [if_true, true_and]
        exact set_cget e nh cost h
      · have : ¬ d = dest := fun e => hd e.symm
        simp [hd, this]
    · simp only [he, if_false]
      simp only [cstL, costsL, findE] at ih ⊢
      by_cases hd : e.dest = d
      · have : ¬ d = dest := fun x => he (hd.trans x)
        simp [hd, this]
      · simp only [hd, if_false]; exact ih

/-! ### the loop of ribUpdate over the advertisement -/

/-- the cost installed for destination `d` by the advertisement entries (later entries win) -/
def advNewFrom (self : Nat) (m0 : Nat) (adv : List AdvEntry) (d : Nat) : Nat :=
  adv.foldl (fun m a => if a.dest = d ∧ advCost self a < inf then advCost self a else m) m0

theorem fold_pre_cst (self w : Nat) (adv : List AdvEntry) : ∀ (r : Rib) (fl : Bool), Pre r.entries →
    Pre (adv.foldl (ribUpdateStep self w) (r, fl)).1.entries ∧
    ∀ d h, (adv.foldl (ribUpdateStep self w) (r, fl)).1.cst d h =
      if h = w then advNewFrom self (r.cst d w) adv d else r.cst d h := by
  induction adv with
  | nil => intro r fl p; exact ⟨p, fun d h => by by_cases e : h = w <;> simp [advNewFrom, e]⟩
  | cons a t ih =>
    intro r fl p
    have hstep : ribUpdateStep self w (r, fl) a =
        if advCost self a ≥ inf then (r, fl)
        else ((r.set a.dest w (advCost self a)).1, (r.set a.dest w (advCost self a)).2 || fl) := rfl
    simp only [List.foldl_cons, advNewFrom]
    rw [hstep]
    by_cases hc : advCost self a ≥ inf
    · simp only [hc, if_true]
      have hlt : ¬ advCost self a < inf := by omega
      have := ih r fl p
      simp only [hlt, and_false, if_false]
      exact this
    · simp only [hc, if_false]
      have hlt : advCost self a < inf := by omega
      have p' : Pre (r.set a.dest w (advCost self a)).1.entries :=
        setEntries_pre p a.dest w (advCost self a) (by omega)
      have := ih (r.set a.dest w (advCost self a)).1 ((r.set a.dest w (advCost self a)).2 || fl) p'
      refine ⟨this.1, ?_⟩
      intro d h
      rw [this.2 d h]
      have hs : ∀ d h, (r.set a.dest w (advCost self a)).1.cst d h =
          if d = a.dest ∧ h = w then advCost self a else r.cst d h :=
        fun d h => setEntries_cst r.entries a.dest w (advCost self a) d h
      by_cases hh : h = w
      · simp only [hh, if_true, hs, and_true, hlt]
        by_cases hd : a.dest = d
        · subst hd; simp [advNewFrom]
        · have : ¬ d = a.dest := fun e => hd e.symm
          simp [hd, this, advNewFrom]
      · simp [hh, hs]

/-! ### Prune -/

/-- the entry as `Prune` sees it after the optional refresh -/
def pruneHead (e : Entry) : Entry := if e.dirty then e.refresh.1 else e

theorem pruneHead_dest (e : Entry) : (pruneHead e).dest = e.dest := by
  unfold pruneHead; split <;> rfl

theorem pruneHead_costs (e : Entry) : (pruneHead e).costs = e.costs := by
  unfold pruneHead; split <;> rfl

theorem pruneEntries_cons (e : Entry) (t : List Entry) :
    (pruneEntries (e :: t)).1 =
      if (pruneHead e).best.low1 = inf then (pruneEntries t).1 else pruneHead e :: (pruneEntries t).1 := by
  simp only [pruneEntries, pruneHead]
  by_cases hd : e.dirty = true
  · simp only [hd, if_true]
    by_cases hi : e.refresh.1.best.low1 = inf <;> simp [hi]
  · have hd' : e.dirty = false := by simpa using hd
    simp only [hd']
    by_cases hi : e.best.low1 = inf <;> simp [hi]

theorem pruneEntries_dests (es : List Entry) : ∀ x, x ∈ (pruneEntries es).1.map (·.dest) → x ∈ es.map (·.dest) := by
  induction es with
  | nil => intro x h; simp [pruneEntries] at h
  | cons e t ih =>
    intro x h
    rw [pruneEntries_cons] at h
    split at h
    · exact List.mem_cons_of_mem _ (ih x h)
    · simp only [List.map_cons, List.mem_cons, pruneHead_dest] at h ⊢
      rcases h with h | h
      · exact Or.inl h
      · exact Or.inr (ih x h)

theorem all_inf_of_low1 {c : Costs} (nd : (c.map (·.1)).Nodup) (le : ∀ h k, (h, k) ∈ c → k ≤ inf)
    (hl : (refreshOf c).low1 = inf) (h : Nat) : cget c h = inf := by
  have t := refreshOf_top2 c nd
  unfold cget
  cases hg : aget c h with
  | none => rfl
  | some k =>
    simp only [Option.getD_some]
    have hm := mem_of_aget hg
    have := le h k hm
    by_cases hk : k < inf
    · have := t.min1 h k hm hk
      simp only [lexLe] at this
      omega
    · omega

theorem pruneEntries_post {es : List Entry} (p : Pre es) :
    Post (pruneEntries es).1 ∧ ∀ d h, cstL (pruneEntries es).1 d h = cstL es d h := by
  induction es with
  | nil => exact ⟨⟨by simp [pruneEntries], by simp [pruneEntries], by simp [pruneEntries], by simp [pruneEntries]⟩, fun _ _ => rfl⟩
  | cons e t ih =>
    have pt : Pre t := ⟨(List.nodup_cons.1 p.nd).2, fun x hx => p.ok x (List.mem_cons_of_mem _ hx),
      fun x hx => p.df x (List.mem_cons_of_mem _ hx)⟩
    obtain ⟨post, hcst⟩ := ih pt
    have hok := p.ok e (List.mem_cons_self ..)
    -- the entry after the optional refresh
    have hdest := pruneHead_dest e
    have hcosts := pruneHead_costs e
    have hbest : (pruneHead e).best = refreshOf e.costs := by
      unfold pruneHead
      by_cases hd : e.dirty = true
      · simp [hd, refresh_best]
      · simp only [hd]
        rcases p.df e (List.mem_cons_self ..) with h | h
        · exact absurd h hd
        · exact h
    have hnotin : e.dest ∉ (pruneEntries t).1.map (·.dest) :=
      fun h => (List.nodup_cons.1 p.nd).1 (pruneEntries_dests t _ h)
    rw [pruneEntries_cons]
    by_cases hinf : (pruneHead e).best.low1 = inf
    · simp only [hinf, if_true]
      refine ⟨post, ?_⟩
      intro d h
      rw [hcst]
      simp only [cstL, costsL, findE]
      by_cases hd : e.dest = d
      · simp only [hd, if_true]
        have : findE t d = none := findE_none_of_not_mem (by rw [← hd]; exact (List.nodup_cons.1 p.nd).1)
        rw [this]
        rw [hbest] at hinf
        exact (all_inf_of_low1 hok.nd hok.le hinf h).symm ▸ rfl
      · simp [hd]
    · simp only [hinf, if_false]
      have t2 := refreshOf_top2 e.costs hok.nd
      constructor
      · constructor
        · simp only [List.map_cons, List.nodup_cons, hdest]
          exact ⟨hnotin, post.nd⟩
        · intro x hx
          rcases List.mem_cons.1 hx with rfl | hx
          · exact ⟨by rw [hcosts]; exact hok.nd, by rw [hcosts]; exact hok.le⟩
          · exact post.ok x hx
        · intro x hx
          rcases List.mem_cons.1 hx with rfl | hx
          · rw [hbest, hcosts]
          · exact post.fresh x hx
        · intro x hx
          rcases List.mem_cons.1 hx with rfl | hx
          · have := t2.le1
            rw [hbest] at hinf
            rw [hbest]; omega
          · exact post.finite x hx
      · intro d h
        simp only [cstL, costsL, findE, hdest]
        by_cases hd : e.dest = d
        · simp [hd, hcosts]
        · simp only [hd, if_false]
          exact hcst d h

/-! ### RemoveNextHop -/

theorem removeNh_dests (es : List Entry) (w : Nat) :
    (removeNhEntries es w).1.map (·.dest) = es.map (·.dest) := by
  induction es with
  | nil => rfl
  | cons e t ih =>
    simp only [removeNhEntries]
    split <;> simp [ih, refresh_dest]

theorem removeNh_pre {es : List Entry} (p : Pre es) (w : Nat) :
    Pre (removeNhEntries es w).1 ∧ ∀ d h, cstL (removeNhEntries es w).1 d h = if h = w then inf else cstL es d h := by
  induction es with
  | nil => exact ⟨⟨by simp [removeNhEntries], by simp [removeNhEntries], by simp [removeNhEntries]⟩,
      fun d h => by by_cases e : h = w <;> simp [removeNhEntries, cstL, costsL, findE, cget_nil, e]⟩
  | cons e t ih =>
    have pt : Pre t := ⟨(List.nodup_cons.1 p.nd).2, fun x hx => p.ok x (List.mem_cons_of_mem _ hx),
      fun x hx => p.df x (List.mem_cons_of_mem _ hx)⟩
    obtain ⟨pre, hcst⟩ := ih pt
    have hok := p.ok e (List.mem_cons_self ..)
    have hnd := p.nd
    simp only [List.map_cons, List.nodup_cons] at hnd
    simp only [removeNhEntries]
    cases hg : aget e.costs w with
    | some v =>
      simp only
      constructor
      · constructor
        · simp only [List.map_cons, List.nodup_cons, refresh_dest, removeNh_dests]; exact hnd
        · intro x hx
          rcases List.mem_cons.1 hx with rfl | hx
          · exact ⟨nodup_aerase hok.nd w, fun h k hm => hok.le h k (mem_aerase hm)⟩
          · exact pre.ok x hx
        · intro x hx
          rcases List.mem_cons.1 hx with rfl | hx
          · exact Or.inr rfl
          · exact pre.df x hx
      · intro d h
        simp only [cstL, costsL, findE, refresh_dest]
        by_cases hd : e.dest = d
        · simp only [hd, if_true, refresh_costs]; exact cget_aerase ..
        · simp only [hd, if_false]; exact hcst d h
    | none =>
      simp only
      constructor
      · constructor
        · simp only [List.map_cons, List.nodup_cons, removeNh_dests]; exact hnd
        · intro x hx
          rcases List.mem_cons.1 hx with rfl | hx
          · exact hok
          · exact pre.ok x hx
        · intro x hx
          rcases List.mem_cons.1 hx with rfl | hx
          · exact p.df x (List.mem_cons_self ..)
          · exact pre.df x hx
      · intro d h
        simp only [cstL, costsL, findE]
        by_cases hd : e.dest = d
        · simp only [hd, if_true]
          by_cases hh : h = w
          · subst hh; simp [cget, hg]
          · simp [hh]
        · simp only [hd, if_false]; exact hcst d h

/-! ### the invariant at mutex release and the two router-level operations -/

/-- the RIB invariant whenever the router mutex is released -/
def Rib.WF (r : Rib) : Prop := Post r.entries

theorem ribUpdate_wf_cst (self : Nat) {r : Rib} (wf : r.WF) (w : Nat) (adv : List AdvEntry) :
    (ribUpdate self r w adv).1.WF ∧
    ∀ d h, (ribUpdate self r w adv).1.cst d h = if h = w then advNewFrom self inf adv d else r.cst d h := by
  unfold ribUpdate
  have p1 : Pre (r.dirtyReset w).entries := dirtyReset_pre wf.nd wf.ok w
  have c1 : ∀ d h, (r.dirtyReset w).cst d h = if h = w then inf else r.cst d h := dirtyReset_cst r.entries w
  obtain ⟨p2, c2⟩ := fold_pre_cst self w adv (r.dirtyReset w) false p1
  obtain ⟨p3, c3⟩ := pruneEntries_post p2
  refine ⟨p3, ?_⟩
  intro d h
  show cstL (pruneEntries _).1 d h = _
  rw [c3]
  have := c2 d h
  simp only [Rib.cst] at this c1
  rw [this, c1, c1]
  by_cases hh : h = w <;> simp [hh, Rib.cst]

theorem ribDead_wf_cst {r : Rib} (wf : r.WF) (w : Nat) :
    (ribDead r w).1.WF ∧ ∀ d h, (ribDead r w).1.cst d h = if h = w then inf else r.cst d h := by
  unfold ribDead
  obtain ⟨p1, c1⟩ := removeNh_pre wf.pre w
  obtain ⟨p2, c2⟩ := pruneEntries_post p1
  refine ⟨p2, ?_⟩
  intro d h
  show cstL (pruneEntries _).1 d h = _
  rw [c2]; exact c1 d h

theorem start_wf_cst (id : Nat) :
    (Router.start id).rib.WF ∧ ∀ d h, (Router.start id).rib.cst d h = if d = id ∧ h = id then 0 else inf := by
  have p0 : Pre (Rib.empty).entries := ⟨by simp [Rib.empty], by simp [Rib.empty], by simp [Rib.empty]⟩
  have p1 := setEntries_pre p0 id id 0 (Nat.zero_le _)
  have c1 := setEntries_cst (Rib.empty).entries id id 0
  constructor
  · -- the single entry is fresh with lowest cost 0
    show Post (setEntries [] id id 0).1
    simp only [setEntries, Entry.set, Entry.fresh, aget, Entry.refresh, aset]
    refine ⟨by simp, ?_, by simp, ?_⟩
    · intro e he
      simp only [List.mem_singleton] at he; subst he
      exact ⟨by simp, by intro h k hm; simp at hm; omega⟩
    · intro e he
      simp only [List.mem_singleton] at he; subst he
      simp [refreshOf, refreshStep, best0, inf_pos]
  · intro d h
    have := c1 d h
    simpa [Rib.cst, Router.start, Rib.set, Rib.empty, cstL, costsL, findE, cget_nil] using this

end Ndn.C18
