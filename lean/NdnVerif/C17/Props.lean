/-
  C17 — property theorems only (helper lemmas live in Lemmas.lean).
-/
import NdnVerif.C17.Model
import NdnVerif.C17.Spec
namespace Ndn.C17

theorem run_short_name_dropped (st : St) (ext : Ext) (f : Nat) (n : Name) (p : Params) (h : n.length < 4) :
    run st ext f n p = (st, .none) := by
  simp [run, h]

end Ndn.C17
