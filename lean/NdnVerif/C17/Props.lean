/-
  C17 — property theorems (helper lemmas live in Lemmas.lean).

  Everything is stated for EVERY model state satisfying the invariant `StWF` (established for the
  initial state and preserved by every step: `wf_init`, `wf_step`, hence for every history:
  `wf_history`), every arrival face, every name, every decoded ControlParameters value, every
  answer of the oracles (`Ext`: RIB→FIB flattening, C06; `routed`: forwarding plane, C02/C05).
  `check` is the same executable predicate the driver evaluates on the implementation's outputs.
-/
import NdnVerif.C17.Lemmas
namespace Ndn.C17

/-! ### the invariant holds along every history -/

structure Input where
  ext : Ext
  routed : Bool
  face : Nat
  name : Name
  params : Params
  closes : Bool := false     -- instead of an arrival: face `face` closes on its own

def stepIn (st : St) (i : Input) : St :=
  if i.closes then faceClosed st i.ext i.face else (sysStep st i.ext i.routed i.face i.name i.params).1

/-- the state after any history of arrivals and face closures -/
def runHistory (st : St) (h : List Input) : St := h.foldl stepIn st

theorem wf_init (lh : Bool) : StWF (init lh) := by
  refine ⟨⟨?_, ?_⟩, by simp [init], by simp [init, maxInt]⟩
  · intro f hf hs
    simp [init, initFaces, mkHook] at hf
    rcases hf with rfl | rfl | rfl | rfl | rfl | rfl | rfl <;> first | rfl | (simp [schemeUpdatable] at hs)
  · intro f hf
    simp [init, initFaces, mkHook] at hf
    rcases hf with rfl | rfl | rfl | rfl | rfl | rfl | rfl <;> simp [init]

/-- `usable` (every chosen strategy is instantiated, every face MTU carries a packet, capacity ≥ 0)
    holds initially -/
theorem usable_init (lh : Bool) : usable (tablesOf (init lh)) = true := by
  simp [usable, tablesOf, init, initFaces, mkHook, instantiated, specMaxOverhead]

theorem faceAfter_scheme (f : Face) (a : Args) :
    schemeUpdatable (faceAfter f a) = schemeUpdatable f ∧ (faceAfter f a).ndnlp = f.ndnlp := by
  have h : (faceAfter f a).rscheme = f.rscheme := by
    unfold faceAfter
    cases a.pers <;> cases a.bcmi <;> cases a.dct <;> cases a.mtu <;> cases a.flags <;> cases a.mask <;>
      simp [applyFlags] <;> (repeat' split) <;> rfl
  exact ⟨by simp [schemeUpdatable, h], (faceAfter_keep f a).2⟩

theorem effect_facesWF (t : Tables) (f : Nat) (v : Verb) (a : Args) (n : Nat) (h : FacesWF t.faces) :
    FacesWF (effect t f v a n).t.faces := by
  cases v <;> simp only [effect]
  case csConfig => cases a.capacity <;> exact h
  case faceUpdate =>
    cases hg : faceGet t.faces (targetFace a f) with
    | none => exact h
    | some fc =>
      intro g hgm hgs
      rcases mem_faceSet hgm with hm | rfl
      · exact h g hm hgs
      · rw [← faceAfter_eq] at hgs ⊢
        rw [(faceAfter_scheme fc a).1] at hgs
        rw [(faceAfter_scheme fc a).2]
        exact h fc (faceGet_some hg).1 hgs
  case faceDestroy =>
    split
    · exact fun g hg hs => h g (mem_faceRemove hg) hs
    · exact h
  case faceCreate =>
    have key : ∀ c canon, FacesWF (t.faces ++ [newFace n c canon a]) := by
      intro c canon g hg hs
      rcases List.mem_append.1 hg with h' | h'
      · exact h g h' hs
      · simp at h'; subst h'
        unfold newFace
        cases a.flags <;> cases a.mask <;> simp [applyFlags_keep]
    cases hc : a.uri.bind uriClass with
    | none => exact h
    | some c => cases c <;> first | exact key _ _ | exact h
  all_goals exact h

theorem effect_ids (t : Tables) (f : Nat) (v : Verb) (a : Args) (m n : Nat) (hm : v = .faceCreate → m = n)
    (h : ∀ g ∈ t.faces, g.id < n) :
    ∀ g ∈ (effect t f v a m).t.faces, g.id < n + (effect t f v a m).consumesId.toNat := by
  cases v <;> simp only [effect]
  case csConfig => cases a.capacity <;> simpa using h
  case faceUpdate =>
    cases hg : faceGet t.faces (targetFace a f) with
    | none => simpa using h
    | some fc =>
      intro g hgm
      rcases mem_faceSet hgm with hm' | rfl
      · simpa using h g hm'
      · rw [← faceAfter_eq, (faceAfter_keep fc a).1]
        simpa using h fc (faceGet_some hg).1
  case faceDestroy =>
    split
    · intro g hg; simpa using h g (mem_faceRemove hg)
    · simpa using h
  case faceCreate =>
    have hmn := hm rfl
    subst hmn
    have key : ∀ c canon, ∀ g ∈ t.faces ++ [newFace m c canon a], g.id < m + 1 := by
      intro c canon g hg
      rcases List.mem_append.1 hg with h' | h'
      · have := h g h'; omega
      · simp at h'; subst h'; rw [newFace_id]; omega
    cases hc : a.uri.bind uriClass with
    | none => simpa using h
    | some c => cases c <;> first | (simpa using key _ _) | (simpa using h)
  all_goals simpa using h

theorem effect_cs (t : Tables) (f : Nat) (v : Verb) (hasP : Bool) (a : Args) (n : Nat)
    (hv : validity t f v hasP (.args a) = .valid) (h0 : 0 ≤ t.cs) (h1 : t.cs ≤ (maxInt : Int)) :
    0 ≤ (effect t f v a n).t.cs ∧ (effect t f v a n).t.cs ≤ (maxInt : Int) := by
  cases v <;> simp only [effect]
  case csConfig =>
    cases hk : a.capacity with
    | none => exact ⟨h0, h1⟩
    | some k =>
      have hk' : k ≤ maxInt := by
        simp only [validity, hk] at hv
        by_cases hle : k ≤ maxInt
        · exact hle
        · exfalso
          cases hasP <;> simp [hle] at hv
      refine ⟨by simp, ?_⟩
      simp only []
      exact_mod_cast hk'
  case faceUpdate => cases faceGet t.faces (targetFace a f) <;> exact ⟨h0, h1⟩
  case faceDestroy => split <;> exact ⟨h0, h1⟩
  case faceCreate =>
    cases hc : a.uri.bind uriClass with
    | none => exact ⟨h0, h1⟩
    | some c => cases c <;> exact ⟨h0, h1⟩
  all_goals exact ⟨h0, h1⟩

/-- one step preserves the invariant -/
theorem wf_step (st : St) (ext : Ext) (routed : Bool) (face : Nat) (name : Name) (p : Params) (h : StWF st) :
    StWF (sysStep st ext routed face name p).1 := by
  obtain ⟨⟨hwf, hid⟩, h0, h1⟩ := h
  rcases sysStep_char st ext routed face name p ⟨hwf, hid⟩ with ⟨hs, _⟩ | ⟨_, _, hs, hv⟩
  · rw [hs]; exact ⟨⟨hwf, hid⟩, h0, h1⟩
  · rw [hs, post_fst]
    cases hvo : verbOf name with
    | none =>
      simp only [hvo] at hv
      obtain ⟨htb, _, hnf, _⟩ := hv
      simp only [tbl, Prod.mk.injEq] at htb
      obtain ⟨_, _, _, hcs, hfa⟩ := htb
      exact ⟨⟨by rw [hfa]; exact hwf, by rw [hfa, hnf]; exact hid⟩, by rw [hcs]; exact h0, by rw [hcs]; exact h1⟩
    | some v =>
      simp only [hvo] at hv
      split at hv
      · rcases char_cases hv with ⟨hval, a, hp, _, hag⟩ | ⟨_, hst, _⟩
        · obtain ⟨_, _, _, _, _, _, _, _, hcs, hfa, _, _, hnf, _⟩ := hag
          rw [hp] at hval
          have hc := effect_cs (tablesOf st) face v (hasParams name) a (modelNewId v st) hval h0 h1
          refine ⟨⟨?_, ?_⟩, by rw [hcs]; exact hc.1, by rw [hcs]; exact hc.2⟩
          · rw [hfa]; exact effect_facesWF _ _ _ _ _ hwf
          · rw [hfa, hnf]
            apply effect_ids (tablesOf st) face v a (modelNewId v st) st.nextFace _ hid
            intro hvc; subst hvc; rfl
        · rw [hst]; exact ⟨⟨hwf, hid⟩, h0, h1⟩
      · rw [hv]; exact ⟨⟨hwf, hid⟩, h0, h1⟩

/-- a face closing on its own preserves the invariant -/
theorem wf_closed (st : St) (ext : Ext) (f : Nat) (h : StWF st) : StWF (faceClosed st ext f) := by
  unfold faceClosed
  split
  · obtain ⟨⟨hwf, hid⟩, h0, h1⟩ := h
    exact ⟨⟨fun g hg hs => hwf g (mem_faceRemove hg) hs, fun g hg => hid g (mem_faceRemove hg)⟩, h0, h1⟩
  · exact h

/-- … and keeps the tables usable; what remains listed is the old face table minus the face, and
    the RIB without its routes -/
theorem usable_closed (st : St) (ext : Ext) (f : Nat) (h : usable (tablesOf st) = true) :
    usable (tablesOf (faceClosed st ext f)) = true := by
  unfold faceClosed
  split
  · rw [usable_iff] at h ⊢
    exact ⟨h.1, fun g hg => h.2.1 g (mem_faceRemove hg), h.2.2⟩
  · exact h

theorem stepIn_wf (st : St) (i : Input) (h : StWF st) : StWF (stepIn st i) := by
  unfold stepIn; split
  · exact wf_closed _ _ _ h
  · exact wf_step _ _ _ _ _ _ h

theorem wf_history (lh : Bool) (h : List Input) : StWF (runHistory (init lh) h) := by
  unfold runHistory
  suffices ∀ st, StWF st → StWF (h.foldl stepIn st) from this _ (wf_init lh)
  induction h with
  | nil => intro st hst; exact hst
  | cons i t ih => intro st hst; exact ih _ (stepIn_wf st i hst)

/-! ### no panic for any parameters -/

/-- `handle_total`: for every state (invariant), arrival face, name and parameters — decodable or
    not, any field present or absent, any values — the management plane answers or stays silent;
    no Go panic outcome of the model is reachable. -/
theorem handle_total (st : St) (ext : Ext) (routed : Bool) (face : Nat) (name : Name) (p : Params)
    (hwf : StWF st) : ∀ m, (sysStep st ext routed face name p).2 ≠ .panic m := by
  intro m hm
  have hs := obs_shape st ext routed face name p hwf.1
  have hout : (obsOf st ext routed face name p).out = .crash := by simp [obsOf, hm, outcomeOf]
  cases hs with
  | quiet h1 => rw [h1] at hout; cases hout
  | refused c e h1 => rw [h1] at hout; cases hout
  | listed pf mv v d h1 => rw [h1] at hout; cases hout
  | accepted v a _ _ _ _ _ _ _ _ _ ho => rcases ho with ho | ⟨ho, _⟩ <;> (rw [ho] at hout; cases hout)

example : (sysStep (init false) ⟨[]⟩ true 2 (lhPrefix ++ [gc "strategy-choice", gc "set", ⟨8, []⟩])
    (.args { name := some [], strategy := some strategyPrefix })).2 = .ctrl 404 noArgs := by rfl

/-! ### authorisation -/

/-- `state_changes_only_if_authorised`: if any table (RIB, FIB, strategy choices, CS capacity, face
    table) differs after a step, the Interest arrived under /localhost/nfd on a local face, or
    under /localhop/nfd for the RIB module with localhop management enabled — and was delivered. -/
theorem state_changes_only_if_authorised (st : St) (ext : Ext) (routed : Bool) (face : Nat) (name : Name)
    (p : Params) (hwf : StWF st)
    (hch : tablesOf (sysStep st ext routed face name p).1 ≠ tablesOf st) :
    authorised st.lh st.faces face name = true ∧ routed = true := by
  have hs := obs_shape st ext routed face name p hwf.1
  have hne : (obsOf st ext routed face name p).after ≠ (obsOf st ext routed face name p).before := by
    simpa [obsOf] using hch
  cases hs with
  | quiet _ h2 => exact absurd h2 hne
  | refused _ _ _ _ h2 => exact absurd h2 hne
  | listed _ _ _ _ _ h2 => exact absurd h2 hne
  | accepted v a _ _ _ ha hr => exact ⟨by simpa [obsOf, Obs.auth, tablesOf] using ha, by simpa [obsOf] using hr⟩

/-- with localhop management off, nothing arriving under /localhop/nfd changes anything (F-17d) -/
theorem localhop_disabled_no_change (st : St) (ext : Ext) (routed : Bool) (face : Nat) (name : Name)
    (p : Params) (hwf : StWF st) (hlh : st.lh = false) (hn : lhPrefix.isPrefixOf name = false) :
    tablesOf (sysStep st ext routed face name p).1 = tablesOf st := by
  apply Classical.byContradiction
  intro hch
  have := (state_changes_only_if_authorised st ext routed face name p hwf hch).1
  simp [authorised, hlh, hn] at this

/-- a non-local face never changes state through /localhost/nfd -/
theorem nonlocal_localhost_no_change (st : St) (ext : Ext) (routed : Bool) (face : Nat) (name : Name)
    (p : Params) (hwf : StWF st) (hf : faceIsLocal st.faces face = false) (hn : lpPrefix.isPrefixOf name = false) :
    tablesOf (sysStep st ext routed face name p).1 = tablesOf st := by
  apply Classical.byContradiction
  intro hch
  have := (state_changes_only_if_authorised st ext routed face name p hwf hch).1
  simp [authorised, hf, hn] at this

example : authorised true initFaces 4 (lpPrefix ++ [gc "rib", gc "register"]) = true ∧
    authorised false initFaces 4 (lpPrefix ++ [gc "rib", gc "register"]) = false ∧
    authorised true initFaces 4 (lhPrefix ++ [gc "rib", gc "register"]) = false := by decide

/-! ### the model satisfies every clause of the executable specification -/

theorem same_of_eq {a b : Tables} (h : a = b) : b.same a = true := by rw [h]; exact same_refl _

/-- `model_satisfies_spec`: the predicate the driver evaluates on the implementation's outputs
    (`check`: live, authorised, effect, nochange, dataset, accepted/refused, usable) finds nothing
    to object to in ANY step of the model. -/
theorem model_satisfies_spec (st : St) (ext : Ext) (routed : Bool) (face : Nat) (name : Name) (p : Params)
    (hwf : StWF st) : check (obsOf st ext routed face name p) = [] := by
  have hs := obs_shape st ext routed face name p hwf.1
  generalize hob : obsOf st ext routed face name p = o at hs
  have hbefore : o.before = tablesOf st := by rw [← hob]; rfl
  have hlive : cLive o = true := by
    cases hs with
    | quiet h1 => simp [cLive, h1]
    | refused c e h1 => simp [cLive, h1]
    | listed pf mv v d h1 => simp [cLive, h1]
    | accepted v a _ _ _ _ _ _ _ _ _ ho => rcases ho with ho | ⟨ho, _⟩ <;> simp [cLive, ho]
  have hauth : cAuth o = true := by
    cases hs with
    | quiet _ h2 => simp [cAuth, Obs.changed, same_of_eq h2]
    | refused _ _ _ _ h2 => simp [cAuth, Obs.changed, same_of_eq h2]
    | listed _ _ _ _ _ h2 => simp [cAuth, Obs.changed, same_of_eq h2]
    | accepted v a _ _ _ ha hr => simp [cAuth, ha, hr]
  have heff : cEffect o = true := by
    cases hs with
    | quiet h1 => simp [cEffect, h1]
    | refused c e h1 hc =>
      unfold cEffect; rw [h1]; split
      · rename_i heq; simp at heq; exact absurd heq.1 hc
      · rfl
    | listed pf mv v d h1 => simp [cEffect, h1]
    | accepted v a hv hp _ _ _ nid hnid hm _ ho =>
      rcases ho with ho | ⟨ho, _⟩
      · simp only [cEffect, ho, hv, hp, hnid]
        simp [hm]
      · simp [cEffect, ho]
  have hnc : cNoChange o = true := by
    cases hs with
    | quiet h1 h2 => simp [cNoChange, h1, Obs.changed, same_of_eq h2]
    | refused c e h1 hc h2 =>
      unfold cNoChange; rw [h1]; split
      · rfl
      · simp [Obs.changed, same_of_eq h2]
      all_goals simp_all
    | listed pf mv v d h1 h2 => simp [cNoChange, h1, Obs.changed, same_of_eq h2]
    | accepted v a _ _ _ _ _ _ _ _ _ ho =>
      rcases ho with ho | ⟨ho, hg⟩
      · simp [cNoChange, ho]
      · simp [cNoChange, ho, hg]
  have hds : cDataset o = true := by
    cases hs with
    | quiet h1 => simp [cDataset, h1]
    | refused c e h1 => simp [cDataset, h1]
    | listed pf mv v d h1 h2 hd =>
      simp only [cDataset, h1, h2, hbefore]
      rcases hd with rfl | rfl | rfl | rfl | rfl | rfl | ⟨q, rfl⟩ <;>
        simp [datasetOk, tablesOf, sameRib, sameFib, sameSc, sameFaces]
      exact toU64_of_nonneg hwf.2.1 hwf.2.2
    | accepted v a _ _ _ _ _ _ _ _ _ ho => rcases ho with ho | ⟨ho, _⟩ <;> simp [cDataset, ho]
  have hval : cValidity o = true := by
    unfold cValidity
    cases hvo : verbOf o.name with
    | none => rfl
    | some v =>
      simp only []
      by_cases har : (o.auth && o.routed) = true
      · simp only [har, ↓reduceIte]
        simp only [Bool.and_eq_true] at har
        cases hs with
        | quiet _ _ hnv => exact (hnv v hvo har.1 har.2).elim
        | listed _ _ _ _ _ _ _ hnv => exact (hnv v hvo har.1 har.2).elim
        | refused c e h1 hc _ hnv =>
          obtain ⟨hnvd, hc1, hc2⟩ := hnv v hvo har.1 har.2
          rw [h1]
          cases hvd : validity o.before o.face v o.hasP o.params
          · exact absurd hvd hnvd
          · simp [hc1, hc2]
          · rfl
        | accepted v' a hv' _ hvd _ _ _ _ _ _ ho =>
          have : v' = v := by rw [hvo] at hv'; cases hv'; rfl
          subst this
          rw [hvd]
          rcases ho with ho | ⟨ho, hg⟩
          · simp [ho]
          · simp [ho, hg]
      · simp [har]
  have hus : cUsable o = true := by
    unfold cUsable
    cases hs with
    | quiet _ h2 => rw [h2]; cases usable o.before <;> rfl
    | refused _ _ _ _ h2 => rw [h2]; cases usable o.before <;> rfl
    | listed _ _ _ _ _ h2 => rw [h2]; cases usable o.before <;> rfl
    | accepted _ _ _ _ _ _ _ _ _ _ hu _ =>
      cases hb : usable o.before
      · rfl
      · simp [hu hb]
  simp [check, hlive, hauth, heff, hnc, hds, hval, hus]

/-- … hence in every step of every history from the initial state -/
theorem model_satisfies_spec_history (lh : Bool) (h : List Input) (i : Input) :
    check (obsOf (runHistory (init lh) h) i.ext i.routed i.face i.name i.params) = [] :=
  model_satisfies_spec _ _ _ _ _ _ (wf_history lh h)

/-! ### accepted commands: exact effect, documented defaults, status 200 -/

/-- `accepted_effect_exact`: whenever the requester sees status 200 for a command of one of the nine
    state-changing verbs, the parameters were decodable and valid, the echoed parameters are the
    ones the specification prescribes, and strategy choices, CS capacity and face table — plus the
    FIB for FIB commands and the RIB for RIB commands — are exactly `effect` of the old tables
    (the FIB after a RIB command / RIB+FIB after a face destruction are C06's). -/
theorem accepted_effect_exact (st : St) (ext : Ext) (routed : Bool) (face : Nat) (name : Name) (p : Params)
    (hwf : StWF st) (v : Verb) (hv : verbOf name = some v) (echo : Args)
    (h200 : (sysStep st ext routed face name p).2 = .ctrl 200 echo) :
    ∃ a, p = .args a ∧ validity (tablesOf st) face v (hasParams name) p = .valid ∧
      echo = (effect (tablesOf st) face v a (newIdOf v echo)).echo ∧
      (effect (tablesOf st) face v a (newIdOf v echo)).matches (tablesOf (sysStep st ext routed face name p).1) = true := by
  have hs := obs_shape st ext routed face name p hwf.1
  have hout : (obsOf st ext routed face name p).out = .ctrl 200 echo := by simp [obsOf, h200, outcomeOf]
  cases hs with
  | quiet h1 => rw [h1] at hout; cases hout
  | refused c e h1 hc => rw [h1] at hout; cases hout; exact absurd rfl hc
  | listed pf mv ver d h1 => rw [h1] at hout; cases hout
  | accepted v' a hv' hp hval _ _ nid hnid hm _ ho =>
    have : v' = v := by simp only [obsOf] at hv'; rw [hv] at hv'; cases hv'; rfl
    subst this
    rcases ho with ho | ⟨ho, _⟩
    · rw [ho] at hout; cases hout
      refine ⟨a, by simpa [obsOf] using hp, by simpa [obsOf, Obs.hasP] using hval, ?_, ?_⟩
      · have := congrArg Effect.echo hnid
        simpa [obsOf] using this.symm
      · have hm' := hm
        rw [← hnid] at hm'
        simpa [obsOf] using hm'
    · rw [ho] at hout; cases hout

/-- the documented defaults of rib/register: requesting face, origin 0 (app), cost 0,
    flags 1 (child-inherit) -/
theorem rib_register_defaults (t : Tables) (inFace : Nat) (n : Name) :
    (effect t inFace .ribRegister { name := some n }).echo =
      { name := some n, faceId := some inFace, origin := some 0, cost := some 0, flags := some 1 } ∧
    (effect t inFace .ribRegister { name := some n }).t.rib = ribAdd t.rib n ⟨inFace, 0, 0, 1, none⟩ := by
  simp [effect, targetFace]

/-- fib/add-nexthop defaults: requesting face, cost 0; FaceId 0 also means the requesting face -/
theorem fib_add_defaults (t : Tables) (inFace : Nat) (n : Name) :
    (effect t inFace .fibAdd { name := some n }).t.fib = fibInsert t.fib n inFace 0 ∧
    (effect t inFace .fibAdd { name := some n, faceId := some 0 }).t.fib = fibInsert t.fib n inFace 0 := by
  simp [effect, targetFace]

/-- `accepted_reports_200`: a delivered, authorised command of a known verb whose parameters are
    valid is answered 200 (unless it destroyed the requester's own face) -/
theorem accepted_reports_200 (st : St) (ext : Ext) (face : Nat) (name : Name) (p : Params)
    (hwf : StWF st) (v : Verb) (hv : verbOf name = some v)
    (hauth : authorised st.lh st.faces face name = true)
    (hval : validity (tablesOf st) face v (hasParams name) p = .valid) :
    (∃ echo, (sysStep st ext true face name p).2 = .ctrl 200 echo) ∨
    ((sysStep st ext true face name p).2 = .none ∧
      (faceGet (sysStep st ext true face name p).1.faces face).isNone = true) := by
  have h := model_satisfies_spec st ext true face name p hwf
  have hs := obs_shape st ext true face name p hwf.1
  cases hs with
  | quiet _ _ hnv => exact (hnv v (by simpa [obsOf] using hv) (by simpa [obsOf, Obs.auth, tablesOf] using hauth) rfl).elim
  | listed _ _ _ _ _ _ _ hnv => exact (hnv v (by simpa [obsOf] using hv) (by simpa [obsOf, Obs.auth, tablesOf] using hauth) rfl).elim
  | refused c e _ _ _ hnv =>
    have := (hnv v (by simpa [obsOf] using hv) (by simpa [obsOf, Obs.auth, tablesOf] using hauth) rfl).1
    exact absurd (by simpa [obsOf, Obs.hasP] using hval) this
  | accepted v' a _ _ _ _ _ _ _ _ _ ho =>
    rcases ho with ho | ⟨ho, hg⟩
    · left
      simp only [obsOf] at ho
      cases h2 : (sysStep st ext true face name p).2 <;> simp [h2, outcomeOf] at ho
      exact ⟨_, by rw [ho.1, ho.2]⟩
    · right
      simp only [obsOf] at ho
      cases h2 : (sysStep st ext true face name p).2 <;> simp [h2, outcomeOf] at ho
      exact ⟨rfl, by simpa [obsOf, Obs.requesterGone, tablesOf] using hg⟩

/-! ### bad parameters: 4xx, nothing changes -/

/-- `bad_params_4xx_no_change`: a delivered, authorised command of a known verb whose parameters are
    missing, undecodable or out of range (no Name, non-existent face, unknown / malformed strategy
    name, Flags without Mask, capacity ≥ 2^63, MTU that cannot carry a packet, unknown face,
    unacceptable persistency, no FaceId for destroy) is answered with a 4xx status and every
    table is exactly as before. -/
theorem bad_params_4xx_no_change (st : St) (ext : Ext) (face : Nat) (name : Name) (p : Params)
    (hwf : StWF st) (v : Verb) (hv : verbOf name = some v)
    (hauth : authorised st.lh st.faces face name = true)
    (hbad : validity (tablesOf st) face v (hasParams name) p ≠ .valid) :
    (∃ c e, (sysStep st ext true face name p).2 = .ctrl c e ∧ 400 ≤ c ∧ c < 500) ∧
    tablesOf (sysStep st ext true face name p).1 = tablesOf st := by
  have hs := obs_shape st ext true face name p hwf.1
  cases hs with
  | quiet _ _ hnv => exact (hnv v (by simpa [obsOf] using hv) (by simpa [obsOf, Obs.auth, tablesOf] using hauth) rfl).elim
  | listed _ _ _ _ _ _ _ hnv => exact (hnv v (by simpa [obsOf] using hv) (by simpa [obsOf, Obs.auth, tablesOf] using hauth) rfl).elim
  | refused c e h1 _ h2 hnv =>
    obtain ⟨_, hc1, hc2⟩ := hnv v (by simpa [obsOf] using hv) (by simpa [obsOf, Obs.auth, tablesOf] using hauth) rfl
    refine ⟨⟨c, e, ?_, hc1, hc2⟩, by simpa [obsOf] using h2⟩
    simp only [obsOf] at h1
    cases h3 : (sysStep st ext true face name p).2 <;> simp [h3, outcomeOf] at h1
    rw [h1.1, h1.2]
  | accepted v' a hv' _ hval =>
    have : v' = v := by simp only [obsOf] at hv'; rw [hv] at hv'; cases hv'; rfl
    subst this
    exact absurd (by simpa [obsOf, Obs.hasP] using hval) hbad

/-- any answer other than 200 — and silence — leaves the tables alone -/
theorem non200_no_change (st : St) (ext : Ext) (routed : Bool) (face : Nat) (name : Name) (p : Params)
    (hwf : StWF st) (c : Nat) (e : Args) (hc : c ≠ 200)
    (h : (sysStep st ext routed face name p).2 = .ctrl c e) :
    tablesOf (sysStep st ext routed face name p).1 = tablesOf st := by
  have hs := obs_shape st ext routed face name p hwf.1
  have hout : (obsOf st ext routed face name p).out = .ctrl c e := by simp [obsOf, h, outcomeOf]
  cases hs with
  | quiet h1 => rw [h1] at hout; cases hout
  | refused _ _ _ _ h2 => simpa [obsOf] using h2
  | listed _ _ _ _ h1 => rw [h1] at hout; cases hout
  | accepted _ _ _ _ _ _ _ _ _ _ _ ho =>
    rcases ho with ho | ⟨ho, _⟩ <;> rw [ho] at hout <;> cases hout
    exact absurd rfl hc

/-- `strategy_unset_root_rejected`: strategy-choice/unset of the root prefix is refused with 400 and
    the root keeps its strategy (so `FindStrategyEnc` always finds one: F-05b is unreachable through
    management) -/
theorem strategy_unset_root_rejected (st : St) (name : Name) (a : Args) (hn : a.name = some [])
    (hp : hasParams name = true) :
    scUnsetCmd st name (.args a) = (st, .ctrl 400 noArgs) := by
  simp [scUnsetCmd, hp, hn, r400]

theorem mem_scSet_root {sc : Sc} {n s : Name} (h : ∃ x, ([], x) ∈ sc) : ∃ x, ([], x) ∈ scSet sc n s := by
  obtain ⟨x, hx⟩ := h
  induction sc with
  | nil => cases hx
  | cons e t ih =>
    obtain ⟨m, y⟩ := e
    simp only [scSet]
    split
    · rename_i hmn
      simp at hmn; subst hmn
      rcases List.mem_cons.1 hx with h | h
      · cases h; exact ⟨s, by simp⟩
      · exact ⟨x, List.mem_cons_of_mem _ h⟩
    · rcases List.mem_cons.1 hx with h | h
      · cases h; exact ⟨x, by simp⟩
      · obtain ⟨x', hx'⟩ := ih h
        exact ⟨x', List.mem_cons_of_mem _ hx'⟩

/-- the root prefix always has a strategy: no management command removes it -/
theorem root_strategy_kept (st : St) (ext : Ext) (routed : Bool) (face : Nat) (name : Name) (p : Params)
    (hwf : StWF st) (hroot : ∃ s, ([], s) ∈ st.sc) :
    ∃ s, ([], s) ∈ (sysStep st ext routed face name p).1.sc := by
  rcases sysStep_char st ext routed face name p hwf.1 with ⟨hs, _⟩ | ⟨_, _, hs, hv⟩
  · rw [hs]; exact hroot
  · rw [hs, post_fst]
    cases hvo : verbOf name with
    | none =>
      simp only [hvo] at hv
      have htb := hv.1
      simp only [tbl, Prod.mk.injEq] at htb
      rw [htb.2.2.1]; exact hroot
    | some v =>
      simp only [hvo] at hv
      split at hv
      · rcases char_cases hv with ⟨hval, a, hp, _, hag⟩ | ⟨_, hst, _⟩
        · obtain ⟨_, _, _, _, _, _, _, hsc, _⟩ := hag
          rw [hsc]
          cases v <;> simp only [effect, tablesOf]
          case scSet => exact mem_scSet_root hroot
          case scUnset =>
            obtain ⟨x, hx⟩ := hroot
            refine ⟨x, ?_⟩
            simp only [scUnset, List.mem_filter]
            refine ⟨hx, ?_⟩
            rw [hp] at hval
            simp only [validity] at hval
            cases hn : a.name with
            | none => cases hasParams name <;> simp [hn] at hval
            | some n =>
              cases n with
              | nil => cases hasParams name <;> simp [hn] at hval
              | cons c t => simp
          case csConfig => cases a.capacity <;> exact hroot
          case faceUpdate => cases faceGet st.faces (targetFace a face) <;> exact hroot
          case faceDestroy =>
            by_cases hx : (faceGet st.faces (a.faceId.getD 0)).isSome = true <;> simp only [hx, ↓reduceIte] <;> exact hroot
          case faceCreate =>
            cases hc : a.uri.bind uriClass with
            | none => exact hroot
            | some c => cases c <;> exact hroot
          all_goals exact hroot
        · rw [hst]; exact hroot
      · rw [hv]; exact hroot

example : ∃ s, ([], s) ∈ (init true).sc := ⟨bestRouteV1, by simp [init]⟩

/-! ### MTU: accepted ⇒ sendable -/

/-- with fragmentation on, an MTU above the largest overhead and a forwarder-size PIT token, a
    packet is never dropped: it leaves as at least one frame -/
theorem sendOutcome_ok (mtu tokLen : Nat) (inFaceInd hasMark : Bool) (wholeLen len : Nat)
    (h : maxOverhead < mtu) (ht : tokLen ≤ 6) (hl : 0 < len) :
    ∃ n, 0 < n ∧ sendOutcome mtu true tokLen inFaceInd hasMark wholeLen len = .frames n := by
  unfold sendOutcome
  have ho : overhead tokLen inFaceInd hasMark ≤ maxOverhead := by
    unfold maxOverhead overhead
    cases inFaceInd <;> cases hasMark <;> simp <;> split <;> omega
  split
  · exact ⟨1, by omega, rfl⟩
  · simp only [Bool.not_true, Bool.false_eq_true, ↓reduceIte]
    split
    · omega
    · refine ⟨_, ?_, rfl⟩
      exact Nat.div_pos (by omega) (by omega)

/-- `mtu_accepted_implies_sendable`: an MTU that faces/update accepts (status 200) is at least
    `minMtu`, and on the resulting MTU `sendPacket` emits every packet (fragmentation on, PIT token
    of forwarder size, any congestion mark / IncomingFaceId setting) as ≥ 1 frame -/
theorem mtu_accepted_implies_sendable (st : St) (inFace : Nat) (name : Name) (a : Args) (m : Nat)
    (hm : a.mtu = some m) (st' : St) (echo : Args)
    (h : faceUpdate st inFace name (.args a) = (st', .ctrl 200 echo)) :
    minMtu ≤ m ∧ ∀ tokLen ifi mark wholeLen len, tokLen ≤ 6 → 0 < len →
      ∃ n, 0 < n ∧ sendOutcome (if m > maxPacket then maxPacket else m) true tokLen ifi mark wholeLen len = .frames n := by
  have hmin : minMtu ≤ m := by
    unfold faceUpdate at h
    by_cases hp : hasParams name = true
    · simp only [hp, Bool.not_true, Bool.false_eq_true, ↓reduceIte] at h
      cases hg : faceGet st.faces (pickFace a inFace) with
      | none => simp [hg] at h
      | some f =>
        simp only [hg] at h
        split at h
        · simp at h
        · split at h
          · simp at h
          · rename_i hok
            simp only [Bool.not_eq_true', Bool.and_eq_false_iff, not_or, Bool.not_eq_false] at hok
            have := hok.2
            simpa [mtuOk, hm] using this
    · simp [hp, r400] at h
  refine ⟨hmin, ?_⟩
  intro tokLen ifi mark wholeLen len ht hl
  apply sendOutcome_ok _ _ _ _ _ _ _ ht hl
  unfold minMtu at hmin
  unfold maxOverhead overhead maxPacket
  simp
  split <;> omega

/-- … and the face table as a whole stays sendable along every history (`usable` includes
    `∀ face, 56 < mtu`; `model_satisfies_spec` shows it is preserved, `usable_init` that it holds
    initially) -/
theorem usable_history (lh : Bool) (h : List Input) : usable (tablesOf (runHistory (init lh) h)) = true := by
  unfold runHistory
  suffices ∀ st, StWF st → usable (tablesOf st) = true → usable (tablesOf (h.foldl stepIn st)) = true from
    this _ (wf_init lh) (usable_init lh)
  induction h with
  | nil => intro st _ hu; exact hu
  | cons i t ih =>
    intro st hst hu
    apply ih _ (stepIn_wf st i hst)
    unfold stepIn
    split
    · exact usable_closed _ _ _ hu
    have := model_satisfies_spec st i.ext i.routed i.face i.name i.params hst
    have hcu : cUsable (obsOf st i.ext i.routed i.face i.name i.params) = true := by
      apply Classical.byContradiction
      intro hn
      simp [check, hn] at this
    simp only [cUsable, obsOf, hu, Bool.not_true, Bool.false_or] at hcu
    exact hcu

/-- every strategy ever installed through management is one the forwarding threads instantiate
    (F-17e), every face can send (F-17b) and the CS capacity is a non-negative int (F-17c), after
    any history -/
theorem history_strategies_instantiated_faces_sendable (lh : Bool) (h : List Input) :
    (∀ e ∈ (runHistory (init lh) h).sc, instantiated e.2 = true) ∧
    (∀ f ∈ (runHistory (init lh) h).faces, ∀ tokLen ifi mark wholeLen len, tokLen ≤ 6 → 0 < len →
      ∃ n, 0 < n ∧ sendOutcome f.mtu true tokLen ifi mark wholeLen len = .frames n) ∧
    0 ≤ (runHistory (init lh) h).cs := by
  have := (usable_iff _).1 (usable_history lh h)
  refine ⟨this.1, ?_, this.2.2⟩
  intro f hf tokLen ifi mark wholeLen len ht hl
  exact sendOutcome_ok _ _ _ _ _ _ (by have := this.2.1 f hf; simpa [specMaxOverhead, maxOverhead, overhead] using this) ht hl

/-! ### datasets -/

/-- `dataset_eq_tables`: every status dataset management emits lists exactly the current contents
    of the table it reports on (RIB routes, FIB next hops, strategy choices, CS capacity and flags,
    face table; forwarder status: the number of FIB entries) and leaves the tables unchanged -/
theorem dataset_eq_tables (st : St) (ext : Ext) (routed : Bool) (face : Nat) (name : Name) (p : Params)
    (hwf : StWF st) (pf : Name) (mv : String) (ver : Nat) (d : Dataset)
    (h : (sysStep st ext routed face name p).2 = .dataset pf mv ver d) :
    DatasetOf st d ∧ tablesOf (sysStep st ext routed face name p).1 = tablesOf st ∧
    datasetOk d (tablesOf (sysStep st ext routed face name p).1) = true := by
  have hs := obs_shape st ext routed face name p hwf.1
  have hout : (obsOf st ext routed face name p).out = .dataset pf mv ver d := by simp [obsOf, h, outcomeOf]
  have hcheck := model_satisfies_spec st ext routed face name p hwf
  have hds : cDataset (obsOf st ext routed face name p) = true := by
    apply Classical.byContradiction
    intro hn
    simp [check, hn] at hcheck
  cases hs with
  | quiet h1 => rw [h1] at hout; cases hout
  | refused _ _ h1 => rw [h1] at hout; cases hout
  | listed pf' mv' v' d' h1 h2 hd =>
    rw [h1] at hout; cases hout
    refine ⟨hd, by simpa [obsOf] using h2, ?_⟩
    unfold cDataset at hds; rw [h1] at hds; simpa [obsOf] using hds
  | accepted _ _ _ _ _ _ _ _ _ _ _ ho => rcases ho with ho | ⟨ho, _⟩ <;> rw [ho] at hout <;> cases hout

/-! ### the table operations do what their names say (extensional view) -/

def ribGet (rib : Rib) (n : Name) : List Route :=
  match rib.find? (fun e => e.1 == n) with | some e => e.2 | none => []

def fibGet (fib : Fib) (n : Name) : List (Nat × Nat) :=
  match fib.find? (fun e => e.1 == n) with | some e => e.2 | none => []

theorem routesAdd_mem (rs : List Route) (r : Route) : r ∈ routesAdd rs r := by
  induction rs with
  | nil => simp [routesAdd]
  | cons x t ih => simp only [routesAdd]; split <;> simp [ih]

/-- routes with another (face, origin) key are untouched by an addition -/
theorem routesAdd_other (rs : List Route) (r x : Route) (hk : ¬(x.face = r.face ∧ x.origin = r.origin)) :
    x ∈ routesAdd rs r ↔ x ∈ rs := by
  induction rs with
  | nil =>
    simp only [routesAdd, List.mem_singleton, List.not_mem_nil, iff_false]
    intro h; subst h; exact hk ⟨rfl, rfl⟩
  | cons y t ih =>
    simp only [routesAdd]
    split
    · rename_i hy
      simp at hy
      simp only [List.mem_cons]
      constructor
      · rintro (h | h)
        · subst h; exact absurd ⟨rfl, rfl⟩ hk
        · exact Or.inr h
      · rintro (h | h)
        · subst h; exact absurd ⟨hy.1, hy.2⟩ hk
        · exact Or.inr h
    · simp only [List.mem_cons, ih]

theorem ribAdd_get_same (rib : Rib) (n : Name) (r : Route) : ribGet (ribAdd rib n r) n = routesAdd (ribGet rib n) r := by
  induction rib with
  | nil => simp [ribAdd, ribGet, routesAdd]
  | cons e t ih =>
    obtain ⟨m, rs⟩ := e
    by_cases hm : m = n
    · subst hm; simp [ribAdd, ribGet]
    · have : (m == n) = false := by simpa using hm
      simp only [ribAdd, this, Bool.false_eq_true, ↓reduceIte, ribGet, List.find?] at ih ⊢
      exact ih

theorem ribAdd_get_other (rib : Rib) (n m : Name) (r : Route) (h : m ≠ n) : ribGet (ribAdd rib n r) m = ribGet rib m := by
  induction rib with
  | nil =>
    have : (n == m) = false := by simpa using Ne.symm h
    simp [ribAdd, ribGet, this]
  | cons e t ih =>
    obtain ⟨k, rs⟩ := e
    by_cases hk : k = n
    · subst hk
      have : (k == m) = false := by simpa using Ne.symm h
      simp [ribAdd, ribGet, this]
    · have hkn : (k == n) = false := by simpa using hk
      simp only [ribAdd, hkn, Bool.false_eq_true, ↓reduceIte]
      by_cases hkm : k = m
      · subst hkm; simp [ribGet]
      · have : (k == m) = false := by simpa using hkm
        simp only [ribGet, List.find?, this] at ih ⊢
        exact ih

/-- a removal only removes: what is listed afterwards was listed before -/
theorem routesRemove_sub (rs : List Route) (f o : Nat) (x : Route) (h : x ∈ routesRemove rs f o) : x ∈ rs := by
  induction rs with
  | nil => simp [routesRemove] at h
  | cons y t ih =>
    simp only [routesRemove] at h
    split at h
    · exact List.mem_cons_of_mem _ h
    · rcases List.mem_cons.1 h with h | h
      · simp [h]
      · exact List.mem_cons_of_mem _ (ih h)

/-- when (face, origin) identifies a route (which `routesAdd` maintains), the removed key is gone -/
theorem routesRemove_gone (rs : List Route) (f o : Nat)
    (huniq : rs.Pairwise (fun a b => ¬(a.face = b.face ∧ a.origin = b.origin))) :
    ∀ x ∈ routesRemove rs f o, ¬(x.face = f ∧ x.origin = o) := by
  induction rs with
  | nil => simp [routesRemove]
  | cons y t ih =>
    intro x hx
    simp only [routesRemove] at hx
    rw [List.pairwise_cons] at huniq
    split at hx
    · rename_i hy
      simp at hy
      intro hxk
      exact huniq.1 x hx ⟨by omega, by omega⟩
    · rename_i hy
      rcases List.mem_cons.1 hx with h | h
      · subst h; simpa using hy
      · exact ih huniq.2 x h

theorem hopsInsert_mem (hs : List (Nat × Nat)) (f c : Nat) : (f, c) ∈ hopsInsert hs f c := by
  induction hs with
  | nil => simp [hopsInsert]
  | cons x t ih =>
    obtain ⟨g, d⟩ := x
    simp only [hopsInsert]; split
    · rename_i h; simp at h; simp [h]
    · simp [ih]

theorem fibInsert_get_same (fib : Fib) (n : Name) (f c : Nat) :
    fibGet (fibInsert fib n f c) n = hopsInsert (fibGet fib n) f c := by
  induction fib with
  | nil => simp [fibInsert, fibGet, hopsInsert]
  | cons e t ih =>
    obtain ⟨m, hs⟩ := e
    by_cases hm : m = n
    · subst hm; simp [fibInsert, fibGet]
    · have : (m == n) = false := by simpa using hm
      simp only [fibInsert, this, Bool.false_eq_true, ↓reduceIte, fibGet, List.find?] at ih ⊢
      exact ih

theorem scSet_mem (sc : Sc) (n s : Name) : (n, s) ∈ scSet sc n s := by
  induction sc with
  | nil => simp [scSet]
  | cons e t ih =>
    obtain ⟨m, x⟩ := e
    simp only [scSet]; split
    · rename_i h; simp at h; simp [h]
    · simp [ih]

theorem scUnset_gone (sc : Sc) (n : Name) : ∀ e ∈ scUnset sc n, e.1 ≠ n := by
  intro e he
  simp only [scUnset, List.mem_filter] at he
  simpa using he.2

/-- after faces/destroy nothing in the RIB refers to the destroyed face (what rib/list shows right
    after the 200 answer), and no entry is left without routes -/
theorem ribCleanFace_gone (rib : Rib) (f : Nat) :
    ∀ e ∈ ribCleanFace rib f, e.2 ≠ [] ∧ ∀ r ∈ e.2, r.face ≠ f := by
  intro e he
  simp only [ribCleanFace, List.mem_filter, List.mem_map] at he
  obtain ⟨⟨x, _, rfl⟩, hne⟩ := he
  refine ⟨by simpa using hne, ?_⟩
  intro r hr
  simp only [List.mem_filter] at hr
  simpa using hr.2

/-- routes of other faces survive a face destruction -/
theorem ribCleanFace_keeps (rib : Rib) (f : Nat) (n : Name) (rs : List Route) (r : Route)
    (he : (n, rs) ∈ rib) (hr : r ∈ rs) (hf : r.face ≠ f) :
    ∃ rs', (n, rs') ∈ ribCleanFace rib f ∧ r ∈ rs' := by
  refine ⟨rs.filter (fun r => r.face != f), ?_, ?_⟩
  · simp only [ribCleanFace, List.mem_filter, List.mem_map]
    refine ⟨⟨(n, rs), he, rfl⟩, ?_⟩
    simp only [Bool.not_eq_true', List.isEmpty_eq_false_iff]
    intro hnil
    have : r ∈ rs.filter (fun r => r.face != f) := List.mem_filter.2 ⟨hr, by simpa using hf⟩
    rw [hnil] at this; cases this
  · exact List.mem_filter.2 ⟨hr, by simpa using hf⟩

/-- a created face gets the face table's next id, which no existing face has -/
theorem created_face_fresh (st : St) (hwf : StWF st) : faceGet st.faces st.nextFace = none :=
  faceGet_none_of_below hwf.1.2

/-! ### non-vacuity: concrete reachable situations meeting the hypotheses above -/

def exRegister : Name := lhPrefix ++ [gc "rib", gc "register", ⟨8, []⟩]
def exArgs : Args := { name := some [gc "a"], cost := some 5 }

-- accepted_effect_exact / accepted_reports_200: a local app registers /a with cost 5
example : verbOf exRegister = some .ribRegister ∧ authorised false initFaces 2 exRegister = true ∧
    validity (tablesOf (init false)) 2 .ribRegister (hasParams exRegister) (.args exArgs) = .valid := by decide
example : (sysStep (init false) ⟨[]⟩ true 2 exRegister (.args exArgs)).2 =
    .ctrl 200 { name := some [gc "a"], faceId := some 2, origin := some 0, cost := some 5, flags := some 1 } := by rfl
example : (sysStep (init false) ⟨[]⟩ true 2 exRegister (.args exArgs)).1.rib = [([gc "a"], [⟨2, 0, 5, 1, none⟩])] := by rfl

-- bad_params_4xx_no_change: a face that does not exist; an MTU of 10; a capacity of 2^63
example : validity (tablesOf (init false)) 2 .ribRegister true (.args { exArgs with faceId := some 50 }) = .invalid := by decide
example : validity (tablesOf (init false)) 2 .faceUpdate true (.args { faceId := some 3, mtu := some 10 }) = .invalid := by decide
example : validity (tablesOf (init false)) 2 .csConfig true (.args { capacity := some (2 ^ 63) }) = .invalid := by decide
example : (sysStep (init false) ⟨[]⟩ true 2 (lhPrefix ++ [gc "faces", gc "update", ⟨8, []⟩])
    (.args { faceId := some 3, mtu := some 10 })).2 = .ctrl 409 noArgs := by rfl

-- state_changes_only_if_authorised: the same registration from the non-local face 4 is dropped,
-- and under /localhop/nfd it is dropped when localhop management is off (even if routed)
example : (sysStep (init false) ⟨[]⟩ true 4 exRegister (.args exArgs)).1.rib = [] := by rfl
example : (sysStep (init false) ⟨[]⟩ true 5 (lpPrefix ++ [gc "rib", gc "register", ⟨8, []⟩]) (.args exArgs)).1.rib = [] := by rfl
example : (sysStep (init true) ⟨[]⟩ true 5 (lpPrefix ++ [gc "rib", gc "register", ⟨8, []⟩]) (.args exArgs)).1.rib =
    [([gc "a"], [⟨5, 0, 5, 1, none⟩])] := by rfl

-- dataset_eq_tables: rib/list after the registration lists it
example : (sysStep (sysStep (init false) ⟨[]⟩ true 2 exRegister (.args exArgs)).1 ⟨[]⟩ true 2
    (lhPrefix ++ [gc "rib", gc "list"]) .undecodable).2 =
    .dataset lhPrefix "rib/list" 0 (.rib [([gc "a"], [⟨2, 0, 5, 1, none⟩])]) := by rfl

-- mtu_accepted_implies_sendable: MTU 64 on face 3 is accepted
example : (faceUpdate (init false) 2 exRegister (.args { faceId := some 3, mtu := some 64 })).2 =
    .ctrl 200 { faceId := some 3, pers := some 0, mtu := some 64, flags := some 0, bcmi := some 100000000, dct := some 65536 } := by rfl

-- strategy_unset_root_rejected
example : hasParams exRegister = true := by decide

-- faces/create: a unicast UDP face to a loopback address with MTU 1000 gets id 8 and is listed
def exCreate : Name := lhPrefix ++ [gc "faces", gc "create", ⟨8, []⟩]
example : validity (tablesOf (init false)) 2 .faceCreate true
    (.args { uri := some (strBytes "udp4://127.0.0.1:7101"), mtu := some 1000 }) = .valid := by decide
example : ((sysStep (init false) ⟨[]⟩ true 2 exCreate (.args { uri := some (strBytes "udp4://127.0.0.1:7101"), mtu := some 1000 })).1.faces.map
    fun f => (f.id, f.mtu)) = [(1, 8800), (2, 8800), (3, 8800), (4, 8800), (5, 8800), (6, 8800), (7, 8800), (8, 1000)] := by rfl
-- … MTU 10 is refused (406), the remote URI of face 2 conflicts (409)
example : validity (tablesOf (init false)) 2 .faceCreate true
    (.args { uri := some (strBytes "udp4://127.0.0.1:7101"), mtu := some 10 }) = .invalid := by decide
example : validity (tablesOf (init false)) 2 .faceCreate true
    (.args { uri := some (strBytes "udp4://127.0.0.1:7001") }) = .invalid := by decide
-- faces/query for local faces; rib/announce with a prefix announcement object: 501
example : ((sysStep (init false) ⟨[]⟩ true 2 (lhPrefix ++ [gc "faces", gc "query", ⟨8, []⟩]) (.filter { scope := some 1 })).1.vFaces) = 1 := by rfl
example : (sysStep (init false) ⟨[]⟩ true 2 (lhPrefix ++ [gc "rib", gc "announce", ⟨2, []⟩]) (.app .data)).2 = .ctrl 501 noArgs := by rfl

end Ndn.C17
