/-
  C17 tables — the data management acts on, as simple association lists, and the table operations
  of fw/table that management calls (rib.go AddEncRoute/RemoveRouteEnc, fib-strategy-*.go
  InsertNextHopEnc/RemoveNextHopEnc/SetStrategyEnc/UnSetStrategyEnc, face/table.go Get/Remove).
  Shared by Model.lean and Spec.lean.  Core Lean only.
-/
import NdnVerif.Base.Name
namespace Ndn.C17

/-! ### Data -/

/-- generic component of an ASCII word (code points = UTF-8 bytes for ASCII; reducible in the kernel) -/
def gc (s : String) : Component := ⟨8, s.toList.map (·.toNat)⟩

/-- `Component.String() == s` for the plain ASCII words management compares with (a generic
    component whose value is exactly the word). -/
def compIs (c : Component) (s : String) : Bool := c == gc s

/-- the module names `Thread.modules` is keyed by (`interest.NameV[2].String()`) -/
inductive Mod | cs | faces | fib | rib | status | sc | other
deriving DecidableEq, Repr

def modOf (c : Component) : Mod :=
  if compIs c "cs" then .cs else if compIs c "faces" then .faces else if compIs c "fib" then .fib
  else if compIs c "rib" then .rib else if compIs c "status" then .status
  else if compIs c "strategy-choice" then .sc else .other

/-- the verb words the modules switch on (`interest.NameV[3].String()`) -/
inductive Word
  | register | unregister | announce | list | addNexthop | removeNexthop | set | unset
  | config | erase | info | query | general | create | update | destroy | other
deriving DecidableEq, Repr

def wordOf (c : Component) : Word :=
  if compIs c "register" then .register else if compIs c "unregister" then .unregister
  else if compIs c "announce" then .announce else if compIs c "list" then .list
  else if compIs c "add-nexthop" then .addNexthop else if compIs c "remove-nexthop" then .removeNexthop
  else if compIs c "set" then .set else if compIs c "unset" then .unset
  else if compIs c "config" then .config else if compIs c "erase" then .erase
  else if compIs c "info" then .info else if compIs c "query" then .query
  else if compIs c "general" then .general else if compIs c "create" then .create
  else if compIs c "update" then .update else if compIs c "destroy" then .destroy else .other

/-- "localhost" / "localhop" as explicit bytes (so that facts about them are decidable in the kernel) -/
def bLocalhost : Bytes := [108, 111, 99, 97, 108, 104, 111, 115, 116]
def bLocalhop : Bytes := [108, 111, 99, 97, 108, 104, 111, 112]
def cLocalhost : Component := ⟨8, bLocalhost⟩
def cLocalhop : Component := ⟨8, bLocalhop⟩
def lhPrefix : Name := [cLocalhost, gc "nfd"]
def lpPrefix : Name := [cLocalhop, gc "nfd"]
def strategyPrefix : Name := lhPrefix ++ [gc "strategy"]
def versionType : Nat := 54
def bestRouteV1 : Name := strategyPrefix ++ [gc "best-route", ⟨versionType, [1]⟩]
def multicastV1 : Name := strategyPrefix ++ [gc "multicast", ⟨versionType, [1]⟩]

/-- `fw.StrategyVersions` -/
def strategyVersions (c : Component) : Option (List Nat) :=
  if compIs c "best-route" then some [1] else if compIs c "multicast" then some [1] else none

/-- the newest of the registered versions (`set` defaults to it) -/
def newestVersion : List Nat → Nat
  | [] => 0
  | v :: vs => vs.foldl (fun m x => if x > m then x else m) v

/-- names the forwarding threads have a strategy instance for (`InstantiateStrategies`) -/
def instantiated (s : Name) : Bool := s == bestRouteV1 || s == multicastV1

structure Route where
  face : Nat
  origin : Nat
  cost : Nat
  flags : Nat
  exp : Option Nat
deriving DecidableEq, Repr

structure Face where
  id : Nat
  uri : String          -- remote URI (canonical text)
  luri : String         -- local URI
  rscheme : String
  lscheme : String
  isLocal : Bool       -- transport scope: Local / NonLocal (no transport is created with Unknown)
  pers : Nat
  mtu : Nat
  ndnlp : Bool         -- *NDNLPLinkService
  localFields : Bool   -- IsConsumerControlledForwardingEnabled (+ the two that travel with it)
  congMark : Bool
  bcmi : Nat           -- BaseCongestionMarkingInterval, ns, as uint64
  dct : Nat
deriving DecidableEq, Repr

abbrev Rib := List (Name × List Route)
abbrev Fib := List (Name × List (Nat × Nat))
abbrev Sc := List (Name × Name)

structure St where
  lh : Bool                 -- enableLocalhopManagement
  faces : List Face
  rib : Rib
  fib : Fib
  sc : Sc
  cs : Int                  -- table.csCapacity (Go int)
  vRib : Nat := 0
  vFib : Nat := 0
  vSc : Nat := 0
  vCs : Nat := 0
  vFaces : Nat := 0
  vStatus : Nat := 0
  nextFace : Nat := 8       -- face.FaceTable.nextFaceID (relative to the history's first face)
deriving Repr

/-- decoded ControlParameters (`mgmt.ControlArgs`) -/
structure Args where
  name : Option Name := none
  faceId : Option Nat := none
  uri : Option Bytes := none
  localUri : Option Bytes := none
  origin : Option Nat := none
  cost : Option Nat := none
  capacity : Option Nat := none
  count : Option Nat := none
  flags : Option Nat := none
  mask : Option Nat := none
  strategy : Option Name := none
  exp : Option Nat := none
  pers : Option Nat := none
  bcmi : Option Nat := none
  dct : Option Nat := none
  mtu : Option Nat := none
deriving DecidableEq, Repr

/-- decoded `FaceQueryFilter` (faces/query) -/
structure Filter where
  faceId : Option Nat := none
  scheme : Option Bytes := none
  uri : Option Bytes := none
  luri : Option Bytes := none
  scope : Option Nat := none
  pers : Option Nat := none
  linkType : Option Nat := none
deriving DecidableEq, Repr

/-- application parameters of a rib/announce Interest -/
inductive AppKind
  | data       -- a well-formed Data packet (prefix announcement object)
  | garbage    -- bytes that are not a Data packet
  | missing    -- a parameters-digest component but no application parameters
deriving DecidableEq, Repr

/-- what component 4 of the name decodes to (ControlParameters for the commands, a
    FaceQueryFilter for faces/query), or the application parameters for rib/announce -/
inductive Params
  | undecodable              -- parse error or no ControlParameters / filter element: nil
  | args (a : Args)
  | filter (q : Filter)
  | app (k : AppKind)
deriving DecidableEq, Repr

inductive Dataset
  | rib (r : Rib)
  | fib (f : Fib)
  | sc (s : Sc)
  | cs (capacity : Nat) (flags : Nat) (n : Nat)
  | status (nfib : Nat)
  | faces (fs : List Face)
  | query (q : Filter) (fs : List Face)
deriving Repr

inductive Resp
  | none                                            -- nothing is sent
  | ctrl (code : Nat) (echo : Args)                 -- ControlResponse
  | dataset (pfx : Name) (modVerb : String) (ver : Nat) (d : Dataset)
  | panic (msg : String)
deriving Repr

/-- oracle for the parts of the tables C17 does not own (see header) -/
structure Ext where
  fibAfter : Fib

/-! ### Tables (fw/table as used by management) -/

def u64 : Nat := 2 ^ 64
def maxInt : Nat := 2 ^ 63 - 1

/-- Go `int(x)` for a uint64 `x` on a 64-bit platform -/
def toInt (x : Nat) : Int := if x % u64 ≤ maxInt then (x % u64 : Nat) else (x % u64 : Nat) - (u64 : Int)
/-- Go `uint64(i)` -/
def toU64 (i : Int) : Nat := (i % (u64 : Int)).toNat

def faceGet (fs : List Face) (id : Nat) : Option Face := fs.find? (·.id == id)
def faceSet (fs : List Face) (f : Face) : List Face := fs.map fun g => if g.id == f.id then f else g
def faceRemove (fs : List Face) (id : Nat) : List Face := fs.filter (·.id != id)

/-- `RibTable.AddEncRoute`, RIB side (the FIB side is `Ext.fibAfter`) -/
def routesAdd : List Route → Route → List Route
  | [], r => [r]
  | x :: xs, r => if x.face == r.face && x.origin == r.origin then r :: xs else x :: routesAdd xs r

def ribAdd : Rib → Name → Route → Rib
  | [], n, r => [(n, [r])]
  | (m, rs) :: t, n, r => if m == n then (m, routesAdd rs r) :: t else (m, rs) :: ribAdd t n r

/-- `RemoveRouteEnc`: the first route with this face and origin goes; an entry without routes
    is not listed any more -/
def routesRemove : List Route → Nat → Nat → List Route
  | [], _, _ => []
  | x :: xs, f, o => if x.face == f && x.origin == o then xs else x :: routesRemove xs f o

def ribRemove : Rib → Name → Nat → Nat → Rib
  | [], _, _, _ => []
  | (m, rs) :: t, n, f, o =>
    if m == n then
      (if (routesRemove rs f o).isEmpty then t else (m, routesRemove rs f o) :: t)
    else (m, rs) :: ribRemove t n f o

/-- `InsertNextHopEnc` -/
def hopsInsert : List (Nat × Nat) → Nat → Nat → List (Nat × Nat)
  | [], f, c => [(f, c)]
  | (g, d) :: t, f, c => if g == f then (g, c) :: t else (g, d) :: hopsInsert t f c

def fibInsert : Fib → Name → Nat → Nat → Fib
  | [], n, f, c => [(n, [(f, c)])]
  | (m, hs) :: t, n, f, c => if m == n then (m, hopsInsert hs f c) :: t else (m, hs) :: fibInsert t n f c

/-- `RemoveNextHopEnc` -/
def hopsRemove : List (Nat × Nat) → Nat → List (Nat × Nat)
  | [], _ => []
  | (g, d) :: t, f => if g == f then t else (g, d) :: hopsRemove t f

def fibRemove : Fib → Name → Nat → Fib
  | [], _, _ => []
  | (m, hs) :: t, n, f =>
    if m == n then (if (hopsRemove hs f).isEmpty then t else (m, hopsRemove hs f) :: t)
    else (m, hs) :: fibRemove t n f

/-- `SetStrategyEnc` / `UnSetStrategyEnc` -/
def scSet : Sc → Name → Name → Sc
  | [], n, s => [(n, s)]
  | (m, x) :: t, n, s => if m == n then (m, s) :: t else (m, x) :: scSet t n s

def scUnset (sc : Sc) (n : Name) : Sc := sc.filter fun e => e.1 != n

/-- persistency values a face of this kind may be switched to (face.go update) -/
def persOk (f : Face) (p : Nat) : Bool :=
  -- FacePersistency is one of persistent (0), on-demand (1), permanent (2) whatever the kind of face (F-17l)
  if p > 2 then false
  else if f.rscheme == "ether" && p != 2 then false
  else if (f.rscheme == "udp4" || f.rscheme == "udp6") && p != 0 && p != 2 then false
  else if f.lscheme == "unix" && p != 0 then false
  else true

/-- the parameters component: `interest.NameV[prefixLength()+2]` exists iff the name has ≥ 5
    components; the handlers test `len(NameV) < prefixLength()+3` first -/
def hasParams (name : Name) : Bool := 5 ≤ name.length

/-- largest ExpirationPeriod (ms) that fits a time.Duration (ns in an int64) -/
def maxExpMs : Nat := 9223372036854

def expOk (e : Option Nat) : Bool := match e with | some x => x ≤ maxExpMs | none => true

def persArgOk (f : Face) (pers : Option Nat) : Bool :=
  match pers with | some pv => persOk f pv | none => true

/-- Flags and Mask must come together -/
def flagsMaskOk (flags mask : Option Nat) : Bool := flags.isSome == mask.isSome

/-- flag bits selected by the mask are copied: bit 0 local fields, bit 2 congestion marking -/
def applyFlags (f : Face) (flags mask : Nat) : Face :=
  let f := if mask % 2 == 1 then { f with localFields := flags % 2 == 1 } else f
  if mask / 4 % 2 == 1 then { f with congMark := flags / 4 % 2 == 1 } else f

/-- `NDNLPLinkServiceOptions.Flags()` -/
def faceFlags (f : Face) : Nat := (if f.localFields then 1 else 0) + (if f.congMark then 4 else 0)
/-- `RibTable.CleanUpFace`: every route of the face goes, entries left without routes disappear -/
def ribCleanFace (rib : Rib) (f : Nat) : Rib :=
  (rib.map fun e => (e.1, e.2.filter fun r => r.face != f)).filter fun e => !e.2.isEmpty

def strBytes (s : String) : Bytes := s.toList.map (·.toNat)

/-- what fw/defn/uri.go + face.go create make of a remote URI string -/
inductive UriClass
  | udp (canon : String)     -- canonical unicast UDP URI to a loopback address
  | tcp (canon : String)     -- canonical TCP URI to a loopback listener
  | late                     -- canonisable, refused later (unsupported scheme, not unicast, port 0)
  | early                    -- not decodable / not canonisable
deriving DecidableEq, Repr

/-- the finite set of URI strings the generator uses, classified by running the real code
    (DecodeURIString + Canonize + the checks of `create`); any other string: not modelled -/
def uriTable : List (String × UriClass) :=
  [ ("udp4://127.0.0.1:7101", .udp "udp4://127.0.0.1:7101"), ("udp4://127.0.0.1:7102", .udp "udp4://127.0.0.1:7102"),
    ("udp://127.0.0.1:7101", .udp "udp4://127.0.0.1:7101"), ("udp4://127.0.0.1:07102", .udp "udp4://127.0.0.1:7102"),
    ("udp4://127.0.0.2:7101", .udp "udp4://127.0.0.2:7101"),
    ("udp4://127.0.0.1:7001", .udp "udp4://127.0.0.1:7001"), ("udp4://127.0.0.1:7002", .udp "udp4://127.0.0.1:7002"),
    ("tcp4://127.0.0.1:{T1}", .tcp "tcp4://127.0.0.1:{T1}"), ("tcp://127.0.0.1:{T2}", .tcp "tcp4://127.0.0.1:{T2}"),
    ("udp4://224.0.0.1:6363", .late), ("udp4://255.255.255.255:6363", .late), ("udp4://0.0.0.0:6363", .late),
    ("unix:///tmp/verif-c17.sock", .late), ("dev://eth0", .late), ("fd://3", .late), ("udp4://127.0.0.1:0", .late),
    ("internal://", .early), ("null://", .early), ("ether://[08:00:27:01:01:01]", .early), ("", .early), ("bogus", .early),
    ("udp4://", .early), ("udp4://127.0.0.1", .early), ("UDP4://127.0.0.1:7101", .early), ("wsclient://127.0.0.1:1", .early) ]

def uriClass (u : Bytes) : Option UriClass := (uriTable.find? fun e => strBytes e.1 == u).map (·.2)

/-- local URI of a face made by faces/create (the harness configures unicast UDP port 46363; the
    local URI of an outgoing TCP face is set asynchronously and is masked) -/
def createdLocalUri (c : UriClass) : String :=
  match c with | .tcp _ => "tcp-local" | _ => "udp4://127.0.0.1:46363"

def maxPacket : Nat := 8800

/-- `fillFaceProperties` (create: 200 and the 409 "conflicts with existing face") -/
def faceFullProps (f : Face) : Args :=
  { faceId := some f.id, uri := some (strBytes f.uri), localUri := some (strBytes f.luri), pers := some f.pers,
    mtu := some f.mtu, flags := some (if f.ndnlp then faceFlags f else 0),
    bcmi := if f.ndnlp then some f.bcmi else none, dct := if f.ndnlp then some f.dct else none }

/-- the face faces/create makes: persistency (default persistent), MTU (capped), flags under the
    mask; the congestion parameters are only taken when Flags is present -/
def newFace (id : Nat) (c : UriClass) (canon : String) (a : Args) : Face :=
  let base : Face :=
    { id := id, uri := canon, luri := createdLocalUri c,
      rscheme := (match c with | .tcp _ => "tcp4" | _ => "udp4"), lscheme := (match c with | .tcp _ => "tcp4" | _ => "udp4"),
      isLocal := true, pers := a.pers.getD 0,
      mtu := (match a.mtu with | some m => (if m > maxPacket then maxPacket else m) | none => maxPacket),
      ndnlp := true, localFields := false, congMark := false,
      bcmi := (if a.flags.isSome then a.bcmi.getD 100000000 else 100000000),
      dct := (if a.flags.isSome then a.dct.getD 65536 else 65536) }
  match a.flags, a.mask with | some fl, some mk => applyFlags base fl mk | _, _ => base

def createPersOk (pers : Option Nat) : Bool := match pers with | some p => p == 0 || p == 2 | none => true

/-- does a face pass the FaceQueryFilter? (LinkType of every face here is point-to-point = 0) -/
def filterMatch (q : Filter) (f : Face) : Bool :=
  (match q.faceId with | some x => x == f.id | none => true) &&
  (match q.scheme with | some x => x == strBytes f.lscheme || x == strBytes f.rscheme | none => true) &&
  (match q.uri with | some x => x == strBytes f.uri | none => true) &&
  (match q.luri with | some x => x == strBytes f.luri | none => true) &&
  (match q.scope with | some x => x == (if f.isLocal then 1 else 0) | none => true) &&
  (match q.pers with | some x => x == f.pers | none => true) &&
  (match q.linkType with | some x => x == 0 | none => true)

end Ndn.C17
