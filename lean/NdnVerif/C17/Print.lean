/-
  C17 line-protocol text: rendering of model states/responses exactly as the Go harness prints the
  implementation's, and parsing of the harness' lines (operations, dumps, responses).
  Used only by the driver.  Core Lean only.
-/
import NdnVerif.C17.Obs
namespace Ndn.C17

def joinOrDash (xs : List String) (sep : String) : String :=
  if xs.isEmpty then "-" else sep.intercalate xs

def sortStrings (xs : List String) : List String := sortBy (fun a b => !(b < a)) xs

def optNat (o : Option Nat) : String := match o with | some n => toString n | none => "-"

def routeText (r : Route) : String := s!"{r.face}:{r.origin}:{r.cost}:{r.flags}:{optNat r.exp}"

def ribText (r : Rib) : String :=
  joinOrDash (sortStrings (r.map fun e =>
    e.1.toText ++ "{" ++ ",".intercalate ((sortBy routeLe e.2).map routeText) ++ "}")) "|"

def fibText (f : Fib) : String :=
  joinOrDash (sortStrings (f.map fun e =>
    e.1.toText ++ "{" ++ ",".intercalate ((sortBy hopLe e.2).map fun h => s!"{h.1}:{h.2}") ++ "}")) "|"

def scText (s : Sc) : String :=
  joinOrDash (sortStrings (s.map fun e => e.1.toText ++ ">" ++ e.2.toText)) "|"

def faceText (f : Face) : String :=
  let fl := if f.ndnlp then faceFlags f else 0
  let b := if f.ndnlp then toString f.bcmi else "-"
  let d := if f.ndnlp then toString f.dct else "-"
  s!"{f.id},{f.uri},{f.luri},{if f.isLocal then 1 else 0},{f.pers},{f.mtu},{fl},{b},{d}"

def facesText (fs : List Face) : String := joinOrDash ((canonFaces fs).map faceText) "|"

def tablesText (t : Tables) : String :=
  s!"rib={ribText t.rib} fib={fibText t.fib} sc={scText t.sc} cs={t.cs} faces={facesText t.faces}"

def bytesHex (b : Bytes) : String := hexOrDash b

def argsText (a : Args) : String :=
  let f (k : String) (o : Option Nat) : List String := match o with | some v => [s!"{k}={v}"] | none => []
  let g (k : String) (o : Option Bytes) : List String := match o with | some v => [s!"{k}={bytesHex v}"] | none => []
  let n (k : String) (o : Option Name) : List String := match o with | some v => [s!"{k}={v.toText}"] | none => []
  joinOrDash (n "N" a.name ++ f "F" a.faceId ++ g "U" a.uri ++ g "L" a.localUri ++ f "O" a.origin ++ f "C" a.cost ++
    f "K" a.capacity ++ f "T" a.count ++ f "G" a.flags ++ f "M" a.mask ++ n "S" a.strategy ++ f "E" a.exp ++
    f "P" a.pers ++ f "B" a.bcmi ++ f "H" a.dct ++ f "X" a.mtu) ","

def datasetText (d : Dataset) : String :=
  match d with
  | .rib r => ribText r
  | .fib f => fibText f
  | .sc s => scText s
  | .cs c fl n => s!"cap={c},flags={fl},n={n}"
  | .status n => s!"nfib={n}"
  | .faces fs => facesText fs
  | .query _ fs => facesText fs

def pfxText (p : Name) : String :=
  if p == lhPrefix then "lh" else if p == lpPrefix then "lp" else "other"

def respText (r : Resp) : String :=
  match r with
  | .none => "none"
  | .ctrl c a => s!"{c}:{argsText a}"
  | .dataset p mv v d =>
    let len := if mv == "faces/query" then p.length + 2 else 6
    s!"ds:{pfxText (p.take 2)}:{mv}:{len}:v{v}:s0:final:{datasetText d}"
  | .panic m => "PANIC " ++ m

/-! ### parsing -/

def parseRoute (s : String) : Option Route :=
  match s.splitOn ":" with
  | [f, o, c, fl, e] => do
    let f ← f.toNat?; let o ← o.toNat?; let c ← c.toNat?; let fl ← fl.toNat?
    let e ← (if e == "-" then some none else e.toNat?.map some)
    pure ⟨f, o, c, fl, e⟩
  | _ => none

def splitEntry (s : String) : Option (String × String) :=
  match s.splitOn "{" with
  | [n, rest] => if rest.endsWith "}" then some (n, (rest.dropEnd 1).toString) else none
  | _ => none

def parseRib (s : String) : Option Rib :=
  if s == "-" then some [] else
  (s.splitOn "|").mapM fun e => do
    let (n, body) ← splitEntry e
    let n ← Name.ofText n
    let rs ← (if body.isEmpty then some [] else (body.splitOn ",").mapM parseRoute)
    pure (n, rs)

def parseHop (s : String) : Option (Nat × Nat) :=
  match s.splitOn ":" with
  | [f, c] => do pure (← f.toNat?, ← c.toNat?)
  | _ => none

def parseFib (s : String) : Option Fib :=
  if s == "-" then some [] else
  (s.splitOn "|").mapM fun e => do
    let (n, body) ← splitEntry e
    let n ← Name.ofText n
    let hs ← (if body.isEmpty then some [] else (body.splitOn ",").mapM parseHop)
    pure (n, hs)

def parseSc (s : String) : Option Sc :=
  if s == "-" then some [] else
  (s.splitOn "|").mapM fun e =>
    match e.splitOn ">" with
    | [n, st] => do pure (← Name.ofText n, ← Name.ofText st)
    | _ => none

def parseFace (s : String) : Option Face :=
  match s.splitOn "," with
  | [id, uri, luri, sc, pe, mtu, fl, b, d] => do
    let id ← id.toNat?; let sc ← (if sc == "1" then some true else if sc == "0" then some false else none)
    let pe ← pe.toNat?; let mtu ← mtu.toNat?; let fl ← fl.toNat?
    let scheme := (uri.splitOn "://").head!
    let lscheme := if luri == "tcp-local" then scheme else (luri.splitOn "://").head!
    let ndnlp := b != "-"
    let b ← (if ndnlp then b.toNat? else some 0)
    let d ← (if ndnlp then d.toNat? else some 0)
    pure { id := id, uri := uri, luri := luri, rscheme := scheme, lscheme := lscheme, isLocal := sc, pers := pe, mtu := mtu,
           ndnlp := ndnlp, localFields := fl % 2 == 1, congMark := fl / 4 % 2 == 1, bcmi := b, dct := d }
  | _ => none

def parseFaces (s : String) : Option (List Face) :=
  if s == "-" then some [] else (s.splitOn "|").mapM parseFace

/-- value of `key=` among space-separated tokens -/
def tokenVal (toks : List String) (key : String) : Option String :=
  (toks.find? (·.startsWith (key ++ "="))).map fun t => (t.drop (key.length + 1)).toString

def parseInt (s : String) : Option Int :=
  if s.startsWith "-" then (s.drop 1).toString.toNat?.map fun n => -(n : Int) else s.toNat?.map fun n => (n : Int)

def parseTables (toks : List String) : Option Tables := do
  let rib ← parseRib (← tokenVal toks "rib")
  let fib ← parseFib (← tokenVal toks "fib")
  let sc ← parseSc (← tokenVal toks "sc")
  let cs ← parseInt (← tokenVal toks "cs")
  let faces ← parseFaces (← tokenVal toks "faces")
  pure ⟨rib, fib, sc, cs, faces⟩

/-- field list (op line or echoed parameters) → Args; later duplicates win, unknown keys ignored -/
def argsOfFields (fs : List String) : Option Args :=
  fs.foldlM (init := ({} : Args)) fun a f =>
    match f.splitOn "=" with
    | [k, v] =>
      let v := (v.splitOn "/").head!      -- "<value>/<width>"
      if k == "N" then (Name.ofText (f.drop 2).toString).map fun n => { a with name := some n }
      else if k == "S" then (Name.ofText (f.drop 2).toString).map fun n => { a with strategy := some n }
      else if k == "U" then (bytesOfHex v).map fun b => { a with uri := some b }
      else if k == "L" then (bytesOfHex v).map fun b => { a with localUri := some b }
      else if k.startsWith "u" then some a
      else match v.toNat? with
        | none => none
        | some x =>
          if k == "F" then some { a with faceId := some x }
          else if k == "O" then some { a with origin := some x }
          else if k == "C" then some { a with cost := some x }
          else if k == "K" then some { a with capacity := some x }
          else if k == "T" then some { a with count := some x }
          else if k == "G" then some { a with flags := some x }
          else if k == "M" then some { a with mask := some x }
          else if k == "E" then some { a with exp := some x }
          else if k == "P" then some { a with pers := some x }
          else if k == "B" then some { a with bcmi := some x }
          else if k == "H" then some { a with dct := some x }
          else if k == "X" then some { a with mtu := some x }
          else none
    | _ => none

/-- the N= and S= values contain '=' only in their key, but names contain '/', which is also the
    width separator of naturals: handled above by re-reading the raw field for N and S -/
def filterOfFields (fs : List String) : Option Filter :=
  fs.foldlM (init := ({} : Filter)) fun q f =>
    match f.splitOn "=" with
    | [k, v] =>
      if k == "S" then (bytesOfHex v).map fun b => { q with scheme := some b }
      else if k == "U" then (bytesOfHex v).map fun b => { q with uri := some b }
      else if k == "L" then (bytesOfHex v).map fun b => { q with luri := some b }
      else match v.toNat? with
        | none => none
        | some x =>
          if k == "F" then some { q with faceId := some x }
          else if k == "C" then some { q with scope := some x }
          else if k == "P" then some { q with pers := some x }
          else if k == "T" then some { q with linkType := some x }
          else none
    | _ => none

/-- a natural field written with a byte width other than 1, 2, 4 or 8 ("C=5/3"): not a
    non-negative integer of the NDN packet format — the ControlParameters element does not decode
    (generated decoder after repair F-13e: `ErrFormat`) -/
def hasBadWidth (fs : List String) : Bool :=
  fs.any fun f =>
    match f.splitOn "=" with
    | [k, v] =>
      if k == "N" || k == "S" || k == "U" || k == "L" || k.startsWith "u" then false
      else match v.splitOn "/" with
        | [_, w] => !(w == "1" || w == "2" || w == "4" || w == "8")
        | _ => false
    | _ => false

def parseParamsTok (tok : String) : Option Params :=
  if tok.startsWith "raw:" then some .undecodable
  else if !(tok.startsWith "q:") && !(tok.startsWith "ap:") && hasBadWidth (tok.splitOn ";") then some .undecodable
  else if tok == "q:e" then some (.filter {})
  else if tok.startsWith "q:" then (filterOfFields ((tok.drop 2).toString.splitOn ";")).map .filter
  else if tok == "ap:data" then some (.app .data)
  else if tok == "ap:garbage" then some (.app .garbage)
  else if tok == "ap:nodigest" then some (.app .missing)
  else if tok == "e" then some (.args {})
  else (argsOfFields (tok.splitOn ";")).map .args

def parseEcho (s : String) : Option Args :=
  if s == "-" || s == "nil" then some {} else argsOfFields (s.splitOn ",")

def parseDataset (kind content : String) : Option Dataset :=
  if kind == "rib/list" then (parseRib content).map .rib
  else if kind == "fib/list" then (parseFib content).map .fib
  else if kind == "strategy-choice/list" then (parseSc content).map .sc
  else if kind == "faces/list" || kind == "faces/query" then (parseFaces content).map .faces
  else if kind == "status/general" then
    (if content.startsWith "nfib=" then (content.drop 5).toString.toNat?.map .status else none)
  else if kind == "cs/info" then
    (match content.splitOn "," with
     | [c, f, n] => do
       let c ← (c.drop 4).toString.toNat?; let f ← (f.drop 6).toString.toNat?; let n ← (n.drop 2).toString.toNat?
       pure (.cs c f n)
     | _ => none)
  else none

def parseOutcome (r : String) : Option Outcome :=
  if r == "none" then some .none
  else if r.startsWith "ds:" then
    match r.splitOn ":" with
    | _ :: pfx :: kind :: _len :: v :: _s :: _fin :: rest => do
      let ver ← (v.drop 1).toString.toNat?
      let d ← parseDataset kind (":".intercalate rest)
      let p := if pfx == "lh" then lhPrefix else if pfx == "lp" then lpPrefix else []
      pure (.dataset p kind ver d)
    | _ => none
  else
    match r.splitOn ":" with
    | code :: rest => do
      let c ← code.toNat?
      let e ← parseEcho (":".intercalate rest)
      pure (.ctrl c e)
    | _ => none

structure CmdOp where
  face : Nat
  nh : Option Nat
  name : Name
  params : Params
  key : String

def compWord (c : Component) : String :=
  if c.typ == 8 then
    match String.fromUTF8? (ByteArray.mk (c.val.map (·.toUInt8)).toArray) with
    | some s => if s.all (fun ch => ch.isAlphanum || ch == '-') then s else "?"
    | none => "?"
  else "?"

def parseCmd (f : List String) : Option CmdOp :=
  match f with
  | [_, from_, nh, prefix_, module, verb, tail, params] => do
    let face ← from_.toNat?
    let nh ← (if nh == "-" then some none else nh.toNat?.map some)
    let pfx ← Name.ofText prefix_
    let m ← (if module == "-" then some [] else (Component.ofText module).map ([·]))
    let v ← (if verb == "-" then some [] else (Component.ofText verb).map ([·]))
    let t ← tail.toNat?
    let pc : Name := if params == "-" then [] else if params.startsWith "ap:" then [⟨2, []⟩] else [⟨8, []⟩]
    let name := pfx ++ m ++ v ++ pc ++ List.replicate t ⟨8, [116]⟩
    let p ← (if params == "-" then some .undecodable else parseParamsTok params)
    let key := ".".intercalate ((m ++ v).map compWord)
    pure ⟨face, nh, name, p, key⟩
  | _ => none

end Ndn.C17
