/-
  C17 model — what the management plane of YaNFD does with one arriving Interest.

  Mirrors, branch by branch (line numbers of the pinned tree + fix commits of agent/mgmt):
    fw/fw/thread.go        processIncomingInterest: the /localhost scope check   (`fwGuard`)
    fw/mgmt/thread.go      Thread.Run: length / prefix test, module table        (`run`)
    fw/mgmt/helpers.go     decodeControlParameters (decoded view supplied), makeControlResponse
    fw/mgmt/rib.go         register / unregister / announce / list               (`ribModule`)
    fw/mgmt/fib.go         add-nexthop / remove-nexthop / list                   (`fibModule`)
    fw/mgmt/strategy-choice.go  set / unset / list                               (`scModule`)
    fw/mgmt/cs.go          config / info / erase / query                         (`csModule`)
    fw/mgmt/face.go        update / destroy / list  (create, query: see Faces section)
    fw/mgmt/forwarder-status.go  general                                         (`statusModule`)
    fw/face/ndnlp-link-service.go sendPacket: MTU arithmetic only                (`sendOutcome`)
  Tables are the simplest structures that behave like fw/table for the calls management makes:
  association lists keyed by name; (face, origin) identifies a route, face a next hop.

  NOT in the model: the byte-level TLV decoding of ControlParameters (C04/C13; the decoded view
  `Params` is an input), the RIB→FIB flattening (C06; an accepted RIB command and a face
  destruction take the resulting FIB/RIB from the oracle `Ext`), FIB routing of the command
  Interest to the management face (C02/C05; input `routed`), goroutine scheduling.
  Go panics are explicit (`Resp.panic`).  Core Lean only.
-/
import NdnVerif.C17.Tables
namespace Ndn.C17

/-! ### Responses -/

def noArgs : Args := {}
def r400 : Resp := .ctrl 400 noArgs


/-- `faceID := inFace; if params.FaceId != nil && *params.FaceId != 0 { faceID = *params.FaceId }` -/
def pickFace (a : Args) (inFace : Nat) : Nat :=
  match a.faceId with
  | some f => if f != 0 then f else inFace
  | none => inFace

def explicitFace (a : Args) : Option Nat :=
  match a.faceId with
  | some f => if f != 0 then some f else none
  | none => none

/-! ### RIB module (fw/mgmt/rib.go) — no prefix guard of its own -/

def ribRegister (st : St) (ext : Ext) (inFace : Nat) (name : Name) (p : Params) : St × Resp :=
  if !hasParams name then (st, r400) else
  match p with
  | .undecodable | .filter _ | .app _ => (st, r400)
  | .args a =>
    match a.name with
    | none => (st, r400)
    | some n =>
      let faceID := pickFace a inFace
      let ok := match explicitFace a with
        | some f => (faceGet st.faces f).isSome
        | none => true
      if !ok then (st, .ctrl 410 noArgs) else
      if !expOk a.exp then (st, r400) else            -- F-17f: was an overflowing time.Duration
      let r : Route := ⟨faceID, a.origin.getD 0, a.cost.getD 0, a.flags.getD 1, a.exp⟩
      ({ st with rib := ribAdd st.rib n r, fib := ext.fibAfter },
       .ctrl 200 { name := some n, faceId := some faceID, origin := some r.origin, cost := some r.cost,
                   flags := some r.flags, exp := a.exp })

def ribUnregister (st : St) (ext : Ext) (inFace : Nat) (name : Name) (p : Params) : St × Resp :=
  if !hasParams name then (st, r400) else
  match p with
  | .undecodable | .filter _ | .app _ => (st, r400)
  | .args a =>
    match a.name with
    | none => (st, r400)
    | some n =>
      let faceID := pickFace a inFace
      let origin := a.origin.getD 0
      ({ st with rib := ribRemove st.rib n faceID origin, fib := ext.fibAfter },
       .ctrl 200 { name := some n, faceId := some faceID, origin := some origin })

/-- rib/announce: never changes anything. 400 unless the name is exactly prefix/rib/announce/<digest>
    and the application parameters hold a Data packet; then 501 (not supported). -/
def ribAnnounce (st : St) (name : Name) (p : Params) : St × Resp :=
  if name.length != 5 then (st, .ctrl 400 noArgs) else
  match name[4]? with
  | none => (st, .ctrl 400 noArgs)
  | some c =>
    if c.typ != 2 then (st, .ctrl 400 noArgs) else
    match p with
    | .app .data => (st, .ctrl 501 noArgs)
    | _ => (st, .ctrl 400 noArgs)

def ribList (st : St) (name : Name) : St × Resp :=
  if name.length > 4 then (st, .none)
  else ({ st with vRib := st.vRib + 1 }, .dataset (name.take 2) "rib/list" st.vRib (.rib st.rib))

def ribModule (st : St) (ext : Ext) (inFace : Nat) (name : Name) (p : Params) : St × Resp :=
  match name[3]? with
  | none => (st, .panic "index out of range")     -- unreachable from `run` (length ≥ 4)
  | some verb =>
    match wordOf verb with
    | .register => ribRegister st ext inFace name p
    | .unregister => ribUnregister st ext inFace name p
    | .announce => ribAnnounce st name p
    | .list => ribList st name
    | _ => (st, .ctrl 501 noArgs)

/-! ### FIB module (fw/mgmt/fib.go) -/

def fibAdd (st : St) (inFace : Nat) (name : Name) (p : Params) : St × Resp :=
  if !hasParams name then (st, r400) else
  match p with
  | .undecodable | .filter _ | .app _ => (st, r400)
  | .args a =>
    match a.name with
    | none => (st, r400)
    | some n =>
      let faceID := pickFace a inFace
      let cost := a.cost.getD 0
      let ok := match explicitFace a with
        | some f => (faceGet st.faces f).isSome
        | none => true
      if !ok then (st, .ctrl 410 noArgs) else
      ({ st with fib := fibInsert st.fib n faceID cost },
       .ctrl 200 { name := some n, faceId := some faceID, cost := some cost })

def fibRemoveCmd (st : St) (inFace : Nat) (name : Name) (p : Params) : St × Resp :=
  if !hasParams name then (st, r400) else
  match p with
  | .undecodable | .filter _ | .app _ => (st, r400)
  | .args a =>
    match a.name with
    | none => (st, r400)
    | some n =>
      let faceID := pickFace a inFace
      ({ st with fib := fibRemove st.fib n faceID }, .ctrl 200 { name := some n, faceId := some faceID })

def fibList (st : St) (name : Name) : St × Resp :=
  if name.length > 4 then (st, .none)
  else ({ st with vFib := st.vFib + 1 }, .dataset lhPrefix "fib/list" st.vFib (.fib st.fib))

def fibModule (st : St) (inFace : Nat) (name : Name) (p : Params) : St × Resp :=
  if !lhPrefix.isPrefixOf name then (st, .none) else
  match name[3]? with
  | none => (st, .panic "index out of range")
  | some verb =>
    match wordOf verb with
    | .addNexthop => fibAdd st inFace name p
    | .removeNexthop => fibRemoveCmd st inFace name p
    | .list => fibList st name
    | _ => (st, .ctrl 501 noArgs)

/-! ### Strategy-choice module (fw/mgmt/strategy-choice.go) -/

/-- validation of `params.Strategy.Name`; result: the canonical strategy name to install, or the
    4xx code. After fixes F-17a (a name without a strategy component is refused instead of being
    indexed past its end) and F-17e (only ⟨prefix, strategy, version⟩ is accepted and the version
    is stored canonically, so the forwarding threads always have an instance for it). -/
def checkStrategy (s : Name) : Except Nat Name :=
  if !strategyPrefix.isPrefixOf s then .error 404 else
  match s[3]? with
  | none => .error 404                                   -- F-17a: was `Name[3]` → panic
  | some sn =>
    match strategyVersions sn with
    | none => .error 404
    | some avail =>
      match avail with
      | [] => .error 404                                 -- (registry never has an empty list)
      | v0 :: vs =>
        let newest := newestVersion (v0 :: vs)
        match s[4]? with
        | none => .ok (strategyPrefix ++ [sn, ⟨versionType, encNat newest⟩])
        | some vc =>
          if vc.typ != versionType then .error 404 else
          if s.length > 5 then .error 404 else          -- F-17e: trailing components
          match decNat vc.val with
          | none => .error 404
          | some v =>
            if avail.contains v then .ok (strategyPrefix ++ [sn, ⟨versionType, encNat v⟩]) else .error 404

def scSetCmd (st : St) (name : Name) (p : Params) : St × Resp :=
  if !hasParams name then (st, r400) else
  match p with
  | .undecodable | .filter _ | .app _ => (st, r400)
  | .args a =>
    match a.name with
    | none => (st, r400)
    | some n =>
      match a.strategy with
      | none => (st, r400)
      | some s =>
        match checkStrategy s with
        | .error code => (st, .ctrl code noArgs)
        | .ok canon =>
          ({ st with sc := scSet st.sc n canon }, .ctrl 200 { name := some n, strategy := some canon })

def scUnsetCmd (st : St) (name : Name) (p : Params) : St × Resp :=
  if !hasParams name then (st, r400) else
  match p with
  | .undecodable | .filter _ | .app _ => (st, r400)
  | .args a =>
    match a.name with
    | none => (st, r400)
    | some n =>
      if n.length == 0 then (st, r400) else
      ({ st with sc := scUnset st.sc n }, .ctrl 200 { name := some n })

def scList (st : St) (name : Name) : St × Resp :=
  if name.length > 4 then (st, .none)
  else ({ st with vSc := st.vSc + 1 }, .dataset lhPrefix "strategy-choice/list" st.vSc (.sc st.sc))

def scModule (st : St) (name : Name) (p : Params) : St × Resp :=
  if !lhPrefix.isPrefixOf name then (st, .none) else
  match name[3]? with
  | none => (st, .panic "index out of range")
  | some verb =>
    match wordOf verb with
    | .set => scSetCmd st name p
    | .unset => scUnsetCmd st name p
    | .list => scList st name
    | _ => (st, .ctrl 501 noArgs)

/-! ### Content-store module (fw/mgmt/cs.go) -/

def csConfig (st : St) (name : Name) (p : Params) : St × Resp :=
  if !hasParams name then (st, r400) else
  match p with
  | .undecodable | .filter _ | .app _ => (st, r400)
  | .args a =>
    if a.flags.isSome != a.mask.isSome then (st, .ctrl 409 noArgs) else
    match a.capacity with
    | some k =>
      if k > maxInt then (st, .ctrl 409 noArgs)          -- F-17c: was `int(uint64)` → negative
      else ({ st with cs := (k : Int) }, .ctrl 200 { flags := some 0, capacity := some k })
    | none => (st, .ctrl 200 { flags := some 0 })

def csInfo (st : St) (name : Name) : St × Resp :=
  if name.length > 4 then (st, .none)
  else ({ st with vCs := st.vCs + 1 }, .dataset lhPrefix "cs/info" st.vCs (.cs (toU64 st.cs) 3 0))

def csModule (st : St) (name : Name) (p : Params) : St × Resp :=
  if !lhPrefix.isPrefixOf name then (st, .none) else
  match name[3]? with
  | none => (st, .panic "index out of range")
  | some verb =>
    match wordOf verb with
    | .config => csConfig st name p
    | .erase => (st, .none)
    | .info => csInfo st name
    | .query => (st, .none)
    | _ => (st, .ctrl 501 noArgs)

/-! ### Forwarder status (fw/mgmt/forwarder-status.go) -/

def statusModule (st : St) (name : Name) : St × Resp :=
  if !lhPrefix.isPrefixOf name then (st, .none) else
  match name[3]? with
  | none => (st, .panic "index out of range")
  | some verb =>
    match wordOf verb with
    | .general =>
      (if name.length > 4 then (st, .none)
       else ({ st with vStatus := st.vStatus + 1 }, .dataset lhPrefix "status/general" st.vStatus (.status st.fib.length)))
    | _ => (st, .ctrl 501 noArgs)

/-! ### Faces module (fw/mgmt/face.go) -/

/-- smallest MTU management accepts (fix F-17b): strictly more than the largest per-frame
    overhead `sendPacket` reserves (60 with a forwarder PIT token), so every fragment carries payload -/
def minMtu : Nat := 64


/-- `fillFaceProperties` minus Uri/LocalUri (face update response) -/
def faceProps (f : Face) : Args :=
  { faceId := some f.id, pers := some f.pers, mtu := some f.mtu,
    flags := some (if f.ndnlp then faceFlags f else 0),
    bcmi := if f.ndnlp then some f.bcmi else none, dct := if f.ndnlp then some f.dct else none }

/-- fix F-17b: an MTU below `minMtu` is refused -/
def mtuOk (mtu : Option Nat) : Bool := match mtu with | some m => minMtu ≤ m | none => true

/-- "Actually perform face updates": persistency, congestion parameters, MTU (capped at the
    maximum packet size), flags under the mask -/
def faceAfter (f : Face) (a : Args) : Face :=
  let f := match a.pers with | some pv => { f with pers := pv } | none => f
  let f := match a.bcmi with | some b => { f with bcmi := b } | none => f
  let f := match a.dct with | some d => { f with dct := d } | none => f
  let f := match a.mtu with | some m => { f with mtu := if m > maxPacket then maxPacket else m } | none => f
  match a.flags, a.mask with | some fl, some mk => applyFlags f fl mk | _, _ => f

def faceUpdate (st : St) (inFace : Nat) (name : Name) (p : Params) : St × Resp :=
  if !hasParams name then (st, r400) else
  match p with
  | .undecodable | .filter _ | .app _ => (st, r400)
  | .args a =>
    let faceID := pickFace a inFace
    match faceGet st.faces faceID with
    | none => (st, .ctrl 404 { faceId := some faceID })
    | some f =>
      if f.rscheme == "null" || f.rscheme == "internal" then (st, .ctrl 401 { faceId := some faceID }) else
      if !(persArgOk f a.pers && flagsMaskOk a.flags a.mask && mtuOk a.mtu) then (st, .ctrl 409 noArgs) else
      if !f.ndnlp then (st, .panic "interface conversion") else
      ({ st with faces := faceSet st.faces (faceAfter f a) }, .ctrl 200 (faceProps (faceAfter f a)))

def faceDestroy (st : St) (ext : Ext) (name : Name) (p : Params) : St × Resp :=
  if !hasParams name then (st, r400) else
  match p with
  | .undecodable | .filter _ | .app _ => (st, r400)
  | .args a =>
    match a.faceId with
    | none => (st, r400)
    | some f =>
      -- the response echoes the FaceId alone (fix of F-17k: echoing every request parameter through
      -- ToDict / DictToControlArgs failed for a Strategy field and crashed the management thread)
      if (faceGet st.faces f).isSome then
        ({ st with faces := faceRemove st.faces f, rib := ribCleanFace st.rib f, fib := ext.fibAfter }, .ctrl 200 { faceId := some f })
      else (st, .ctrl 200 { faceId := some f })

/-- the part of create after the URI has been recognised as a unicast UDP/TCP URI -/
def createOn (st : St) (a : Args) (c : UriClass) (canon : String) : St × Resp :=
  if !flagsMaskOk a.flags a.mask then (st, .ctrl 409 noArgs) else
  if !mtuOk a.mtu then (st, .ctrl 406 noArgs) else                                   -- F-17b
  match st.faces.find? (fun f => f.uri == canon) with
  | some ex => (st, .ctrl 409 (faceFullProps ex))
  | none =>
    if !createPersOk a.pers then (st, .ctrl 406 noArgs) else
    ({ st with faces := st.faces ++ [newFace st.nextFace c canon a], nextFace := st.nextFace + 1 },
     .ctrl 200 (faceFullProps (newFace st.nextFace c canon a)))

/-- faces/create. The URI handling of fw/defn/uri.go (regular expressions, DNS) is not modelled:
    `uriClass` knows the finite set of strings the generator uses; for any other string the answer
    below (406) is a placeholder that the driver does not compare and the specification leaves
    open (`validity = .either`). -/
def faceCreate (st : St) (name : Name) (p : Params) : St × Resp :=
  if !hasParams name then (st, r400) else
  match p with
  | .undecodable | .filter _ | .app _ => (st, r400)
  | .args a =>
    match a.uri with
    | none => (st, r400)
    | some u =>
      match uriClass u with
      | none => (st, .ctrl 406 noArgs)
      | some .early => (st, .ctrl 406 noArgs)
      | some .late =>
        if !flagsMaskOk a.flags a.mask then (st, .ctrl 409 noArgs) else (st, .ctrl 406 noArgs)
      | some (.udp canon) => createOn st a (.udp canon) canon
      | some (.tcp canon) => createOn st a (.tcp canon) canon

/-- faces/query: silently ignored without a decodable filter (fix F-17g: a component without a
    FaceQueryFilter element used to be dereferenced as nil) -/
def faceQuery (st : St) (name : Name) (p : Params) : St × Resp :=
  if !hasParams name then (st, .none) else
  match p with
  | .filter q =>
    ({ st with vFaces := st.vFaces + 1 }, .dataset name "faces/query" st.vFaces (.query q (st.faces.filter (filterMatch q))))
  | _ => (st, .none)

def faceList (st : St) (name : Name) : St × Resp :=
  if name.length > 4 then (st, .none)
  else ({ st with vFaces := st.vFaces + 1 }, .dataset lhPrefix "faces/list" st.vFaces (.faces st.faces))

def facesModule (st : St) (ext : Ext) (inFace : Nat) (name : Name) (p : Params) : St × Resp :=
  if !lhPrefix.isPrefixOf name then (st, .none) else
  match name[3]? with
  | none => (st, .panic "index out of range")
  | some verb =>
    match wordOf verb with
    | .update => faceUpdate st inFace name p
    | .destroy => faceDestroy st ext name p
    | .list => faceList st name
    | .create => faceCreate st name p
    | .query => faceQuery st name p
    | _ => (st, .ctrl 501 noArgs)

/-! ### Thread.Run (fw/mgmt/thread.go) -/

/-- one Interest received on the internal transport. `inFace` = IncomingFaceId. -/
def run (st : St) (ext : Ext) (inFace : Nat) (name : Name) (p : Params) : St × Resp :=
  if name.length < 4 then (st, .none) else
  if !lhPrefix.isPrefixOf name && !(st.lh && lpPrefix.isPrefixOf name) then (st, .none) else   -- F-17d
  match name[2]? with
  | none => (st, .panic "index out of range")
  | some m =>
    match modOf m with
    | .cs => csModule st name p
    | .faces => facesModule st ext inFace name p
    | .fib => fibModule st inFace name p
    | .rib => ribModule st ext inFace name p
    | .status => statusModule st name
    | .sc => scModule st name p
    | .other => (st, .ctrl 501 noArgs)

/-! ### The forwarding thread in front of management (fw/fw/thread.go) -/

def localhostVal : Bytes := bLocalhost

/-- `processIncomingInterest`: the arrival face must exist, and a non-local face may not use a
    name whose first component value is "localhost" -/
def fwGuard (st : St) (face : Nat) (name : Name) : Bool :=
  match faceGet st.faces face with
  | none => false
  | some f =>
    match name with
    | c :: _ => !(!f.isLocal && c.val == localhostVal)
    | [] => true

/-- A packet arriving from the network / an application on `face`. `routed`: the forwarding plane
    (NextHopFaceId or FIB + strategy — C02/C05) handed it to the management face. The response is
    seen by the requester only if its face still exists afterwards. -/
def sysStep (st : St) (ext : Ext) (routed : Bool) (face : Nat) (name : Name) (p : Params) : St × Resp :=
  if !fwGuard st face name then (st, .none) else
  if !routed then (st, .none) else
  let (st', r) := run st ext face name p
  match r with
  | .panic m => (st', .panic m)
  | r => if (faceGet st'.faces face).isSome then (st', r) else (st', .none)

/-! ### a face closing on its own (fw/face: transport Close → runSend → FaceTable.Remove) -/

/-- the transport of face `f` is closed locally (expiration handler, shutdown, peer gone): the link
    service's send loop unregisters the face and the RIB drops its routes -/
def faceClosed (st : St) (ext : Ext) (f : Nat) : St :=
  if (faceGet st.faces f).isSome then
    { st with faces := faceRemove st.faces f, rib := ribCleanFace st.rib f, fib := ext.fibAfter }
  else st

/-! ### sendPacket MTU arithmetic (fw/face/ndnlp-link-service.go, after the C10 fixes) -/

inductive SendOutcome
  | frames (n : Nat)       -- n frames emitted
  | dropped                -- "DROP": over the MTU without fragmentation, or no room for the header
deriving DecidableEq, Repr

/-- bytes every frame of a fragmented packet needs besides its payload: LpPacket TL (4), Fragment
    TL (4), Sequence (10), FragIndex/FragCount (10); PIT token (2 + length) when attached,
    IncomingFaceId (12) when enabled, congestion mark (12) -/
def overhead (tokLen : Nat) (inFaceInd hasMark : Bool) : Nat :=
  28 + (if tokLen > 0 then 2 + tokLen else 0) + (if inFaceInd then 12 else 0) + (if hasMark then 12 else 0)

/-- the largest overhead with the 6-byte PIT tokens the forwarder attaches -/
def maxOverhead : Nat := overhead 6 true true

/-- `wholeLen` = encoded size of the unfragmented frame (C10's business; an input here) -/
def sendOutcome (mtu : Nat) (frag : Bool) (tokLen : Nat) (inFaceInd hasMark : Bool) (wholeLen len : Nat) : SendOutcome :=
  if wholeLen ≤ mtu then .frames 1
  else if !frag then .dropped
  else if mtu ≤ overhead tokLen inFaceInd hasMark then .dropped
  else .frames ((len + (mtu - overhead tokLen inFaceInd hasMark) - 1) / (mtu - overhead tokLen inFaceInd hasMark))

/-! ### Initial state of a history (the harness world) -/

def mkHook (id : Nat) (uri : String) (isLocal : Bool) (lf : Bool) : Face :=
  { id := id, uri := uri, luri := (if isLocal then "udp4://127.0.0.1:6363" else "udp4://192.0.2.2:6363"), rscheme := "udp4", lscheme := "udp4", isLocal := isLocal, pers := 0, mtu := 8800, ndnlp := true,
    localFields := lf, congMark := false, bcmi := 100000000, dct := 65536 }

def initFaces : List Face :=
  [ { id := 1, uri := "internal://", luri := "internal://", rscheme := "internal", lscheme := "internal", isLocal := true, pers := 0, mtu := 8800,
      ndnlp := true, localFields := true, congMark := false, bcmi := 100000000, dct := 65536 },
    mkHook 2 "udp4://127.0.0.1:7001" true true,
    mkHook 3 "udp4://127.0.0.1:7002" true false,
    mkHook 4 "udp4://192.0.2.10:6363" false false,
    mkHook 5 "udp4://192.0.2.11:6363" false true,
    mkHook 6 "udp4://127.0.0.1:7009" true false,
    { id := 7, uri := "null://", luri := "null://", rscheme := "null", lscheme := "null", isLocal := false, pers := 2,
      mtu := 8800, ndnlp := false, localFields := false, congMark := false, bcmi := 0, dct := 0 } ]

def init (lh : Bool) : St :=
  { lh := lh, faces := initFaces, rib := [],
    fib := (if lh then [(lpPrefix, [(1, 0)])] else []) ++ [(lhPrefix, [(1, 0)])],
    sc := [([], bestRouteV1)], cs := 1024 }

end Ndn.C17
