/-
  C17 — helper lemmas (no property statements here; those are in Props.lean).
-/
import NdnVerif.C17.Obs
namespace Ndn.C17

instance : LawfulBEq Component where
  eq_of_beq := by
    intro a b h
    cases a; cases b
    simp only [BEq.beq] at h
    unfold instBEqComponent.beq at h; simp_all
  rfl := by
    intro a
    cases a
    simp only [BEq.beq]
    unfold instBEqComponent.beq; simp

theorem compIs_iff (c : Component) (s : String) : compIs c s = true ↔ c = gc s := by
  simp [compIs]

/-- the tables of a state, as a tuple (structural equality of all five) -/
def tbl (st : St) : Rib × Fib × Sc × Int × List Face := (st.rib, st.fib, st.sc, st.cs, st.faces)

theorem tablesOf_eq_of_tbl {a b : St} (h : tbl a = tbl b) : tablesOf a = tablesOf b := by
  simp [tbl] at h; simp [tablesOf, h]

/-! ### the model refines the specification, verb by verb -/

/-- `st'` is `st` with the tables the effect describes (FIB / RIB left to the oracle where the
    specification leaves them free), everything else untouched -/
def Agrees (st' st : St) (e : Effect) : Prop :=
  st'.lh = st.lh ∧ st'.vRib = st.vRib ∧ st'.vFib = st.vFib ∧ st'.vSc = st.vSc ∧ st'.vCs = st.vCs ∧
  st'.vFaces = st.vFaces ∧ st'.vStatus = st.vStatus ∧
  st'.sc = e.t.sc ∧ st'.cs = e.t.cs ∧ st'.faces = e.t.faces ∧
  (e.fibFree = false → st'.fib = e.t.fib) ∧ (e.ribFree = false → st'.rib = e.t.rib)

/-- the result `res` of a verb handler is what the specification prescribes -/
def Char (st : St) (inFace : Nat) (v : Verb) (name : Name) (p : Params) (res : St × Resp) : Prop :=
  match validity (tablesOf st) inFace v (hasParams name) p with
  | .valid => ∃ a, p = .args a ∧ res.2 = .ctrl 200 (effect (tablesOf st) inFace v a).echo ∧
      Agrees res.1 st (effect (tablesOf st) inFace v a)
  | _ => res.1 = st ∧ ∃ c e, res.2 = .ctrl c e ∧ 400 ≤ c ∧ c < 500

theorem pickFace_eq (a : Args) (f : Nat) : pickFace a f = targetFace a f := by
  unfold pickFace targetFace
  cases a.faceId <;> simp
  all_goals (try (split <;> simp_all))

theorem ribRegister_char (st : St) (ext : Ext) (f : Nat) (name : Name) (p : Params) :
    Char st f .ribRegister name p (ribRegister st ext f name p) := by
  unfold Char ribRegister validity
  by_cases hp : hasParams name = true
  · simp only [hp]
    cases p with
    | undecodable => simp [r400]
    | args a =>
      cases hn : a.name with
      | none => simp [r400, hn]
      | some n =>
        cases hf : a.faceId with
        | none => simp [explicitFace, hf, Agrees, effect, pickFace_eq, tablesOf, hn]
        | some x =>
          by_cases hx : x = 0
          · simp [explicitFace, hf, hx, Agrees, effect, pickFace_eq, tablesOf, hn]
          · by_cases he : (faceGet st.faces x).isSome = true
            · simp [explicitFace, hf, hx, he, Agrees, effect, pickFace_eq, tablesOf, hn]
            · simp [explicitFace, hf, hx, he, tablesOf, hn]
  · simp [hp, r400]

theorem ribUnregister_char (st : St) (ext : Ext) (f : Nat) (name : Name) (p : Params) :
    Char st f .ribUnregister name p (ribUnregister st ext f name p) := by
  unfold Char ribUnregister validity
  by_cases hp : hasParams name = true
  · simp only [hp]
    cases p with
    | undecodable => simp [r400]
    | args a =>
      cases hn : a.name with
      | none => simp [r400, hn]
      | some n => simp [Agrees, effect, pickFace_eq, tablesOf, hn]
  · simp [hp, r400]

theorem fibAdd_char (st : St) (f : Nat) (name : Name) (p : Params) :
    Char st f .fibAdd name p (fibAdd st f name p) := by
  unfold Char fibAdd validity
  by_cases hp : hasParams name = true
  · simp only [hp]
    cases p with
    | undecodable => simp [r400]
    | args a =>
      cases hn : a.name with
      | none => simp [r400, hn]
      | some n =>
        cases hf : a.faceId with
        | none => simp [explicitFace, hf, Agrees, effect, pickFace_eq, tablesOf, hn]
        | some x =>
          by_cases hx : x = 0
          · simp [explicitFace, hf, hx, Agrees, effect, pickFace_eq, tablesOf, hn]
          · by_cases he : (faceGet st.faces x).isSome = true
            · simp [explicitFace, hf, hx, he, Agrees, effect, pickFace_eq, tablesOf, hn]
            · simp [explicitFace, hf, hx, he, tablesOf, hn]
  · simp [hp, r400]

theorem fibRemove_char (st : St) (f : Nat) (name : Name) (p : Params) :
    Char st f .fibRemove name p (fibRemoveCmd st f name p) := by
  unfold Char fibRemoveCmd validity
  by_cases hp : hasParams name = true
  · simp only [hp]
    cases p with
    | undecodable => simp [r400]
    | args a =>
      cases hn : a.name with
      | none => simp [r400, hn]
      | some n => simp [Agrees, effect, pickFace_eq, tablesOf, hn]
  · simp [hp, r400]

theorem strategyPrefix_eq : strategyPrefix = [gc "localhost", gc "nfd", gc "strategy"] := rfl

theorem not_and3 {p q r : Prop} (h : ¬(p ∧ q ∧ r)) : ¬p ∨ ¬q ∨ ¬r := by
  by_cases h1 : p <;> by_cases h2 : q <;> by_cases h3 : r <;> simp_all

theorem checkStrategy_eq (s : Name) :
    checkStrategy s = match knownStrategy s with | some c => .ok c | none => .error 404 := by
  unfold checkStrategy knownStrategy
  match s with
  | [] => simp [Name.isPrefixOf, strategyPrefix_eq]
  | [a] => simp [Name.isPrefixOf, strategyPrefix_eq]
  | [a, b] => simp [Name.isPrefixOf, strategyPrefix_eq]
  | [a, b, c] => simp [Name.isPrefixOf, strategyPrefix_eq]
  | [a, b, c, sn] =>
    simp only [Name.isPrefixOf, strategyPrefix_eq]
    by_cases h : a = gc "localhost" ∧ b = gc "nfd" ∧ c = gc "strategy"
    · simp [h]
      cases strategyVersions sn with
      | none => simp
      | some l => cases l <;> simp
    · have h' := not_and3 h
      simp [h, h']
  | [a, b, c, sn, vc] =>
    simp only [Name.isPrefixOf, strategyPrefix_eq]
    by_cases h : a = gc "localhost" ∧ b = gc "nfd" ∧ c = gc "strategy"
    · simp [h]
      cases strategyVersions sn with
      | none => simp
      | some l =>
        cases l with
        | nil =>
          by_cases ht : vc.typ = versionType <;> simp [ht]
          cases decNat vc.val <;> simp
        | cons v vs =>
          simp
          by_cases ht : vc.typ = versionType
          · simp [ht]
            cases decNat vc.val with
            | none => simp
            | some x => simp; split <;> simp_all
          · simp [ht]
    · have h' := not_and3 h
      simp [h, h']
  | a :: b :: c :: sn :: vc :: x :: rest =>
    simp only [Name.isPrefixOf, strategyPrefix_eq]
    by_cases h : a = gc "localhost" ∧ b = gc "nfd" ∧ c = gc "strategy"
    · simp [h]
      cases strategyVersions sn with
      | none => simp
      | some l =>
        cases l with
        | nil => simp
        | cons v vs => simp
    · have h' := not_and3 h
      simp [h']


theorem scSet_char (st : St) (f : Nat) (name : Name) (p : Params) :
    Char st f .scSet name p (scSetCmd st name p) := by
  unfold Char scSetCmd validity
  by_cases hp : hasParams name = true
  · simp only [hp]
    cases p with
    | undecodable => simp [r400]
    | args a =>
      cases hn : a.name with
      | none => simp [r400, hn]
      | some n =>
        cases hs : a.strategy with
        | none => simp [r400, hn, hs]
        | some s =>
          cases hk : knownStrategy s with
          | none => simp [hn, hs, hk, checkStrategy_eq]
          | some c => simp [hn, hs, hk, checkStrategy_eq, Agrees, effect, tablesOf]
  · simp [hp, r400]

theorem scUnset_char (st : St) (f : Nat) (name : Name) (p : Params) :
    Char st f .scUnset name p (scUnsetCmd st name p) := by
  unfold Char scUnsetCmd validity
  by_cases hp : hasParams name = true
  · simp only [hp]
    cases p with
    | undecodable => simp [r400]
    | args a =>
      cases hn : a.name with
      | none => simp [r400, hn]
      | some n =>
        cases n with
        | nil => simp [r400, hn]
        | cons c t => simp [hn, Agrees, effect, tablesOf]
  · simp [hp, r400]

theorem csConfig_char (st : St) (f : Nat) (name : Name) (p : Params) :
    Char st f .csConfig name p (csConfig st name p) := by
  unfold Char csConfig validity
  by_cases hp : hasParams name = true
  · simp only [hp]
    cases p with
    | undecodable => simp [r400]
    | args a =>
      by_cases hfm : a.flags.isSome = a.mask.isSome
      · cases hk : a.capacity with
        | none => simp [hfm, hk, Agrees, effect, tablesOf]
        | some k =>
          by_cases hle : k ≤ maxInt
          · have : ¬ k > maxInt := by omega
            simp [hfm, hk, hle, this, Agrees, effect, tablesOf]
          · have : k > maxInt := by omega
            simp [hfm, hk, hle, this]
      · simp [hfm]
  · simp [hp, r400]

theorem faceDestroy_char (st : St) (ext : Ext) (f : Nat) (name : Name) (p : Params) :
    Char st f .faceDestroy name p (faceDestroy st ext name p) := by
  unfold Char faceDestroy validity
  by_cases hp : hasParams name = true
  · simp only [hp]
    cases p with
    | undecodable => simp [r400]
    | args a =>
      cases hf : a.faceId with
      | none => simp [r400, hf]
      | some x =>
        by_cases he : (faceGet st.faces x).isSome = true
        · simp [hf, he, Agrees, effect, tablesOf]
        · have hnone : faceGet st.faces x = none := by
            cases h : faceGet st.faces x <;> simp_all
          have hrem : faceRemove st.faces x = st.faces := by
            unfold faceRemove
            unfold faceGet at hnone
            apply List.filter_eq_self.2
            intro g hg
            have := List.find?_eq_none.1 hnone g hg
            simp_all
          simp [hf, he, Agrees, effect, tablesOf, hrem]
  · simp [hp, r400]

/-- every face management may update is an NDNLPv2 link service (true of every transport the
    forwarder creates: only the null face has another link service) -/
def FacesWF (fs : List Face) : Prop := ∀ f ∈ fs, schemeUpdatable f = true → f.ndnlp = true

theorem faceGet_some {fs : List Face} {id : Nat} {f : Face} (h : faceGet fs id = some f) : f ∈ fs ∧ f.id = id := by
  unfold faceGet at h
  have h1 := List.mem_of_find?_eq_some h
  have h2 := List.find?_some h
  simp_all

theorem faceAfter_eq (f : Face) (a : Args) : faceAfter f a = specFaceAfter f a := rfl

theorem applyFlags_keep (f : Face) (fl mk : Nat) :
    (applyFlags f fl mk).id = f.id ∧ (applyFlags f fl mk).ndnlp = f.ndnlp ∧ (applyFlags f fl mk).mtu = f.mtu := by
  unfold applyFlags; split <;> split <;> simp

theorem faceAfter_keep (f : Face) (a : Args) : (faceAfter f a).id = f.id ∧ (faceAfter f a).ndnlp = f.ndnlp := by
  unfold faceAfter
  cases a.pers <;> cases a.bcmi <;> cases a.dct <;> cases a.mtu <;> cases a.flags <;> cases a.mask <;>
    simp [applyFlags_keep]

theorem mtuOk_iff (m : Option Nat) : mtuOk m = true ↔ mtuClass m = .valid := by
  unfold mtuOk mtuClass minMtu specMaxOverhead specMinMtu
  cases m with
  | none => simp
  | some m =>
    simp
    constructor
    · intro h; split <;> (try split) <;> simp_all <;> omega
    · intro h; split at h <;> (try split at h) <;> simp_all <;> omega

theorem faceUpdate_char (st : St) (f : Nat) (name : Name) (p : Params) (hwf : FacesWF st.faces) :
    Char st f .faceUpdate name p (faceUpdate st f name p) := by
  unfold Char faceUpdate validity
  by_cases hp : hasParams name = true
  · simp only [hp]
    cases p with
    | undecodable => simp [r400]
    | args a =>
      simp only [pickFace_eq, tablesOf]
      cases hg : faceGet st.faces (targetFace a f) with
      | none => simp
      | some fc =>
        have ⟨hmem, hid⟩ := faceGet_some hg
        by_cases hs : schemeUpdatable fc = true
        · have hnd := hwf fc hmem hs
          have hs' : (fc.rscheme == "null" || fc.rscheme == "internal") = false := by
            unfold schemeUpdatable at hs; simp_all
          have hk := faceAfter_keep fc a
          by_cases hfm : flagsMaskOk a.flags a.mask = true
          · by_cases okP : persArgOk fc a.pers = true
            · by_cases okM : mtuOk a.mtu = true
              · have hv : mtuClass a.mtu = .valid := (mtuOk_iff _).1 okM
                simp [hs, hs', hfm, okP, okM, hv, hnd, Agrees, effect, hg, faceProps, hk, hid, ← faceAfter_eq]
              · have hv : mtuClass a.mtu ≠ .valid := fun h => okM ((mtuOk_iff _).2 h)
                simp only [hs, hs', hfm, okP, okM]
                simp
                try (split <;> simp_all)
            · simp [hs, hs', hfm, okP]
          · simp [hs, hs', hfm]
        · have hs' : (fc.rscheme == "null" || fc.rscheme == "internal") = true := by
            unfold schemeUpdatable at hs
            cases h1 : fc.rscheme == "null" <;> cases h2 : fc.rscheme == "internal" <;> simp_all
          simp [hs, hs']
  · simp [hp, r400]


end Ndn.C17
