/-
  C17 — helper lemmas (no property statements here; those are in Props.lean).
-/
import NdnVerif.C17.Obs
namespace Ndn.C17

instance : LawfulBEq Component where
  eq_of_beq := by
    intro a b h
    cases a; cases b
    simp only [BEq.beq] at h
    unfold instBEqComponent.beq at h; simp_all
  rfl := by
    intro a
    cases a
    simp only [BEq.beq]
    unfold instBEqComponent.beq; simp

theorem compIs_iff (c : Component) (s : String) : compIs c s = true ↔ c = gc s := by
  simp [compIs]

/-- the tables of a state, as a tuple (structural equality of all five) -/
def tbl (st : St) : Rib × Fib × Sc × Int × List Face := (st.rib, st.fib, st.sc, st.cs, st.faces)

theorem tablesOf_eq_of_tbl {a b : St} (h : tbl a = tbl b) : tablesOf a = tablesOf b := by
  simp [tbl] at h; simp [tablesOf, h]

/-! ### the model refines the specification, verb by verb -/

/-- `st'` is `st` with the tables the effect describes (FIB / RIB left to the oracle where the
    specification leaves them free), everything else untouched -/
def Agrees (st' st : St) (e : Effect) : Prop :=
  st'.lh = st.lh ∧ st'.vRib = st.vRib ∧ st'.vFib = st.vFib ∧ st'.vSc = st.vSc ∧ st'.vCs = st.vCs ∧
  st'.vFaces = st.vFaces ∧ st'.vStatus = st.vStatus ∧
  st'.sc = e.t.sc ∧ st'.cs = e.t.cs ∧ st'.faces = e.t.faces ∧
  (e.fibFree = false → st'.fib = e.t.fib) ∧ (e.ribFree = false → st'.rib = e.t.rib) ∧
  st'.nextFace = st.nextFace + e.consumesId.toNat ∧ e.ok = true

/-- the id a created face gets in the model: the face table's counter -/
def modelNewId (v : Verb) (st : St) : Nat := match v with | .faceCreate => st.nextFace | _ => 0

/-- the result `res` of a verb handler is what the specification prescribes -/
def Char (st : St) (inFace : Nat) (v : Verb) (name : Name) (p : Params) (res : St × Resp) : Prop :=
  match validity (tablesOf st) inFace v (hasParams name) p with
  | .valid => ∃ a, p = .args a ∧ res.2 = .ctrl 200 (effect (tablesOf st) inFace v a (modelNewId v st)).echo ∧
      Agrees res.1 st (effect (tablesOf st) inFace v a (modelNewId v st))
  | _ => res.1 = st ∧ ∃ c e, res.2 = .ctrl c e ∧ 400 ≤ c ∧ c < 500

theorem pickFace_eq (a : Args) (f : Nat) : pickFace a f = targetFace a f := by
  unfold pickFace targetFace
  cases a.faceId <;> simp
  all_goals (try (split <;> simp_all))

theorem ribRegister_char (st : St) (ext : Ext) (f : Nat) (name : Name) (p : Params) :
    Char st f .ribRegister name p (ribRegister st ext f name p) := by
  unfold Char ribRegister validity
  by_cases hp : hasParams name = true
  · simp only [hp]
    cases p with
    | undecodable => simp [r400]
    | filter q => simp [r400]
    | app k => simp [r400]
    | args a =>
      cases hn : a.name with
      | none => simp [r400, hn]
      | some n =>
        by_cases hex : expOk a.exp = true
        · cases hf : a.faceId with
          | none => simp [explicitFace, hf, hex, Agrees, effect, pickFace_eq, tablesOf, hn]
          | some x =>
            by_cases hx : x = 0
            · simp [explicitFace, hf, hx, hex, Agrees, effect, pickFace_eq, tablesOf, hn]
            · by_cases he : (faceGet st.faces x).isSome = true
              · simp [explicitFace, hf, hx, he, hex, Agrees, effect, pickFace_eq, tablesOf, hn]
              · simp [explicitFace, hf, hx, he, tablesOf, hn]
        · cases hf : a.faceId with
          | none => simp [explicitFace, hf, hex, hn, r400]
          | some x =>
            by_cases hx : x = 0
            · simp [explicitFace, hf, hx, hex, hn, r400]
            · by_cases he : (faceGet st.faces x).isSome = true
              · simp [explicitFace, hf, hx, he, hex, tablesOf, hn, r400]
              · simp [explicitFace, hf, hx, he, hex, tablesOf, hn]
  · simp [hp, r400]

theorem ribUnregister_char (st : St) (ext : Ext) (f : Nat) (name : Name) (p : Params) :
    Char st f .ribUnregister name p (ribUnregister st ext f name p) := by
  unfold Char ribUnregister validity
  by_cases hp : hasParams name = true
  · simp only [hp]
    cases p with
    | undecodable => simp [r400]
    | filter q => simp [r400]
    | app k => simp [r400]
    | args a =>
      cases hn : a.name with
      | none => simp [r400, hn]
      | some n => simp [Agrees, effect, pickFace_eq, tablesOf, hn]
  · simp [hp, r400]

theorem fibAdd_char (st : St) (f : Nat) (name : Name) (p : Params) :
    Char st f .fibAdd name p (fibAdd st f name p) := by
  unfold Char fibAdd validity
  by_cases hp : hasParams name = true
  · simp only [hp]
    cases p with
    | undecodable => simp [r400]
    | filter q => simp [r400]
    | app k => simp [r400]
    | args a =>
      cases hn : a.name with
      | none => simp [r400, hn]
      | some n =>
        cases hf : a.faceId with
        | none => simp [explicitFace, hf, Agrees, effect, pickFace_eq, tablesOf, hn]
        | some x =>
          by_cases hx : x = 0
          · simp [explicitFace, hf, hx, Agrees, effect, pickFace_eq, tablesOf, hn]
          · by_cases he : (faceGet st.faces x).isSome = true
            · simp [explicitFace, hf, hx, he, Agrees, effect, pickFace_eq, tablesOf, hn]
            · simp [explicitFace, hf, hx, he, tablesOf, hn]
  · simp [hp, r400]

theorem fibRemove_char (st : St) (f : Nat) (name : Name) (p : Params) :
    Char st f .fibRemove name p (fibRemoveCmd st f name p) := by
  unfold Char fibRemoveCmd validity
  by_cases hp : hasParams name = true
  · simp only [hp]
    cases p with
    | undecodable => simp [r400]
    | filter q => simp [r400]
    | app k => simp [r400]
    | args a =>
      cases hn : a.name with
      | none => simp [r400, hn]
      | some n => simp [Agrees, effect, pickFace_eq, tablesOf, hn]
  · simp [hp, r400]

theorem strategyPrefix_eq : strategyPrefix = [cLocalhost, gc "nfd", gc "strategy"] := rfl

theorem not_and3 {p q r : Prop} (h : ¬(p ∧ q ∧ r)) : ¬p ∨ ¬q ∨ ¬r := by
  by_cases h1 : p <;> by_cases h2 : q <;> by_cases h3 : r <;> simp_all

theorem checkStrategy_eq (s : Name) :
    checkStrategy s = match knownStrategy s with | some c => .ok c | none => .error 404 := by
  unfold checkStrategy knownStrategy
  match s with
  | [] => simp [Name.isPrefixOf, strategyPrefix_eq]
  | [a] => simp [Name.isPrefixOf, strategyPrefix_eq]
  | [a, b] => simp [Name.isPrefixOf, strategyPrefix_eq]
  | [a, b, c] => simp [Name.isPrefixOf, strategyPrefix_eq]
  | [a, b, c, sn] =>
    simp only [Name.isPrefixOf, strategyPrefix_eq]
    by_cases h : a = cLocalhost ∧ b = gc "nfd" ∧ c = gc "strategy"
    · simp [h]
      cases strategyVersions sn with
      | none => simp
      | some l => cases l <;> simp
    · have h' := not_and3 h
      simp [h, h']
  | [a, b, c, sn, vc] =>
    simp only [Name.isPrefixOf, strategyPrefix_eq]
    by_cases h : a = cLocalhost ∧ b = gc "nfd" ∧ c = gc "strategy"
    · simp [h]
      cases strategyVersions sn with
      | none => simp
      | some l =>
        cases l with
        | nil =>
          by_cases ht : vc.typ = versionType <;> simp [ht]
          cases decNat vc.val <;> simp
        | cons v vs =>
          simp
          by_cases ht : vc.typ = versionType
          · simp [ht]
            cases decNat vc.val with
            | none => simp
            | some x => simp; split <;> simp_all
          · simp [ht]
    · have h' := not_and3 h
      simp [h, h']
  | a :: b :: c :: sn :: vc :: x :: rest =>
    simp only [Name.isPrefixOf, strategyPrefix_eq]
    by_cases h : a = cLocalhost ∧ b = gc "nfd" ∧ c = gc "strategy"
    · simp [h]
      cases strategyVersions sn with
      | none => simp
      | some l =>
        cases l with
        | nil => simp
        | cons v vs => simp
    · have h' := not_and3 h
      simp [h']


theorem scSet_char (st : St) (f : Nat) (name : Name) (p : Params) :
    Char st f .scSet name p (scSetCmd st name p) := by
  unfold Char scSetCmd validity
  by_cases hp : hasParams name = true
  · simp only [hp]
    cases p with
    | undecodable => simp [r400]
    | filter q => simp [r400]
    | app k => simp [r400]
    | args a =>
      cases hn : a.name with
      | none => simp [r400, hn]
      | some n =>
        cases hs : a.strategy with
        | none => simp [r400, hn, hs]
        | some s =>
          cases hk : knownStrategy s with
          | none => simp [hn, hs, hk, checkStrategy_eq]
          | some c => simp [hn, hs, hk, checkStrategy_eq, Agrees, effect, tablesOf]
  · simp [hp, r400]

theorem scUnset_char (st : St) (f : Nat) (name : Name) (p : Params) :
    Char st f .scUnset name p (scUnsetCmd st name p) := by
  unfold Char scUnsetCmd validity
  by_cases hp : hasParams name = true
  · simp only [hp]
    cases p with
    | undecodable => simp [r400]
    | filter q => simp [r400]
    | app k => simp [r400]
    | args a =>
      cases hn : a.name with
      | none => simp [r400, hn]
      | some n =>
        cases n with
        | nil => simp [r400, hn]
        | cons c t => simp [hn, Agrees, effect, tablesOf]
  · simp [hp, r400]

theorem csConfig_char (st : St) (f : Nat) (name : Name) (p : Params) :
    Char st f .csConfig name p (csConfig st name p) := by
  unfold Char csConfig validity
  by_cases hp : hasParams name = true
  · simp only [hp]
    cases p with
    | undecodable => simp [r400]
    | filter q => simp [r400]
    | app k => simp [r400]
    | args a =>
      by_cases hfm : a.flags.isSome = a.mask.isSome
      · cases hk : a.capacity with
        | none => simp [hfm, hk, Agrees, effect, tablesOf]
        | some k =>
          by_cases hle : k ≤ maxInt
          · have : ¬ k > maxInt := by omega
            simp [hfm, hk, hle, this, Agrees, effect, tablesOf]
          · have : k > maxInt := by omega
            simp [hfm, hk, hle, this]
      · simp [hfm]
  · simp [hp, r400]

theorem faceDestroy_char (st : St) (ext : Ext) (f : Nat) (name : Name) (p : Params) :
    Char st f .faceDestroy name p (faceDestroy st ext name p) := by
  unfold Char faceDestroy validity
  by_cases hp : hasParams name = true
  · simp only [hp]
    cases p with
    | undecodable => simp [r400]
    | filter q => simp [r400]
    | app k => simp [r400]
    | args a =>
      cases hf : a.faceId with
      | none => simp [r400, hf]
      | some x =>
        by_cases he : (faceGet st.faces x).isSome = true
        · simp [hf, he, Agrees, effect, tablesOf]
        · have hnone : faceGet st.faces x = none := by
            cases h : faceGet st.faces x <;> simp_all
          have hrem : faceRemove st.faces x = st.faces := by
            unfold faceRemove
            unfold faceGet at hnone
            apply List.filter_eq_self.2
            intro g hg
            have := List.find?_eq_none.1 hnone g hg
            simp_all
          simp [hf, he, Agrees, effect, tablesOf, hrem]
  · simp [hp, r400]

/-- every face management may update is an NDNLPv2 link service (true of every transport the
    forwarder creates: only the null face has another link service) -/
def FacesWF (fs : List Face) : Prop := ∀ f ∈ fs, schemeUpdatable f = true → f.ndnlp = true

theorem faceGet_some {fs : List Face} {id : Nat} {f : Face} (h : faceGet fs id = some f) : f ∈ fs ∧ f.id = id := by
  unfold faceGet at h
  have h1 := List.mem_of_find?_eq_some h
  have h2 := List.find?_some h
  simp_all

theorem faceAfter_eq (f : Face) (a : Args) : faceAfter f a = specFaceAfter f a := rfl

theorem applyFlags_keep (f : Face) (fl mk : Nat) :
    (applyFlags f fl mk).id = f.id ∧ (applyFlags f fl mk).ndnlp = f.ndnlp ∧ (applyFlags f fl mk).mtu = f.mtu := by
  unfold applyFlags; split <;> split <;> simp

theorem faceAfter_keep (f : Face) (a : Args) : (faceAfter f a).id = f.id ∧ (faceAfter f a).ndnlp = f.ndnlp := by
  unfold faceAfter
  cases a.pers <;> cases a.bcmi <;> cases a.dct <;> cases a.mtu <;> cases a.flags <;> cases a.mask <;>
    simp [applyFlags_keep]

theorem mtuOk_iff (m : Option Nat) : mtuOk m = true ↔ mtuClass m = .valid := by
  unfold mtuOk mtuClass minMtu specMaxOverhead specMinMtu
  cases m with
  | none => simp
  | some m =>
    simp
    constructor
    · intro h; split <;> (try split) <;> simp_all <;> omega
    · intro h; split at h <;> (try split at h) <;> simp_all <;> omega

theorem faceUpdate_char (st : St) (f : Nat) (name : Name) (p : Params) (hwf : FacesWF st.faces) :
    Char st f .faceUpdate name p (faceUpdate st f name p) := by
  unfold Char faceUpdate validity
  by_cases hp : hasParams name = true
  · simp only [hp]
    cases p with
    | undecodable => simp [r400]
    | filter q => simp [r400]
    | app k => simp [r400]
    | args a =>
      simp only [pickFace_eq, tablesOf]
      cases hg : faceGet st.faces (targetFace a f) with
      | none => simp
      | some fc =>
        have ⟨hmem, hid⟩ := faceGet_some hg
        by_cases hs : schemeUpdatable fc = true
        · have hnd := hwf fc hmem hs
          have hs' : (fc.rscheme == "null" || fc.rscheme == "internal") = false := by
            unfold schemeUpdatable at hs; simp_all
          have hk := faceAfter_keep fc a
          by_cases hfm : flagsMaskOk a.flags a.mask = true
          · by_cases okP : persArgOk fc a.pers = true
            · by_cases okM : mtuOk a.mtu = true
              · have hv : mtuClass a.mtu = .valid := (mtuOk_iff _).1 okM
                simp [hs, hs', hfm, okP, okM, hv, hnd, Agrees, effect, hg, faceProps, hk, hid, ← faceAfter_eq]
              · have hv : mtuClass a.mtu ≠ .valid := fun h => okM ((mtuOk_iff _).2 h)
                simp only [hs, hs', hfm, okP, okM]
                simp
                try (split <;> simp_all)
            · simp [hs, hs', hfm, okP]
          · simp [hs, hs', hfm]
        · have hs' : (fc.rscheme == "null" || fc.rscheme == "internal") = true := by
            unfold schemeUpdatable at hs
            cases h1 : fc.rscheme == "null" <;> cases h2 : fc.rscheme == "internal" <;> simp_all
          simp [hs, hs']
  · simp [hp, r400]


theorem faceGet_none_of_below {fs : List Face} {n : Nat} (h : ∀ g ∈ fs, g.id < n) : faceGet fs n = none := by
  unfold faceGet
  apply List.find?_eq_none.2
  intro g hg
  have := h g hg
  simp; omega

theorem createOn_char (st : St) (f : Nat) (name : Name) (a : Args) (u : Bytes) (c : UriClass) (canon : String)
    (hp : hasParams name = true) (hu : a.uri = some u) (hc : uriClass u = some c)
    (hcc : c = .udp canon ∨ c = .tcp canon) (hid : ∀ g ∈ st.faces, g.id < st.nextFace) :
    Char st f .faceCreate name (.args a) (createOn st a c canon) := by
  have hfresh := faceGet_none_of_below hid
  unfold Char createOn validity
  simp only [hp, hu, hc, tablesOf]
  by_cases hfm : flagsMaskOk a.flags a.mask = true
  · by_cases hex : (st.faces.find? fun g => g.uri == canon).isSome = true
    · obtain ⟨ex, hexs⟩ := Option.isSome_iff_exists.1 hex
      by_cases okM : mtuOk a.mtu = true
      · rcases hcc with rfl | rfl <;> simp [hfm, hex, hexs, okM]
      · rcases hcc with rfl | rfl <;> simp [hfm, hex, okM]
    · have hnone : (st.faces.find? fun g => g.uri == canon) = none := by
        cases h : (st.faces.find? fun g => g.uri == canon) <;> simp_all
      by_cases okP : createPersOk a.pers = true
      · by_cases okM : mtuOk a.mtu = true
        · have hv : mtuClass a.mtu = .valid := (mtuOk_iff _).1 okM
          rcases hcc with rfl | rfl <;>
            simp [hfm, hnone, okP, okM, hv, Agrees, effect, hu, hc, modelNewId, hfresh, Option.bind]
        · have hv : mtuClass a.mtu ≠ .valid := fun h => okM ((mtuOk_iff _).2 h)
          rcases hcc with rfl | rfl <;> simp only [hfm, hnone, okP, okM] <;> simp <;> (try (split <;> simp_all))
      · by_cases okM : mtuOk a.mtu = true
        · rcases hcc with rfl | rfl <;> simp [hfm, hnone, okP, okM]
        · rcases hcc with rfl | rfl <;> simp [hfm, hnone, okP, okM]
  · rcases hcc with rfl | rfl <;> simp [hfm]

theorem faceCreate_char (st : St) (f : Nat) (name : Name) (p : Params)
    (hid : ∀ g ∈ st.faces, g.id < st.nextFace) :
    Char st f .faceCreate name p (faceCreate st name p) := by
  by_cases hp : hasParams name = true
  · cases p with
    | undecodable => simp [Char, faceCreate, validity, hp, r400]
    | filter q => simp [Char, faceCreate, validity, hp, r400]
    | app k => simp [Char, faceCreate, validity, hp, r400]
    | args a =>
      cases hu : a.uri with
      | none => simp [Char, faceCreate, validity, hp, hu, r400]
      | some u =>
        cases hc : uriClass u with
        | none => simp [Char, faceCreate, validity, hp, hu, hc]
        | some c =>
          cases c with
          | early => simp [Char, faceCreate, validity, hp, hu, hc]
          | late =>
            by_cases hfm : flagsMaskOk a.flags a.mask = true <;> simp [Char, faceCreate, validity, hp, hu, hc, hfm]
          | udp canon =>
            have := createOn_char st f name a u (.udp canon) canon hp hu hc (Or.inl rfl) hid
            simpa [faceCreate, hp, hu, hc] using this
          | tcp canon =>
            have := createOn_char st f name a u (.tcp canon) canon hp hu hc (Or.inr rfl) hid
            simpa [faceCreate, hp, hu, hc] using this
  · simp [Char, faceCreate, validity, hp, r400]

/-! ### module and dispatch level -/

/-- the dataset lists the tables of `st` -/
def DatasetOf (st : St) (d : Dataset) : Prop :=
  d = .rib st.rib ∨ d = .fib st.fib ∨ d = .sc st.sc ∨ d = .cs (toU64 st.cs) 3 0 ∨ d = .status st.fib.length ∨
  d = .faces st.faces ∨ ∃ q, d = .query q (st.faces.filter (filterMatch q))

/-- outcomes that change no table: nothing, a non-200 answer, or a dataset of the current tables -/
def Benign (st : St) (res : St × Resp) : Prop :=
  tbl res.1 = tbl st ∧ res.1.lh = st.lh ∧ res.1.nextFace = st.nextFace ∧
  (res.2 = .none ∨ (∃ c e, res.2 = .ctrl c e ∧ c ≠ 200) ∨ (∃ pfx mv v d, res.2 = .dataset pfx mv v d ∧ DatasetOf st d))

theorem benign_none (st : St) : Benign st (st, .none) := by simp [Benign]
theorem benign_ctrl (st : St) (c : Nat) (e : Args) (h : c ≠ 200) : Benign st (st, .ctrl c e) := by simp [Benign, h]
theorem benign_dataset (st st' : St) (h : tbl st' = tbl st) (hl : st'.lh = st.lh) (hn : st'.nextFace = st.nextFace) (pfx : Name) (mv : String) (v : Nat)
    (d : Dataset) (hd : DatasetOf st d) : Benign st (st', .dataset pfx mv v d) :=
  ⟨h, hl, hn, Or.inr (Or.inr ⟨pfx, mv, v, d, rfl, hd⟩)⟩

theorem ribModule_char (st : St) (ext : Ext) (f : Nat) (name : Name) (p : Params) (v : Component)
    (hv : name[3]? = some v) :
    match wordOf v with
    | .register => Char st f .ribRegister name p (ribModule st ext f name p)
    | .unregister => Char st f .ribUnregister name p (ribModule st ext f name p)
    | _ => Benign st (ribModule st ext f name p) := by
  unfold ribModule
  simp only [hv]
  cases hw : wordOf v <;> simp only []
  · exact ribRegister_char ..
  · exact ribUnregister_char ..
  · unfold ribAnnounce
    split
    · exact benign_ctrl _ _ _ (by decide)
    · split
      · exact benign_ctrl _ _ _ (by decide)
      · split
        · exact benign_ctrl _ _ _ (by decide)
        · split <;> exact benign_ctrl _ _ _ (by decide)
  · unfold ribList; split
    · exact benign_none _
    · exact benign_dataset _ _ rfl rfl rfl _ _ _ _ (Or.inl rfl)
  all_goals exact benign_ctrl _ _ _ (by decide)

theorem fibModule_char (st : St) (f : Nat) (name : Name) (p : Params) (v : Component)
    (hv : name[3]? = some v) (hg : lhPrefix.isPrefixOf name = true) :
    match wordOf v with
    | .addNexthop => Char st f .fibAdd name p (fibModule st f name p)
    | .removeNexthop => Char st f .fibRemove name p (fibModule st f name p)
    | _ => Benign st (fibModule st f name p) := by
  unfold fibModule
  simp only [hv, hg]
  cases hw : wordOf v <;> simp only [Bool.not_true, Bool.false_eq_true, ↓reduceIte]
  case addNexthop => exact fibAdd_char ..
  case removeNexthop => exact fibRemove_char ..
  case list =>
    unfold fibList; split
    · exact benign_none _
    · exact benign_dataset _ _ rfl rfl rfl _ _ _ _ (Or.inr (Or.inl rfl))
  all_goals exact benign_ctrl _ _ _ (by decide)

theorem scModule_char (st : St) (f : Nat) (name : Name) (p : Params) (v : Component)
    (hv : name[3]? = some v) (hg : lhPrefix.isPrefixOf name = true) :
    match wordOf v with
    | .set => Char st f .scSet name p (scModule st name p)
    | .unset => Char st f .scUnset name p (scModule st name p)
    | _ => Benign st (scModule st name p) := by
  unfold scModule
  simp only [hv, hg]
  cases hw : wordOf v <;> simp only [Bool.not_true, Bool.false_eq_true, ↓reduceIte]
  case set => exact scSet_char ..
  case unset => exact scUnset_char ..
  case list =>
    unfold scList; split
    · exact benign_none _
    · exact benign_dataset _ _ rfl rfl rfl _ _ _ _ (Or.inr (Or.inr (Or.inl rfl)))
  all_goals exact benign_ctrl _ _ _ (by decide)

theorem csModule_char (st : St) (f : Nat) (name : Name) (p : Params) (v : Component)
    (hv : name[3]? = some v) (hg : lhPrefix.isPrefixOf name = true) :
    match wordOf v with
    | .config => Char st f .csConfig name p (csModule st name p)
    | _ => Benign st (csModule st name p) := by
  unfold csModule
  simp only [hv, hg]
  cases hw : wordOf v <;> simp only [Bool.not_true, Bool.false_eq_true, ↓reduceIte]
  case config => exact csConfig_char ..
  case info =>
    unfold csInfo; split
    · exact benign_none _
    · exact benign_dataset _ _ rfl rfl rfl _ _ _ _ (Or.inr (Or.inr (Or.inr (Or.inl rfl))))
  case erase => exact benign_none _
  case query => exact benign_none _
  all_goals exact benign_ctrl _ _ _ (by decide)

theorem statusModule_benign (st : St) (name : Name) (v : Component) (hv : name[3]? = some v) :
    Benign st (statusModule st name) := by
  unfold statusModule
  split
  · exact benign_none _
  simp only [hv]
  cases hw : wordOf v <;> simp only []
  case general =>
    split
    · exact benign_none _
    · exact benign_dataset _ _ rfl rfl rfl _ _ _ _ (Or.inr (Or.inr (Or.inr (Or.inr (Or.inl rfl)))))
  all_goals exact benign_ctrl _ _ _ (by decide)

theorem facesModule_char (st : St) (ext : Ext) (f : Nat) (name : Name) (p : Params) (v : Component)
    (hv : name[3]? = some v) (hg : lhPrefix.isPrefixOf name = true) (hwf : FacesWF st.faces)
    (hid : ∀ g ∈ st.faces, g.id < st.nextFace) :
    match wordOf v with
    | .update => Char st f .faceUpdate name p (facesModule st ext f name p)
    | .destroy => Char st f .faceDestroy name p (facesModule st ext f name p)
    | .create => Char st f .faceCreate name p (facesModule st ext f name p)
    | _ => Benign st (facesModule st ext f name p) := by
  unfold facesModule
  simp only [hv, hg]
  cases hw : wordOf v <;> simp only [Bool.not_true, Bool.false_eq_true, ↓reduceIte]
  case update => exact faceUpdate_char _ _ _ _ hwf
  case destroy => exact faceDestroy_char ..
  case list =>
    unfold faceList; split
    · exact benign_none _
    · exact benign_dataset _ _ rfl rfl rfl _ _ _ _ (Or.inr (Or.inr (Or.inr (Or.inr (Or.inr (Or.inl rfl))))))
  case create => exact faceCreate_char _ _ _ _ hid
  case query =>
    unfold faceQuery; split
    · exact benign_none _
    · split
      · exact benign_dataset _ _ rfl rfl rfl _ _ _ _ (Or.inr (Or.inr (Or.inr (Or.inr (Or.inr (Or.inr ⟨_, rfl⟩))))))
      · exact benign_none _
  all_goals exact benign_ctrl _ _ _ (by decide)


/-- faces management may update are NDNLPv2 faces; face ids lie below the table's counter -/
def WF0 (st : St) : Prop := FacesWF st.faces ∧ ∀ g ∈ st.faces, g.id < st.nextFace

/-- the name-part of being authorised: what `Thread.Run` and the module guards let through -/
def mgmtAccepts (lh : Bool) (name : Name) : Bool :=
  lhPrefix.isPrefixOf name || (lh && lpPrefix.isPrefixOf name && (name[2]?.map modOf) == some Mod.rib)

theorem verbOf_none_of_short (name : Name) (h : name.length < 4) : verbOf name = none := by
  have h3 : name[3]? = none := by simp; omega
  unfold verbOf; simp [h3]

theorem run_char (st : St) (ext : Ext) (f : Nat) (name : Name) (p : Params) (hwf : WF0 st) :
    match verbOf name with
    | some v => if mgmtAccepts st.lh name then Char st f v name p (run st ext f name p)
                else run st ext f name p = (st, .none)
    | none => Benign st (run st ext f name p) := by
  by_cases hlen : name.length < 4
  · rw [verbOf_none_of_short name hlen]
    simp [run, hlen, benign_none]
  · obtain ⟨m, hm⟩ : ∃ m, name[2]? = some m := ⟨name[2]'(by omega), by simp⟩
    obtain ⟨v, hv⟩ : ∃ v, name[3]? = some v := ⟨name[3]'(by omega), by simp⟩
    unfold run mgmtAccepts
    simp only [hlen, hm, ↓reduceIte, Option.map_some]
    by_cases hl : lhPrefix.isPrefixOf name = true
    · simp only [hl, Bool.not_true, Bool.false_and, Bool.false_eq_true, ↓reduceIte, Bool.true_or]
      cases hmod : modOf m <;> simp only []
      · have := csModule_char st f name p v hv hl
        cases hw : wordOf v <;> simp_all [verbOf]
      · have := facesModule_char st ext f name p v hv hl hwf.1 hwf.2
        cases hw : wordOf v <;> simp_all [verbOf]
      · have := fibModule_char st f name p v hv hl
        cases hw : wordOf v <;> simp_all [verbOf]
      · have := ribModule_char st ext f name p v hv
        cases hw : wordOf v <;> simp_all [verbOf]
      · have := statusModule_benign st name v hv
        cases hw : wordOf v <;> simp_all [verbOf]
      · have := scModule_char st f name p v hv hl
        cases hw : wordOf v <;> simp_all [verbOf]
      · cases hw : wordOf v <;> simp_all [verbOf, benign_ctrl]
    · have hl' : lhPrefix.isPrefixOf name = false := by simpa using hl
      by_cases hlp : (st.lh && lpPrefix.isPrefixOf name) = true
      · simp only [hl', hlp, Bool.not_false, Bool.not_true, Bool.and_false, Bool.false_eq_true, ↓reduceIte,
          Bool.false_or, Bool.true_and]
        cases hmod : modOf m <;> simp only []
        · have : csModule st name p = (st, .none) := by unfold csModule; rw [hl']; rfl
          cases hw : wordOf v <;> simp_all [verbOf, benign_none]
        · have : facesModule st ext f name p = (st, .none) := by unfold facesModule; rw [hl']; rfl
          cases hw : wordOf v <;> simp_all [verbOf, benign_none]
        · have : fibModule st f name p = (st, .none) := by unfold fibModule; rw [hl']; rfl
          cases hw : wordOf v <;> simp_all [verbOf, benign_none]
        · have := ribModule_char st ext f name p v hv
          cases hw : wordOf v <;> simp_all [verbOf]
        · have : statusModule st name = (st, .none) := by unfold statusModule; rw [hl']; rfl
          cases hw : wordOf v <;> simp_all [verbOf, benign_none]
        · have : scModule st name p = (st, .none) := by unfold scModule; rw [hl']; rfl
          cases hw : wordOf v <;> simp_all [verbOf, benign_none]
        · cases hw : wordOf v <;> simp_all [verbOf, benign_ctrl]
      · have hlp' : (st.lh && lpPrefix.isPrefixOf name) = false := by simpa using hlp
        simp only [hl', hlp', Bool.not_false, Bool.and_self, ↓reduceIte, Bool.false_and, Bool.false_or]
        cases hvo : verbOf name <;> simp [benign_none]


/-! ### specification-level facts -/

theorem same_refl (t : Tables) : t.same t = true := by
  simp [Tables.same, sameRib, sameFib, sameSc, sameFaces]

theorem same_of_tbl {a b : St} (h : tbl a = tbl b) : (tablesOf a).same (tablesOf b) = true := by
  rw [tablesOf_eq_of_tbl h]; exact same_refl _

theorem agrees_matches {st' st : St} {e : Effect} (h : Agrees st' st e) : e.matches (tablesOf st') = true := by
  obtain ⟨_, _, _, _, _, _, _, hsc, hcs, hfa, hfib, hrib⟩ := h
  unfold Effect.matches tablesOf
  simp only [hsc, hcs, hfa, sameSc, sameFaces, beq_self_eq_true, Bool.and_true]
  cases hr : e.ribFree <;> cases hf : e.fibFree <;> simp_all [sameRib, sameFib]

/-- the part of `usable` that does not depend on who is asked -/
theorem usable_iff (t : Tables) : usable t = true ↔
    (∀ e ∈ t.sc, instantiated e.2 = true) ∧ (∀ f ∈ t.faces, specMaxOverhead < f.mtu) ∧ 0 ≤ t.cs := by
  simp [usable, List.all_eq_true, and_assoc]

theorem encNat_one : encNat 1 = [1] := by decide

theorem knownStrategy_instantiated {s c : Name} (h : knownStrategy s = some c) : instantiated c = true := by
  have key : ∀ sn : Component, ∀ l, strategyVersions sn = some l → (l = [1] ∧ (sn = gc "best-route" ∨ sn = gc "multicast")) := by
    intro sn l hl
    unfold strategyVersions at hl
    split at hl
    · rename_i h1; simp at hl; exact ⟨hl.symm, Or.inl ((compIs_iff _ _).1 h1)⟩
    · split at hl
      · rename_i h1 h2; simp at hl; exact ⟨hl.symm, Or.inr ((compIs_iff _ _).1 h2)⟩
      · simp at hl
  match s, h with
  | [], h | [_], h | [_, _], h | [_, _, _], h | _ :: _ :: _ :: _ :: _ :: _ :: _, h => simp [knownStrategy] at h
  | [a, b, c, sn], h =>
    simp only [knownStrategy] at h
    by_cases hp : ([a, b, c] == strategyPrefix) = true
    · simp only [hp, if_true] at h
      cases hsv : strategyVersions sn with
      | none => simp [hsv] at h
      | some l =>
        obtain ⟨rfl, hsn⟩ := key sn l hsv
        simp [hsv] at h; subst h
        rcases hsn with rfl | rfl <;>
          simp [instantiated, bestRouteV1, multicastV1, newestVersion, encNat_one, versionType]
    · simp [hp] at h
  | [a, b, c, sn, vc], h =>
    simp only [knownStrategy] at h
    by_cases hp : ([a, b, c] == strategyPrefix && vc.typ == versionType) = true
    · simp only [hp, if_true] at h
      cases hsv : strategyVersions sn with
      | none => simp [hsv] at h
      | some l =>
        obtain ⟨rfl, hsn⟩ := key sn l hsv
        cases hdv : decNat vc.val with
        | none => simp [hsv, hdv] at h
        | some v =>
          simp [hsv, hdv] at h
          obtain ⟨rfl, h⟩ := h; subst h
          rcases hsn with rfl | rfl <;>
            simp [instantiated, bestRouteV1, multicastV1, encNat_one, versionType]
    · simp [hp] at h

theorem mem_scSet {sc : Sc} {n s : Name} {e : Name × Name} (h : e ∈ scSet sc n s) : e ∈ sc ∨ e = (n, s) := by
  induction sc with
  | nil => simp [scSet] at h; exact Or.inr h
  | cons x t ih =>
    obtain ⟨m, y⟩ := x
    simp only [scSet] at h
    split at h
    · simp at h; rcases h with h | h
      · rename_i hm; simp at hm; subst hm; exact Or.inr h
      · exact Or.inl (List.mem_cons_of_mem _ h)
    · simp at h; rcases h with h | h
      · exact Or.inl (by simp [h])
      · rcases ih h with h | h
        · exact Or.inl (List.mem_cons_of_mem _ h)
        · exact Or.inr h

theorem mem_faceSet {fs : List Face} {f g : Face} (h : g ∈ faceSet fs f) : g ∈ fs ∨ g = f := by
  unfold faceSet at h
  simp at h
  obtain ⟨x, hx, hg⟩ := h
  split at hg
  · exact Or.inr hg.symm
  · exact Or.inl (hg ▸ hx)

theorem mem_faceRemove {fs : List Face} {id : Nat} {g : Face} (h : g ∈ faceRemove fs id) : g ∈ fs := by
  unfold faceRemove at h; exact (List.mem_filter.1 h).1

theorem mem_scUnset {sc : Sc} {n : Name} {e : Name × Name} (h : e ∈ scUnset sc n) : e ∈ sc := by
  unfold scUnset at h; exact (List.mem_filter.1 h).1

theorem applyFlags_mtu (f : Face) (fl mk : Nat) : (applyFlags f fl mk).mtu = f.mtu := (applyFlags_keep f fl mk).2.2

theorem specFaceAfter_mtu (f : Face) (a : Args) :
    (specFaceAfter f a).mtu = match a.mtu with | some m => (if m > 8800 then 8800 else m) | none => f.mtu := by
  unfold specFaceAfter
  cases a.pers <;> cases a.bcmi <;> cases a.dct <;> cases a.mtu <;> cases a.flags <;> cases a.mask <;>
    simp [applyFlags_mtu]

/-- the specification's own effects keep the tables usable -/
theorem newFace_mtu (id : Nat) (c : UriClass) (canon : String) (a : Args) :
    (newFace id c canon a).mtu = match a.mtu with | some m => (if m > maxPacket then maxPacket else m) | none => maxPacket := by
  unfold newFace
  cases a.flags <;> cases a.mask <;> simp [applyFlags_mtu] <;> rfl

theorem effect_usable (t : Tables) (f : Nat) (v : Verb) (hasP : Bool) (a : Args) (newId : Nat)
    (hv : validity t f v hasP (.args a) = .valid) (hu : usable t = true) :
    usable (effect t f v a newId).t = true := by
  rw [usable_iff] at hu ⊢
  obtain ⟨hsc, hfa, hcs⟩ := hu
  cases v <;> simp only [effect]
  case ribRegister => exact ⟨hsc, hfa, hcs⟩
  case ribUnregister => exact ⟨hsc, hfa, hcs⟩
  case fibAdd => exact ⟨hsc, hfa, hcs⟩
  case fibRemove => exact ⟨hsc, hfa, hcs⟩
  case scSet =>
    refine ⟨?_, hfa, hcs⟩
    intro e he
    rcases mem_scSet he with h | h
    · exact hsc e h
    · subst h
      simp only [validity] at hv
      cases hasP <;> simp at hv
      cases hn : a.name <;> cases hs : a.strategy <;> simp [hn, hs] at hv
      rename_i n s
      cases hk : knownStrategy s with
      | none => simp [hk] at hv
      | some c => simp [hk]; exact knownStrategy_instantiated hk
  case scUnset => exact ⟨fun e he => hsc e (mem_scUnset he), hfa, hcs⟩
  case csConfig =>
    cases hk : a.capacity with
    | none => exact ⟨hsc, hfa, hcs⟩
    | some k => exact ⟨hsc, hfa, by simp⟩
  case faceUpdate =>
    cases hg : faceGet t.faces (targetFace a f) with
    | none => exact ⟨hsc, hfa, hcs⟩
    | some fc =>
      refine ⟨hsc, ?_, hcs⟩
      intro g hgm
      rcases mem_faceSet hgm with h | h
      · exact hfa g h
      · subst h
        rw [specFaceAfter_mtu]
        have hfc := hfa fc (faceGet_some hg).1
        simp only [validity, hg] at hv
        cases hasP <;> simp at hv
        cases hm : a.mtu with
        | none => simpa using hfc
        | some m =>
          have : mtuClass (some m) = .valid := by
            simp only [hm] at hv
            split at hv <;> (try split at hv) <;> (try split at hv) <;> simp_all
          have hm64 : 64 ≤ m := by
            unfold mtuClass specMaxOverhead specMinMtu at this
            by_cases h1 : m ≤ 60
            · simp [h1] at this
            · by_cases h2 : m < 64
              · simp [h1, h2] at this
              · omega
          simp only [specMaxOverhead]
          split <;> omega
  case faceDestroy =>
    split
    · exact ⟨hsc, fun g hg => hfa g (mem_faceRemove hg), hcs⟩
    · exact ⟨hsc, hfa, hcs⟩
  case faceCreate =>
    have key : ∀ c canon, (a.uri.bind uriClass) = some c → ∀ g ∈ t.faces ++ [newFace newId c canon a], specMaxOverhead < g.mtu := by
      intro c canon hc g hg
      rcases List.mem_append.1 hg with h | h
      · exact hfa g h
      · simp at h; subst h
        rw [newFace_mtu]
        simp only [validity] at hv
        cases hasP <;> simp at hv
        cases hu' : a.uri with
        | none => simp [hu'] at hv
        | some u =>
          simp only [hu', Option.bind] at hc
          simp only [hu', hc] at hv
          have hm : mtuClass a.mtu = .valid := by
            cases c with
            | late => simp at hv
            | early => simp at hv
            | udp cn =>
              by_cases h1 : flagsMaskOk a.flags a.mask = true
              · by_cases h2 : ∃ x, x ∈ t.faces ∧ x.uri = cn
                · simp [h1, h2] at hv
                · by_cases h3 : createPersOk a.pers = true
                  · simpa [h1, h2, h3] using hv
                  · simp [h1, h2, h3] at hv
              · simp [h1] at hv
            | tcp cn =>
              by_cases h1 : flagsMaskOk a.flags a.mask = true
              · by_cases h2 : ∃ x, x ∈ t.faces ∧ x.uri = cn
                · simp [h1, h2] at hv
                · by_cases h3 : createPersOk a.pers = true
                  · simpa [h1, h2, h3] using hv
                  · simp [h1, h2, h3] at hv
              · simp [h1] at hv
          cases hmm : a.mtu with
          | none => simp [specMaxOverhead, maxPacket]
          | some m =>
            have hm64 : 64 ≤ m := by
              rw [hmm] at hm
              unfold mtuClass specMaxOverhead specMinMtu at hm
              by_cases h1 : m ≤ 60
              · simp [h1] at hm
              · by_cases h2 : m < 64
                · simp [h1, h2] at hm
                · omega
            simp only [specMaxOverhead, maxPacket]
            by_cases h88 : m > 8800
            · simp [h88]
            · simp [h88]; omega
    cases hc : a.uri.bind uriClass with
    | none => exact ⟨hsc, hfa, hcs⟩
    | some c =>
      cases c with
      | udp canon => exact ⟨hsc, key _ canon hc, hcs⟩
      | tcp canon => exact ⟨hsc, key _ canon hc, hcs⟩
      | late => exact ⟨hsc, hfa, hcs⟩
      | early => exact ⟨hsc, hfa, hcs⟩


/-! ### authorisation vs. what the code lets through -/

theorem lh_head {name : Name} (h : lhPrefix.isPrefixOf name = true) : ∃ rest, name = cLocalhost :: rest := by
  unfold Name.isPrefixOf lhPrefix at h
  match name, h with
  | [], h => simp at h
  | [_], h => simp at h
  | a :: b :: rest, h => simp at h; exact ⟨b :: rest, by rw [h.1]⟩

theorem lp_head {name : Name} (h : lpPrefix.isPrefixOf name = true) : ∃ rest, name = cLocalhop :: rest := by
  unfold Name.isPrefixOf lpPrefix at h
  match name, h with
  | [], h => simp at h
  | [_], h => simp at h
  | a :: b :: rest, h => simp at h; exact ⟨b :: rest, by rw [h.1]⟩

theorem localhop_ne : (cLocalhop.val == localhostVal) = false := by decide
theorem localhost_eq : (cLocalhost.val == localhostVal) = true := by decide

theorem fwGuard_of_auth {st : St} {face : Nat} {name : Name}
    (h : authorised st.lh st.faces face name = true) : fwGuard st face name = true := by
  unfold authorised at h
  unfold fwGuard
  simp only [Bool.or_eq_true, Bool.and_eq_true] at h
  rcases h with ⟨h1, h2⟩ | ⟨⟨⟨_, h2⟩, _⟩, h4⟩
  · unfold faceIsLocal at h2
    cases hg : faceGet st.faces face with
    | none => simp [hg] at h2
    | some f =>
      simp [hg] at h2
      obtain ⟨rest, rfl⟩ := lh_head h1
      simp [h2]
  · cases hg : faceGet st.faces face with
    | none => simp [hg] at h4
    | some f =>
      obtain ⟨rest, rfl⟩ := lp_head h2
      simp [localhop_ne]

theorem auth_of_accepts {st : St} {face : Nat} {name : Name}
    (hg : fwGuard st face name = true) (ha : mgmtAccepts st.lh name = true) :
    authorised st.lh st.faces face name = true := by
  unfold mgmtAccepts at ha
  unfold authorised
  unfold fwGuard at hg
  cases hf : faceGet st.faces face with
  | none => simp [hf] at hg
  | some f =>
    simp only [hf] at hg
    simp only [Bool.or_eq_true, Bool.and_eq_true] at ha ⊢
    rcases ha with h1 | h2
    · left
      refine ⟨h1, ?_⟩
      obtain ⟨rest, rfl⟩ := lh_head h1
      simp [localhost_eq] at hg
      simp [faceIsLocal, hf, hg]
    · right
      exact ⟨h2, by simp⟩

theorem accepts_of_auth {lh : Bool} {faces : List Face} {face : Nat} {name : Name}
    (h : authorised lh faces face name = true) : mgmtAccepts lh name = true := by
  unfold authorised at h; unfold mgmtAccepts
  simp only [Bool.or_eq_true, Bool.and_eq_true] at h ⊢
  rcases h with ⟨h1, _⟩ | ⟨h, _⟩
  · exact Or.inl h1
  · exact Or.inr h


/-! ### the forwarding thread + management thread together -/

/-- what `sysStep` makes of the management thread's result: the answer reaches the requester only
    if its face still exists -/
def post (face : Nat) (r : St × Resp) : St × Resp :=
  match r.2 with
  | .panic m => (r.1, .panic m)
  | x => if (faceGet r.1.faces face).isSome then (r.1, x) else (r.1, .none)

theorem sysStep_char (st : St) (ext : Ext) (routed : Bool) (face : Nat) (name : Name) (p : Params)
    (hwf : WF0 st) :
    (sysStep st ext routed face name p = (st, .none) ∧ (authorised st.lh st.faces face name && routed) = false) ∨
    (fwGuard st face name = true ∧ routed = true ∧ sysStep st ext routed face name p = post face (run st ext face name p) ∧
      match verbOf name with
      | none => Benign st (run st ext face name p)
      | some v => if authorised st.lh st.faces face name then Char st face v name p (run st ext face name p)
                  else run st ext face name p = (st, .none)) := by
  by_cases hg : fwGuard st face name = true
  · by_cases hr : routed = true
    · right
      refine ⟨hg, hr, ?_, ?_⟩
      · unfold sysStep post
        simp only [hg, hr, Bool.not_true, Bool.false_eq_true, ↓reduceIte]
        cases h2 : (run st ext face name p).2 <;> simp
      · have := run_char st ext face name p hwf
        cases hv : verbOf name with
        | none => simpa [hv] using this
        | some v =>
          simp only [hv] at this ⊢
          by_cases ha : mgmtAccepts st.lh name = true
          · simp only [ha, ↓reduceIte] at this
            simp [auth_of_accepts hg ha, this]
          · have hna : authorised st.lh st.faces face name = false := by
              cases h : authorised st.lh st.faces face name
              · rfl
              · exact absurd (accepts_of_auth h) ha
            simp only [ha, Bool.false_eq_true, ↓reduceIte] at this
            simp [hna, this]
    · left
      have hr' : routed = false := by simpa using hr
      simp [sysStep, hg, hr']
  · left
    have hna : authorised st.lh st.faces face name = false := by
      cases h : authorised st.lh st.faces face name
      · rfl
      · exact absurd (fwGuard_of_auth h) hg
    have hg' : fwGuard st face name = false := by simpa using hg
    simp [sysStep, hg', hna]


theorem char_cases {st : St} {f : Nat} {v : Verb} {name : Name} {p : Params} {res : St × Resp}
    (h : Char st f v name p res) :
    (validity (tablesOf st) f v (hasParams name) p = .valid ∧ ∃ a, p = .args a ∧
        res.2 = .ctrl 200 (effect (tablesOf st) f v a (modelNewId v st)).echo ∧
        Agrees res.1 st (effect (tablesOf st) f v a (modelNewId v st))) ∨
    (validity (tablesOf st) f v (hasParams name) p ≠ .valid ∧ res.1 = st ∧
        ∃ c e, res.2 = .ctrl c e ∧ 400 ≤ c ∧ c < 500) := by
  unfold Char at h
  cases hv : validity (tablesOf st) f v (hasParams name) p <;> simp only [hv] at h
  · exact Or.inl ⟨rfl, h⟩
  · exact Or.inr ⟨by simp, h⟩
  · exact Or.inr ⟨by simp, h⟩

theorem post_fst (face : Nat) (r : St × Resp) : (post face r).1 = r.1 := by
  unfold post; split
  · rfl
  · split <;> rfl

theorem post_ctrl (face : Nat) (r : St × Resp) (c : Nat) (e : Args) (h : r.2 = .ctrl c e) :
    (post face r).2 = if (faceGet r.1.faces face).isSome then .ctrl c e else .none := by
  unfold post; rw [h]; simp only []; split <;> rfl

theorem post_none (face : Nat) (r : St × Resp) (h : r.2 = .none) : (post face r).2 = .none := by
  unfold post; rw [h]; simp only []; split <;> rfl

theorem post_dataset (face : Nat) (r : St × Resp) (pf : Name) (mv : String) (v : Nat) (d : Dataset)
    (h : r.2 = .dataset pf mv v d) :
    (post face r).2 = if (faceGet r.1.faces face).isSome then .dataset pf mv v d else .none := by
  unfold post; rw [h]; simp only []; split <;> rfl

theorem fwGuard_face {st : St} {face : Nat} {name : Name} (h : fwGuard st face name = true) :
    (faceGet st.faces face).isSome = true := by
  unfold fwGuard at h
  cases hf : faceGet st.faces face <;> simp_all

/-- model-state invariant: updatable faces are NDNLPv2 faces, the CS capacity is a non-negative int -/
def StWF (st : St) : Prop := WF0 st ∧ 0 ≤ st.cs ∧ st.cs ≤ (maxInt : Int)

theorem toU64_of_nonneg {i : Int} (h0 : 0 ≤ i) (h1 : i ≤ (maxInt : Int)) : ((toU64 i : Nat) : Int) = i := by
  unfold toU64 u64
  unfold maxInt at h1
  have : i % ((2 ^ 64 : Nat) : Int) = i := Int.emod_eq_of_lt h0 (by omega)
  rw [this]
  omega

/-! ### every observation of a model step has one of five shapes -/

/-- the five shapes an observation of a model step can have -/
inductive Shape (st : St) (o : Obs) : Prop
  | quiet (h1 : o.out = .none) (h2 : o.after = o.before)
      (hnv : ∀ v, verbOf o.name = some v → o.auth = true → o.routed = true → False)
  | refused (c : Nat) (e : Args) (h1 : o.out = .ctrl c e) (hc : c ≠ 200) (h2 : o.after = o.before)
      (hnv : ∀ v, verbOf o.name = some v → o.auth = true → o.routed = true →
        validity o.before o.face v o.hasP o.params ≠ .valid ∧ 400 ≤ c ∧ c < 500)
  | listed (pf : Name) (mv : String) (ver : Nat) (d : Dataset) (h1 : o.out = .dataset pf mv ver d)
      (h2 : o.after = o.before) (hd : DatasetOf st d)
      (hnv : ∀ v, verbOf o.name = some v → o.auth = true → o.routed = true → False)
  | accepted (v : Verb) (a : Args) (hv : verbOf o.name = some v) (hp : o.params = .args a)
      (hval : validity o.before o.face v o.hasP o.params = .valid) (hauth : o.auth = true) (hr : o.routed = true)
      (nid : Nat)
      (hnid : effect o.before o.face v a (newIdOf v (effect o.before o.face v a nid).echo) = effect o.before o.face v a nid)
      (hm : (effect o.before o.face v a nid).matches o.after = true)
      (hu : usable o.before = true → usable o.after = true)
      (hout : o.out = .ctrl 200 (effect o.before o.face v a nid).echo ∨ (o.out = .none ∧ o.requesterGone = true))

theorem newFace_id (id : Nat) (c : UriClass) (canon : String) (a : Args) : (newFace id c canon a).id = id := by
  unfold newFace
  cases a.flags <;> cases a.mask <;> simp [applyFlags_keep]

/-- the id read back from the echoed parameters is the id the effect was computed with -/
theorem effect_newId_fix (t : Tables) (f : Nat) (v : Verb) (a : Args) (st : St) :
    effect t f v a (newIdOf v (effect t f v a (modelNewId v st)).echo) = effect t f v a (modelNewId v st) := by
  cases v <;> try rfl
  simp only [modelNewId, newIdOf, effect]
  cases hc : a.uri.bind uriClass with
  | none => rfl
  | some c => cases c <;> simp [faceFullProps, newFace_id]

theorem usable_congr {t u : Tables} (h1 : t.sc = u.sc) (h2 : t.cs = u.cs) (h3 : t.faces = u.faces) :
    usable t = usable u := by
  simp [usable, h1, h2, h3]

theorem obs_shape (st : St) (ext : Ext) (routed : Bool) (face : Nat) (name : Name) (p : Params)
    (hwf : WF0 st) : Shape st (obsOf st ext routed face name p) := by
  rcases sysStep_char st ext routed face name p hwf with ⟨h, hna⟩ | ⟨hg, hr, h, hv⟩
  · apply Shape.quiet
    · simp [obsOf, h, outcomeOf]
    · simp [obsOf, h]
    · intro v _ ha hr
      simp only [obsOf, Obs.auth, tablesOf] at ha hr
      simp [ha, hr] at hna
  · have hreq0 := fwGuard_face hg
    cases hvo : verbOf name with
    | none =>
      simp only [hvo] at hv
      obtain ⟨htb, _, _, h3⟩ := hv
      have haft : (obsOf st ext routed face name p).after = (obsOf st ext routed face name p).before := by
        simp only [obsOf, h, post_fst]; exact tablesOf_eq_of_tbl htb
      have hreq : (faceGet (run st ext face name p).1.faces face).isSome = true := by
        have : (run st ext face name p).1.faces = st.faces := by simp [tbl] at htb; exact htb.2.2.2.2
        rw [this]; exact hreq0
      have hnv : ∀ v, verbOf (obsOf st ext routed face name p).name = some v → False := by
        intro v hv'; simp [obsOf, hvo] at hv'
      rcases h3 with h3 | ⟨c, e, h3, hc⟩ | ⟨pf, mv, v, d, h3, hd⟩
      · exact Shape.quiet (by simp [obsOf, h, post_none _ _ h3, outcomeOf]) haft (fun v hv' _ _ => hnv v hv')
      · exact Shape.refused c e (by simp [obsOf, h, post_ctrl _ _ _ _ h3, hreq, outcomeOf]) hc haft
          (fun v hv' _ _ => (hnv v hv').elim)
      · exact Shape.listed pf mv v d (by simp [obsOf, h, post_dataset _ _ _ _ _ _ h3, hreq, outcomeOf]) haft hd
          (fun v hv' _ _ => hnv v hv')
    | some v =>
      simp only [hvo] at hv
      by_cases ha : authorised st.lh st.faces face name = true
      · simp only [ha, ↓reduceIte] at hv
        rcases char_cases hv with ⟨hval, a, hp, h3, hag⟩ | ⟨hval, hst, c, e, h3, hc1, hc2⟩
        · refine Shape.accepted v a (by simp [obsOf, hvo]) (by simp [obsOf, hp]) ?_ (by simp [obsOf, Obs.auth, tablesOf, ha])
            (by simp [obsOf, hr]) (modelNewId v st) ?_ ?_ ?_ ?_
          · simpa [obsOf, Obs.hasP] using hval
          · exact effect_newId_fix _ _ _ _ _
          · simp only [obsOf, h, post_fst]; exact agrees_matches hag
          · intro hu
            simp only [obsOf, h, post_fst] at hu ⊢
            have := effect_usable (tablesOf st) face v (hasParams name) a (modelNewId v st) (by rw [← hp]; exact hval) hu
            rw [← this]
            obtain ⟨_, _, _, _, _, _, _, hsc, hcs, hfa, _, _⟩ := hag
            exact usable_congr hsc hcs hfa
          · by_cases hreq : (faceGet (run st ext face name p).1.faces face).isSome = true
            · left; simp [obsOf, h, post_ctrl _ _ _ _ h3, hreq, outcomeOf]
            · right
              simp [obsOf, h, post_ctrl _ _ _ _ h3, hreq, outcomeOf, Obs.requesterGone, post_fst, tablesOf]
              cases hq : faceGet (run st ext face name p).1.faces face <;> simp_all
        · have hreq : (faceGet (run st ext face name p).1.faces face).isSome = true := by rw [hst]; exact hreq0
          refine Shape.refused c e (by simp [obsOf, h, post_ctrl _ _ _ _ h3, hreq, outcomeOf]) (by omega)
            (by simp [obsOf, h, post_fst, hst]) ?_
          intro v' hv' _ _
          have : v' = v := by simp [obsOf, hvo] at hv'; exact hv'.symm
          subst this
          refine ⟨?_, hc1, hc2⟩
          simpa [obsOf, Obs.hasP] using hval
      · simp only [ha, Bool.false_eq_true, ↓reduceIte] at hv
        have h3 : (run st ext face name p).2 = .none := by rw [hv]
        refine Shape.quiet (by simp [obsOf, h, post_none _ _ h3, outcomeOf]) (by simp [obsOf, h, post_fst, hv]) ?_
        intro v' _ ha' _
        simp only [obsOf, Obs.auth, tablesOf] at ha'
        exact ha ha'


end Ndn.C17
