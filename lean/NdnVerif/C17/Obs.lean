/-
  C17 — the observation (Spec.Obs) a model step gives rise to: ties Model and Spec together.
  Core Lean only (used by the driver and by Props).
-/
import NdnVerif.C17.Model
import NdnVerif.C17.Spec
namespace Ndn.C17

def tablesOf (st : St) : Tables := ⟨st.rib, st.fib, st.sc, st.cs, st.faces⟩

def outcomeOf (r : Resp) : Outcome :=
  match r with
  | .none => .none
  | .ctrl c e => .ctrl c e
  | .dataset p mv v d => .dataset p mv v d
  | .panic _ => .crash

/-- what an observer sees of one model step -/
def obsOf (st : St) (ext : Ext) (routed : Bool) (face : Nat) (name : Name) (p : Params) : Obs :=
  { lh := st.lh, face := face, name := name, params := p, routed := routed, before := tablesOf st,
    out := outcomeOf (sysStep st ext routed face name p).2, after := tablesOf (sysStep st ext routed face name p).1 }

end Ndn.C17
