/-
  C17 specification — what the property demands, stated on observable things only:
  the configuration, the arrival (face scope, name, decoded parameters), whether the forwarding
  plane handed the Interest to management, the response (status code + echoed parameters or a
  dataset) and the tables before/after.  Decidable and executable: the driver evaluates it on the
  IMPLEMENTATION's outputs; Props.lean proves the model satisfies it for every state and input.

  Clauses (names are used in SPEC lines and known-findings keys):
    authorised   state changes only if the command arrived under /localhost/nfd on a local face, or
                 under /localhop/nfd for the RIB module while localhop management is enabled
    effect       a 200 answer comes with exactly the table effect the parameters describe (defaults:
                 requesting face, origin 0 = app, cost 0, flags 1 = child-inherit) and echoes it
    accepted     a well-formed, authorised, delivered command of a known verb is answered 200
    refused      missing / malformed / out-of-range parameters are answered 4xx
    nochange     any answer other than 200 leaves every table as it was
    dataset      a status dataset lists exactly the current table contents
    usable       table invariants that keep the daemon alive: every chosen strategy is one the
                 forwarding threads instantiate; every face MTU can carry a packet; CS capacity ≥ 0
    live         no panic / crash / hang
-/
import NdnVerif.C17.Tables
namespace Ndn.C17

structure Tables where
  rib : Rib
  fib : Fib
  sc : Sc
  cs : Int
  faces : List Face
deriving Repr

/-! ### canonical forms (tables are finite maps; order is not observable) -/

def insertSorted {α : Type} (le : α → α → Bool) (x : α) : List α → List α
  | [] => [x]
  | y :: ys => if le x y then x :: y :: ys else y :: insertSorted le x ys

def sortBy {α : Type} (le : α → α → Bool) (xs : List α) : List α := xs.foldr (insertSorted le) []

def routeLe (a b : Route) : Bool := a.face < b.face || (a.face == b.face && a.origin ≤ b.origin)
def hopLe (a b : Nat × Nat) : Bool := a.1 ≤ b.1

/-- total order on names used only for canonical listing: by rendered text -/
def nameLe (a b : Name) : Bool := !(Name.toText b < Name.toText a)

def canonRib (r : Rib) : Rib := sortBy (fun a b => nameLe a.1 b.1) (r.map fun e => (e.1, sortBy routeLe e.2))
def canonFib (f : Fib) : Fib := sortBy (fun a b => nameLe a.1 b.1) (f.map fun e => (e.1, sortBy hopLe e.2))
def canonSc (s : Sc) : Sc := sortBy (fun a b => nameLe a.1 b.1) s
def canonFaces (fs : List Face) : List Face := sortBy (fun a b => a.id ≤ b.id) fs

def sameRib (a b : Rib) : Bool := canonRib a == canonRib b
def sameFib (a b : Fib) : Bool := canonFib a == canonFib b
def sameSc (a b : Sc) : Bool := canonSc a == canonSc b
def sameFaces (a b : List Face) : Bool := canonFaces a == canonFaces b

def Tables.same (a b : Tables) : Bool :=
  sameRib a.rib b.rib && sameFib a.fib b.fib && sameSc a.sc b.sc && a.cs == b.cs && sameFaces a.faces b.faces

/-! ### who may change state -/

def faceIsLocal (fs : List Face) (id : Nat) : Bool :=
  match faceGet fs id with
  | some f => f.isLocal
  | none => false

def authorised (lh : Bool) (faces : List Face) (face : Nat) (name : Name) : Bool :=
  (lhPrefix.isPrefixOf name && faceIsLocal faces face) ||
  (lh && lpPrefix.isPrefixOf name && (name[2]?.map modOf) == some Mod.rib && (faceGet faces face).isSome)

/-! ### verbs and what their parameters describe -/

inductive Verb
  | ribRegister | ribUnregister | fibAdd | fibRemove | scSet | scUnset | csConfig | faceUpdate | faceDestroy | faceCreate
deriving DecidableEq, Repr

def verbOf (name : Name) : Option Verb :=
  match name[2]?, name[3]? with
  | some m, some v =>
    (match modOf m, wordOf v with
     | .rib, .register => some .ribRegister
     | .rib, .unregister => some .ribUnregister
     | .fib, .addNexthop => some .fibAdd
     | .fib, .removeNexthop => some .fibRemove
     | .sc, .set => some .scSet
     | .sc, .unset => some .scUnset
     | .cs, .config => some .csConfig
     | .faces, .update => some .faceUpdate
     | .faces, .destroy => some .faceDestroy
     | .faces, .create => some .faceCreate
     | _, _ => none)
  | _, _ => none

/-- the face a command is about: FaceId if given and non-zero, else the requester -/
def targetFace (a : Args) (inFace : Nat) : Nat :=
  match a.faceId with
  | some f => if f = 0 then inFace else f
  | none => inFace

/-- a strategy name management must accept: ⟨/localhost/nfd/strategy, known name[, known version]⟩;
    result = the name the forwarding threads know it by -/
def knownStrategy (s : Name) : Option Name :=
  match s with
  | [a, b, c, sn] =>
    if [a, b, c] == strategyPrefix then
      (match strategyVersions sn with
       | some (v :: vs) => some (strategyPrefix ++ [sn, ⟨versionType, encNat (newestVersion (v :: vs))⟩])
       | _ => none)
    else none
  | [a, b, c, sn, vc] =>
    if [a, b, c] == strategyPrefix && vc.typ == versionType then
      (match strategyVersions sn, decNat vc.val with
       | some vs, some v => if vs.contains v then some (strategyPrefix ++ [sn, ⟨versionType, encNat v⟩]) else none
       | _, _ => none)
    else none
  | _ => none

/-- largest per-frame overhead of the link service: an MTU not above it cannot carry a packet -/
def specMaxOverhead : Nat := 60
/-- MTUs from here on must be accepted (the band in between is left to the implementation) -/
def specMinMtu : Nat := 64

def schemeUpdatable (f : Face) : Bool := f.rscheme != "null" && f.rscheme != "internal"

inductive Validity
  | valid        -- must be accepted
  | invalid      -- must be refused with 4xx
  | either       -- the property does not decide
deriving DecidableEq, Repr

/-- an MTU that cannot carry a packet must be refused, one from `specMinMtu` on accepted -/
def mtuClass (mtu : Option Nat) : Validity :=
  match mtu with
  | some m => if m ≤ specMaxOverhead then .invalid else if m < specMinMtu then .either else .valid
  | none => .valid

/-- is the command well-formed w.r.t. the tables `t` (the face table matters)? -/
def validity (t : Tables) (inFace : Nat) (v : Verb) (hasParamsComp : Bool) (p : Params) : Validity :=
  if !hasParamsComp then .invalid else
  match p with
  | .undecodable | .filter _ | .app _ => .invalid
  | .args a =>
    let faceOk := match a.faceId with
      | some f => f = 0 || (faceGet t.faces f).isSome
      | none => true
    match v with
    | .ribRegister => if a.name.isSome && faceOk && expOk a.exp then .valid else .invalid
    | .fibAdd => if a.name.isSome && faceOk then .valid else .invalid
    | .ribUnregister | .fibRemove => if a.name.isSome then .valid else .invalid
    | .scSet =>
      (match a.name, a.strategy with
       | some _, some s => if (knownStrategy s).isSome then .valid else .invalid
       | _, _ => .invalid)
    | .scUnset => (match a.name with | some n => if n.isEmpty then .invalid else .valid | none => .invalid)
    | .csConfig =>
      if a.flags.isSome != a.mask.isSome then .invalid
      else (match a.capacity with | some k => if k ≤ maxInt then .valid else .invalid | none => .valid)
    | .faceUpdate =>
      (match faceGet t.faces (targetFace a inFace) with
       | none => .invalid
       | some f =>
         if !schemeUpdatable f then .invalid
         else if !flagsMaskOk a.flags a.mask then .invalid
         else if !persArgOk f a.pers then .invalid
         else mtuClass a.mtu)
    | .faceDestroy => if a.faceId.isSome then .valid else .invalid
    | .faceCreate =>
      (match a.uri with
       | none => .invalid
       | some u =>
         (match uriClass u with
          | none => .either                       -- a URI string outside the modelled set
          | some (.udp canon) | some (.tcp canon) =>
            if !flagsMaskOk a.flags a.mask then .invalid
            else if (t.faces.find? (fun f => f.uri == canon)).isSome then .invalid     -- face exists: 409
            else if !createPersOk a.pers then .invalid
            else mtuClass a.mtu
          | some _ => .invalid))

/-- the route / next hop / strategy / capacity / face settings the parameters describe, applied to
    the tables (RIB commands and face destruction leave the FIB — and for destruction the RIB —
    to the RIB's own flattening, property C06: `fibFree` / `ribFree` say which parts are not
    constrained here) -/
structure Effect where
  t : Tables
  echo : Args
  fibFree : Bool := false
  ribFree : Bool := false
  ok : Bool := true          -- side condition (a created face gets a fresh id)
  consumesId : Bool := false

def specFaceAfter (f : Face) (a : Args) : Face :=
  let f := match a.pers with | some p => { f with pers := p } | none => f
  let f := match a.bcmi with | some b => { f with bcmi := b } | none => f
  let f := match a.dct with | some d => { f with dct := d } | none => f
  let f := match a.mtu with | some m => { f with mtu := if m > 8800 then 8800 else m } | none => f
  match a.flags, a.mask with
  | some fl, some mk => applyFlags f fl mk
  | _, _ => f

/-- `newId`: the id the answer reports for a created face (ignored by the other verbs) -/
def effect (t : Tables) (inFace : Nat) (v : Verb) (a : Args) (newId : Nat := 0) : Effect :=
  let n := a.name.getD []
  let tf := targetFace a inFace
  match v with
  | .ribRegister =>
    let r : Route := ⟨tf, a.origin.getD 0, a.cost.getD 0, a.flags.getD 1, a.exp⟩
    { t := { t with rib := ribAdd t.rib n r }, fibFree := true,
      echo := { name := some n, faceId := some tf, origin := some r.origin, cost := some r.cost, flags := some r.flags, exp := a.exp } }
  | .ribUnregister =>
    { t := { t with rib := ribRemove t.rib n tf (a.origin.getD 0) }, fibFree := true,
      echo := { name := some n, faceId := some tf, origin := some (a.origin.getD 0) } }
  | .fibAdd =>
    { t := { t with fib := fibInsert t.fib n tf (a.cost.getD 0) },
      echo := { name := some n, faceId := some tf, cost := some (a.cost.getD 0) } }
  | .fibRemove =>
    { t := { t with fib := fibRemove t.fib n tf }, echo := { name := some n, faceId := some tf } }
  | .scSet =>
    let s := (knownStrategy (a.strategy.getD [])).getD []
    { t := { t with sc := scSet t.sc n s }, echo := { name := some n, strategy := some s } }
  | .scUnset => { t := { t with sc := scUnset t.sc n }, echo := { name := some n } }
  | .csConfig =>
    (match a.capacity with
     | some k => { t := { t with cs := (k : Int) }, echo := { flags := some 0, capacity := some k } }
     | none => { t := t, echo := { flags := some 0 } })
  | .faceUpdate =>
    (match faceGet t.faces tf with
     | some f =>
       let f' := specFaceAfter f a
       { t := { t with faces := faceSet t.faces f' },
         echo := { faceId := some tf, pers := some f'.pers, mtu := some f'.mtu, flags := some (faceFlags f'),
                   bcmi := some f'.bcmi, dct := some f'.dct } }
     | none => { t := t, echo := {} })
  | .faceDestroy =>
    let f := a.faceId.getD 0
    if (faceGet t.faces f).isSome then
      { t := { t with faces := faceRemove t.faces f, rib := ribCleanFace t.rib f }, echo := { faceId := a.faceId }, fibFree := true }
    else { t := t, echo := { faceId := a.faceId }, fibFree := true }
  | .faceCreate =>
    (match (a.uri.bind uriClass) with
     | some (.udp canon) =>
       let f := newFace newId (.udp canon) canon a
       { t := { t with faces := t.faces ++ [f] }, echo := faceFullProps f, ok := (faceGet t.faces newId).isNone, consumesId := true }
     | some (.tcp canon) =>
       let f := newFace newId (.tcp canon) canon a
       { t := { t with faces := t.faces ++ [f] }, echo := faceFullProps f, ok := (faceGet t.faces newId).isNone, consumesId := true }
     | _ => { t := t, echo := {} })

def Effect.matches (e : Effect) (after : Tables) : Bool :=
  e.ok && (e.ribFree || sameRib e.t.rib after.rib) && (e.fibFree || sameFib e.t.fib after.fib) &&
  sameSc e.t.sc after.sc && e.t.cs == after.cs && sameFaces e.t.faces after.faces

/-! ### the FIB follows the RIB (the C06 relation, evaluated on C17 histories by the driver) -/

def routeHasInherit (r : Route) : Bool := r.flags % 2 == 1
def routeHasCapture (r : Route) : Bool := r.flags / 2 % 2 == 1

/-- routes inherited by an entry: child-inherit routes of the entries at proper prefixes, nearest
    first, up to and including the first one that holds a capture route -/
def inheritedRoutes (rib : Rib) : Nat → Name → List Route
  | 0, _ => []
  | k + 1, m =>
    let anc := m.take k
    let rs := (rib.find? (fun e => e.1 == anc)).map (·.2) |>.getD []
    let here := rs.filter routeHasInherit
    if rs.any routeHasCapture then here else here ++ inheritedRoutes rib k m

def minCostHops (rs : List Route) : List (Nat × Nat) :=
  rs.foldl (fun acc r => match acc.find? (·.1 == r.face) with
    | some (_, c) => if r.cost < c then acc.map (fun h => if h.1 == r.face then (h.1, r.cost) else h) else acc
    | none => acc ++ [(r.face, r.cost)]) []

/-- `RibEntry.ownNexthopsUpdate` for an entry with routes -/
def flattenAt (rib : Rib) (m : Name) (own : List Route) : List (Nat × Nat) :=
  minCostHops (own ++ (if own.any routeHasCapture then [] else inheritedRoutes rib m.length m))

/-- every RIB entry at or below `under` has exactly its flattened next hops in the FIB -/
def fibFollowsRib (rib : Rib) (fib : Fib) (under : Name) : Bool :=
  rib.all fun e =>
    !(under.isPrefixOf e.1) ||
    (sortBy hopLe (flattenAt rib e.1 e.2) == sortBy hopLe ((fib.find? (fun x => x.1 == e.1)).map (·.2) |>.getD []))

/-! ### table invariants that keep the daemon alive -/

def usable (t : Tables) : Bool :=
  t.sc.all (fun e => instantiated e.2) && t.faces.all (fun f => specMaxOverhead < f.mtu) && 0 ≤ t.cs

/-! ### the observable outcome of one command and the clause checks -/

inductive Outcome
  | none
  | ctrl (code : Nat) (echo : Args)
  | dataset (pfx : Name) (modVerb : String) (ver : Nat) (d : Dataset)
  | crash
deriving Repr

def datasetOk (d : Dataset) (t : Tables) : Bool :=
  match d with
  | .rib r => sameRib r t.rib
  | .fib f => sameFib f t.fib
  | .sc s => sameSc s t.sc
  | .cs cap flags _ => (cap : Int) == t.cs && flags == 3
  | .status nfib => nfib == t.fib.length
  | .faces fs => sameFaces fs t.faces
  | .query q fs => sameFaces fs (t.faces.filter (filterMatch q))

structure Obs where
  lh : Bool
  face : Nat            -- arrival face
  name : Name
  params : Params       -- decoded view of component 4 (meaningful when the name has ≥ 5 components)
  routed : Bool         -- the forwarding plane delivered it to the management face
  before : Tables
  out : Outcome
  after : Tables

def Obs.auth (o : Obs) : Bool := authorised o.lh o.before.faces o.face o.name
def Obs.changed (o : Obs) : Bool := !o.before.same o.after
def Obs.hasP (o : Obs) : Bool := hasParams o.name
def Obs.requesterGone (o : Obs) : Bool := (faceGet o.after.faces o.face).isNone

/-- live: the daemon survived -/
def cLive (o : Obs) : Bool := match o.out with | .crash => false | _ => true

/-- authorised: tables differ only if the command was authorised and delivered -/
def cAuth (o : Obs) : Bool := !o.changed || (o.auth && o.routed)

/-- the id of a created face is taken from the answer -/
def newIdOf (v : Verb) (echo : Args) : Nat := match v with | .faceCreate => echo.faceId.getD 0 | _ => 0

/-- effect: a 200 answer carries exactly the described effect and echoes it -/
def cEffect (o : Obs) : Bool :=
  match o.out with
  | .ctrl 200 echo =>
    (match verbOf o.name, o.params with
     | some v, .args a =>
       (effect o.before o.face v a (newIdOf v echo)).matches o.after && echo == (effect o.before o.face v a (newIdOf v echo)).echo
     | some _, _ => false
     | none, _ => !o.changed)
  | _ => true

/-- nochange: any other answer (or none, unless the requester destroyed its own face) changes nothing -/
def cNoChange (o : Obs) : Bool :=
  match o.out with
  | .ctrl 200 _ => true
  | .ctrl _ _ => !o.changed
  | .none => !o.changed || o.requesterGone
  | .dataset _ _ _ _ => !o.changed
  | .crash => true

/-- dataset: the dataset lists the current tables -/
def cDataset (o : Obs) : Bool :=
  match o.out with
  | .dataset _ _ _ d => datasetOk d o.after
  | _ => true

/-- accepted / refused: well-formed commands get 200, ill-formed ones 4xx -/
def cValidity (o : Obs) : Bool :=
  match verbOf o.name with
  | some v =>
    if o.auth && o.routed then
      (match validity o.before o.face v o.hasP o.params, o.out with
       | .valid, .ctrl c _ => c == 200
       | .valid, .none => o.requesterGone
       | .valid, .crash => true
       | .valid, .dataset _ _ _ _ => false
       | .invalid, .ctrl c _ => 400 ≤ c && c < 500
       | .invalid, .crash => true
       | .invalid, _ => false
       | .either, _ => true)
    else true
  | none => true

/-- usable: the liveness invariants of the tables are preserved -/
def cUsable (o : Obs) : Bool := !usable o.before || usable o.after

/-- violated clauses (empty = the observation satisfies the property) -/
def check (o : Obs) : List String :=
  (if cLive o then [] else ["live"]) ++ (if cAuth o then [] else ["authorised"]) ++
  (if cEffect o then [] else ["effect"]) ++ (if cNoChange o then [] else ["nochange"]) ++
  (if cDataset o then [] else ["dataset"]) ++
  (if cValidity o then [] else
    [match verbOf o.name with
     | some v => if validity o.before o.face v o.hasP o.params == .valid then "accepted" else "refused"
     | none => "refused"]) ++
  (if cUsable o then [] else ["usable"])

end Ndn.C17
