/-
  C10 helper lemmas: the sender's output as the receiver's messages; bytes ↔ decoded frames.
-/
import NdnVerif.C10.LemmasRx
import NdnVerif.C10.LemmasWire
namespace Ndn.C10

/-- receiving encoded frames = receiving the frames -/
theorem rxRun_map_encFrame (reasm : Bool) (validL3 : Bytes → Bool) :
    ∀ (fs : List Frame) (store : Store), (∀ f ∈ fs, f.Encodable) →
      rxRun reasm validL3 store (fs.map encFrame) = rxRunF reasm validL3 store fs := by
  intro fs
  induction fs with
  | nil => intro store _; rfl
  | cons f rest ih =>
    intro store h
    have hf := h f (by simp)
    simp only [List.map_cons, rxRun, rxRunF, handleFrame, decFrame_encFrame f hf, if_true]
    rw [ih _ (fun g hg => h g (by simp [hg]))]

/-- the numbered frames of the sender, written with `List.range` -/
theorem numberFrom_eq_range (h : Frame) (n : Nat) : ∀ (ps : List Bytes) (s i : Nat),
    numberFrom h n s i ps = (List.range ps.length).map fun k =>
      { h with seq := some ((s + k) % two64), idx := some (i + k), cnt := some n, frag := ps.getD k [] } := by
  intro ps
  induction ps with
  | nil => intro s i; simp [numberFrom]
  | cons p ps ih =>
    intro s i
    simp only [numberFrom, List.length_cons, List.range_succ_eq_map, List.map_cons, List.map_map]
    congr 1
    rw [ih (s + 1) (i + 1)]
    apply List.map_congr_left
    intro k _
    simp [Nat.add_assoc, Nat.add_comm 1 k]

/-- the message the receiver sees when the sender fragments -/
def msgOf (cfg : TxCfg) (st : TxSt) (p : OutPkt) : FMsg :=
  ⟨hdrOf cfg st p, st.nextSeq % two64, chunks (payloadRoom cfg st p) p.wire⟩

theorem numberFrom_eq_frames (cfg : TxCfg) (st : TxSt) (p : OutPkt) :
    numberFrom (hdrOf cfg st p) (chunks (payloadRoom cfg st p) p.wire).length st.nextSeq 0
      (chunks (payloadRoom cfg st p) p.wire) = (msgOf cfg st p).frames := by
  rw [numberFrom_eq_range]
  simp only [FMsg.frames, msgOf]
  apply List.map_congr_left
  intro k _
  simp [FMsg.frameAt, Nat.add_mod]

theorem chunks_length_mul (e : Nat) : ∀ (n : Nat) (w : Bytes), w.length ≤ n →
    (chunks e w).length * e ≤ w.length + e := by
  intro n
  induction n with
  | zero => intro w h; rw [chunks]; simp at h; simp [h]
  | succ n ih =>
    intro w h
    rw [chunks]
    split
    · simp
    · rename_i hc
      have := ih (w.drop e) (by simp; omega)
      simp only [List.length_cons, List.length_drop, Nat.add_mul] at this ⊢
      omega

/-- the unfragmented frame is too long only if the packet exceeds one fragment payload -/
theorem room_lt_wire (cfg : TxCfg) (st : TxSt) (p : OutPkt)
    (hsize : p.wire.length ≤ 8800) (htok : p.token.length ≤ 32)
    (hnofit : ¬ (encFrame (wholeOf cfg st p)).length ≤ cfg.mtu)
    (hov : ¬ cfg.mtu ≤ overheadOf (hdrOf cfg st p)) : payloadRoom cfg st p < p.wire.length := by
  rcases Nat.lt_or_ge (payloadRoom cfg st p) p.wire.length with hh | hh
  · exact hh
  · exfalso
    apply hnofit
    have htok' : (hdrOf cfg st p).token.length ≤ 32 := by simpa [hdrOf, headerOf] using htok
    have := wholeFrame_length_le (hdrOf cfg st p) rfl rfl rfl p.wire hsize htok'
    unfold payloadRoom at hh
    exact Nat.le_trans this (by omega)

/-- admissible packets (property quantifier) -/
structure PktOk (p : OutPkt) : Prop where
  size : p.wire.length ≤ specMaxPkt
  tok : p.token.length ≤ specMaxToken
  mark : ∀ v, p.mark = some v → v < two64
  inFace : ∀ v, p.inFace = some v → v < two64

theorem hdrOf_fields (cfg : TxCfg) (st : TxSt) (p : OutPkt) (hp : PktOk p) :
    (hdrOf cfg st p).seq = none ∧ (hdrOf cfg st p).idx = none ∧ (hdrOf cfg st p).cnt = none ∧
    (hdrOf cfg st p).token = p.token ∧ (hdrOf cfg st p).frag = [] ∧
    (∀ v, (hdrOf cfg st p).inFace = some v → v < two64) ∧
    (∀ v, (hdrOf cfg st p).mark = some v → v < two64) := by
  refine ⟨rfl, rfl, rfl, rfl, rfl, ?_, ?_⟩
  · intro v hv
    simp only [hdrOf, headerOf] at hv
    split at hv
    · exact hp.inFace v hv
    · simp at hv
  · intro v hv
    simp only [hdrOf, headerOf, congestionStep] at hv
    split at hv
    · split at hv
      · simp only at hv
        split at hv
        · simp at hv; subst hv; decide
        · exact hp.mark v hv
      · exact hp.mark v hv
    · exact hp.mark v hv

theorem msgOf_wf (cfg : TxCfg) (st : TxSt) (p : OutPkt) (hp : PktOk p) (hmtu : specMinMtu ≤ cfg.mtu)
    (hnofit : ¬ (encFrame (wholeOf cfg st p)).length ≤ cfg.mtu) : (msgOf cfg st p).WF := by
  have hsize : p.wire.length ≤ 8800 := hp.size
  have htok : p.token.length ≤ 32 := hp.tok
  have htok' : (hdrOf cfg st p).token.length ≤ 32 := by simpa [hdrOf, headerOf] using htok
  have hov := overheadOf_le htok'
  simp only [specMinMtu] at hmtu
  have hlt : ¬ cfg.mtu ≤ overheadOf (hdrOf cfg st p) := by omega
  have hbig := room_lt_wire cfg st p hsize htok hnofit hlt
  have hroom : 44 ≤ payloadRoom cfg st p := by unfold payloadRoom; omega
  have hne : p.wire ≠ [] := by intro h; rw [h] at hbig; simp at hbig
  refine ⟨?_, ?_, ?_, ?_⟩
  · exact Nat.mod_lt _ (by decide)
  · exact chunks_length_ge2 _ (by omega) _ hbig
  · have hmul := chunks_length_mul (payloadRoom cfg st p) p.wire.length p.wire (Nat.le_refl _)
    have hmf : maxFragments = 400 := by decide
    show (chunks (payloadRoom cfg st p) p.wire).length ≤ maxFragments
    rw [hmf]
    rcases Nat.lt_or_ge 400 (chunks (payloadRoom cfg st p) p.wire).length with hgt | hle
    · exfalso
      have h1 : 401 * payloadRoom cfg st p ≤ (chunks (payloadRoom cfg st p) p.wire).length * payloadRoom cfg st p :=
        Nat.mul_le_mul_right _ hgt
      have h2 : 401 * 44 ≤ 401 * payloadRoom cfg st p := Nat.mul_le_mul_left _ hroom
      have h3 : 401 * payloadRoom cfg st p = 400 * payloadRoom cfg st p + payloadRoom cfg st p := by
        rw [show (401 : Nat) = 400 + 1 from rfl, Nat.add_mul, Nat.one_mul]
      have h4 : 400 * 44 ≤ 400 * payloadRoom cfg st p := Nat.mul_le_mul_left _ hroom
      omega
    · exact hle
  · exact chunks_mem_ne_nil _ (by omega) p.wire.length p.wire (Nat.le_refl _) hne

theorem msgOf_delivery (cfg : TxCfg) (st : TxSt) (p : OutPkt) :
    (msgOf cfg st p).delivery = ⟨p.wire, p.token, (congestionStep cfg st p).1⟩ := by
  simp only [FMsg.delivery, msgOf, chunks_flatten _ _ _ (Nat.le_refl _)]
  rfl

theorem msgOf_frames_encodable (cfg : TxCfg) (st : TxSt) (p : OutPkt) (hp : PktOk p)
    (hwf : (msgOf cfg st p).WF) : ∀ f ∈ (msgOf cfg st p).frames, f.Encodable := by
  intro f hf
  obtain ⟨k, hk, rfl⟩ := mem_frames.mp hf
  obtain ⟨_, _, _, htk, _, hface, hmark⟩ := hdrOf_fields cfg st p hp
  have hmf : maxFragments = 400 := by decide
  have hsmall := hwf.small
  have hfragle : ((msgOf cfg st p).parts.getD k []).length ≤ p.wire.length := by
    have hmem : (msgOf cfg st p).parts.getD k [] ∈ (msgOf cfg st p).parts := by
      rw [List.getD_eq_getElem?_getD, List.getElem?_eq_getElem hk]; exact List.getElem_mem hk
    exact chunks_mem_le_len _ p.wire.length p.wire (Nat.le_refl _) _ hmem
  have hsz : p.wire.length ≤ 8800 := hp.size
  have htok : p.token.length ≤ 32 := hp.tok
  refine ⟨?_, ?_, ?_, ?_, ?_, ?_, ?_⟩
  · intro v hv; simp [FMsg.frameAt] at hv; subst hv; exact Nat.mod_lt _ (by decide)
  · intro v hv; simp [FMsg.frameAt] at hv; subst hv; unfold two64; omega
  · intro v hv; simp [FMsg.frameAt] at hv; subst hv; unfold two64; omega
  · intro v hv; exact hface v (by simpa [FMsg.frameAt, msgOf] using hv)
  · intro v hv; exact hmark v (by simpa [FMsg.frameAt, msgOf] using hv)
  · show (hdrOf cfg st p).token.length < 2 ^ 32
    rw [htk]; omega
  · show ((msgOf cfg st p).parts.getD k []).length < 2 ^ 32
    omega

theorem wholeOf_single (cfg : TxCfg) (st : TxSt) (p : OutPkt) (hp : PktOk p) (hne : p.wire ≠ []) :
    (wholeOf cfg st p).seq = none ∧ (wholeOf cfg st p).idx = none ∧ (wholeOf cfg st p).cnt = none ∧
    (wholeOf cfg st p).frag ≠ [] ∧ (wholeOf cfg st p).Encodable := by
  obtain ⟨_, _, _, htk, _, hface, hmark⟩ := hdrOf_fields cfg st p hp
  have hsz : p.wire.length ≤ 8800 := hp.size
  have htok : p.token.length ≤ 32 := hp.tok
  refine ⟨rfl, rfl, rfl, hne, ⟨?_, ?_, ?_, hface, hmark, ?_, ?_⟩⟩
  · intro v hv; simp [wholeOf, hdrOf, headerOf] at hv
  · intro v hv; simp [wholeOf, hdrOf, headerOf] at hv
  · intro v hv; simp [wholeOf, hdrOf, headerOf] at hv
  · show (hdrOf cfg st p).token.length < 2 ^ 32
    rw [htk]; omega
  · show p.wire.length < 2 ^ 32
    omega

/-! ### consecutive packets of one sender occupy disjoint sequence ranges -/

/-- the fragmented messages produced by sending `ps` one after the other from state `st` -/
def msgsOfAll (cfg : TxCfg) : TxSt → List OutPkt → List FMsg
  | _, [] => []
  | st, p :: ps =>
    (if (encFrame (wholeOf cfg st p)).length ≤ cfg.mtu then [] else [msgOf cfg st p]) ++
      msgsOfAll cfg (sendPacketF cfg st p).1 ps

/-- total number of fragment frames produced -/
def fragTotal (cfg : TxCfg) : TxSt → List OutPkt → Nat
  | _, [] => 0
  | st, p :: ps =>
    (if (encFrame (wholeOf cfg st p)).length ≤ cfg.mtu then 0 else (msgOf cfg st p).parts.length) +
      fragTotal cfg (sendPacketF cfg st p).1 ps

theorem msgsOfAll_base (cfg : TxCfg) (hmtu : specMinMtu ≤ cfg.mtu) (hfrag : cfg.fragEnabled = true) :
    ∀ (ps : List OutPkt) (st : TxSt), (∀ p ∈ ps, PktOk p) →
      ∀ m ∈ msgsOfAll cfg st ps, ∃ d, m.base = (st.nextSeq + d) % two64 ∧
        d + m.parts.length ≤ fragTotal cfg st ps := by
  intro ps
  induction ps with
  | nil => intro st _ m hm; simp [msgsOfAll] at hm
  | cons p ps ih =>
    intro st hok m hm
    have hp := hok p (by simp)
    have hrest : ∀ q ∈ ps, PktOk q := fun q hq => hok q (by simp [hq])
    simp only [msgsOfAll, List.mem_append] at hm
    by_cases hfit : (encFrame (wholeOf cfg st p)).length ≤ cfg.mtu
    · simp only [hfit, if_true, List.not_mem_nil, false_or] at hm
      obtain ⟨d, hd1, hd2⟩ := ih _ hrest m hm
      rw [sendPacketF_single cfg st p hfit] at hd1 hd2
      dsimp only at hd1 hd2
      exact ⟨d, hd1, by simp only [fragTotal, hfit, if_true, sendPacketF_single cfg st p hfit]; omega⟩
    · have htok' : (hdrOf cfg st p).token.length ≤ 32 := by
        have : p.token.length ≤ 32 := hp.tok
        simpa [hdrOf, headerOf] using this
      have hov := overheadOf_le htok'
      have hmtu' : 128 ≤ cfg.mtu := hmtu
      have hlt : ¬ cfg.mtu ≤ overheadOf (hdrOf cfg st p) := by omega
      simp only [hfit, if_false, List.mem_singleton] at hm
      rcases hm with rfl | hm
      · exact ⟨0, by simp [msgOf], by simp only [fragTotal, hfit, if_false]; omega⟩
      · obtain ⟨d, hd1, hd2⟩ := ih _ hrest m hm
        rw [sendPacketF_frag cfg st p hfit hfrag hlt] at hd1 hd2
        dsimp only at hd1 hd2
        refine ⟨(chunks (payloadRoom cfg st p) p.wire).length + d, ?_, ?_⟩
        · rw [hd1]; unfold two64; omega
        · simp only [fragTotal, hfit, if_false, sendPacketF_frag cfg st p hfit hfrag hlt, msgOf]
          omega

/-- fewer than 2^64 fragment frames in total ⇒ all base sequence numbers are different -/
theorem msgsOfAll_bases_nodup (cfg : TxCfg) (hmtu : specMinMtu ≤ cfg.mtu) (hfrag : cfg.fragEnabled = true) :
    ∀ (ps : List OutPkt) (st : TxSt), (∀ p ∈ ps, PktOk p) → fragTotal cfg st ps < two64 →
      ((msgsOfAll cfg st ps).map FMsg.base).Nodup := by
  intro ps
  induction ps with
  | nil => intro st _ _; simp [msgsOfAll]
  | cons p ps ih =>
    intro st hok htot
    have hp := hok p (by simp)
    have hrest : ∀ q ∈ ps, PktOk q := fun q hq => hok q (by simp [hq])
    simp only [msgsOfAll]
    by_cases hfit : (encFrame (wholeOf cfg st p)).length ≤ cfg.mtu
    · simp only [hfit, if_true, List.nil_append]
      apply ih _ hrest
      simp only [fragTotal, hfit, if_true] at htot
      omega
    · have htok' : (hdrOf cfg st p).token.length ≤ 32 := by
        have : p.token.length ≤ 32 := hp.tok
        simpa [hdrOf, headerOf] using this
      have hov := overheadOf_le htok'
      have hmtu' : 128 ≤ cfg.mtu := hmtu
      have hlt : ¬ cfg.mtu ≤ overheadOf (hdrOf cfg st p) := by omega
      have hwf := msgOf_wf cfg st p hp hmtu hfit
      simp only [fragTotal, hfit, if_false] at htot
      simp only [hfit, if_false, List.singleton_append, List.map_cons, List.nodup_cons]
      refine ⟨?_, ih _ hrest (by omega)⟩
      intro hmem
      obtain ⟨m, hm, hb⟩ := List.mem_map.mp hmem
      obtain ⟨d, hd1, hd2⟩ := msgsOfAll_base cfg hmtu hfrag ps _ hrest m hm
      rw [sendPacketF_frag cfg st p hfit hfrag hlt] at hd1 hd2 htot
      dsimp only at hd1 hd2 htot
      have h2 := hwf.two_le
      have hmlen : (msgOf cfg st p).parts.length = (chunks (payloadRoom cfg st p) p.wire).length := rfl
      have hbase : (msgOf cfg st p).base = st.nextSeq % two64 := rfl
      rw [hbase, hd1] at hb
      unfold two64 at *
      omega

end Ndn.C10
