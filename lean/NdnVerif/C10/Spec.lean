/-
  C10 specification (core Lean, executable; depends only on the NDNLPv2 wire layout, never on the
  implementation model).

  Protocol constants the property names are hard-wired here: MTU ≥ 128, packets of 1..8800 bytes;
  PIT tokens are at most 32 bytes (NDNLPv2).

  For one sent packet (`Sent`) and the frames the link service handed to the transport:
    * `framesFit`       every frame is at most MTU bytes long;
    * `FitsWhole`       the packet, wrapped with the header fields it has to carry, fits into one
                        frame  ⇒ exactly one frame is emitted (`singleOk`);
    * `noFragOk`        fragmentation disabled and the packet does not fit ⇒ no frame at all;
    * `carries`         the frames decode to LpPackets whose fragments, in FragIndex order, are the
                        packet, every frame carries the token and the mark, fragmented frames are
                        numbered base+i (mod 2^64), i = 0..n-1, FragCount = n.
  For the receiver: a message is delivered — bytes, token, mark identical — exactly at the arrival
  that completes it, and nothing else is ever delivered (`expectedAt`).
-/
import NdnVerif.C10.Wire
namespace Ndn.C10

def specMinMtu : Nat := 128
def specMaxPkt : Nat := 8800
def specMaxToken : Nat := 32

/-- what the forwarder asked the link service to send -/
structure Sent where
  wire : Bytes
  token : Bytes := []
  mark : Option Nat := none
  inFace : Option Nat := none    -- attached only when incoming-face indication is enabled
  deriving Repr, DecidableEq

/-- inputs the property quantifies over -/
def Sent.admissible (m : Sent) : Bool :=
  1 ≤ m.wire.length && m.wire.length ≤ specMaxPkt && m.token.length ≤ specMaxToken &&
  (m.mark.all (· < two64)) && (m.inFace.all (· < two64))

/-- the unfragmented LpPacket for `m` -/
def Sent.whole (m : Sent) : Frame :=
  { token := m.token, inFace := m.inFace, mark := m.mark, frag := m.wire }

/-- "the packet fits": the unfragmented frame is within the MTU -/
def Sent.fitsWhole (m : Sent) (mtu : Nat) : Bool := (encFrame m.whole).length ≤ mtu

def framesFit (mtu : Nat) (frames : List Bytes) : Bool := frames.all (·.length ≤ mtu)

def singleOk (m : Sent) (mtu : Nat) (frames : List Bytes) : Bool :=
  !m.fitsWhole mtu || frames.length == 1

def noFragOk (m : Sent) (mtu : Nat) (fragEnabled : Bool) (frames : List Bytes) : Bool :=
  fragEnabled || m.fitsWhole mtu || frames.isEmpty

/-- decode every frame as an LpPacket with a Fragment -/
def decodeAll : List Bytes → Option (List Frame)
  | [] => some []
  | b :: bs =>
    match decFrame b, decodeAll bs with
    | .lp f true, some fs => some (f :: fs)
    | _, _ => none

/-- fragment numbering of a decoded frame list: base+i, i, n -/
def numberedFrom (base n : Nat) : Nat → List Frame → Bool
  | _, [] => true
  | i, f :: fs => f.seq == some ((base + i) % two64) && f.idx == some i && f.cnt == some n &&
                  numberedFrom base n (i + 1) fs

/-- why the frames do not carry the message (`none` = they do) -/
def carriesWhy (m : Sent) (frames : List Bytes) : Option String :=
  match decodeAll frames with
  | none => some "undecodable"
  | some fs =>
    if fs.flatMap (·.frag) ≠ m.wire then some "payload"
    else if fs.any (·.frag = []) then some "empty-fragment"
    else if fs.any (·.token ≠ m.token) then some "token"
    else if fs.any (·.mark ≠ m.mark) then some "mark"
    else if fs.any (·.inFace ≠ m.inFace) then some "inface"
    else match fs with
      | [f] => if f.seq = none ∧ f.idx = none ∧ f.cnt = none then none
               else if f.idx.getD 0 = 0 ∧ f.cnt.getD 1 = 1 then none else some "fragfields"
      | f :: _ => match f.seq with
        | some b => if numberedFrom b fs.length 0 fs then none else some "fragfields"
        | none => some "fragfields"
      | [] => some "no-frames"

/-- receiver: a delivery -/
structure Delivery where
  wire : Bytes
  token : Bytes
  mark : Option Nat
  deriving Repr, DecidableEq

def Sent.delivery (m : Sent) : Delivery := ⟨m.wire, m.token, m.mark⟩

/-- `handed` = indices of the frames of this message that have arrived (each at most once), `n` its
    number of frames: what must be delivered by the arrival of frame `i` -/
def expectedAt (m : Sent) (n : Nat) (handed : List Nat) (i : Nat) : List Delivery :=
  if (List.range n).all (fun j => j = i || handed.contains j) && !handed.contains i && i < n
  then [m.delivery] else []

/-- the TYPE number of the outer TLV of a packet — in whatever form it is written (`fd 00 05` is an Interest as
    much as `05` is; until round 13 the rule looked at the first byte) -/
def outerType (w : Bytes) : Option Nat := (decTL w).map (·.1)

/-- Dispatch rule of the forwarder (which forwarding threads must receive a delivered packet):
    an Interest goes to the thread of its name (`hn`), a Data whose PIT token is one of this
    forwarder's (6 bytes: thread id, entry id) to that thread, any other Data to the thread of every
    prefix of its name incl. the zero-length one (`hp`, duplicate free).  "Delivered exactly once"
    means: once per destination thread, to no other thread, never twice to the same thread; with a
    single thread that is exactly one delivery. -/
def destThreads (nThreads : Nat) (m : Sent) (hn : Nat) (hp : List Nat) : List Nat :=
  if outerType m.wire = some 5 then [hn]
  else if m.token.length = 6 then
    (if beDec (m.token.take 2) < nThreads then [beDec (m.token.take 2)] else [])
  else hp

/-- the threads a packet was queued to are exactly the destination threads, each once -/
def threadsOk (want got : List Nat) : Bool :=
  got.all (fun t => got.count t == 1) && got.all want.contains && want.all got.contains

end Ndn.C10
