/-
  C10 helper lemmas, receive side (no property statements here).
-/
import NdnVerif.C10.LemmasTx
namespace Ndn.C10

/-! ### the partial message store as a finite map -/

theorem Store.find?_erase (s : Store) (k k' : Nat) :
    (s.erase k).find? k' = if k = k' then none else s.find? k' := by
  induction s with
  | nil => simp [Store.erase, Store.find?]
  | cons e rest ih =>
    obtain ⟨a, v⟩ := e
    simp only [Store.erase] at ih ⊢
    by_cases hak : a = k
    · subst hak
      simp only [List.filter, ne_eq, not_true_eq_false, decide_false]
      rw [ih]
      by_cases h : a = k'
      · simp [h]
      · simp [h, Store.find?]
    · simp only [List.filter, ne_eq, hak, not_false_eq_true, decide_true, Store.find?]
      rw [ih]
      by_cases h : k = k'
      · subst h; simp [hak]
      · simp [h]

theorem Store.find?_set (s : Store) (k k' : Nat) (v : List Bytes) :
    (s.set k v).find? k' = if k = k' then some v else s.find? k' := by
  simp only [Store.set, Store.find?]
  by_cases h : k = k'
  · simp [h]
  · simp [h, Store.find?_erase]

/-! ### messages in flight -/

/-- a fragmented message as the receiver sees it -/
structure FMsg where
  hdr : Frame            -- token / inFace / mark of every frame
  base : Nat             -- sequence number of fragment 0
  parts : List Bytes     -- fragment payloads
  deriving DecidableEq

def FMsg.frameAt (m : FMsg) (k : Nat) : Frame :=
  { m.hdr with seq := some ((m.base + k) % two64), idx := some k, cnt := some m.parts.length,
               frag := m.parts.getD k [] }

def FMsg.frames (m : FMsg) : List Frame := (List.range m.parts.length).map m.frameAt

def FMsg.delivery (m : FMsg) : Delivered := ⟨m.parts.flatten, m.hdr.token, m.hdr.mark⟩

structure FMsg.WF (m : FMsg) : Prop where
  base_lt : m.base < two64
  two_le : 2 ≤ m.parts.length
  small : m.parts.length ≤ maxFragments
  nonempty : ∀ p ∈ m.parts, p ≠ []

/-- slots of the reassembly buffer of `m` after the frames in `seen` have arrived -/
def slotsOf (seen : List Frame) (m : FMsg) : List Bytes :=
  (List.range m.parts.length).map fun k => if m.frameAt k ∈ seen then m.parts.getD k [] else []

def started (seen : List Frame) (m : FMsg) : Bool :=
  (List.range m.parts.length).any fun k => decide (m.frameAt k ∈ seen)

def done (seen : List Frame) (m : FMsg) : Bool :=
  (List.range m.parts.length).all fun k => decide (m.frameAt k ∈ seen)

theorem slotsOf_length (seen : List Frame) (m : FMsg) : (slotsOf seen m).length = m.parts.length := by
  simp [slotsOf]

theorem getD_ne_nil {m : FMsg} (hwf : m.WF) {k : Nat} (hk : k < m.parts.length) : m.parts.getD k [] ≠ [] := by
  rw [List.getD_eq_getElem?_getD, List.getElem?_eq_getElem hk]
  exact hwf.nonempty _ (List.getElem_mem hk)

theorem slotsOf_not_started (seen : List Frame) (m : FMsg) (h : started seen m = false) :
    slotsOf seen m = List.replicate m.parts.length [] := by
  apply List.ext_getElem
  · simp [slotsOf]
  · intro i h1 h2
    simp only [slotsOf, List.getElem_map, List.getElem_range, List.getElem_replicate]
    have hi : i < m.parts.length := by simpa [slotsOf] using h1
    have : ¬ m.frameAt i ∈ seen := by
      intro hmem
      have : started seen m = true := by
        simp only [started, List.any_eq_true, List.mem_range]
        exact ⟨i, hi, by simpa using hmem⟩
      rw [h] at this; exact absurd this (by simp)
    simp [this]

theorem frameAt_idx_inj (m : FMsg) {j k : Nat} (h : m.frameAt j = m.frameAt k) : j = k := by
  have := congrArg Frame.idx h
  simpa [FMsg.frameAt] using this

/-- the slot update of `reassemblePacket` is the slot list for one more arrived frame -/
theorem slotsOf_cons (seen : List Frame) (m : FMsg) (k : Nat) :
    (slotsOf seen m).set k (m.frameAt k).frag = slotsOf (m.frameAt k :: seen) m := by
  apply List.ext_getElem
  · simp [slotsOf]
  · intro i h1 h2
    have hi : i < m.parts.length := by simpa [slotsOf] using h2
    simp only [slotsOf, List.getElem_set, List.getElem_map, List.getElem_range, List.mem_cons]
    by_cases hik : k = i
    · subst hik; simp [FMsg.frameAt]
    · have hne : m.frameAt i ≠ m.frameAt k := fun h => hik (frameAt_idx_inj m h).symm
      simp [hik, hne]

theorem done_iff (seen : List Frame) (m : FMsg) :
    done seen m = true ↔ ∀ k, k < m.parts.length → m.frameAt k ∈ seen := by
  simp [done]

theorem slots_all_iff (seen : List Frame) (m : FMsg) (hwf : m.WF) :
    (slotsOf seen m).all (fun s => s ≠ []) = done seen m := by
  rw [Bool.eq_iff_iff, done_iff]
  simp only [slotsOf, List.all_map, List.all_eq_true, List.mem_range, Function.comp]
  constructor
  · intro h k hk
    have := h k hk
    by_cases hm : m.frameAt k ∈ seen
    · exact hm
    · simp [hm] at this
  · intro h k hk
    have := getD_ne_nil hwf hk
    simp only [h k hk, if_true]
    simpa using this

theorem slots_done_flatten (seen : List Frame) (m : FMsg) (h : done seen m = true) :
    (slotsOf seen m).flatten = m.parts.flatten := by
  have : slotsOf seen m = m.parts := by
    apply List.ext_getElem
    · simp [slotsOf]
    · intro i h1 h2
      simp only [slotsOf, List.getElem_map, List.getElem_range]
      rw [if_pos ((done_iff seen m).mp h i h2)]
      rw [List.getD_eq_getElem?_getD, List.getElem?_eq_getElem h2]; rfl
  rw [this]

/-! ### one arrival -/

/-- the store holds exactly the partially received messages -/
def StoreInv (msgs : List FMsg) (seen : List Frame) (store : Store) : Prop :=
  (∀ m ∈ msgs, store.find? m.base =
      if started seen m = true ∧ done seen m = false then some (slotsOf seen m) else none) ∧
  (∀ b, (∀ m ∈ msgs, m.base ≠ b) → store.find? b = none)

theorem base_recover (base k : Nat) (hb : base < two64) (hk : k < two64) :
    ((base + k) % two64 + two64 - k % two64) % two64 = base := by
  unfold two64 at *
  omega

/-- frames of messages with different base sequence numbers are different -/
theorem frameAt_ne_of_base_ne (m m' : FMsg) (hm : m.WF) (hm' : m'.WF) (hb : m.base ≠ m'.base)
    (j k : Nat) : m'.frameAt j ≠ m.frameAt k := by
  intro h
  have hi := congrArg Frame.idx h
  have hs := congrArg Frame.seq h
  simp [FMsg.frameAt] at hi hs
  subst hi
  have := hm.base_lt
  have := hm'.base_lt
  have := hm'.small
  have hmf : maxFragments = 400 := by decide
  unfold two64 at *
  omega

theorem slotsOf_other (seen : List Frame) (m m' : FMsg) (hm : m.WF) (hm' : m'.WF) (hb : m.base ≠ m'.base)
    (k : Nat) : slotsOf (m.frameAt k :: seen) m' = slotsOf seen m' := by
  apply List.ext_getElem
  · simp [slotsOf]
  · intro i h1 h2
    simp only [slotsOf, List.getElem_map, List.getElem_range, List.mem_cons]
    simp [frameAt_ne_of_base_ne m m' hm hm' hb i k]

theorem started_other (seen : List Frame) (m m' : FMsg) (hm : m.WF) (hm' : m'.WF) (hb : m.base ≠ m'.base)
    (k : Nat) : started (m.frameAt k :: seen) m' = started seen m' := by
  simp only [started]
  apply List.any_congr rfl
  intro i
  simp [frameAt_ne_of_base_ne m m' hm hm' hb i k]

theorem done_other (seen : List Frame) (m m' : FMsg) (hm : m.WF) (hm' : m'.WF) (hb : m.base ≠ m'.base)
    (k : Nat) : done (m.frameAt k :: seen) m' = done seen m' := by
  simp only [done]
  apply List.all_congr rfl
  intro i
  simp [frameAt_ne_of_base_ne m m' hm hm' hb i k]

/-- a frame without Sequence does not belong to any fragmented message -/
theorem frameAt_ne_single (m : FMsg) (k : Nat) (s : Frame) (hs : s.seq = none) : m.frameAt k ≠ s := by
  intro h
  have := congrArg Frame.seq h
  simp [FMsg.frameAt, hs] at this

theorem slotsOf_single (seen : List Frame) (m : FMsg) (s : Frame) (hs : s.seq = none) :
    slotsOf (s :: seen) m = slotsOf seen m := by
  simp only [slotsOf, List.mem_cons]
  apply List.map_congr_left
  intro k _
  simp [frameAt_ne_single m k s hs]

theorem started_single (seen : List Frame) (m : FMsg) (s : Frame) (hs : s.seq = none) :
    started (s :: seen) m = started seen m := by
  simp only [started, List.mem_cons]
  apply List.any_congr rfl
  intro k
  simp [frameAt_ne_single m k s hs]

theorem done_single (seen : List Frame) (m : FMsg) (s : Frame) (hs : s.seq = none) :
    done (s :: seen) m = done seen m := by
  simp only [done, List.mem_cons]
  apply List.all_congr rfl
  intro k
  simp [frameAt_ne_single m k s hs]

def BasesDistinct (msgs : List FMsg) : Prop :=
  ∀ m ∈ msgs, ∀ m' ∈ msgs, m.base = m'.base → m = m'

theorem started_cons_self (seen : List Frame) (m : FMsg) (k : Nat) (hk : k < m.parts.length) :
    started (m.frameAt k :: seen) m = true := by
  simp only [started, List.any_eq_true, List.mem_range]
  exact ⟨k, hk, by simp⟩

theorem not_done_of_new (seen : List Frame) (m : FMsg) (k : Nat) (hk : k < m.parts.length)
    (hnew : m.frameAt k ∉ seen) : done seen m = false := by
  cases h : done seen m with
  | false => rfl
  | true => exact absurd ((done_iff seen m).mp h k hk) hnew

/-- what `reassemble` does with a new fragment of a message in flight -/
theorem reassemble_frag (msgs : List FMsg) (seen : List Frame) (store : Store)
    (hinv : StoreInv msgs seen store) (m : FMsg) (hm : m ∈ msgs) (hwf : m.WF) (k : Nat)
    (hk : k < m.parts.length) (hnew : m.frameAt k ∉ seen) :
    reassemble store (m.frameAt k) m.base k m.parts.length =
      if done (m.frameAt k :: seen) m = true
      then (store.erase m.base, some m.parts.flatten)
      else (store.set m.base (slotsOf (m.frameAt k :: seen) m), none) := by
  have hnd := not_done_of_new seen m k hk hnew
  have hfind := hinv.1 m hm
  rw [hnd] at hfind
  -- the slots before this arrival
  have hslots : slotsFor store m.base m.parts.length = some (slotsOf seen m) := by
    unfold slotsFor
    cases hs : started seen m with
    | true => rw [hfind, hs]; simp [slotsOf_length]
    | false =>
      rw [hfind, hs]
      simp [slotsOf_not_started seen m hs]
  have hguard : ¬ (m.parts.length = 0 ∨ m.parts.length > maxFragments ∨ k ≥ m.parts.length) := by
    have := hwf.small; have := hwf.two_le; omega
  unfold reassemble
  rw [if_neg hguard, hslots]
  dsimp only
  have hset := slotsOf_cons seen m k
  simp only [hset, slots_all_iff _ m hwf]
  by_cases hd : done (m.frameAt k :: seen) m = true
  · simp [hd, slots_done_flatten _ m hd]
  · simp [hd]

/-- one arriving fragment of a message in flight -/
theorem handleLp_frag (msgs : List FMsg) (hwf : ∀ m ∈ msgs, m.WF) (hdist : BasesDistinct msgs)
    (validL3 : Bytes → Bool) (hvalid : ∀ m ∈ msgs, validL3 m.parts.flatten = true)
    (seen : List Frame) (store : Store) (hinv : StoreInv msgs seen store)
    (m : FMsg) (hm : m ∈ msgs) (k : Nat) (hk : k < m.parts.length) (hnew : m.frameAt k ∉ seen) :
    StoreInv msgs (m.frameAt k :: seen) (handleLp true validL3 store (m.frameAt k)).1 ∧
    (handleLp true validL3 store (m.frameAt k)).2 =
      if done (m.frameAt k :: seen) m = true then RxOut.deliver m.delivery else RxOut.drop := by
  have hmwf := hwf m hm
  have hfrag : ¬ (m.frameAt k).frag = [] := getD_ne_nil hmwf hk
  have hk64 : k < two64 := by
    have := hmwf.small
    have hmf : maxFragments = 400 := by decide
    unfold two64 at *; omega
  have hbase : ((m.frameAt k).seq.getD 0 + two64 - (m.frameAt k).idx.getD 0 % two64) % two64 = m.base := by
    simp only [FMsg.frameAt, Option.getD_some]
    exact base_recover m.base k hmwf.base_lt hk64
  have hbyp : ¬ ((m.frameAt k).idx.getD 0 = 0 ∧ (m.frameAt k).cnt.getD 1 = 1) := by
    have := hmwf.two_le
    simp [FMsg.frameAt]; omega
  have hre := reassemble_frag msgs seen store hinv m hm hmwf k hk hnew
  have hidx : (m.frameAt k).idx.getD 0 = k := by simp [FMsg.frameAt]
  have hcnt : (m.frameAt k).cnt.getD 1 = m.parts.length := by simp [FMsg.frameAt]
  have hseq : (m.frameAt k).seq.isSome = true := by simp [FMsg.frameAt]
  have hstep : handleLp true validL3 store (m.frameAt k) =
      if done (m.frameAt k :: seen) m = true
      then (store.erase m.base, RxOut.deliver m.delivery)
      else (store.set m.base (slotsOf (m.frameAt k :: seen) m), RxOut.drop) := by
    unfold handleLp
    rw [if_neg hfrag]
    dsimp only
    rw [if_pos ⟨rfl, hseq⟩, if_neg hbyp, hbase, hidx, hcnt, hre]
    by_cases hd : done (m.frameAt k :: seen) m = true
    · simp only [hd, if_true, hvalid m hm]
      simp [FMsg.delivery, FMsg.frameAt]
    · simp only [hd]
      simp
  have hstart := started_cons_self seen m k hk
  rw [hstep]
  refine ⟨?_, ?_⟩
  · constructor
    · intro m' hm'
      by_cases hb : m.base = m'.base
      · have := hdist m hm m' hm' hb
        subst this
        by_cases hd : done (m.frameAt k :: seen) m = true
        · simp [hd, Store.find?_erase]
        · simp [hd, Store.find?_set, hstart]
      · have hother := hinv.1 m' hm'
        rw [slotsOf_other seen m m' hmwf (hwf m' hm') hb k, started_other seen m m' hmwf (hwf m' hm') hb k,
          done_other seen m m' hmwf (hwf m' hm') hb k]
        cases hd : done (m.frameAt k :: seen) m with
        | true => simp only [if_true, Store.find?_erase, if_neg hb]; exact hother
        | false => simp only [Bool.false_eq_true, if_false, Store.find?_set, if_neg hb]; exact hother
    · intro b hb
      have hne : m.base ≠ b := hb m hm
      have := hinv.2 b hb
      cases hd : done (m.frameAt k :: seen) m with
      | true => simp only [if_true, Store.find?_erase, if_neg hne]; exact this
      | false => simp only [Bool.false_eq_true, if_false, Store.find?_set, if_neg hne]; exact this
  · by_cases hd : done (m.frameAt k :: seen) m = true
    · simp [hd]
    · simp [hd]

/-- an unfragmented LpPacket (no Sequence / FragIndex / FragCount) is delivered at once and leaves
    the store alone -/
theorem handleLp_single (msgs : List FMsg) (validL3 : Bytes → Bool) (seen : List Frame) (store : Store)
    (hinv : StoreInv msgs seen store) (s : Frame) (hseq : s.seq = none) (hidx : s.idx = none)
    (hcnt : s.cnt = none) (hfrag : s.frag ≠ []) (hvalid : validL3 s.frag = true) :
    StoreInv msgs (s :: seen) (handleLp true validL3 store s).1 ∧
    (handleLp true validL3 store s).2 = RxOut.deliver ⟨s.frag, s.token, s.mark⟩ := by
  have hstep : handleLp true validL3 store s = (store, RxOut.deliver ⟨s.frag, s.token, s.mark⟩) := by
    unfold handleLp
    rw [if_neg hfrag]
    dsimp only
    simp [hseq, hidx, hcnt, hvalid]
  rw [hstep]
  refine ⟨⟨?_, hinv.2⟩, rfl⟩
  intro m hm
  rw [slotsOf_single seen m s hseq, started_single seen m s hseq, done_single seen m s hseq]
  exact hinv.1 m hm

/-! ### a whole arrival sequence -/

def isFragFrame (f : Frame) : Bool := f.seq.isSome
def singleDelivery (s : Frame) : Delivered := ⟨s.frag, s.token, s.mark⟩

def deliveries : List RxOut → List Delivered
  | [] => []
  | .deliver d :: r => d :: deliveries r
  | .drop :: r => deliveries r

/-- an arriving frame: a fragment of one of the messages in flight, or a valid unfragmented frame -/
def Arrival (msgs : List FMsg) (validL3 : Bytes → Bool) (f : Frame) : Prop :=
  (∃ m ∈ msgs, ∃ k, k < m.parts.length ∧ f = m.frameAt k) ∨
  (f.seq = none ∧ f.idx = none ∧ f.cnt = none ∧ f.frag ≠ [] ∧ validL3 f.frag = true)

/-- turning one predicate value from false to true adds exactly that element to the filter -/
theorem filter_flip {α : Type} [DecidableEq α] : ∀ (l : List α) (m : α) (q q' : α → Bool),
    l.Nodup → m ∈ l → (∀ x ∈ l, x ≠ m → q' x = q x) → q m = false → q' m = true →
    (l.filter q').Perm (m :: l.filter q) := by
  intro l
  induction l with
  | nil => intro m q q' _ hm; simp at hm
  | cons x l ih =>
    intro m q q' hnd hm hsame hq hq'
    have hnd' := (List.nodup_cons.mp hnd)
    by_cases hx : x = m
    · subst hx
      have hcongr : l.filter q' = l.filter q := by
        apply List.filter_congr
        intro y hy
        exact hsame y (by simp [hy]) (fun h => hnd'.1 (h ▸ hy))
      simp [List.filter, hq, hq', hcongr]
    · have hml : m ∈ l := by
        rcases List.mem_cons.mp hm with h | h
        · exact absurd h.symm hx
        · exact h
      have ih' := ih m q q' hnd'.2 hml (fun y hy hne => hsame y (by simp [hy]) hne) hq hq'
      have hxq : q' x = q x := hsame x (by simp) hx
      cases hqx : q x with
      | true =>
        simp only [List.filter, hxq, hqx]
        exact (List.Perm.cons x ih').trans (List.Perm.swap m x _)
      | false =>
        simp only [List.filter, hxq, hqx]
        exact ih'

theorem nodup_of_bases : ∀ {msgs : List FMsg}, (msgs.map FMsg.base).Nodup → msgs.Nodup := by
  intro msgs
  induction msgs with
  | nil => intro _; exact List.nodup_nil
  | cons x l ih =>
    intro h
    simp only [List.map_cons, List.nodup_cons] at h ⊢
    exact ⟨fun hx => h.1 (List.mem_map.mpr ⟨x, hx, rfl⟩), ih h.2⟩

theorem distinct_of_bases : ∀ {msgs : List FMsg}, (msgs.map FMsg.base).Nodup → BasesDistinct msgs := by
  intro msgs
  induction msgs with
  | nil => intro _ m hm; simp at hm
  | cons x l ih =>
    intro h m hm m' hm' hb
    simp only [List.map_cons, List.nodup_cons] at h
    rcases List.mem_cons.mp hm with rfl | hm1
    · rcases List.mem_cons.mp hm' with rfl | hm2
      · rfl
      · exact absurd (List.mem_map.mpr ⟨m', hm2, hb.symm⟩) h.1
    · rcases List.mem_cons.mp hm' with rfl | hm2
      · exact absurd (List.mem_map.mpr ⟨m, hm1, hb⟩) h.1
      · exact ih h.2 m hm1 m' hm2 hb

theorem rxRunF_inv (msgs : List FMsg) (hwf : ∀ m ∈ msgs, m.WF) (hbases : (msgs.map FMsg.base).Nodup)
    (validL3 : Bytes → Bool) (hvalid : ∀ m ∈ msgs, validL3 m.parts.flatten = true) :
    ∀ (arr seen : List Frame) (store : Store) (D S : List Delivered),
      StoreInv msgs seen store →
      (∀ f ∈ arr, Arrival msgs validL3 f) →
      (arr.filter isFragFrame).Nodup → (∀ f ∈ arr, isFragFrame f = true → f ∉ seen) →
      D.Perm ((msgs.filter (done seen)).map FMsg.delivery ++ S) →
      StoreInv msgs (arr.reverse ++ seen) (rxRunF true validL3 store arr).1 ∧
      (D ++ deliveries (rxRunF true validL3 store arr).2).Perm
        ((msgs.filter (done (arr.reverse ++ seen))).map FMsg.delivery ++
          (S ++ (arr.filter (fun f => !isFragFrame f)).map singleDelivery)) := by
  have hdist := distinct_of_bases hbases
  have hnodup := nodup_of_bases hbases
  intro arr
  induction arr with
  | nil =>
    intro seen store D S hinv _ _ _ hD
    simp [rxRunF, deliveries]
    exact ⟨hinv, hD⟩
  | cons f rest ih =>
    intro seen store D S hinv harr hnd hnew hD
    have hrestarr : ∀ g ∈ rest, Arrival msgs validL3 g := fun g hg => harr g (by simp [hg])
    rcases harr f (by simp) with ⟨m, hm, k, hk, rfl⟩ | ⟨hseq, hidx, hcnt, hfrag, hval⟩
    · -- a fragment of message m
      have hisfrag : isFragFrame (m.frameAt k) = true := by simp [isFragFrame, FMsg.frameAt]
      have hfnew : m.frameAt k ∉ seen := hnew _ (by simp) hisfrag
      obtain ⟨hinv', hout⟩ := handleLp_frag msgs hwf hdist validL3 hvalid seen store hinv m hm k hk hfnew
      have hnd' : (rest.filter isFragFrame).Nodup ∧ m.frameAt k ∉ rest.filter isFragFrame := by
        simp only [List.filter, hisfrag] at hnd
        exact ⟨(List.nodup_cons.mp hnd).2, (List.nodup_cons.mp hnd).1⟩
      have hnew' : ∀ g ∈ rest, isFragFrame g = true → g ∉ m.frameAt k :: seen := by
        intro g hg hgf hmem
        rcases List.mem_cons.mp hmem with h | h
        · exact hnd'.2 (by rw [← h]; exact List.mem_filter.mpr ⟨hg, hgf⟩)
        · exact hnew g (by simp [hg]) hgf h
      have hndm := not_done_of_new seen m k hk hfnew
      -- deliveries so far, after this arrival
      have hD' : (D ++ deliveries [(handleLp true validL3 store (m.frameAt k)).2]).Perm
          ((msgs.filter (done (m.frameAt k :: seen))).map FMsg.delivery ++ S) := by
        rw [hout]
        cases hd : done (m.frameAt k :: seen) m with
        | true =>
          have hflip := filter_flip msgs m (done seen) (done (m.frameAt k :: seen)) hnodup hm
            (by
              intro m' hm' hne
              have hb : m.base ≠ m'.base := fun hb => hne (hdist m hm m' hm' hb).symm
              exact done_other seen m m' (hwf m hm) (hwf m' hm') hb k)
            hndm hd
          simp only [if_true, deliveries]
          have h1 : (D ++ [m.delivery]).Perm (m.delivery :: D) := List.perm_append_singleton _ _
          have h2 : (m.delivery :: D).Perm
              (m.delivery :: ((msgs.filter (done seen)).map FMsg.delivery ++ S)) := List.Perm.cons _ hD
          have h3 : ((msgs.filter (done (m.frameAt k :: seen))).map FMsg.delivery ++ S).Perm
              (m.delivery :: ((msgs.filter (done seen)).map FMsg.delivery ++ S)) := by
            have := (hflip.map FMsg.delivery).append_right S
            simpa using this
          exact (h1.trans h2).trans h3.symm
        | false =>
          have hcongr : msgs.filter (done (m.frameAt k :: seen)) = msgs.filter (done seen) := by
            apply List.filter_congr
            intro m' hm'
            by_cases hb : m.base = m'.base
            · have := hdist m hm m' hm' hb
              subst this; rw [hd, hndm]
            · exact done_other seen m m' (hwf m hm) (hwf m' hm') hb k
          simp only [Bool.false_eq_true, if_false, deliveries, List.append_nil, hcongr]
          exact hD
      obtain ⟨hI, hP⟩ := ih (m.frameAt k :: seen) _ _ S hinv' hrestarr hnd'.1 hnew' hD'
      refine ⟨by simpa [rxRunF] using hI, ?_⟩
      have hdl : deliveries (rxRunF true validL3 store (m.frameAt k :: rest)).2 =
          deliveries [(handleLp true validL3 store (m.frameAt k)).2] ++
            deliveries (rxRunF true validL3 (handleLp true validL3 store (m.frameAt k)).1 rest).2 := by
        simp only [rxRunF]
        cases (handleLp true validL3 store (m.frameAt k)).2 <;> simp [deliveries]
      rw [hdl, ← List.append_assoc]
      simpa [List.filter, hisfrag] using hP
    · -- an unfragmented frame
      have hnotfrag : isFragFrame f = false := by simp [isFragFrame, hseq]
      obtain ⟨hinv', hout⟩ := handleLp_single msgs validL3 seen store hinv f hseq hidx hcnt hfrag hval
      have hnd' : (rest.filter isFragFrame).Nodup := by
        simpa [List.filter, hnotfrag] using hnd
      have hnew' : ∀ g ∈ rest, isFragFrame g = true → g ∉ f :: seen := by
        intro g hg hgf hmem
        rcases List.mem_cons.mp hmem with h | h
        · rw [h, hnotfrag] at hgf; exact absurd hgf (by simp)
        · exact hnew g (by simp [hg]) hgf h
      have hcongr : msgs.filter (done (f :: seen)) = msgs.filter (done seen) := by
        apply List.filter_congr
        intro m' _
        exact done_single seen m' f hseq
      have hD' : (D ++ [singleDelivery f]).Perm
          ((msgs.filter (done (f :: seen))).map FMsg.delivery ++ (S ++ [singleDelivery f])) := by
        rw [hcongr, ← List.append_assoc]
        exact hD.append_right _
      obtain ⟨hI, hP⟩ := ih (f :: seen) _ _ (S ++ [singleDelivery f]) hinv' hrestarr hnd' hnew' hD'
      refine ⟨by simpa [rxRunF] using hI, ?_⟩
      have hdl : deliveries (rxRunF true validL3 store (f :: rest)).2 =
          singleDelivery f :: deliveries (rxRunF true validL3 (handleLp true validL3 store f).1 rest).2 := by
        simp only [rxRunF, hout, deliveries, singleDelivery]
      rw [hdl]
      simpa [List.filter, hnotfrag, List.append_assoc] using hP

/-! ### all frames of a set of messages with distinct base sequence numbers are distinct -/

theorem frames_nodup (m : FMsg) : m.frames.Nodup := by
  have : ∀ l : List Nat, l.Nodup → (l.map m.frameAt).Nodup := by
    intro l
    induction l with
    | nil => intro _; exact List.nodup_nil
    | cons x l ih =>
      intro h
      simp only [List.map_cons, List.nodup_cons] at h ⊢
      refine ⟨?_, ih h.2⟩
      intro hx
      obtain ⟨y, hy, hxy⟩ := List.mem_map.mp hx
      have := frameAt_idx_inj m hxy
      subst this
      exact h.1 hy
  exact this _ List.nodup_range

theorem mem_frames {m : FMsg} {f : Frame} : f ∈ m.frames ↔ ∃ k, k < m.parts.length ∧ f = m.frameAt k := by
  simp only [FMsg.frames, List.mem_map, List.mem_range]
  constructor
  · rintro ⟨k, hk, rfl⟩; exact ⟨k, hk, rfl⟩
  · rintro ⟨k, hk, rfl⟩; exact ⟨k, hk, rfl⟩

theorem allFrames_nodup : ∀ (msgs : List FMsg), (∀ m ∈ msgs, m.WF) → (msgs.map FMsg.base).Nodup →
    (msgs.flatMap FMsg.frames).Nodup := by
  intro msgs
  induction msgs with
  | nil => intro _ _; simp
  | cons m ms ih =>
    intro hwf hb
    simp only [List.map_cons, List.nodup_cons] at hb
    simp only [List.flatMap_cons]
    rw [List.nodup_append]
    refine ⟨frames_nodup m, ih (fun x hx => hwf x (by simp [hx])) hb.2, ?_⟩
    intro a ha b hbm hab
    obtain ⟨k, hk, rfl⟩ := mem_frames.mp ha
    obtain ⟨m', hm', hb'⟩ := List.mem_flatMap.mp hbm
    obtain ⟨j, hj, rfl⟩ := mem_frames.mp hb'
    have hne : m.base ≠ m'.base := fun h => hb.1 (List.mem_map.mpr ⟨m', hm', h.symm⟩)
    exact frameAt_ne_of_base_ne m m' (hwf m (by simp)) (hwf m' (by simp [hm'])) hne j k hab.symm

theorem isFrag_frameAt (m : FMsg) (k : Nat) : isFragFrame (m.frameAt k) = true := by
  simp [isFragFrame, FMsg.frameAt]

end Ndn.C10
