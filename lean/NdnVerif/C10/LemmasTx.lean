/-
  C10 helper lemmas, send side (no property statements here).
-/
import NdnVerif.C10.Model
import NdnVerif.C10.Spec
namespace Ndn.C10
open Ndn.Gen.C10 (lpPacketOverhead fragmentOverhead sequenceOverhead fragIndexCountOverhead
  incomingFaceIdOverhead congestionMarkOverhead)

/-! ### number widths -/

theorem tlLen_pos (x : Nat) : 1 ≤ tlLen x := by
  unfold tlLen; repeat' split
  all_goals omega

theorem tlLen_le3 {x : Nat} (h : x ≤ 65535) : tlLen x ≤ 3 := by
  unfold tlLen; repeat' split
  all_goals omega

theorem tlLen_mono {a b : Nat} (hab : a ≤ b) : tlLen a ≤ tlLen b := by
  unfold tlLen; repeat' split
  all_goals omega

theorem tlLen_small {x : Nat} (h : x ≤ 252) : tlLen x = 1 := by
  unfold tlLen; simp [h]

theorem natLen_le8 (x : Nat) : natLen x ≤ 8 := by
  unfold natLen; repeat' split
  all_goals omega

theorem natLen_pos (x : Nat) : 1 ≤ natLen x := by
  unfold natLen; repeat' split
  all_goals omega

theorem natLen_le2 {x : Nat} (h : x ≤ 65535) : natLen x ≤ 2 := by
  unfold natLen; repeat' split
  all_goals omega

/-! ### chunks -/

theorem chunks_flatten (e : Nat) : ∀ (n : Nat) (w : Bytes), w.length ≤ n → (chunks e w).flatten = w := by
  intro n
  induction n with
  | zero => intro w h; rw [chunks]; simp at h; simp [h]
  | succ n ih =>
    intro w h
    rw [chunks]
    split
    · simp
    · rename_i hc
      have : (w.drop e).length ≤ n := by simp; omega
      simp [ih _ this]

theorem chunks_mem_le (e : Nat) (he : 1 ≤ e) : ∀ (n : Nat) (w : Bytes), w.length ≤ n →
    ∀ p ∈ chunks e w, p.length ≤ e := by
  intro n
  induction n with
  | zero => intro w h p hp; rw [chunks] at hp; simp at h; simp [h] at hp; simp [hp]
  | succ n ih =>
    intro w h p hp
    rw [chunks] at hp
    split at hp
    · rename_i hc; simp at hp; subst hp; omega
    · rename_i hc
      simp at hp
      rcases hp with rfl | hp
      · simp; omega
      · exact ih (w.drop e) (by simp; omega) p hp

theorem chunks_mem_ne_nil (e : Nat) (he : 1 ≤ e) : ∀ (n : Nat) (w : Bytes), w.length ≤ n → w ≠ [] →
    ∀ p ∈ chunks e w, p ≠ [] := by
  intro n
  induction n with
  | zero => intro w h hw; simp at h; exact absurd h hw
  | succ n ih =>
    intro w h hw p hp
    rw [chunks] at hp
    split at hp
    · simp at hp; subst hp; exact hw
    · rename_i hc
      simp at hp
      have hpos : 0 < w.length := List.length_pos_iff.mpr hw
      rcases hp with rfl | hp
      · intro h0
        have : (w.take e).length = 0 := by rw [h0]; rfl
        rw [List.length_take] at this; omega
      · refine ih (w.drop e) (by simp; omega) ?_ p hp
        intro h0
        have : (w.drop e).length = 0 := by rw [h0]; rfl
        simp at this; omega

theorem chunks_length_le (e : Nat) (he : 1 ≤ e) : ∀ (n : Nat) (w : Bytes), w.length ≤ n → w ≠ [] →
    (chunks e w).length ≤ w.length := by
  intro n
  induction n with
  | zero => intro w h hw; simp at h; exact absurd h hw
  | succ n ih =>
    intro w h hw
    have hpos : 0 < w.length := List.length_pos_iff.mpr hw
    rw [chunks]
    split
    · simp; omega
    · rename_i hc
      have hne : w.drop e ≠ [] := by
        intro h0
        have : (w.drop e).length = 0 := by rw [h0]; rfl
        simp at this; omega
      have := ih (w.drop e) (by simp; omega) hne
      simp at this ⊢; omega

theorem chunks_length_le' (e : Nat) : ∀ (n : Nat) (w : Bytes), w.length ≤ n →
    (chunks e w).length ≤ w.length + 1 := by
  intro n
  induction n with
  | zero => intro w h; rw [chunks]; simp at h; simp [h]
  | succ n ih =>
    intro w h
    rw [chunks]
    split
    · simp
    · rename_i hc
      have := ih (w.drop e) (by simp; omega)
      simp at this ⊢; omega

theorem chunks_mem_le_len (e : Nat) : ∀ (n : Nat) (w : Bytes), w.length ≤ n →
    ∀ p ∈ chunks e w, p.length ≤ w.length := by
  intro n
  induction n with
  | zero => intro w h p hp; rw [chunks] at hp; simp at h; simp [h] at hp; simp [hp]
  | succ n ih =>
    intro w h p hp
    rw [chunks] at hp
    split at hp
    · simp at hp; subst hp; omega
    · rename_i hc
      simp at hp
      rcases hp with rfl | hp
      · simp; omega
      · have := ih (w.drop e) (by simp; omega) p hp
        simp at this; omega

theorem chunks_length_ge2 (e : Nat) (he : 1 ≤ e) (w : Bytes) (h : e < w.length) :
    2 ≤ (chunks e w).length := by
  rw [chunks]
  have : ¬ (e = 0 ∨ w.length ≤ e) := by omega
  simp only [this, dite_false, List.length_cons]
  have : 1 ≤ (chunks e (w.drop e)).length := by
    rw [chunks]; split <;> simp
  omega

/-! ### numberFrom -/

theorem numberFrom_length (h : Frame) (n : Nat) : ∀ (ps : List Bytes) (s i : Nat),
    (numberFrom h n s i ps).length = ps.length := by
  intro ps
  induction ps with
  | nil => intro s i; simp [numberFrom]
  | cons p ps ih => intro s i; simp [numberFrom, ih]

theorem numberFrom_mem (h : Frame) (n : Nat) : ∀ (ps : List Bytes) (s i : Nat) (f : Frame),
    f ∈ numberFrom h n s i ps →
    ∃ k part, ps[k]? = some part ∧
      f = { h with seq := some ((s + k) % two64), idx := some (i + k), cnt := some n, frag := part } := by
  intro ps
  induction ps with
  | nil => intro s i f hf; simp [numberFrom] at hf
  | cons p ps ih =>
    intro s i f hf
    simp only [numberFrom, List.mem_cons] at hf
    rcases hf with rfl | hf
    · exact ⟨0, p, by simp, by simp⟩
    · obtain ⟨k, part, hk, rfl⟩ := ih (s + 1) (i + 1) f hf
      refine ⟨k + 1, part, by simpa using hk, ?_⟩
      simp [Nat.add_assoc, Nat.add_comm 1 k]

/-! ### encoded length -/

theorem tl_lp : tlLen ttLpPacket = 1 := by decide
theorem tl_frag : tlLen ttFragment = 1 := by decide
theorem tl_seq : tlLen ttSequence = 1 := by decide
theorem tl_idx : tlLen ttFragIndex = 1 := by decide
theorem tl_cnt : tlLen ttFragCount = 1 := by decide
theorem tl_tok : tlLen ttPitToken = 1 := by decide
theorem tl_face : tlLen ttIncomingFaceId = 3 := by decide
theorem tl_mark : tlLen ttCongestionMark = 3 := by decide
theorem tl_8 : tlLen 8 = 1 := by decide

def tokLen (t : Bytes) : Nat := if t = [] then 0 else 1 + tlLen t.length + t.length
def optNatLen (t : Nat) : Option Nat → Nat
  | none => 0
  | some v => tlLen t + 1 + natLen v

/-- length of the TLV-VALUE of the LpPacket -/
def innerLen (f : Frame) : Nat :=
  (if f.seq.isSome then 10 else 0) + optNatLen ttFragIndex f.idx + optNatLen ttFragCount f.cnt +
  tokLen f.token + optNatLen ttIncomingFaceId f.inFace + optNatLen ttCongestionMark f.mark +
  (1 + tlLen f.frag.length + f.frag.length)

@[simp] theorem optNatLen_some (t v : Nat) : optNatLen t (some v) = tlLen t + 1 + natLen v := rfl
@[simp] theorem optNatLen_none (t : Nat) : optNatLen t none = 0 := rfl

theorem natLen_tl (v : Nat) : tlLen (natLen v) = 1 := by
  have := natLen_le8 v
  exact tlLen_small (by omega)

theorem optNat_length (t : Nat) (o : Option Nat) : (optNat t o).length = optNatLen t o := by
  cases o with
  | none => simp [optNat, optNatLen]
  | some v => simp [optNat, optNatLen, tlv, encTL_length, encNat_length, natLen_tl]; omega

theorem encInner_length (f : Frame) : (encInner f).length = innerLen f := by
  unfold encInner innerLen
  simp only [List.length_append, optNat_length]
  have h1 : (optFixed8 ttSequence f.seq).length = if f.seq.isSome then 10 else 0 := by
    cases f.seq <;> simp [optFixed8, tlv, encTL_length, tl_seq, tl_8]
  have h2 : (if f.token = [] then [] else tlv ttPitToken f.token).length = tokLen f.token := by
    unfold tokLen
    split
    · simp
    · simp [tlv, encTL_length, tl_tok]; omega
  have h3 : (tlv ttFragment f.frag).length = 1 + tlLen f.frag.length + f.frag.length := by
    simp [tlv, encTL_length, tl_frag]; omega
  rw [h1, h2, h3]

theorem encFrame_length (f : Frame) : (encFrame f).length = 1 + tlLen (innerLen f) + innerLen f := by
  simp [encFrame, tlv, encTL_length, encInner_length, tl_lp]; omega

theorem tokLen_le {t : Bytes} (h : t.length ≤ 32) : tokLen t ≤ 34 := by
  unfold tokLen
  split
  · omega
  · have := tlLen_small (x := t.length) (by omega); omega

/-- a numbered fragment frame is no longer than the worst-case overhead plus its payload -/
theorem fragFrame_length_le (h : Frame) (s i n : Nat) (part : Bytes)
    (hi : i ≤ 65535) (hn : n ≤ 65535) (hp : part.length ≤ 8800) (htok : h.token.length ≤ 32) :
    (encFrame { h with seq := some s, idx := some i, cnt := some n, frag := part }).length
      ≤ overheadOf h + part.length := by
  rw [encFrame_length]
  have hti := natLen_le2 hi
  have htn := natLen_le2 hn
  have htk := tokLen_le htok
  have hfl := tlLen_le3 (x := part.length) (by omega)
  have hfa : optNatLen ttIncomingFaceId h.inFace ≤ (if h.inFace.isSome then 12 else 0) := by
    cases h.inFace with
    | none => simp [optNatLen]
    | some v => have := natLen_le8 v; simp [optNatLen, tl_face]; omega
  have hma : optNatLen ttCongestionMark h.mark ≤ (if h.mark.isSome then 12 else 0) := by
    cases h.mark with
    | none => simp [optNatLen]
    | some v => have := natLen_le8 v; simp [optNatLen, tl_mark]; omega
  have hinner : innerLen { h with seq := some s, idx := some i, cnt := some n, frag := part }
      ≤ 10 + 4 + 4 + tokLen h.token + (if h.inFace.isSome then 12 else 0) + (if h.mark.isSome then 12 else 0)
        + 4 + part.length := by
    simp only [innerLen, optNatLen_some, tl_idx, tl_cnt, Option.isSome_some, if_true]
    omega
  have hsmall : innerLen { h with seq := some s, idx := some i, cnt := some n, frag := part } ≤ 65535 := by
    have a : (if h.inFace.isSome then 12 else 0) ≤ 12 := by split <;> omega
    have b : (if h.mark.isSome then 12 else 0) ≤ 12 := by split <;> omega
    omega
  have := tlLen_le3 hsmall
  have hov : overheadOf h = 4 + 4 + 10 + 8 + tokLen h.token + (if h.inFace.isSome then 12 else 0)
      + (if h.mark.isSome then 12 else 0) := by
    simp [overheadOf, tokLen, lpPacketOverhead, fragmentOverhead, sequenceOverhead, fragIndexCountOverhead,
      incomingFaceIdOverhead, congestionMarkOverhead]
  omega

/-- the unfragmented frame is never longer than the worst-case overhead plus the packet -/
theorem wholeFrame_length_le (h : Frame) (hs : h.seq = none) (hi : h.idx = none) (hc : h.cnt = none)
    (w : Bytes) (hw : w.length ≤ 8800) (htok : h.token.length ≤ 32) :
    (encFrame { h with frag := w }).length ≤ overheadOf h + w.length := by
  have hfr := fragFrame_length_le h 0 0 0 w (by omega) (by omega) hw htok
  have hin : innerLen { h with frag := w }
      ≤ innerLen { h with seq := some 0, idx := some 0, cnt := some 0, frag := w } := by
    simp only [innerLen, hs, hi, hc, optNatLen_none, optNatLen_some, Option.isSome_some, Option.isSome_none]
    simp
  have hm := tlLen_mono hin
  rw [encFrame_length] at hfr ⊢
  omega

theorem overheadOf_le {h : Frame} (htok : h.token.length ≤ 32) : overheadOf h ≤ 84 := by
  have htk := tokLen_le htok
  have a : (if h.inFace.isSome then 12 else 0) ≤ 12 := by split <;> omega
  have b : (if h.mark.isSome then 12 else 0) ≤ 12 := by split <;> omega
  have hov : overheadOf h = 4 + 4 + 10 + 8 + tokLen h.token + (if h.inFace.isSome then 12 else 0)
      + (if h.mark.isSome then 12 else 0) := by
    simp [overheadOf, tokLen, lpPacketOverhead, fragmentOverhead, sequenceOverhead, fragIndexCountOverhead,
      incomingFaceIdOverhead, congestionMarkOverhead]
  omega

theorem numberFrom_frags (h : Frame) (n : Nat) : ∀ (ps : List Bytes) (s i : Nat),
    (numberFrom h n s i ps).map (·.frag) = ps := by
  intro ps
  induction ps with
  | nil => intro s i; simp [numberFrom]
  | cons p ps ih => intro s i; simp [numberFrom, ih]

/-! ### the branches of `sendPacketF` -/

/-- what the specification calls the sent message: the packet, the token, the mark the link
    attaches (the upstream mark, or the link's own when it detects congestion) and the incoming
    face id when indication is enabled -/
def sentOf (cfg : TxCfg) (st : TxSt) (p : OutPkt) : Sent :=
  { wire := p.wire, token := p.token, mark := (congestionStep cfg st p).1,
    inFace := if cfg.ifiEnabled then p.inFace else none }

def hdrOf (cfg : TxCfg) (st : TxSt) (p : OutPkt) : Frame := headerOf cfg p (congestionStep cfg st p).1
def wholeOf (cfg : TxCfg) (st : TxSt) (p : OutPkt) : Frame := { hdrOf cfg st p with frag := p.wire }
def payloadRoom (cfg : TxCfg) (st : TxSt) (p : OutPkt) : Nat := cfg.mtu - overheadOf (hdrOf cfg st p)

theorem wholeOf_eq (cfg : TxCfg) (st : TxSt) (p : OutPkt) : wholeOf cfg st p = (sentOf cfg st p).whole := rfl

theorem fitsWhole_iff (cfg : TxCfg) (st : TxSt) (p : OutPkt) :
    (sentOf cfg st p).fitsWhole cfg.mtu = true ↔ (encFrame (wholeOf cfg st p)).length ≤ cfg.mtu := by
  rw [wholeOf_eq]; simp [Sent.fitsWhole]

theorem sendPacketF_single (cfg : TxCfg) (st : TxSt) (p : OutPkt)
    (h : (encFrame (wholeOf cfg st p)).length ≤ cfg.mtu) :
    sendPacketF cfg st p = ({ st with congCheck := (congestionStep cfg st p).2 }, [wholeOf cfg st p], TxKind.single) := by
  unfold sendPacketF
  exact if_pos h

theorem sendPacketF_nofrag (cfg : TxCfg) (st : TxSt) (p : OutPkt)
    (h : ¬ (encFrame (wholeOf cfg st p)).length ≤ cfg.mtu) (hn : cfg.fragEnabled = false) :
    sendPacketF cfg st p = ({ st with congCheck := (congestionStep cfg st p).2 }, [], TxKind.dropNoFrag) := by
  unfold sendPacketF
  exact (if_neg h).trans (if_pos (by simp [hn]))

theorem sendPacketF_frag (cfg : TxCfg) (st : TxSt) (p : OutPkt)
    (h : ¬ (encFrame (wholeOf cfg st p)).length ≤ cfg.mtu) (hf : cfg.fragEnabled = true)
    (hov : ¬ cfg.mtu ≤ overheadOf (hdrOf cfg st p)) :
    sendPacketF cfg st p =
      ({ nextSeq := (st.nextSeq + (chunks (payloadRoom cfg st p) p.wire).length) % two64,
         congCheck := (congestionStep cfg st p).2 },
       numberFrom (hdrOf cfg st p) (chunks (payloadRoom cfg st p) p.wire).length st.nextSeq 0
         (chunks (payloadRoom cfg st p) p.wire), TxKind.fragmented) := by
  unfold sendPacketF
  exact (if_neg h).trans ((if_neg (by simp [hf])).trans (if_neg hov))

theorem sendPacketF_tiny (cfg : TxCfg) (st : TxSt) (p : OutPkt)
    (h : ¬ (encFrame (wholeOf cfg st p)).length ≤ cfg.mtu) (hf : cfg.fragEnabled = true)
    (hov : cfg.mtu ≤ overheadOf (hdrOf cfg st p)) :
    sendPacketF cfg st p = ({ st with congCheck := (congestionStep cfg st p).2 }, [], TxKind.dropTinyMtu) := by
  unfold sendPacketF
  exact (if_neg h).trans ((if_neg (by simp [hf])).trans (if_pos hov))

end Ndn.C10
