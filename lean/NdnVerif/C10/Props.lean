/-
  C10 — property theorems (only).  Helper lemmas: `LemmasTx.lean`, `LemmasRx.lean`.

  `sendPacket cfg st p` is the model of fw/face/ndnlp-link-service.go `sendPacket` (frames handed to
  `transport.sendFrame`, in order); `rxRun true validL3 store frames` the model of the receiving
  link service (`handleIncomingFrame` / `reassemblePacket`) over a sequence of arriving frames.
  Quantification is over ALL configurations (every flag combination), ALL 64-bit sequence
  counters, ALL packets within the protocol bounds — no enumeration.
-/
import NdnVerif.C10.LemmasTx
import NdnVerif.C10.LemmasRx
import NdnVerif.C10.LemmasLink
import NdnVerif.C11.Props
namespace Ndn.C10
open Ndn.Gen.C10 (lpPacketOverhead fragmentOverhead sequenceOverhead fragIndexCountOverhead
  incomingFaceIdOverhead congestionMarkOverhead)

/-- the working tree's TLV type numbers are the NDNLPv2 ones -/
theorem gen_types_agree :
    Ndn.Gen.C10.ttLpPacket = ttLpPacket ∧ Ndn.Gen.C10.ttFragment = ttFragment ∧
    Ndn.Gen.C10.ttSequence = ttSequence ∧ Ndn.Gen.C10.ttFragIndex = ttFragIndex ∧
    Ndn.Gen.C10.ttFragCount = ttFragCount ∧ Ndn.Gen.C10.ttPitToken = ttPitToken ∧
    Ndn.Gen.C10.ttIncomingFaceId = ttIncomingFaceId ∧ Ndn.Gen.C10.ttCongestionMark = ttCongestionMark ∧
    Ndn.Gen.C10.maxNDNPacketSize = specMaxPkt := by
  decide

/-- **C10, every frame fits the MTU.**  For every configuration (fragmentation / incoming-face
    indication / congestion marking on or off, any threshold), every MTU, every sender state (any
    64-bit sequence counter), every packet of at most 8800 bytes with a PIT token of at most 32
    bytes, any congestion mark, any incoming face id, congested or not: every frame handed to the
    transport is at most MTU bytes long.  (Holds for every MTU; below the header size nothing is
    sent — for MTU ≥ 128 see `sent_when_fragmentation_enabled`.) -/
theorem frame_le_mtu (cfg : TxCfg) (st : TxSt) (p : OutPkt)
    (hsize : p.wire.length ≤ specMaxPkt) (htok : p.token.length ≤ specMaxToken) :
    ∀ fr ∈ (sendPacket cfg st p).2, fr.length ≤ cfg.mtu := by
  intro fr hfr
  simp only [sendPacket, List.mem_map] at hfr
  obtain ⟨f, hf, rfl⟩ := hfr
  by_cases hfit : (encFrame (wholeOf cfg st p)).length ≤ cfg.mtu
  · rw [sendPacketF_single cfg st p hfit] at hf
    simp at hf; subst hf; exact hfit
  · by_cases hfrag : cfg.fragEnabled = true
    · by_cases hov : cfg.mtu ≤ overheadOf (hdrOf cfg st p)
      · rw [sendPacketF_tiny cfg st p hfit hfrag hov] at hf
        simp at hf
      · rw [sendPacketF_frag cfg st p hfit hfrag hov] at hf
        simp only at hf
        obtain ⟨k, part, hk, rfl⟩ := numberFrom_mem _ _ _ _ _ f hf
        have htok' : (hdrOf cfg st p).token.length ≤ 32 := by
          simpa [hdrOf, headerOf, specMaxToken] using htok
        have hlen := chunks_length_le' (payloadRoom cfg st p) p.wire.length p.wire (Nat.le_refl _)
        have hmem := List.mem_of_getElem? hk
        have hklt : k < (chunks (payloadRoom cfg st p) p.wire).length := by
          rcases Nat.lt_or_ge k (chunks (payloadRoom cfg st p) p.wire).length with h | h
          · exact h
          · rw [List.getElem?_eq_none h] at hk; simp at hk
        have hroom : 1 ≤ payloadRoom cfg st p := by unfold payloadRoom; omega
        have hple := chunks_mem_le (payloadRoom cfg st p) hroom p.wire.length p.wire (Nat.le_refl _) _ hmem
        have hpw := chunks_mem_le_len (payloadRoom cfg st p) p.wire.length p.wire (Nat.le_refl _) _ hmem
        simp only [specMaxPkt] at hsize
        have := fragFrame_length_le (hdrOf cfg st p) ((st.nextSeq + k) % two64) (0 + k)
          (chunks (payloadRoom cfg st p) p.wire).length part (by omega) (by omega) (by omega) htok'
        unfold payloadRoom at hple
        omega
    · rw [sendPacketF_nofrag cfg st p hfit (by simpa using hfrag)] at hf
      simp at hf

example : ∃ fr ∈ (sendPacket { mtu := 128 } {} { wire := [6, 2, 7, 0] }).2, fr.length ≤ 128 :=
  ⟨encFrame { frag := [6, 2, 7, 0] }, by
    rw [sendPacket, sendPacketF_single _ _ _ (by decide)]; simp [wholeOf, hdrOf, headerOf, congestionStep], by decide⟩

/-- **C10, a packet that fits is one frame.**  If the packet wrapped into ONE LpPacket with the
    header fields it has to carry (`Sent.whole`: token, mark, incoming face id, Fragment) is at
    most MTU bytes long, then exactly that one frame is sent — whatever the flags, also with
    fragmentation disabled — and the sequence counter is not touched. -/
theorem fits_single_frame (cfg : TxCfg) (st : TxSt) (p : OutPkt)
    (hfit : (sentOf cfg st p).fitsWhole cfg.mtu = true) :
    (sendPacket cfg st p).2 = [encFrame (sentOf cfg st p).whole] ∧
    (sendPacket cfg st p).1.nextSeq = st.nextSeq := by
  have h := (fitsWhole_iff cfg st p).mp hfit
  rw [sendPacket, sendPacketF_single cfg st p h, wholeOf_eq]
  exact ⟨rfl, rfl⟩

example : (sendPacket { mtu := 128 } {} { wire := [6, 2, 7, 0] }).2 = [encFrame { frag := [6, 2, 7, 0] }] :=
  (fits_single_frame { mtu := 128 } {} { wire := [6, 2, 7, 0] } (by decide)).1

/-- **C10, fragmentation disabled: an oversize packet is dropped, never truncated.**  With
    `IsFragmentationEnabled = false` a packet whose single frame would exceed the MTU produces no
    frame at all (and by `fits_single_frame` one that fits is sent whole): no partial frame ever
    leaves the link service. -/
theorem nofrag_oversize_dropped (cfg : TxCfg) (st : TxSt) (p : OutPkt)
    (hnofrag : cfg.fragEnabled = false) (hover : (sentOf cfg st p).fitsWhole cfg.mtu = false) :
    (sendPacket cfg st p).2 = [] := by
  have h : ¬ (encFrame (wholeOf cfg st p)).length ≤ cfg.mtu := by
    intro hh; rw [(fitsWhole_iff cfg st p).mpr hh] at hover; simp at hover
  rw [sendPacket, sendPacketF_nofrag cfg st p h hnofrag]
  rfl

example : (sendPacket { mtu := 8, fragEnabled := false } {} { wire := [6, 2, 7, 0, 1] }).2 = [] :=
  nofrag_oversize_dropped _ _ _ rfl (by decide)

/-- **C10, nothing is ever truncated (any configuration).**  Whatever is sent carries the whole
    packet: the Fragment payloads of the emitted LpPackets, in order, concatenate to the packet's
    bytes — or nothing is sent at all. -/
theorem never_truncated (cfg : TxCfg) (st : TxSt) (p : OutPkt) :
    (sendPacketF cfg st p).2.1 = [] ∨
    ((sendPacketF cfg st p).2.1.map (·.frag)).flatten = p.wire := by
  by_cases hfit : (encFrame (wholeOf cfg st p)).length ≤ cfg.mtu
  · right; rw [sendPacketF_single cfg st p hfit]; simp [wholeOf]
  · by_cases hfrag : cfg.fragEnabled = true
    · by_cases hov : cfg.mtu ≤ overheadOf (hdrOf cfg st p)
      · left; rw [sendPacketF_tiny cfg st p hfit hfrag hov]
      · right
        rw [sendPacketF_frag cfg st p hfit hfrag hov]
        simp only [numberFrom_frags]
        exact chunks_flatten _ _ _ (Nat.le_refl _)
    · left; rw [sendPacketF_nofrag cfg st p hfit (by simpa using hfrag)]

example : ((sendPacketF { mtu := 128 } {} { wire := [6, 2, 7, 0] }).2.1.map (·.frag)).flatten = [6, 2, 7, 0] := by
  rw [sendPacketF_single _ _ _ (by decide)]; rfl

/-- **C10, with fragmentation enabled and MTU ≥ 128 every admissible packet is sent**: as one frame
    when it fits, otherwise as at least two numbered fragments (the header overhead never exceeds
    84 bytes, so at least 44 payload bytes fit into every fragment). -/
theorem sent_when_fragmentation_enabled (cfg : TxCfg) (st : TxSt) (p : OutPkt)
    (hmtu : specMinMtu ≤ cfg.mtu) (hfrag : cfg.fragEnabled = true)
    (hsize : p.wire.length ≤ specMaxPkt) (htok : p.token.length ≤ specMaxToken) :
    ((sentOf cfg st p).fitsWhole cfg.mtu = true ∧ (sendPacket cfg st p).2.length = 1) ∨
    ((sentOf cfg st p).fitsWhole cfg.mtu = false ∧ 2 ≤ (sendPacket cfg st p).2.length) := by
  by_cases hfit : (sentOf cfg st p).fitsWhole cfg.mtu = true
  · left; exact ⟨hfit, by rw [(fits_single_frame cfg st p hfit).1]; rfl⟩
  · right
    have hfit' : (sentOf cfg st p).fitsWhole cfg.mtu = false := by simpa using hfit
    refine ⟨hfit', ?_⟩
    have h : ¬ (encFrame (wholeOf cfg st p)).length ≤ cfg.mtu := fun hh => hfit ((fitsWhole_iff cfg st p).mpr hh)
    have htok' : (hdrOf cfg st p).token.length ≤ 32 := by
      simpa [hdrOf, headerOf, specMaxToken] using htok
    have hov := overheadOf_le htok'
    simp only [specMinMtu] at hmtu
    simp only [specMaxPkt] at hsize
    have hlt : ¬ cfg.mtu ≤ overheadOf (hdrOf cfg st p) := by omega
    -- the packet is longer than one fragment payload, otherwise it would have fitted
    have hbig : payloadRoom cfg st p < p.wire.length := by
      rcases Nat.lt_or_ge (payloadRoom cfg st p) p.wire.length with hh | hh
      · exact hh
      · exfalso
        apply h
        have := wholeFrame_length_le (hdrOf cfg st p) rfl rfl rfl p.wire hsize htok'
        unfold payloadRoom at hh
        exact Nat.le_trans this (by omega)
    have hroom : 1 ≤ payloadRoom cfg st p := by unfold payloadRoom; omega
    have := chunks_length_ge2 (payloadRoom cfg st p) hroom p.wire hbig
    rw [sendPacket, sendPacketF_frag cfg st p h hfrag hlt]
    simpa [numberFrom_length] using this

example (w : Bytes) (hw : w.length = 300) : 2 ≤ (sendPacket { mtu := 128 } {} { wire := w }).2.length := by
  rcases sent_when_fragmentation_enabled { mtu := 128 } {} { wire := w }
    (by decide) rfl (by simp [specMaxPkt, hw]) (by simp [specMaxToken]) with ⟨h, _⟩ | ⟨_, h⟩
  · exfalso
    rw [fitsWhole_iff, encFrame_length] at h
    simp [innerLen, wholeOf, hdrOf, headerOf, congestionStep, tokLen, hw] at h
    omega
  · exact h

/-- a valid unfragmented LpPacket as the receiver sees it -/
def SingleOk (validL3 : Bytes → Bool) (s : Frame) : Prop :=
  s.seq = none ∧ s.idx = none ∧ s.cnt = none ∧ s.frag ≠ [] ∧ validL3 s.frag = true

/-- **C10, reassembly under any interleaving (decoded-frame level).**
    `msgs`: ANY number of fragmented messages in flight — each with 2..maxFragments non-empty
    fragments numbered base+i (mod 2^64), FragIndex i, FragCount n, all frames carrying the message's
    token and mark — whose base sequence numbers are pairwise different (disjoint sequence ranges);
    `singles`: any unfragmented frames.  `arrivals`: ANY permutation of all these frames (any order,
    any interleaving of the messages).  Then the receiving link service, starting with an empty
    store, delivers — as a multiset — exactly one packet per message: the concatenation of its
    fragments in index order, with the message's PIT token and congestion mark, plus the payload
    of every unfragmented frame; nothing else is delivered, nothing is delivered twice, and the
    partial message store is empty again afterwards.  (Induction over the arrival sequence with the
    store invariant `StoreInv`; sequence arithmetic modulo 2^64.) -/
theorem reassemble_any_interleaving_frames (msgs : List FMsg) (singles arrivals : List Frame)
    (validL3 : Bytes → Bool)
    (hwf : ∀ m ∈ msgs, m.WF) (hdisjoint : (msgs.map FMsg.base).Nodup)
    (hvalid : ∀ m ∈ msgs, validL3 m.parts.flatten = true)
    (hsingles : ∀ s ∈ singles, SingleOk validL3 s)
    (harr : arrivals.Perm (msgs.flatMap FMsg.frames ++ singles)) :
    (deliveries (rxRunF true validL3 [] arrivals).2).Perm
        (msgs.map FMsg.delivery ++ singles.map singleDelivery) ∧
    ∀ b, (rxRunF true validL3 [] arrivals).1.find? b = none := by
  have hsingle_notfrag : ∀ s ∈ singles, isFragFrame s = false := by
    intro s hs; simp [isFragFrame, (hsingles s hs).1]
  have hfragall : ∀ f ∈ msgs.flatMap FMsg.frames, isFragFrame f = true := by
    intro f hf
    obtain ⟨m, _, hfm⟩ := List.mem_flatMap.mp hf
    obtain ⟨k, _, rfl⟩ := mem_frames.mp hfm
    exact isFrag_frameAt m k
  -- every arrival is a fragment of a message in flight or a valid single frame
  have hA : ∀ f ∈ arrivals, Arrival msgs validL3 f := by
    intro f hf
    rcases List.mem_append.mp (harr.mem_iff.mp hf) with h | h
    · left
      obtain ⟨m, hm, hfm⟩ := List.mem_flatMap.mp h
      obtain ⟨k, hk, rfl⟩ := mem_frames.mp hfm
      exact ⟨m, hm, k, hk, rfl⟩
    · right; exact hsingles f h
  -- every fragment arrives exactly once
  have hfilterF : (msgs.flatMap FMsg.frames ++ singles).filter isFragFrame = msgs.flatMap FMsg.frames := by
    rw [List.filter_append, List.filter_eq_self.mpr hfragall]
    have : singles.filter isFragFrame = [] := by
      rw [List.filter_eq_nil_iff]; intro s hs; simp [hsingle_notfrag s hs]
    rw [this, List.append_nil]
  have hN : (arrivals.filter isFragFrame).Nodup := by
    have hp := harr.filter isFragFrame
    rw [hfilterF] at hp
    exact hp.symm.nodup (allFrames_nodup msgs hwf hdisjoint)
  have hfilterS : (msgs.flatMap FMsg.frames ++ singles).filter (fun f => !isFragFrame f) = singles := by
    rw [List.filter_append]
    have h1 : (msgs.flatMap FMsg.frames).filter (fun f => !isFragFrame f) = [] := by
      rw [List.filter_eq_nil_iff]; intro f hf; simp [hfragall f hf]
    have h2 : singles.filter (fun f => !isFragFrame f) = singles := by
      rw [List.filter_eq_self]; intro s hs; simp [hsingle_notfrag s hs]
    rw [h1, h2, List.nil_append]
  have hinit : StoreInv msgs [] [] := by
    refine ⟨?_, fun _ _ => rfl⟩
    intro m _
    have : started [] m = false := by simp [started]
    simp [this, Store.find?]
  have hD0 : ([] : List Delivered).Perm ((msgs.filter (done [])).map FMsg.delivery ++ []) := by
    have : msgs.filter (done []) = [] := by
      rw [List.filter_eq_nil_iff]
      intro m hm
      have h2 := (hwf m hm).two_le
      have : done [] m = false := by
        cases hd : done [] m with
        | false => rfl
        | true => have := (done_iff [] m).mp hd 0 (by omega); simp at this
      simp [this]
    simp [this]
  obtain ⟨hI, hP⟩ := rxRunF_inv msgs hwf hdisjoint validL3 hvalid arrivals [] [] [] [] hinit hA hN
    (fun _ _ _ => by simp) hD0
  simp only [List.append_nil, List.nil_append] at hI hP
  -- at the end every message is complete
  have hall : ∀ m ∈ msgs, done arrivals.reverse m = true := by
    intro m hm
    rw [done_iff]
    intro k hk
    have : m.frameAt k ∈ msgs.flatMap FMsg.frames ++ singles :=
      List.mem_append.mpr (Or.inl (List.mem_flatMap.mpr ⟨m, hm, mem_frames.mpr ⟨k, hk, rfl⟩⟩))
    exact List.mem_reverse.mpr (harr.mem_iff.mpr this)
  have hfall : msgs.filter (done arrivals.reverse) = msgs := List.filter_eq_self.mpr hall
  refine ⟨?_, ?_⟩
  · rw [hfall] at hP
    have hs : (arrivals.filter (fun f => !isFragFrame f)).Perm singles := by
      have := harr.filter (fun f => !isFragFrame f)
      rwa [hfilterS] at this
    exact hP.trans ((hs.map singleDelivery).append_left _)
  · intro b
    by_cases hb : ∃ m ∈ msgs, m.base = b
    · obtain ⟨m, hm, rfl⟩ := hb
      have := hI.1 m hm
      rw [hall m hm] at this
      simpa using this
    · exact hI.2 b (fun m hm h => hb ⟨m, hm, h⟩)

/-- non-vacuity: two messages in flight — a 2-fragment one whose numbering wraps around 2^64 and a
    3-fragment one carrying a token — plus an unfragmented frame, arriving in reverse order -/
example :
    let m1 : FMsg := ⟨{}, 18446744073709551615, [[1], [2]]⟩
    let m2 : FMsg := ⟨{ token := [9] }, 5, [[3], [4], [5]]⟩
    let s : Frame := { frag := [7] }
    (deliveries (rxRunF true (fun _ => true) []
        ([m1, m2].flatMap FMsg.frames ++ [s]).reverse).2).Perm
      ([m1, m2].map FMsg.delivery ++ [s].map singleDelivery) := by
  intro m1 m2 s
  refine (reassemble_any_interleaving_frames [m1, m2] [s] _ (fun _ => true) ?_ (by decide) (fun _ _ => rfl)
    ?_ (List.reverse_perm _)).1
  · intro m hm
    simp at hm
    rcases hm with rfl | rfl
    · exact ⟨by decide, by decide, by decide, by decide⟩
    · exact ⟨by decide, by decide, by decide, by decide⟩
  · intro x hx
    simp at hx; subst hx
    exact ⟨rfl, rfl, rfl, by decide, rfl⟩

/-- **C10, end to end: fragmentation and reassembly reproduce every packet exactly.**
    ANY admissible packet `p` (1..8800 bytes, token ≤ 32 bytes, any mark / incoming face id), ANY
    sender configuration with fragmentation enabled and MTU ≥ 128, ANY sender state (64-bit sequence
    counter, also right below 2^64 where the numbering wraps).  The REAL frames are the encoded
    bytes `encFrame`.  At the receiver they arrive in ANY order (`arrF`: any permutation),
    interleaved with the frames of ANY number of other messages in flight whose sequence ranges
    start elsewhere (`others`, base sequence numbers pairwise different and different from p's)
    and with any unfragmented frames (`singles`).  Then the receiving link service delivers — as a
    multiset — `p`'s original bytes exactly once, with its PIT token and the congestion mark
    attached by the sender, and exactly one packet for every other message / single frame; and its
    partial message store is empty afterwards. -/
theorem reassemble_any_interleaving (cfg : TxCfg) (st : TxSt) (p : OutPkt) (validL3 : Bytes → Bool)
    (hp : PktOk p) (hne : 1 ≤ p.wire.length) (hmtu : specMinMtu ≤ cfg.mtu) (hfrag : cfg.fragEnabled = true)
    (hvp : validL3 p.wire = true)
    (others : List FMsg) (singles : List Frame)
    (hothers : ∀ m ∈ others, m.WF ∧ validL3 m.parts.flatten = true ∧ ∀ f ∈ m.frames, f.Encodable)
    (hsingles : ∀ s ∈ singles, SingleOk validL3 s ∧ s.Encodable)
    (hdisjoint : ((msgOf cfg st p :: others).map FMsg.base).Nodup)
    (arrF : List Frame)
    (harr : arrF.Perm ((sendPacketF cfg st p).2.1 ++ (others.flatMap FMsg.frames ++ singles))) :
    (deliveries (rxRun true validL3 [] (arrF.map encFrame)).2).Perm
        (⟨p.wire, p.token, (congestionStep cfg st p).1⟩ ::
          (others.map FMsg.delivery ++ singles.map singleDelivery)) ∧
    ∀ b, (rxRun true validL3 [] (arrF.map encFrame)).1.find? b = none := by
  have hwne : p.wire ≠ [] := by intro h; rw [h] at hne; simp at hne
  have hdisj' : (others.map FMsg.base).Nodup := by
    simp only [List.map_cons, List.nodup_cons] at hdisjoint; exact hdisjoint.2
  by_cases hfit : (encFrame (wholeOf cfg st p)).length ≤ cfg.mtu
  · -- one frame
    rw [sendPacketF_single cfg st p hfit] at harr
    obtain ⟨hs1, hs2, hs3, hs4, henc⟩ := wholeOf_single cfg st p hp hwne
    have hsok : ∀ s ∈ wholeOf cfg st p :: singles, SingleOk validL3 s := by
      intro s hs
      rcases List.mem_cons.mp hs with rfl | h
      · exact ⟨hs1, hs2, hs3, hs4, hvp⟩
      · exact (hsingles s h).1
    have harr' : arrF.Perm (others.flatMap FMsg.frames ++ (wholeOf cfg st p :: singles)) := by
      refine harr.trans ?_
      simp only [List.singleton_append]
      exact List.perm_middle.symm
    have hencAll : ∀ f ∈ arrF, f.Encodable := by
      intro f hf
      rcases List.mem_append.mp (harr'.mem_iff.mp hf) with h | h
      · obtain ⟨m, hm, hfm⟩ := List.mem_flatMap.mp h
        exact (hothers m hm).2.2 f hfm
      · rcases List.mem_cons.mp h with rfl | h
        · exact henc
        · exact (hsingles f h).2
    rw [rxRun_map_encFrame true validL3 arrF [] hencAll]
    obtain ⟨hP, hS⟩ := reassemble_any_interleaving_frames others (wholeOf cfg st p :: singles) arrF validL3
      (fun m hm => (hothers m hm).1) hdisj' (fun m hm => (hothers m hm).2.1) hsok harr'
    refine ⟨hP.trans ?_, hS⟩
    simp only [List.map_cons]
    exact List.perm_middle
  · -- fragments
    have htok' : (hdrOf cfg st p).token.length ≤ 32 := by
      have : p.token.length ≤ 32 := hp.tok
      simpa [hdrOf, headerOf] using this
    have hov := overheadOf_le htok'
    simp only [specMinMtu] at hmtu
    have hlt : ¬ cfg.mtu ≤ overheadOf (hdrOf cfg st p) := by omega
    rw [sendPacketF_frag cfg st p hfit hfrag hlt] at harr
    simp only [numberFrom_eq_frames] at harr
    have hwf := msgOf_wf cfg st p hp (by simp only [specMinMtu]; exact hmtu) hfit
    have harr' : arrF.Perm ((msgOf cfg st p :: others).flatMap FMsg.frames ++ singles) := by
      simpa [List.flatMap_cons, List.append_assoc] using harr
    have hencAll : ∀ f ∈ arrF, f.Encodable := by
      intro f hf
      rcases List.mem_append.mp (harr'.mem_iff.mp hf) with h | h
      · obtain ⟨m, hm, hfm⟩ := List.mem_flatMap.mp h
        rcases List.mem_cons.mp hm with rfl | hm
        · exact msgOf_frames_encodable cfg st p hp hwf f hfm
        · exact (hothers m hm).2.2 f hfm
      · exact (hsingles f h).2
    rw [rxRun_map_encFrame true validL3 arrF [] hencAll]
    obtain ⟨hP, hS⟩ := reassemble_any_interleaving_frames (msgOf cfg st p :: others) singles arrF validL3
      (by
        intro m hm
        rcases List.mem_cons.mp hm with rfl | hm
        · exact hwf
        · exact (hothers m hm).1)
      hdisjoint
      (by
        intro m hm
        rcases List.mem_cons.mp hm with rfl | hm
        · simp only [msgOf, chunks_flatten _ _ _ (Nat.le_refl _)]; exact hvp
        · exact (hothers m hm).2.1)
      (fun s hs => (hsingles s hs).1) harr'
    refine ⟨?_, hS⟩
    simpa [List.map_cons, msgOf_delivery] using hP

/-- non-vacuity: a 300-byte packet on an MTU-128 face with the sequence counter at 2^64-1 (the
    numbering wraps), no other traffic, fragments arriving in reverse order -/
example (w : Bytes) (hw : w.length = 300) (validL3 : Bytes → Bool) (hv : validL3 w = true) :
    (deliveries (rxRun true validL3 []
        ((sendPacketF { mtu := 128 } { nextSeq := 18446744073709551615 } { wire := w }).2.1.reverse.map encFrame)).2).Perm
      [⟨w, [], none⟩] := by
  have := (reassemble_any_interleaving { mtu := 128 } { nextSeq := 18446744073709551615 } { wire := w } validL3
    ⟨by simp [specMaxPkt, hw], by simp [specMaxToken], by simp, by simp⟩ (by simp [hw]) (by decide) rfl hv
    [] [] (fun _ h => by simp at h) (fun _ h => by simp at h) (by simp)
    (sendPacketF { mtu := 128 } { nextSeq := 18446744073709551615 } { wire := w }).2.1.reverse
    (by simp)).1
  simpa [congestionStep] using this

/-- **C10, "once" per destination thread.**  A delivered packet is queued at most once to any
    forwarding thread: an Interest and a Data with a PIT token go to one thread, a token-less Data to
    each prefix thread once (`hp` is the duplicate-free list of the threads of its prefixes). -/
theorem dispatch_once_per_thread (n : Nat) (wire token : Bytes) (hn : Nat) (hp : List Nat)
    (h : hp.Nodup) : (dispatchThreads n wire token hn hp).Nodup := by
  unfold dispatchThreads
  split
  · simp
  · split
    · split <;> simp
    · exact h

example : dispatchThreads 4 [6, 2, 7, 0] [] 1 [0, 2] = [0, 2] := by decide
/-- an Interest whose outer type is written in the three-byte form (`fd 00 05`) is an Interest: the thread of its name -/
example : dispatchThreads 4 [0xfd, 0, 5, 2, 7, 0] [] 1 [0, 2] = [1] := by decide

/-- **C10, the sequence ranges of one sender's packets are disjoint.**  Packets sent one after the
    other by one link service (any start value of the 64-bit counter, wrap-around included) get
    pairwise different base sequence numbers as long as fewer than 2^64 fragment frames are
    produced in total — which discharges the `hdisjoint` hypothesis of
    `reassemble_any_interleaving` for traffic coming from one sender (up to three concurrent
    messages in the property's quantifier; here: any number). -/
theorem consecutive_sends_disjoint (cfg : TxCfg) (hmtu : specMinMtu ≤ cfg.mtu) (hfrag : cfg.fragEnabled = true)
    (ps : List OutPkt) (st : TxSt) (hok : ∀ p ∈ ps, PktOk p) (htot : fragTotal cfg st ps < two64) :
    ((msgsOfAll cfg st ps).map FMsg.base).Nodup :=
  msgsOfAll_bases_nodup cfg hmtu hfrag ps st hok htot

example : ((msgsOfAll { mtu := 128 } { nextSeq := 18446744073709551615 } []).map FMsg.base).Nodup :=
  consecutive_sends_disjoint { mtu := 128 } (by decide) rfl [] _ (fun _ h => by simp at h) (by decide)

/-! ### The link service behind a stream face (round 13: the leg `rxs` of the correspondence) -/

/-- **Every frame the link service sends is a block a stream face can carry.**  For every
    configuration with an MTU of at most the maximum packet size, every sender state and every
    packet within the protocol bounds, the frames handed to the transport are admissible blocks in
    the sense of C11: well-formed TLVs (an LpPacket in shortest form) of at most 8800 bytes. -/
theorem sent_frames_are_blocks (cfg : TxCfg) (st : TxSt) (p : OutPkt)
    (hsize : p.wire.length ≤ specMaxPkt) (htok : p.token.length ≤ specMaxToken)
    (hmtu : cfg.mtu ≤ specMaxPkt) :
    Ndn.C11.Admissible (sendPacket cfg st p).2 := by
  intro fr hfr
  have hle := frame_le_mtu cfg st p hsize htok fr hfr
  have h88 : fr.length ≤ 8800 := by simp only [specMaxPkt] at hmtu; omega
  refine ⟨?_, by simpa [Ndn.C11.specMaxPkt] using h88⟩
  simp only [sendPacket, List.mem_map] at hfr
  obtain ⟨f, _, rfl⟩ := hfr
  exact Ndn.C11.wellFormed_of_shortest ⟨ttLpPacket, encInner f, by decide, rfl⟩ (by omega)

/-- **Fragments survive a stream face.**  The frames of ANY sequence of sends (each with its own
    configuration, counter state and packet), concatenated on a TCP / Unix stream and read back in
    ANY chunking — one byte at a time, reads ending inside a type or length field, hundreds of
    kilobytes without a read ever ending on a frame boundary — come out of `readTlvStream` as exactly
    those frames, in order, and the receive loop ends with EOF (no error, no stall). -/
theorem fragments_survive_a_stream_face (sends : List (TxCfg × TxSt × OutPkt))
    (hb : ∀ s ∈ sends, s.2.2.wire.length ≤ specMaxPkt ∧ s.2.2.token.length ≤ specMaxToken ∧ s.1.mtu ≤ specMaxPkt)
    (chunks : List Bytes)
    (hcut : chunks.flatten = (sends.flatMap fun s => (sendPacket s.1 s.2.1 s.2.2).2).flatten) :
    Ndn.C11.run Ndn.C11.init chunks =
      (sends.flatMap fun s => (sendPacket s.1 s.2.1 s.2.2).2, Ndn.C11.Outcome.eof) := by
  apply Ndn.C11.stream_refines_blocks _ _ _ hcut
  intro fr hfr
  simp only [List.mem_flatMap] at hfr
  obtain ⟨s, hs, hfr⟩ := hfr
  obtain ⟨h1, h2, h3⟩ := hb s hs
  exact sent_frames_are_blocks s.1 s.2.1 s.2.2 h1 h2 h3 fr hfr

/-- … and therefore the receiving link service behind a stream face sees what it would see if every
    frame were handed to it directly: reassembly over the framed stream is reassembly over the
    frames (with `reassemble_any_interleaving`: every packet exactly once, byte-identical). -/
theorem stream_face_then_reassembly (sends : List (TxCfg × TxSt × OutPkt))
    (hb : ∀ s ∈ sends, s.2.2.wire.length ≤ specMaxPkt ∧ s.2.2.token.length ≤ specMaxToken ∧ s.1.mtu ≤ specMaxPkt)
    (chunks : List Bytes)
    (hcut : chunks.flatten = (sends.flatMap fun s => (sendPacket s.1 s.2.1 s.2.2).2).flatten)
    (reasm : Bool) (validL3 : Bytes → Bool) (store : Store) :
    rxRun reasm validL3 store (Ndn.C11.run Ndn.C11.init chunks).1 =
      rxRun reasm validL3 store (sends.flatMap fun s => (sendPacket s.1 s.2.1 s.2.2).2) := by
  rw [fragments_survive_a_stream_face sends hb chunks hcut]

/-- non-vacuity: one send at MTU 128, its frame cut into three reads -/
example : ∃ fr, (sendPacket { mtu := 128 } {} { wire := [6, 2, 7, 0] }).2 = [fr] ∧
    Ndn.C11.run Ndn.C11.init [fr.take 1, (fr.drop 1).take 2, fr.drop 3] = ([fr], Ndn.C11.Outcome.eof) := by
  refine ⟨encFrame { frag := [6, 2, 7, 0] }, ?_, ?_⟩
  · rw [sendPacket, sendPacketF_single _ _ _ (by decide)]; simp [wholeOf, hdrOf, headerOf, congestionStep]
  · have h := fragments_survive_a_stream_face [(({ mtu := 128 } : TxCfg), ({} : TxSt), ({ wire := [6, 2, 7, 0] } : OutPkt))]
      (by intro s hs; simp at hs; subst hs; decide)
      [(encFrame { frag := [6, 2, 7, 0] }).take 1, ((encFrame { frag := [6, 2, 7, 0] }).drop 1).take 2,
        (encFrame { frag := [6, 2, 7, 0] }).drop 3]
      (by
        simp only [List.flatMap_cons, List.flatMap_nil, List.append_nil]
        rw [sendPacket, sendPacketF_single _ _ _ (by decide)]
        simp [wholeOf, hdrOf, headerOf, congestionStep]
        decide)
    simp only [List.flatMap_cons, List.flatMap_nil, List.append_nil] at h
    rw [sendPacket, sendPacketF_single _ _ _ (by decide)] at h
    simpa [wholeOf, hdrOf, headerOf, congestionStep] using h

end Ndn.C10
