import NdnVerif.C10.Model
import NdnVerif.C10.Spec
namespace Ndn.C10

theorem gen_types_agree :
    Ndn.Gen.C10.ttLpPacket = ttLpPacket ∧ Ndn.Gen.C10.ttFragment = ttFragment ∧
    Ndn.Gen.C10.ttSequence = ttSequence ∧ Ndn.Gen.C10.ttFragIndex = ttFragIndex ∧
    Ndn.Gen.C10.ttFragCount = ttFragCount ∧ Ndn.Gen.C10.ttPitToken = ttPitToken ∧
    Ndn.Gen.C10.ttIncomingFaceId = ttIncomingFaceId ∧ Ndn.Gen.C10.ttCongestionMark = ttCongestionMark := by
  decide

end Ndn.C10
