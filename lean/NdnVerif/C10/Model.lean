/-
  C10 model — fw/face/ndnlp-link-service.go (after the repairs F-10a / F-10b):

  * `computeHeaderOverhead` + `sendPacket` (send side): congestion mark decision, header fields
    attached to every frame, single-frame test on the exactly encoded LpPacket, drop when
    fragmentation is disabled, worst-case header overhead, effective MTU, split into
    ceil(len/effectiveMtu) fragments, Sequence / FragIndex / FragCount, encoding of each frame;
  * `handleIncomingFrame` + `reassemblePacket` (receive side): decode, IDLE drop, base sequence
    `Sequence - FragIndex` (uint64 wrap-around), partial message store keyed by base sequence,
    delivery with the PIT token and congestion mark of the completing frame.

  The numeric overhead constants come from `Gen/C10Consts.lean` (re-extracted from the working
  tree on every run).  Core Lean only.
-/
import NdnVerif.C10.Wire
import NdnVerif.Gen.C10Consts
set_option linter.unusedVariables false
namespace Ndn.C10
open Ndn.Gen.C10 (lpPacketOverhead fragmentOverhead sequenceOverhead fragIndexCountOverhead
  incomingFaceIdOverhead congestionMarkOverhead)

/-! ## send side -/

/-- link-service configuration relevant to `sendPacket` -/
structure TxCfg where
  mtu : Nat                      -- transport.MTU()
  fragEnabled : Bool := true     -- options.IsFragmentationEnabled
  ifiEnabled : Bool := false     -- options.IsIncomingFaceIndicationEnabled
  congMarking : Bool := false    -- package-level `congestionMarking`
  threshold : Nat := 65536       -- options.DefaultCongestionThresholdBytes
  deriving Repr

/-- `dispatch.OutPkt` as far as `sendPacket` reads it -/
structure OutPkt where
  wire : Bytes                   -- out.Pkt.Raw
  token : Bytes := []            -- out.PitToken
  mark : Option Nat := none      -- out.Pkt.CongestionMark
  inFace : Option Nat := none    -- out.InFace
  /-- environment: `now.After(lastTimeCongestionMarked+interval) ∧ GetSendQueueSize() > threshold` -/
  congested : Bool := false
  deriving Repr

structure TxSt where
  nextSeq : Nat := 0             -- l.nextSequence (uint64)
  congCheck : Nat := 0           -- l.congestionCheck
  deriving Repr, DecidableEq

/-- the congestion-marking block of `sendPacket`: mark attached to the frames, new `congestionCheck` -/
def congestionStep (cfg : TxCfg) (st : TxSt) (p : OutPkt) : Option Nat × Nat :=
  if cfg.congMarking then
    if st.congCheck > cfg.threshold then
      ((if p.congested then some 1 else p.mark), (0 + p.wire.length) % two64)
    else (p.mark, (st.congCheck + p.wire.length) % two64)
  else (p.mark, st.congCheck)

/-- the header fields every frame of the packet carries -/
def headerOf (cfg : TxCfg) (p : OutPkt) (mark : Option Nat) : Frame :=
  { token := p.token, inFace := if cfg.ifiEnabled then p.inFace else none, mark := mark }

/-- worst-case encoded size of everything in a fragment frame except the payload -/
def overheadOf (h : Frame) : Nat :=
  lpPacketOverhead + fragmentOverhead + sequenceOverhead + fragIndexCountOverhead +
  (if h.token = [] then 0 else 1 + tlLen h.token.length + h.token.length) +
  (if h.inFace.isSome then incomingFaceIdOverhead else 0) +
  (if h.mark.isSome then congestionMarkOverhead else 0)

/-- the fragment payloads: `e` bytes each, the last one the remainder
    (`nFragments = (len+e-1)/e`, fragment i = wire[i·e : min((i+1)·e, len)]) -/
def chunks (e : Nat) (w : Bytes) : List Bytes :=
  if h : e = 0 ∨ w.length ≤ e then [w] else w.take e :: chunks e (w.drop e)
termination_by w.length
decreasing_by simp only [List.length_drop]; omega

/-- frames of a fragmented packet, numbered from `i` with sequence numbers from `s` -/
def numberFrom (h : Frame) (n : Nat) : Nat → Nat → List Bytes → List Frame
  | _, _, [] => []
  | s, i, part :: rest =>
    { h with seq := some (s % two64), idx := some i, cnt := some n, frag := part } ::
      numberFrom h n (s + 1) (i + 1) rest

inductive TxKind | single | dropNoFrag | dropTinyMtu | fragmented
  deriving DecidableEq, Repr

/-- `sendPacket`: new state, the LpPackets handed to `transport.sendFrame` (in order), branch taken -/
def sendPacketF (cfg : TxCfg) (st : TxSt) (p : OutPkt) : TxSt × List Frame × TxKind :=
  let cm := congestionStep cfg st p
  let st1 : TxSt := { st with congCheck := cm.2 }
  let h := headerOf cfg p cm.1
  let whole : Frame := { h with frag := p.wire }
  if (encFrame whole).length ≤ cfg.mtu then (st1, [whole], .single)
  else if !cfg.fragEnabled then (st1, [], .dropNoFrag)
  else if cfg.mtu ≤ overheadOf h then (st1, [], .dropTinyMtu)
  else
    let parts := chunks (cfg.mtu - overheadOf h) p.wire
    let frames := numberFrom h parts.length st.nextSeq 0 parts
    ({ st1 with nextSeq := (st.nextSeq + parts.length) % two64 }, frames, .fragmented)

/-- the encoded frames -/
def sendPacket (cfg : TxCfg) (st : TxSt) (p : OutPkt) : TxSt × List Bytes :=
  let r := sendPacketF cfg st p
  (r.1, r.2.1.map encFrame)

/-! ## receive side -/

/-- `partialMessageStore`: base sequence ↦ fragment slots (`[]` = not yet received) -/
abbrev Store := List (Nat × List Bytes)

def Store.find? : Store → Nat → Option (List Bytes)
  | [], _ => none
  | (k', v) :: rest, k => if k' = k then some v else Store.find? rest k
def Store.erase (s : Store) (k : Nat) : Store := List.filter (fun e => e.1 ≠ k) s
def Store.set (s : Store) (k : Nat) (v : List Bytes) : Store := (k, v) :: s.erase k

/-- a packet handed to the forwarder -/
structure Delivered where
  wire : Bytes
  token : Bytes
  mark : Option Nat
  deriving DecidableEq, Repr

inductive RxOut
  | drop                          -- nothing delivered (error, IDLE, waiting for more fragments)
  | deliver (d : Delivered)
  deriving Repr, DecidableEq

/-- `maxFragments`: largest FragCount accepted for reassembly (regenerated) -/
abbrev maxFragments : Nat := Ndn.Gen.C10.maxFragments

/-- the slot array `reassemblePacket` works on: the stored one (`none` when its size differs from
    FragCount: the frame is dropped), or a fresh `make([][]byte, fragCount)` -/
def slotsFor (store : Store) (base cnt : Nat) : Option (List Bytes) :=
  match store.find? base with
  | some sl => if sl.length = cnt then some sl else none
  | none => some (List.replicate cnt [])

/-- `reassemblePacket`: new store and the reassembled payload when complete.  FragIndex/FragCount
    are validated first (`fragCount == 0 || fragCount > maxFragments || fragIndex >= fragCount`
    → drop), so the slot index is always in range. -/
def reassemble (store : Store) (f : Frame) (base idx cnt : Nat) : Store × Option Bytes :=
  if cnt = 0 ∨ cnt > maxFragments ∨ idx ≥ cnt then (store, none)
  else
    match slotsFor store base cnt with
    | none => (store, none)
    | some slots =>
      if (slots.set idx f.frag).all (fun s => s ≠ []) then
        (store.erase base, some (slots.set idx f.frag).flatten)
      else (store.set base (slots.set idx f.frag), none)

/-- `handleIncomingFrame` after `spec.ReadPacket` produced an LpPacket `f` with a Fragment element.
    `reasm` = options.IsReassemblyEnabled;
    `validL3 w` = "`spec.ReadPacket` accepts `w` as an Interest or Data" (C03/C04 territory). -/
def handleLp (reasm : Bool) (validL3 : Bytes → Bool) (store : Store) (f : Frame) : Store × RxOut :=
  if f.frag = [] then (store, .drop)                         -- IDLE
  else
    let finish (store : Store) (payload : Bytes) : Store × RxOut :=
      if validL3 payload then (store, .deliver ⟨payload, f.token, f.mark⟩) else (store, .drop)
    if reasm ∧ f.seq.isSome then
      let idx := f.idx.getD 0
      let cnt := f.cnt.getD 1
      let base := (f.seq.getD 0 + two64 - idx % two64) % two64   -- uint64: *LP.Sequence - fragIndex
      if idx = 0 ∧ cnt = 1 then finish store f.frag
      else
        match reassemble store f base idx cnt with
        | (st', none) => (st', .drop)
        | (st', some payload) => finish st' payload
    else if f.cnt.isSome ∨ f.idx.isSome then (store, .drop)
    else finish store f.frag

/-- `dispatchInterest` / `dispatchData` (fw/face/link-service.go): the forwarding threads a delivered
    packet is queued to, in call order.  `hn` = `fw.HashNameToFwThread(name)`, `hp` = the ascending
    threads of `fw.HashNameToAllPrefixFwThreads(name)` (every prefix incl. the zero-length one) — the
    name hash itself is an environment fact here (property C01 / assumption A-hash).
    Interest → the thread of its name; Data with a 6-byte PIT token → the thread named by the first
    two token bytes (none if no such thread: "Invalid PIT token - DROP"); other Data → every prefix
    thread. -/
def dispatchThreads (nThreads : Nat) (wire token : Bytes) (hn : Nat) (hp : List Nat) : List Nat :=
  if (decTL wire).map (·.1) = some 5 then [hn]   -- `pkt.L3.Interest != nil`: the decoded outer type, in any form
  else if token.length = 6 then
    (if beDec (token.take 2) < nThreads then [beDec (token.take 2)] else [])
  else hp

/-- `handleIncomingFrame` for one received frame -/
def handleFrame (reasm : Bool) (validL3 : Bytes → Bool) (store : Store) (frame : Bytes) : Store × RxOut :=
  match decFrame frame with
  | .error => (store, .drop)
  | .bare _ => if validL3 frame then (store, .deliver ⟨frame, [], none⟩) else (store, .drop)
  | .lp f hasFrag => if hasFrag then handleLp reasm validL3 store f else (store, .drop)

/-- the receiver over a sequence of arriving frames: one outcome per arrival, in order -/
def rxRun (reasm : Bool) (validL3 : Bytes → Bool) : Store → List Bytes → Store × List RxOut
  | st, [] => (st, [])
  | st, fr :: rest =>
    let r := handleFrame reasm validL3 st fr
    let t := rxRun reasm validL3 r.1 rest
    (t.1, r.2 :: t.2)

/-- the same on already decoded LpPackets -/
def rxRunF (reasm : Bool) (validL3 : Bytes → Bool) : Store → List Frame → Store × List RxOut
  | st, [] => (st, [])
  | st, f :: rest =>
    let r := handleLp reasm validL3 st f
    let t := rxRunF reasm validL3 r.1 rest
    (t.1, r.2 :: t.2)

end Ndn.C10
