/-
  C10 helper lemmas: decoding an encoded LpPacket gives the LpPacket back.
-/
import NdnVerif.C10.LemmasTx
namespace Ndn.C10

theorem two64_eq : two64 = 2 ^ 64 := by decide

theorem tlLen_le9 (x : Nat) : tlLen x ≤ 9 := by
  unfold tlLen; repeat' split
  all_goals omega

theorem tlv_ne_nil (t : Nat) (v : Bytes) : tlv t v ≠ [] := by
  intro h
  have := congrArg List.length h
  have h1 := tlLen_pos t
  simp [tlv, encTL_length] at this
  omega

/-- one element of the LpPacket element loop -/
theorem decFields_step (t : Nat) (v rest : Bytes) (acc : Frame) (sf : Bool)
    (ht : t < 2 ^ 64) (hv : v.length < 2 ^ 64) :
    decFields (tlv t v ++ rest) acc sf =
      (if t = ttSequence then decFields rest { acc with seq := some (beDec v % two64) } sf
        else if t = ttFragIndex then decFields rest { acc with idx := some (beDec v % two64) } sf
        else if t = ttFragCount then decFields rest { acc with cnt := some (beDec v % two64) } sf
        else if t = ttPitToken then decFields rest { acc with token := v } sf
        else if t = ttIncomingFaceId then decFields rest { acc with inFace := some (beDec v % two64) } sf
        else if t = ttCongestionMark then decFields rest { acc with mark := some (beDec v % two64) } sf
        else if t = ttFragment then decFields rest { acc with frag := v } true
        else if otherKnown t then decFields rest acc sf
        else if critical t then none
        else decFields rest acc sf) := by
  have e1 : decTL (tlv t v ++ rest) = some (t, encTL v.length ++ (v ++ rest)) := by
    have := decTL_encTL t ht (encTL v.length ++ (v ++ rest))
    simpa [tlv, List.append_assoc] using this
  have e2 : decTL (encTL v.length ++ (v ++ rest)) = some (v.length, v ++ rest) := decTL_encTL _ hv _
  rw [decFields.eq_def]
  split
  · rename_i hb
    exact absurd (List.append_eq_nil_iff.mp hb).1 (tlv_ne_nil t v)
  · split
    · rename_i h; rw [e1] at h; simp at h
    · rename_i t' r1 h
      rw [e1] at h; simp at h; obtain ⟨rfl, rfl⟩ := h
      split
      · rename_i h2; rw [e2] at h2; simp at h2
      · rename_i l' r2 h2
        rw [e2] at h2; simp at h2; obtain ⟨rfl, rfl⟩ := h2
        have hlen : ¬ ((v ++ rest).length < v.length) := by simp
        simp only [hlen, if_false, List.take_left, List.drop_left]

theorem beDec_encNat (v : Nat) (hv : v < two64) : beDec (encNat v) % two64 = v := by
  have h1 : beDec (encNat v) = v := by
    unfold encNat
    apply beDec_be
    unfold natLen two64 at *; repeat' split
    all_goals omega
  rw [h1]; exact Nat.mod_eq_of_lt hv

theorem beDec_be8 (v : Nat) (hv : v < two64) : beDec (be 8 v) % two64 = v := by
  have : beDec (be 8 v) = v := beDec_be 8 v (by unfold two64 at hv; omega)
  rw [this]; exact Nat.mod_eq_of_lt hv

theorem encNat_len_lt (v : Nat) : (encNat v).length < 2 ^ 64 := by
  rw [encNat_length]; have := natLen_le8 v; omega

/-- values a frame can be encoded with: 64-bit numbers, moderate lengths -/
structure Frame.Encodable (f : Frame) : Prop where
  seq : ∀ v, f.seq = some v → v < two64
  idx : ∀ v, f.idx = some v → v < two64
  cnt : ∀ v, f.cnt = some v → v < two64
  inFace : ∀ v, f.inFace = some v → v < two64
  mark : ∀ v, f.mark = some v → v < two64
  token : f.token.length < 2 ^ 32
  frag : f.frag.length < 2 ^ 32

theorem decFields_optSeq (o : Option Nat) (rest : Bytes) (acc : Frame) (sf : Bool)
    (hacc : acc.seq = none) (ho : ∀ v, o = some v → v < two64) :
    decFields (optFixed8 ttSequence o ++ rest) acc sf = decFields rest { acc with seq := o } sf := by
  cases o with
  | none => simp only [optFixed8, List.nil_append]; congr 1; cases acc; simp_all
  | some v =>
    simp only [optFixed8]
    rw [decFields_step _ _ _ _ _ (by decide) (by simp)]
    simp [beDec_be8 v (ho v rfl)]

theorem decFields_optIdx (o : Option Nat) (rest : Bytes) (acc : Frame) (sf : Bool)
    (hacc : acc.idx = none) (ho : ∀ v, o = some v → v < two64) :
    decFields (optNat ttFragIndex o ++ rest) acc sf = decFields rest { acc with idx := o } sf := by
  cases o with
  | none => simp only [optNat, List.nil_append]; congr 1; cases acc; simp_all
  | some v =>
    simp only [optNat]
    rw [decFields_step _ _ _ _ _ (by decide) (encNat_len_lt v)]
    simp [beDec_encNat v (ho v rfl), ttFragIndex, ttSequence]

theorem decFields_optCnt (o : Option Nat) (rest : Bytes) (acc : Frame) (sf : Bool)
    (hacc : acc.cnt = none) (ho : ∀ v, o = some v → v < two64) :
    decFields (optNat ttFragCount o ++ rest) acc sf = decFields rest { acc with cnt := o } sf := by
  cases o with
  | none => simp only [optNat, List.nil_append]; congr 1; cases acc; simp_all
  | some v =>
    simp only [optNat]
    rw [decFields_step _ _ _ _ _ (by decide) (encNat_len_lt v)]
    simp [beDec_encNat v (ho v rfl), ttFragCount, ttFragIndex, ttSequence]

theorem decFields_optFace (o : Option Nat) (rest : Bytes) (acc : Frame) (sf : Bool)
    (hacc : acc.inFace = none) (ho : ∀ v, o = some v → v < two64) :
    decFields (optNat ttIncomingFaceId o ++ rest) acc sf = decFields rest { acc with inFace := o } sf := by
  cases o with
  | none => simp only [optNat, List.nil_append]; congr 1; cases acc; simp_all
  | some v =>
    simp only [optNat]
    rw [decFields_step _ _ _ _ _ (by decide) (encNat_len_lt v)]
    simp [beDec_encNat v (ho v rfl), ttIncomingFaceId, ttPitToken, ttFragCount, ttFragIndex, ttSequence]

theorem decFields_optMark (o : Option Nat) (rest : Bytes) (acc : Frame) (sf : Bool)
    (hacc : acc.mark = none) (ho : ∀ v, o = some v → v < two64) :
    decFields (optNat ttCongestionMark o ++ rest) acc sf = decFields rest { acc with mark := o } sf := by
  cases o with
  | none => simp only [optNat, List.nil_append]; congr 1; cases acc; simp_all
  | some v =>
    simp only [optNat]
    rw [decFields_step _ _ _ _ _ (by decide) (encNat_len_lt v)]
    simp [beDec_encNat v (ho v rfl), ttCongestionMark, ttIncomingFaceId, ttPitToken, ttFragCount, ttFragIndex,
      ttSequence]

theorem decFields_token (tok rest : Bytes) (acc : Frame) (sf : Bool)
    (hacc : acc.token = []) (ht : tok.length < 2 ^ 32) :
    decFields ((if tok = [] then [] else tlv ttPitToken tok) ++ rest) acc sf =
      decFields rest { acc with token := tok } sf := by
  by_cases h : tok = []
  · subst h; simp only [if_true, List.nil_append]; congr 1; cases acc; simp_all
  · simp only [h, if_false]
    rw [decFields_step _ _ _ _ _ (by decide) (by omega)]
    simp [ttPitToken, ttFragCount, ttFragIndex, ttSequence]

theorem decFields_fragment (frag : Bytes) (acc : Frame) (sf : Bool) (hf : frag.length < 2 ^ 32) :
    decFields (tlv ttFragment frag) acc sf = some ({ acc with frag := frag }, true) := by
  have := decFields_step ttFragment frag [] acc sf (by decide) (by omega)
  rw [List.append_nil] at this
  rw [this]
  have hnil : ∀ a s, decFields [] a s = some (a, s) := by intro a s; rw [decFields.eq_def]
  simp [ttFragment, ttCongestionMark, ttIncomingFaceId, ttPitToken, ttFragCount, ttFragIndex, ttSequence, hnil]

/-- decoding the element loop over an encoded header gives the header back -/
theorem decFields_encInner (f : Frame) (hf : f.Encodable) :
    decFields (encInner f) {} false = some (f, true) := by
  unfold encInner
  simp only [List.append_assoc]
  rw [decFields_optSeq _ _ _ _ rfl hf.seq, decFields_optIdx _ _ _ _ rfl hf.idx,
    decFields_optCnt _ _ _ _ rfl hf.cnt, decFields_token _ _ _ _ rfl hf.token,
    decFields_optFace _ _ _ _ rfl hf.inFace, decFields_optMark _ _ _ _ rfl hf.mark,
    decFields_fragment _ _ _ hf.frag]

theorem innerLen_lt (f : Frame) (hf : f.Encodable) : innerLen f < 2 ^ 64 := by
  have h1 := hf.token
  have h2 := hf.frag
  have a : tokLen f.token ≤ 1 + 9 + f.token.length := by
    have := tlLen_le9 f.token.length
    unfold tokLen; split <;> omega
  have b : ∀ (t : Nat) (o : Option Nat), optNatLen t o ≤ 9 + 1 + 8 := by
    intro t o
    cases o with
    | none => simp
    | some v =>
      have := natLen_le8 v
      have := tlLen_le9 t
      simp; omega
  have c := tlLen_le9 f.frag.length
  have d : (if f.seq.isSome then 10 else 0) ≤ 10 := by split <;> omega
  have b1 := b ttFragIndex f.idx
  have b2 := b ttFragCount f.cnt
  have b3 := b ttIncomingFaceId f.inFace
  have b4 := b ttCongestionMark f.mark
  unfold innerLen
  omega

/-- **decode ∘ encode = id** for LpPackets -/
theorem decFrame_encFrame (f : Frame) (hf : f.Encodable) : decFrame (encFrame f) = Decoded.lp f true := by
  have hlen : (encInner f).length < 2 ^ 64 := by rw [encInner_length]; exact innerLen_lt f hf
  have e1 : decTL (encFrame f) = some (ttLpPacket, encTL (encInner f).length ++ encInner f) := by
    have := decTL_encTL ttLpPacket (by decide) (encTL (encInner f).length ++ encInner f)
    simpa [encFrame, tlv, List.append_assoc] using this
  have e2 : decTL (encTL (encInner f).length ++ encInner f) = some ((encInner f).length, encInner f) :=
    decTL_encTL _ hlen _
  unfold decFrame
  rw [e1]
  simp only [e2]
  simp [decFields_encInner f hf]

end Ndn.C10
