/-
  C10 — NDNLPv2 LpPacket wire layout (protocol level, shared by model and specification).

  `Frame` is the subset of `spec.LpPacket` (std/ndn/spec_2022/definitions.go:85) the link service
  uses on the data path; `encFrame` mirrors `LpPacketEncoder.Init/EncodeInto` of the generated code
  for these fields (field order of the struct, TLV type numbers of the NDNLPv2 specification);
  `decFrame` mirrors `PacketParsingContext.Parse` + `LpPacketParsingContext.Parse`
  (zz_generated.go): an order-insensitive loop over the TLV elements, last occurrence wins,
  numbers read big-endian from however many bytes the element has, unknown elements skipped unless
  critical.  Core Lean only.
-/
import NdnVerif.Base.Num
set_option linter.unusedVariables false
namespace Ndn.C10

/-! TLV type numbers of NDNLPv2 (protocol constants; `Gen/C10Consts.lean` re-extracts the tags of
    the working tree and `Props.lean` checks that they agree). -/
def ttLpPacket : Nat := 0x64
def ttFragment : Nat := 0x50
def ttSequence : Nat := 0x51
def ttFragIndex : Nat := 0x52
def ttFragCount : Nat := 0x53
def ttPitToken : Nat := 0x62
def ttIncomingFaceId : Nat := 0x032C
def ttCongestionMark : Nat := 0x0340

def two64 : Nat := 18446744073709551616

/-- the LpPacket header fields used on the data path; `token = []` means "no PitToken element" -/
structure Frame where
  seq : Option Nat := none
  idx : Option Nat := none
  cnt : Option Nat := none
  token : Bytes := []
  inFace : Option Nat := none
  mark : Option Nat := none
  frag : Bytes := []
  deriving DecidableEq, Repr

/-- one TLV element -/
def tlv (t : Nat) (v : Bytes) : Bytes := encTL t ++ encTL v.length ++ v

/-- optional natural-number element (`//+field:natural:optional`) -/
def optNat (t : Nat) : Option Nat → Bytes
  | none => []
  | some v => tlv t (encNat v)

/-- optional fixed 8-byte element (`//+field:fixedUint:uint64:optional`) -/
def optFixed8 (t : Nat) : Option Nat → Bytes
  | none => []
  | some v => tlv t (be 8 v)

/-- the TLV-VALUE of the LpPacket: header fields in struct order, then the Fragment element -/
def encInner (f : Frame) : Bytes :=
  optFixed8 ttSequence f.seq ++ optNat ttFragIndex f.idx ++ optNat ttFragCount f.cnt ++
  (if f.token = [] then [] else tlv ttPitToken f.token) ++
  optNat ttIncomingFaceId f.inFace ++ optNat ttCongestionMark f.mark ++
  tlv ttFragment f.frag

/-- `spec.Packet{LpPacket: f}` encoded -/
def encFrame (f : Frame) : Bytes := tlv ttLpPacket (encInner f)

/-! ### decoding -/

/-- LpPacket elements the generated parser knows but the data path of the link service ignores
    (Nack, NextHopFaceId, CachePolicy, Ack, TxSequence, NonDiscovery, PrefixAnnouncement) -/
def otherKnown (t : Nat) : Bool :=
  t = 0x0320 || t = 0x0330 || t = 0x0334 || t = 0x0344 || t = 0x0348 || t = 0x034C || t = 0x0350

/-- critical-bit rule of the generated parsers -/
def critical (t : Nat) : Bool := t ≤ 31 || t % 2 = 1

/-- the element loop of `LpPacketParsingContext.Parse`; `none` = parse error.  `sawFrag` records
    whether a Fragment element was present (an LpPacket without one is an IDLE packet). -/
def decFields (b : Bytes) (acc : Frame) (sawFrag : Bool) : Option (Frame × Bool) :=
  match hb : b with
  | [] => some (acc, sawFrag)
  | _ :: _ =>
    match h1 : decTL b with
    | none => none
    | some (t, r1) =>
      match h2 : decTL r1 with
      | none => none
      | some (l, r2) =>
        if r2.length < l then none else
        let v := r2.take l
        let rest := r2.drop l
        if t = ttSequence then decFields rest { acc with seq := some (beDec v % two64) } sawFrag
        else if t = ttFragIndex then decFields rest { acc with idx := some (beDec v % two64) } sawFrag
        else if t = ttFragCount then decFields rest { acc with cnt := some (beDec v % two64) } sawFrag
        else if t = ttPitToken then decFields rest { acc with token := v } sawFrag
        else if t = ttIncomingFaceId then decFields rest { acc with inFace := some (beDec v % two64) } sawFrag
        else if t = ttCongestionMark then decFields rest { acc with mark := some (beDec v % two64) } sawFrag
        else if t = ttFragment then decFields rest { acc with frag := v } true
        else if otherKnown t then decFields rest acc sawFrag
        else if critical t then none
        else decFields rest acc sawFrag
termination_by b.length
decreasing_by
  all_goals
    have a := decTL_rest_lt h1
    have c := decTL_rest_lt h2
    simp only [List.length_drop]
    subst hb
    omega

/-- what `spec.ReadPacket` makes of a received frame, as far as the link service cares -/
inductive Decoded
  | lp (f : Frame) (hasFragment : Bool)   -- NDNLPv2 frame
  | bare (typ : Nat)                      -- a bare Interest (5) / Data (6); the frame is the packet
  | error                                 -- not decodable
  deriving Repr

/-- outer element: 0x64 LpPacket, 5 Interest, 6 Data (their inner validity is the business of the
    packet decoders — C03/C04 — and is represented by the parameter `validL3` of the model) -/
def decFrame (b : Bytes) : Decoded :=
  match decTL b with
  | none => .error
  | some (t, r1) =>
    match decTL r1 with
    | none => .error
    | some (l, r2) =>
      if r2.length < l then .error
      else if t = ttLpPacket then
        match decFields (r2.take l) {} false with
        | none => .error
        | some (f, sf) => .lp f sf
      else if t = 5 ∨ t = 6 then .bare t
      else .error

end Ndn.C10
