/-
  C06 helper lemmas, part 2: structural invariant of the RIB tree model (same shape as the
  name-tree FIB of C05: prefix-closed node set, fill, in-place update, pruning).
-/
import NdnVerif.C06.Lemmas
namespace Ndn.C06
open Ndn.C05

/-- route identities inside one entry are pairwise distinct -/
def RouteKeysNodup (rs : List Route) : Prop := (rs.map fun r => (r.face, r.origin)).Nodup

structure RibInv (r : Rib) : Prop where
  root : ahas r.nodes [] = true
  pc : ∀ p k, ahas r.nodes p = true → ahas r.nodes (p.take k) = true
  keys : KeysNodup r.nodes
  nm1 : ∀ key nd x, afind r.nodes key = some nd → nd.name = some x → x = key
  nm2 : ∀ key nd, afind r.nodes key = some nd → nd.routes ≠ [] → nd.name.isSome = true
  rk : ∀ key nd, afind r.nodes key = some nd → RouteKeysNodup nd.routes

theorem routesAt_of_not_has (r : Rib) (n : Name) (h : ahas r.nodes n = false) : r.routesAt n = [] := by
  simp [Rib.routesAt, (ahas_false_iff _ _).mp h]

/-! ### descent -/

theorem descendLen_le (nodes : List (Name × RNode)) (pre rest : Name) : C06.descendLen nodes pre rest ≤ rest.length := by
  induction rest generalizing pre with
  | nil => simp [C06.descendLen]
  | cons c r ih =>
    simp only [C06.descendLen]
    split
    · have := ih (pre ++ [c]); simp; omega
    · simp

theorem descendLen_has (nodes : List (Name × RNode)) (pre rest : Name) (hp : ahas nodes pre = true) :
    ∀ i, i ≤ C06.descendLen nodes pre rest → ahas nodes (pre ++ rest.take i) = true := by
  induction rest generalizing pre with
  | nil => intro i _; simpa using hp
  | cons c r ih =>
    intro i hi
    simp only [C06.descendLen] at hi
    cases i with
    | zero => simpa using hp
    | succ i =>
      split at hi
      · rename_i hc
        have := ih (pre ++ [c]) hc i (by omega)
        simpa using this
      · omega

theorem descendLen_stop (nodes : List (Name × RNode)) (pre rest : Name) (h : C06.descendLen nodes pre rest < rest.length) :
    ahas nodes (pre ++ rest.take (C06.descendLen nodes pre rest + 1)) = false := by
  induction rest generalizing pre with
  | nil => simp at h
  | cons c r ih =>
    simp only [C06.descendLen] at h ⊢
    split
    · rename_i hc
      simp only [hc, if_true] at h
      have := ih (pre ++ [c]) (by simp at h; omega)
      simpa using this
    · rename_i hc
      simpa using hc

theorem Rib.depthOf_le (r : Rib) (name : Name) : r.depthOf name ≤ name.length := descendLen_le _ _ _

theorem Rib.has_upto_depth {r : Rib} (hi : RibInv r) (name : Name) (i : Nat) (h : i ≤ r.depthOf name) :
    ahas r.nodes (name.take i) = true := by
  have := descendLen_has r.nodes [] name hi.root i h
  simpa using this

theorem Rib.not_has_beyond_depth {r : Rib} (hi : RibInv r) (name : Name) (j : Nat)
    (h1 : r.depthOf name < j) (h2 : j ≤ name.length) : ahas r.nodes (name.take j) = false := by
  have hd : r.depthOf name < name.length := by omega
  have hs := descendLen_stop r.nodes [] name hd
  simp only [List.nil_append] at hs
  cases hj : ahas r.nodes (name.take j) with
  | false => rfl
  | true =>
    have := hi.pc _ (r.depthOf name + 1) hj
    rw [List.take_take] at this
    have hm : min (r.depthOf name + 1) j = r.depthOf name + 1 := by omega
    rw [hm] at this
    unfold Rib.depthOf at this
    rw [hs] at this; cases this

theorem Rib.findExact_eq {r : Rib} (hi : RibInv r) (name : Name) : r.findExact name = afind r.nodes name := by
  unfold Rib.findExact
  split
  · rfl
  · rename_i h
    have hlt : r.depthOf name < name.length := by have := r.depthOf_le name; omega
    have := Rib.not_has_beyond_depth hi name name.length hlt (Nat.le_refl _)
    simp only [List.take_length] at this
    exact ((ahas_false_iff _ _).mp this).symm

/-! ### fill -/

theorem afind_blank_map (l : List Nat) (f : Nat → Name) (n : Name) :
    afind (l.map fun k => (f k, RNode.blank)) n = if l.any (fun k => decide (f k = n)) then some RNode.blank else none := by
  induction l with
  | nil => simp [afind]
  | cons a t ih =>
    simp only [List.map_cons, afind, ih, List.any_cons]
    by_cases h : f a = n
    · simp [h]
    · simp [h]

def Rib.isNewKey (r : Rib) (name n : Name) : Bool :=
  (List.range' (r.depthOf name + 1) (name.length - r.depthOf name)).any fun k => decide (name.take k = n)

theorem Rib.isNewKey_iff (r : Rib) (name n : Name) :
    r.isNewKey name n = true ↔ ∃ k, r.depthOf name < k ∧ k ≤ name.length ∧ name.take k = n := by
  have hd := r.depthOf_le name
  simp only [Rib.isNewKey, List.any_eq_true, List.mem_range'_1, decide_eq_true_eq]
  constructor
  · rintro ⟨k, ⟨h1, h2⟩, h3⟩; exact ⟨k, by omega, by omega, h3⟩
  · rintro ⟨k, h1, h2, h3⟩; exact ⟨k, ⟨by omega, by omega⟩, h3⟩

theorem Rib.afind_fill (r : Rib) (name n : Name) :
    afind (r.fill name).nodes n =
      match afind r.nodes n with
      | some v => some v
      | none => if r.isNewKey name n then some RNode.blank else none := by
  simp only [Rib.fill, afind_append, afind_blank_map, Rib.isNewKey]
  cases afind r.nodes n with
  | some v => rfl
  | none =>
    simp only []
    congr

theorem Rib.routesAt_fill (r : Rib) (name n : Name) : (r.fill name).routesAt n = r.routesAt n := by
  simp only [Rib.routesAt, Rib.afind_fill]
  cases afind r.nodes n with
  | some v => rfl
  | none => cases r.isNewKey name n <;> rfl

theorem Rib.ahas_fill (r : Rib) (name n : Name) :
    ahas (r.fill name).nodes n = true ↔
      ahas r.nodes n = true ∨ ∃ k, r.depthOf name < k ∧ k ≤ name.length ∧ name.take k = n := by
  rw [← Rib.isNewKey_iff]
  simp only [ahas, Rib.afind_fill]
  cases afind r.nodes n with
  | some v => simp
  | none => cases r.isNewKey name n <;> simp

theorem Rib.has_fill_self {r : Rib} (hi : RibInv r) (name : Name) : ahas (r.fill name).nodes name = true := by
  rw [Rib.ahas_fill]
  by_cases h : r.depthOf name = name.length
  · left
    have := Rib.has_upto_depth hi name name.length (by omega)
    simpa using this
  · right
    have := r.depthOf_le name
    exact ⟨name.length, by omega, by omega, by simp⟩

theorem Rib.inv_fill {r : Rib} (hi : RibInv r) (name : Name) : RibInv (r.fill name) := by
  have hd := r.depthOf_le name
  have blank : ∀ key nd, afind (r.fill name).nodes key = some nd → afind r.nodes key = none → nd = RNode.blank := by
    intro key nd hf h
    rw [Rib.afind_fill, h] at hf
    cases hk : r.isNewKey name key <;> simp [hk] at hf
    exact hf.symm
  refine ⟨?_, ?_, ?_, ?_, ?_, ?_⟩
  · rw [Rib.ahas_fill]; exact Or.inl hi.root
  · intro p k hp
    rw [Rib.ahas_fill] at hp ⊢
    rcases hp with hp | ⟨j, h1, h2, h3⟩
    · exact Or.inl (hi.pc p k hp)
    · subst h3
      rw [List.take_take]
      by_cases hm : min k j ≤ r.depthOf name
      · exact Or.inl (Rib.has_upto_depth hi name _ hm)
      · exact Or.inr ⟨min k j, by omega, by omega, rfl⟩
  · unfold KeysNodup Rib.fill
    simp only [List.map_append, List.map_map]
    refine List.nodup_append.mpr ⟨hi.keys, ?_, ?_⟩
    · have : ((fun x : Name × RNode => x.fst) ∘ fun k => (List.take k name, RNode.blank)) = fun k => List.take k name := rfl
      rw [this]
      exact nodup_map_take name _ _ (by omega)
    · intro a ha b hb hab
      subst hab
      simp only [List.mem_map, Function.comp, List.mem_range'_1] at hb
      obtain ⟨k, ⟨h1, h2⟩, h3⟩ := hb
      have hn := Rib.not_has_beyond_depth hi name k (by omega) (by omega)
      rw [h3] at hn
      have : afind r.nodes a = none := (ahas_false_iff _ _).mp hn
      exact ((afind_eq_none_iff _ _).mp this) ha
  · intro key nd x hf hx
    cases h : afind r.nodes key with
    | some v => rw [Rib.afind_fill, h] at hf; cases hf; exact hi.nm1 key _ x h hx
    | none => have := blank key nd hf h; subst this; simp [RNode.blank] at hx
  · intro key nd hf he
    cases h : afind r.nodes key with
    | some v => rw [Rib.afind_fill, h] at hf; cases hf; exact hi.nm2 key _ h he
    | none => have := blank key nd hf h; subst this; simp [RNode.blank] at he
  · intro key nd hf
    cases h : afind r.nodes key with
    | some v => rw [Rib.afind_fill, h] at hf; cases hf; exact hi.rk key _ h
    | none => have := blank key nd hf h; subst this; simp [RNode.blank, RouteKeysNodup]

/-! ### updating a node in place, pruning -/

theorem ribInv_update {r : Rib} (hi : RibInv r) {key : Name} {nd nd' : RNode}
    (h : afind r.nodes key = some nd)
    (hn1 : ∀ x, nd'.name = some x → x = key) (hn2 : nd'.routes ≠ [] → nd'.name.isSome = true)
    (hh : RouteKeysNodup nd'.routes) : RibInv ⟨aset r.nodes key nd'⟩ := by
  refine ⟨?_, ?_, keysNodup_aset hi.keys _ _, ?_, ?_, ?_⟩
  · simp only [ahas_aset_of_has h]; exact hi.root
  · intro p k hp
    simp only [ahas_aset_of_has h] at hp ⊢
    exact hi.pc p k hp
  · intro key' nd'' x hf hx
    simp only [afind_aset] at hf
    by_cases hk : key = key'
    · subst hk; simp at hf; subst hf; exact hn1 x hx
    · simp [hk] at hf; exact hi.nm1 key' nd'' x hf hx
  · intro key' nd'' hf he
    simp only [afind_aset] at hf
    by_cases hk : key = key'
    · subst hk; simp at hf; subst hf; exact hn2 he
    · simp [hk] at hf; exact hi.nm2 key' nd'' hf he
  · intro key' nd'' hf
    simp only [afind_aset] at hf
    by_cases hk : key = key'
    · subst hk; simp at hf; subst hf; exact hh
    · simp [hk] at hf; exact hi.rk key' nd'' hf

theorem routesAt_aset (nodes : List (Name × RNode)) (key : Name) (nd' : RNode) (n : Name) :
    Rib.routesAt ⟨aset nodes key nd'⟩ n = if key = n then nd'.routes else Rib.routesAt ⟨nodes⟩ n := by
  simp only [Rib.routesAt, afind_aset]
  by_cases hk : key = n <;> simp [hk]

theorem hasChild_false {nodes : List (Name × RNode)} {q : Name} (h : C06.hasChild nodes q = false) (p : Name)
    (hp : ahas nodes p = true) : ¬ (p.length = q.length + 1 ∧ p.take q.length = q) := by
  obtain ⟨v, hv⟩ := (ahas_iff _ _).mp hp
  have hm := afind_some_mem hv
  unfold C06.hasChild at h
  rw [List.any_eq_false] at h
  have := h _ hm
  simpa using this

theorem ribInv_erase {nodes : List (Name × RNode)} (hi : RibInv ⟨nodes⟩) {q : Name} {nd : RNode}
    (hq : q ≠ []) (hf : afind nodes q = some nd) (he : nd.routes = []) (hc : C06.hasChild nodes q = false) :
    RibInv ⟨aerase nodes q⟩ ∧ (∀ n, Rib.routesAt ⟨aerase nodes q⟩ n = Rib.routesAt ⟨nodes⟩ n) := by
  have hhas : ∀ p, ahas (aerase nodes q) p = true ↔ (ahas nodes p = true ∧ q ≠ p) := by
    intro p
    simp only [ahas, afind_aerase]
    by_cases hk : q = p <;> simp [hk]
  refine ⟨⟨?_, ?_, keysNodup_aerase hi.keys _, ?_, ?_, ?_⟩, ?_⟩
  · exact (hhas []).mpr ⟨hi.root, hq⟩
  · intro p k hp
    rw [hhas] at hp ⊢
    refine ⟨hi.pc p k hp.1, ?_⟩
    intro hqk
    have hklt : k < p.length := by
      by_cases hk : k < p.length
      · exact hk
      · exfalso; apply hp.2; rw [hqk]; exact List.take_of_length_le (by omega)
    have hql : q.length = k := by rw [hqk, List.length_take]; omega
    have hch := hi.pc p (k + 1) hp.1
    apply hasChild_false hc _ hch
    constructor
    · rw [List.length_take]; omega
    · rw [List.take_take, hql]
      have : min k (k + 1) = k := by omega
      rw [this]; exact hqk.symm
  · intro key nd' x hf' hx
    simp only [afind_aerase] at hf'
    by_cases hk : q = key
    · simp [hk] at hf'
    · simp [hk] at hf'; exact hi.nm1 key nd' x hf' hx
  · intro key nd' hf' he'
    simp only [afind_aerase] at hf'
    by_cases hk : q = key
    · simp [hk] at hf'
    · simp [hk] at hf'; exact hi.nm2 key nd' hf' he'
  · intro key nd' hf'
    simp only [afind_aerase] at hf'
    by_cases hk : q = key
    · simp [hk] at hf'
    · simp [hk] at hf'; exact hi.rk key nd' hf'
  · intro n
    simp only [Rib.routesAt, afind_aerase]
    by_cases hk : q = n
    · subst hk; simp [hf, he]
    · simp [hk]

theorem pruneUp_spec (name : Name) (k : Nat) (hk : k ≤ name.length) (nodes : List (Name × RNode)) (hi : RibInv ⟨nodes⟩) :
    RibInv ⟨C06.pruneUp nodes name k⟩ ∧ (∀ n, Rib.routesAt ⟨C06.pruneUp nodes name k⟩ n = Rib.routesAt ⟨nodes⟩ n) := by
  induction k generalizing nodes with
  | zero => exact ⟨hi, fun _ => rfl⟩
  | succ k ih =>
    simp only [C06.pruneUp]
    cases hf : afind nodes (List.take (k + 1) name) with
    | none => exact ⟨hi, fun _ => rfl⟩
    | some nd =>
      simp only []
      by_cases hc : (nd.routes.isEmpty && !C06.hasChild nodes (List.take (k + 1) name)) = true
      · simp only [hc, if_true]
        simp only [Bool.and_eq_true, Bool.not_eq_true', List.isEmpty_iff] at hc
        have hq : List.take (k + 1) name ≠ [] := by
          intro e
          have := congrArg List.length e
          simp only [List.length_take, List.length_nil] at this
          omega
        obtain ⟨h1, h2⟩ := ribInv_erase hi hq hf hc.1 hc.2
        obtain ⟨g1, g2⟩ := ih (by omega) _ h1
        exact ⟨g1, fun n => (g2 n).trans (h2 n)⟩
      · simp only [hc]
        exact ⟨hi, fun _ => rfl⟩

end Ndn.C06
