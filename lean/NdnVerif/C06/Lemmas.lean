/-
  C06 helper lemmas, part 1: minimum cost per face, locality of `flatten`.
-/
import NdnVerif.C06.Model
import NdnVerif.C05.LemmasCall
namespace Ndn.C06
open Ndn.C05

/-! ## minimum cost per face -/

def mcStep (acc : Hops) (r : Route) : Hops :=
  match afind acc r.face with
  | some c => if r.cost < c then aset acc r.face r.cost else acc
  | none => acc ++ [(r.face, r.cost)]

theorem minCost_eq (rs : List Route) : minCost rs = rs.foldl mcStep [] := rfl

/-- `acc` is the minimum-cost map of the routes `seen` -/
def McInv (acc : Hops) (seen : List Route) : Prop :=
  KeysNodup acc ∧ ∀ f,
    match afind acc f with
    | none => ∀ r ∈ seen, r.face ≠ f
    | some c => (∃ r ∈ seen, r.face = f ∧ r.cost = c) ∧ ∀ r ∈ seen, r.face = f → c ≤ r.cost

theorem mcInv_step {acc : Hops} {seen : List Route} (h : McInv acc seen) (r : Route) :
    McInv (mcStep acc r) (seen ++ [r]) := by
  obtain ⟨hn, hf⟩ := h
  unfold mcStep
  cases hc : afind acc r.face with
  | some c =>
    have h0 := hf r.face
    rw [hc] at h0
    simp only [] at h0
    by_cases hlt : r.cost < c
    · simp only [hlt, if_true]
      refine ⟨keysNodup_aset hn _ _, ?_⟩
      intro f
      rw [afind_aset]
      by_cases hk : r.face = f
      · simp only [hk, if_true]
        refine ⟨⟨r, by simp, hk, rfl⟩, ?_⟩
        intro r' hr' hf'
        rcases List.mem_append.mp hr' with h1 | h1
        · have := h0.2 r' h1 (hf'.trans hk.symm); omega
        · simp only [List.mem_singleton] at h1; subst h1; omega
      · simp only [hk, if_false]
        have h1 := hf f
        cases ha : afind acc f with
        | none =>
          rw [ha] at h1; simp only [] at h1 ⊢
          intro r' hr'
          rcases List.mem_append.mp hr' with h2 | h2
          · exact h1 r' h2
          · simp only [List.mem_singleton] at h2; subst h2; exact hk
        | some c' =>
          rw [ha] at h1; simp only [] at h1 ⊢
          obtain ⟨⟨r0, hr0, e1, e2⟩, h3⟩ := h1
          refine ⟨⟨r0, List.mem_append_left _ hr0, e1, e2⟩, ?_⟩
          intro r' hr' hf'
          rcases List.mem_append.mp hr' with h2 | h2
          · exact h3 r' h2 hf'
          · simp only [List.mem_singleton] at h2; subst h2; exact absurd hf' hk
    · simp only [hlt, if_false]
      refine ⟨hn, ?_⟩
      intro f
      have h1 := hf f
      cases ha : afind acc f with
      | none =>
        rw [ha] at h1; simp only [] at h1 ⊢
        intro r' hr'
        rcases List.mem_append.mp hr' with h2 | h2
        · exact h1 r' h2
        · simp only [List.mem_singleton] at h2; subst h2
          intro e; rw [e] at hc; rw [hc] at ha; cases ha
      | some c' =>
        rw [ha] at h1; simp only [] at h1 ⊢
        obtain ⟨⟨r0, hr0, e1, e2⟩, h3⟩ := h1
        refine ⟨⟨r0, List.mem_append_left _ hr0, e1, e2⟩, ?_⟩
        intro r' hr' hf'
        rcases List.mem_append.mp hr' with h2 | h2
        · exact h3 r' h2 hf'
        · simp only [List.mem_singleton] at h2; subst h2
          rw [hf'] at hc; rw [hc] at ha; cases ha; omega
  | none =>
    have h0 := hf r.face
    rw [hc] at h0
    simp only [] at h0 ⊢
    refine ⟨?_, ?_⟩
    · unfold KeysNodup
      simp only [List.map_append, List.map_cons, List.map_nil]
      refine List.nodup_append.mpr ⟨hn, by simp, ?_⟩
      intro a ha b hb e
      simp only [List.mem_singleton] at hb
      subst hb; subst e
      exact ((afind_eq_none_iff _ _).mp hc) ha
    · intro f
      rw [afind_append]
      have h1 := hf f
      cases ha : afind acc f with
      | some c' =>
        rw [ha] at h1; simp only [] at h1 ⊢
        obtain ⟨⟨r0, hr0, e1, e2⟩, h3⟩ := h1
        refine ⟨⟨r0, List.mem_append_left _ hr0, e1, e2⟩, ?_⟩
        intro r' hr' hf'
        rcases List.mem_append.mp hr' with h2 | h2
        · exact h3 r' h2 hf'
        · simp only [List.mem_singleton] at h2; subst h2
          rw [hf'] at hc; rw [hc] at ha; cases ha
      | none =>
        rw [ha] at h1; simp only [afind] at h1 ⊢
        by_cases hk : r.face = f
        · simp only [hk, if_true]
          refine ⟨⟨r, by simp, hk, rfl⟩, ?_⟩
          intro r' hr' hf'
          rcases List.mem_append.mp hr' with h2 | h2
          · exact absurd hf' (h1 r' h2)
          · simp only [List.mem_singleton] at h2; subst h2; omega
        · simp only [hk, if_false]
          intro r' hr'
          rcases List.mem_append.mp hr' with h2 | h2
          · exact h1 r' h2
          · simp only [List.mem_singleton] at h2; subst h2; exact hk

theorem mcInv_fold (rs : List Route) : ∀ (acc : Hops) (seen : List Route), McInv acc seen → McInv (rs.foldl mcStep acc) (seen ++ rs) := by
  induction rs with
  | nil => intro acc seen h; simpa using h
  | cons r t ih =>
    intro acc seen h
    have := ih (mcStep acc r) (seen ++ [r]) (mcInv_step h r)
    simpa [List.foldl_cons, List.append_assoc] using this

theorem minCost_inv (rs : List Route) : McInv (minCost rs) rs := by
  have := mcInv_fold rs [] [] ⟨by simp [KeysNodup], by intro f; simp [afind]⟩
  simpa [minCost_eq] using this

theorem minCost_nodup (rs : List Route) : KeysNodup (minCost rs) := (minCost_inv rs).1

theorem minCost_ne_nil {rs : List Route} (h : rs ≠ []) : minCost rs ≠ [] := by
  cases rs with
  | nil => exact absurd rfl h
  | cons r t =>
    intro e
    have := (minCost_inv (r :: t)).2 r.face
    rw [e] at this
    simp only [afind] at this
    exact this r (by simp) rfl

/-! ## locality of `flatten` -/

theorem inherited_congr (R R' : Name → List Route) (name : Name) (k : Nat)
    (h : ∀ j, j < k → R (name.take j) = R' (name.take j)) : inherited R name k = inherited R' name k := by
  induction k with
  | zero => rfl
  | succ k ih =>
    simp only [inherited]
    rw [h k (by omega), ih (fun j hj => h j (by omega))]

theorem flatten_congr (R R' : Name → List Route) (p : Name)
    (h : ∀ j, j ≤ p.length → R (p.take j) = R' (p.take j)) : flatten R p = flatten R' p := by
  have hp : R p = R' p := by have := h p.length (Nat.le_refl _); simpa using this
  unfold flatten contributing
  rw [hp, inherited_congr R R' p p.length (fun j hj => h j (by omega))]

theorem flatten_of_no_routes (R : Name → List Route) (p : Name) (h : R p = []) : flatten R p = [] := by
  simp [flatten, h]

theorem flatten_ne_nil (R : Name → List Route) (p : Name) (h : R p ≠ []) : flatten R p ≠ [] := by
  unfold flatten
  have : (R p).isEmpty = false := by cases hr : R p with
    | nil => exact absurd hr h
    | cons _ _ => rfl
  simp only [this, Bool.false_eq_true, if_false]
  apply minCost_ne_nil
  unfold contributing
  intro e
  have := List.append_eq_nil_iff.mp e
  exact h this.1

/-- a name that `p` is not a prefix of has no prefix equal to `p` -/
theorem take_ne_of_not_prefix {p x : Name} (h : x.take p.length ≠ p) (j : Nat) (hj : j ≤ x.length) : x.take j ≠ p := by
  intro e
  apply h
  have : p.length = j := by rw [← e, List.length_take]; omega
  rw [this]; exact e

end Ndn.C06
