/-
  C06 model — fw/table/rib.go (RibTable / RibEntry) on top of the abstract FIB of C05
  (`C05.Spec`, which both real FIBs refine: C05 theorems `tree_refines_spec`, `hash_refines_spec`).
  Mirrors what the code does.  Core Lean only.

  Representation (see design/C06.md): the pointer tree of `RibEntry` is its node set keyed by the
  path from the root; the parent of the node at `p ++ [c]` is the node at `p`; `children` is a
  Go map (iteration order arbitrary) — every traversal is modelled in one fixed order and the
  theorems about `cleanup` are proved for every visiting order.
-/
import NdnVerif.C06.Spec
namespace Ndn.C06
open Ndn.C05

structure RNode where
  name : Option Name          -- `RibEntry.Name` (nil for nodes created as path fillers)
  routes : List Route         -- `RibEntry.routes`
deriving Repr

def RNode.blank : RNode := ⟨none, []⟩

structure Rib where
  nodes : List (Name × RNode)     -- key = path from the root; the root `[]` is always present
deriving Repr

/-- the global `Rib` initial value: a root without name, routes or children -/
def Rib.init : Rib := ⟨[([], RNode.blank)]⟩

/-- RIB plus the FIB it writes to -/
structure St where
  rib : Rib
  fib : C05.Spec
deriving Repr

def St.init (dflt : Name) : St := ⟨Rib.init, C05.Spec.init dflt⟩

/-- `findLongestPrefixEntryEnc`: levels descended from the node at `pre` along `rest` -/
def descendLen (nodes : List (Name × RNode)) : Name → Name → Nat
  | _, [] => 0
  | pre, c :: r => if ahas nodes (pre ++ [c]) then descendLen nodes (pre ++ [c]) r + 1 else 0

def Rib.depthOf (r : Rib) (name : Name) : Nat := descendLen r.nodes [] name

/-- `findExactMatchEntryEnc` -/
def Rib.findExact (r : Rib) (name : Name) : Option RNode :=
  if r.depthOf name = name.length then afind r.nodes name else none

/-- `fillTreeToPrefixEnc` -/
def Rib.fill (r : Rib) (name : Name) : Rib :=
  let d := r.depthOf name
  ⟨r.nodes ++ (List.range' (d + 1) (name.length - d)).map fun k => (name.take k, RNode.blank)⟩

/-- the routes stored in the node at path `p` (none if there is no node) -/
def Rib.routesAt (r : Rib) (p : Name) : List Route :=
  match afind r.nodes p with
  | some nd => nd.routes
  | none => []

def hasChild (nodes : List (Name × RNode)) (p : Name) : Bool :=
  nodes.any fun q => q.1.length == p.length + 1 && decide (q.1.take p.length = p)

/-- `pruneIfEmpty`: `for e := r; e.parent != nil && len(e.children) == 0 && len(e.routes) == 0; e = e.parent`
    delete `e` from its parent's children -/
def pruneUp (nodes : List (Name × RNode)) (name : Name) : Nat → List (Name × RNode)
  | 0 => nodes
  | k + 1 =>
    match afind nodes (name.take (k + 1)) with
    | none => nodes
    | some nd =>
      if nd.routes.isEmpty && !hasChild nodes (name.take (k + 1)) then
        pruneUp (aerase nodes (name.take (k + 1))) name k
      else nodes

/-- the inheritance loop of `updateNexthopsEnc` for the node at `name.take k`:
    `for e := r.parent; e != nil; e = e.parent { append child-inherit routes of e; if e.HasCaptureRoute() { break } }` -/
def walkParents (r : Rib) (name : Name) : Nat → List Route
  | 0 => []
  | k + 1 =>
    let rs := r.routesAt (name.take k)
    rs.filter Route.childInherit ++ (if rs.any Route.capture then [] else walkParents r name k)

/-- the FIB calls made by the body of `updateNexthopsEnc` for one node (without the recursion
    into the children): none for a filler node; otherwise `ClearNextHopsEnc(r.Name)` and, if the
    node has routes, one `InsertNextHopEnc(r.Name, face, cost)` per face of the minimum-cost map
    over own + inherited routes -/
def recomputeOps (r : Rib) (p : Name) : List C05.Op :=
  match afind r.nodes p with
  | none => []
  | some nd =>
    match nd.name with
    | none => []
    | some nm =>
      if nd.routes.isEmpty then [.clr nm]
      else
        let rs := nd.routes ++ (if nd.routes.any Route.capture then [] else walkParents r p p.length)
        .clr nm :: (minCost rs).map fun h => .ins nm h.1 h.2

/-- `updateNexthopsEnc` including `for child := range r.children { child.updateNexthopsEnc() }`:
    the node at `p` and every node below it is recomputed once -/
def updateSubtreeOps (r : Rib) (p : Name) : List C05.Op :=
  (r.nodes.filter fun q => decide (q.1.take p.length = p)).flatMap fun q => recomputeOps r q.1

/-- `if node.Name == nil { node.Name = name }` -/
def RNode.named (nd : RNode) (name : Name) : RNode :=
  { nd with name := match nd.name with | some x => some x | none => some name }

/-- `RemoveRouteEnc` inner loop: delete the first route with this (face, origin) -/
def removeRoute : List Route → Nat → Nat → List Route
  | [], _, _ => []
  | x :: t, f, o => if x.sameKey f o then t else x :: removeRoute t f o

/-- `AddEncRoute`: new RIB and the FIB calls it makes -/
def Rib.reg (r : Rib) (name : Name) (rt : Route) : Rib × List C05.Op :=
  let r1 := r.fill name
  let r2 : Rib := ⟨amodify r1.nodes name fun nd => { nd.named name with routes := upsertRoute nd.routes rt }⟩
  (r2, updateSubtreeOps r2 name)

/-- `RemoveRouteEnc` -/
def Rib.unreg (r : Rib) (name : Name) (f o : Nat) : Rib × List C05.Op :=
  match r.findExact name with
  | none => (r, [])
  | some nd =>
    let r1 : Rib := ⟨aset r.nodes name { nd with routes := removeRoute nd.routes f o }⟩
    (⟨pruneUp r1.nodes name name.length⟩, updateSubtreeOps r1 name)

/-- the per-entry part of `CleanUpFace` (after the recursion into the children): drop every
    route of the face; if something was dropped recompute the subtree and prune -/
def Rib.cleanNode (r : Rib) (face : Nat) (p : Name) : Rib × List C05.Op :=
  match afind r.nodes p with
  | none => (r, [])
  | some nd =>
    if nd.routes.any (fun x => x.face == face) then
      let r1 : Rib := ⟨aset r.nodes p { nd with routes := nd.routes.filter fun x => !(x.face == face) }⟩
      (⟨pruneUp r1.nodes p p.length⟩, updateSubtreeOps r1 p)
    else (r, [])

/-- `CleanUpFace` visiting the entries in the order `ord` -/
def Rib.cleanupOrd (r : Rib) (face : Nat) : List Name → Rib × List C05.Op
  | [] => (r, [])
  | p :: ord =>
    let (r1, o1) := r.cleanNode face p
    let (r2, o2) := r1.cleanupOrd face ord
    (r2, o1 ++ o2)

def insertByDepth (x : Name) : List Name → List Name
  | [] => [x]
  | y :: t => if y.length ≤ x.length then x :: y :: t else y :: insertByDepth x t

/-- children before parents (one of the orders the recursion over the `children` maps can take) -/
def Rib.postOrder (r : Rib) : List Name := (r.nodes.map (·.1)).foldl (fun acc x => insertByDepth x acc) []

/-- one RIB operation: new RIB and the FIB calls made -/
def Rib.apply (r : Rib) : Op → Rib × List C05.Op
  | .reg n rt => r.reg n rt
  | .unreg n f o => r.unreg n f o
  | .cleanup f => r.cleanupOrd f r.postOrder

/-- the RIB together with the (abstract) FIB it writes to -/
def St.apply (s : St) (op : Op) : St :=
  let (r', calls) := s.rib.apply op
  ⟨r', calls.foldl C05.Spec.apply s.fib⟩

/-- `GetAllEntries`: every node with routes, as (entry.Name, routes) -/
def Rib.list (r : Rib) : List (Name × List Route) :=
  (r.nodes.filter fun q => !q.2.routes.isEmpty).map fun q => (q.2.name.getD [], q.2.routes)

end Ndn.C06
