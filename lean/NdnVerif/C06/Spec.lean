/-
  C06 specification — the route multiset and its flattening into FIB next hops, exactly as the
  property states it.  Executable, independent of the RIB implementation.  Core Lean only.
-/
import NdnVerif.C05.Spec
namespace Ndn.C06
open Ndn.C05

/-- a registered route; identity inside a prefix is (face, origin) -/
structure Route where
  face : Nat
  origin : Nat
  cost : Nat
  flags : Nat
deriving DecidableEq, Repr

/-- `RouteFlagChildInherit = 0x01` -/
def Route.childInherit (r : Route) : Bool := r.flags % 2 == 1
/-- `RouteFlagCapture = 0x02` -/
def Route.capture (r : Route) : Bool := r.flags / 2 % 2 == 1

def Route.sameKey (r : Route) (face origin : Nat) : Bool := r.face == face && r.origin == origin

inductive Op where
  | reg (n : Name) (r : Route)                 -- register / re-register
  | unreg (n : Name) (face origin : Nat)       -- unregister
  | cleanup (face : Nat)                       -- the face is destroyed
deriving Repr

/-- add a route or replace the one with the same (face, origin) -/
def upsertRoute : List Route → Route → List Route
  | [], r => [r]
  | x :: t, r => if x.sameKey r.face r.origin then r :: t else x :: upsertRoute t r

/-- The currently registered routes: prefix ↦ its routes (only prefixes that have some). -/
structure Spec where
  routes : List (Name × List Route)
deriving Repr

def Spec.init : Spec := ⟨[]⟩

/-- the routes registered on exactly the prefix `n` -/
def Spec.routesAt (s : Spec) (n : Name) : List Route := (afind s.routes n).getD []

def Spec.apply (s : Spec) : Op → Spec
  | .reg n r => ⟨aset s.routes n (upsertRoute (s.routesAt n) r)⟩
  | .unreg n f o =>
    let rs := (s.routesAt n).filter fun r => !r.sameKey f o
    ⟨if rs.isEmpty then aerase s.routes n else aset s.routes n rs⟩
  | .cleanup f =>
    ⟨(s.routes.map fun p => (p.1, p.2.filter fun r => !(r.face == f))).filter fun p => !p.2.isEmpty⟩

/-- minimum cost per face over a list of contributing routes -/
def minCost (rs : List Route) : Hops :=
  rs.foldl (fun acc r =>
    match afind acc r.face with
    | some c => if r.cost < c then aset acc r.face r.cost else acc
    | none => acc ++ [(r.face, r.cost)]) []

/-- Routes inherited by the prefix `name.take k` from its proper prefixes `name.take (k-1)`, …,
    `name.take 0`, nearest first: the child-inherit routes of each, stopping after (and
    including) the nearest one that holds a capture route.  Prefixes without routes contribute
    nothing and stop nothing. -/
def inherited (R : Name → List Route) (name : Name) : Nat → List Route
  | 0 => []
  | k + 1 =>
    let a := R (name.take k)
    a.filter Route.childInherit ++ (if a.any Route.capture then [] else inherited R name k)

/-- the contributing routes of prefix `p`: its own routes, plus the inherited ones unless `p`
    itself holds a capture route -/
def contributing (R : Name → List Route) (p : Name) : List Route :=
  R p ++ (if (R p).any Route.capture then [] else inherited R p p.length)

/-- the FIB next hops of prefix `p`: nothing if `p` has no routes, otherwise each contributing
    face at its minimum cost -/
def flatten (R : Name → List Route) (p : Name) : Hops :=
  if (R p).isEmpty then [] else minCost (contributing R p)

/-- what the FIB must hold at prefix `p` -/
def Spec.fibAt (s : Spec) (p : Name) : Hops := flatten s.routesAt p

/-- what a next-hop lookup must return: longest-prefix match over the flattened entries -/
def Spec.lookup (s : Spec) (name : Name) : Hops := lpm s.fibAt (fun h => !h.isEmpty) [] name name.length

/-- the FIB listing: exactly the prefixes that have routes, each with its flattening -/
def Spec.listFib (s : Spec) : List (Name × Hops) :=
  (s.routes.filter fun p => !p.2.isEmpty).map fun p => (p.1, flatten s.routesAt p.1)

/-- the RIB listing -/
def Spec.listRib (s : Spec) : List (Name × List Route) := s.routes.filter fun p => !p.2.isEmpty

end Ndn.C06
