/-
  C06 helper lemmas, part 4: every RIB operation preserves "FIB = flatten(RIB routes)" and the
  RIB's routes equal the specification's route map; histories.
-/
import NdnVerif.C06.LemmasFib
namespace Ndn.C06
open Ndn.C05

/-! ### route lists -/

theorem sameKey_iff (r : Route) (f o : Nat) : r.sameKey f o = true ↔ (r.face, r.origin) = (f, o) := by
  simp [Route.sameKey]

theorem routeKeys_upsert {rs : List Route} (h : RouteKeysNodup rs) (rt : Route) : RouteKeysNodup (upsertRoute rs rt) := by
  have keys : (upsertRoute rs rt).map (fun r => (r.face, r.origin)) =
      if (rt.face, rt.origin) ∈ rs.map (fun r => (r.face, r.origin)) then rs.map (fun r => (r.face, r.origin))
      else rs.map (fun r => (r.face, r.origin)) ++ [(rt.face, rt.origin)] := by
    induction rs with
    | nil => simp [upsertRoute]
    | cons x t ih =>
      have ht : RouteKeysNodup t := (List.nodup_cons.mp h).2
      by_cases hk : x.sameKey rt.face rt.origin = true
      · have := (sameKey_iff _ _ _).mp hk
        simp [upsertRoute, hk, this]
      · have hne : ¬ (x.face, x.origin) = (rt.face, rt.origin) := fun e => hk ((sameKey_iff _ _ _).mpr e)
        have hne' : ¬ (rt.face, rt.origin) = (x.face, x.origin) := fun e => hne e.symm
        simp only [upsertRoute, hk, Bool.false_eq_true, if_false, List.map_cons, ih ht, List.mem_cons, hne', false_or]
        split <;> simp
  unfold RouteKeysNodup at *
  rw [keys]
  split
  · exact h
  · rename_i hm
    refine List.nodup_append.mpr ⟨h, by simp, ?_⟩
    intro a ha b hb e
    simp only [List.mem_singleton] at hb
    subst hb; subst e
    exact hm ha

theorem routeKeys_filter {rs : List Route} (h : RouteKeysNodup rs) (g : Route → Bool) : RouteKeysNodup (rs.filter g) :=
  (List.filter_sublist.map _).nodup h

theorem removeRoute_eq_filter {rs : List Route} (h : RouteKeysNodup rs) (f o : Nat) :
    removeRoute rs f o = rs.filter fun r => !r.sameKey f o := by
  induction rs with
  | nil => rfl
  | cons x t ih =>
    have h1 : (x.face, x.origin) ∉ t.map (fun r => (r.face, r.origin)) := (List.nodup_cons.mp h).1
    have h2 : RouteKeysNodup t := (List.nodup_cons.mp h).2
    by_cases hk : x.sameKey f o = true
    · simp only [removeRoute, hk, if_true, List.filter_cons, Bool.not_true, Bool.false_eq_true, if_false]
      symm
      rw [List.filter_eq_self]
      intro q hq
      simp only [Bool.not_eq_eq_eq_not, Bool.not_true]
      cases hq' : q.sameKey f o with
      | false => rfl
      | true =>
        exfalso; apply h1
        rw [(sameKey_iff _ _ _).mp hk, ← (sameKey_iff _ _ _).mp hq']
        exact List.mem_map.mpr ⟨q, hq, rfl⟩
    · simp [removeRoute, hk, List.filter_cons, ih h2]

/-! ### the state invariant -/

structure Inv (s : St) : Prop where
  rib : RibInv s.rib
  fib : ∀ x, s.fib.nhAt x = flatten s.rib.routesAt x
  fibInv : C05.SpecInv s.fib

theorem specInv_foldl {fib : C05.Spec} (h : C05.SpecInv fib) (calls : List C05.Op) : C05.SpecInv (calls.foldl C05.Spec.apply fib) := by
  induction calls generalizing fib with
  | nil => exact h
  | cons c t ih => exact ih (C05.Spec.inv_apply h c)

theorem named_aset (nodes : List (Name × RNode)) (key : Name) (nd' : RNode) :
    Rib.named ⟨aset nodes key nd'⟩ key = nd'.name.isSome := by
  simp [Rib.named, afind_aset]

theorem Rib.reg_spec {r : Rib} (hi : RibInv r) (name : Name) (rt : Route) (fib : C05.Spec)
    (hfib : ∀ x, fib.nhAt x = flatten r.routesAt x) :
    RibInv (r.reg name rt).1 ∧
    (∀ x, (r.reg name rt).1.routesAt x = if name = x then upsertRoute (r.routesAt name) rt else r.routesAt x) ∧
    (∀ x, ((r.reg name rt).2.foldl C05.Spec.apply fib).nhAt x = flatten (r.reg name rt).1.routesAt x) := by
  have hi1 := Rib.inv_fill hi name
  obtain ⟨nd, hnd⟩ := (ahas_iff _ _).mp (Rib.has_fill_self hi name)
  have hr2 : (r.reg name rt).1 = ⟨aset (r.fill name).nodes name { nd.named name with routes := upsertRoute nd.routes rt }⟩ := by
    simp only [Rib.reg, amodify, hnd]
  have hcalls : (r.reg name rt).2 = updateSubtreeOps (r.reg name rt).1 name := rfl
  have hnamed : ({ nd.named name with routes := upsertRoute nd.routes rt } : RNode).name.isSome = true := by
    simp only [RNode.named]; cases nd.name <;> rfl
  have hinv : RibInv (r.reg name rt).1 := by
    rw [hr2]
    apply ribInv_update hi1 hnd
    · intro x hx
      simp only [RNode.named] at hx
      cases hn : nd.name with
      | none => rw [hn] at hx; simp at hx; exact hx.symm
      | some y => rw [hn] at hx; simp at hx; subst hx; exact hi1.nm1 name nd y hnd hn
    · intro _; exact hnamed
    · exact routeKeys_upsert (hi1.rk name nd hnd) rt
  have hroutes : ∀ x, (r.reg name rt).1.routesAt x = if name = x then upsertRoute (r.routesAt name) rt else r.routesAt x := by
    intro x
    rw [hr2, routesAt_aset]
    have hfillr := Rib.routesAt_fill r name
    by_cases hk : name = x
    · simp only [hk, if_true]
      have := hfillr x
      rw [← hk] at this
      simp only [Rib.routesAt, hnd] at this
      subst hk
      simp only [Rib.routesAt, ← this]
    · simp only [hk, if_false]; exact hfillr x
  refine ⟨hinv, hroutes, ?_⟩
  rw [hcalls]
  apply update_lemma hinv name fib hfib
  · intro x hx
    have hne : ¬ name = x := fun e => hx e.symm
    rw [hroutes x]; simp [hne]
  · intro hn
    rw [hr2, named_aset, hnamed] at hn; cases hn

/-- shared by `RemoveRouteEnc` and the per-entry part of `CleanUpFace`: replace the routes of an
    existing entry by `rs'`, make the FIB calls of `updateNexthopsEnc`, prune -/
theorem Rib.change_spec {r : Rib} (hi : RibInv r) (p : Name) (nd : RNode) (hnd : afind r.nodes p = some nd)
    (rs' : List Route) (hk : RouteKeysNodup rs') (hsub : rs' ≠ [] → nd.routes ≠ []) (fib : C05.Spec)
    (hfib : ∀ x, fib.nhAt x = flatten r.routesAt x) :
    let r1 : Rib := ⟨aset r.nodes p { nd with routes := rs' }⟩
    let r2 : Rib := ⟨C06.pruneUp r1.nodes p p.length⟩
    RibInv r2 ∧ (∀ x, r2.routesAt x = if p = x then rs' else r.routesAt x) ∧
    (∀ x, ((updateSubtreeOps r1 p).foldl C05.Spec.apply fib).nhAt x = flatten r2.routesAt x) := by
  intro r1 r2
  have hi1 : RibInv r1 := by
    apply ribInv_update hi hnd
    · intro x hx; exact hi.nm1 p nd x hnd hx
    · intro h; exact hi.nm2 p nd hnd (hsub h)
    · exact hk
  obtain ⟨g1, g2⟩ := pruneUp_spec p p.length (Nat.le_refl _) _ hi1
  have hroutes1 : ∀ x, r1.routesAt x = if p = x then rs' else r.routesAt x := fun x => routesAt_aset _ _ _ _
  refine ⟨g1, fun x => (g2 x).trans (hroutes1 x), ?_⟩
  intro x
  have hfun : r2.routesAt = r1.routesAt := funext g2
  rw [hfun]
  apply update_lemma hi1 p fib hfib
  · intro y hy
    have hne : ¬ p = y := fun e => hy e.symm
    rw [hroutes1 y]; simp [hne]
  · intro hn
    have : nd.name.isSome = false := by
      have := named_aset r.nodes p { nd with routes := rs' }
      rw [this] at hn; exact hn
    cases hr : r.routesAt p with
    | nil => rfl
    | cons a t =>
      have h' : nd.routes ≠ [] := by
        simp only [Rib.routesAt, hnd] at hr; rw [hr]; simp
      have := hi.nm2 p nd hnd h'
      simp_all

theorem Rib.unreg_spec {r : Rib} (hi : RibInv r) (name : Name) (f o : Nat) (fib : C05.Spec)
    (hfib : ∀ x, fib.nhAt x = flatten r.routesAt x) :
    RibInv (r.unreg name f o).1 ∧
    (∀ x, (r.unreg name f o).1.routesAt x = if name = x then (r.routesAt name).filter (fun q => !q.sameKey f o) else r.routesAt x) ∧
    (∀ x, ((r.unreg name f o).2.foldl C05.Spec.apply fib).nhAt x = flatten (r.unreg name f o).1.routesAt x) := by
  unfold Rib.unreg
  rw [Rib.findExact_eq hi]
  cases hnd : afind r.nodes name with
  | none =>
    refine ⟨hi, ?_, fun x => by simpa using hfib x⟩
    intro x
    by_cases hk : name = x
    · subst hk; simp [Rib.routesAt, hnd]
    · simp [hk]
  | some nd =>
    simp only []
    have hrm := removeRoute_eq_filter (hi.rk name nd hnd) f o
    obtain ⟨a, b, c⟩ := Rib.change_spec hi name nd hnd (removeRoute nd.routes f o)
      (by rw [hrm]; exact routeKeys_filter (hi.rk name nd hnd) _)
      (by intro h e; rw [e] at h; exact h rfl) fib hfib
    refine ⟨a, ?_, c⟩
    intro x
    rw [b x, hrm]
    by_cases hk : name = x
    · subst hk; simp [Rib.routesAt, hnd]
    · simp [hk]

theorem Rib.cleanNode_spec {r : Rib} (hi : RibInv r) (face : Nat) (p : Name) (fib : C05.Spec)
    (hfib : ∀ x, fib.nhAt x = flatten r.routesAt x) :
    RibInv (r.cleanNode face p).1 ∧
    (∀ x, (r.cleanNode face p).1.routesAt x = if p = x then (r.routesAt p).filter (fun q => !(q.face == face)) else r.routesAt x) ∧
    (∀ x, ((r.cleanNode face p).2.foldl C05.Spec.apply fib).nhAt x = flatten (r.cleanNode face p).1.routesAt x) := by
  unfold Rib.cleanNode
  cases hnd : afind r.nodes p with
  | none =>
    refine ⟨hi, ?_, fun x => by simpa using hfib x⟩
    intro x
    by_cases hk : p = x
    · subst hk; simp [Rib.routesAt, hnd]
    · simp [hk]
  | some nd =>
    simp only []
    by_cases hany : (nd.routes.any fun x => x.face == face) = true
    · simp only [hany, if_true]
      obtain ⟨a, b, c⟩ := Rib.change_spec hi p nd hnd (nd.routes.filter fun x => !(x.face == face))
        (routeKeys_filter (hi.rk p nd hnd) _)
        (by intro h e; rw [e] at h; exact h rfl) fib hfib
      refine ⟨a, ?_, c⟩
      intro x
      rw [b x]
      by_cases hk : p = x
      · subst hk; simp [Rib.routesAt, hnd]
      · simp [hk]
    · simp only [hany]
      refine ⟨hi, ?_, fun x => by simpa using hfib x⟩
      intro x
      by_cases hk : p = x
      · subst hk
        have hself : nd.routes.filter (fun q => !(q.face == face)) = nd.routes := by
          rw [List.filter_eq_self]
          intro q hq
          simp only [Bool.not_eq_true, List.any_eq_false, beq_iff_eq] at hany
          simp [hany q hq]
        simp [Rib.routesAt, hnd, hself]
      · simp [hk]

theorem Rib.cleanupOrd_spec (face : Nat) (ord : List Name) : ∀ {r : Rib} (_ : RibInv r) (fib : C05.Spec)
    (_ : ∀ x, fib.nhAt x = flatten r.routesAt x),
    RibInv (r.cleanupOrd face ord).1 ∧
    (∀ x, (x ∈ ord → (r.cleanupOrd face ord).1.routesAt x = (r.routesAt x).filter (fun q => !(q.face == face))) ∧
          (x ∉ ord → (r.cleanupOrd face ord).1.routesAt x = r.routesAt x)) ∧
    (∀ x, ((r.cleanupOrd face ord).2.foldl C05.Spec.apply fib).nhAt x = flatten (r.cleanupOrd face ord).1.routesAt x) := by
  induction ord with
  | nil => intro r hi fib hfib; exact ⟨hi, fun x => by simp [Rib.cleanupOrd], fun x => by simpa [Rib.cleanupOrd] using hfib x⟩
  | cons p t ih =>
    intro r hi fib hfib
    obtain ⟨a1, b1, c1⟩ := Rib.cleanNode_spec hi face p fib hfib
    obtain ⟨a2, b2, c2⟩ := ih a1 _ c1
    have hdef : r.cleanupOrd face (p :: t) =
        (((r.cleanNode face p).1.cleanupOrd face t).1, (r.cleanNode face p).2 ++ ((r.cleanNode face p).1.cleanupOrd face t).2) := rfl
    rw [hdef]
    refine ⟨a2, ?_, ?_⟩
    · intro x
      simp only []
      constructor
      · intro hm
        by_cases hk : p = x
        · subst hk
          by_cases hmt : p ∈ t
          · rw [(b2 p).1 hmt, b1 p]; simp [List.filter_filter]
          · rw [(b2 p).2 hmt, b1 p]; simp
        · have hmt : x ∈ t := by
            rcases List.mem_cons.mp hm with h | h
            · exact absurd h.symm hk
            · exact h
          rw [(b2 x).1 hmt, b1 x]; simp [hk]
      · intro hm
        have hk : ¬ p = x := fun e => hm (by simp [e])
        have hmt : x ∉ t := fun h => hm (List.mem_cons_of_mem _ h)
        rw [(b2 x).2 hmt, b1 x]; simp [hk]
    · intro x
      simp only [List.foldl_append]
      exact c2 x

theorem mem_insertByDepth (x y : Name) (l : List Name) : y ∈ insertByDepth x l ↔ y = x ∨ y ∈ l := by
  induction l with
  | nil => simp [insertByDepth]
  | cons a t ih =>
    simp only [insertByDepth]
    split
    · simp
    · simp only [List.mem_cons, ih]
      constructor
      · rintro (h | h | h); exact Or.inr (Or.inl h); exact Or.inl h; exact Or.inr (Or.inr h)
      · rintro (h | h | h); exact Or.inr (Or.inl h); exact Or.inl h; exact Or.inr (Or.inr h)

theorem mem_postOrder (r : Rib) (y : Name) : y ∈ r.postOrder ↔ y ∈ r.nodes.map (·.1) := by
  unfold Rib.postOrder
  have : ∀ (l acc : List Name), y ∈ l.foldl (fun acc x => insertByDepth x acc) acc ↔ y ∈ l ∨ y ∈ acc := by
    intro l
    induction l with
    | nil => intro acc; simp
    | cons a t ih =>
      intro acc
      simp only [List.foldl_cons, ih, mem_insertByDepth, List.mem_cons]
      constructor
      · rintro (h | h | h); exact Or.inl (Or.inr h); exact Or.inl (Or.inl h); exact Or.inr h
      · rintro ((h | h) | h); exact Or.inr (Or.inl h); exact Or.inl h; exact Or.inr (Or.inr h)
  simpa using this (r.nodes.map (·.1)) []

theorem Rib.apply_spec {r : Rib} (hi : RibInv r) (op : Op) (fib : C05.Spec)
    (hfib : ∀ x, fib.nhAt x = flatten r.routesAt x) :
    RibInv (r.apply op).1 ∧
    (∀ x, (r.apply op).1.routesAt x = match op with
      | .reg n rt => if n = x then upsertRoute (r.routesAt n) rt else r.routesAt x
      | .unreg n f o => if n = x then (r.routesAt n).filter (fun q => !q.sameKey f o) else r.routesAt x
      | .cleanup f => (r.routesAt x).filter (fun q => !(q.face == f))) ∧
    (∀ x, ((r.apply op).2.foldl C05.Spec.apply fib).nhAt x = flatten (r.apply op).1.routesAt x) := by
  cases op with
  | reg n rt => exact Rib.reg_spec hi n rt fib hfib
  | unreg n f o => exact Rib.unreg_spec hi n f o fib hfib
  | cleanup f =>
    obtain ⟨a, b, c⟩ := Rib.cleanupOrd_spec f r.postOrder hi fib hfib
    refine ⟨a, ?_, c⟩
    intro x
    simp only [Rib.apply]
    by_cases hm : x ∈ r.postOrder
    · exact (b x).1 hm
    · rw [(b x).2 hm]
      rw [mem_postOrder] at hm
      have : afind r.nodes x = none := (afind_eq_none_iff _ _).mpr hm
      simp [Rib.routesAt, this]

end Ndn.C06
