/-
  C06 helper lemmas, part 3: the effect of the FIB calls made by `updateNexthopsEnc` on the
  abstract FIB, and the update lemma (recomputing the subtree re-establishes FIB = flatten).
-/
import NdnVerif.C06.LemmasRib
namespace Ndn.C06
open Ndn.C05

/-! ### folding FIB calls -/

/-- a node that has a name (it was registered at some time) -/
def Rib.named (r : Rib) (p : Name) : Bool :=
  match afind r.nodes p with
  | some nd => nd.name.isSome
  | none => false

theorem walkParents_eq (r : Rib) (name : Name) (k : Nat) : walkParents r name k = inherited r.routesAt name k := by
  induction k with
  | zero => rfl
  | succ k ih => simp only [walkParents, inherited, ih]

theorem recomputeOps_nhAt {r : Rib} (hi : RibInv r) (p : Name) (fib : C05.Spec) (q : Name) :
    ((recomputeOps r p).foldl C05.Spec.apply fib).nhAt q =
      if r.named p = true ∧ p = q then flatten r.routesAt p else fib.nhAt q := by
  unfold recomputeOps Rib.named
  cases hf : afind r.nodes p with
  | none => simp
  | some nd =>
    simp only []
    by_cases hnone : nd.name = none
    · simp [hnone]
    · obtain ⟨nm, hn⟩ := Option.ne_none_iff_exists'.mp hnone
      simp only [hn]
      have hnm : nm = p := hi.nm1 p nd nm hf hn
      subst hnm
      simp only [Option.isSome_some, true_and]
      have hr : r.routesAt nm = nd.routes := by simp [Rib.routesAt, hf]
      by_cases he : nd.routes.isEmpty = true
      · simp only [he, if_true, List.foldl_cons, List.foldl_nil, C05.Spec.nhAt_apply, nhStep]
        by_cases hk : nm = q
        · simp only [hk, if_true]
          rw [← hk, flatten_of_no_routes _ _ (by rw [hr]; exact List.isEmpty_iff.mp he)]
        · simp [hk]
      · simp only [he, Bool.false_eq_true, if_false, List.foldl_cons]
        rw [foldl_ins_nhAt]
        by_cases hk : nm = q
        · simp only [hk, if_true]
          subst hk
          simp only [C05.Spec.nhAt_apply, nhStep, if_true]
          rw [foldl_aset_append _ [] (by simpa using minCost_nodup _)]
          simp only [List.nil_append, flatten, contributing, hr, walkParents_eq]
          simp [he]
        · simp only [hk, if_false, C05.Spec.nhAt_apply, nhStep]

theorem flatMap_recompute_nhAt {r : Rib} (hi : RibInv r) (L : List (Name × RNode)) : ∀ (fib : C05.Spec) (x : Name),
    ((L.flatMap fun q => recomputeOps r q.1).foldl C05.Spec.apply fib).nhAt x =
      if r.named x = true ∧ (∃ q ∈ L, q.1 = x) then flatten r.routesAt x else fib.nhAt x := by
  induction L with
  | nil => intro fib x; simp
  | cons a t ih =>
    intro fib x
    simp only [List.flatMap_cons, List.foldl_append]
    rw [ih, recomputeOps_nhAt hi]
    by_cases h1 : r.named x = true
    · by_cases h2 : ∃ q ∈ t, q.1 = x
      · have : ∃ q ∈ a :: t, q.1 = x := by obtain ⟨q, hq, e⟩ := h2; exact ⟨q, List.mem_cons_of_mem _ hq, e⟩
        simp [h1, h2, this]
      · by_cases h3 : a.1 = x
        · have : ∃ q ∈ a :: t, q.1 = x := ⟨a, by simp, h3⟩
          simp only [h1, h2, this, and_false, and_self, if_true, if_false]
          subst h3; simp [h1]
        · have : ¬ ∃ q ∈ a :: t, q.1 = x := by
            rintro ⟨q, hq, e⟩
            rcases List.mem_cons.mp hq with h | h
            · subst h; exact h3 e
            · exact h2 ⟨q, h, e⟩
          simp [h2, this, h3]
    · simp only [h1, false_and, if_false]
      by_cases h3 : a.1 = x
      · subst h3; simp [h1]
      · simp [h3]

theorem updateSubtreeOps_nhAt {r : Rib} (hi : RibInv r) (p : Name) (fib : C05.Spec) (x : Name) :
    ((updateSubtreeOps r p).foldl C05.Spec.apply fib).nhAt x =
      if r.named x = true ∧ x.take p.length = p then flatten r.routesAt x else fib.nhAt x := by
  unfold updateSubtreeOps
  rw [flatMap_recompute_nhAt hi]
  by_cases h1 : r.named x = true
  · have hx : ∃ nd, afind r.nodes x = some nd := by
      unfold Rib.named at h1
      cases hf : afind r.nodes x with
      | none => rw [hf] at h1; cases h1
      | some nd => exact ⟨nd, rfl⟩
    obtain ⟨nd, hnd⟩ := hx
    by_cases h2 : x.take p.length = p
    · have : ∃ q ∈ List.filter (fun q => decide (List.take p.length q.1 = p)) r.nodes, q.1 = x :=
        ⟨(x, nd), by simp [List.mem_filter, afind_some_mem hnd, h2], rfl⟩
      rw [if_pos ⟨h1, this⟩, if_pos ⟨h1, h2⟩]
    · have : ¬ ∃ q ∈ List.filter (fun q => decide (List.take p.length q.1 = p)) r.nodes, q.1 = x := by
        rintro ⟨q, hq, e⟩
        simp only [List.mem_filter, decide_eq_true_eq] at hq
        rw [e] at hq; exact h2 hq.2
      rw [if_neg (fun h => this h.2), if_neg (fun h => h2 h.2)]
  · simp [h1]

/-- a node with routes is named -/
theorem named_of_routes {r : Rib} (hi : RibInv r) (x : Name) (h : r.routesAt x ≠ []) : r.named x = true := by
  unfold Rib.routesAt at h
  unfold Rib.named
  cases hf : afind r.nodes x with
  | none => rw [hf] at h; exact absurd rfl h
  | some nd => rw [hf] at h; exact hi.nm2 x nd hf h

/-- **Update lemma.**  `r0` is the RIB before, `r1` after a change of routes confined to the entry
    `p` (every other entry has the same routes); if the FIB was the flattening of `r0`, then
    after the FIB calls of `updateNexthopsEnc` on `p` in `r1` it is the flattening of `r1`. -/
theorem update_lemma {r0 r1 : Rib} (h1 : RibInv r1) (p : Name) (fib : C05.Spec)
    (hfib : ∀ x, fib.nhAt x = flatten r0.routesAt x)
    (hsame : ∀ x, x ≠ p → r1.routesAt x = r0.routesAt x)
    (hnew : r1.named p = false → r0.routesAt p = []) (x : Name) :
    ((updateSubtreeOps r1 p).foldl C05.Spec.apply fib).nhAt x = flatten r1.routesAt x := by
  rw [updateSubtreeOps_nhAt h1]
  by_cases hpre : x.take p.length = p
  · by_cases hn : r1.named x = true
    · simp [hn, hpre]
    · simp only [hn, false_and, if_false]
      have hr1 : r1.routesAt x = [] := by
        cases hr : r1.routesAt x with
        | nil => rfl
        | cons a t => exact absurd (named_of_routes h1 x (by rw [hr]; simp)) hn
      rw [hfib, flatten_of_no_routes _ _ hr1]
      apply flatten_of_no_routes
      by_cases hxp : x = p
      · subst hxp; exact hnew (by simpa using hn)
      · rw [← hsame x hxp]; exact hr1
  · simp only [hpre, and_false, if_false]
    rw [hfib]
    apply flatten_congr
    intro j hj
    exact (hsame _ (take_ne_of_not_prefix hpre j hj)).symm

end Ndn.C06
