/-
  C06 helper lemmas, part 5: the specification's route map under each operation, histories,
  listings.
-/
import NdnVerif.C06.LemmasRun
namespace Ndn.C06
open Ndn.C05

/-! ### specification side -/

structure SpecInv6 (s : Spec) : Prop where
  keys : KeysNodup s.routes
  nonempty : ∀ n rs, afind s.routes n = some rs → rs ≠ []

theorem afind_mapfilter_none (l : List (Name × List Route)) (g : List Route → List Route) (x : Name)
    (h : x ∉ l.map (·.1)) :
    afind ((l.map fun p => (p.1, g p.2)).filter fun p => !p.2.isEmpty) x = none := by
  rw [afind_eq_none_iff]
  intro hm
  apply h
  obtain ⟨q, hq, e⟩ := List.mem_map.mp hm
  have := (List.mem_filter.mp hq).1
  obtain ⟨q', hq', e'⟩ := List.mem_map.mp this
  exact List.mem_map.mpr ⟨q', hq', by rw [← e, ← e']⟩

theorem afind_mapfilter (l : List (Name × List Route)) (hn : KeysNodup l) (g : List Route → List Route) (hg : g [] = [])
    (x : Name) :
    (afind ((l.map fun p => (p.1, g p.2)).filter fun p => !p.2.isEmpty) x).getD [] = g ((afind l x).getD []) := by
  induction l with
  | nil => simp [afind, hg]
  | cons a t ih =>
    obtain ⟨k, v⟩ := a
    have hn1 : k ∉ t.map (·.1) := (List.nodup_cons.mp hn).1
    have hn2 : KeysNodup t := (List.nodup_cons.mp hn).2
    simp only [List.map_cons, List.filter_cons]
    by_cases hk : k = x
    · subst hk
      simp only [afind, if_true, Option.getD_some]
      by_cases he : (g v).isEmpty = true
      · simp only [he, Bool.not_true, Bool.false_eq_true, if_false]
        rw [afind_mapfilter_none t g k hn1]
        simp [List.isEmpty_iff.mp he]
      · simp [he, afind]
    · by_cases he : (g v).isEmpty = true
      · simp only [he, Bool.not_true, Bool.false_eq_true, if_false, afind, hk]
        exact ih hn2
      · simp only [he, Bool.not_false, if_true, afind, hk, if_false]
        exact ih hn2

theorem Spec.routesAt_apply {s : Spec} (hi : SpecInv6 s) (op : Op) (x : Name) :
    (s.apply op).routesAt x = match op with
      | .reg n rt => if n = x then upsertRoute (s.routesAt n) rt else s.routesAt x
      | .unreg n f o => if n = x then (s.routesAt n).filter (fun q => !q.sameKey f o) else s.routesAt x
      | .cleanup f => (s.routesAt x).filter (fun q => !(q.face == f)) := by
  cases op with
  | reg n rt => simp only [Spec.apply, Spec.routesAt, afind_aset]; split <;> simp
  | unreg n f o =>
    simp only [Spec.apply, Spec.routesAt]
    by_cases he : (List.filter (fun q => !q.sameKey f o) ((afind s.routes n).getD [])).isEmpty = true
    · simp only [he, if_true, afind_aerase]
      by_cases hm : n = x
      · simp only [hm, if_true, Option.getD_none]
        rw [hm] at he; exact (List.isEmpty_iff.mp he).symm
      · simp [hm]
    · simp only [he]
      by_cases hm : n = x <;> simp [hm, afind_aset]
  | cleanup f =>
    simp only [Spec.apply, Spec.routesAt]
    exact afind_mapfilter s.routes hi.keys (fun rs => rs.filter fun q => !(q.face == f)) rfl x

theorem upsertRoute_ne_nil (rs : List Route) (rt : Route) : upsertRoute rs rt ≠ [] := by
  cases rs with
  | nil => simp [upsertRoute]
  | cons a t => simp only [upsertRoute]; split <;> simp

theorem Spec.inv_apply {s : Spec} (hi : SpecInv6 s) (op : Op) : SpecInv6 (s.apply op) := by
  cases op with
  | reg n rt =>
    refine ⟨keysNodup_aset hi.keys _ _, ?_⟩
    intro m rs hf
    simp only [Spec.apply, afind_aset] at hf
    by_cases hk : n = m
    · simp [hk] at hf; subst hf; exact upsertRoute_ne_nil _ _
    · simp [hk] at hf; exact hi.nonempty m rs hf
  | unreg n f o =>
    simp only [Spec.apply]
    by_cases he : (List.filter (fun q => !q.sameKey f o) (s.routesAt n)).isEmpty = true
    · simp only [he, if_true]
      refine ⟨keysNodup_aerase hi.keys _, ?_⟩
      intro m rs hf
      simp only [afind_aerase] at hf
      by_cases hk : n = m
      · simp [hk] at hf
      · simp [hk] at hf; exact hi.nonempty m rs hf
    · simp only [he]
      refine ⟨keysNodup_aset hi.keys _ _, ?_⟩
      intro m rs hf
      simp only [Bool.false_eq_true, if_false] at hf
      rw [afind_aset] at hf
      by_cases hk : n = m
      · simp only [hk, if_true, Option.some.injEq] at hf
        intro e; rw [e] at hf; rw [← hk] at hf; rw [hf] at he; simp at he
      · simp only [hk, if_false] at hf; exact hi.nonempty m rs hf
  | cleanup f =>
    refine ⟨?_, ?_⟩
    · unfold KeysNodup
      simp only [Spec.apply]
      have h1 : ((s.routes.map fun p => (p.1, p.2.filter fun r => !(r.face == f))).filter fun p => !p.2.isEmpty).Sublist
          (s.routes.map fun p => (p.1, p.2.filter fun r => !(r.face == f))) := List.filter_sublist
      have h2 := h1.map (·.1)
      apply h2.nodup
      simp only [List.map_map]
      exact hi.keys
    · intro m rs hf
      have := afind_some_mem hf
      simp only [Spec.apply, List.mem_filter] at this
      intro e; rw [e] at this; simp at this

/-! ### histories -/

def runSt (d : Name) (ops : List Op) : St := ops.foldl St.apply (St.init d)
def runSpec (ops : List Op) : Spec := ops.foldl Spec.apply Spec.init

/-- the RIB and the sequence of all FIB calls it made during the history -/
def runRib (ops : List Op) : Rib × List C05.Op :=
  ops.foldl (fun acc op => ((acc.1.apply op).1, acc.2 ++ (acc.1.apply op).2)) (Rib.init, [])

/-- all calls to `FibStrategyTable` made by the RIB during the history -/
def fibCalls (ops : List Op) : List C05.Op := (runRib ops).2

theorem runSt_snoc (d : Name) (ops : List Op) (op : Op) : runSt d (ops ++ [op]) = (runSt d ops).apply op := by
  simp [runSt, List.foldl_append]
theorem runSpec_snoc (ops : List Op) (op : Op) : runSpec (ops ++ [op]) = (runSpec ops).apply op := by
  simp [runSpec, List.foldl_append]
theorem runRib_snoc (ops : List Op) (op : Op) :
    runRib (ops ++ [op]) = (((runRib ops).1.apply op).1, (runRib ops).2 ++ ((runRib ops).1.apply op).2) := by
  simp [runRib, List.foldl_append]

theorem ops_induction6 {P : List Op → Prop} (h0 : P []) (hs : ∀ ops op, P ops → P (ops ++ [op])) : ∀ ops, P ops := by
  intro ops
  have : ∀ n (ops : List Op), ops.length = n → P ops := by
    intro n
    induction n with
    | zero => intro ops h; have : ops = [] := List.length_eq_zero_iff.mp h
              subst this; exact h0
    | succ n ih =>
      intro ops h
      have hne : ops ≠ [] := by intro e; subst e; simp at h
      rw [← List.dropLast_concat_getLast hne]
      apply hs
      apply ih
      simp [h]
  exact this _ _ rfl

/-- the model state is the RIB plus the abstract FIB after all the calls made so far -/
theorem runSt_eq (d : Name) (ops : List Op) :
    runSt d ops = ⟨(runRib ops).1, C05.runSpec d (fibCalls ops)⟩ := by
  induction ops using ops_induction6 with
  | h0 => rfl
  | hs ops op ih =>
    rw [runSt_snoc, ih]
    simp only [St.apply, fibCalls, runRib_snoc, C05.runSpec, List.foldl_append]

theorem Rib.inv_init : RibInv Rib.init := by
  refine ⟨by simp [Rib.init, ahas, afind], ?_, by simp [Rib.init, KeysNodup], ?_, ?_, ?_⟩
  · intro p k hp
    have : p = [] := by
      simp only [Rib.init, ahas, afind] at hp
      by_cases h : [] = p
      · exact h.symm
      · simp [h] at hp
    subst this; simpa using hp
  · intro key nd x hf hx
    simp only [Rib.init, afind] at hf
    by_cases h : [] = key
    · simp [h] at hf; subst hf; simp [RNode.blank] at hx
    · simp [h] at hf
  · intro key nd hf he
    simp only [Rib.init, afind] at hf
    by_cases h : [] = key
    · simp [h] at hf; subst hf; simp [RNode.blank] at he
    · simp [h] at hf
  · intro key nd hf
    simp only [Rib.init, afind] at hf
    by_cases h : [] = key
    · simp [h] at hf; subst hf; simp [RNode.blank, RouteKeysNodup]
    · simp [h] at hf

theorem run_rel (d : Name) (ops : List Op) :
    Inv (runSt d ops) ∧ SpecInv6 (runSpec ops) ∧ ∀ x, (runSt d ops).rib.routesAt x = (runSpec ops).routesAt x := by
  induction ops using ops_induction6 with
  | h0 =>
    refine ⟨⟨Rib.inv_init, ?_, C05.Spec.inv_init d⟩, ⟨by simp [runSpec, Spec.init, KeysNodup], ?_⟩, ?_⟩
    · intro x
      have : (runSt d []).rib.routesAt x = [] := by
        simp only [runSt, List.foldl_nil, St.init, Rib.init, Rib.routesAt, afind]
        by_cases h : [] = x <;> simp [h, RNode.blank]
      rw [flatten_of_no_routes _ _ this]
      simp [runSt, St.init, C05.Spec.init, C05.Spec.nhAt, afind]
    · intro n rs hf; simp [runSpec, Spec.init, afind] at hf
    · intro x
      simp only [runSt, runSpec, List.foldl_nil, St.init, Rib.init, Spec.init, Rib.routesAt, Spec.routesAt, afind]
      by_cases h : [] = x <;> simp [h, RNode.blank]
  | hs ops op ih =>
    obtain ⟨hi, si, hr⟩ := ih
    rw [runSt_snoc, runSpec_snoc]
    obtain ⟨a, b, c⟩ := Rib.apply_spec hi.rib op (runSt d ops).fib hi.fib
    refine ⟨⟨a, c, specInv_foldl hi.fibInv _⟩, Spec.inv_apply si op, ?_⟩
    intro x
    have : ((runSt d ops).apply op).rib = ((runSt d ops).rib.apply op).1 := rfl
    rw [this, b x, Spec.routesAt_apply si]
    cases op <;> simp only [hr]

/-! ### listings -/

theorem Rib.mem_list {r : Rib} (hi : RibInv r) (n : Name) (rs : List Route) :
    (n, rs) ∈ r.list ↔ rs ≠ [] ∧ r.routesAt n = rs := by
  simp only [Rib.list, List.mem_map, List.mem_filter, Prod.mk.injEq]
  constructor
  · rintro ⟨⟨key, nd⟩, ⟨hm, hne⟩, hn, hh⟩
    simp only at hn hh hne
    have hf := mem_afind hi.keys hm
    have hne' : nd.routes ≠ [] := by intro e; simp [e] at hne
    obtain ⟨x, hx⟩ := Option.isSome_iff_exists.mp (hi.nm2 key nd hf hne')
    have := hi.nm1 key nd x hf hx
    subst this
    rw [hx] at hn; simp at hn; subst hn
    exact ⟨hh ▸ hne', by simp [Rib.routesAt, hf, hh]⟩
  · rintro ⟨hne, hh⟩
    simp only [Rib.routesAt] at hh
    cases hf : afind r.nodes n with
    | none => rw [hf] at hh; exact absurd hh.symm hne
    | some nd =>
      rw [hf] at hh; simp only at hh
      have hne' : nd.routes ≠ [] := hh ▸ hne
      obtain ⟨x, hx⟩ := Option.isSome_iff_exists.mp (hi.nm2 n nd hf hne')
      have := hi.nm1 n nd x hf hx
      subst this
      refine ⟨(x, nd), ⟨afind_some_mem hf, ?_⟩, by simp [hx], hh⟩
      cases hr : nd.routes with
      | nil => exact absurd hr hne'
      | cons _ _ => rfl

theorem Spec.mem_listRib {s : Spec} (hi : SpecInv6 s) (n : Name) (rs : List Route) :
    (n, rs) ∈ s.listRib ↔ rs ≠ [] ∧ s.routesAt n = rs := by
  simp only [Spec.listRib, List.mem_filter]
  constructor
  · rintro ⟨hm, hne⟩
    have hf := mem_afind hi.keys hm
    refine ⟨by intro e; simp [e] at hne, by simp [Spec.routesAt, hf]⟩
  · rintro ⟨hne, hh⟩
    simp only [Spec.routesAt] at hh
    cases hf : afind s.routes n with
    | none => rw [hf] at hh; exact absurd hh.symm hne
    | some rs' =>
      rw [hf] at hh; simp only [Option.getD_some] at hh; subst hh
      refine ⟨afind_some_mem hf, ?_⟩
      cases rs' with
      | nil => exact absurd rfl hne
      | cons _ _ => rfl

/-! ### where contributing routes come from -/

theorem mem_inherited {R : Name → List Route} {name : Name} {k : Nat} {rt : Route}
    (h : rt ∈ inherited R name k) : ∃ j, j < k ∧ rt ∈ R (name.take j) ∧ rt.childInherit = true := by
  induction k with
  | zero => simp [inherited] at h
  | succ k ih =>
    simp only [inherited, List.mem_append, List.mem_filter] at h
    rcases h with h | h
    · exact ⟨k, by omega, h.1, h.2⟩
    · split at h
      · cases h
      · obtain ⟨j, h1, h2⟩ := ih h
        exact ⟨j, by omega, h2⟩

theorem mem_contributing {R : Name → List Route} {p : Name} {rt : Route} (h : rt ∈ contributing R p) :
    ∃ j, j ≤ p.length ∧ rt ∈ R (p.take j) := by
  simp only [contributing, List.mem_append] at h
  rcases h with h | h
  · exact ⟨p.length, Nat.le_refl _, by simpa using h⟩
  · split at h
    · cases h
    · obtain ⟨j, h1, h2, _⟩ := mem_inherited h
      exact ⟨j, by omega, h2⟩

end Ndn.C06
