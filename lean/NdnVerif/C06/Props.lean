/-
  C06 — property theorems only (helper lemmas live in Lemmas*.lean).

  Objects (Model.lean / Spec.lean / LemmasHist.lean):
    runSt d ops     the RIB model and the abstract FIB it writes to, after the history `ops` of
                    register / re-register / unregister / face clean-up operations
    runSpec ops     the specification's route map (prefix ↦ routes) after `ops`
    flatten R p     the property's flattening: nothing if `p` has no routes, otherwise own routes
                    plus (unless `p` holds a capture route) the child-inherit routes of shorter
                    prefixes, nearest first, up to and including the nearest one holding a capture
                    route; each face at its minimum cost
    fibCalls ops    every call the RIB made to `FibStrategyTable` during `ops`
  Histories are arbitrary (no bound on length, depth, faces, origins, costs, flags).
-/
import NdnVerif.C06.LemmasHist
import NdnVerif.C05.Props
namespace Ndn.C06
open Ndn.C05

/-! ## the specification's pieces mean what the property says -/

/-- "each face at the minimum cost among the contributing routes": `(f, c)` is in `minCost rs` iff
    some route of `rs` has face `f` and cost `c`, and no route of `rs` with face `f` is cheaper;
    every face occurs once. -/
theorem minCost_is_min_per_face (rs : List Route) (f c : Nat) :
    ((f, c) ∈ minCost rs ↔ (∃ r ∈ rs, r.face = f ∧ r.cost = c) ∧ ∀ r ∈ rs, r.face = f → c ≤ r.cost) ∧
    KeysNodup (minCost rs) := by
  obtain ⟨hn, hf⟩ := minCost_inv rs
  refine ⟨?_, hn⟩
  rw [mem_iff_afind hn]
  have h := hf f
  constructor
  · intro e; rw [e] at h; exact h
  · rintro ⟨⟨r, hr, e1, e2⟩, hmin⟩
    cases ha : afind (minCost rs) f with
    | none => rw [ha] at h; exact absurd e1 (h r hr)
    | some c' =>
      rw [ha] at h
      obtain ⟨⟨r', hr', e1', e2'⟩, hmin'⟩ := h
      have a := hmin r' hr' e1'
      have b := hmin' r hr e1
      congr 1; omega

example : minCost [⟨7, 0, 10, 1⟩, ⟨8, 0, 5, 1⟩, ⟨7, 255, 3, 0⟩] = [(7, 3), (8, 5)] := by decide

/-- "inheritance by longer prefixes stops at, and includes, the nearest shorter prefix holding a
    capture route; a prefix holding a capture route inherits nothing; prefixes without routes
    contribute nothing": every contributing route of `p` is registered on a prefix `p.take j` of
    `p`; if it is not one of `p`'s own routes then it is child-inherit, `p` holds no capture route
    and no prefix strictly between holds a capture route. -/
theorem contributing_sound (R : Name → List Route) (p : Name) (rt : Route) (h : rt ∈ contributing R p) :
    rt ∈ R p ∨ ((R p).any Route.capture = false ∧ ∃ j, j < p.length ∧ rt ∈ R (p.take j) ∧ rt.childInherit = true ∧
      ∀ i, j < i → i < p.length → (R (p.take i)).any Route.capture = false) := by
  simp only [contributing, List.mem_append] at h
  rcases h with h | h
  · exact Or.inl h
  · right
    cases hc : (R p).any Route.capture with
    | true => simp [hc] at h
    | false =>
      simp only [hc, Bool.false_eq_true, if_false] at h
      refine ⟨rfl, ?_⟩
      -- walk the definition of `inherited`
      have key : ∀ k, rt ∈ inherited R p k → ∃ j, j < k ∧ rt ∈ R (p.take j) ∧ rt.childInherit = true ∧
          ∀ i, j < i → i < k → (R (p.take i)).any Route.capture = false := by
        intro k
        induction k with
        | zero => intro h; simp [inherited] at h
        | succ k ih =>
          intro h
          simp only [inherited, List.mem_append, List.mem_filter] at h
          rcases h with h | h
          · exact ⟨k, by omega, h.1, h.2, by intro i h1 h2; omega⟩
          · cases hk : (R (List.take k p)).any Route.capture with
            | true => simp [hk] at h
            | false =>
              simp only [hk, Bool.false_eq_true, if_false] at h
              obtain ⟨j, h1, h2, h3, h4⟩ := ih h
              refine ⟨j, by omega, h2, h3, ?_⟩
              intro i a b
              by_cases hik : i = k
              · subst hik; exact hk
              · exact h4 i a (by omega)
      exact key p.length h

/-- and conversely every such route does contribute (completeness of the flattening) -/
theorem contributing_complete (R : Name → List Route) (p : Name) (rt : Route) :
    (rt ∈ R p → rt ∈ contributing R p) ∧
    ((R p).any Route.capture = false → ∀ j, j < p.length → rt ∈ R (p.take j) → rt.childInherit = true →
      (∀ i, j < i → i < p.length → (R (p.take i)).any Route.capture = false) → rt ∈ contributing R p) := by
  constructor
  · intro h; simp [contributing, h]
  · intro hc j hj hm hci hno
    simp only [contributing, List.mem_append, hc, Bool.false_eq_true, if_false]
    right
    have key : ∀ k, j < k → k ≤ p.length → rt ∈ inherited R p k := by
      intro k
      induction k with
      | zero => intro h; omega
      | succ k ih =>
        intro h1 h2
        simp only [inherited, List.mem_append, List.mem_filter]
        by_cases hjk : j = k
        · subst hjk; exact Or.inl ⟨hm, hci⟩
        · right
          rw [hno k (by omega) (by omega)]
          simp only [Bool.false_eq_true, if_false]
          exact ih (by omega) (by omega)
    exact key p.length hj (Nat.le_refl _)

example : flatten (fun n => if n = [] then [⟨8, 0, 5, 1⟩] else if n = [⟨8, [97]⟩] then [⟨9, 0, 3, 3⟩]
    else if n = [⟨8, [97]⟩, ⟨8, [98]⟩] then [⟨7, 0, 1, 0⟩] else []) [⟨8, [97]⟩, ⟨8, [98]⟩] = [(7, 1), (9, 3)] := by decide

/-! ## the FIB is the flattening of the registered routes, after every history -/

/-- **C06.** After any history of registrations, re-registrations, unregistrations and face
    clean-ups, the FIB's next hops at *every* prefix `p` are exactly `flatten` of the currently
    registered routes: nothing when `p` has no routes (in particular nothing at the root unless
    registered there), otherwise own + inherited routes at minimum cost per face. -/
theorem rib_fib_eq_flatten (d : Name) (ops : List Op) (p : Name) :
    (runSt d ops).fib.nhAt p = flatten (runSpec ops).routesAt p := by
  obtain ⟨hi, _, hr⟩ := run_rel d ops
  rw [hi.fib p]
  have : (runSt d ops).rib.routesAt = (runSpec ops).routesAt := funext hr
  rw [this]

example : (runSt [] [.reg [⟨8, [97]⟩, ⟨8, [98]⟩, ⟨8, [99]⟩] ⟨7, 0, 10, 1⟩, .reg [⟨8, [97]⟩] ⟨8, 0, 5, 1⟩]).fib.nhAt [] = [] := by decide
example : (runSt [] [.reg [⟨8, [97]⟩, ⟨8, [98]⟩, ⟨8, [99]⟩] ⟨7, 0, 10, 1⟩, .reg [⟨8, [97]⟩] ⟨8, 0, 5, 1⟩]).fib.nhAt
    [⟨8, [97]⟩, ⟨8, [98]⟩, ⟨8, [99]⟩] = [(7, 10), (8, 5)] := by decide

/-- the RIB holds exactly the registered routes (`Rib.GetAllEntries` = the route map) -/
theorem rib_routes_eq_spec (d : Name) (ops : List Op) :
    (∀ p, (runSt d ops).rib.routesAt p = (runSpec ops).routesAt p) ∧
    (∀ e, e ∈ (runSt d ops).rib.list ↔ e ∈ (runSpec ops).listRib) := by
  obtain ⟨hi, si, hr⟩ := run_rel d ops
  refine ⟨hr, ?_⟩
  rintro ⟨n, rs⟩
  rw [Rib.mem_list hi.rib, Spec.mem_listRib si, hr]

/-- next-hop lookups through the FIB are longest-prefix match over the flattened entries -/
theorem rib_lookup_eq_spec (d : Name) (ops : List Op) (name : Name) :
    (runSt d ops).fib.lpmNextHops name = (runSpec ops).lookup name := by
  unfold C05.Spec.lpmNextHops Spec.lookup Spec.fibAt
  exact lpm_congr _ _ _ _ _ _ Eq name (fun n => by rw [rib_fib_eq_flatten]) (fun n => rib_fib_eq_flatten d ops n) rfl _

/-- the FIB listing contains exactly the prefixes that have routes, each with its flattening
    (so "prefixes without routes contribute nothing", "nothing in the root entry that was not
    registered there") -/
theorem rib_fib_listing_exact (d : Name) (ops : List Op) (p : Name) (hops : Hops) :
    (p, hops) ∈ (runSt d ops).fib.listFib ↔ (runSpec ops).routesAt p ≠ [] ∧ hops = flatten (runSpec ops).routesAt p := by
  obtain ⟨hi, _, _⟩ := run_rel d ops
  rw [C05.Spec.mem_listFib hi.fibInv, rib_fib_eq_flatten]
  constructor
  · rintro ⟨hne, e⟩
    refine ⟨?_, e.symm⟩
    intro hr
    rw [flatten_of_no_routes _ _ hr] at e
    exact hne e.symm
  · rintro ⟨hr, e⟩
    exact ⟨e ▸ flatten_ne_nil _ _ hr, e.symm⟩

example : (runSt [] [.reg [] ⟨8, 0, 1, 1⟩, .reg [⟨8, [97]⟩] ⟨9, 0, 2, 0⟩, .unreg [⟨8, [97]⟩] 9 0]).fib.listFib = [([], [(8, 1)])] := by decide

/-! ## nothing derived from a removed route or face remains -/

/-- every next hop in the FIB derives from a route that is registered *now* on a prefix of the
    entry's name — so once a route is removed, no next hop derived from it remains anywhere -/
theorem fib_hop_derives_from_live_route (d : Name) (ops : List Op) (p : Name) (f c : Nat)
    (h : (f, c) ∈ (runSt d ops).fib.nhAt p) :
    ∃ j, j ≤ p.length ∧ ∃ rt ∈ (runSpec ops).routesAt (p.take j), rt.face = f ∧ rt.cost = c := by
  rw [rib_fib_eq_flatten] at h
  unfold flatten at h
  split at h
  · cases h
  · obtain ⟨⟨rt, hrt, e1, e2⟩, _⟩ := ((minCost_is_min_per_face _ f c).1).mp h
    obtain ⟨j, hj, hm⟩ := mem_contributing hrt
    exact ⟨j, hj, rt, hm, e1, e2⟩

/-- after a face is cleaned up no next hop to it remains anywhere in the FIB, and no route of it
    remains in the RIB (all origins, all entries including the root) -/
theorem cleanup_leaves_no_trace (d : Name) (ops : List Op) (face : Nat) :
    (∀ p c, (face, c) ∉ (runSt d (ops ++ [.cleanup face])).fib.nhAt p) ∧
    (∀ p, ∀ rt ∈ (runSt d (ops ++ [.cleanup face])).rib.routesAt p, rt.face ≠ face) := by
  obtain ⟨_, si, _⟩ := run_rel d ops
  have hno : ∀ p, ∀ rt ∈ (runSpec (ops ++ [.cleanup face])).routesAt p, rt.face ≠ face := by
    intro p rt hrt
    rw [runSpec_snoc, Spec.routesAt_apply si] at hrt
    simp only [List.mem_filter, Bool.not_eq_eq_eq_not, Bool.not_true, beq_eq_false_iff_ne] at hrt
    exact hrt.2
  constructor
  · intro p c hm
    obtain ⟨j, _, rt, hrt, e1, _⟩ := fib_hop_derives_from_live_route d _ p face c hm
    exact hno _ rt hrt e1
  · intro p rt hrt
    rw [(rib_routes_eq_spec d _).1 p] at hrt
    exact hno p rt hrt

example : (runSt [] [.reg [⟨8, [97]⟩] ⟨8, 0, 5, 1⟩, .reg [⟨8, [97]⟩] ⟨8, 255, 7, 1⟩, .reg [] ⟨8, 65, 2, 0⟩,
    .reg [⟨8, [97]⟩, ⟨8, [98]⟩] ⟨9, 0, 1, 1⟩, .cleanup 8]).fib.listFib = [([⟨8, [97]⟩, ⟨8, [98]⟩], [(9, 1)])] := by decide

/-! ## against both FIB implementations -/

/-- The abstract FIB of the model is the C05 abstract table after the calls the RIB made; hence
    (C05 `tree_refines_spec`, `hash_refines_spec`) driving the name-tree FIB or the hash-table FIB
    (any `m ≥ 1`) with those calls makes every lookup return the flattening's longest-prefix
    match: equal lists for the tree, equal (face, cost) sets for the hash table. -/
theorem rib_over_both_fibs (d : Name) (ops : List Op) (name : Name) :
    (C05.runTree d (fibCalls ops)).findNextHops name = (runSpec ops).lookup name ∧
    ∀ m, 1 ≤ m → ∀ x, x ∈ (C05.runHash m d (fibCalls ops)).findNextHops name ↔ x ∈ (runSpec ops).lookup name := by
  have hfib : (runSt d ops).fib = C05.runSpec d (fibCalls ops) := by rw [runSt_eq]
  have hl := rib_lookup_eq_spec d ops name
  rw [hfib] at hl
  refine ⟨by rw [(C05.tree_refines_spec d (fibCalls ops) name).1, hl], ?_⟩
  intro m hm x
  rw [(C05.hash_refines_spec m hm d (fibCalls ops) name).1 x, hl]

example : (C05.runHash 2 [] (fibCalls [.reg [⟨8, [97]⟩, ⟨8, [98]⟩, ⟨8, [99]⟩] ⟨7, 0, 10, 1⟩, .reg [⟨8, [97]⟩] ⟨8, 0, 5, 1⟩,
    .unreg [⟨8, [97]⟩, ⟨8, [98]⟩, ⟨8, [99]⟩] 7 0])).findNextHops [⟨8, [97]⟩, ⟨8, [98]⟩, ⟨8, [99]⟩] = [(8, 5)] := by decide

end Ndn.C06
