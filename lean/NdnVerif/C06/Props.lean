/-
  C06 — property theorems only (helper lemmas live in Lemmas*.lean).
-/
import NdnVerif.C06.Model
namespace Ndn.C06

theorem placeholder_init (n : Ndn.Name) : Spec.init.fibAt n = [] := by
  simp [Spec.init, Spec.fibAt, flatten, Spec.routesAt, C05.afind]

end Ndn.C06
