/-
  C04/LinkLemmas.lean — helper lemmas for C04/LinkProps.lean (link-service receive path and
  readTlvStream framing loop).  Core Lean only.
-/
import NdnVerif.C04.Model
namespace Ndn.C04

/-! ## GetFWThread / dispatchL3 -/

theorem getThread_some (n id : Nat) :
    ∃ r, getThread n id = some r ∧ (∀ i, r = some i → i < n) := by
  unfold getThread
  split
  · exact ⟨none, rfl, by intro i h; cases h⟩
  · split
    · rename_i h; exact ⟨some id, rfl, by intro i hi; cases hi; exact h⟩
    · omega

theorem dispatchL3_shape (c : Cfg) (st : LinkSt) (p : Pkt) (tok : Option Bytes) :
    ∃ st' d, dispatchL3 c st p tok = some (st', d) ∧ st'.store = st.store := by
  unfold dispatchL3
  split
  · exact ⟨_, _, rfl, rfl⟩
  · split
    · cases tok with
      | none => exact ⟨_, _, rfl, rfl⟩
      | some t =>
        simp only
        split
        · obtain ⟨r, hr, _⟩ := getThread_some c.threads (beDec (t.take 2))
          rw [hr]
          cases r with
          | none => exact ⟨_, _, rfl, rfl⟩
          | some i => exact ⟨_, _, rfl, rfl⟩
        · exact ⟨_, _, rfl, rfl⟩
    · exact ⟨_, _, rfl, rfl⟩

/-! ## the partial-message store -/

/-- every stored entry has between 1 and `maxFragments` slots -/
def StoreOkL (l : List (Nat × List Bytes)) : Prop :=
  ∀ e ∈ l, e.2.length ≤ maxFragments ∧ 0 < e.2.length

def slotsL (l : List (Nat × List Bytes)) : Nat := (l.map (·.2.length)).sum

/-- bytes held by one entry -/
def fragBytes (e : List Bytes) : Nat := (e.map List.length).sum

def bytesL (l : List (Nat × List Bytes)) : Nat := (l.map (fun e => fragBytes e.2)).sum

theorem mem_storeSet {l : List (Nat × List Bytes)} {k : Nat} {v : List Bytes} {e : Nat × List Bytes}
    (h : e ∈ storeSet l k v) : e = (k, v) ∨ e ∈ l := by
  induction l with
  | nil => simp [storeSet] at h; exact Or.inl h
  | cons a r ih =>
    obtain ⟨k', v'⟩ := a
    simp only [storeSet] at h
    split at h
    · simp only [List.mem_cons] at h ⊢
      rcases h with h | h
      · exact Or.inl h
      · exact Or.inr (Or.inr h)
    · simp only [List.mem_cons] at h ⊢
      rcases h with h | h
      · exact Or.inr (Or.inl h)
      · rcases ih h with h | h
        · exact Or.inl h
        · exact Or.inr (Or.inr h)

theorem storeOkL_storeSet {l : List (Nat × List Bytes)} {k : Nat} {v : List Bytes}
    (h : StoreOkL l) (hv : v.length ≤ maxFragments ∧ 0 < v.length) : StoreOkL (storeSet l k v) := by
  intro e he
  rcases mem_storeSet he with rfl | he
  · exact hv
  · exact h e he

theorem storeOkL_storeErase {l : List (Nat × List Bytes)} {k : Nat}
    (h : StoreOkL l) : StoreOkL (storeErase l k) := by
  intro e he
  exact h e (List.mem_filter.mp he).1

theorem slotsL_storeSet (l : List (Nat × List Bytes)) (k : Nat) (v : List Bytes) :
    slotsL (storeSet l k v) ≤ slotsL l + v.length := by
  induction l with
  | nil => simp [storeSet, slotsL]
  | cons a r ih =>
    obtain ⟨k', v'⟩ := a
    simp only [storeSet]
    split
    · simp only [slotsL, List.map_cons, List.sum_cons]; omega
    · simp only [slotsL, List.map_cons, List.sum_cons] at ih ⊢; omega

theorem slotsL_storeErase (l : List (Nat × List Bytes)) (k : Nat) :
    slotsL (storeErase l k) ≤ slotsL l := by
  induction l with
  | nil => simp [storeErase, slotsL]
  | cons a r ih =>
    simp only [storeErase, List.filter_cons] at ih ⊢
    split
    · simp only [slotsL, List.map_cons, List.sum_cons] at ih ⊢; omega
    · simp only [slotsL, List.map_cons, List.sum_cons] at ih ⊢; omega

theorem fragBytes_replicate (n : Nat) : fragBytes (List.replicate n []) = 0 := by
  induction n with
  | zero => simp [fragBytes]
  | succ n ih => simp only [fragBytes, List.replicate_succ, List.map_cons, List.sum_cons] at ih ⊢; simp

theorem fragBytes_set (e : List Bytes) (i : Nat) (v : Bytes) :
    fragBytes (e.set i v) ≤ fragBytes e + v.length := by
  induction e generalizing i with
  | nil => simp [fragBytes]
  | cons a r ih =>
    cases i with
    | zero => simp only [List.set_cons_zero, fragBytes, List.map_cons, List.sum_cons]; omega
    | succ i =>
      have := ih i
      simp only [List.set_cons_succ, fragBytes, List.map_cons, List.sum_cons] at this ⊢; omega

theorem bytesL_storeSet_some {l : List (Nat × List Bytes)} {k : Nat} {e : List Bytes} (v : List Bytes)
    (h : storeFind l k = some e) : bytesL (storeSet l k v) + fragBytes e = bytesL l + fragBytes v := by
  induction l with
  | nil => simp [storeFind] at h
  | cons a r ih =>
    obtain ⟨k', v'⟩ := a
    simp only [storeFind, List.find?_cons] at h
    simp only [storeSet]
    split
    · rename_i hk
      simp only [hk, Option.map_some, Option.some.injEq] at h
      subst h
      simp only [bytesL, List.map_cons, List.sum_cons]; omega
    · rename_i hk
      simp only [hk] at h
      have := ih h
      simp only [bytesL, List.map_cons, List.sum_cons] at this ⊢; omega

theorem bytesL_storeSet_none {l : List (Nat × List Bytes)} {k : Nat} (v : List Bytes)
    (h : storeFind l k = none) : bytesL (storeSet l k v) = bytesL l + fragBytes v := by
  induction l with
  | nil => simp [storeSet, bytesL]
  | cons a r ih =>
    obtain ⟨k', v'⟩ := a
    simp only [storeFind, List.find?_cons] at h
    simp only [storeSet]
    split
    · rename_i hk
      simp [hk] at h
    · rename_i hk
      simp only [hk] at h
      have := ih h
      simp only [bytesL, List.map_cons, List.sum_cons] at this ⊢; omega

theorem bytesL_storeErase (l : List (Nat × List Bytes)) (k : Nat) :
    bytesL (storeErase l k) ≤ bytesL l := by
  induction l with
  | nil => simp [storeErase, bytesL]
  | cons a r ih =>
    simp only [storeErase, List.filter_cons] at ih ⊢
    split
    · simp only [bytesL, List.map_cons, List.sum_cons] at ih ⊢; omega
    · simp only [bytesL, List.map_cons, List.sum_cons] at ih ⊢; omega

/-! ## reassemblePacket: one case analysis used by every property -/

/-- Either the fragment is dropped with the state unchanged, or there is a slot list `e` of exactly
    `cnt` slots (the stored one, or a fresh one when the key is absent) and the result is "erase +
    deliver" or "store `e[idx] := frag`".  In particular the result is never `none`. -/
theorem reassemble_cases (st : LinkSt) (base idx cnt : Nat) (frag : Bytes) :
    reassemble st base idx cnt frag = some (st, none) ∨
    ∃ e : List Bytes, 0 < cnt ∧ cnt ≤ maxFragments ∧ idx < cnt ∧ e.length = cnt ∧
      (storeFind st.store base = some e ∨
        (storeFind st.store base = none ∧ e = List.replicate cnt [])) ∧
      (reassemble st base idx cnt frag =
          some ({ st with store := storeErase st.store base }, some (e.set idx frag).flatten) ∨
       reassemble st base idx cnt frag =
          some ({ st with store := storeSet st.store base (e.set idx frag) }, none)) := by
  unfold reassemble
  split
  · exact Or.inl rfl
  · rename_i hg
    have h0 : 0 < cnt := by omega
    have h1 : cnt ≤ maxFragments := by omega
    have h2 : idx < cnt := by omega
    cases hf : storeFind st.store base with
    | some e =>
      simp only
      by_cases hl : e.length = cnt
      · refine Or.inr ⟨e, h0, h1, h2, hl, Or.inl rfl, ?_⟩
        have hi : idx < e.length := by omega
        simp only [hl, if_true, setIdx, h2]
        split
        · exact Or.inl rfl
        · exact Or.inr rfl
      · exact Or.inl (by simp only [hl, if_false])
    | none =>
      refine Or.inr ⟨List.replicate cnt [], h0, h1, h2, by simp, Or.inr ⟨rfl, rfl⟩, ?_⟩
      have hi : idx < (List.replicate cnt ([] : Bytes)).length := by simp; omega
      simp only [makeSlots, h1, if_true, Option.map_some, setIdx, hi]
      split
      · exact Or.inl rfl
      · exact Or.inr rfl

/-! ## handleIncomingFrame: one case analysis used by every property -/

/-- the Fragment field the link service would look at (empty when there is none) -/
def fragOf (c : Cfg) (frame : Bytes) : Bytes :=
  match c.dec frame with
  | some p =>
    match p.lp with
    | some lp => lp.fragment.getD []
    | none => []
  | none => []

theorem cont_shape (c : Cfg) (tok : Option Bytes) (st : LinkSt) (wire : Bytes) :
    ∃ st' d, (match c.dec wire with
              | none => some (st, Deliver.nothing)
              | some l3 => if singleTlv wire then dispatchL3 c st l3 tok else some (st, Deliver.nothing)) = some (st', d) ∧
      st'.store = st.store := by
  cases c.dec wire with
  | none => exact ⟨_, _, rfl, rfl⟩
  | some l3 =>
    simp only
    split
    · exact dispatchL3_shape c st l3 tok
    · exact ⟨_, _, rfl, rfl⟩

/-- `handleFrame` always returns a state; its store is the old store or the store produced by one
    `reassemble` call on the frame's Fragment field. -/
theorem handleFrame_shape (c : Cfg) (st : LinkSt) (frame : Bytes) :
    ∃ st' d, handleFrame c st frame = some (st', d) ∧
      (st'.store = st.store ∨
       ∃ base idx cnt st'' w, reassemble st base idx cnt (fragOf c frame) = some (st'', w) ∧
         st'.store = st''.store) := by
  unfold handleFrame fragOf
  cases hd : c.dec frame with
  | none => exact ⟨_, _, rfl, Or.inl rfl⟩
  | some l2 =>
    simp only
    cases hlp : l2.lp with
    | none =>
      simp only
      split
      · obtain ⟨st', d, h, hs⟩ := dispatchL3_shape c st l2 none
        exact ⟨st', d, h, Or.inl hs⟩
      · exact ⟨_, _, rfl, Or.inl rfl⟩
    | some lp =>
      simp only
      cases hfr : lp.fragment with
      | none => exact ⟨_, _, rfl, Or.inl rfl⟩
      | some frag =>
        simp only [Option.getD_some]
        split
        · split
          · obtain ⟨st', d, h, hs⟩ := cont_shape c
              (match lp.token with | some t => if t.length > 0 then some t else none | none => none)
              st frag
            exact ⟨st', d, h, Or.inl hs⟩
          · generalize hb : ((lp.seq.getD 0) + 2 ^ 64 - lp.idx.getD 0 % 2 ^ 64) % 2 ^ 64 = base
            have hc := reassemble_cases st base (lp.idx.getD 0) (lp.cnt.getD 1) frag
            cases hr : reassemble st base (lp.idx.getD 0) (lp.cnt.getD 1) frag with
            | none =>
              rcases hc with hc | ⟨e, _, _, _, _, _, hc | hc⟩ <;> rw [hr] at hc <;> cases hc
            | some r =>
              obtain ⟨st'', w⟩ := r
              cases w with
              | none => exact ⟨_, _, rfl, Or.inr ⟨_, _, _, _, _, hr, rfl⟩⟩
              | some whole =>
                simp only
                obtain ⟨st', d, h, hs⟩ := cont_shape c
                  (match lp.token with | some t => if t.length > 0 then some t else none | none => none)
                  st'' whole
                exact ⟨st', d, h, Or.inr ⟨_, _, _, _, _, hr, hs⟩⟩
        · split
          · exact ⟨_, _, rfl, Or.inl rfl⟩
          · obtain ⟨st', d, h, hs⟩ := cont_shape c
              (match lp.token with | some t => if t.length > 0 then some t else none | none => none)
              st frag
            exact ⟨st', d, h, Or.inl hs⟩


/-- (F-09c) Whenever `handleFrame` dispatches something, the bytes handed to the forwarding threads (`pkt.Raw`: the
    bare frame, the Fragment, or the reassembled message) are exactly ONE TLV: nothing trails the packet. -/
theorem cont_single (c : Cfg) (tok : Option Bytes) (st : LinkSt) (wire : Bytes) (st' : LinkSt) (d : Deliver)
    (h : (match c.dec wire with
          | none => some (st, Deliver.nothing)
          | some l3 => if singleTlv wire then dispatchL3 c st l3 tok else some (st, Deliver.nothing)) = some (st', d))
    (hd : d ≠ .nothing) : singleTlv wire = true := by
  cases hdec : c.dec wire with
  | none => rw [hdec] at h; simp only [Option.some.injEq, Prod.mk.injEq] at h; exact absurd h.2.symm hd
  | some l3 =>
    rw [hdec] at h
    simp only at h
    by_cases hs : singleTlv wire = true
    · exact hs
    · rw [if_neg hs] at h
      simp only [Option.some.injEq, Prod.mk.injEq] at h
      exact absurd h.2.symm hd

theorem handleFrame_dispatches_single_tlv (c : Cfg) (st : LinkSt) (frame : Bytes) (st' : LinkSt) (d : Deliver)
    (h : handleFrame c st frame = some (st', d)) (hd : d ≠ .nothing) :
    singleTlv frame = true ∨ singleTlv (fragOf c frame) = true ∨
    ∃ base idx cnt st'' whole, reassemble st base idx cnt (fragOf c frame) = some (st'', some whole) ∧ singleTlv whole = true := by
  unfold handleFrame at h
  unfold fragOf
  cases hdec : c.dec frame with
  | none => rw [hdec] at h; simp only [Option.some.injEq, Prod.mk.injEq] at h; exact absurd h.2.symm hd
  | some l2 =>
    rw [hdec] at h
    simp only at h ⊢
    cases hlp : l2.lp with
    | none =>
      rw [hlp] at h
      simp only at h
      by_cases hs : singleTlv frame = true
      · exact Or.inl hs
      · rw [if_neg hs] at h
        simp only [Option.some.injEq, Prod.mk.injEq] at h
        exact absurd h.2.symm hd
    | some lp =>
      rw [hlp] at h
      simp only at h ⊢
      cases hfr : lp.fragment with
      | none => rw [hfr] at h; simp only [Option.some.injEq, Prod.mk.injEq] at h; exact absurd h.2.symm hd
      | some frag =>
        rw [hfr] at h
        simp only [Option.getD_some] at h ⊢
        split at h
        · split at h
          · exact Or.inr (Or.inl (cont_single c _ st frag st' d h hd))
          · generalize hb : ((lp.seq.getD 0) + 2 ^ 64 - lp.idx.getD 0 % 2 ^ 64) % 2 ^ 64 = base at h
            cases hr : reassemble st base (lp.idx.getD 0) (lp.cnt.getD 1) frag with
            | none => rw [hr] at h; cases h
            | some r =>
              obtain ⟨st'', w⟩ := r
              rw [hr] at h
              cases w with
              | none => simp only [Option.some.injEq, Prod.mk.injEq] at h; exact absurd h.2.symm hd
              | some whole =>
                simp only at h
                exact Or.inr (Or.inr ⟨base, _, _, st'', whole, hr, cont_single c _ st'' whole st' d h hd⟩)
        · split at h
          · simp only [Option.some.injEq, Prod.mk.injEq] at h; exact absurd h.2.symm hd
          · exact Or.inr (Or.inl (cont_single c _ st frag st' d h hd))

/-! ## readTlvStream -/

theorem tlLen_pos (x : Nat) : 1 ≤ tlLen x := by
  unfold tlLen; repeat' split
  all_goals omega

/-- `decTL` fails only on a buffer shorter than the longest TL number -/
theorem decTL_none_short {b : Bytes} (h : decTL b = none) : b.length < 9 := by
  cases b with
  | nil => simp
  | cons x t =>
    simp only [decTL] at h
    split at h
    · simp at h
    · split at h
      · have := tlExtra_cases x
        simp only [List.length_cons]; omega
      · simp at h

/-- the inner loop keeps `recvOff`, and with enough fuel it stops only with at most one
    packet's worth of unread bytes -/
theorem inner_cont (f : Nat) : ∀ (s : StreamSt) (fr : List Bytes) (s2 : StreamSt) (fr' : List Bytes),
    inner f s fr = .cont s2 fr' →
    s2.recvOff = s.recvOff ∧ (s.data.length < f → s2.data.length ≤ maxPkt) := by
  induction f with
  | zero =>
    intro s fr s2 fr' h
    simp only [inner, Inner.cont.injEq] at h
    obtain ⟨rfl, _⟩ := h
    exact ⟨rfl, by omega⟩
  | succ f ih =>
    intro s fr s2 fr' h
    rw [inner] at h
    split at h
    · rename_i hd
      simp only [Inner.cont.injEq] at h
      obtain ⟨rfl, _⟩ := h
      have := decTL_none_short hd
      exact ⟨rfl, by intro _; simp only [maxPkt]; omega⟩
    · rename_i typ r1 hd
      split at h
      · rename_i hd2
        simp only [Inner.cont.injEq] at h
        obtain ⟨rfl, _⟩ := h
        have h9 := decTL_none_short hd2
        obtain ⟨hdr, he, hl⟩ := decTL_split hd
        refine ⟨rfl, ?_⟩
        intro _
        rw [he]; simp only [List.length_append, maxPkt]; omega
      · rename_i len r2 hd2
        split at h
        · cases h
        · simp only at h
          split at h
          · rename_i hge
            split at h
            · obtain ⟨h1, h2⟩ := ih _ _ _ _ h
              have ht := decTL_rest_lt hd
              have hl := decTL_rest_lt hd2
              simp only [StreamSt.recvOff, List.length_drop] at h1 h2 ⊢
              exact ⟨by omega, by intro hf; apply h2; omega⟩
            · cases h
          · split at h
            · cases h
            · rename_i hle
              simp only [Inner.cont.injEq] at h
              obtain ⟨rfl, _⟩ := h
              exact ⟨rfl, by intro _; omega⟩

theorem inner_no_panic (f : Nat) : ∀ (s : StreamSt) (fr : List Bytes),
    s.recvOff ≤ bufCap → inner f s fr ≠ .panic := by
  induction f with
  | zero => intro s fr _ h; simp only [inner] at h; cases h
  | succ f ih =>
    intro s fr hs h
    rw [inner] at h
    split at h
    · cases h
    · split at h
      · cases h
      · split at h
        · cases h
        · simp only at h
          split at h
          · rename_i hge
            split at h
            · refine ih _ _ ?_ h
              simp only [StreamSt.recvOff, List.length_drop] at hs ⊢
              omega
            · simp only [StreamSt.recvOff] at hs
              omega
          · split at h
            · cases h
            · cases h

end Ndn.C04
