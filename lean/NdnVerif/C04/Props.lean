/-
  C04/Props.lean — property theorems of C04: no byte sequence crashes or exhausts a decoder or the
  forwarder's receive path.  Every theorem is for EVERY input.

  Part I  (decoders)      the generated TLV decoders = the generic schema interpreter `Ndn.C13.parse`
                          instantiated with any schema: parse_total / parse_fuel_free /
                          parse_alloc_linear, for every schema (no well-formedness hypothesis), every
                          ignoreCritical flag, every input of at most 2^40 bytes.
  Part II (receive path)  GetFWThread (dispatch_total), NDNLP link service (reassemble_total,
                          handleFrame_total, store_bounded, reject_no_state_change), readTlvStream
                          (stream_no_panic, stream_progress, stream_total).
  Helper lemmas: ParseLemmas.lean, LinkLemmas.lean.  Core Lean only.
-/
import NdnVerif.C04.Model
import NdnVerif.C04.LinkLemmas
import NdnVerif.C04.ParseLemmas
namespace Ndn.C04

/-! # Part I — decoders -/
section Decoders
open Ndn.C13


/-- the three properties in one statement, for an arbitrary input bound `M`: a panic is only
    possible when `M` exceeds `maxInput` -/
theorem parse_sat (M : Nat) (s : Schema) (ic : Bool) (b : Bytes) (hM : b.length ≤ M) :
    Sat (maxInput < M) (parse s ic b) (fun _ a => a ≤ 16 * b.length) (fun a => a ≤ 16 * b.length) :=
  runSlots_sat M s.ordered (compile s.fields) (compile_good M s.fields) ic b hM

/-! concrete schemas / inputs for the non-vacuity examples -/

/-- one name field of type 7 -/
def exName : Schema := ⟨"x", false, .cons 7 .name .nil⟩
/-- ordered model: required natural (type 1), binary (type 2), nested unordered struct (type 3) with a
    sequence of names -/
def exNested : Schema :=
  ⟨"y", true, .cons 1 (.natural false) (.cons 2 .binary (.cons 3 (.struct false (.cons 7 (.seq .name) .nil)) .nil))⟩

/-- PROPERTY (no panic): parsing at most 2^40 arbitrary bytes under any schema never panics. -/
theorem parse_total (s : Schema) (ic : Bool) (b : Bytes) :
    b.length ≤ maxInput → parse s ic b ≠ .panic := by
  intro hb h
  have := parse_sat maxInput s ic b hb
  rw [h] at this
  exact Nat.lt_irrefl _ this

/-- non-vacuity: a well-formed input really is decoded (one name `/8=A`), -/
example : parse exName false [7, 3, 8, 1, 65] = .ok (.cons (.name [⟨8, [65]⟩]) .nil) 64 := by rfl
/-- a length field larger than the input is an error, not a panic, -/
example : parse exName false [7, 0xfe, 0xff, 0xff, 0xff, 0xff, 8, 1, 65] = .err 0 := by rfl
/-- and the panic outcome is real in the model: `make` with a huge length is `panic`, only the
    remaining-bytes guards keep the readers away from it. -/
example : goMake (2 ^ 44) 32 = .panic := by rfl

/-- PROPERTY (termination): fuel `b.length + 1` always suffices, whatever the input length. -/
theorem parse_fuel_free (s : Schema) (ic : Bool) (b : Bytes) : parse s ic b ≠ .fuel := by
  intro h
  have := parse_sat b.length s ic b (Nat.le_refl _)
  rw [h] at this
  exact this

/-- non-vacuity: nested model, three elements + two inner ones, every loop runs to completion; one
    fuel unit less than `b.length + 1` is NOT always enough (empty input needs the one iteration). -/
example : parse exNested false [1, 1, 5, 2, 2, 9, 9, 3, 6, 7, 0, 7, 2, 8, 0]
    = .ok (.cons (.nat 5) (.cons (.bytes [9, 9])
        (.cons (.struct (.cons (.seq (.cons (.name []) (.cons (.name [⟨8, []⟩]) .nil))) .nil)) .nil))) 98 := by
  rfl
example : loopU (compile exName.fields) false 0 [] (initAcc (compile exName.fields)) = .fuel := by rfl

/-- PROPERTY (allocation): what a parse allocates on the say-so of length fields is at most 16 bytes
    per input byte. -/
theorem parse_alloc_linear (s : Schema) (ic : Bool) (b : Bytes) :
    b.length ≤ maxInput → (parse s ic b).alloc ≤ 16 * b.length := by
  intro hb
  have := parse_sat maxInput s ic b hb
  cases h : parse s ic b with
  | ok v a => rw [h] at this; exact this
  | err a => rw [h] at this; exact this
  | panic => simp [Res.alloc]
  | fuel => simp [Res.alloc]

/-- non-vacuity and tightness: an empty name (2 input bytes) allocates `make(enc.Name, 1)` = 32 bytes
    = 16 · 2; the constant 16 cannot be lowered. -/
example : (parse exName false [7, 0]).alloc = 32 ∧ 16 * [7, 0].length = 32 := by decide
example : (parse exName false [7, 3, 8, 1, 65]).alloc = 64 := by decide


end Decoders

/-! # Part II — receive path -/


/-! ## 1. GetFWThread -/

/-- GetFWThread never indexes out of range and only returns existing threads. -/
theorem dispatch_total (n id : Nat) :
    ∃ r, getThread n id = some r ∧ (∀ i, r = some i → i < n) :=
  getThread_some n id

example : getThread 4 3 = some (some 3) := by decide
example : getThread 4 4 = some none := by decide       -- the repaired boundary `id == len`

/-! ## 2. reassemblePacket and the store invariant -/

/-- every partial message has between 1 and `maxFragments` slots -/
def StoreOk (st : LinkSt) : Prop :=
  ∀ e ∈ st.store, e.2.length ≤ maxFragments ∧ 0 < e.2.length

/-- number of fragment slots allocated in the partial-message store -/
def slots (st : LinkSt) : Nat := (st.store.map (·.2.length)).sum

/-- number of fragment bytes held in the partial-message store -/
def storeBytes (st : LinkSt) : Nat := (st.store.map (fun e => (e.2.map List.length).sum)).sum

/-- the link service's initial state: empty store -/
def initSt : LinkSt := { store := [] }

/-- process a sequence of frames; `none` = some frame made the Go code panic -/
def runFrames (c : Cfg) : LinkSt → List Bytes → Option LinkSt
  | st, [] => some st
  | st, f :: fs =>
    match handleFrame c st f with
    | none => none
    | some (st', _) => runFrames c st' fs

theorem storeOk_init : StoreOk initSt := by
  intro e he; simp [initSt] at he

/-- `reassemblePacket` never panics (no index out of range, no absurd `make`), for every stored
    state — the repaired code does not even need the store invariant. -/
theorem reassemble_total (st : LinkSt) (base idx cnt : Nat) (frag : Bytes) :
    reassemble st base idx cnt frag ≠ none := by
  intro h
  rcases reassemble_cases st base idx cnt frag with hc | ⟨e, _, _, _, _, _, hc | hc⟩ <;>
    rw [h] at hc <;> cases hc

-- FragIndex ≥ FragCount (the F-04c crash input) is dropped, state unchanged
example : reassemble initSt 7 5 2 [1] = some (initSt, none) := by rfl
-- FragCount = 2^32 (the makeslice input) is dropped
example : reassemble initSt 7 0 (2 ^ 32) [1] = some (initSt, none) := by
  simp [reassemble, maxFragments]
-- the interesting branch: first fragment of two is stored
example : reassemble initSt 7 0 2 [1] = some ({ store := [(7, [[1], []])] }, none) := by rfl

/-- the store invariant is preserved by `reassemblePacket` -/
theorem reassemble_preserves_storeOk (st : LinkSt) (base idx cnt : Nat) (frag : Bytes)
    (st' : LinkSt) (w : Option Bytes)
    (h : reassemble st base idx cnt frag = some (st', w)) (hs : StoreOk st) : StoreOk st' := by
  rcases reassemble_cases st base idx cnt frag with hc | ⟨e, h0, h1, _, hl, _, hc | hc⟩
  · rw [h] at hc; cases hc; exact hs
  · rw [h] at hc; cases hc
    exact storeOkL_storeErase (l := st.store) hs
  · rw [h] at hc; cases hc
    refine storeOkL_storeSet (l := st.store) hs ?_
    simp only [List.length_set]; omega

example : StoreOk { store := [(7, [[1], []])] } := by
  intro e he; simp at he; subst he; simp [maxFragments]

/-! ## 3. handleIncomingFrame never panics -/

/-- unconditional form: for every state, decoder and frame -/
theorem handleFrame_never_panics (c : Cfg) (st : LinkSt) (frame : Bytes) :
    handleFrame c st frame ≠ none := by
  obtain ⟨st', d, h, _⟩ := handleFrame_shape c st frame
  rw [h]; simp

theorem handleFrame_total (c : Cfg) (st : LinkSt) (frame : Bytes) :
    StoreOk st → handleFrame c st frame ≠ none :=
  fun _ => handleFrame_never_panics c st frame

/-- the store invariant is preserved by `handleIncomingFrame` -/
theorem handleFrame_preserves_storeOk (c : Cfg) (st : LinkSt) (frame : Bytes)
    (st' : LinkSt) (d : Deliver)
    (h : handleFrame c st frame = some (st', d)) (hs : StoreOk st) : StoreOk st' := by
  obtain ⟨st1, d1, h1, hc⟩ := handleFrame_shape c st frame
  rw [h] at h1; cases h1
  rcases hc with hc | ⟨base, idx, cnt, st'', w, hr, hc⟩
  · unfold StoreOk; rw [hc]; exact hs
  · have := reassemble_preserves_storeOk st base idx cnt _ st'' w hr hs
    unfold StoreOk; rw [hc]; exact this

/-- a decoder for the examples: a frame `[s, i, n, x]` is an LpPacket with Sequence `s`,
    FragIndex `i`, FragCount `n` and the one-byte fragment `[x]`; `[5]` and `[5, 5]` are bare Interests,
    `[6]` a bare Data; everything else fails to decode. -/
def exDec : Bytes → Option Pkt
  | [s, i, n, x] =>
    some { interest := false, data := false,
           lp := some { seq := some s, idx := some i, cnt := some n, token := none,
                        fragment := some [x] } }
  | [5] => some { interest := true, data := false, lp := none }
  | [5, 5] => some { interest := true, data := false, lp := none }
  | [6] => some { interest := false, data := true, lp := none }
  | _ => none

def exCfg : Cfg := { reassembly := true, threads := 2, dec := exDec }

-- the interesting branch: a fragment 1 of 3 goes through `reassemble` and is stored
example : handleFrame exCfg initSt [9, 1, 3, 5] =
    some ({ store := [(8, [[], [5], []])] }, .nothing) := by rfl
-- the crash input of F-04c (FragIndex 7 ≥ FragCount 3) is dropped
example : handleFrame exCfg initSt [9, 7, 3, 5] = some (initSt, .nothing) := by rfl
-- the second fragment completes the two-fragment Interest `[5, 5]`: entry erased, Interest delivered
example : handleFrame exCfg { store := [(9, [[5], []])] } [10, 1, 2, 5] =
    some ({ store := [], nInInterests := 1 }, .interest) := by rfl
example : (runFrames exCfg initSt [[9, 0, 2, 5], [10, 1, 2, 5]]) =
    some { store := [], nInInterests := 1 } := by rfl
-- a fragment whose FragCount disagrees with the stored entry is dropped, entry kept
example : handleFrame exCfg { store := [(9, [[5], []])] } [10, 1, 3, 5] =
    some ({ store := [(9, [[5], []])] }, .nothing) := by rfl

/-- no frame sequence makes the link service panic -/
theorem runFrames_total (c : Cfg) (frames : List Bytes) :
    ∀ st, StoreOk st → ∃ st', runFrames c st frames = some st' ∧ StoreOk st' := by
  induction frames with
  | nil => intro st hs; exact ⟨st, rfl, hs⟩
  | cons f fs ih =>
    intro st hs
    obtain ⟨st1, d1, h1, _⟩ := handleFrame_shape c st f
    have hs1 := handleFrame_preserves_storeOk c st f st1 d1 h1 hs
    obtain ⟨st', h', hs'⟩ := ih st1 hs1
    exact ⟨st', by simp only [runFrames, h1, h'], hs'⟩

theorem frames_total (c : Cfg) (frames : List Bytes) : runFrames c initSt frames ≠ none := by
  obtain ⟨st', h, _⟩ := runFrames_total c frames initSt storeOk_init
  rw [h]; simp

example : runFrames exCfg initSt [[9, 1, 3, 5], [9, 7, 3, 5], [1, 2]] =
    some { store := [(8, [[], [5], []])] } := by rfl

/-! ## 4. the store grows by a bounded amount per frame -/

theorem reassemble_slots (st : LinkSt) (base idx cnt : Nat) (frag : Bytes)
    (st' : LinkSt) (w : Option Bytes)
    (h : reassemble st base idx cnt frag = some (st', w)) : slots st' ≤ slots st + maxFragments := by
  rcases reassemble_cases st base idx cnt frag with hc | ⟨e, h0, h1, _, hl, _, hc | hc⟩
  · rw [h] at hc; cases hc; omega
  · rw [h] at hc; cases hc
    have := slotsL_storeErase st.store base
    simp only [slots, slotsL] at this ⊢; omega
  · rw [h] at hc; cases hc
    have := slotsL_storeSet st.store base (e.set idx frag)
    simp only [slots, slotsL, List.length_set] at this ⊢; omega

/-- one frame allocates at most `maxFragments` slots -/
theorem store_bounded_step (c : Cfg) (st : LinkSt) (frame : Bytes) (st' : LinkSt) (d : Deliver)
    (h : handleFrame c st frame = some (st', d)) : slots st' ≤ slots st + maxFragments := by
  obtain ⟨st1, d1, h1, hc⟩ := handleFrame_shape c st frame
  rw [h] at h1; cases h1
  rcases hc with hc | ⟨base, idx, cnt, st'', w, hr, hc⟩
  · simp only [slots, hc]; omega
  · have := reassemble_slots st base idx cnt _ st'' w hr
    simp only [slots, hc] at this ⊢; exact this

theorem store_bounded_from (c : Cfg) (frames : List Bytes) :
    ∀ st st', runFrames c st frames = some st' →
      slots st' ≤ slots st + maxFragments * frames.length := by
  induction frames with
  | nil => intro st st' h; simp only [runFrames, Option.some.injEq] at h; subst h; simp
  | cons f fs ih =>
    intro st st' h
    obtain ⟨st1, d1, h1, _⟩ := handleFrame_shape c st f
    simp only [runFrames, h1] at h
    have := store_bounded_step c st f st1 d1 h1
    have := ih st1 st' h
    simp only [List.length_cons, Nat.mul_succ]; omega

/-- from the empty store, after `k` frames at most `maxFragments * k` slots are allocated -/
theorem store_bounded (c : Cfg) (frames : List Bytes) (st' : LinkSt)
    (h : runFrames c initSt frames = some st') : slots st' ≤ maxFragments * frames.length := by
  have := store_bounded_from c frames initSt st' h
  simpa [slots, initSt] using this

example : slots { store := [(8, [[], [5], []])] } = 3 := by decide

theorem reassemble_bytes (st : LinkSt) (base idx cnt : Nat) (frag : Bytes)
    (st' : LinkSt) (w : Option Bytes)
    (h : reassemble st base idx cnt frag = some (st', w)) :
    storeBytes st' ≤ storeBytes st + frag.length := by
  rcases reassemble_cases st base idx cnt frag with hc | ⟨e, h0, h1, _, hl, hf, hc | hc⟩
  · rw [h] at hc; cases hc; omega
  · rw [h] at hc; cases hc
    have := bytesL_storeErase st.store base
    simp only [storeBytes, bytesL, fragBytes] at this ⊢; omega
  · rw [h] at hc; cases hc
    have hset := fragBytes_set e idx frag
    rcases hf with hf | ⟨hf, he⟩
    · have := bytesL_storeSet_some (e.set idx frag) hf
      simp only [storeBytes, bytesL, fragBytes] at this hset ⊢; omega
    · have := bytesL_storeSet_none (e.set idx frag) hf
      have h0 := fragBytes_replicate cnt
      rw [← he] at h0
      simp only [storeBytes, bytesL, fragBytes] at this hset h0 ⊢; omega

/-- one frame adds at most the length of its Fragment field to the bytes held in the store -/
theorem store_bytes_bounded (c : Cfg) (st : LinkSt) (frame : Bytes) (st' : LinkSt) (d : Deliver)
    (h : handleFrame c st frame = some (st', d)) :
    storeBytes st' ≤ storeBytes st + (fragOf c frame).length := by
  obtain ⟨st1, d1, h1, hc⟩ := handleFrame_shape c st frame
  rw [h] at h1; cases h1
  rcases hc with hc | ⟨base, idx, cnt, st'', w, hr, hc⟩
  · simp only [storeBytes, hc]; omega
  · have := reassemble_bytes st base idx cnt _ st'' w hr
    simp only [storeBytes, hc] at this ⊢; exact this

/-- sequence version: the bytes held never exceed the sum of the Fragment lengths seen so far -/
theorem store_bytes_bounded_from (c : Cfg) (frames : List Bytes) :
    ∀ st st', runFrames c st frames = some st' →
      storeBytes st' ≤ storeBytes st + (frames.map (fun f => (fragOf c f).length)).sum := by
  induction frames with
  | nil => intro st st' h; simp only [runFrames, Option.some.injEq] at h; subst h; simp
  | cons f fs ih =>
    intro st st' h
    obtain ⟨st1, d1, h1, _⟩ := handleFrame_shape c st f
    simp only [runFrames, h1] at h
    have := store_bytes_bounded c st f st1 d1 h1
    have := ih st1 st' h
    simp only [List.map_cons, List.sum_cons]; omega

example : fragOf exCfg [9, 1, 3, 5] = [5] ∧ storeBytes { store := [(8, [[], [5], []])] } = 1 := by
  decide

/-! ## 5. a frame that fails to decode changes nothing -/

theorem reject_no_state_change (c : Cfg) (st : LinkSt) (frame : Bytes) :
    c.dec frame = none → handleFrame c st frame = some (st, .nothing) := by
  intro h; simp only [handleFrame, h]

example : exCfg.dec [1, 2] = none := by decide

/-! ## 6. readTlvStream never slices out of range -/

theorem stream_no_panic (f : Nat) : ∀ (cs : List Bytes) (s : StreamSt) (fr : List Bytes),
    s.recvOff ≤ bufCap → (stream f cs s fr).2 ≠ .panic := by
  induction f with
  | zero => intro cs s fr _; simp [stream]
  | succ f ih =>
    intro cs s fr hs
    cases cs with
    | nil => simp [stream]
    | cons c cs =>
      rw [stream]
      simp only
      split
      · simp
      · rename_i hfree
        have hs1 : (⟨s.tlvOff, s.data ++ c.take (min c.length (bufCap - s.recvOff))⟩ : StreamSt).recvOff
            ≤ bufCap := by
          simp only [StreamSt.recvOff, List.length_append, List.length_take] at hs ⊢; omega
        split
        · rename_i hi
          exact absurd hi (inner_no_panic _ _ _ hs1)
        · simp
        · rename_i s2 fr' hi
          obtain ⟨h2, _⟩ := inner_cont _ _ _ _ _ hi
          apply ih
          split
          · simp only [StreamSt.recvOff] at h2 hs1 ⊢; omega
          · omega

example : (⟨0, []⟩ : StreamSt).recvOff ≤ bufCap := by decide

/-! ## 7. readTlvStream never reads into a zero-length destination -/

/-- loop invariant at the top of the outer loop: the buffer was compacted and holds at most one
    packet's worth of unread bytes -/
def Inv (s : StreamSt) : Prop := s.tlvOff = 0 ∧ s.data.length ≤ maxPkt

theorem inv_init : Inv ⟨0, []⟩ := by simp [Inv]

/-- one outer iteration re-establishes the invariant -/
theorem inv_step {s : StreamSt} {d : Bytes} {s2 : StreamSt} {fr fr' : List Bytes}
    (hi : inner ((s.data ++ d).length + 1) ⟨s.tlvOff, s.data ++ d⟩ fr = .cont s2 fr') :
    Inv (if s2.data.length ≤ maxPkt then ⟨0, s2.data⟩ else s2) := by
  obtain ⟨_, h2⟩ := inner_cont _ _ _ _ _ hi
  have := h2 (by simp only; omega)
  simp only [this, if_true, Inv, and_self]

theorem stream_progress (f : Nat) : ∀ (cs : List Bytes) (s : StreamSt) (fr : List Bytes),
    Inv s → (stream f cs s fr).2 ≠ .spin := by
  induction f with
  | zero => intro cs s fr _; simp [stream]
  | succ f ih =>
    intro cs s fr hs
    cases cs with
    | nil => simp [stream]
    | cons c cs =>
      rw [stream]
      simp only
      split
      · rename_i hfree
        obtain ⟨h0, h1⟩ := hs
        simp only [StreamSt.recvOff, bufCap, maxPkt] at hfree h0 h1; omega
      · split
        · simp
        · simp
        · rename_i s2 fr' hi
          exact ih _ _ _ (inv_step hi)

/-! ## 8. readTlvStream terminates by EOF or by an error return, nothing else -/

theorem stream_fuel (f : Nat) : ∀ (cs : List Bytes) (s : StreamSt) (fr : List Bytes),
    Inv s → chunksFuel cs ≤ f → (stream f cs s fr).2 ≠ .fuel := by
  induction f with
  | zero => intro cs s fr _ hf; simp only [chunksFuel] at hf; omega
  | succ f ih =>
    intro cs s fr hs hf
    cases cs with
    | nil => simp [stream]
    | cons c cs =>
      rw [stream]
      simp only
      split
      · simp
      · rename_i hfree
        split
        · simp
        · simp
        · rename_i s2 fr' hi
          refine ih _ _ _ (inv_step hi) ?_
          split
          · simp only [chunksFuel, List.map_cons, List.sum_cons] at hf ⊢; omega
          · rename_i hn
            simp only [chunksFuel, List.map_cons, List.sum_cons, List.length_drop] at hf ⊢
            omega

/-- for every chunking of the input, the framing loop ends with EOF or an error return: no slice
    panic, no zero-length read spin, and the model's fuel is never the reason it stops -/
theorem stream_total (chunks : List Bytes) :
    (runStream chunks).2 ≠ .panic ∧ (runStream chunks).2 ≠ .spin ∧ (runStream chunks).2 ≠ .fuel := by
  refine ⟨?_, ?_, ?_⟩
  · exact stream_no_panic _ _ _ _ (by decide)
  · exact stream_progress _ _ _ _ inv_init
  · exact stream_fuel _ _ _ _ inv_init (Nat.le_refl _)

theorem stream_total' (chunks : List Bytes) :
    (runStream chunks).2 = .eof ∨ (runStream chunks).2 = .err := by
  obtain ⟨h1, h2, h3⟩ := stream_total chunks
  cases h : (runStream chunks).2 <;> simp_all

-- a two-byte TLV `[1,0]` delivered across two reads, then EOF
example : runStream [[1], [0]] = ([[1, 0]], .eof) := by
  simp [runStream, chunksFuel, stream, inner, decTL, tlLen, bufCap, maxPkt, StreamSt.recvOff]
-- a length above the buffer capacity: error return, not a panic (F-04b)
example : runStream [[1, 0xfe, 0xff, 0xff, 0xff, 0xff]] = ([], .err) := by
  simp [runStream, chunksFuel, stream, inner, decTL, tlExtra, beDec, bufCap, maxPkt,
    StreamSt.recvOff]


end Ndn.C04
