/-
  C04/Props.lean — property theorems of C04 (work in progress: see design/C04.md)
-/
import NdnVerif.C04.Model
namespace Ndn.C04

theorem getThread_total (n id : Nat) : getThread n id ≠ none := by
  unfold getThread; split
  · simp
  · split
    · simp
    · omega

end Ndn.C04
