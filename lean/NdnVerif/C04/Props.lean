/-
  C04/Props.lean — property theorems of C04: no byte sequence crashes or exhausts a decoder or the
  forwarder's receive path.  Every theorem is for EVERY input.

  Part I  (decoders)      the generated TLV decoders = the generic schema interpreter `Ndn.C13.parse`
                          instantiated with any schema: parse_total / parse_fuel_free /
                          parse_alloc_linear, for every schema (no well-formedness hypothesis), every
                          ignoreCritical flag, every input of at most 2^40 bytes.
  Part II (receive path)  GetFWThread (dispatch_total), NDNLP link service (reassemble_total,
                          handleFrame_total, store_bounded, reject_no_state_change), readTlvStream
                          (stream_no_panic, stream_progress, stream_total).
  Part III (any reader)   the same decoders performing every access through the reader operations of
                          std/encoding/readers.go (C03/Reader.lean): parseR_eq_parse, parse_segmented_eq_contiguous,
                          parse_total_segmented / parse_fuel_free_segmented / parse_alloc_linear_segmented.
  Helper lemmas: ParseLemmas.lean, LinkLemmas.lean, SegmentedModel.lean, SegmentedLemmas.lean.  Core Lean only.
-/
import NdnVerif.C04.Model
import NdnVerif.C04.LinkLemmas
import NdnVerif.C04.SoakLemmas
import NdnVerif.C04.ParseLemmas
import NdnVerif.C04.SegmentedLemmas
import NdnVerif.C03.Props
namespace Ndn.C04

/-! # Part I — decoders -/
section Decoders
open Ndn.C13


/-- the three properties in one statement, for an arbitrary input bound `M`: a panic is only
    possible when `M` exceeds `maxInput` -/
theorem parse_sat (M : Nat) (s : Schema) (ic : Bool) (b : Bytes) (hM : b.length ≤ M) :
    Sat (maxInput < M) (parse s ic b) (fun _ a => a ≤ 16 * b.length) (fun a => a ≤ 16 * b.length) :=
  runSlots_sat M s.ordered (compile s.fields) (compile_good M s.fields) ic b hM

/-! concrete schemas / inputs for the non-vacuity examples -/

/-- one name field of type 7 -/
def exName : Schema := ⟨"x", false, .cons 7 .name .nil⟩
/-- ordered model: required natural (type 1), binary (type 2), nested unordered struct (type 3) with a
    sequence of names -/
def exNested : Schema :=
  ⟨"y", true, .cons 1 (.natural false) (.cons 2 .binary (.cons 3 (.struct false (.cons 7 (.seq .name) .nil)) .nil))⟩

/-- PROPERTY (no panic): parsing at most 2^40 arbitrary bytes under any schema never panics. -/
theorem parse_total (s : Schema) (ic : Bool) (b : Bytes) :
    b.length ≤ maxInput → parse s ic b ≠ .panic := by
  intro hb h
  have := parse_sat maxInput s ic b hb
  rw [h] at this
  exact Nat.lt_irrefl _ this

/-- non-vacuity: a well-formed input really is decoded (one name `/8=A`), -/
example : parse exName false [7, 3, 8, 1, 65] = .ok (.cons (.name [⟨8, [65]⟩]) .nil) 64 := by rfl
/-- a length field larger than the input is an error, not a panic, -/
example : parse exName false [7, 0xfe, 0xff, 0xff, 0xff, 0xff, 8, 1, 65] = .err 0 := by rfl
/-- and the panic outcome is real in the model: `make` with a huge length is `panic`, only the
    remaining-bytes guards keep the readers away from it. -/
example : goMake (2 ^ 44) 32 = .panic := by rfl

/-- PROPERTY (termination): fuel `b.length + 1` always suffices, whatever the input length. -/
theorem parse_fuel_free (s : Schema) (ic : Bool) (b : Bytes) : parse s ic b ≠ .fuel := by
  intro h
  have := parse_sat b.length s ic b (Nat.le_refl _)
  rw [h] at this
  exact this

/-- non-vacuity: nested model, three elements + two inner ones, every loop runs to completion; one
    fuel unit less than `b.length + 1` is NOT always enough (empty input needs the one iteration). -/
example : parse exNested false [1, 1, 5, 2, 2, 9, 9, 3, 6, 7, 0, 7, 2, 8, 0]
    = .ok (.cons (.nat 5) (.cons (.bytes [9, 9])
        (.cons (.struct (.cons (.seq (.cons (.name []) (.cons (.name [⟨8, []⟩]) .nil))) .nil)) .nil))) 98 := by
  rfl
example : loopU (compile exName.fields) false 0 [] (initAcc (compile exName.fields)) = .fuel := by rfl

/-- PROPERTY (allocation): what a parse allocates on the say-so of length fields is at most 16 bytes
    per input byte. -/
theorem parse_alloc_linear (s : Schema) (ic : Bool) (b : Bytes) :
    b.length ≤ maxInput → (parse s ic b).alloc ≤ 16 * b.length := by
  intro hb
  have := parse_sat maxInput s ic b hb
  cases h : parse s ic b with
  | ok v a => rw [h] at this; exact this
  | err a => rw [h] at this; exact this
  | panic => simp [Res.alloc]
  | fuel => simp [Res.alloc]

/-- non-vacuity and tightness: an empty name (2 input bytes) allocates `make(enc.Name, 1)` = 32 bytes
    = 16 · 2; the constant 16 cannot be lowered. -/
example : (parse exName false [7, 0]).alloc = 32 ∧ 16 * [7, 0].length = 32 := by decide
example : (parse exName false [7, 3, 8, 1, 65]).alloc = 64 := by decide


end Decoders

/-! # Part II — receive path -/


/-! ## 1. GetFWThread -/

/-- GetFWThread never indexes out of range and only returns existing threads. -/
theorem dispatch_total (n id : Nat) :
    ∃ r, getThread n id = some r ∧ (∀ i, r = some i → i < n) :=
  getThread_some n id

example : getThread 4 3 = some (some 3) := by decide
example : getThread 4 4 = some none := by decide       -- the repaired boundary `id == len`

/-! ## 2. reassemblePacket and the store invariant -/

/-- every partial message has between 1 and `maxFragments` slots -/
def StoreOk (st : LinkSt) : Prop :=
  ∀ e ∈ st.store, e.2.length ≤ maxFragments ∧ 0 < e.2.length

/-- number of fragment slots allocated in the partial-message store -/
def slots (st : LinkSt) : Nat := (st.store.map (·.2.length)).sum

/-- number of fragment bytes held in the partial-message store -/
def storeBytes (st : LinkSt) : Nat := (st.store.map (fun e => (e.2.map List.length).sum)).sum

/-- the link service's initial state: empty store -/
def initSt : LinkSt := { store := [] }

/-- process a sequence of frames; `none` = some frame made the Go code panic -/
def runFrames (c : Cfg) : LinkSt → List Bytes → Option LinkSt
  | st, [] => some st
  | st, f :: fs =>
    match handleFrame c st f with
    | none => none
    | some (st', _) => runFrames c st' fs

theorem storeOk_init : StoreOk initSt := by
  intro e he; simp [initSt] at he

/-- `reassemblePacket` never panics (no index out of range, no absurd `make`), for every stored
    state — the repaired code does not even need the store invariant. -/
theorem reassemble_total (st : LinkSt) (base idx cnt : Nat) (frag : Bytes) :
    reassemble st base idx cnt frag ≠ none := by
  intro h
  rcases reassemble_cases st base idx cnt frag with hc | ⟨e, _, _, _, _, _, hc | hc⟩ <;>
    rw [h] at hc <;> cases hc

-- FragIndex ≥ FragCount (the F-04c crash input) is dropped, state unchanged
example : reassemble initSt 7 5 2 [1] = some (initSt, none) := by rfl
-- FragCount = 2^32 (the makeslice input) is dropped
example : reassemble initSt 7 0 (2 ^ 32) [1] = some (initSt, none) := by
  simp [reassemble, maxFragments]
-- the interesting branch: first fragment of two is stored
example : reassemble initSt 7 0 2 [1] = some ({ store := [(7, [[1], []])] }, none) := by rfl

/-- the store invariant is preserved by `reassemblePacket` -/
theorem reassemble_preserves_storeOk (st : LinkSt) (base idx cnt : Nat) (frag : Bytes)
    (st' : LinkSt) (w : Option Bytes)
    (h : reassemble st base idx cnt frag = some (st', w)) (hs : StoreOk st) : StoreOk st' := by
  rcases reassemble_cases st base idx cnt frag with hc | ⟨e, h0, h1, _, hl, _, hc | hc⟩
  · rw [h] at hc; cases hc; exact hs
  · rw [h] at hc; cases hc
    exact storeOkL_storeErase (l := st.store) hs
  · rw [h] at hc; cases hc
    refine storeOkL_storeSet (l := st.store) hs ?_
    simp only [List.length_set]; omega

example : StoreOk { store := [(7, [[1], []])] } := by
  intro e he; simp at he; subst he; simp [maxFragments]

/-! ## 3. handleIncomingFrame never panics -/

/-- **One frame, one packet** (F-09c, also what C09 relies on): whenever the link service dispatches anything, the bytes
    it hands to the forwarding threads — and which are forwarded on as they are — are exactly ONE TLV: the bare frame,
    the Fragment field, or the reassembled message. A second packet appended behind the first (a Data `/localhost/…`
    behind an ordinary Interest) is never carried along. -/
theorem only_single_packets_are_dispatched (c : Cfg) (st : LinkSt) (frame : Bytes) (st' : LinkSt) (d : Deliver)
    (h : handleFrame c st frame = some (st', d)) (hd : d ≠ .nothing) :
    singleTlv frame = true ∨ singleTlv (fragOf c frame) = true ∨
    ∃ base idx cnt st'' whole, reassemble st base idx cnt (fragOf c frame) = some (st'', some whole) ∧ singleTlv whole = true :=
  handleFrame_dispatches_single_tlv c st frame st' d h hd

/-- unconditional form: for every state, decoder and frame -/
theorem handleFrame_never_panics (c : Cfg) (st : LinkSt) (frame : Bytes) :
    handleFrame c st frame ≠ none := by
  obtain ⟨st', d, h, _⟩ := handleFrame_shape c st frame
  rw [h]; simp

theorem handleFrame_total (c : Cfg) (st : LinkSt) (frame : Bytes) :
    StoreOk st → handleFrame c st frame ≠ none :=
  fun _ => handleFrame_never_panics c st frame

/-- the store invariant is preserved by `handleIncomingFrame` -/
theorem handleFrame_preserves_storeOk (c : Cfg) (st : LinkSt) (frame : Bytes)
    (st' : LinkSt) (d : Deliver)
    (h : handleFrame c st frame = some (st', d)) (hs : StoreOk st) : StoreOk st' := by
  obtain ⟨st1, d1, h1, hc⟩ := handleFrame_shape c st frame
  rw [h] at h1; cases h1
  rcases hc with hc | ⟨base, idx, cnt, st'', w, hr, hc⟩
  · unfold StoreOk; rw [hc]; exact hs
  · have := reassemble_preserves_storeOk st base idx cnt _ st'' w hr hs
    unfold StoreOk; rw [hc]; exact this

/-- a decoder for the examples: a frame `[s, i, n, x]` is an LpPacket with Sequence `s`,
    FragIndex `i`, FragCount `n` and the one-byte fragment `[x]`; `[5, 0]` is a bare Interest (type 5, length 0),
    `[6, 0]` a bare Data; everything else fails to decode. -/
def exDec : Bytes → Option Pkt
  | [s, i, n, x] =>
    some { interest := false, data := false,
           lp := some { seq := some s, idx := some i, cnt := some n, token := none,
                        fragment := some [x] } }
  | [5, 0] => some { interest := true, data := false, lp := none }
  | [6, 0] => some { interest := false, data := true, lp := none }
  | _ => none

def exCfg : Cfg := { reassembly := true, threads := 2, dec := exDec }

-- the interesting branch: a fragment 1 of 3 goes through `reassemble` and is stored
example : handleFrame exCfg initSt [9, 1, 3, 5] =
    some ({ store := [(8, [[], [5], []])] }, .nothing) := by rfl
-- the crash input of F-04c (FragIndex 7 ≥ FragCount 3) is dropped
example : handleFrame exCfg initSt [9, 7, 3, 5] = some (initSt, .nothing) := by rfl
-- the second fragment completes the two-fragment Interest `[5, 0]`: entry erased, Interest delivered
example : handleFrame exCfg { store := [(9, [[5], []])] } [10, 1, 2, 0] =
    some ({ store := [], nInInterests := 1 }, .interest) := by rfl
example : (runFrames exCfg initSt [[9, 0, 2, 5], [10, 1, 2, 0]]) =
    some { store := [], nInInterests := 1 } := by rfl
-- (F-09c) a payload with a second TLV behind the first is not ONE packet: dropped, not dispatched
example : singleTlv [5, 0] = true ∧ singleTlv [5, 0, 6, 0] = false ∧ singleTlv [5, 1, 7] = true ∧ singleTlv [5, 2, 7] = false := by decide
-- a fragment whose FragCount disagrees with the stored entry is dropped, entry kept
example : handleFrame exCfg { store := [(9, [[5], []])] } [10, 1, 3, 5] =
    some ({ store := [(9, [[5], []])] }, .nothing) := by rfl

/-- no frame sequence makes the link service panic -/
theorem runFrames_total (c : Cfg) (frames : List Bytes) :
    ∀ st, StoreOk st → ∃ st', runFrames c st frames = some st' ∧ StoreOk st' := by
  induction frames with
  | nil => intro st hs; exact ⟨st, rfl, hs⟩
  | cons f fs ih =>
    intro st hs
    obtain ⟨st1, d1, h1, _⟩ := handleFrame_shape c st f
    have hs1 := handleFrame_preserves_storeOk c st f st1 d1 h1 hs
    obtain ⟨st', h', hs'⟩ := ih st1 hs1
    exact ⟨st', by simp only [runFrames, h1, h'], hs'⟩

theorem frames_total (c : Cfg) (frames : List Bytes) : runFrames c initSt frames ≠ none := by
  obtain ⟨st', h, _⟩ := runFrames_total c frames initSt storeOk_init
  rw [h]; simp

example : runFrames exCfg initSt [[9, 1, 3, 5], [9, 7, 3, 5], [1, 2]] =
    some { store := [(8, [[], [5], []])] } := by rfl

/-! ## 4. the store grows by a bounded amount per frame -/

theorem reassemble_slots (st : LinkSt) (base idx cnt : Nat) (frag : Bytes)
    (st' : LinkSt) (w : Option Bytes)
    (h : reassemble st base idx cnt frag = some (st', w)) : slots st' ≤ slots st + maxFragments := by
  rcases reassemble_cases st base idx cnt frag with hc | ⟨e, h0, h1, _, hl, _, hc | hc⟩
  · rw [h] at hc; cases hc; omega
  · rw [h] at hc; cases hc
    have := slotsL_storeErase st.store base
    simp only [slots, slotsL] at this ⊢; omega
  · rw [h] at hc; cases hc
    have := slotsL_storeSet st.store base (e.set idx frag)
    simp only [slots, slotsL, List.length_set] at this ⊢; omega

/-- one frame allocates at most `maxFragments` slots -/
theorem store_bounded_step (c : Cfg) (st : LinkSt) (frame : Bytes) (st' : LinkSt) (d : Deliver)
    (h : handleFrame c st frame = some (st', d)) : slots st' ≤ slots st + maxFragments := by
  obtain ⟨st1, d1, h1, hc⟩ := handleFrame_shape c st frame
  rw [h] at h1; cases h1
  rcases hc with hc | ⟨base, idx, cnt, st'', w, hr, hc⟩
  · simp only [slots, hc]; omega
  · have := reassemble_slots st base idx cnt _ st'' w hr
    simp only [slots, hc] at this ⊢; exact this

theorem store_bounded_from (c : Cfg) (frames : List Bytes) :
    ∀ st st', runFrames c st frames = some st' →
      slots st' ≤ slots st + maxFragments * frames.length := by
  induction frames with
  | nil => intro st st' h; simp only [runFrames, Option.some.injEq] at h; subst h; simp
  | cons f fs ih =>
    intro st st' h
    obtain ⟨st1, d1, h1, _⟩ := handleFrame_shape c st f
    simp only [runFrames, h1] at h
    have := store_bounded_step c st f st1 d1 h1
    have := ih st1 st' h
    simp only [List.length_cons, Nat.mul_succ]; omega

/-- from the empty store, after `k` frames at most `maxFragments * k` slots are allocated -/
theorem store_bounded (c : Cfg) (frames : List Bytes) (st' : LinkSt)
    (h : runFrames c initSt frames = some st') : slots st' ≤ maxFragments * frames.length := by
  have := store_bounded_from c frames initSt st' h
  simpa [slots, initSt] using this

example : slots { store := [(8, [[], [5], []])] } = 3 := by decide

theorem reassemble_bytes (st : LinkSt) (base idx cnt : Nat) (frag : Bytes)
    (st' : LinkSt) (w : Option Bytes)
    (h : reassemble st base idx cnt frag = some (st', w)) :
    storeBytes st' ≤ storeBytes st + frag.length := by
  rcases reassemble_cases st base idx cnt frag with hc | ⟨e, h0, h1, _, hl, hf, hc | hc⟩
  · rw [h] at hc; cases hc; omega
  · rw [h] at hc; cases hc
    have := bytesL_storeErase st.store base
    simp only [storeBytes, bytesL, fragBytes] at this ⊢; omega
  · rw [h] at hc; cases hc
    have hset := fragBytes_set e idx frag
    rcases hf with hf | ⟨hf, he⟩
    · have := bytesL_storeSet_some (e.set idx frag) hf
      simp only [storeBytes, bytesL, fragBytes] at this hset ⊢; omega
    · have := bytesL_storeSet_none (e.set idx frag) hf
      have h0 := fragBytes_replicate cnt
      rw [← he] at h0
      simp only [storeBytes, bytesL, fragBytes] at this hset h0 ⊢; omega

/-- one frame adds at most the length of its Fragment field to the bytes held in the store -/
theorem store_bytes_bounded (c : Cfg) (st : LinkSt) (frame : Bytes) (st' : LinkSt) (d : Deliver)
    (h : handleFrame c st frame = some (st', d)) :
    storeBytes st' ≤ storeBytes st + (fragOf c frame).length := by
  obtain ⟨st1, d1, h1, hc⟩ := handleFrame_shape c st frame
  rw [h] at h1; cases h1
  rcases hc with hc | ⟨base, idx, cnt, st'', w, hr, hc⟩
  · simp only [storeBytes, hc]; omega
  · have := reassemble_bytes st base idx cnt _ st'' w hr
    simp only [storeBytes, hc] at this ⊢; exact this

/-- sequence version: the bytes held never exceed the sum of the Fragment lengths seen so far -/
theorem store_bytes_bounded_from (c : Cfg) (frames : List Bytes) :
    ∀ st st', runFrames c st frames = some st' →
      storeBytes st' ≤ storeBytes st + (frames.map (fun f => (fragOf c f).length)).sum := by
  induction frames with
  | nil => intro st st' h; simp only [runFrames, Option.some.injEq] at h; subst h; simp
  | cons f fs ih =>
    intro st st' h
    obtain ⟨st1, d1, h1, _⟩ := handleFrame_shape c st f
    simp only [runFrames, h1] at h
    have := store_bytes_bounded c st f st1 d1 h1
    have := ih st1 st' h
    simp only [List.map_cons, List.sum_cons]; omega

example : fragOf exCfg [9, 1, 3, 5] = [5] ∧ storeBytes { store := [(8, [[], [5], []])] } = 1 := by
  decide

/-! ## 5. a frame that fails to decode changes nothing -/

theorem reject_no_state_change (c : Cfg) (st : LinkSt) (frame : Bytes) :
    c.dec frame = none → handleFrame c st frame = some (st, .nothing) := by
  intro h; simp only [handleFrame, h]

example : exCfg.dec [1, 2] = none := by decide

/-! ## 6. readTlvStream never slices out of range -/

theorem stream_no_panic (f : Nat) : ∀ (cs : List Bytes) (s : StreamSt) (fr : List Bytes),
    s.recvOff ≤ bufCap → (stream f cs s fr).2 ≠ .panic := by
  induction f with
  | zero => intro cs s fr _; simp [stream]
  | succ f ih =>
    intro cs s fr hs
    cases cs with
    | nil => simp [stream]
    | cons c cs =>
      rw [stream]
      simp only
      split
      · simp
      · rename_i hfree
        have hs1 : (⟨s.tlvOff, s.data ++ c.take (min c.length (bufCap - s.recvOff))⟩ : StreamSt).recvOff
            ≤ bufCap := by
          simp only [StreamSt.recvOff, List.length_append, List.length_take] at hs ⊢; omega
        split
        · rename_i hi
          exact absurd hi (inner_no_panic _ _ _ hs1)
        · simp
        · rename_i s2 fr' hi
          obtain ⟨h2, _⟩ := inner_cont _ _ _ _ _ hi
          apply ih
          split
          · simp only [StreamSt.recvOff] at h2 hs1 ⊢; omega
          · omega

example : (⟨0, []⟩ : StreamSt).recvOff ≤ bufCap := by decide

/-! ## 7. readTlvStream never reads into a zero-length destination -/

/-- loop invariant at the top of the outer loop: the buffer was compacted and holds at most one
    packet's worth of unread bytes -/
def Inv (s : StreamSt) : Prop := s.tlvOff = 0 ∧ s.data.length ≤ maxPkt

theorem inv_init : Inv ⟨0, []⟩ := by simp [Inv]

/-- one outer iteration re-establishes the invariant -/
theorem inv_step {s : StreamSt} {d : Bytes} {s2 : StreamSt} {fr fr' : List Bytes}
    (hi : inner ((s.data ++ d).length + 1) ⟨s.tlvOff, s.data ++ d⟩ fr = .cont s2 fr') :
    Inv (if s2.data.length ≤ maxPkt then ⟨0, s2.data⟩ else s2) := by
  obtain ⟨_, h2⟩ := inner_cont _ _ _ _ _ hi
  have := h2 (by simp only; omega)
  simp only [this, if_true, Inv, and_self]

theorem stream_progress (f : Nat) : ∀ (cs : List Bytes) (s : StreamSt) (fr : List Bytes),
    Inv s → (stream f cs s fr).2 ≠ .spin := by
  induction f with
  | zero => intro cs s fr _; simp [stream]
  | succ f ih =>
    intro cs s fr hs
    cases cs with
    | nil => simp [stream]
    | cons c cs =>
      rw [stream]
      simp only
      split
      · rename_i hfree
        obtain ⟨h0, h1⟩ := hs
        simp only [StreamSt.recvOff, bufCap, maxPkt] at hfree h0 h1; omega
      · split
        · simp
        · simp
        · rename_i s2 fr' hi
          exact ih _ _ _ (inv_step hi)

/-! ## 8. readTlvStream terminates by EOF or by an error return, nothing else -/

theorem stream_fuel (f : Nat) : ∀ (cs : List Bytes) (s : StreamSt) (fr : List Bytes),
    Inv s → chunksFuel cs ≤ f → (stream f cs s fr).2 ≠ .fuel := by
  induction f with
  | zero => intro cs s fr _ hf; simp only [chunksFuel] at hf; omega
  | succ f ih =>
    intro cs s fr hs hf
    cases cs with
    | nil => simp [stream]
    | cons c cs =>
      rw [stream]
      simp only
      split
      · simp
      · rename_i hfree
        split
        · simp
        · simp
        · rename_i s2 fr' hi
          refine ih _ _ _ (inv_step hi) ?_
          split
          · simp only [chunksFuel, List.map_cons, List.sum_cons] at hf ⊢; omega
          · rename_i hn
            simp only [chunksFuel, List.map_cons, List.sum_cons, List.length_drop] at hf ⊢
            omega

/-- for every chunking of the input, the framing loop ends with EOF or an error return: no slice
    panic, no zero-length read spin, and the model's fuel is never the reason it stops -/
theorem stream_total (chunks : List Bytes) :
    (runStream chunks).2 ≠ .panic ∧ (runStream chunks).2 ≠ .spin ∧ (runStream chunks).2 ≠ .fuel := by
  refine ⟨?_, ?_, ?_⟩
  · exact stream_no_panic _ _ _ _ (by decide)
  · exact stream_progress _ _ _ _ inv_init
  · exact stream_fuel _ _ _ _ inv_init (Nat.le_refl _)

theorem stream_total' (chunks : List Bytes) :
    (runStream chunks).2 = .eof ∨ (runStream chunks).2 = .err := by
  obtain ⟨h1, h2, h3⟩ := stream_total chunks
  cases h : (runStream chunks).2 <;> simp_all

-- a two-byte TLV `[1,0]` delivered across two reads, then EOF
example : runStream [[1], [0]] = ([[1, 0]], .eof) := by
  simp [runStream, chunksFuel, stream, inner, decTL, tlLen, bufCap, maxPkt, StreamSt.recvOff]
-- a length above the buffer capacity: error return, not a panic (F-04b)
example : runStream [[1, 0xfe, 0xff, 0xff, 0xff, 0xff]] = ([], .err) := by
  simp [runStream, chunksFuel, stream, inner, decTL, tlExtra, beDec, bufCap, maxPkt,
    StreamSt.recvOff]


end Ndn.C04

/-! # Part III — the decoders over ANY healthy reader (segmented WireReader included)

  the decoder theorems of C04 for EVERY healthy `enc.ParseReader`, in particular
  for a `WireReader` over any segmentation of the input.

  `Ndn.C13.parse` (C13/Model.lean) is the generated `Parse<Model>` code over a contiguous buffer;
  `parseR` (SegmentedModel.lean) is the same code performing every access through the reader
  operations of `std/encoding/readers.go` as modelled in C03/Reader.lean.  Here:

    parseR_eq_parse                   on a healthy reader `At r b p` (BufferReader or WireReader at
                                      any position of any segmentation) `parseR` has EXACTLY the
                                      outcome of `parse` on the remaining bytes `b.drop p`: same
                                      value, same allocation counter, same error / panic / fuel
                                      outcome (full equality of `Ndn.C13.Res Vals`, nothing weakened)
    readKind_any_reader               the same per field reader, including the reader that is left
    parse_segmented_eq_contiguous     `parseR … (newWireReader segs) = parse … segs.flatten`
    parse_buffer_eq_contiguous        `parseR … (newBufferReader b) = parse … b`
    parse_total_segmented             ≤ 2^40 bytes in any segmentation: no panic
    parse_fuel_free_segmented         never out of fuel
    parse_alloc_linear_segmented      allocation ≤ 16 · total number of bytes
    parse_total_reader / parse_fuel_free_reader / parse_alloc_linear_reader
                                      the three for an arbitrary healthy reader

  Hypothesis on the segmentation: `At` needs the segments AFTER THE FIRST to be non-empty
  (`WireReader.nextSeg` skips empty segments but `Delegate`/`Skip` index `wire[seg]` directly);
  `NonEmptySegs` (all segments non-empty) is what the link layer produces.  Both forms are stated.
  No further hypothesis: any schema, any `ignoreCritical`, any bytes.
-/
namespace Ndn.C04.Seg
open Ndn.C13
open Ndn.C03 (Rd BufR WireR newWireReader newBufferReader At NonEmptySegs)

/-! concrete schemas / inputs for the non-vacuity examples -/
def exName : Schema := ⟨"x", false, .cons 7 .name .nil⟩
def exNested : Schema :=
  ⟨"y", true, .cons 1 (.natural false) (.cons 2 .binary (.cons 3 (.struct false (.cons 7 (.seq .name) .nil)) .nil))⟩
def exSegs : List Bytes := [[7], [3, 8], [1, 65]]
/-- `[1,1,5, 2,2,9,9, 3,6, 7,0, 7,2,8,0]` cut so that T/L numbers, the binary value, the struct value
    (→ `WireReader.Delegate` returns a WireReader) and a name component all cross segment borders -/
def exSegs2 : List Bytes := [[1, 1], [5, 2, 2, 9], [9, 3, 6, 7, 0, 7], [2, 8], [0]]

theorem exSegs_ne : NonEmptySegs exSegs := by
  intro s hs; simp [exSegs] at hs; rcases hs with h | h | h <;> simp [h]
theorem exSegs2_ne : NonEmptySegs exSegs2 := by
  intro s hs; simp [exSegs2] at hs; rcases hs with h | h | h | h | h <;> simp [h]

/-! ## equality with the contiguous decoder -/

/-- On a healthy reader over logical buffer `b` at position `p` the reader-based decoder returns
    exactly what the contiguous decoder returns on the remaining bytes (value, allocation counter,
    and every failure outcome). -/
theorem parseR_eq_parse (s : Schema) (ic : Bool) (r : Rd) (b : Bytes) (p : Nat) :
    At r b p → parseR s ic r = parse s ic (b.drop p) := fun h => parseR_sim s ic h

/-- non-vacuity: a healthy WireReader in the middle of its second segment -/
example : At (.wire ⟨[[9, 9], [9, 7, 3], [8, 1, 65]], 1, 1, 0⟩) [9, 9, 9, 7, 3, 8, 1, 65] 3 := by
  refine ⟨?_, rfl, by decide⟩
  refine ⟨by decide, by decide, by decide, ?_, by decide⟩
  intro i h0 hi
  have : i = 1 ∨ i = 2 := by simp at hi; omega
  rcases this with rfl | rfl <;> simp [WireR.segAt]
example : parseR exName false (.wire ⟨[[9, 9], [9, 7, 3], [8, 1, 65]], 1, 1, 0⟩)
    = .ok (.cons (.name [⟨8, [65]⟩]) .nil) 64 := by rfl

/-- The same for one field reader, with the reader that is left: it is healthy over the same buffer
    at the position `p' ≥ p` the contiguous reader has reached. -/
theorem readKind_any_reader (k : Kind) (l : Nat) (ic : Bool) (r : Rd) (b : Bytes) (p : Nat) (h : At r b p) :
    match readKind k l ic (b.drop p) with
    | .ok (v, rest') a => ∃ r' p', readKindR k l ic r = .ok (v, r') a ∧ p ≤ p' ∧ p' ≤ b.length
                            ∧ At r' b p' ∧ rest' = b.drop p'
    | .err a => readKindR k l ic r = .err a
    | .panic => readKindR k l ic r = .panic
    | .fuel => readKindR k l ic r = .fuel := by
  have hs := readKindR_sim k l ic r b p h
  cases hc : readKind k l ic (b.drop p) with
  | ok y a =>
    obtain ⟨v, rest'⟩ := y
    rw [hc] at hs
    cases hr : readKindR k l ic r with
    | ok x a' =>
      obtain ⟨v', r'⟩ := x
      rw [hr] at hs
      obtain ⟨⟨hv, p', hp, ha, hrest⟩, haa⟩ := hs
      have hv : v' = v := hv
      subst hv haa
      exact ⟨r', p', rfl, hp, At_le ha, ha, hrest⟩
    | err a' => rw [hr] at hs; exact hs.elim
    | panic => rw [hr] at hs; exact hs.elim
    | fuel => rw [hr] at hs; exact hs.elim
  | err a =>
    rw [hc] at hs
    cases hr : readKindR k l ic r with
    | ok x a' => rw [hr] at hs; exact hs.elim
    | err a' => rw [hr] at hs; have hs : a' = a := hs; subst hs; rfl
    | panic => rw [hr] at hs; exact hs.elim
    | fuel => rw [hr] at hs; exact hs.elim
  | panic =>
    rw [hc] at hs
    cases hr : readKindR k l ic r with
    | ok x a' => rw [hr] at hs; exact hs.elim
    | err a' => rw [hr] at hs; exact hs.elim
    | panic => rfl
    | fuel => rw [hr] at hs; exact hs.elim
  | fuel =>
    rw [hc] at hs
    cases hr : readKindR k l ic r with
    | ok x a' => rw [hr] at hs; exact hs.elim
    | err a' => rw [hr] at hs; exact hs.elim
    | panic => rw [hr] at hs; exact hs.elim
    | fuel => rfl

/-- non-vacuity: a name field whose value crosses two segment borders; the reader that is left is
    parked at the end of the last segment -/
example : readKindR .name 3 false (.wire ⟨[[7, 3, 8], [1], [65]], 0, 2, 0⟩)
    = .ok (.name [⟨8, [65]⟩], .wire ⟨[[7, 3, 8], [1], [65]], 2, 1, 0⟩) 64 := by rfl
/-- a component that overruns the announced name length is an error over the segmented reader as it
    is over the contiguous one (`decComps` refuses it, the Go loop ends with `Pos() != endName`) -/
example : readKindR .name 3 false (.wire ⟨[[8, 2], [65, 66, 67]], 0, 0, 0⟩) = .err 64
    ∧ readKind .name 3 false [8, 2, 65, 66, 67] = .err 64 := ⟨by rfl, by rfl⟩

/-- PROPERTY (any segmentation): decoding over a WireReader on ANY segmentation whose segments after
    the first are non-empty gives exactly the outcome of decoding the joined bytes. -/
theorem parse_segmented_eq_contiguous' (s : Schema) (ic : Bool) (segs : List Bytes)
    (h : ∀ i, 0 < i → i < segs.length → segs.getD i [] ≠ []) :
    parseR s ic (newWireReader segs) = parse s ic segs.flatten := by
  have := parseR_eq_parse s ic _ _ _ (C03.at_newWireReader segs h)
  rwa [List.drop_zero] at this

theorem parse_segmented_eq_contiguous (s : Schema) (ic : Bool) (segs : List Bytes) (h : NonEmptySegs segs) :
    parseR s ic (newWireReader segs) = parse s ic segs.flatten := by
  have := parseR_eq_parse s ic _ _ _ (C03.newWireReader_healthy segs h)
  rwa [List.drop_zero] at this

/-- non-vacuity: the hypotheses are met and both sides really decode -/
example : NonEmptySegs exSegs := exSegs_ne
example : parseR exName false (newWireReader exSegs) = .ok (.cons (.name [⟨8, [65]⟩]) .nil) 64 := by rfl
example : parse exName false exSegs.flatten = .ok (.cons (.name [⟨8, [65]⟩]) .nil) 64 := by rfl
example : parseR exNested false (newWireReader exSegs2)
    = .ok (.cons (.nat 5) (.cons (.bytes [9, 9])
        (.cons (.struct (.cons (.seq (.cons (.name []) (.cons (.name [⟨8, []⟩]) .nil))) .nil)) .nil))) 98 := by
  rfl
/-- an empty FIRST segment is covered by the primed form -/
example : parseR exName false (newWireReader [[], [7, 3, 8], [1, 65]]) = parse exName false [7, 3, 8, 1, 65] :=
  parse_segmented_eq_contiguous' exName false [[], [7, 3, 8], [1, 65]] (by
    intro i h0 hi
    have : i = 1 ∨ i = 2 := by simp at hi; omega
    rcases this with rfl | rfl <;> simp)

/-- the BufferReader instance: `parseR` over `enc.NewBufferReader(b)` is `parse` -/
theorem parse_buffer_eq_contiguous (s : Schema) (ic : Bool) (b : Bytes) :
    parseR s ic (newBufferReader b) = parse s ic b := by
  have := parseR_eq_parse s ic _ _ _ (C03.at_newBufferReader b)
  rwa [List.drop_zero] at this

example : parseR exName false (newBufferReader [7, 3, 8, 1, 65]) = .ok (.cons (.name [⟨8, [65]⟩]) .nil) 64 := by rfl

/-! ## the three decoder properties over any healthy reader -/

theorem parse_total_reader (s : Schema) (ic : Bool) (r : Rd) (b : Bytes) (p : Nat) (h : At r b p)
    (hl : b.length ≤ maxInput) : parseR s ic r ≠ .panic := by
  rw [parseR_eq_parse s ic r b p h]
  exact parse_total s ic (b.drop p) (by simp only [List.length_drop]; omega)

theorem parse_fuel_free_reader (s : Schema) (ic : Bool) (r : Rd) (b : Bytes) (p : Nat) (h : At r b p) :
    parseR s ic r ≠ .fuel := by
  rw [parseR_eq_parse s ic r b p h]
  exact parse_fuel_free s ic (b.drop p)

theorem parse_alloc_linear_reader (s : Schema) (ic : Bool) (r : Rd) (b : Bytes) (p : Nat) (h : At r b p)
    (hl : b.length ≤ maxInput) : (parseR s ic r).alloc ≤ 16 * (b.length - p) := by
  rw [parseR_eq_parse s ic r b p h]
  have := parse_alloc_linear s ic (b.drop p) (by simp only [List.length_drop]; omega)
  simpa only [List.length_drop] using this

/-! ## … and over a WireReader on any segmentation -/

/-- PROPERTY (no panic): at most 2^40 bytes, in any segmentation, under any schema: no panic. -/
theorem parse_total_segmented (s : Schema) (ic : Bool) (segs : List Bytes) (h : NonEmptySegs segs) :
    segs.flatten.length ≤ maxInput → parseR s ic (newWireReader segs) ≠ .panic := by
  intro hl
  rw [parse_segmented_eq_contiguous s ic segs h]
  exact parse_total s ic _ hl

/-- non-vacuity: a length field far beyond the input, cut in the middle of the length number, is an
    error (nothing allocated), not a panic -/
example : NonEmptySegs [[7, 0xfe, 0xff], [0xff, 0xff, 0xff, 8], [1, 65]] := by
  intro s hs; simp at hs; rcases hs with h | h | h <;> simp [h]
example : parseR exName false (newWireReader [[7, 0xfe, 0xff], [0xff, 0xff, 0xff, 8], [1, 65]]) = .err 0 := by rfl

/-- PROPERTY (termination): fuel `Length() - Pos() + 1` always suffices, whatever the input. -/
theorem parse_fuel_free_segmented (s : Schema) (ic : Bool) (segs : List Bytes) (h : NonEmptySegs segs) :
    parseR s ic (newWireReader segs) ≠ .fuel := by
  rw [parse_segmented_eq_contiguous s ic segs h]
  exact parse_fuel_free s ic _

/-- non-vacuity: the fuel outcome is real in the reader-based model (no fuel, no iteration) -/
example : loopUR (compileR exName.fields) false 0 (newWireReader exSegs) (initAccR (compileR exName.fields))
    = .fuel := by rfl
example : NonEmptySegs exSegs2 := exSegs2_ne

/-- PROPERTY (allocation): what a parse allocates on the say-so of length fields is at most 16 bytes
    per input byte, whatever the segmentation. -/
theorem parse_alloc_linear_segmented (s : Schema) (ic : Bool) (segs : List Bytes) (h : NonEmptySegs segs) :
    segs.flatten.length ≤ maxInput → (parseR s ic (newWireReader segs)).alloc ≤ 16 * segs.flatten.length := by
  intro hl
  rw [parse_segmented_eq_contiguous s ic segs h]
  exact parse_alloc_linear s ic _ hl

/-- non-vacuity and tightness: an empty name in two one-byte segments allocates 32 = 16 · 2 bytes -/
example : (parseR exName false (newWireReader [[7], [0]])).alloc = 32 ∧ 16 * [[7], [0]].flatten.length = 32 :=
  ⟨by rfl, by rfl⟩
example : NonEmptySegs [[7], [0]] := by intro s hs; simp at hs; rcases hs with h | h <;> simp [h]

end Ndn.C04.Seg

namespace Ndn.C04

/-- **C04, a repeated fragment changes nothing** (`soak` of the correspondence: a lossy peer that repeats
    first fragments for any length of time).  Whenever a fragment leaves its message incomplete, handing the
    link service the very same fragment again — same base sequence, index, count and bytes — leaves the whole
    link state (partial message store and counters) exactly as it is: the store never grows with the number
    of repetitions. -/
theorem repeated_fragment_changes_nothing (st st' : LinkSt) (base idx cnt : Nat) (frag : Bytes)
    (h : reassemble st base idx cnt frag = some (st', none)) :
    reassemble st' base idx cnt frag = some (st', none) :=
  reassemble_repeat_idempotent st st' base idx cnt frag h

example : reassemble ({ store := [] } : LinkSt) 77 0 2 [6, 18] = some ({ store := [(77, [[6, 18], []])] }, none) := by rfl

end Ndn.C04
