/-
  C04/Model.lean — the forwarder's receive path above the TLV decoders (decoders: NdnVerif.C13.Model):

  * `Stream`   fw/face/stream-transport.go  readTlvStream        (buffer, recvOff, tlvOff, compaction)
  * `Link`     fw/face/ndnlp-link-service.go handleIncomingFrame / reassemblePacket,
               fw/face/link-service.go dispatchInterest / dispatchData
  * `getThread` fw/dispatch/fw.go GetFWThread

  The model describes the code AFTER the repairs of F-04b (length bound before `int(len)`),
  F-04c (FragIndex/FragCount validation), F-04d (`id >= len`), and of the zero-length-read spin
  (compaction test `<=`).  Go slice/index operations are explicit (`none` = run-time panic) and the
  theorems of `Props.lean` show they never fail.  Core Lean only.
-/
import NdnVerif.Base.Num
namespace Ndn.C04

/-! ## GetFWThread -/

/-- `GetFWThread(id)`: `FWDispatch[id]` is an index expression — `none` = index out of range panic,
    `some none` = nil (caller drops), `some (some i)` = thread i. -/
def getThread (nThreads : Nat) (id : Nat) : Option (Option Nat) :=
  if id ≥ nThreads then some none            -- repaired: was `id > len(FWDispatch)`
  else if id < nThreads then some (some id)  -- FWDispatch[id]
  else none

/-! ## readTlvStream -/

def maxPkt : Nat := 8800                 -- defn.MaxNDNPacketSize
def bufCap : Nat := maxPkt * 32          -- len(recvBuf)

inductive StreamEnd where
  | eof        -- reader returned io.EOF: `return nil`
  | err        -- `return errors.New(…)`
  | spin       -- a Read with a zero-length destination: the loop can no longer make progress
  | panic      -- slice bounds out of range
  | fuel
deriving DecidableEq, Repr

structure StreamSt where
  tlvOff : Nat
  data : Bytes            -- recvBuf[tlvOff:recvOff]
deriving Repr

def StreamSt.recvOff (s : StreamSt) : Nat := s.tlvOff + s.data.length

/-- result of the inner "determine whether valid packet received" loop -/
inductive Inner where
  | cont (s : StreamSt) (frames : List Bytes)
  | fail (frames : List Bytes)
  | panic

/-- inner loop; fuel = number of unread bytes (every delivered block has at least two bytes) -/
def inner : Nat → StreamSt → List Bytes → Inner
  | 0, s, fr => .cont s fr
  | f + 1, s, fr =>
    match decTL s.data with
    | none => .cont s fr                      -- incomplete type
    | some (typ, r1) =>
      match decTL r1 with
      | none => .cont s fr                    -- incomplete length
      | some (len, r2) =>
        if len > bufCap then .fail fr         -- repaired F-04b: can never fit, before `int(len)`
        else
          -- `rdr.Pos() + int(len)` (repaired F-11b: was `typ.EncodingLength() + len.EncodingLength() + int(len)`,
          -- which mis-sizes a block whose T or L is not in the shortest form)
          let tlvSize := (s.data.length - r2.length) + len
          if s.data.length ≥ tlvSize then
            -- onFrame(recvBuf[tlvOff : tlvOff+tlvSize])
            if s.tlvOff + tlvSize ≤ bufCap then
              inner f ⟨s.tlvOff + tlvSize, s.data.drop tlvSize⟩ (fr ++ [s.data.take tlvSize])
            else .panic
          else if s.data.length > maxPkt then .fail fr
          else .cont s fr

/-- outer loop over the scripted reads; a chunk larger than the free space is consumed in parts -/
def stream : Nat → List Bytes → StreamSt → List Bytes → List Bytes × StreamEnd
  | 0, _, _, fr => (fr, .fuel)
  | _ + 1, [], _, fr => (fr, .eof)
  | f + 1, c :: cs, s, fr =>
    let free := bufCap - s.recvOff
    if free = 0 then (fr, .spin)
    else
      let n := min c.length free
      let s1 : StreamSt := ⟨s.tlvOff, s.data ++ c.take n⟩
      let rest := if n = c.length then cs else c.drop n :: cs
      match inner (s1.data.length + 1) s1 fr with
      | .panic => (fr, .panic)
      | .fail fr' => (fr', .err)
      | .cont s2 fr' =>
        -- repaired: `<=` (was `<`): after the inner loop the unread part is at most one packet, so
        -- the buffer is compacted on every iteration and free space never reaches 0
        let s3 : StreamSt := if s2.data.length ≤ maxPkt then ⟨0, s2.data⟩ else s2
        stream f rest s3 fr'

def chunksFuel (cs : List Bytes) : Nat := (cs.map (·.length + 1)).sum + 1

def runStream (chunks : List Bytes) : List Bytes × StreamEnd :=
  stream (chunksFuel chunks) chunks ⟨0, []⟩ []

/-! ## NDNLPLinkService receive path -/

/-- what `spec.ReadPacket` returned, reduced to what the link service looks at -/
structure LpInfo where
  seq : Option Nat
  idx : Option Nat
  cnt : Option Nat
  token : Option Bytes      -- PitToken (present = non-nil)
  fragment : Option Bytes   -- Fragment wire joined (present = non-nil)
deriving Repr

structure Pkt where
  interest : Bool
  data : Bool
  lp : Option LpInfo
deriving Repr

structure LinkSt where
  store : List (Nat × List Bytes)   -- partialMessageStore: base sequence ↦ fragment slots
  nInInterests : Nat := 0
  nInData : Nat := 0
deriving Repr

structure Cfg where
  reassembly : Bool
  threads : Nat
  dec : Bytes → Option Pkt          -- spec.ReadPacket on a contiguous buffer; none = error

inductive Deliver where
  | nothing
  | interest
  | dataTok (thread : Nat)
  | dataDrop                -- 6-byte token naming no thread: "Invalid PIT token" - DROP
  | dataHash                -- no usable token: queued to every distinct thread among the name-prefix threads
                            -- (prefix length 0 included; the hash values are outside the model: ≥ 1 existing thread)
deriving DecidableEq, Repr

/-- NFD's LpReassembler default `nMaxFragments` -/
def maxFragments : Nat := 400

def storeFind (st : List (Nat × List Bytes)) (k : Nat) : Option (List Bytes) :=
  (st.find? (·.1 == k)).map (·.2)

def storeSet (st : List (Nat × List Bytes)) (k : Nat) (v : List Bytes) : List (Nat × List Bytes) :=
  match st with
  | [] => [(k, v)]
  | (k', v') :: r => if k' == k then (k, v) :: r else (k', v') :: storeSet r k v

def storeErase (st : List (Nat × List Bytes)) (k : Nat) : List (Nat × List Bytes) :=
  st.filter (·.1 != k)

/-- Go index assignment `s[i] = v`: `none` = index out of range -/
def setIdx (s : List Bytes) (i : Nat) (v : Bytes) : Option (List Bytes) :=
  if i < s.length then some (s.set i v) else none

/-- Go `make([][]byte, n)`: `none` = makeslice panic / absurd allocation -/
def makeSlots (n : Nat) : Option (List Bytes) :=
  if n ≤ maxFragments then some (List.replicate n []) else none

/-- `reassemblePacket` (repaired): outer `none` = run-time panic; inner = reassembled packet -/
def reassemble (st : LinkSt) (base idx cnt : Nat) (frag : Bytes) : Option (LinkSt × Option Bytes) :=
  if cnt = 0 ∨ cnt > maxFragments ∨ idx ≥ cnt then some (st, none)       -- repaired F-04c: drop
  else
    let entry? : Option (Option (List Bytes)) :=
      match storeFind st.store base with
      | some e => if e.length = cnt then some (some e) else some none     -- repaired: count mismatch → drop
      | none => (makeSlots cnt).map some
    match entry? with
    | none => none
    | some none => some (st, none)
    | some (some e) =>
      match setIdx e idx frag with
      | none => none
      | some e' =>
        let received := (e'.filter (· ≠ [])).length
        if received = e'.length then
          some ({ st with store := storeErase st.store base }, some e'.flatten)
        else some ({ st with store := storeSet st.store base e' }, none)

/-- dispatch of the network-layer packet (counters + which queue) -/
def dispatchL3 (c : Cfg) (st : LinkSt) (p : Pkt) (token : Option Bytes) : Option (LinkSt × Deliver) :=
  if p.interest then some ({ st with nInInterests := st.nInInterests + 1 }, .interest)
  else if p.data then
    let st' := { st with nInData := st.nInData + 1 }
    match token with
    | some t =>
      if t.length = 6 then
        match getThread c.threads (beDec (t.take 2)) with
        | none => none
        | some none => some (st', .dataDrop)
        | some (some i) => some (st', .dataTok i)
      else some (st', .dataHash)
    | none => some (st', .dataHash)
  else some (st, .nothing)

/-- the buffer is exactly one TLV (type, length, `length` value bytes, nothing behind it) -/
def singleTlv (b : Bytes) : Bool :=
  match decTL b with
  | some (_, r1) =>
    match decTL r1 with
    | some (l, r2) => r2.length == l
    | none => false
  | none => false

/-- `handleIncomingFrame`: `none` = run-time panic -/
def handleFrame (c : Cfg) (st : LinkSt) (frame : Bytes) : Option (LinkSt × Deliver) :=
  match c.dec frame with
  | none => some (st, .nothing)                              -- decode error: return
  | some l2 =>
    match l2.lp with
    | none =>                                                 -- bare Interest / Data
      -- (F-09c repaired) a frame carries exactly ONE network-layer packet: what follows the first TLV would be
      -- forwarded along with it unseen
      if singleTlv frame then dispatchL3 c st l2 none else some (st, .nothing)
    | some lp =>
      match lp.fragment with
      | none => some (st, .nothing)                           -- IDLE
      | some frag =>
        let cont (st : LinkSt) (wire : Bytes) : Option (LinkSt × Deliver) :=
          match c.dec wire with
          | none => some (st, .nothing)
          | some l3 =>
            if singleTlv wire then
              dispatchL3 c st l3 (match lp.token with | some t => if t.length > 0 then some t else none | none => none)
            else some (st, .nothing)
        if c.reassembly ∧ lp.seq.isSome then
          let idx := lp.idx.getD 0
          let cnt := lp.cnt.getD 1
          let base := ((lp.seq.getD 0) + 2 ^ 64 - idx % 2 ^ 64) % 2 ^ 64      -- uint64 subtraction
          if idx = 0 ∧ cnt = 1 then cont st frag
          else
            match reassemble st base idx cnt frag with
            | none => none
            | some (st', none) => some (st', .nothing)
            | some (st', some whole) => cont st' whole
        else if lp.cnt.isSome ∨ lp.idx.isSome then some (st, .nothing)
        else cont st frag

end Ndn.C04
