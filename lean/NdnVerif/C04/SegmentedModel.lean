/-
  C04/SegmentedModel.lean — the generated decoders over ANY `enc.ParseReader`.

  `Ndn.C13.readKind / compile / parse` (C13/Model.lean) describe the generated `Parse<Model>` code
  reading from a CONTIGUOUS buffer, the reader being represented by the bytes that remain.  The Go
  code, however, is written against the interface `enc.ParseReader` and is handed a `*WireReader`
  (a list of segments with `seg`/`pos`) whenever a packet arrives fragmented.  This file is the SAME
  interpreter, branch by branch, but every access goes through the reader operations of
  `std/encoding/readers.go` as modelled in C03/Reader.lean (`Rd.readByte`, `readBuf`, `readWire`,
  `readFull`, `skip`, `delegate`, `pos`, `length`), exactly where the generated code calls them:

    readTLNumR      enc.ReadTLNum(reader)            primitives.go: ReadByte, then 0/2/4/8 × ReadByte
    readUintLoopR   fields_natural / fixeduint       `for i := 0; i < int(l); i++ { reader.ReadByte() }`
    readNameR       fields_name.go                   the component loop runs on the MAIN reader up to
                                                     `endName = Pos() + int(l)` and may overrun it
    delegateR       fields_struct.go                 `reader.Delegate(int(l))`
    loopUR/loopOR   model.go GenReadFrom             `reader.Pos() >= reader.Length()` is the loop test
    skipR           model.go default case            `reader.Skip(int(l))`

  Outcomes are the ones of C13 (`Ndn.C13.Res`: ok/err with the allocation counter, panic, fuel); the
  outcomes `panic/alloc/oom` of a reader operation (`Ndn.C03.Res`) all become `Ndn.C13.Res.panic`
  (none of them occurs on a healthy reader, see SegmentedLemmas.lean).

  Allocation accounting is the one of C13/Model.lean: what the GENERATED code allocates because a
  length field said so (`make([]byte, l)`, `make(enc.Name, l/2+1)`, the string builder).  Copies made
  inside a reader (`WireReader.ReadBuf` joins a cross-segment read into `make(Buffer, l)` after its
  length guard, `ReadWire` builds a `Wire` of at most `len(wire)` slices) are bounded by the number of
  bytes the operation consumes and are not counted, just as `BufferReader`'s slices are not.

  Modelling notes (each also holds for C13/Model.lean, which this file mirrors):
    * single-byte fixedUint: the required variant is one `ReadByte`; the optional variant is
      `Skip(1)` followed by `Range(pos-1, pos)[0][0]` — both are modelled as "one byte via ReadByte";
    * `readTLNumR` accumulates `val<<8 | x` without the uint64 truncation: at most 8 bytes are
      accumulated, so for byte values (< 256) nothing is ever truncated;
    * inside the name loop `reader.ReadBuf(int(l2))` is modelled by `Rd.readBuf l2`: a length whose
      `int` conversion is negative is an error of ReadBuf, and it exceeds the remaining bytes (also an
      error) for every buffer a Go program can hold, so the outcome is the same;
    * the name loop calls ReadTLNum, ReadTLNum, ReadBuf unconditionally and tests the three errors
      afterwards; after a failed call the others can only fail or succeed without any effect other
      than moving the position, and the field reader returns an error in every case, so the model
      stops at the first failure.
  Core Lean only.
-/
import NdnVerif.C13.Model
import NdnVerif.C03.Reader
namespace Ndn.C04.Seg
open Ndn.C13
open Ndn.C03 (Rd BufR WireR newWireReader newBufferReader)

/-! ## reader operations with C13 outcomes -/

/-- outcome of a reader operation as an outcome of the generated code (nothing allocated) -/
def lift {α : Type} : C03.Res α → Res α
  | .ok a => .ok a 0
  | .err => .err 0
  | .panic _ => .panic
  | .alloc => .panic
  | .oom => .panic

/-- `reader.ReadByte()` -/
def rdByte (r : Rd) : Res (Nat × Rd) := lift r.readByte

/-- `n` times `x, err = r.ReadByte(); val = tr(val<<8 | x)`; `tr` is the truncation to the width of
    the Go variable -/
def bytesLoopR (tr : Nat → Nat) : Nat → Nat → Rd → Res (Nat × Rd)
  | 0, acc, r => .ok (acc, r) 0
  | n + 1, acc, r => (rdByte r).bind fun (x, r') => bytesLoopR tr n (tr (acc * 256 + x)) r'

/-- `enc.ReadTLNum(reader)` (primitives.go) -/
def readTLNumR (r : Rd) : Res (Nat × Rd) :=
  (rdByte r).bind fun (x, r1) =>
    if x ≤ 0xfc then .ok (x, r1) 0
    else bytesLoopR id (tlExtra x) 0 r1

/-- `reader.Skip(int(l))` of the `default:` case -/
def skipR (l : Nat) (r : Rd) : Res Rd :=
  if goInt l < 0 then .err 0 else lift (r.skip l)

/-- `for i := 0; i < int(l); i++ { x, err = reader.ReadByte() … v = uintW(v<<8) | uintW(x) }` -/
def readUintLoopR (w l : Nat) (r : Rd) : Res (Val × Rd) :=
  if goInt l < 0 then .ok (.nat 0, r) 0
  else (bytesLoopR (· % 256 ^ w) l 0 r).bind fun (v, r') => .ok (.nat v, r') 0

/-- natural and time fields: the length must be 1, 2, 4 or 8 (repair F-13e), then the byte loop -/
def readNatLoopR (l : Nat) (r : Rd) : Res (Val × Rd) :=
  if natLenOk l then readUintLoopR 8 l r else .err 0

/-- `reader.ReadWire(int(l))` -/
def readWireR (l : Nat) (r : Rd) : Res (Val × Rd) :=
  if goInt l < 0 then .err 0
  else (lift (r.readWire l)).bind fun (v, r') => .ok (.bytes v, r') 0

/-- the component loop of `fields_name.go`: `for j := range value.Name` (`n` iterations left),
    `endName` in the coordinates of the reader; `nameExit` is the statement after the loop
    (`if err == nil && reader.Pos() != endName { err = ErrBufferOverflow }`), reached from both
    loop exits (`break` and range exhausted). -/
def nameExit (endName : Nat) (r : Rd) : Res (Name × Rd) :=
  if r.pos ≠ endName then .err 0 else .ok ([], r) 0

/-- (written with projections instead of pattern-matching lambdas: `p1 = (typ, reader)`,
    `p2 = (length, reader)`, `p3 = (value, reader)`, `p4 = (remaining components, reader)`) -/
def nameLoopR (endName : Nat) : Nat → Rd → Res (Name × Rd)
  | 0, r => nameExit endName r
  | n + 1, r =>
    if r.pos ≥ endName then nameExit endName r
    else
      (readTLNumR r).bind fun p1 =>
        (readTLNumR p1.2).bind fun p2 =>
          (lift (p2.2.readBuf p2.1)).bind fun p3 =>
            (nameLoopR endName n p3.2).bind fun p4 => .ok (⟨p1.1, p3.1⟩ :: p4.1, p4.2) 0

/-- NameField.GenReadFrom: remaining-bytes guard, `make(enc.Name, l/2+1)`, component loop -/
def readNameR (l : Nat) (r : Rd) : Res (Val × Rd) :=
  if l > r.length - r.pos then .err 0
  else (goMake (l / 2 + 1) 32).bind fun _ =>
    (nameLoopR (r.pos + l) (l / 2 + 1) r).bind fun (cs, r') => .ok (.name cs, r') 0

/-- `reader.Delegate(int(l))`: (sub-reader, parent).  Both readers answer a negative `int(l)` with
    an empty BufferReader and do not move. -/
def delegateR (l : Nat) (r : Rd) : Res (Rd × Rd) :=
  if goInt l < 0 then .ok (.buf ⟨[], 0⟩, r) 0 else lift (r.delegate l)

/-! ## compiled models over a reader -/

/-- `Slot` with a reader-based field reader -/
structure SlotR where
  typ : Nat
  hasTyp : Bool
  required : Bool
  multi : Nat
  init : Val
  read : Nat → Bool → Rd → Res (Val × Rd)

def stepUR : List SlotR → Nat → Nat → Bool → Rd → Vals → Res (Option (Vals × Rd))
  | [], _, _, _, _, _ => .ok none 0
  | s :: ss, typ, l, ic, r, acc =>
    if s.hasTyp && s.typ == typ then
      (s.read l ic r).bind fun (v, r') => .ok (some (.cons (merge s.multi acc.head v) acc.tail, r')) 0
    else
      (stepUR ss typ l ic r acc.tail).bind fun o => .ok (o.map fun (x, r') => (.cons acc.head x, r')) 0

def finishUR : List SlotR → Vals → Res Vals
  | [], _ => .ok .nil 0
  | s :: ss, acc =>
    match acc.head, s.required with
    | .absent, true => .err 0
    | v, _ => (finishUR ss acc.tail).bind fun r => .ok (.cons v r) 0

def initAccR : List SlotR → Vals
  | [] => .nil
  | s :: ss => .cons s.init (initAccR ss)

/-- `for { startPos := reader.Pos(); if startPos >= reader.Length() { break }; typ, l := ReadTLNum ×2 … }` -/
def loopUR (slots : List SlotR) (ic : Bool) : Nat → Rd → Vals → Res Vals
  | 0, _, _ => .fuel
  | f + 1, r, acc =>
    if r.pos ≥ r.length then finishUR slots acc
    else
      (readTLNumR r).bind fun (typ, r1) =>
        (readTLNumR r1).bind fun (l, r2) =>
          (stepUR slots typ l ic r2 acc).bind fun
            | some (acc', r3) => loopUR slots ic f r3 acc'
            | none =>
              if !ic && critical typ then .err 0
              else (skipR l r2).bind fun r3 => loopUR slots ic f r3 acc

inductive StepOR where
  | at (passed : Vals) (rem : List SlotR) (cur : Val) (r : Rd)
  | exhausted (passed : Vals)

def headInitR : List SlotR → Val
  | [] => .absent
  | s :: _ => s.init

def stepOR : List SlotR → Val → Nat → Nat → Bool → Rd → Res StepOR
  | [], _, _, _, _, _ => .ok (.exhausted .nil) 0
  | s :: ss, cur, typ, l, ic, r =>
    if s.hasTyp && s.typ == typ then
      (s.read l ic r).bind fun (v, r') =>
        if s.multi ≠ 0 then .ok (.at .nil (s :: ss) (merge s.multi cur v) r') 0
        else .ok (.at (.cons v .nil) ss (headInitR ss) r') 0
    else if s.required then .err 0
    else
      (stepOR ss (headInitR ss) typ l ic r).bind fun
        | .at p rem c r' => .ok (.at (.cons cur p) rem c r') 0
        | .exhausted p => .ok (.exhausted (.cons cur p)) 0

def finishOR : List SlotR → Val → Res Vals
  | [], _ => .ok .nil 0
  | s :: ss, cur =>
    if s.required then .err 0
    else (finishOR ss (headInitR ss)).bind fun r => .ok (.cons cur r) 0

def knownTypR (slots : List SlotR) (typ : Nat) : Bool := slots.any fun s => s.hasTyp && s.typ == typ

def loopOR (slots : List SlotR) (ic : Bool) : Nat → Option (List SlotR × Val) → Rd → Res Vals
  | 0, _, _ => .fuel
  | f + 1, st, r =>
    if r.pos ≥ r.length then
      match st with
      | some (rem, cur) => finishOR rem cur
      | none => .ok .nil 0
    else
      (readTLNumR r).bind fun (typ, r1) =>
        (readTLNumR r1).bind fun (l, r2) =>
          match st with
          | none => loopOR slots ic f none r2
          | some (rem, cur) =>
            if knownTypR slots typ then
              (stepOR rem cur typ l ic r2).bind fun
                | .at p rem' cur' r3 => (loopOR slots ic f (some (rem', cur')) r3).bind fun vs => .ok (p.append vs) 0
                | .exhausted p => (loopOR slots ic f none r2).bind fun vs => .ok (p.append vs) 0
            else if !ic && critical typ then .err 0
            else (skipR l r2).bind fun r3 => loopOR slots ic f (some (rem, cur)) r3

/-- run a compiled model over one reader; the fuel is the number of bytes left + 1 -/
def runSlotsR (ordered : Bool) (slots : List SlotR) (ic : Bool) (r : Rd) : Res Vals :=
  if ordered then loopOR slots ic (r.length - r.pos + 1) (some (slots, headInitR slots)) r
  else loopUR slots ic (r.length - r.pos + 1) r (initAccR slots)

/-- `MapField.GenReadFrom` -/
def readMapR (rk rv : Nat → Bool → Rd → Res (Val × Rd)) (vt : Nat) (l : Nat) (ic : Bool) (r : Rd) :
    Res (Val × Rd) :=
  (rk l ic r).bind fun (k, r0) =>
    (readTLNumR r0).bind fun (typ, r1) =>
      (readTLNumR r1).bind fun (l2, r2) =>
        if typ ≠ vt then .err 0
        else (rv l2 ic r2).bind fun (v, r3) => .ok (.pair k v, r3) 0

mutual
/-- `GenReadFrom` of one field over a reader positioned after the L field -/
def readKindR : Kind → Nat → Bool → Rd → Res (Val × Rd)
  | .natural _, l, _, r => readNatLoopR l r
  | .time _, l, _, r =>
      (readNatLoopR l r).bind fun
        | (.nat ms, r') => .ok (.nat (min ms 9223372036854 * 1000000), r') 0
        | x => .ok x 0
  | .fixedUint 1 _, _, _, r => (rdByte r).bind fun (x, r') => .ok (.nat x, r') 0
  | .fixedUint w _, l, _, r => readUintLoopR w l r
  | .bool, _, _, r => .ok (.tt, r) 0
  | .binary, l, _, r =>
      -- `if l > enc.TLNum(reader.Length()-reader.Pos()) { err }; make([]byte, l); io.ReadFull(reader, …)`
      if l > r.length - r.pos then .err 0
      else (goMake l 1).bind fun _ => (lift (r.readFull l)).bind fun (v, r') => .ok (.bytes v, r') 0
  | .string _, l, _, r =>
      -- `io.CopyN(&builder, reader, int64(l))`: a short read has copied everything that was left
      if goInt l < 0 then .ok (.bytes [], r) 0
      else match r.readFull l with
        | .ok (v, r') => .ok (.bytes v, r') l
        | .err => .err (r.length - r.pos)
        | _ => .panic
  | .wire, l, _, r => readWireR l r
  | .signature, l, _, r => readWireR l r
  | .name, l, _, r => readNameR l r
  | .interestName, l, _, r => readNameR l r
  | .struct ord fs, l, ic, r =>
      (delegateR l r).bind fun (sub, r') =>
        (runSlotsR ord (compileR fs) ic sub).bind fun vs => .ok (.struct vs, r') 0
  | .seq sub, l, ic, r => readKindR sub l ic r
  | .map kk vt vk, l, ic, r => readMapR (readKindR kk) (readKindR vk) vt l ic r
  | .marker, _, _, r => .ok (.absent, r) 0
def compileR : Fields → List SlotR
  | .nil => []
  | .cons t k fs => ⟨t, k.hasTyp && t != 0, k.required, k.multi, k.init, readKindR k⟩ :: compileR fs
end

/-- `Parse<Model>(reader, ignoreCritical)` for any `enc.ParseReader` -/
def parseR (s : Schema) (ic : Bool) (r : Rd) : Res Vals :=
  runSlotsR s.ordered (compileR s.fields) ic r

end Ndn.C04.Seg
