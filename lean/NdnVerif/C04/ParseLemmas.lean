/-
  C04/ParseLemmas.lean — one induction over every schema serving the three parse theorems of
  C04/ParseProps.lean (never panics on inputs ≤ 2^40 bytes, never runs out of fuel, allocation is
  linear in the input length).

  Contract of a field reader for an input bound `M` (`GoodRead M`): on `rest.length ≤ M` the reader
    * returns `ok (_, r') a` with `r'` no longer than `rest` and `a + 16·|r'| ≤ 16·|rest| + 32`, or
    * returns `err a` with `a ≤ 16·|rest| + 32`, or
    * panics — only possible when `M > maxInput`,
    * never reports `fuel`.
  The `+ 32` is paid by the two header bytes (T and L) every loop iteration consumes before a reader
  is called, so at loop level the bound is exactly `16 · consumed`.
  Taking `M = maxInput` gives totality and the allocation bound, `M = b.length` gives fuel-freeness
  without any bound on the input.
-/
import NdnVerif.C13.Model
namespace Ndn.C04
open Ndn.C13

def maxInput : Nat := 2 ^ 40

theorem maxInput_eq : maxInput = 1099511627776 := by decide

/-! ## outcome predicate -/

/-- `r` is `ok a n` with `P a n`, or `err n` with `E n`, or a panic and then `Pan` holds; never fuel -/
def Sat {α : Type} (Pan : Prop) (r : Res α) (P : α → Nat → Prop) (E : Nat → Prop) : Prop :=
  match r with
  | .ok a n => P a n
  | .err n => E n
  | .panic => Pan
  | .fuel => False

theorem sat_bind {α β : Type} {Pan : Prop} {r : Res α} {f : α → Res β}
    {P : α → Nat → Prop} {E : Nat → Prop} {Q : β → Nat → Prop} {E' : Nat → Prop}
    (hr : Sat Pan r P E) (hE : ∀ n, E n → E' n)
    (hf : ∀ a n, P a n → Sat Pan (f a) (fun b m => Q b (n + m)) (fun m => E' (n + m))) :
    Sat Pan (r.bind f) Q E' := by
  cases r with
  | ok a n =>
    have h := hf a n hr
    simp only [Res.bind]
    cases hfa : f a with
    | ok b m => rw [hfa] at h; exact h
    | err m => rw [hfa] at h; exact h
    | panic => rw [hfa] at h; exact h
    | fuel => rw [hfa] at h; exact h
  | err n => exact hE n hr
  | panic => exact hr
  | fuel => exact hr

theorem sat_mono {α : Type} {Pan : Prop} {r : Res α}
    {P Q : α → Nat → Prop} {E E' : Nat → Prop}
    (hr : Sat Pan r P E) (hP : ∀ a n, P a n → Q a n) (hE : ∀ n, E n → E' n) : Sat Pan r Q E' := by
  cases r with
  | ok a n => exact hP a n hr
  | err n => exact hE n hr
  | panic => exact hr
  | fuel => exact hr

/-! ## reader contract -/

/-- what an `ok` reader result must satisfy when the reader was given `n` bytes -/
def RdOk {α : Type} (n : Nat) (p : α × Bytes) (a : Nat) : Prop :=
  p.2.length ≤ n ∧ a + 16 * p.2.length ≤ 16 * n + 32

def RdErr (n a : Nat) : Prop := a ≤ 16 * n + 32

def GoodRead (M : Nat) (read : Nat → Bool → Bytes → Res (Val × Bytes)) : Prop :=
  ∀ l ic rest, rest.length ≤ M →
    Sat (maxInput < M) (read l ic rest) (RdOk rest.length) (RdErr rest.length)

def GoodSlots (M : Nat) (slots : List Slot) : Prop := ∀ s ∈ slots, GoodRead M s.read

theorem GoodSlots.tail {M : Nat} {s : Slot} {ss : List Slot} (h : GoodSlots M (s :: ss)) :
    GoodSlots M ss := fun x hx => h x (List.mem_cons_of_mem _ hx)

theorem GoodSlots.head {M : Nat} {s : Slot} {ss : List Slot} (h : GoodSlots M (s :: ss)) :
    GoodRead M s.read := h s (List.mem_cons_self ..)

/-! ## the two header numbers of a loop iteration -/

theorem two_headers {rest r1 r2 : Bytes} {t l : Nat}
    (h1 : decTL rest = some (t, r1)) (h2 : decTL r1 = some (l, r2)) :
    r2.length + 2 ≤ rest.length := by
  have := decTL_rest_lt h1
  have := decTL_rest_lt h2
  omega

theorem skipN_sat (Pan : Prop) (l : Nat) (rest : Bytes) :
    Sat Pan (skipN l rest) (fun r a => r.length ≤ rest.length ∧ a = 0) (fun a => a = 0) := by
  unfold skipN
  split
  · rfl
  · split
    · rfl
    · simp only [Sat, List.length_drop]; exact ⟨by omega, trivial⟩

/-! ## unordered loop -/

def StepUOk (n : Nat) (o : Option (Vals × Bytes)) (a : Nat) : Prop :=
  match o with
  | none => a = 0
  | some p => RdOk n p a

theorem stepU_sat (M : Nat) : ∀ slots, GoodSlots M slots → ∀ typ l ic rest acc, rest.length ≤ M →
    Sat (maxInput < M) (stepU slots typ l ic rest acc) (StepUOk rest.length) (RdErr rest.length) := by
  intro slots
  induction slots with
  | nil => intro _ typ l ic rest acc _; simp [stepU, Sat, StepUOk]
  | cons s ss ih =>
    intro hs typ l ic rest acc hle
    unfold stepU
    split
    · refine sat_bind (hs.head l ic rest hle) (fun _ h => h) ?_
      intro p n hp
      obtain ⟨v, r⟩ := p
      simp only [Sat, StepUOk, RdOk] at hp ⊢
      omega
    · refine sat_bind (ih hs.tail typ l ic rest acc.tail hle) (fun _ h => h) ?_
      intro o n ho
      cases o with
      | none => simp only [StepUOk] at ho; simp [Sat, StepUOk, ho]
      | some p =>
        obtain ⟨v, r⟩ := p
        simp only [Sat, StepUOk, RdOk, Option.map] at ho ⊢
        omega

theorem finishU_sat (Pan : Prop) : ∀ slots acc,
    Sat Pan (finishU slots acc) (fun _ a => a = 0) (fun a => a = 0) := by
  intro slots
  induction slots with
  | nil => intro acc; simp [finishU, Sat]
  | cons s ss ih =>
    intro acc
    unfold finishU
    split
    · rfl
    · refine sat_bind (ih acc.tail) (fun _ h => h) ?_
      intro r n hn
      simp [Sat, hn]

theorem loopU_sat (M : Nat) (slots : List Slot) (hs : GoodSlots M slots) (ic : Bool) :
    ∀ fuel rest acc, rest.length ≤ M → rest.length < fuel →
      Sat (maxInput < M) (loopU slots ic fuel rest acc)
        (fun _ a => a ≤ 16 * rest.length) (fun a => a ≤ 16 * rest.length) := by
  intro fuel
  induction fuel with
  | zero => intro rest acc _ h; omega
  | succ f ih =>
    intro rest acc hM hf
    simp only [loopU]
    split
    · exact sat_mono (finishU_sat _ slots acc) (fun _ _ h => by omega) (fun _ h => by omega)
    · split
      · simp [Sat]
      · rename_i typ r1 h1
        split
        · simp [Sat]
        · rename_i l r2 h2
          have hh := two_headers h1 h2
          refine sat_bind (stepU_sat M slots hs typ l ic r2 acc (by omega)) ?_ ?_
          · intro n hn; simp only [RdErr] at hn; omega
          · intro o n ho
            cases o with
            | some p =>
              obtain ⟨acc', r3⟩ := p
              simp only [StepUOk, RdOk] at ho
              refine sat_mono (ih r3 acc' (by omega) (by omega)) ?_ ?_
              · intro _ m hm; omega
              · intro m hm; omega
            | none =>
              simp only [StepUOk] at ho
              subst ho
              simp only
              split
              · simp [Sat]
              · refine sat_bind (skipN_sat _ l r2) ?_ ?_
                · intro m hm; omega
                · intro r3 m hm
                  refine sat_mono (ih r3 acc (by omega) (by omega)) ?_ ?_
                  · intro _ k hk; omega
                  · intro k hk; omega

/-! ## ordered loop -/

def StepOOk (M n : Nat) (o : StepO) (a : Nat) : Prop :=
  match o with
  | .at _ rem' _ r3 => GoodSlots M rem' ∧ r3.length ≤ n ∧ a + 16 * r3.length ≤ 16 * n + 32
  | .exhausted _ => a = 0

theorem stepO_sat (M : Nat) : ∀ rem, GoodSlots M rem → ∀ cur typ l ic rest, rest.length ≤ M →
    Sat (maxInput < M) (stepO rem cur typ l ic rest) (StepOOk M rest.length) (RdErr rest.length) := by
  intro rem
  induction rem with
  | nil => intro _ cur typ l ic rest _; simp [stepO, Sat, StepOOk]
  | cons s ss ih =>
    intro hs cur typ l ic rest hle
    unfold stepO
    split
    · refine sat_bind (hs.head l ic rest hle) (fun _ h => h) ?_
      intro p n hp
      obtain ⟨v, r⟩ := p
      simp only [RdOk] at hp
      simp only
      split
      · simp only [Sat, StepOOk]; exact ⟨hs, by omega, by omega⟩
      · simp only [Sat, StepOOk]; exact ⟨hs.tail, by omega, by omega⟩
    · split
      · simp [Sat, RdErr]
      · refine sat_bind (ih hs.tail (headInit ss) typ l ic rest hle) (fun _ h => h) ?_
        intro o n ho
        cases o with
        | «at» p rem' c r =>
          simp only [StepOOk] at ho
          simp only [Sat, StepOOk]
          exact ⟨ho.1, by omega, by omega⟩
        | exhausted p =>
          simp only [StepOOk] at ho
          simp [Sat, StepOOk, ho]

theorem finishO_sat (Pan : Prop) : ∀ slots cur,
    Sat Pan (finishO slots cur) (fun _ a => a = 0) (fun a => a = 0) := by
  intro slots
  induction slots with
  | nil => intro cur; simp [finishO, Sat]
  | cons s ss ih =>
    intro cur
    unfold finishO
    split
    · rfl
    · refine sat_bind (ih (headInit ss)) (fun _ h => h) ?_
      intro r n hn
      simp [Sat, hn]

theorem loopO_sat (M : Nat) (slots : List Slot) (ic : Bool) :
    ∀ fuel st rest, (∀ rem cur, st = some (rem, cur) → GoodSlots M rem) →
      rest.length ≤ M → rest.length < fuel →
      Sat (maxInput < M) (loopO slots ic fuel st rest)
        (fun _ a => a ≤ 16 * rest.length) (fun a => a ≤ 16 * rest.length) := by
  intro fuel
  induction fuel with
  | zero => intro st rest _ _ h; omega
  | succ f ih =>
    intro st rest hst hM hf
    simp only [loopO]
    split
    · cases st with
      | none => simp [Sat]
      | some p =>
        obtain ⟨rem, cur⟩ := p
        exact sat_mono (finishO_sat _ rem cur) (fun _ _ h => by omega) (fun _ h => by omega)
    · split
      · simp [Sat]
      · rename_i typ r1 h1
        split
        · simp [Sat]
        · rename_i l r2 h2
          have hh := two_headers h1 h2
          cases st with
          | none =>
            refine sat_mono (ih none r2 (by intro _ _ h; cases h) (by omega) (by omega)) ?_ ?_
            · intro _ m hm; omega
            · intro m hm; omega
          | some p =>
            obtain ⟨rem, cur⟩ := p
            have hrem : GoodSlots M rem := hst rem cur rfl
            simp only
            split
            · refine sat_bind (stepO_sat M rem hrem cur typ l ic r2 (by omega)) ?_ ?_
              · intro n hn; simp only [RdErr] at hn; omega
              · intro o n ho
                cases o with
                | «at» p rem' cur' r3 =>
                  simp only [StepOOk] at ho
                  simp only
                  refine sat_bind (ih (some (rem', cur')) r3 ?_ (by omega) (by omega)) ?_ ?_
                  · intro rem'' cur'' h
                    cases h
                    exact ho.1
                  · intro m hm; omega
                  · intro vs m hm; simp only [Sat]; omega
                | exhausted p =>
                  simp only [StepOOk] at ho
                  subst ho
                  simp only
                  refine sat_bind (ih none r2 (by intro _ _ h; cases h) (by omega) (by omega)) ?_ ?_
                  · intro m hm; omega
                  · intro vs m hm; simp only [Sat]; omega
            · split
              · simp [Sat]
              · refine sat_bind (skipN_sat _ l r2) ?_ ?_
                · intro m hm; omega
                · intro r3 m hm
                  refine sat_mono (ih (some (rem, cur)) r3 hst (by omega) (by omega)) ?_ ?_
                  · intro _ k hk; omega
                  · intro k hk; omega

theorem runSlots_sat (M : Nat) (ord : Bool) (slots : List Slot) (hs : GoodSlots M slots) (ic : Bool)
    (b : Bytes) (hM : b.length ≤ M) :
    Sat (maxInput < M) (runSlots ord slots ic b)
      (fun _ a => a ≤ 16 * b.length) (fun a => a ≤ 16 * b.length) := by
  unfold runSlots
  split
  · refine loopO_sat M slots ic _ _ b ?_ hM (by omega)
    intro rem cur h
    cases h
    exact hs
  · exact loopU_sat M slots hs ic _ b _ hM (by omega)

/-! ## primitive readers -/

theorem readUintLoop_sat (Pan : Prop) (w l : Nat) (rest : Bytes) :
    Sat Pan (readUintLoop w l rest) (RdOk rest.length) (RdErr rest.length) := by
  unfold readUintLoop
  split
  · simp only [Sat, RdOk]; omega
  · split
    · simp [Sat, RdErr]
    · simp only [Sat, RdOk, List.length_drop]; omega

theorem readNatLoop_sat (Pan : Prop) (l : Nat) (rest : Bytes) :
    Sat Pan (readNatLoop l rest) (RdOk rest.length) (RdErr rest.length) := by
  unfold readNatLoop
  split
  · exact readUintLoop_sat Pan 8 l rest
  · simp [Sat, RdErr]

theorem readWire_sat (Pan : Prop) (l : Nat) (rest : Bytes) :
    Sat Pan (readWire l rest) (RdOk rest.length) (RdErr rest.length) := by
  unfold readWire
  split
  · simp [Sat, RdErr]
  · split
    · simp [Sat, RdErr]
    · split
      · simp [Sat, RdErr]
      · simp only [Sat, RdOk, List.length_drop]; omega

theorem goMake_sat (M n esz : Nat) (h : maxInput < M ∨ (n < 2 ^ 63 ∧ n * esz ≤ 2 ^ 48)) :
    Sat (maxInput < M) (goMake n esz) (fun _ a => a = n * esz) (fun _ => False) := by
  unfold goMake maxAlloc
  split
  · rename_i hc
    simp only [Sat]
    omega
  · simp [Sat]

theorem readName_sat (M l : Nat) (rest : Bytes) (hM : rest.length ≤ M) :
    Sat (maxInput < M) (readName l rest) (RdOk rest.length) (RdErr rest.length) := by
  unfold readName fits
  split
  · simp [Sat, RdErr]
  · rename_i hfit
    have hl : l ≤ rest.length := by simpa using hfit
    refine sat_bind (goMake_sat M (l / 2 + 1) 32 ?_) (fun _ h => h.elim) ?_
    · rw [maxInput_eq]; omega
    · intro _ n hn
      subst hn
      split
      · simp only [Sat, RdErr]; omega
      · simp only [Sat, RdOk, List.length_drop]; omega

theorem readMap_good {M : Nat} {rk rv : Nat → Bool → Bytes → Res (Val × Bytes)} (vt : Nat)
    (hk : GoodRead M rk) (hv : GoodRead M rv) : GoodRead M (readMap rk rv vt) := by
  intro l ic rest hM
  unfold readMap
  refine sat_bind (hk l ic rest hM) (fun _ h => h) ?_
  intro p n hp
  obtain ⟨k, r0⟩ := p
  simp only [RdOk] at hp
  simp only
  split
  · simp only [Sat, RdErr]; omega
  · rename_i typ r1 h1
    split
    · simp only [Sat, RdErr]; omega
    · rename_i l2 r2 h2
      have hh := two_headers h1 h2
      split
      · simp only [Sat, RdErr]; omega
      · refine sat_bind (hv l2 ic r2 (by omega)) ?_ ?_
        · intro m hm; simp only [RdErr] at hm ⊢; omega
        · intro q m hq
          obtain ⟨v, r3⟩ := q
          simp only [RdOk] at hq
          simp only [Sat, RdOk]
          omega

theorem delegate_fst_le (l : Nat) (rest : Bytes) : (delegate l rest).1.length ≤ rest.length := by
  unfold delegate
  split
  · simp
  · simp only [List.length_take]; omega

theorem delegate_snd (l : Nat) (rest : Bytes) :
    (delegate l rest).2.length + (delegate l rest).1.length = rest.length := by
  unfold delegate
  split
  · simp
  · simp only [List.length_take, List.length_drop]; omega

/-! ## every kind, every field list -/

mutual
theorem readKind_good (M : Nat) : ∀ k, GoodRead M (readKind k)
  | .natural _ => fun l ic rest _ => by
      simp only [readKind]; exact readNatLoop_sat _ l rest
  | .time _ => fun l ic rest _ => by
      simp only [readKind]
      refine sat_bind (readNatLoop_sat _ l rest) (fun _ h => h) ?_
      intro p n hp
      obtain ⟨v, r⟩ := p
      simp only [RdOk] at hp
      cases v <;> (simp only [Sat, RdOk]; omega)
  | .fixedUint w _ => fun l ic rest _ => by
      by_cases hw : w = 1
      · subst hw
        rw [readKind.eq_def]
        simp only
        cases rest with
        | nil => simp [Sat, RdErr]
        | cons x r => simp only [Sat, RdOk, List.length_cons]; omega
      · rw [readKind.eq_def]
        simp only
        exact readUintLoop_sat _ _ l rest
  | .bool => fun l ic rest _ => by
      simp only [readKind, Sat, RdOk]; omega
  | .binary => fun l ic rest hM => by
      by_cases hl : l ≤ rest.length
      · have e : readKind .binary l ic rest
            = (goMake l 1).bind fun _ => .ok (.bytes (rest.take l), rest.drop l) 0 := by
          simp [readKind, fits, hl]
        rw [e]
        refine sat_bind (goMake_sat M l 1 ?_) (fun _ h => h.elim) ?_
        · rw [maxInput_eq]; omega
        · intro _ n hn
          subst hn
          simp only [Sat, RdOk, List.length_drop]; omega
      · have e : readKind .binary l ic rest = .err 0 := by simp [readKind, fits, hl]
        rw [e]; simp [Sat, RdErr]
  | .string _ => fun l ic rest _ => by
      simp only [readKind]
      split
      · simp only [Sat, RdOk]; omega
      · split
        · simp only [Sat, RdErr]; omega
        · simp only [Sat, RdOk, List.length_drop]; omega
  | .wire => fun l ic rest _ => by
      simp only [readKind]; exact readWire_sat _ l rest
  | .signature => fun l ic rest _ => by
      simp only [readKind]; exact readWire_sat _ l rest
  | .name => fun l ic rest hM => by
      simp only [readKind]; exact readName_sat M l rest hM
  | .interestName => fun l ic rest hM => by
      simp only [readKind]; exact readName_sat M l rest hM
  | .struct ord fs => fun l ic rest hM => by
      simp only [readKind]
      have h1 := delegate_fst_le l rest
      have h2 := delegate_snd l rest
      refine sat_bind
        (runSlots_sat M ord (compile fs) (compile_good M fs) ic (delegate l rest).1 (by omega)) ?_ ?_
      · intro n hn; simp only [RdErr]; omega
      · intro vs n hn
        simp only [Sat, RdOk]; omega
  | .seq sub => fun l ic rest hM => by
      simp only [readKind]; exact readKind_good M sub l ic rest hM
  | .map kk vt vk => fun l ic rest hM => by
      simp only [readKind]
      exact readMap_good vt (readKind_good M kk) (readKind_good M vk) l ic rest hM
  | .marker => fun l ic rest _ => by
      simp only [readKind, Sat, RdOk]; omega
theorem compile_good (M : Nat) : ∀ fs, GoodSlots M (compile fs)
  | .nil => by intro s hs; simp [compile] at hs
  | .cons t k fs => by
      intro s hs
      simp only [compile, List.mem_cons] at hs
      rcases hs with rfl | hs
      · exact readKind_good M k
      · exact compile_good M fs s hs
end

end Ndn.C04
