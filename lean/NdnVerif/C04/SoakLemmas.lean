/-
  C04 — helper lemmas for the `soak` operation of the correspondence (a lossy peer repeating first
  fragments): handing the link service a fragment it already holds changes nothing.
-/
import NdnVerif.C04.Model
namespace Ndn.C04

theorem storeFind_storeSet (st : List (Nat × List Bytes)) (k : Nat) (v : List Bytes) :
    storeFind (storeSet st k v) k = some v := by
  induction st with
  | nil => simp [storeSet, storeFind]
  | cons a r ih =>
    obtain ⟨k', v'⟩ := a
    by_cases h : k' == k
    · simp [storeSet, storeFind, h]
    · simp only [storeSet, h]
      simp only [storeFind] at ih ⊢
      simp [List.find?, h, ih]

theorem storeSet_storeSet (st : List (Nat × List Bytes)) (k : Nat) (v : List Bytes) :
    storeSet (storeSet st k v) k v = storeSet st k v := by
  induction st with
  | nil => simp [storeSet]
  | cons a r ih =>
    obtain ⟨k', v'⟩ := a
    by_cases h : k' == k
    · simp [storeSet, h]
    · simp [storeSet, h, ih]

theorem setIdx_again (e : List Bytes) (i : Nat) (v : Bytes) (e' : List Bytes) (h : setIdx e i v = some e') :
    setIdx e' i v = some e' ∧ e'.length = e.length := by
  unfold setIdx at h
  split at h
  · rename_i hi
    cases h
    constructor
    · simp [setIdx, hi]
    · simp
  · cases h

/-- **A fragment that is handed over again changes nothing**: when a fragment leaves its message
    incomplete, handing the very same fragment (same base sequence, index, count, bytes) to the link service
    again leaves the state exactly as it is — which is why a lossy peer that repeats first fragments for any
    length of time leaves the partial message store as after one round. -/
theorem reassemble_repeat_idempotent (st st' : LinkSt) (base idx cnt : Nat) (frag : Bytes)
    (h : reassemble st base idx cnt frag = some (st', none)) :
    reassemble st' base idx cnt frag = some (st', none) := by
  unfold reassemble at h
  by_cases hd : cnt = 0 ∨ cnt > maxFragments ∨ idx ≥ cnt
  · simp only [hd, if_true, Option.some.injEq, Prod.mk.injEq, and_true] at h
    subst h
    simp [reassemble, hd]
  · simp only [hd, if_false] at h
    -- the entry the first call worked on
    cases hf : storeFind st.store base with
    | some e =>
      simp only [hf] at h
      by_cases hl : e.length = cnt
      · simp only [hl, if_true] at h
        cases hs : setIdx e idx frag with
        | none => simp [hs] at h
        | some e' =>
          simp only [hs] at h
          obtain ⟨hs2, hlen⟩ := setIdx_again e idx frag e' hs
          by_cases hc : (e'.filter (· ≠ [])).length = e'.length
          · rw [if_pos hc] at h
            simp at h
          · rw [if_neg hc] at h
            simp only [Option.some.injEq, Prod.mk.injEq, and_true] at h
            subst h
            have hl' : e'.length = cnt := by rw [hlen, hl]
            unfold reassemble
            simp only [hd, if_false, storeFind_storeSet, hl', if_true, hs2]
            rw [if_neg (by rw [← hl']; exact hc)]
            simp [storeSet_storeSet]
      · simp only [hl, if_false, Option.some.injEq, Prod.mk.injEq, and_true] at h
        subst h
        unfold reassemble
        simp [hd, hf, hl]
    | none =>
      simp only [hf] at h
      cases hm : makeSlots cnt with
      | none => simp [hm] at h
      | some e =>
        simp only [hm, Option.map_some] at h
        have hl : e.length = cnt := by
          unfold makeSlots at hm
          split at hm
          · cases hm; simp
          · cases hm
        cases hs : setIdx e idx frag with
        | none => simp [hs] at h
        | some e' =>
          simp only [hs] at h
          obtain ⟨hs2, hlen⟩ := setIdx_again e idx frag e' hs
          by_cases hc : (e'.filter (· ≠ [])).length = e'.length
          · rw [if_pos hc] at h
            simp at h
          · rw [if_neg hc] at h
            simp only [Option.some.injEq, Prod.mk.injEq, and_true] at h
            subst h
            have hl' : e'.length = cnt := by rw [hlen, hl]
            unfold reassemble
            simp only [hd, if_false, storeFind_storeSet, hl', if_true, hs2]
            rw [if_neg (by rw [← hl']; exact hc)]
            simp [storeSet_storeSet]

/-- non-vacuity: fragment 0 of 2, twice -/
example : reassemble ({ store := [] } : LinkSt) 77 0 2 [6, 18] = some ({ store := [(77, [[6, 18], []])] }, none) ∧
    reassemble ({ store := [(77, [[6, 18], []])] } : LinkSt) 77 0 2 [6, 18] = some ({ store := [(77, [[6, 18], []])] }, none) := by
  constructor <;> rfl

end Ndn.C04
