/-
  C04/Segmented.lean — the decoder theorems of C04 for EVERY healthy `enc.ParseReader`, in particular
  for a `WireReader` over any segmentation of the input.

  `Ndn.C13.parse` (C13/Model.lean) is the generated `Parse<Model>` code over a contiguous buffer;
  `parseR` (SegmentedModel.lean) is the same code performing every access through the reader
  operations of `std/encoding/readers.go` as modelled in C03/Reader.lean.  Here:

    parseR_eq_parse                   on a healthy reader `At r b p` (BufferReader or WireReader at
                                      any position of any segmentation) `parseR` has EXACTLY the
                                      outcome of `parse` on the remaining bytes `b.drop p`: same
                                      value, same allocation counter, same error / panic / fuel
                                      outcome (full equality of `Ndn.C13.Res Vals`, nothing weakened)
    readKind_any_reader               the same per field reader, including the reader that is left
    parse_segmented_eq_contiguous     `parseR … (newWireReader segs) = parse … segs.flatten`
    parse_buffer_eq_contiguous        `parseR … (newBufferReader b) = parse … b`
    parse_total_segmented             ≤ 2^40 bytes in any segmentation: no panic
    parse_fuel_free_segmented         never out of fuel
    parse_alloc_linear_segmented      allocation ≤ 16 · total number of bytes
    parse_total_reader / parse_fuel_free_reader / parse_alloc_linear_reader
                                      the three for an arbitrary healthy reader

  Hypothesis on the segmentation: `At` needs the segments AFTER THE FIRST to be non-empty
  (`WireReader.nextSeg` skips empty segments but `Delegate`/`Skip` index `wire[seg]` directly);
  `NonEmptySegs` (all segments non-empty) is what the link layer produces.  Both forms are stated.
  No further hypothesis: any schema, any `ignoreCritical`, any bytes.
-/
import NdnVerif.C04.SegmentedLemmas
import NdnVerif.C04.Props
import NdnVerif.C03.Props
namespace Ndn.C04.Seg
open Ndn.C13
open Ndn.C03 (Rd BufR WireR newWireReader newBufferReader At NonEmptySegs)

/-! concrete schemas / inputs for the non-vacuity examples -/
def exName : Schema := ⟨"x", false, .cons 7 .name .nil⟩
def exNested : Schema :=
  ⟨"y", true, .cons 1 (.natural false) (.cons 2 .binary (.cons 3 (.struct false (.cons 7 (.seq .name) .nil)) .nil))⟩
def exSegs : List Bytes := [[7], [3, 8], [1, 65]]
/-- `[1,1,5, 2,2,9,9, 3,6, 7,0, 7,2,8,0]` cut so that T/L numbers, the binary value, the struct value
    (→ `WireReader.Delegate` returns a WireReader) and a name component all cross segment borders -/
def exSegs2 : List Bytes := [[1, 1], [5, 2, 2, 9], [9, 3, 6, 7, 0, 7], [2, 8], [0]]

theorem exSegs_ne : NonEmptySegs exSegs := by
  intro s hs; simp [exSegs] at hs; rcases hs with h | h | h <;> simp [h]
theorem exSegs2_ne : NonEmptySegs exSegs2 := by
  intro s hs; simp [exSegs2] at hs; rcases hs with h | h | h | h | h <;> simp [h]

/-! ## equality with the contiguous decoder -/

/-- On a healthy reader over logical buffer `b` at position `p` the reader-based decoder returns
    exactly what the contiguous decoder returns on the remaining bytes (value, allocation counter,
    and every failure outcome). -/
theorem parseR_eq_parse (s : Schema) (ic : Bool) (r : Rd) (b : Bytes) (p : Nat) :
    At r b p → parseR s ic r = parse s ic (b.drop p) := fun h => parseR_sim s ic h

/-- non-vacuity: a healthy WireReader in the middle of its second segment -/
example : At (.wire ⟨[[9, 9], [9, 7, 3], [8, 1, 65]], 1, 1, 0⟩) [9, 9, 9, 7, 3, 8, 1, 65] 3 := by
  refine ⟨?_, rfl, by decide⟩
  refine ⟨by decide, by decide, by decide, ?_, by decide⟩
  intro i h0 hi
  have : i = 1 ∨ i = 2 := by simp at hi; omega
  rcases this with rfl | rfl <;> simp [WireR.segAt]
example : parseR exName false (.wire ⟨[[9, 9], [9, 7, 3], [8, 1, 65]], 1, 1, 0⟩)
    = .ok (.cons (.name [⟨8, [65]⟩]) .nil) 64 := by rfl

/-- The same for one field reader, with the reader that is left: it is healthy over the same buffer
    at the position `p' ≥ p` the contiguous reader has reached. -/
theorem readKind_any_reader (k : Kind) (l : Nat) (ic : Bool) (r : Rd) (b : Bytes) (p : Nat) (h : At r b p) :
    match readKind k l ic (b.drop p) with
    | .ok (v, rest') a => ∃ r' p', readKindR k l ic r = .ok (v, r') a ∧ p ≤ p' ∧ p' ≤ b.length
                            ∧ At r' b p' ∧ rest' = b.drop p'
    | .err a => readKindR k l ic r = .err a
    | .panic => readKindR k l ic r = .panic
    | .fuel => readKindR k l ic r = .fuel := by
  have hs := readKindR_sim k l ic r b p h
  cases hc : readKind k l ic (b.drop p) with
  | ok y a =>
    obtain ⟨v, rest'⟩ := y
    rw [hc] at hs
    cases hr : readKindR k l ic r with
    | ok x a' =>
      obtain ⟨v', r'⟩ := x
      rw [hr] at hs
      obtain ⟨⟨hv, p', hp, ha, hrest⟩, haa⟩ := hs
      have hv : v' = v := hv
      subst hv haa
      exact ⟨r', p', rfl, hp, At_le ha, ha, hrest⟩
    | err a' => rw [hr] at hs; exact hs.elim
    | panic => rw [hr] at hs; exact hs.elim
    | fuel => rw [hr] at hs; exact hs.elim
  | err a =>
    rw [hc] at hs
    cases hr : readKindR k l ic r with
    | ok x a' => rw [hr] at hs; exact hs.elim
    | err a' => rw [hr] at hs; have hs : a' = a := hs; subst hs; rfl
    | panic => rw [hr] at hs; exact hs.elim
    | fuel => rw [hr] at hs; exact hs.elim
  | panic =>
    rw [hc] at hs
    cases hr : readKindR k l ic r with
    | ok x a' => rw [hr] at hs; exact hs.elim
    | err a' => rw [hr] at hs; exact hs.elim
    | panic => rfl
    | fuel => rw [hr] at hs; exact hs.elim
  | fuel =>
    rw [hc] at hs
    cases hr : readKindR k l ic r with
    | ok x a' => rw [hr] at hs; exact hs.elim
    | err a' => rw [hr] at hs; exact hs.elim
    | panic => rw [hr] at hs; exact hs.elim
    | fuel => rfl

/-- non-vacuity: a name field whose value crosses two segment borders; the reader that is left is
    parked at the end of the last segment -/
example : readKindR .name 3 false (.wire ⟨[[7, 3, 8], [1], [65]], 0, 2, 0⟩)
    = .ok (.name [⟨8, [65]⟩], .wire ⟨[[7, 3, 8], [1], [65]], 2, 1, 0⟩) 64 := by rfl
/-- a component that overruns the announced name length is an error over the segmented reader as it
    is over the contiguous one (`decComps` refuses it, the Go loop ends with `Pos() != endName`) -/
example : readKindR .name 3 false (.wire ⟨[[8, 2], [65, 66, 67]], 0, 0, 0⟩) = .err 64
    ∧ readKind .name 3 false [8, 2, 65, 66, 67] = .err 64 := ⟨by rfl, by rfl⟩

/-- PROPERTY (any segmentation): decoding over a WireReader on ANY segmentation whose segments after
    the first are non-empty gives exactly the outcome of decoding the joined bytes. -/
theorem parse_segmented_eq_contiguous' (s : Schema) (ic : Bool) (segs : List Bytes)
    (h : ∀ i, 0 < i → i < segs.length → segs.getD i [] ≠ []) :
    parseR s ic (newWireReader segs) = parse s ic segs.flatten := by
  have := parseR_eq_parse s ic _ _ _ (C03.at_newWireReader segs h)
  rwa [List.drop_zero] at this

theorem parse_segmented_eq_contiguous (s : Schema) (ic : Bool) (segs : List Bytes) (h : NonEmptySegs segs) :
    parseR s ic (newWireReader segs) = parse s ic segs.flatten := by
  have := parseR_eq_parse s ic _ _ _ (C03.newWireReader_healthy segs h)
  rwa [List.drop_zero] at this

/-- non-vacuity: the hypotheses are met and both sides really decode -/
example : NonEmptySegs exSegs := exSegs_ne
example : parseR exName false (newWireReader exSegs) = .ok (.cons (.name [⟨8, [65]⟩]) .nil) 64 := by rfl
example : parse exName false exSegs.flatten = .ok (.cons (.name [⟨8, [65]⟩]) .nil) 64 := by rfl
example : parseR exNested false (newWireReader exSegs2)
    = .ok (.cons (.nat 5) (.cons (.bytes [9, 9])
        (.cons (.struct (.cons (.seq (.cons (.name []) (.cons (.name [⟨8, []⟩]) .nil))) .nil)) .nil))) 98 := by
  rfl
/-- an empty FIRST segment is covered by the primed form -/
example : parseR exName false (newWireReader [[], [7, 3, 8], [1, 65]]) = parse exName false [7, 3, 8, 1, 65] :=
  parse_segmented_eq_contiguous' exName false [[], [7, 3, 8], [1, 65]] (by
    intro i h0 hi
    have : i = 1 ∨ i = 2 := by simp at hi; omega
    rcases this with rfl | rfl <;> simp)

/-- the BufferReader instance: `parseR` over `enc.NewBufferReader(b)` is `parse` -/
theorem parse_buffer_eq_contiguous (s : Schema) (ic : Bool) (b : Bytes) :
    parseR s ic (newBufferReader b) = parse s ic b := by
  have := parseR_eq_parse s ic _ _ _ (C03.at_newBufferReader b)
  rwa [List.drop_zero] at this

example : parseR exName false (newBufferReader [7, 3, 8, 1, 65]) = .ok (.cons (.name [⟨8, [65]⟩]) .nil) 64 := by rfl

/-! ## the three decoder properties over any healthy reader -/

theorem parse_total_reader (s : Schema) (ic : Bool) (r : Rd) (b : Bytes) (p : Nat) (h : At r b p)
    (hl : b.length ≤ maxInput) : parseR s ic r ≠ .panic := by
  rw [parseR_eq_parse s ic r b p h]
  exact parse_total s ic (b.drop p) (by simp only [List.length_drop]; omega)

theorem parse_fuel_free_reader (s : Schema) (ic : Bool) (r : Rd) (b : Bytes) (p : Nat) (h : At r b p) :
    parseR s ic r ≠ .fuel := by
  rw [parseR_eq_parse s ic r b p h]
  exact parse_fuel_free s ic (b.drop p)

theorem parse_alloc_linear_reader (s : Schema) (ic : Bool) (r : Rd) (b : Bytes) (p : Nat) (h : At r b p)
    (hl : b.length ≤ maxInput) : (parseR s ic r).alloc ≤ 16 * (b.length - p) := by
  rw [parseR_eq_parse s ic r b p h]
  have := parse_alloc_linear s ic (b.drop p) (by simp only [List.length_drop]; omega)
  simpa only [List.length_drop] using this

/-! ## … and over a WireReader on any segmentation -/

/-- PROPERTY (no panic): at most 2^40 bytes, in any segmentation, under any schema: no panic. -/
theorem parse_total_segmented (s : Schema) (ic : Bool) (segs : List Bytes) (h : NonEmptySegs segs) :
    segs.flatten.length ≤ maxInput → parseR s ic (newWireReader segs) ≠ .panic := by
  intro hl
  rw [parse_segmented_eq_contiguous s ic segs h]
  exact parse_total s ic _ hl

/-- non-vacuity: a length field far beyond the input, cut in the middle of the length number, is an
    error (nothing allocated), not a panic -/
example : NonEmptySegs [[7, 0xfe, 0xff], [0xff, 0xff, 0xff, 8], [1, 65]] := by
  intro s hs; simp at hs; rcases hs with h | h | h <;> simp [h]
example : parseR exName false (newWireReader [[7, 0xfe, 0xff], [0xff, 0xff, 0xff, 8], [1, 65]]) = .err 0 := by rfl

/-- PROPERTY (termination): fuel `Length() - Pos() + 1` always suffices, whatever the input. -/
theorem parse_fuel_free_segmented (s : Schema) (ic : Bool) (segs : List Bytes) (h : NonEmptySegs segs) :
    parseR s ic (newWireReader segs) ≠ .fuel := by
  rw [parse_segmented_eq_contiguous s ic segs h]
  exact parse_fuel_free s ic _

/-- non-vacuity: the fuel outcome is real in the reader-based model (no fuel, no iteration) -/
example : loopUR (compileR exName.fields) false 0 (newWireReader exSegs) (initAccR (compileR exName.fields))
    = .fuel := by rfl
example : NonEmptySegs exSegs2 := exSegs2_ne

/-- PROPERTY (allocation): what a parse allocates on the say-so of length fields is at most 16 bytes
    per input byte, whatever the segmentation. -/
theorem parse_alloc_linear_segmented (s : Schema) (ic : Bool) (segs : List Bytes) (h : NonEmptySegs segs) :
    segs.flatten.length ≤ maxInput → (parseR s ic (newWireReader segs)).alloc ≤ 16 * segs.flatten.length := by
  intro hl
  rw [parse_segmented_eq_contiguous s ic segs h]
  exact parse_alloc_linear s ic _ hl

/-- non-vacuity and tightness: an empty name in two one-byte segments allocates 32 = 16 · 2 bytes -/
example : (parseR exName false (newWireReader [[7], [0]])).alloc = 32 ∧ 16 * [[7], [0]].flatten.length = 32 :=
  ⟨by rfl, by rfl⟩
example : NonEmptySegs [[7], [0]] := by intro s hs; simp at hs; rcases hs with h | h <;> simp [h]

end Ndn.C04.Seg
