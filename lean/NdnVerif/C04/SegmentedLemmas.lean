/-
  C04/SegmentedLemmas.lean — simulation between the reader-based interpreter (SegmentedModel.lean)
  and the contiguous one (C13/Model.lean): on a healthy reader `At r b p` every primitive, every
  field reader, both parse loops and every compiled model behave exactly as their contiguous
  counterparts on `b.drop p` (same value, same allocation counter, same failure), and the reader
  that is left is again healthy over `b`, at the position the contiguous reader has reached.
  Everything is derived from the operation-level refinement `readerSpecs` / `readerSpecsX` of C03.
-/
import NdnVerif.C04.SegmentedModel
import NdnVerif.C03.LemmasLiftRd
namespace Ndn.C04.Seg
open Ndn.C13
open Ndn.C03 (Rd BufR WireR newWireReader newBufferReader At readerSpecs readerSpecsX)

/-! ## outcomes -/

theorem bind_ok0 {α β : Type} (a : α) (f : α → Res β) : (Res.ok a 0).bind f = f a := by
  simp only [Res.bind]
  cases f a <;> simp

theorem bind_err {α β : Type} (n : Nat) (f : α → Res β) : (Res.err n : Res α).bind f = .err n := rfl
theorem bind_panic {α β : Type} (f : α → Res β) : (Res.panic : Res α).bind f = .panic := rfl
theorem bind_fuel {α β : Type} (f : α → Res β) : (Res.fuel : Res α).bind f = .fuel := rfl

/-- both outcomes are `ok` with related results and the same allocation, or the same failure -/
def RelG {α β : Type} (P : α → β → Prop) : Res α → Res β → Prop
  | .ok a n, .ok b m => P a b ∧ n = m
  | .err n, .err m => n = m
  | .panic, .panic => True
  | .fuel, .fuel => True
  | _, _ => False

theorem relG_bind {α β γ δ : Type} {P : α → β → Prop} {Q : γ → δ → Prop} {x : Res α} {y : Res β}
    {f : α → Res γ} {g : β → Res δ} (h : RelG P x y) (hf : ∀ a b, P a b → RelG Q (f a) (g b)) :
    RelG Q (x.bind f) (y.bind g) := by
  cases x <;> cases y <;> simp only [RelG] at h <;> try (exact h.elim)
  · rename_i a n b m
    obtain ⟨hp, rfl⟩ := h
    have := hf a b hp
    simp only [Res.bind]
    cases hfa : f a <;> cases hgb : g b <;> rw [hfa, hgb] at this <;> simp only [RelG] at this ⊢
    · exact ⟨this.1, by rw [this.2]⟩
    · rw [this]
  · subst h; simp only [Res.bind, RelG]
  · simp only [Res.bind, RelG]
  · simp only [Res.bind, RelG]

theorem relG_eq {α : Type} {x y : Res α} (h : RelG Eq x y) : x = y := by
  cases x <;> cases y <;> simp only [RelG] at h <;> try (exact h.elim)
  · obtain ⟨rfl, rfl⟩ := h; rfl
  · subst h; rfl
  · rfl
  · rfl

theorem relG_of_eq {α : Type} {x y : Res α} (h : x = y) : RelG Eq x y := by
  subst h; cases x <;> simp [RelG]

theorem relG_ok {α β : Type} {P : α → β → Prop} {a : α} {b : β} (n : Nat) (h : P a b) :
    RelG P (.ok a n) (.ok b n) := ⟨h, rfl⟩

theorem relG_err {α β : Type} {P : α → β → Prop} (n : Nat) : RelG P (.err n : Res α) (.err n : Res β) := by
  simp [RelG]

/-! ## reader state relation -/

/-- `r'` is healthy over `b` at some position `p' ≥ p`, and `rest'` are the bytes from there on -/
def RS (b : Bytes) (p : Nat) (r' : Rd) (rest' : Bytes) : Prop :=
  ∃ p', p ≤ p' ∧ At r' b p' ∧ rest' = b.drop p'

/-- results of readers: same value, related reader state -/
def PV {α : Type} (b : Bytes) (p : Nat) (x : α × Rd) (y : α × Bytes) : Prop := x.1 = y.1 ∧ RS b p x.2 y.2

theorem At_le {r : Rd} {b : Bytes} {p : Nat} (h : At r b p) : p ≤ b.length := h.2.2

theorem RS.mono {b : Bytes} {p q : Nat} {r' : Rd} {rest' : Bytes} (hq : q ≤ p) (h : RS b p r' rest') :
    RS b q r' rest' := by
  obtain ⟨p', h1, h2, h3⟩ := h
  exact ⟨p', by omega, h2, h3⟩

theorem PV.mono {α : Type} {b : Bytes} {p q : Nat} {x : α × Rd} {y : α × Bytes} (hq : q ≤ p)
    (h : PV b p x y) : PV b q x y := ⟨h.1, h.2.mono hq⟩

theorem relG_mono {α β : Type} {P Q : α → β → Prop} {x : Res α} {y : Res β} (h : RelG P x y)
    (hpq : ∀ a b, P a b → Q a b) : RelG Q x y := by
  cases x <;> cases y <;> simp only [RelG] at h ⊢ <;> try (exact h)
  exact ⟨hpq _ _ h.1, h.2⟩

/-- a field reader over a reader simulates a field reader over the remaining bytes -/
def SimRead (sr : Nat → Bool → Rd → Res (Val × Rd)) (s : Nat → Bool → Bytes → Res (Val × Bytes)) : Prop :=
  ∀ l ic r b p, At r b p → RelG (PV b p) (sr l ic r) (s l ic (b.drop p))

/-! ## list facts -/

theorem drop_cons_getD (b : Bytes) (p : Nat) (h : p < b.length) : b.drop p = b.getD p 0 :: b.drop (p + 1) := by
  rw [List.drop_eq_getElem_cons h]
  simp [List.getD, List.getElem?_eq_getElem h]

theorem drop_eq_nil_iff' (b : Bytes) (p : Nat) : b.drop p = [] ↔ p ≥ b.length := by
  simp

/-! ## primitives -/

theorem pos_eq {r : Rd} {b : Bytes} {p : Nat} (h : At r b p) : r.pos = p := readerSpecs.pos_eq r b p h
theorem length_eq {r : Rd} {b : Bytes} {p : Nat} (h : At r b p) : r.length = b.length :=
  readerSpecs.length_eq r b p h

theorem rdByte_ok {r : Rd} {b : Bytes} {p : Nat} (h : At r b p) (hp : p < b.length) :
    ∃ r', rdByte r = .ok (b.getD p 0, r') 0 ∧ At r' b (p + 1) ∧ r'.Live := by
  obtain ⟨r', e, a, l⟩ := readerSpecs.readByte_ok r b p h hp
  exact ⟨r', by simp [rdByte, e, lift], a, l⟩

theorem rdByte_eof {r : Rd} {b : Bytes} {p : Nat} (h : At r b p) (hp : p ≥ b.length) :
    rdByte r = .err 0 := by
  simp [rdByte, readerSpecs.readByte_eof r b p h hp, lift]

theorem bytesLoopR_ok (tr : Nat → Nat) : ∀ (n acc : Nat) (r : Rd) (b : Bytes) (p : Nat), At r b p →
    p + n ≤ b.length →
    ∃ r', bytesLoopR tr n acc r = .ok (((b.drop p).take n).foldl (fun a x => tr (a * 256 + x)) acc, r') 0
      ∧ At r' b (p + n) := by
  intro n
  induction n with
  | zero => intro acc r b p h _; exact ⟨r, by simp [bytesLoopR], h⟩
  | succ n ih =>
    intro acc r b p h hl
    obtain ⟨r1, e1, a1, _⟩ := rdByte_ok h (by omega)
    obtain ⟨r', e2, a2⟩ := ih (tr (acc * 256 + b.getD p 0)) r1 b (p + 1) a1 (by omega)
    refine ⟨r', ?_, ?_⟩
    · simp only [bytesLoopR, e1, bind_ok0, e2]
      rw [drop_cons_getD b p (by omega)]
      simp
    · have : p + 1 + n = p + (n + 1) := by omega
      rw [← this]; exact a2

theorem bytesLoopR_err (tr : Nat → Nat) : ∀ (n acc : Nat) (r : Rd) (b : Bytes) (p : Nat), At r b p →
    p + n > b.length → bytesLoopR tr n acc r = .err 0 := by
  intro n
  induction n with
  | zero => intro acc r b p h hl; have := At_le h; omega
  | succ n ih =>
    intro acc r b p h hl
    by_cases hp : p < b.length
    · obtain ⟨r1, e1, a1, _⟩ := rdByte_ok h hp
      simp only [bytesLoopR, e1, bind_ok0]
      exact ih _ r1 b (p + 1) a1 (by omega)
    · simp only [bytesLoopR, rdByte_eof h (by omega), bind_err]

theorem foldl_be (t : Bytes) : ∀ acc : Nat,
    t.foldl (fun a x => id (a * 256 + x)) acc = acc * 256 ^ t.length + beDec t := by
  induction t with
  | nil => intro acc; simp [beDec]
  | cons x t ih =>
    intro acc
    simp only [List.foldl_cons]
    rw [ih]
    simp only [beDec, id, List.length_cons, Nat.pow_succ]
    rw [Nat.add_mul, Nat.mul_assoc, Nat.mul_comm 256, Nat.add_assoc]

theorem foldl_beDecMod (w : Nat) (t : Bytes) : ∀ acc : Nat,
    t.foldl (fun a x => (a * 256 + x) % 256 ^ w) acc = beDecMod w acc t := by
  induction t with
  | nil => intro acc; simp [beDecMod]
  | cons x t ih => intro acc; simp only [List.foldl_cons, ih, beDecMod]

/-- `decTL` as an outcome -/
def decTLRes (rest : Bytes) : Res (Nat × Bytes) :=
  match decTL rest with
  | none => .err 0
  | some x => .ok x 0

theorem decTL_match {β : Type} (rest : Bytes) (F : Nat → Bytes → Res β) :
    (match decTL rest with
      | none => .err 0
      | some (t, r1) => F t r1) = (decTLRes rest).bind fun (t, r1) => F t r1 := by
  unfold decTLRes
  cases decTL rest with
  | none => rfl
  | some x => obtain ⟨t, r1⟩ := x; simp only [bind_ok0]

/-- `enc.ReadTLNum` on a healthy reader = `decTL` on the remaining bytes; at least one byte is
    consumed and the reader is live afterwards -/
theorem readTLNumR_spec {r : Rd} {b : Bytes} {p : Nat} (h : At r b p) :
    match decTL (b.drop p) with
    | none => readTLNumR r = .err 0
    | some (v, rest) => ∃ r' p', readTLNumR r = .ok (v, r') 0 ∧ p < p' ∧ At r' b p' ∧ rest = b.drop p' := by
  by_cases hp : p < b.length
  · obtain ⟨r1, e1, a1, _⟩ := rdByte_ok h hp
    rw [drop_cons_getD b p hp]
    simp only [decTL, readTLNumR, e1, bind_ok0]
    by_cases hx : b.getD p 0 ≤ 0xfc
    · simp only [if_pos hx]
      exact ⟨r1, p + 1, rfl, by omega, a1, rfl⟩
    · simp only [if_neg hx]
      by_cases hl : (b.drop (p + 1)).length < tlExtra (b.getD p 0)
      · simp only [if_pos hl]
        exact bytesLoopR_err id _ 0 r1 b (p + 1) a1 (by simp only [List.length_drop] at hl; omega)
      · simp only [if_neg hl]
        obtain ⟨r', e2, a2⟩ := bytesLoopR_ok id (tlExtra (b.getD p 0)) 0 r1 b (p + 1) a1 (by simp only [List.length_drop] at hl; omega)
        refine ⟨r', p + 1 + tlExtra (b.getD p 0), ?_, by omega, a2, by simp [List.drop_drop]⟩
        rw [e2, foldl_be]; simp
  · have : b.drop p = [] := by simp; omega
    rw [this]
    simp only [decTL, readTLNumR, rdByte_eof h (by omega), bind_err]

theorem readTLNumR_sim {r : Rd} {b : Bytes} {p : Nat} (h : At r b p) :
    RelG (PV b (p + 1)) (readTLNumR r) (decTLRes (b.drop p)) := by
  have := readTLNumR_spec h
  unfold decTLRes
  cases hd : decTL (b.drop p) with
  | none => rw [hd] at this; simp only [] at this; rw [this]; exact rfl
  | some x =>
    obtain ⟨v, rest⟩ := x
    rw [hd] at this
    obtain ⟨r', p', e, hlt, a, hr⟩ := this
    rw [e]
    exact ⟨⟨rfl, p', by omega, a, hr⟩, rfl⟩

theorem rs_refl {r : Rd} {b : Bytes} {p : Nat} (h : At r b p) : RS b p r (b.drop p) := ⟨p, Nat.le_refl _, h, rfl⟩

theorem rs_adv {r' : Rd} {b : Bytes} {p l : Nat} (h : At r' b (p + l)) : RS b p r' ((b.drop p).drop l) :=
  ⟨p + l, by omega, h, by simp [List.drop_drop]⟩

/-- `reader.Skip(int(l))` -/
theorem skipR_sim {r : Rd} {b : Bytes} {p : Nat} (l : Nat) (h : At r b p) :
    RelG (RS b p) (skipR l r) (skipN l (b.drop p)) := by
  unfold skipR skipN
  by_cases hg : goInt l < 0
  · simp only [if_pos hg]; exact relG_err 0
  · simp only [if_neg hg, List.length_drop]
    have := At_le h
    by_cases hl : l > b.length - p
    · simp only [if_pos hl]
      rw [readerSpecsX.skip_err r b p l h (by omega)]; exact relG_err 0
    · obtain ⟨r', e, a⟩ := readerSpecsX.skip_ok r b p l h (by omega)
      simp only [if_neg hl, e, lift]
      exact relG_ok 0 (rs_adv a)

theorem readUintLoopR_sim (w : Nat) {r : Rd} {b : Bytes} {p : Nat} (l : Nat) (h : At r b p) :
    RelG (PV b p) (readUintLoopR w l r) (readUintLoop w l (b.drop p)) := by
  unfold readUintLoopR readUintLoop
  by_cases hg : goInt l < 0
  · simp only [if_pos hg]; exact relG_ok 0 ⟨rfl, rs_refl h⟩
  · simp only [if_neg hg, List.length_drop]
    have := At_le h
    by_cases hl : l > b.length - p
    · simp only [if_pos hl]
      rw [bytesLoopR_err _ l 0 r b p h (by omega), bind_err]; exact relG_err 0
    · obtain ⟨r', e, a⟩ := bytesLoopR_ok (· % 256 ^ w) l 0 r b p h (by omega)
      simp only [if_neg hl, e, bind_ok0]
      refine relG_ok 0 ⟨?_, rs_adv a⟩
      exact congrArg Val.nat (foldl_beDecMod w _ 0)

theorem readNatLoopR_sim {r : Rd} {b : Bytes} {p : Nat} (l : Nat) (h : At r b p) :
    RelG (PV b p) (readNatLoopR l r) (readNatLoop l (b.drop p)) := by
  unfold readNatLoopR readNatLoop
  by_cases hk : natLenOk l = true
  · simp only [if_pos hk]; exact readUintLoopR_sim 8 l h
  · simp only [if_neg hk]; exact relG_err 0

theorem fixed1_sim (o : Bool) : SimRead (readKindR (.fixedUint 1 o)) (readKind (.fixedUint 1 o)) := by
  intro l ic r b p h
  rw [readKindR.eq_def, readKind.eq_def]
  simp only
  by_cases hp : p < b.length
  · obtain ⟨r1, e1, a1, _⟩ := rdByte_ok h hp
    rw [drop_cons_getD b p hp, e1, bind_ok0]
    exact relG_ok 0 ⟨rfl, p + 1, by omega, a1, rfl⟩
  · have : b.drop p = [] := by simp; omega
    rw [this, rdByte_eof h (by omega), bind_err]; exact relG_err 0

theorem readWireR_sim {r : Rd} {b : Bytes} {p : Nat} (l : Nat) (h : At r b p) :
    RelG (PV b p) (readWireR l r) (readWire l (b.drop p)) := by
  unfold readWireR readWire
  by_cases hg : goInt l < 0
  · simp only [if_pos hg]; exact relG_err 0
  · simp only [if_neg hg, List.length_drop]
    have := At_le h
    by_cases hl : p + l ≤ b.length
    · obtain ⟨r', e, a⟩ := readerSpecs.readWire_ok r b p l h hl
      have h1 : ¬ (b.drop p = [] ∧ l > 0) := by
        intro ⟨h1, h2⟩
        have : p ≥ b.length := by simpa using h1
        omega
      have h2 : ¬ (l > b.length - p) := by omega
      simp only [if_neg h1, if_neg h2, e, lift, bind_ok0]
      exact relG_ok 0 ⟨rfl, rs_adv a⟩
    · rw [readerSpecs.readWire_err r b p l h (by omega)]
      simp only [lift, bind_err]
      by_cases h1 : b.drop p = [] ∧ l > 0
      · simp only [if_pos h1]; exact relG_err 0
      · have h2 : l > b.length - p := by omega
        simp only [if_neg h1, if_pos h2]; exact relG_err 0

theorem binary_sim : SimRead (readKindR .binary) (readKind .binary) := by
  intro l ic r b p h
  simp only [readKindR, readKind]
  rw [pos_eq h, length_eq h]
  have := At_le h
  by_cases hl : l > b.length - p
  · have : (!fits l (b.drop p)) = true := by simp [fits]; omega
    simp only [if_pos hl, this, if_true]; exact relG_err 0
  · have : (!fits l (b.drop p)) = false := by simp [fits]; omega
    simp only [if_neg hl, this, Bool.false_eq_true, if_false]
    refine relG_bind (relG_of_eq rfl) ?_
    intro _ _ _
    obtain ⟨r', e, a⟩ := readerSpecs.readFull_ok r b p l h (by omega)
    simp only [e, lift, bind_ok0]
    exact relG_ok 0 ⟨rfl, rs_adv a⟩

theorem string_sim (o : Bool) : SimRead (readKindR (.string o)) (readKind (.string o)) := by
  intro l ic r b p h
  simp only [readKindR, readKind]
  have := At_le h
  by_cases hg : goInt l < 0
  · simp only [if_pos hg]; exact relG_ok 0 ⟨rfl, rs_refl h⟩
  · simp only [if_neg hg, List.length_drop]
    by_cases hl : l > b.length - p
    · simp only [if_pos hl, readerSpecs.readFull_err r b p l h (by omega), pos_eq h, length_eq h]
      exact relG_err _
    · obtain ⟨r', e, a⟩ := readerSpecs.readFull_ok r b p l h (by omega)
      simp only [if_neg hl, e]
      exact relG_ok l ⟨rfl, rs_adv a⟩

/-- `reader.Delegate(int(l))`: in range the sub-reader is healthy over the `l` bytes and the parent
    has advanced; out of range (or negative) the sub-reader is empty and the parent stays -/
theorem delegateR_sim {r : Rd} {b : Bytes} {p : Nat} (l : Nat) (h : At r b p) :
    RelG (fun (x : Rd × Rd) (y : Bytes × Bytes) => At x.1 y.1 0 ∧ RS b p x.2 y.2)
      (delegateR l r) (.ok (delegate l (b.drop p)) 0) := by
  unfold delegateR delegate
  have := At_le h
  by_cases hg : goInt l < 0
  · simp only [hg, true_or, if_true]
    exact relG_ok 0 ⟨C03.at_newBufferReader [], rs_refl h⟩
  · simp only [hg, false_or, List.length_drop]
    by_cases hl : l > b.length - p
    · obtain ⟨r', e, a⟩ := readerSpecsX.delegate_oob r b p l h (by omega)
      simp only [if_pos hl, e, lift]
      exact relG_ok 0 ⟨C03.at_newBufferReader [], rs_refl a⟩
    · obtain ⟨sub, r', e, as, a⟩ := readerSpecs.delegate_ok r b p l h (by omega)
      simp only [if_neg hl, e, lift]
      exact relG_ok 0 ⟨as, rs_adv a⟩

/-! ## names: the Go loop over the main reader = `decComps` on the `l` value bytes -/

theorem decTL_take_none (s : Bytes) (k : Nat) (h : decTL s = none) : decTL (s.take k) = none := by
  cases s with
  | nil => simp [decTL]
  | cons x t =>
    cases k with
    | zero => simp [decTL]
    | succ k =>
      simp only [decTL] at h
      by_cases hx : x ≤ 0xfc
      · simp [hx] at h
      · simp only [if_neg hx] at h
        by_cases hl : t.length < tlExtra x
        · simp only [List.take_succ_cons, decTL, if_neg hx]
          rw [if_pos (by simp only [List.length_take]; omega)]
        · simp [hl] at h

theorem decTL_take_some (s : Bytes) (k v : Nat) (rest : Bytes) (h : decTL s = some (v, rest)) :
    decTL (s.take k) =
      if s.length - rest.length ≤ k then some (v, rest.take (k - (s.length - rest.length))) else none := by
  cases s with
  | nil => simp [decTL] at h
  | cons x t =>
    simp only [decTL] at h
    by_cases hx : x ≤ 0xfc
    · simp only [if_pos hx, Option.some.injEq, Prod.mk.injEq] at h
      obtain ⟨rfl, rfl⟩ := h
      have e : (x :: t).length - t.length = 1 := by simp only [List.length_cons]; omega
      rw [e]
      cases k with
      | zero => simp [decTL]
      | succ k => simp [decTL, hx]
    · simp only [if_neg hx] at h
      by_cases hl : t.length < tlExtra x
      · simp [hl] at h
      · simp only [if_neg hl, Option.some.injEq, Prod.mk.injEq] at h
        obtain ⟨rfl, rfl⟩ := h
        have e : (x :: t).length - (t.drop (tlExtra x)).length = tlExtra x + 1 := by
          simp only [List.length_cons, List.length_drop]; omega
        rw [e]
        cases k with
        | zero => simp [decTL]
        | succ k =>
          simp only [List.take_succ_cons, decTL, if_neg hx, List.length_take]
          by_cases hk : tlExtra x ≤ k
          · rw [if_neg (by omega), if_pos (by omega)]
            have e1 : (t.take k).take (tlExtra x) = t.take (tlExtra x) := by
              rw [List.take_take]; congr 1; omega
            have e2 : (t.take k).drop (tlExtra x) = (t.drop (tlExtra x)).take (k + 1 - (tlExtra x + 1)) := by
              rw [List.drop_take]; congr 1; omega
            rw [e1, e2]
          · rw [if_pos (by omega), if_neg (by omega)]

/-- the same in positions of the logical buffer: a TL number read at `q` that ends at `q1`, seen
    through the window `[q, e)` -/
theorem decTL_window {b : Bytes} {q q1 e v : Nat} (h : decTL (b.drop q) = some (v, b.drop q1))
    (hq1 : q < q1) (hb : q1 ≤ b.length) (hqe : q ≤ e) (_he : e ≤ b.length) :
    decTL ((b.drop q).take (e - q)) = if q1 ≤ e then some (v, (b.drop q1).take (e - q1)) else none := by
  rw [decTL_take_some _ _ _ _ h]
  simp only [List.length_drop]
  by_cases h1 : q1 ≤ e
  · rw [if_pos (by omega), if_pos h1]
    congr 3; omega
  · rw [if_neg (by omega), if_neg h1]

theorem nameLoopR_past {e n : Nat} {r : Rd} {b : Bytes} {q : Nat} (h : At r b q) (hq : q > e) :
    nameLoopR e n r = .err 0 := by
  have hp := pos_eq h
  cases n with
  | zero => simp only [nameLoopR, nameExit, hp, if_pos (show q ≠ e by omega)]
  | succ n => simp only [nameLoopR, nameExit, hp, if_pos (show q ≥ e by omega), if_pos (show q ≠ e by omega)]

/-- once the position is past `endName` the rest of the iteration cannot rescue the field -/
theorem name_tail3 {α : Type} {e n l2 : Nat} {r2 : Rd} {b : Bytes} {q2 : Nat} (h : At r2 b q2) (hq : q2 > e)
    (G : Bytes × Rd → Name × Rd → Res α) :
    ((lift (r2.readBuf l2)).bind fun p3 => (nameLoopR e n p3.2).bind (G p3)) = .err 0 := by
  by_cases hl : q2 + l2 ≤ b.length
  · obtain ⟨r3, e3, a3⟩ := readerSpecs.readBuf_ok r2 b q2 l2 h hl
    simp only [e3, lift, bind_ok0]
    rw [nameLoopR_past a3 (by omega), bind_err]
  · rw [readerSpecs.readBuf_err r2 b q2 l2 h (by omega)]
    simp only [lift, bind_err]

theorem name_tail2 {α : Type} {e n : Nat} {r1 : Rd} {b : Bytes} {q1 : Nat} (h : At r1 b q1) (hq : q1 > e)
    (G : Nat × Rd → Bytes × Rd → Name × Rd → Res α) :
    ((readTLNumR r1).bind fun p2 => (lift (p2.2.readBuf p2.1)).bind fun p3 =>
      (nameLoopR e n p3.2).bind (G p2 p3)) = .err 0 := by
  have h2 := readTLNumR_spec h
  cases hd : decTL (b.drop q1) with
  | none => rw [hd] at h2; simp only [] at h2; rw [h2, bind_err]
  | some x =>
    obtain ⟨l2, rest2⟩ := x
    rw [hd] at h2
    obtain ⟨r2, q2, e2, hlt, a2, _⟩ := h2
    rw [e2, bind_ok0]
    exact name_tail3 a2 (by omega) _

theorem take_window {b : Bytes} {q e : Nat} (_hqe : q ≤ e) (_he : e ≤ b.length) :
    ((b.drop q).take (e - q)).length = e - q := by
  simp only [List.length_take, List.length_drop]; omega

theorem nameLoopR_spec (b : Bytes) (e : Nat) (he : e ≤ b.length) :
    ∀ (f n : Nat) (r : Rd) (q : Nat), At r b q → q ≤ e → e - q < 2 * n → e - q < f →
      match decComps f ((b.drop q).take (e - q)) with
      | some cs => ∃ r', nameLoopR e n r = .ok (cs, r') 0 ∧ At r' b e
      | none => nameLoopR e n r = .err 0 := by
  intro f
  induction f with
  | zero => intro n r q _ _ _ hf; omega
  | succ f ih =>
    intro n r q h hqe hn hf
    cases n with
    | zero => omega
    | succ n =>
      have hp := pos_eq h
      by_cases hq : q = e
      · subst hq
        simp only [Nat.sub_self, List.take_zero, decComps, if_true]
        refine ⟨r, ?_, h⟩
        simp only [nameLoopR, nameExit, hp, ge_iff_le, Nat.le_refl, if_true, ne_eq, not_true_eq_false, if_false]
      · have hw : (b.drop q).take (e - q) ≠ [] := by
          intro hc
          have := take_window hqe he
          rw [hc] at this; simp at this; omega
        simp only [decComps, if_neg hw, nameLoopR, hp, if_neg (show ¬ q ≥ e by omega)]
        have h1 := readTLNumR_spec h
        cases hd1 : decTL (b.drop q) with
        | none =>
          rw [hd1] at h1; simp only [] at h1
          rw [decTL_take_none _ _ hd1, h1, bind_err]
        | some x1 =>
          obtain ⟨t, rest1⟩ := x1
          rw [hd1] at h1
          obtain ⟨r1, q1, e1, hlt1, a1, rfl⟩ := h1
          have hb1 := At_le a1
          rw [decTL_window hd1 hlt1 hb1 hqe he, e1, bind_ok0]
          by_cases hq1 : q1 ≤ e
          · simp only [if_pos hq1]
            have h2 := readTLNumR_spec a1
            cases hd2 : decTL (b.drop q1) with
            | none =>
              rw [hd2] at h2; simp only [] at h2
              rw [decTL_take_none _ _ hd2, h2, bind_err]
            | some x2 =>
              obtain ⟨l2, rest2⟩ := x2
              rw [hd2] at h2
              obtain ⟨r2, q2, e2, hlt2, a2, rfl⟩ := h2
              have hb2 := At_le a2
              rw [decTL_window hd2 hlt2 hb2 hq1 he, e2, bind_ok0]
              by_cases hq2 : q2 ≤ e
              · simp only [if_pos hq2, take_window hq2 he]
                by_cases hl2 : l2 > e - q2
                · simp only [if_pos hl2]
                  by_cases hl : q2 + l2 ≤ b.length
                  · obtain ⟨r3, e3, a3⟩ := readerSpecs.readBuf_ok r2 b q2 l2 a2 hl
                    simp only [e3, lift, bind_ok0]
                    rw [nameLoopR_past a3 (by omega), bind_err]
                  · rw [readerSpecs.readBuf_err r2 b q2 l2 a2 (by omega)]
                    simp only [lift, bind_err]
                · simp only [if_neg hl2]
                  obtain ⟨r3, e3, a3⟩ := readerSpecs.readBuf_ok r2 b q2 l2 a2 (by omega)
                  simp only [e3, lift, bind_ok0]
                  have ed : ((b.drop q2).take (e - q2)).drop l2 = (b.drop (q2 + l2)).take (e - (q2 + l2)) := by
                    rw [List.drop_take, List.drop_drop]; congr 1; omega
                  have et : ((b.drop q2).take (e - q2)).take l2 = (b.drop q2).take l2 := by
                    rw [List.take_take]; congr 1; omega
                  rw [ed, et]
                  have := ih n r3 (q2 + l2) a3 (by omega) (by omega) (by omega)
                  cases hdc : decComps f ((b.drop (q2 + l2)).take (e - (q2 + l2))) with
                  | none => rw [hdc] at this; simp only [] at this; rw [this, bind_err]
                  | some cs =>
                    rw [hdc] at this
                    obtain ⟨r', e4, a4⟩ := this
                    simp only [e4, bind_ok0]
                    exact ⟨r', rfl, a4⟩
              · simp only [if_neg hq2]
                exact name_tail3 a2 (by omega) _
          · simp only [if_neg hq1]
            exact name_tail2 a1 (by omega) _

theorem readNameR_sim {r : Rd} {b : Bytes} {p : Nat} (l : Nat) (h : At r b p) :
    RelG (PV b p) (readNameR l r) (readName l (b.drop p)) := by
  unfold readNameR readName
  rw [pos_eq h, length_eq h]
  have := At_le h
  by_cases hl : l > b.length - p
  · have : (!fits l (b.drop p)) = true := by simp [fits]; omega
    simp only [if_pos hl, this, if_true]; exact relG_err 0
  · have : (!fits l (b.drop p)) = false := by simp [fits]; omega
    simp only [if_neg hl, this, Bool.false_eq_true, if_false]
    refine relG_bind (relG_of_eq rfl) ?_
    intro _ _ _
    have hs := nameLoopR_spec b (p + l) (by omega) (l + 1) (l / 2 + 1) r p h (by omega) (by omega) (by omega)
    have e : p + l - p = l := by omega
    rw [e] at hs
    cases hd : decComps (l + 1) ((b.drop p).take l) with
    | none => rw [hd] at hs; simp only [] at hs; rw [hs, bind_err]; exact relG_err 0
    | some cs =>
      rw [hd] at hs
      obtain ⟨r', e1, a1⟩ := hs
      rw [e1, bind_ok0]
      exact relG_ok 0 ⟨rfl, rs_adv a1⟩

/-! ## compiled models: slots related pointwise -/

structure SlotSim (sr : SlotR) (s : Slot) : Prop where
  typ : sr.typ = s.typ
  hasTyp : sr.hasTyp = s.hasTyp
  required : sr.required = s.required
  multi : sr.multi = s.multi
  init : sr.init = s.init
  read : SimRead sr.read s.read

inductive SlotsSim : List SlotR → List Slot → Prop
  | nil : SlotsSim [] []
  | cons {sr : SlotR} {s : Slot} {srs : List SlotR} {ss : List Slot} :
      SlotSim sr s → SlotsSim srs ss → SlotsSim (sr :: srs) (s :: ss)

theorem headInitR_eq {srs : List SlotR} {ss : List Slot} (h : SlotsSim srs ss) : headInitR srs = headInit ss := by
  cases h with
  | nil => rfl
  | cons h1 _ => exact h1.init

theorem initAccR_eq {srs : List SlotR} {ss : List Slot} (h : SlotsSim srs ss) : initAccR srs = initAcc ss := by
  induction h with
  | nil => rfl
  | cons h1 _ ih => simp only [initAccR, initAcc, h1.init, ih]

theorem knownTypR_eq {srs : List SlotR} {ss : List Slot} (h : SlotsSim srs ss) (typ : Nat) :
    knownTypR srs typ = knownTyp ss typ := by
  unfold knownTypR knownTyp
  induction h with
  | nil => rfl
  | cons h1 _ ih => simp only [List.any_cons, h1.hasTyp, h1.typ, ih]

theorem finishUR_eq {srs : List SlotR} {ss : List Slot} (h : SlotsSim srs ss) :
    ∀ acc, finishUR srs acc = finishU ss acc := by
  induction h with
  | nil => intro acc; rfl
  | @cons sr s _ _ h1 _ ih =>
    intro acc
    simp only [finishUR, finishU, h1.required, ih]
    cases acc.head <;> cases s.required <;> rfl

theorem finishOR_eq {srs : List SlotR} {ss : List Slot} (h : SlotsSim srs ss) :
    ∀ cur, finishOR srs cur = finishO ss cur := by
  induction h with
  | nil => intro cur; rfl
  | cons h1 h2 ih => intro cur; simp only [finishOR, finishO, h1.required, ih, headInitR_eq h2]

/-! ### unordered loop -/

def PO (b : Bytes) (p : Nat) : Option (Vals × Rd) → Option (Vals × Bytes) → Prop
  | none, none => True
  | some x, some y => PV b p x y
  | _, _ => False

theorem stepUR_sim {srs : List SlotR} {ss : List Slot} (hs : SlotsSim srs ss) (typ l : Nat) (ic : Bool)
    {r : Rd} {b : Bytes} {p : Nat} (h : At r b p) :
    ∀ acc, RelG (PO b p) (stepUR srs typ l ic r acc) (stepU ss typ l ic (b.drop p) acc) := by
  induction hs with
  | nil => intro acc; exact relG_ok 0 trivial
  | cons h1 _ ih =>
    intro acc
    simp only [stepUR, stepU, h1.hasTyp, h1.typ, h1.multi]
    split
    · refine relG_bind (h1.read l ic r b p h) ?_
      intro x y hxy
      obtain ⟨v, r'⟩ := x
      obtain ⟨v', rest'⟩ := y
      obtain ⟨hv, hrs⟩ := hxy
      have hv : v = v' := hv
      subst hv
      exact relG_ok 0 ⟨rfl, hrs⟩
    · refine relG_bind (ih acc.tail) ?_
      intro o o' ho
      cases o with
      | none =>
        cases o' with
        | none => exact relG_ok 0 trivial
        | some y => exact ho.elim
      | some x =>
        cases o' with
        | none => exact ho.elim
        | some y =>
          obtain ⟨v, r'⟩ := x
          obtain ⟨v', rest'⟩ := y
          obtain ⟨hv, hrs⟩ := ho
          have hv : v = v' := hv
          subst hv
          exact relG_ok 0 ⟨rfl, hrs⟩

theorem loopUR_sim {srs : List SlotR} {ss : List Slot} (hs : SlotsSim srs ss) (ic : Bool) (b : Bytes) :
    ∀ (f : Nat) (r : Rd) (p : Nat) (acc : Vals), At r b p →
      loopUR srs ic f r acc = loopU ss ic f (b.drop p) acc := by
  intro f
  induction f with
  | zero => intro r p acc _; rfl
  | succ f ih =>
    intro r p acc h
    simp only [loopUR, loopU, pos_eq h, length_eq h]
    by_cases hp : p ≥ b.length
    · have : b.drop p = [] := by simp; omega
      rw [if_pos hp, if_pos this]; exact finishUR_eq hs acc
    · have : ¬ b.drop p = [] := by simp; omega
      rw [if_neg hp, if_neg this]
      have h1 := readTLNumR_spec h
      cases hd1 : decTL (b.drop p) with
      | none => rw [hd1] at h1; simp only [] at h1; rw [h1, bind_err]
      | some x1 =>
        obtain ⟨typ, rest1⟩ := x1
        rw [hd1] at h1
        obtain ⟨r1, p1, e1, _, a1, rfl⟩ := h1
        simp only [e1, bind_ok0]
        have h2 := readTLNumR_spec a1
        cases hd2 : decTL (b.drop p1) with
        | none => rw [hd2] at h2; simp only [] at h2; rw [h2, bind_err]
        | some x2 =>
          obtain ⟨l, rest2⟩ := x2
          rw [hd2] at h2
          obtain ⟨r2, p2, e2, _, a2, rfl⟩ := h2
          simp only [e2, bind_ok0]
          apply relG_eq
          refine relG_bind (stepUR_sim hs typ l ic a2 acc) ?_
          intro o o' ho
          cases o with
          | none =>
            cases o' with
            | some y => exact ho.elim
            | none =>
              simp only
              split
              · exact relG_err 0
              · refine relG_bind (skipR_sim l a2) ?_
                intro r3 rest3 h3
                obtain ⟨p3, _, a3, rfl⟩ := h3
                exact relG_of_eq (ih r3 p3 acc a3)
          | some x =>
            cases o' with
            | none => exact ho.elim
            | some y =>
              obtain ⟨acc', r3⟩ := x
              obtain ⟨acc'', rest3⟩ := y
              obtain ⟨hv, p3, _, a3, hr⟩ := ho
              have hv : acc' = acc'' := hv
              have hr : rest3 = b.drop p3 := hr
              subst hv hr
              exact relG_of_eq (ih r3 p3 acc' a3)

/-! ### ordered loop -/

def POo (b : Bytes) (p : Nat) : StepOR → StepO → Prop
  | .at p1 rem1 c1 r1, .at p2 rem2 c2 rest2 => p1 = p2 ∧ SlotsSim rem1 rem2 ∧ c1 = c2 ∧ RS b p r1 rest2
  | .exhausted p1, .exhausted p2 => p1 = p2
  | _, _ => False

theorem stepOR_sim {srs : List SlotR} {ss : List Slot} (hs : SlotsSim srs ss) (typ l : Nat) (ic : Bool)
    {r : Rd} {b : Bytes} {p : Nat} (h : At r b p) :
    ∀ cur, RelG (POo b p) (stepOR srs cur typ l ic r) (stepO ss cur typ l ic (b.drop p)) := by
  induction hs with
  | nil => intro cur; exact relG_ok 0 rfl
  | @cons sr s srs' ss' h1 h2 ih =>
    intro cur
    simp only [stepOR, stepO, h1.hasTyp, h1.typ, h1.multi, h1.required, headInitR_eq h2]
    split
    · refine relG_bind (h1.read l ic r b p h) ?_
      intro x y hxy
      obtain ⟨v, r'⟩ := x
      obtain ⟨v', rest'⟩ := y
      obtain ⟨hv, hrs⟩ := hxy
      have hv : v = v' := hv
      subst hv
      simp only
      split
      · exact relG_ok 0 ⟨rfl, SlotsSim.cons h1 h2, rfl, hrs⟩
      · exact relG_ok 0 ⟨rfl, h2, rfl, hrs⟩
    · split
      · exact relG_err 0
      · refine relG_bind (ih (headInit ss')) ?_
        intro o o' ho
        cases o with
        | «at» q1 rem1 c1 r1 =>
          cases o' with
          | «at» q2 rem2 c2 rest2 =>
            obtain ⟨rfl, hrem, rfl, hrs⟩ := ho
            exact relG_ok 0 ⟨rfl, hrem, rfl, hrs⟩
          | exhausted q2 => exact ho.elim
        | exhausted q1 =>
          cases o' with
          | «at» q2 rem2 c2 rest2 => exact ho.elim
          | exhausted q2 =>
            have ho : q1 = q2 := ho
            subst ho
            exact relG_ok 0 rfl

def StSim : Option (List SlotR × Val) → Option (List Slot × Val) → Prop
  | none, none => True
  | some x, some y => SlotsSim x.1 y.1 ∧ x.2 = y.2
  | _, _ => False

theorem loopOR_sim {srs : List SlotR} {ss : List Slot} (hs : SlotsSim srs ss) (ic : Bool) (b : Bytes) :
    ∀ (f : Nat) (st : Option (List SlotR × Val)) (st' : Option (List Slot × Val)) (r : Rd) (p : Nat),
      StSim st st' → At r b p → loopOR srs ic f st r = loopO ss ic f st' (b.drop p) := by
  intro f
  induction f with
  | zero => intro st st' r p _ _; rfl
  | succ f ih =>
    intro st st' r p hst h
    simp only [loopOR, loopO, pos_eq h, length_eq h]
    by_cases hp : p ≥ b.length
    · have : b.drop p = [] := by simp; omega
      rw [if_pos hp, if_pos this]
      cases st with
      | none =>
        cases st' with
        | none => rfl
        | some y => exact hst.elim
      | some x =>
        cases st' with
        | none => exact hst.elim
        | some y =>
          obtain ⟨rem, cur⟩ := x
          obtain ⟨rem', cur'⟩ := y
          obtain ⟨h1, h2⟩ := hst
          have h2 : cur = cur' := h2
          subst h2
          exact finishOR_eq h1 cur
    · have : ¬ b.drop p = [] := by simp; omega
      rw [if_neg hp, if_neg this]
      have h1 := readTLNumR_spec h
      cases hd1 : decTL (b.drop p) with
      | none => rw [hd1] at h1; simp only [] at h1; rw [h1, bind_err]
      | some x1 =>
        obtain ⟨typ, rest1⟩ := x1
        rw [hd1] at h1
        obtain ⟨r1, p1, e1, _, a1, rfl⟩ := h1
        simp only [e1, bind_ok0]
        have h2 := readTLNumR_spec a1
        cases hd2 : decTL (b.drop p1) with
        | none => rw [hd2] at h2; simp only [] at h2; rw [h2, bind_err]
        | some x2 =>
          obtain ⟨l, rest2⟩ := x2
          rw [hd2] at h2
          obtain ⟨r2, p2, e2, _, a2, rfl⟩ := h2
          simp only [e2, bind_ok0]
          cases st with
          | none =>
            cases st' with
            | none => exact ih none none r2 p2 trivial a2
            | some y => exact hst.elim
          | some x =>
            cases st' with
            | none => exact hst.elim
            | some y =>
              obtain ⟨rem, cur⟩ := x
              obtain ⟨rem', cur'⟩ := y
              obtain ⟨hrem, hc⟩ := hst
              have hc : cur = cur' := hc
              have hrem : SlotsSim rem rem' := hrem
              subst hc
              simp only [knownTypR_eq hs]
              split
              · apply relG_eq
                refine relG_bind (stepOR_sim hrem typ l ic a2 cur) ?_
                intro o o' ho
                cases o with
                | «at» q1 rem1 c1 r3 =>
                  cases o' with
                  | exhausted q2 => exact ho.elim
                  | «at» q2 rem2 c2 rest3 =>
                    obtain ⟨rfl, hrem1, rfl, p3, _, a3, rfl⟩ := ho
                    simp only
                    rw [ih (some (rem1, c1)) (some (rem2, c1)) r3 p3 ⟨hrem1, rfl⟩ a3]
                    exact relG_of_eq rfl
                | exhausted q1 =>
                  cases o' with
                  | «at» q2 rem2 c2 rest3 => exact ho.elim
                  | exhausted q2 =>
                    have ho : q1 = q2 := ho
                    subst ho
                    simp only
                    rw [ih none none r2 p2 trivial a2]
                    exact relG_of_eq rfl
              · split
                · rfl
                · apply relG_eq
                  refine relG_bind (skipR_sim l a2) ?_
                  intro r3 rest3 h3
                  obtain ⟨p3, _, a3, rfl⟩ := h3
                  exact relG_of_eq (ih (some (rem, cur)) (some (rem', cur)) r3 p3 ⟨hrem, rfl⟩ a3)

theorem runSlotsR_sim {srs : List SlotR} {ss : List Slot} (hs : SlotsSim srs ss) (ord ic : Bool)
    {r : Rd} {b : Bytes} {p : Nat} (h : At r b p) :
    runSlotsR ord srs ic r = runSlots ord ss ic (b.drop p) := by
  unfold runSlotsR runSlots
  have hf : r.length - r.pos + 1 = (b.drop p).length + 1 := by
    rw [pos_eq h, length_eq h, List.length_drop]
  rw [hf]
  cases ord with
  | true =>
    simp only [if_true]
    exact loopOR_sim hs ic b _ _ _ r p ⟨hs, headInitR_eq hs⟩ h
  | false =>
    simp only [Bool.false_eq_true, if_false, initAccR_eq hs]
    exact loopUR_sim hs ic b _ r p _ h

/-! ### map fields -/

theorem readMapR_sim {rkR rvR : Nat → Bool → Rd → Res (Val × Rd)} {rk rv : Nat → Bool → Bytes → Res (Val × Bytes)}
    (hk : SimRead rkR rk) (hv : SimRead rvR rv) (vt : Nat) : SimRead (readMapR rkR rvR vt) (readMap rk rv vt) := by
  intro l ic r b p h
  unfold readMapR readMap
  refine relG_bind (hk l ic r b p h) ?_
  intro x y hxy
  obtain ⟨k, r0⟩ := x
  obtain ⟨k', rest0⟩ := y
  obtain ⟨hkv, p0, hp0, a0, hr0⟩ := hxy
  have hkv : k = k' := hkv
  have hr0 : rest0 = b.drop p0 := hr0
  subst hkv hr0
  simp only
  have h1 := readTLNumR_spec a0
  cases hd1 : decTL (b.drop p0) with
  | none => rw [hd1] at h1; simp only [] at h1; rw [h1, bind_err]; exact relG_err 0
  | some x1 =>
    obtain ⟨typ, rest1⟩ := x1
    rw [hd1] at h1
    obtain ⟨r1, p1, e1, _, a1, rfl⟩ := h1
    simp only [e1, bind_ok0]
    have h2 := readTLNumR_spec a1
    cases hd2 : decTL (b.drop p1) with
    | none => rw [hd2] at h2; simp only [] at h2; rw [h2, bind_err]; exact relG_err 0
    | some x2 =>
      obtain ⟨l2, rest2⟩ := x2
      rw [hd2] at h2
      obtain ⟨r2, p2, e2, _, a2, rfl⟩ := h2
      simp only [e2, bind_ok0]
      split
      · exact relG_err 0
      · refine relG_bind (hv l2 ic r2 b p2 a2) ?_
        intro x y hxy
        obtain ⟨v, r3⟩ := x
        obtain ⟨v', rest3⟩ := y
        obtain ⟨hvv, hrs⟩ := hxy
        have hvv : v = v' := hvv
        subst hvv
        exact relG_ok 0 ⟨rfl, hrs.mono (by omega)⟩

/-! ## every kind, every field list -/

mutual
theorem readKindR_sim : ∀ k, SimRead (readKindR k) (readKind k)
  | .natural _ => fun l ic r b p h => by
      simp only [readKindR, readKind]; exact readNatLoopR_sim l h
  | .time _ => fun l ic r b p h => by
      simp only [readKindR, readKind]
      refine relG_bind (readNatLoopR_sim l h) ?_
      intro x y hxy
      obtain ⟨v, r'⟩ := x
      obtain ⟨v', rest'⟩ := y
      obtain ⟨hv, hrs⟩ := hxy
      have hv : v = v' := hv
      subst hv
      cases v <;> exact relG_ok 0 ⟨rfl, hrs⟩
  | .fixedUint w o => fun l ic r b p h => by
      by_cases hw : w = 1
      · subst hw; exact fixed1_sim o l ic r b p h
      · rw [readKindR.eq_def, readKind.eq_def]
        simp only
        exact readUintLoopR_sim w l h
  | .bool => fun l ic r b p h => by
      simp only [readKindR, readKind]; exact relG_ok 0 ⟨rfl, rs_refl h⟩
  | .binary => binary_sim
  | .string o => string_sim o
  | .wire => fun l ic r b p h => by
      simp only [readKindR, readKind]; exact readWireR_sim l h
  | .signature => fun l ic r b p h => by
      simp only [readKindR, readKind]; exact readWireR_sim l h
  | .name => fun l ic r b p h => by
      simp only [readKindR, readKind]; exact readNameR_sim l h
  | .interestName => fun l ic r b p h => by
      simp only [readKindR, readKind]; exact readNameR_sim l h
  | .struct ord fs => fun l ic r b p h => by
      simp only [readKindR, readKind]
      have hd := delegateR_sim l h
      cases hdr : delegateR l r with
      | ok x a =>
        rw [hdr] at hd
        obtain ⟨sub, r'⟩ := x
        obtain ⟨⟨hsub, hrs⟩, ha⟩ := hd
        subst ha
        rw [bind_ok0]
        simp only
        rw [runSlotsR_sim (compileR_sim fs) ord ic hsub, List.drop_zero]
        refine relG_bind (relG_of_eq rfl) ?_
        intro vs vs' hvs
        subst hvs
        exact relG_ok 0 ⟨rfl, hrs⟩
      | err a => rw [hdr] at hd; exact hd.elim
      | panic => rw [hdr] at hd; exact hd.elim
      | fuel => rw [hdr] at hd; exact hd.elim
  | .seq sub => fun l ic r b p h => by
      simp only [readKindR, readKind]; exact readKindR_sim sub l ic r b p h
  | .map kk vt vk => fun l ic r b p h => by
      simp only [readKindR, readKind]
      exact readMapR_sim (readKindR_sim kk) (readKindR_sim vk) vt l ic r b p h
  | .marker => fun l ic r b p h => by
      simp only [readKindR, readKind]; exact relG_ok 0 ⟨rfl, rs_refl h⟩
theorem compileR_sim : ∀ fs, SlotsSim (compileR fs) (compile fs)
  | .nil => by simp only [compileR, compile]; exact SlotsSim.nil
  | .cons t k fs => by
      simp only [compileR, compile]
      exact SlotsSim.cons ⟨rfl, rfl, rfl, rfl, rfl, readKindR_sim k⟩ (compileR_sim fs)
end

/-- a compiled schema over a healthy reader = the compiled schema over the remaining bytes -/
theorem parseR_sim (s : Schema) (ic : Bool) {r : Rd} {b : Bytes} {p : Nat} (h : At r b p) :
    parseR s ic r = parse s ic (b.drop p) :=
  runSlotsR_sim (compileR_sim s.fields) s.ordered ic h

end Ndn.C04.Seg
