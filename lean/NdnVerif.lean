import NdnVerif.Base.Num
