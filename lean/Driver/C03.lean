import NdnVerif.C03.DriverLib
open Ndn Ndn.Driver Ndn.C03 Ndn.C03.Text Ndn.C03.Drv

structure St where
  last : Option Mk := none
  mkExpected : Option String := none   -- the model's prediction for the make op (compared at `cmp`)
  nbName : Option String := none     -- op argument of the last nb
  cbComp : Option String := none     -- op argument of the last cb
  blob : Option Bytes := none        -- the implementation's output of the last nb / cb
  held : Option Mk := none
  mref : Option (Nat × String) := none   -- (bit, implementation's contiguous decode) of the last `mrd <bit> c`

def specRead (mk : Mk) (cuts : String) (got : String) (what : String) : List SpecFail :=
  let got' := if mk.signed then got else stripCov got
  (if isCrash got then [⟨"no-panic", what, s!"decoding crashed: {(tk got 160)}"⟩] else []) ++
  (match mk.expectText with
   | some e => if !isCrash got ∧ got' ≠ e then
       [⟨"roundtrip", what ++ "-" ++ String.singleton mk.kind ++ "-" ++ sigBase mk.signer,
         s!"decode(encode) differs from the packet that was built (cuts {cuts}): want {(tk e 300)} got {(tk got' 300)}"⟩] else []
   | none => []) ++
  (match mk.refText with
   | some ref => if cuts ≠ "c" ∧ !isCrash got ∧ got ≠ ref then
       [⟨"segmentation", what, s!"segmented decode (cuts {cuts}) differs from contiguous decode"⟩] else []
   | none => [])

/-- model of harness allCuts -/
def modelAllCuts (kind : Char) (w : Bytes) (two : Bool) : String :=
  let ref := modelRead kind w "c"
  let n := w.length
  if !two then
    if n > 600 then "skip-big" else
    match (List.range n).find? (fun k => k ≥ 1 && modelRead kind w (toString k) != ref) with
    | some k => s!"cut={k} {modelRead kind w (toString k)}"
    | none => "all " ++ ref
  else
    if n > 200 then "skip-big" else
    let pairs := (List.range n).flatMap fun a => (List.range n).filterMap fun c => if a ≥ 1 ∧ c > a then some (a, c) else none
    match pairs.find? (fun (a, c) => modelRead kind w s!"{a},{c}" != ref) with
    | some (a, c) => s!"cut={a},{c} {modelRead kind w s!"{a},{c}"}"
    | none => "all " ++ ref

def stepC03 (st : St) (op : String) (got : String) : StepResult St :=
  let f := op.splitOn " "
  match f with
  | ["new"] => { st := {}, expected := some "ok" }
  | "mkd" :: _ =>
    let r := runMkd f got
    { st := { st with last := r.built, mkExpected := some r.expected }, expected := none, spec := r.spec, cov := r.cov,
      nontrivial := (r.built.map (·.nontrivial)).getD false }
  | "mki" :: _ =>
    let r := runMki f got
    { st := { st with last := r.built, mkExpected := some r.expected }, expected := none, spec := r.spec, cov := r.cov,
      nontrivial := (r.built.map (·.nontrivial)).getD false }
  | ["hold"] =>
    match st.last with
    | none => { st := st, expected := some "skip" }
    | some mk => { st := { st with held := some mk }, expected := some "ok", cov := ["hold"] }
  | ["rdheld"] =>
    match st.held with
    | none => { st := st, expected := some "skip" }
    | some mk =>
      let body := (got.splitOn " ").dropLast
      let g := " ".intercalate body
      let g' := if mk.signed then g else stripCov g
      { st := st, expected := some (modelRead mk.kind mk.w "c" ++ " same"), cov := ["rdheld"],
        spec :=
          (if isCrash got then [⟨"no-panic", "rdheld", tk got 160⟩] else []) ++
          (if (got.splitOn " ").getLast? == some "changed" then
            [⟨"stable", String.singleton mk.kind ++ "-" ++ sigBase mk.signer,
              "the bytes of a packet changed after the same signer instance built another packet"⟩] else []) ++
          (match mk.expectText with
           | some e => if !isCrash got ∧ g' ≠ e then
               [⟨"roundtrip", "held-" ++ String.singleton mk.kind ++ "-" ++ sigBase mk.signer,
                 s!"a packet decoded again after the same signer instance built another packet no longer yields what was built: want {tk e 200} got {tk g' 200}"⟩] else []
           | none => []) }
  | ["tz", _] => { st := st, expected := some "ok", cov := ["tz"] }
  | ["cmp"] =>
    match st.mkExpected with
    | none => { st := st, expected := some "skip" }
    | some e => { st := st, expected := some e }
  | ["rd", cuts] =>
    match st.last with
    | none => { st := st, expected := some "skip" }
    | some mk =>
      let mk' := if cuts == "c" ∧ !isCrash got then { mk with refText := some got } else mk
      { st := { st with last := some mk' }, expected := some (modelRead mk.kind mk.w cuts mk.segLens),
        spec := specRead mk cuts got (if cuts == "c" then "rd-contiguous" else "rd-segmented"),
        cov := [if cuts == "c" then "rd-contiguous" else if cuts == "w" then "rd-wire1" else if cuts == "own" then "rd-own" else "rd-segmented"] }
  | ["mrd", b, cuts] =>
    match st.last, b.toNat? with
    | some mk, some bit =>
      if bit ≥ 8 * mk.w.length then { st := st, expected := some "skip" } else
      let w := mk.w.set (bit / 8) (Nat.xor (mk.w.getD (bit / 8) 0) (2 ^ (7 - bit % 8)))
      let st' := if cuts == "c" then { st with mref := some (bit, got) } else st
      { st := st', expected := some (modelRead 'P' w cuts mk.segLens), cov := ["mrd"],
        spec := (if isCrash got then [⟨"no-panic-malformed", "mrd", s!"decoding bytes with bit {bit} flipped crashed (cuts {cuts}): {tk got 120}"⟩] else []) ++
                (match st.mref with
                 | some (b0, ref) => if cuts ≠ "c" ∧ b0 == bit ∧ !isCrash got ∧ got ≠ ref then
                     [⟨"segmentation", "malformed", s!"bit {bit} flipped: segmented decode (cuts {cuts}) differs from contiguous decode"⟩] else []
                 | none => []) }
    | none, _ => { st := st, expected := some "skip" }
    | _, none => { st := st, expected := some "bad-op" }
  | ["mrdall", b] =>
    match st.last, b.toNat? with
    | some mk, some bit =>
      if bit ≥ 8 * mk.w.length then { st := st, expected := some "skip" } else
      let w := mk.w.set (bit / 8) (Nat.xor (mk.w.getD (bit / 8) 0) (2 ^ (7 - bit % 8)))
      { st := st, expected := some (modelAllCuts 'P' w false), cov := ["mrdall"],
        spec := if got.startsWith "cut=" then
                  [⟨"segmentation", "malformed", s!"bit {bit} flipped: a segmented decode differs from the contiguous decode: {tk got 160}"⟩]
                else [] }
    | none, _ => { st := st, expected := some "skip" }
    | _, none => { st := st, expected := some "bad-op" }
  | ["rp", cuts] =>
    match st.last with
    | none => { st := st, expected := some "skip" }
    | some mk =>
      { st := st, expected := some (modelRead 'P' mk.w cuts mk.segLens), spec := specRead mk cuts got "readpacket", cov := ["readpacket"] }
  | [rdall] =>
    if rdall == "rdall" || rdall == "rdall2" then
      match st.last with
      | none => { st := st, expected := some "skip" }
      | some mk =>
        let two := rdall == "rdall2"
        let spec : List SpecFail :=
          if got.startsWith "cut=" then
            let rest := " ".intercalate ((got.splitOn " ").drop 1)
            (if isCrash rest then [⟨"no-panic", "rd-segmented", s!"segmented decode crashed: {(tk got 200)}"⟩]
             else [⟨"segmentation", "rd-segmented", s!"a segmented decode differs from the contiguous decode: {(tk got 200)}"⟩])
          else match mk.expectText with
            | some e =>
              let g := (got.drop 4).toString
              let g := if mk.signed then g else stripCov g
              if got.startsWith "all " ∧ g ≠ e then [⟨"roundtrip", "rdall", "decode(encode) differs from the packet that was built"⟩] else []
            | none => []
        { st := st, expected := some (modelAllCuts mk.kind mk.w two), spec := spec, cov := [rdall] }
    else if rdall == "nfb" then
      match st.blob with
      | none => { st := st, expected := some "skip" }
      | some b =>
        let m := match nameFromBytes b with | .ok n => Name.toText n | r => resText (r.bind fun _ => .ok "")
        { st := st, expected := some m, cov := ["nfb"],
          spec := (if isCrash got then [⟨"no-panic", "nfb", (tk got 160)⟩] else []) ++
                  (match st.nbName with
                   | some n => if !isCrash got ∧ got ≠ n then [⟨"name-codec", "nfb", s!"NameFromBytes(Name.Bytes(n)) = {(tk got 120)}, want {(tk n 120)}"⟩] else []
                   | none => []) }
    else if rdall == "cfb" then
      match st.blob with
      | none => { st := st, expected := some "skip" }
      | some b =>
        let m := match componentFromBytes b with | .ok c => c.toText | r => resText (r.bind fun _ => .ok "")
        { st := st, expected := some m, cov := ["cfb"],
          spec := (if isCrash got then [⟨"no-panic", "cfb", (tk got 160)⟩] else []) ++
                  (match st.cbComp with
                   | some c => if !isCrash got ∧ got ≠ c then [⟨"name-codec", "cfb", s!"ComponentFromBytes(c.Bytes()) = {(tk got 120)}, want {(tk c 120)}"⟩] else []
                   | none => []) }
    else { st := st, expected := some "bad-op" }
  | ["rx", kind, hex, cuts] =>
    match bytesOfHex hex with
    | some b => { st := st, expected := some (modelRead (kind.toList.headD 'P') b cuts), cov := ["rx"],
                  spec := if isCrash got then [⟨"no-panic", "rx", (tk got 160)⟩] else [] }
    | none => { st := st, expected := some "bad-op" }
  | ["nb", n] =>
    match Name.ofText n with
    | some name =>
      let implB := bytesOfHex got
      -- spec: same bytes as the NDN format prescribes, and the same bytes the packet encoder wrote
      let inPacket : Option Bytes := match st.last with
        | some mk => if mk.kind == 'D' then
            (Spec.elements mk.w).bind fun (_, ts) => (Spec.findT ts 7).map fun t => (mk.w.drop t.off).take (t.hdr + t.val.length)
          else none
        | none => none
      let spec : List SpecFail :=
        (if isCrash got then [⟨"no-panic", "nb", (tk got 160)⟩] else []) ++
        (if !isCrash got ∧ implB ≠ some (Spec.encName name) then [⟨"name-codec", "nb", "Name.Bytes differs from the NDN name encoding"⟩] else []) ++
        (match inPacket with
         | some pb => if !isCrash got ∧ implB ≠ some pb then [⟨"name-codec", "nb-vs-packet", "Name.Bytes differs from the Name TLV the packet encoder wrote for the same name"⟩] else []
         | none => [])
      { st := { st with nbName := some n, blob := implB, cbComp := none }, expected := some (hexOrDash (nameBytes name)), spec := spec,
        cov := ["nb"] ++ (if nameLen name ≥ 253 then ["name-ge253"] else []) }
    | none => { st := st, expected := some "bad-op" }
  | ["cb", _k, c] =>
    match Component.ofText c with
    | some comp =>
      let implB := bytesOfHex got
      let spec : List SpecFail :=
        (if isCrash got then [⟨"no-panic", "cb", (tk got 160)⟩] else []) ++
        (if !isCrash got ∧ implB ≠ some (Spec.encComp comp) then [⟨"name-codec", "cb", "Component.Bytes differs from the NDN component encoding"⟩] else [])
      { st := { st with cbComp := some c, blob := implB, nbName := none }, expected := some (hexOrDash (encComp comp)), spec := spec,
        cov := ["cb"] ++ (if comp.val.length ≥ 253 then ["comp-ge253"] else []) }
    | none => { st := st, expected := some "bad-op" }
  | _ => { st := st, expected := some "bad-op" }

def main : IO Unit := Ndn.Driver.run ({} : St) stepC03
