import NdnVerif.Driver.Common
import NdnVerif.C17.Print
open Ndn Ndn.Driver Ndn.C17

/-- driver state: the model state, and — kept apart — what the specification side remembers of the
    IMPLEMENTATION's own outputs (its previous table dump) -/
structure DSt where
  st : St := init false
  lh : Bool := false
  prev : Option Tables := none

def crashFail (op got : String) : List SpecFail :=
  if isCrash got || got.startsWith "HANG" then [⟨"live", (op.splitOn " ").head!, s!"the daemon died or hung: {got}"⟩] else []

/-- a faces/query dataset is judged against its filter -/
def queryOutcome (p : Params) (o : Outcome) : Outcome :=
  match o, p with
  | .dataset pf "faces/query" v (.faces fs), .filter q => .dataset pf "faces/query" v (.query q fs)
  | o, _ => o

def stepC17 (s : DSt) (op : String) (got : String) : StepResult DSt :=
  let f := op.splitOn " "
  let gtoks := got.splitOn " "
  match f with
  | ["new", lh, _fib] =>
    let lhb := lh == "lh=1"
    let st := init lhb
    { st := { st := st, lh := lhb, prev := parseTables gtoks }, expected := some ("ok " ++ tablesText (tablesOf st)),
      spec := crashFail op got, cov := [if lhb then "new-localhop-on" else "new-localhop-off"] }
  | "cmd" :: _ =>
    match parseCmd f with
    | none => { st := s, expected := some "bad-op" }
    | some c =>
      let gotTables := parseTables gtoks
      let d := (tokenVal gtoks "d").bind (·.toNat?)
      let routed := d.getD 0 > 0
      let ext : Ext := match gotTables with
        | some t => ⟨t.fib⟩
        | none => ⟨s.st.fib⟩
      let guard := fwGuard s.st c.face c.name
      let (st', r) := sysStep s.st ext routed c.face c.name c.params
      let dTxt := if guard then toString (d.getD 0) else "0"
      let unmodelled := match verbOf c.name, c.params with
        | some .faceCreate, .args a => (match a.uri with | some u => (uriClass u).isNone | none => false)
        | _, _ => false
      let expected := s!"d={dTxt} r={respText r} {tablesText (tablesOf st')}"
      -- specification on the implementation's own outputs
      let spec : List SpecFail :=
        crashFail op got ++
        (match s.prev, gotTables, ((tokenVal gtoks "r").bind parseOutcome).map (queryOutcome c.params) with
         | some before, some after, some out =>
           let o : Obs := { lh := s.lh, face := c.face, name := c.name, params := c.params, routed := routed,
                            before := before, out := out, after := after }
           ((check o).map fun cl => ⟨cl, c.key, s!"clause {cl} violated by the implementation: {op} => {got.take 300}"⟩) ++
           -- "each status dataset lists exactly the current table contents" presupposes an answer: an authorised,
           -- delivered request for one of the plain table listings (what the model answers with a dataset) that gets
           -- NO answer violates it. Driver-level clause (the model's answer is the witness); big tables are the case
           (match out, r with
            | .none, .dataset _ _ _ _ =>
              if o.auth && routed && (faceGet after.faces c.face).isSome && c.name.length == 4 && lhPrefix.isPrefixOf c.name then
                [⟨"dataset", "unanswered-" ++ c.key ++ (if after.rib.length + after.fib.length > 250 then "-large" else ""),
                  s!"an authorised request for a status dataset got no answer ({after.rib.length} RIB entries, {after.fib.length} FIB entries): {op}"⟩]
              else []
            | _, _ => []) ++
           -- an accepted RIB command / face destruction is in force in the FIB (C06's relation, checked here
           -- because the command's answer promises it): entries at or below the prefix are re-flattened
           (match out, verbOf c.name, c.params with
            | .ctrl 200 _, some .ribRegister, .args a | .ctrl 200 _, some .ribUnregister, .args a =>
              if fibFollowsRib after.rib after.fib (a.name.getD []) then []
              else [⟨"fib-follows-rib", c.key, s!"after the accepted command the FIB below its prefix is not the flattening of the RIB: {op} => {got.take 300}"⟩]
            | .ctrl 200 _, some .faceDestroy, .args _ =>
              -- (the RIB re-flattens only when the face had routes)
              if sameRib before.rib after.rib || fibFollowsRib after.rib after.fib [] then []
              else [⟨"fib-follows-rib", c.key, s!"after the face was destroyed the FIB is not the flattening of the RIB: {op} => {got.take 300}"⟩]
            | _, _, _ => [])
         | _, _, _ => [])
      let codeTag := match r with
        | .none => "none" | .ctrl cde _ => toString cde | .dataset _ _ _ _ => "dataset" | .panic _ => "panic"
      let pfxTag := if lhPrefix.isPrefixOf c.name then "lh" else if lpPrefix.isPrefixOf c.name then "lp" else "other"
      -- a status dataset of a big table does not fit one packet and the code does not segment (known finding F-17m):
      -- whether the answer comes depends on encoded sizes the model does not compute - not compared, judged by the
      -- clause dataset/unanswered-… above
      let bigDataset := (match r with | .dataset _ _ _ _ => true | _ => false) &&
        (tablesOf st').rib.length + (tablesOf st').fib.length > 250
      { st := { s with st := st', prev := gotTables <|> s.prev }, expected := (if unmodelled || bigDataset then none else some expected), spec := spec,
        cov := [s!"{c.key}:{codeTag}", s!"arrive:{pfxTag}:{if guard then "pass" else "scope-drop"}:{if routed then "routed" else "unrouted"}"],
        nontrivial := (match r with | .ctrl 200 _ => true | .dataset _ _ _ _ => true | _ => false) }
  | ["send", face, size] =>
    match face.toNat?, size.toNat? with
    | some fid, some sz =>
      (match faceGet s.st.faces fid with
       | none => { st := s, expected := some "noface", spec := crashFail op got, cov := ["send:noface"] }
       | some fc =>
         let carried := tokenVal gtoks "carried"
         let frames := (tokenVal gtoks "frames").bind (·.toNat?)
         let spec := crashFail op got ++
           (if got.startsWith "ok frames=" && (carried != some "1" || frames.getD 0 == 0) then
              [⟨"usable", "send", s!"a packet of {sz} bytes could not be sent on face {fid} (mtu {fc.mtu}): {got}"⟩] else [])
         { st := s, expected := (if got.startsWith "ok" then some got else some "ok"), spec := spec,
           cov := [match frames with | some 1 => "send:whole" | some 0 => "send:dropped" | some _ => "send:fragmented" | none => "send:other"] })
    | _, _ => { st := s, expected := some "bad-op" }
  | ["send", face, size, _toklen] =>
    -- the same with a PIT token of the given length (1..32 bytes): a header that leaves no room for payload on a
    -- small accepted MTU is a legitimate drop; the daemon has to survive it
    match face.toNat?, size.toNat? with
    | some fid, some _ =>
      (match faceGet s.st.faces fid with
       | none => { st := s, expected := some "noface", spec := crashFail op got, cov := ["send:noface"] }
       | some _ =>
         { st := s, expected := (if got.startsWith "ok" then some got else some "ok"), spec := crashFail op got,
           cov := ["send:token-length"] })
    | _, _ => { st := s, expected := some "bad-op" }
  | ["close", face] =>
    match face.toNat? with
    | none => { st := s, expected := some "bad-op" }
    | some fid =>
      if fid == 1 || fid == 6 then { st := s, expected := some "skip" } else
      if (faceGet s.st.faces fid).isNone then { st := s, expected := some "noface", spec := crashFail op got, cov := ["close:noface"] } else
      let gotTables := parseTables gtoks
      let ext : Ext := match gotTables with | some t => ⟨t.fib⟩ | none => ⟨s.st.fib⟩
      let st' := faceClosed s.st ext fid
      let spec := crashFail op got ++
        (if got.startsWith "STUCK" then [⟨"live", "close", s!"face {fid} was closed but never left the face table: {got.take 200}"⟩] else []) ++
        (match s.prev, gotTables with
         | some before, some after =>
           let want : Tables := { before with faces := faceRemove before.faces fid, rib := ribCleanFace before.rib fid }
           if sameFaces want.faces after.faces && sameRib want.rib after.rib && sameSc want.sc after.sc && want.cs == after.cs then []
           else [⟨"effect", "close", s!"after face {fid} closed the tables are not the old ones minus the face and its routes: {got.take 300}"⟩]
         | _, _ => []) ++
        (match s.prev, gotTables with
         | some before, some after =>
           if sameRib before.rib after.rib || fibFollowsRib after.rib after.fib [] then []
           else [⟨"fib-follows-rib", "close", s!"after face {fid} closed the FIB is not the flattening of the RIB: {got.take 300}"⟩]
         | _, _ => [])
      { st := { s with st := st', prev := gotTables <|> s.prev }, expected := some ("gone " ++ tablesText (tablesOf st')),
        spec := spec, cov := ["close:gone"] }
  | ["probe", _, _] => { st := s, expected := some "ok", spec := crashFail op got, cov := ["probe"] }
  | _ => { st := s, expected := some "bad-op" }

def main : IO Unit := Ndn.Driver.run ({} : DSt) stepC17
