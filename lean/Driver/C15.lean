import NdnVerif.Driver.Common
-- stub: replaced by the C15 model driver
def main : IO Unit := IO.println "DONE lines=0 histories=0 diffs=0 specs=0 skipped=0"
