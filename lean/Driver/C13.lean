/-
  Driver/C13.lean — replays the C13 harness trace through the generic schema interpreter and
  evaluates the property's specification on the implementation's own outputs.
-/
import NdnVerif.Driver.Common
import NdnVerif.C13.Text
import NdnVerif.C13.Spec
import NdnVerif.Gen.C13Schemas
open Ndn Ndn.Driver Ndn.C13

structure St where
  cur : Option Schema := none

def findSchema (n : String) : Option Schema := Ndn.Gen.C13.allSchemas.find? (·.name == n)

def resText : Res Vals → String
  | .ok vs _ => "ok " ++ (Val.struct vs).toText
  | .err _ => "err"
  | .panic => "PANIC model"
  | .fuel => "FUEL model"

def structOf (txt : String) : Option Vals :=
  match Val.ofText txt with
  | some (.struct vs) => some vs
  | _ => none

mutual
def nonTrivialV : Bool → Val → Bool
  | top, .struct vs => !top || nonTrivialVs vs
  | _, .seq vs => vs.length > 0
  | _, .map vs => vs.length > 0
  | _, .bytes b => b.length ≥ 253
  | _, .name n => n.any fun c => c.val.length ≥ 253
  | _, _ => false
def nonTrivialVs : Vals → Bool
  | .nil => false
  | .cons v vs => nonTrivialV false v || nonTrivialVs vs
end

def kindTag : Kind → String
  | .natural _ => "natural" | .fixedUint _ _ => "fixedUint" | .time _ => "time" | .bool => "bool"
  | .binary => "binary" | .string _ => "string" | .wire => "wire" | .name => "name"
  | .struct _ _ => "struct" | .seq _ => "seq" | .map _ _ _ => "map" | .marker => "marker"
  | .signature => "signature" | .interestName => "interestName"

def topKinds : Fields → List String
  | .nil => []
  | .cons _ k fs => ("kind-" ++ kindTag k) :: topKinds fs

/-- type number of the signature field when it is the last typed field of the model -/
def lastSig : Fields → Option Nat
  | .nil => none
  | .cons t k fs =>
    match lastSig fs with
    | some x => some x
    | none =>
      match k with
      | .signature => if (typedTypes fs).isEmpty then some t else none
      | _ => none

def setSig : Fields → Vals → Bytes → Vals
  | .cons _ k fs, .cons v vs, sig =>
    (match k with | .signature => .cons (.bytes sig) (setSig fs vs sig) | _ => .cons v (setSig fs vs sig))
  | _, vs, _ => vs

def parseSel (s : String) : Option (List Nat) :=
  if s == "-" then some [] else (s.splitOn ".").mapM String.toNat?

def bad (st : St) : StepResult St := { st := st, expected := some "bad-op" }

def noPanic (op got : String) (key : String) : List SpecFail :=
  if isCrash got then [⟨"no-panic", key, s!"{op}: the generated code crashed: {got}"⟩] else []

def stepC13 (st : St) (op : String) (got : String) : StepResult St :=
  match op.splitOn " " with
  | ["new", "regen"] => { st := { cur := none }, expected := some "ok" }
  | ["new", name] =>
    match findSchema name with
    | some s => { st := { cur := some s }, expected := some "ok", cov := [if s.ordered then "model-ordered" else "model-unordered"] }
    | none => { st := { cur := none }, expected := some "skip" }
  | ["regen", dir] =>
    { st := st, expected := some "same", cov := ["regen"], nontrivial := true,
      spec := if got != "same" then
        [⟨"generator-output", dir, s!"zz_generated.go in {dir} is not what the checked-in generator produces: {got}"⟩] else [] }
  | "enc" :: [txt] =>
    match st.cur, structOf txt with
    | some s, some vs =>
      let toks := got.splitOn " "
      let implHex := toks.getD 2 ""
      let implBytes := (bytesOfHex implHex).getD []
      -- Go map iteration order is arbitrary: follow the implementation's order when it decodes to the same value
      let vOrd := match parse s false implBytes with
        | .ok vs' _ => if (Val.struct vs').toText == (Val.struct vs).toText then vs' else vs
        | _ => vs
      let mb := encode s vOrd
      let len := encLen s vOrd
      let wr := toks.getD 1 ""
      let expected := s!"{len} {if wr == "-" then "-" else toString len} {hexOrDash mb}"
      let specLen :=
        if isCrash got then []
        else
          let ann := toks.getD 0 ""
          (if toString implBytes.length != ann then
            [⟨"announced-length", s.name, s!"encoder announced {ann} bytes but produced {implBytes.length}"⟩] else []) ++
          (if wr != "-" && wr != ann then
            [⟨"announced-length", s.name, s!"encoder announced {ann} bytes but EncodeInto wrote {wr}"⟩] else [])
      { st := st, expected := some expected, spec := noPanic op got s.name ++ specLen,
        cov := "enc" :: topKinds s.fields, nontrivial := nonTrivialVs vs }
    | _, _ => bad st
  | ["rt", txt, cuts] =>
    match st.cur, structOf txt with
    | some s, some vs =>
      let want := "ok " ++ (Val.struct vs).toText
      let rd := if cuts == "-" then "buf" else "wire"
      { st := st, expected := some want, cov := ["rt-" ++ rd], nontrivial := nonTrivialVs vs,
        spec := noPanic op got s.name ++
          (if !isCrash got && got != want then
            [⟨"round-trip", s.name ++ ":" ++ rd, s!"decode(encode v) ≠ v through the {rd} reader: got {got.take 200}"⟩] else []) }
    | _, _ => bad st
  | ["ins", ic, txt, selS, kS, junkHex] =>
    match st.cur, structOf txt, parseSel selS, kS.toNat?, bytesOfHex junkHex with
    | some s, some vs0, some sel, some k, some junk =>
      -- Go map iteration order is arbitrary: follow the implementation's order when it decodes to the same value
      let implBytes := (bytesOfHex ((got.splitOn " ").getD 0 "")).getD []
      let vs := match parse s true implBytes with
        | .ok vs' _ => if (Val.struct vs').toText == (Val.struct vs0).toText then vs' else vs0
        | _ => vs0
      match insAt s.fields vs sel k junk with
      | none => { st := st, expected := some "skip", cov := ["ins-skip"] }
      | some nb =>
        let icb := ic == "1"
        let expected := hexOrDash nb ++ " " ++ resText (parse s icb nb)
        let jt := (decTL junk).map (·.1)
        let known := match jt with
          | some t => (fieldsTypes s.fields).contains t
          | none => true
        let res := " ".intercalate ((got.splitOn " ").drop 1)
        let want := "ok " ++ (Val.struct vs).toText
        let crit := match jt with | some t => critical t | none => false
        let (tag, spec) :=
          if known || isCrash got || got == "skip" then ("ins-known", [])
          else if crit && !icb then
            ("ins-critical", if res != "err" then
              [⟨"unknown-critical-rejected", s.name, s!"an unrecognised CRITICAL element was accepted: {res.take 200}"⟩] else [])
          else
            (if crit then "ins-critical-ignored" else "ins-noncritical", if res != want then
              [⟨"unknown-noncritical-skipped", s.name ++ (if s.ordered then ":ordered" else ""),
                s!"an unrecognised {if crit then "critical (ignoreCritical)" else "non-critical"} element at position {selS}/{kS} was not skipped cleanly: {res.take 200}"⟩] else [])
        { st := st, expected := some expected, spec := noPanic op got s.name ++ spec,
          cov := [tag] ++ (if sel.isEmpty then [] else ["ins-nested"]), nontrivial := nonTrivialVs vs }
    | _, _, _, _, _ => bad st
  | ["sigins", ic, txt, sigHex, kS, junkHex] =>
    match st.cur, structOf txt, bytesOfHex sigHex, kS.toNat?, bytesOfHex junkHex with
    | some s, some vs, some sig, some k, some junk =>
      match lastSig s.fields with
      | none => { st := st, expected := some "skip" }
      | some _ =>
        if got == "skip" then { st := st, expected := none }
        else
          -- the signed encoding is the MODEL's encoding of the value with the signature field set to
          -- the bytes the caller supplies; junk at top-level boundary k by `insAt`, the function the
          -- theorems `unknown_noncritical_skipped` / `unknown_critical_rejected_unless_ignored` are about
          let implBytes := (bytesOfHex ((got.splitOn " ").getD 0 "")).getD []
          let icb := ic == "1"
          let vsS := setSig s.fields vs sig
          match insAt s.fields vsS [] k junk with
          | none => { st := st, expected := some "skip" }
          | some nb =>
            let want := "ok " ++ (Val.struct vsS).toText
            let expected := hexOrDash nb ++ " " ++ resText (parse s icb nb)
            let jt := (decTL junk).map (·.1)
            let known := match jt with
              | some t => (fieldsTypes s.fields).contains t
              | none => true
            let crit := match jt with | some t => critical t | none => false
            let res := " ".intercalate ((got.splitOn " ").drop 1)
            let hasMap := implBytes != nb   -- map order may differ: then only the spec is evaluated
            let spec :=
              if known || isCrash got then []
              else if crit && !icb then
                (if res != "err" then [⟨"unknown-critical-rejected", s.name ++ ":signed", s!"an unrecognised CRITICAL element was accepted in a signed encoding: {res.take 200}"⟩] else [])
              else
                (if res != want then [⟨"unknown-noncritical-skipped", s.name ++ ":signed",
                  s!"an unrecognised tolerated element at top-level position {kS} of a SIGNED encoding was not skipped cleanly: {res.take 200}"⟩] else [])
            { st := st, expected := if hasMap then none else some expected, spec := noPanic op got s.name ++ spec,
              cov := ["sigins"], nontrivial := nonTrivialVs vs }
    | _, _, _, _, _ => bad st
  | ["mut", ic, _txt, _how, _a, _b] =>
    match st.cur with
    | some s =>
      if got == "skip" then { st := st, expected := some "skip" }
      else if isCrash got then { st := st, expected := some "no-panic", spec := noPanic op got s.name }
      else
        let hex := (got.splitOn " ").getD 0 ""
        match bytesOfHex hex with
        | some nb =>
          let r := parse s (ic == "1") nb
          { st := st, expected := some (hex ++ " " ++ resText r),
            cov := [match r with | .ok _ _ => "mut-ok" | _ => "mut-err"] }
        | none => bad st
    | none => bad st
  | _ => bad st

def stepC13' (st : St) (op : String) (got : String) : StepResult St :=
  if got == "skip" && !(op.startsWith "ins") && !(op.startsWith "new") then { st := st, expected := some "skip" }
  else stepC13 st op got

def main : IO Unit := Ndn.Driver.run ({} : St) stepC13'
