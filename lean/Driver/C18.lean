import NdnVerif.C18.DriverLoop
import NdnVerif.C18.Model
import NdnVerif.C18.Spec
open Ndn Ndn.Driver Ndn.C18

namespace C18Drv

/-- spec-side state: built ONLY from the ops and the implementation's outputs -/
structure SpecSt where
  n : Nat := 0
  keys : List Nat := []
  links : List (Nat × Nat) := []      -- directed pairs (both directions of every up link)
  nbr : List (Nat × Nat) := []        -- (u, w): u holds a neighbour state for w
  pending : List (Nat × Nat) := []    -- directed links not yet exchanged in the current fair round
  rounds : Nat := 0                   -- complete fair rounds since the last disturbance
  stable : Option String := none      -- dump at the last converged check since the last disturbance
  seen : List (List (Nat × Nat) × String) := []  -- converged dump per topology (sorted link list)
  lastDump : List (Nat × String) := []  -- last observed dump per router
  lastChange : Nat := 0               -- fair round (since the last disturbance) in which a table last changed
  flightsN : List ((Nat × Nat) × Nat) := []  -- (u, w) ↦ number of advertisement fetches started by `snap`
  awaiting : List (Nat × Nat) := []   -- (u, w): the reply to u's latest fetch of w's advertisement is still outstanding
  text : List (Nat × String) := []    -- the advertisement text each router was last seen to serve
  ever : List (Nat × Nat) := []       -- every link that has been up at some time in this history
  copy : List ((Nat × Nat) × String) := []  -- (u, w): w's advertisement text that u last received
  pendCopy : List ((Nat × Nat) × String) := []  -- (u, w): the text the outstanding fetch of u will deliver

structure St where
  net : Net := []
  keys : List Nat := []
  links : List (Nat × Nat) := []
  /-- advertisement number of every router: advances when its advertisement changes -/
  ver : List Nat := []
  /-- `AdvertSeq` of the neighbour state u holds for w -/
  aseq : List ((Nat × Nat) × Nat) := []
  /-- replies in flight for (u, w): (number, advertisement content) in the order the fetches started -/
  flights : List ((Nat × Nat) × List (Nat × List AdvEntry)) := []
  /-- identifiers of the advertisement fetches started so far (stand for the sequence numbers, which
      strictly increase per neighbour state) -/
  fid : Nat := 0
  /-- (u, w): the Interest of the latest fetch timed out and was not re-expressed (nothing is pending) -/
  noPend : List (Nat × Nat) := []
  /-- 0: the harness drives every step; 1: wire history (started routers, the harness is the network), tables not
      known to the model; 2: wire history right after `wquiet` (tables = the fixed point of the topology) -/
  wire : Nat := 0
  sp : SpecSt := {}

def aseqOf (s : St) (p : Nat × Nat) : Nat := ((s.aseq.find? (·.1 == p)).map (·.2)).getD 0
def setAseq (s : St) (p : Nat × Nat) (v : Nat) : St := { s with aseq := (p, v) :: s.aseq.filter (·.1 != p) }
def dropAseq (s : St) (p : Nat × Nat) : St := { s with aseq := s.aseq.filter (·.1 != p) }
def flightsOf (s : St) (p : Nat × Nat) : List (Nat × List AdvEntry) := ((s.flights.find? (·.1 == p)).map (·.2)).getD []

def idxOfKey (keys : List Nat) (k : Nat) : Option Nat :=
  let i := keys.idxOf k
  if i < keys.length then some i else none

def optStr : Option Nat → String
  | some i => toString i
  | none => "-"

def dashIfEmpty (s : String) : String := if s.isEmpty then "-" else s

/-- canonical dump of one model router (same text as dvsim.DumpRib) -/
def dumpRouter (keys : List Nat) (r : Router) : String :=
  let advs := r.rib.advert.map fun a => (idxOfKey keys a.dest, s!"{optStr (idxOfKey keys a.dest)}:{optStr (idxOfKey keys a.nh)}:{a.cost}:{a.other}")
  let advs := advs.mergeSort fun a b => a.1.getD 0 ≤ b.1.getD 0
  let ents := r.rib.reachable.map fun e =>
    let (f1, c1, f2, c2) := fibEntriesOf r.nbrs e
    let f1 := if c1 ≥ Spec.infinity then 0 else f1   -- which hop carries an infinite cost is not an observable
    let f2 := if c2 ≥ Spec.infinity then 0 else f2
    (idxOfKey keys e.dest, s!"{optStr (idxOfKey keys e.dest)}:{f1}:{c1}:{f2}:{c2}")
  let ents := ents.mergeSort fun a b => a.1.getD 0 ≤ b.1.getD 0
  "adv=" ++ dashIfEmpty (",".intercalate (advs.map (·.2))) ++ " ent=" ++ dashIfEmpty (",".intercalate (ents.map (·.2)))

/-- the advertisement part of the dump (what the neighbours can fetch) -/
def advText (keys : List Nat) (net : Net) (u : Nat) : String :=
  match net.get? u with
  | some r => ((dumpRouter keys r).splitOn " ").headD ""
  | none => ""

/-- router `u` took part in an operation: its advertisement number advances iff its advertisement changed -/
def bumpVer (before : St) (after : St) (u : Nat) : St :=
  if advText before.keys before.net u != advText after.keys after.net u then
    { after with ver := after.ver.set u (after.ver.getD u 1 + 1) }
  else after

def dumpAll (keys : List Nat) (net : Net) : String :=
  " ; ".intercalate ((List.range net.length).zip net |>.map fun (i, r) => s!"r{i} {dumpRouter keys r}")

/-- parse the `adv=` part of an implementation dump -/
def parseAdv (dump : String) : Option (List Spec.Obs) :=
  match dump.splitOn " " with
  | a :: _ =>
    if !a.startsWith "adv=" then none else
    let body := (a.drop 4).toString
    if body == "-" then some [] else
    (body.splitOn ",").mapM fun item =>
      match item.splitOn ":" with
      | [d, nh, c, o] => do
        let c ← c.toNat?
        let o ← o.toNat?
        pure { dest := d.toNat?, nh := nh.toNat?, cost := c, other := o }
      | _ => none
  | [] => none

def has (l : List (Nat × Nat)) (p : Nat × Nat) : Bool := l.contains p

def directedAll (sp : SpecSt) : List (Nat × Nat) := sp.links

def disturb (sp : SpecSt) : SpecSt := { sp with rounds := 0, pending := sp.links, stable := none, lastChange := 0 }

def topoOf (sp : SpecSt) : Spec.Topo := { n := sp.n, adj := fun a b => sp.links.contains (a, b) }

/-- no router holds state learnt from a router that is no longer its neighbour -/
def staleFree (sp : SpecSt) : Bool := sp.nbr.all fun p => sp.links.contains p

def advFiniteFails (who : String) (got : String) : List SpecFail :=
  match parseAdv got with
  | some adv =>
    if Spec.advertFinite adv then [] else
      [⟨"advert-never-infinite", "cost>=16", s!"{who} advertises a destination with best cost >= 16: {got}"⟩]
  | none => if isCrash got then [⟨"no-panic", "crash", s!"{who}: {got}"⟩] else
      [⟨"advert-never-infinite", "unparsable", s!"{who}: unparsable dump {got}"⟩]

/-- the undirected graph with the given (symmetric) directed link list is acyclic: every connected
    component with k routers has exactly k-1 links, i.e. (number of links) + (number of components) = n -/
def isForest (n : Nat) (links : List (Nat × Nat)) : Bool :=
  let und := links.filter fun p => p.1 < p.2
  -- components by n rounds of label propagation
  let labels := Spec.iter (fun (lab : List Nat) =>
      (List.range n).map fun u => und.foldl (fun m p =>
        if p.1 == u then min m (lab.getD p.2 u) else if p.2 == u then min m (lab.getD p.1 u) else m) (lab.getD u u))
    n (List.range n)
  und.length + labels.eraseDups.length == n

/-- fair rounds after which the tables must have converged: the infinity metric in general; on a network
    whose links (all that were ever up in this history) contain no cycle, split horizon rules out counting
    to infinity and information travels one hop per round: the number of routers suffices -/
def roundsBound (sp : SpecSt) : Nat :=
  if isForest sp.n sp.ever then min Spec.boundRounds sp.n else Spec.boundRounds

def parseNats (l : List String) : Option (List Nat) := l.mapM String.toNat?

def parseField (got : String) (name : String) : Option String :=
  (got.splitOn " ").findSome? fun f => if f.startsWith (name ++ "=") then some (f.drop (name.length + 1)).toString else none

/-- "if the advertisement changes, the router increments the sequence number" (dv/SPEC.md): the harness
    reports `ann=MISSING` when the advertisement content changed without the router's own number advancing -/
def annFails (who : String) (got : String) : List SpecFail :=
  if parseField got "ann" == some "MISSING" then
    [⟨"advert-change-announced", "seq", s!"{who}: the advertisement changed but the advertisement sequence number did not advance: {got}"⟩]
  else []

def stepCore (s : St) (op : String) (got : String) : StepResult St :=
  let sp := s.sp
  match op.splitOn " " with
  | ["new", ns] =>
    match ns.toNat? with
    | none => { st := s, expected := some "bad-op" }
    | some n =>
      -- the keys (name hashes) are taken from the implementation; A-hash is checked here
      match got.splitOn " " with
      | "ok" :: ks0 =>
        let ks := ks0.filter fun t => !t.startsWith "proc="
        match parseNats ks with
        | some keys =>
          let okKeys := keys.length == n && keys.eraseDups.length == n && !keys.contains 0
          let net : Net := keys.map Router.start
          -- equal-cost next hops are ordered by these keys: "ties are broken the same way every time" needs the
          -- keys (at least their order) to be a function of the router names, i.e. the same in every process —
          -- a router that restarts is another process
          let procFail : List SpecFail :=
            if ks0.contains "proc=differs" then
              [⟨"tie-break-same-in-every-process", "name-keys", s!"another process of the same binary computes different keys for the same router names: the preference among equal-cost next hops changes when a router restarts ({got})"⟩]
            else []
          { st := { net := net, keys := keys, links := [], ver := List.replicate n 1, sp := { n := n, keys := keys } },
            expected := none,
            spec := (if okKeys then [] else [⟨"A-hash", "keys", s!"router keys not distinct / zero / wrong count: {got}"⟩]) ++ procFail }
        | none => { st := {}, expected := some "ok <keys>" }
      | _ => { st := {}, expected := some "ok <keys>" }
  | ["sweep", a, wsT] =>
    -- ONE checkDeadNeighbors call of router a finds all the listed neighbours dead: the code performs
    -- RemoveNextHop + Prune for each of them inside the same call (model: the `dead` events in sequence)
    match a.toNat?, (wsT.splitOn ",").mapM String.toNat? with
    | some a, some ws =>
      let n := s.net.length
      let specFails := if got == "skip" then [] else advFiniteFails s!"r{a}" got
      let sp' := if got == "skip" then sp else
        disturb { sp with nbr := sp.nbr.filter (fun p => !(p.1 == a && ws.contains p.2)),
                          awaiting := sp.awaiting.filter (fun p => !(p.1 == a && ws.contains p.2)) }
      if a < n && ws.all (fun w => w < n && w != a) then
        let (net', k) := ws.foldl (fun (acc : Net × Nat) w =>
          match acc.1.dead a w with
          | some (net2, _) => (net2, acc.2 + 1)
          | none => acc) (s.net, 0)
        if k == 0 then { st := { s with sp := sp' }, expected := some "skip", spec := specFails, cov := ["dead-skip"] }
        else
          let ru := (net'.get? a).getD (Router.start 0)
          let s1 := { s with net := net', sp := sp', aseq := s.aseq.filter fun p => !(p.1.1 == a && ws.contains p.1.2) }
          { st := bumpVer s s1 a, expected := some (dumpRouter s.keys ru ++ " ann=ok"), spec := specFails ++ annFails s!"r{a}" got,
            cov := [if k ≥ 2 then "sweep-multi" else "sweep-single"] }
      else { st := { s with sp := sp' }, expected := some "skip", spec := specFails }
    | _, _ => { st := s, expected := some "bad-op" }
  | [lk, a, b] =>
    match a.toNat?, b.toNat? with
    | some a, some b =>
      let n := s.net.length
      if lk == "link" || lk == "unlink" then
        let up := lk == "link"
        let validM := a < n && b < n && a != b && (s.links.contains (a, b) != up)
        let links' := if up then (a, b) :: (b, a) :: s.links else s.links.filter fun p => p != (a, b) && p != (b, a)
        let spLinks' := if up then (a, b) :: (b, a) :: sp.links else sp.links.filter fun p => p != (a, b) && p != (b, a)
        let sp' := if got == "ok" then
            disturb { sp with links := spLinks', ever := if up && !sp.ever.contains (a, b) then (a, b) :: (b, a) :: sp.ever else sp.ever }
          else sp
        { st := { s with links := if validM then links' else s.links, sp := sp' },
          expected := some (if validM then "ok" else "skip"), cov := [lk] }
      else if lk == "fetch" then
        -- spec side
        let specFails := if got == "skip" then [] else advFiniteFails s!"r{a}" got
        let sp' :=
          if got == "skip" then sp else
          let nbr := if sp.nbr.contains (a, b) then sp.nbr else (a, b) :: sp.nbr
          let changed := ((sp.lastDump.find? (·.1 == a)).map (·.2)) != some got
          let sp := { sp with lastDump := (a, got) :: sp.lastDump.filter (·.1 != a),
                              lastChange := if changed then sp.rounds + 1 else sp.lastChange }
          let pend := sp.pending.filter fun p => p != (a, b)
          if pend.isEmpty then { sp with nbr := nbr, pending := sp.links, rounds := sp.rounds + 1 }
          else { sp with nbr := nbr, pending := pend }
        -- model side: Sync Interest announcing w's current number; a fetch (answered at once with w's
        -- current advertisement) only if that number is newer than the remembered AdvertSeq
        if a < n && b < n && a != b && s.links.contains (a, b) then
          let net1 := s.net.ping a b (b + 1)
          let sv := s.fid + 1
          let adv := ((s.net.get? b).map (·.rib.advert)).getD []
          -- whether the announced number is newer than what a remembers is decided by the routers' real
          -- sequence numbers (boot time + bumps): taken from the implementation, judged by the spec side
          let starts := parseField got "started" == some "1"
          let (net', dirty) := if starts then (net1.applyAdvert a b adv).getD (net1, false) else (net1, false)
          let ru := (net'.get? a).getD (Router.start 0)
          let selfKey := s.keys.getD a 0
          let before := ((s.net.get? a).map (·.rib.entries.length)).getD 0
          let cov :=
            [if !starts then "fetch-not-newer" else if dirty then "fetch-dirty" else "fetch-clean"] ++
            (if starts && adv.any (fun x => x.nh == selfKey && x.other < inf) then ["poison-reverse-other"] else []) ++
            (if starts && adv.any (fun x => x.nh == selfKey && !(x.other < inf)) then ["poison-reverse-infinite"] else []) ++
            (if starts && adv.any (fun x => x.nh != selfKey && x.cost + 1 ≥ inf) then ["skip-at-infinity"] else []) ++
            (if ru.rib.entries.length < before then ["prune-delete"] else []) ++
            (if ru.rib.entries.length > before then ["new-destination"] else []) ++
            (if ru.rib.entries.any (fun e => e.best.low1 == e.best.low2 && e.best.low1 < inf) then ["tie-break"] else []) ++
            (if ru.rib.entries.any (fun e => e.best.low1 ≥ 8) then ["counting-up"] else [])
          let s1 := { s with net := net', sp := sp' }
          let s1 := if starts then { setAseq s1 (a, b) sv with fid := sv } else s1
          { st := bumpVer s s1 a, expected := some (dumpRouter s.keys ru ++ s!" started={if starts then 1 else 0} ann=ok"),
            spec := specFails ++ annFails s!"r{a}" got, cov := cov }
        else { st := { s with sp := sp' }, expected := some "skip", spec := specFails, cov := ["fetch-skip"] }
      else if lk == "dead" || lk == "fetchrace" then
        -- fetchrace: advertDataHandler stored the advertisement, the dead sweep removes the neighbour, then
        -- the pending ribUpdate runs on the removed state: it must do nothing (ns.Advert is nil)
        let specFails := if got == "skip" then [] else advFiniteFails s!"r{a}" got
        let sp' := if got == "skip" then sp else
          disturb { sp with nbr := sp.nbr.filter (fun p => p != (a, b)), awaiting := sp.awaiting.filter (· != (a, b)) }
        if a < n && b < n && a != b then
          match s.net.dead a b with
          | some (net', dirty) =>
            let ru := (net'.get? a).getD (Router.start 0)
            let s1 := dropAseq { s with net := net', sp := sp' } (a, b)
            { st := bumpVer s s1 a, expected := some (dumpRouter s.keys ru ++ " ann=ok"), spec := specFails ++ annFails s!"r{a}" got,
              cov := [if lk == "fetchrace" then "fetchrace" else if dirty then "dead-dirty" else "dead-clean"] }
          | none => { st := { s with sp := sp' }, expected := some "skip", spec := specFails, cov := ["dead-skip"] }
        else { st := { s with sp := sp' }, expected := some "skip", spec := specFails }
      else if lk == "snap" then
        -- a Sync Interest of b announces its current number to a; if newer, a fetch starts whose reply
        -- (b's advertisement as of now) stays in flight until a `reply` op delivers it
        let specFails := if got == "skip" then [] else advFiniteFails s!"r{a}" got
        let startedI := parseField got "started" == some "1"
        let sp' := if got == "skip" then sp else
          let nbr := if sp.nbr.contains (a, b) then sp.nbr else (a, b) :: sp.nbr
          let cnt := ((sp.flightsN.find? (·.1 == (a, b))).map (·.2)).getD 0
          if startedI then
            disturb { sp with nbr := nbr, flightsN := ((a, b), cnt + 1) :: sp.flightsN.filter (·.1 != (a, b)),
                              awaiting := if sp.awaiting.contains (a, b) then sp.awaiting else (a, b) :: sp.awaiting }
          else { sp with nbr := nbr }
        if a < n && b < n && a != b && s.links.contains (a, b) then
          let net1 := s.net.ping a b (b + 1)
          let sv := s.fid + 1
          let adv := ((s.net.get? b).map (·.rib.advert)).getD []
          let starts := startedI
          let ru := (net1.get? a).getD (Router.start 0)
          let s1 := { s with net := net1, sp := sp' }
          let s1 := if starts then
              { setAseq s1 (a, b) sv with fid := sv, noPend := s.noPend.filter (· != (a, b)), flights := ((a, b), flightsOf s (a, b) ++ [(sv, adv)]) :: s.flights.filter (·.1 != (a, b)) }
            else s1
          { st := s1, expected := some (dumpRouter s.keys ru ++ s!" started={if starts then 1 else 0} ann=ok"),
            spec := specFails ++ annFails s!"r{a}" got, cov := [if starts then "snap-started" else "snap-not-newer"] }
        else { st := { s with sp := sp' }, expected := some "skip", spec := specFails }
      else { st := s, expected := some "bad-op" }
    | _, _ => { st := s, expected := some "bad-op" }
  | ["reply", a, b, iT] =>
    -- the reply of flight i (or "last") of (a, b) reaches a's advertDataHandler
    match a.toNat?, b.toNat? with
    | some a, some b =>
      let n := s.net.length
      let fl := flightsOf s (a, b)
      let idx : Option Nat := if iT == "last" then (if fl.isEmpty then none else some (fl.length - 1)) else iT.toNat?
      let specFails := if got == "skip" then [] else advFiniteFails s!"r{a}" got
      let cnt := ((sp.flightsN.find? (·.1 == (a, b))).map (·.2)).getD 0
      let isLastS := iT == "last" || iT.toNat? == some (cnt - 1)
      let sp' := if got == "skip" then sp else
        disturb { sp with awaiting := if isLastS then sp.awaiting.filter (· != (a, b)) else sp.awaiting }
      let gone := match idx with
        | some i => i + 1 == fl.length && s.noPend.contains (a, b)
        | none => false
      match (if gone then none else idx.bind (fun i => fl[i]?)) with
      | some (sv, adv) =>
        if !(a < n && b < n) then { st := { s with sp := sp' }, expected := some "skip", spec := specFails } else
        let hasNbr := match s.net.get? a, s.net.get? b with
          | some ru, some rw => (aget ru.nbrs rw.id).isSome
          | _, _ => false
        let acc := replyAccepted hasNbr (aseqOf s (a, b)) sv
        let net' := if acc then ((s.net.applyAdvert a b adv).map (·.1)).getD s.net else s.net
        let ru := (net'.get? a).getD (Router.start 0)
        let s1 := { s with net := net', sp := sp' }
        let newest := sv == aseqOf s (a, b)
        { st := bumpVer s s1 a, expected := some (dumpRouter s.keys ru ++ " ann=ok"), spec := specFails ++ annFails s!"r{a}" got,
          cov := [if acc then "reply-accepted" else if !hasNbr then "reply-no-neighbour" else if newest then "reply-accepted" else "reply-stale-ignored"] }
      | none => { st := { s with sp := sp' }, expected := some "skip", spec := specFails }
    | _, _ => { st := s, expected := some "bad-op" }
  | ["check"] =>
    if s.net.isEmpty && sp.n == 0 then { st := s, expected := some "skip" } else
    let parts := got.splitOn " ; "
    let advs : List (Option (List Spec.Obs)) := parts.map fun p => parseAdv ((" ".intercalate ((p.splitOn " ").drop 1)))
    let finiteFails := ((List.range parts.length).zip parts).flatMap fun (i, p) =>
      advFiniteFails s!"r{i}" (" ".intercalate ((p.splitOn " ").drop 1))
    let converged := staleFree sp && sp.awaiting.isEmpty && sp.rounds ≥ roundsBound sp && parts.length == sp.n
    let t := topoOf sp
    let spFails : List SpecFail :=
      if !converged then [] else
      ((List.range sp.n).zip advs).flatMap fun (u, a) =>
        match a with
        | some adv => (Spec.shortestPathFailures t u adv).map fun m =>
            ⟨"shortest-path-at-quiescence", "tables", s!"after {sp.rounds} fair rounds: {m}"⟩
        | none => []
    let stableFails : List SpecFail :=
      if !converged then [] else
      match sp.stable with
      | some prev => if prev == got then [] else
          [⟨"fixed-point-stable", "tables", s!"tables still change after {sp.rounds} fair rounds: {prev}  -->  {got}"⟩]
      | none => []
    let sig := sp.links.mergeSort fun a b => a.1 < b.1 || (a.1 == b.1 && a.2 ≤ b.2)
    let detFails : List SpecFail :=
      if !converged then [] else
      match sp.seen.find? (·.1 == sig) with
      | some (_, prev) => if prev == got then [] else
          [⟨"tie-break-deterministic", "tables", s!"the same topology led to different tables under another schedule: {prev}  -->  {got}"⟩]
      | none => []
    let sp' := if converged then
        { sp with stable := some got, seen := if (sp.seen.find? (·.1 == sig)).isSome then sp.seen else (sig, got) :: sp.seen }
      else sp
    let hasUnreach := converged && (List.range sp.n).any fun d => (Spec.distsTo t d).any fun k => k ≥ Spec.infinity
    { st := { s with sp := sp' }, expected := some (dumpAll s.keys s.net),
      spec := finiteFails ++ spFails ++ stableFails ++ detFails,
      cov := (if converged then ["check-converged"] else ["check-early"]) ++
             (if converged && sp.rounds < Spec.boundRounds then ["check-converged-forest-bound"] else []) ++
             (if converged && sp.stable.isNone then [s!"rounds-to-fixed-point-{sp.lastChange}"] else []) ++
             (if converged && sp.stable.isSome then ["check-stable"] else []) ++
             (if converged && (sp.seen.find? (·.1 == sig)).isSome && sp.stable.isNone then ["check-same-topology-again"] else []) ++
             (if hasUnreach then ["unreachable-withdrawn"] else []),
      nontrivial := converged && sp.n ≥ 3 }
  | _ => { st := s, expected := some "bad-op" }

def firstTok (t : String) : String := (t.splitOn " ").headD ""

def setText (sp : SpecSt) (u : Nat) (t : String) : SpecSt :=
  if t.startsWith "adv=" then { sp with text := (u, t) :: sp.text.filter (·.1 != u) } else sp

def textOf (sp : SpecSt) (u : Nat) : Option String := (sp.text.find? (·.1 == u)).map (·.2)

/-- texts of all routers from a `check` / `tick` output -/
def setTexts (sp : SpecSt) (got : String) : SpecSt :=
  ((List.range (got.splitOn " ; ").length).zip (got.splitOn " ; ")).foldl (fun sp (i, p) =>
    setText sp i (firstTok (" ".intercalate ((p.splitOn " ").drop 1)))) sp

/-- routers of the model whose neighbour `w` is on a link that is down -/
def staleNbrs (s : St) (u : Nat) : List Nat :=
  match s.net.get? u with
  | some ru => (List.range s.net.length).filter fun w =>
      w != u && !s.links.contains (u, w) && (aget ru.nbrs (s.keys.getD w 0)).isSome
  | none => []

/-- the ops handled by `stepCore`, plus the spec-side bookkeeping of advertisement texts and copies -/
def stepRest (s : St) (op : String) (got : String) : StepResult St :=
  let sp := s.sp
    let r := stepCore s op got
    let sp2 := r.st.sp
    if got == "skip" then r else
    match op.splitOn " " with
    | ["check"] => { r with st := { r.st with sp := setTexts sp2 got } }
    | "sweep" :: a :: wsT :: _ =>
      match a.toNat?, (wsT.splitOn ",").mapM String.toNat? with
      | some a, some ws =>
        let keep (c : (Nat × Nat) × String) : Bool := !(c.1.1 == a && ws.contains c.1.2)
        let sp3 : SpecSt := { sp2 with copy := sp2.copy.filter keep, pendCopy := sp2.pendCopy.filter keep }
        { r with st := { r.st with sp := setText sp3 a (firstTok got) } }
      | _, _ => r
    | kind :: a :: b :: _ =>
      match a.toNat?, b.toNat? with
      | some a, some b =>
        let sp3 := setText sp2 a (firstTok got)
        if kind == "dead" || kind == "fetchrace" then
          { r with st := { r.st with sp := { sp3 with copy := sp3.copy.filter (·.1 != (a, b)), pendCopy := sp3.pendCopy.filter (·.1 != (a, b)) } } }
        else if kind == "reply" then
          -- the reply to the latest fetch delivers the text captured when that fetch started
          let cnt := ((sp.flightsN.find? (·.1 == (a, b))).map (·.2)).getD 0
          let isLast := (op.splitOn " ")[3]? == some "last" || ((op.splitOn " ")[3]?.bind String.toNat?) == some (cnt - 1)
          match isLast, sp3.pendCopy.find? (·.1 == (a, b)) with
          | true, some (_, t) =>
            { r with st := { r.st with sp := { sp3 with copy := ((a, b), t) :: sp3.copy.filter (·.1 != (a, b)),
                                                        pendCopy := sp3.pendCopy.filter (·.1 != (a, b)) } } }
          | _, _ => { r with st := { r.st with sp := sp3 } }
        else if kind == "fetch" || kind == "snap" then
          let started := parseField got "started" == some "1"
          let cur := (sp.copy.find? (·.1 == (a, b))).map (·.2)
          let tb := textOf sp b
          if started then
            let upd (l : List ((Nat × Nat) × String)) := match tb with
              | some t => ((a, b), t) :: l.filter (·.1 != (a, b))
              | none => l.filter (·.1 != (a, b))
            -- fetch: answered at once; snap: the content is received when the reply to this fetch arrives
            if kind == "fetch" then
              -- a newer fetch answered at once: replies to older fetches still in flight are stale from now on
              { r with st := { r.st with sp := { sp3 with copy := upd sp3.copy, pendCopy := sp3.pendCopy.filter (·.1 != (a, b)),
                                                          awaiting := sp3.awaiting.filter (· != (a, b)) } } }
            else { r with st := { r.st with sp := { sp3 with pendCopy := upd sp3.pendCopy } } }
          else
            -- no fetch although what a holds is not what b serves now (b's advertisement changed, or b is a
            -- new instance after a restart, and the announcement did not get through as newer)
            let fails : List SpecFail :=
              if kind == "fetch" && !sp.awaiting.contains (a, b) then
                match tb with
                | some t => if cur == some t then [] else
                    [⟨"changed-advert-is-fetched", "not-fetched",
                      s!"r{a} does not fetch r{b}'s advertisement although it changed since r{a} last fetched it: r{a} holds {cur.getD "nothing"}, r{b} serves {t}"⟩]
                | none => []
              else []
            { r with st := { r.st with sp := sp3 }, spec := r.spec ++ fails }
        else { r with st := { r.st with sp := sp3 } }
      | _, _ => r
    | _ => r

/-- one fair round of the model: every directed link once -/
def fairRound (net : Net) (links : List (Nat × Nat)) : Net :=
  links.foldl (fun net p => match net.fetch p.1 p.2 (p.2 + 1) with | some (n2, _) => n2 | none => net) net

/-- the tables of the topology's fixed point, reached from freshly started routers (at most `fuel` fair rounds) -/
def fixedPointNet (keys : List Nat) (links : List (Nat × Nat)) : Nat → Net → Net
  | 0, net => net
  | fuel + 1, net =>
    let net' := fairRound net links
    if dumpAll keys net' == dumpAll keys net then net' else fixedPointNet keys links fuel net'

/-- ops of a wire history: the routers run by themselves (real Router.Start: handlers, heartbeat and deadcheck
    tickers, retry loops); the harness only carries, loses, duplicates, delays and reorders their packets -/
def stepWire (s : St) (op : String) (got : String) : Option (StepResult St) :=
  let sp := s.sp
  match op.splitOn " " with
  | ["neww", n, adv, dead] =>
    match adv.toNat?, dead.toNat? with
    | some adv, some dead =>
      if configValid adv dead then
        let r := stepCore {} s!"new {n}" got
        some { r with st := { r.st with wire := 1 }, cov := ["wire-new"] ++ r.cov }
      else some { st := {}, expected := some "rejected", cov := ["new-rejected"] }
    | _, _ => some { st := {}, expected := some "bad-op" }
  | "wrun" :: _ =>
    if s.wire == 0 then some { st := s, expected := some "skip" } else
    some { st := { s with wire := 1, sp := disturb sp }, expected := some "ok",
           spec := if isCrash got then [⟨"no-panic", "crash", s!"wrun: {got}"⟩] else [], cov := ["wire-run"] }
  | ["wrestart", x] =>
    if s.wire == 0 then some { st := s, expected := some "skip" } else
    match x.toNat? with
    | some x => if x < s.keys.length then
        some { st := { s with wire := 1, sp := disturb sp }, expected := some "ok",
               spec := if isCrash got then [⟨"no-panic", "crash", s!"wrestart: {got}"⟩] else [], cov := ["wire-restart"] }
      else some { st := s, expected := some "skip" }
    | none => some { st := s, expected := some "bad-op" }
  | ["wquiet", _] =>
    if s.wire == 0 then some { st := s, expected := some "skip" } else
    -- model: the unique fixed point of the current topology (converges_within_rounds: 16 fair rounds from start-up)
    let net := fixedPointNet s.keys s.links 64 (s.keys.map Router.start)
    let (dumps, tail) := match got.splitOn " | " with
      | [d, t] => (d, t)
      | _ => (got, "")
    let q := parseField tail "q"
    let uns := parseField tail "unsynced"
    let tailFails : List SpecFail :=
      (if isCrash got then [⟨"no-panic", "crash", s!"wquiet: {got}"⟩] else []) ++
      (if q == some "0" then [⟨"pending-work-drains", "never-quiet",
          s!"on a loss-free network the routers never come to rest (advertisement fetches / Data keep travelling for 200 heartbeat intervals): {got}"⟩] else []) ++
      (match uns with
       | some u => if u == "-" || q != some "1" then [] else
          [⟨"quiescent-link-synced", "unsynced",
            s!"nothing is pending or in flight any more and heartbeats got through, yet on the up link(s) {u} (u>w) router u does not hold w's current advertisement under w's current sequence number: {got}"⟩]
       | none => [])
    -- spec side: judged like a `check` after enough fair rounds on a stale-free network
    let spQ : SpecSt := { sp with nbr := sp.links, awaiting := [], rounds := Spec.boundRounds, pending := sp.links,
                                  copy := [], pendCopy := [], flightsN := [] }
    let r := stepCore { s with net := net, sp := if q == some "1" then spQ else sp } "check" dumps
    some { r with st := { r.st with wire := 2, aseq := [], flights := [], noPend := [], sp := setTexts r.st.sp dumps },
                  expected := some (dumpAll s.keys net ++ " | unsynced=- q=1"),
                  spec := tailFails ++ r.spec, cov := ["wire-quiet"] ++ r.cov }
  | _ =>
    if s.wire == 0 then none else
    match op.splitOn " " with
    | ["link", _, _] | ["unlink", _, _] =>
      let r := stepCore s op got
      some { r with st := { r.st with wire := 1 } }
    | ["check"] =>
      let r := stepCore s op got
      some (if s.wire == 2 then r else { r with expected := none })
    | "new" :: _ => none
    | "cfg" :: _ => none
    | _ => some { st := s, expected := some "skip" }

def step (s : St) (op : String) (got : String) : StepResult St :=
  match stepWire s op got with
  | some r => r
  | none =>
  let sp := s.sp
  match op.splitOn " " with
  | ["tick"] =>
    -- more than a dead interval passes; heartbeats (unchanged numbers) over the up links; then every router
    -- runs its deadcheck sweep: only neighbours on links that are down are removed
    if s.net.isEmpty && sp.n == 0 then { st := s, expected := some "skip" } else
    let s1 := (List.range s.net.length).foldl (fun (s : St) u =>
      let ws := staleNbrs s u
      let net' := ws.foldl (fun (net : Net) w => match net.dead u w with | some (n2, _) => n2 | none => net) s.net
      bumpVer s { s with net := net', aseq := s.aseq.filter fun p => !(p.1.1 == u && ws.contains p.1.2) } u) s
    let staleS := sp.nbr.filter fun p => !sp.links.contains p
    let sp1 := if got == "skip" || staleS.isEmpty then sp else
      disturb { sp with nbr := sp.nbr.filter (fun p => sp.links.contains p),
                        awaiting := sp.awaiting.filter (fun p => sp.links.contains p),
                        copy := sp.copy.filter (fun c => sp.links.contains c.1),
                        pendCopy := sp.pendCopy.filter (fun c => sp.links.contains c.1) }
    let r := stepCore { s1 with sp := sp1 } "check" got
    { r with st := { r.st with sp := setTexts r.st.sp got },
             cov := (if staleS.isEmpty then ["tick-stable-links"] else ["tick-removes-stale"]) ++ r.cov }
  | ["cfg", adv, dead] =>
    match adv.toNat?, dead.toNat? with
    | some adv, some dead =>
      { st := s, expected := some (if configValid adv dead then "accept" else "reject"),
        spec := if got == "accept" && !Spec.deadIntervalOk adv dead then
            [⟨"config-dead-interval", "accepted", s!"the configuration check accepts advertise interval {adv} ms with dead interval {dead} ms: live neighbours are declared dead between their own heartbeats"⟩]
          else [],
        cov := [if configValid adv dead then "cfg-valid" else "cfg-invalid"] }
    | _, _ => { st := s, expected := some "bad-op" }
  | ["new", n, adv, dead] =>
    match adv.toNat?, dead.toNat? with
    | some adv, some dead =>
      if configValid adv dead then
        let r := stepCore s s!"new {n}" got
        { r with cov := ["new-with-intervals"] ++ r.cov }
      else
        { st := {}, expected := some "rejected",
          spec := if got.startsWith "ok" && !Spec.deadIntervalOk adv dead then
              [⟨"config-dead-interval", "accepted", s!"routers start with advertise interval {adv} ms and dead interval {dead} ms"⟩]
            else [],
          cov := ["new-rejected"] }
    | _, _ => { st := {}, expected := some "bad-op" }
  | [tk, a, b] =>
    if tk != "timeout" && tk != "outage" then stepRest s op got else
    match a.toNat?, b.toNat? with
    | some a, some b =>
      let fl := flightsOf s (a, b)
      let pendingI := parseField got "pending" == some "1"
      let specFails := if got == "skip" then [] else advFiniteFails s!"r{a}" got
      -- spec side: if nothing is pending any more, no reply is outstanding: the router has to cope by itself
      let sp1 := if got == "skip" then sp else
        setText (if pendingI then sp else { sp with awaiting := sp.awaiting.filter (· != (a, b)), pendCopy := sp.pendCopy.filter (·.1 != (a, b)) }) a (firstTok got)
      if a < s.net.length && b < s.net.length && a != b && !fl.isEmpty && !s.noPend.contains (a, b) then
        let ru := (s.net.get? a).getD (Router.start 0)
        { st := { s with sp := sp1, noPend := if pendingI then s.noPend else (a, b) :: s.noPend },
          expected := some (dumpRouter s.keys ru ++ s!" pending={if pendingI then 1 else 0} ann=ok"),
          spec := specFails, cov := [if pendingI then s!"{tk}-retried" else s!"{tk}-gave-up"] }
      else { st := { s with sp := sp1 }, expected := some "skip", spec := specFails }
    | _, _ => stepRest s op got
  | ["restart", x] =>
    match x.toNat? with
    | some x =>
      if !(x < s.net.length) then { st := s, expected := some "skip" } else
      let id := s.keys.getD x 0
      let specFails := if got == "skip" then [] else advFiniteFails s!"r{x}" got
      let sp1 := if got == "skip" then sp else
        setText (disturb { sp with nbr := sp.nbr.filter (·.1 != x), awaiting := sp.awaiting.filter (·.1 != x),
                                    copy := sp.copy.filter (·.1.1 != x), pendCopy := sp.pendCopy.filter (·.1.1 != x), flightsN := sp.flightsN.filter (·.1.1 != x) }) x (firstTok got)
      let r := Router.start id
      { st := { s with net := s.net.setAt x r, aseq := s.aseq.filter (·.1.1 != x), flights := s.flights.filter (·.1.1 != x), noPend := s.noPend.filter (·.1 != x), sp := sp1 },
        expected := some (dumpRouter s.keys r ++ " ann=ok"), spec := specFails, cov := ["restart"] }
    | none => { st := s, expected := some "bad-op" }
  | _ => stepRest s op got

end C18Drv

def main : IO Unit := Ndn.Driver.runResilient ({} : C18Drv.St) C18Drv.step
